import UF.Compose4.Queries
import UF.Props.C13Engine
/-
  C13 FOR `Engine.MatchRequest` AND THE COSMETIC QUERY (work group P2b, REVIEW2 F12).

  The machine `UF.Prog` has the queries `dns` (`DNSEngine.MatchRequest`) and `web` (`NetworkEngine.MatchAll`).
  `Compose4/Queries.lean` adds, as PROGRAMS over the same machine and the same shared state,
    * `matchRequest r` = `Engine.MatchRequest(r)`: `MatchAll(r)`; if `r.SourceURL != ""`, `MatchAll` of the referrer
      as a document request -- in the state the first call left --; then `NewMatchingResult` (model of group C);
    * `cosmetic hostname option` = `Engine.GetCosmeticResult`: on this tree the cosmetic engine keeps its rule
      objects in memory and never calls the storage, so the program does not touch the shared state
      (see the header of `Compose4/Queries.lean` for the code reading; the task sheet's suggestion of a second
      retrieving environment does not correspond to /repo/cosmeticengine.go).
  Stated here: for every history of the four kinds of events -- from the fresh engine, or from any state
  satisfying the shared invariant with no closed list -- every answer is the stateless one (`c13_queries`), which
  is the answer of the same event as the FIRST event on a fresh engine (`c13_queries_fresh`); on the network
  engine built from the BYTES of the lists the stateless `matchRequest` answer IS group I3's model
  `Compose3.engineMatch` / `engineMatchRequest` (`c13_queries_engine`, `c13_matchRequest_top`) and the cosmetic
  answer is `Compose3.engineCosmeticResult`; and the same for an `Engine` and a `DNSEngine` built over ONE
  storage, whose rule cache and cached rule objects (lazy-compile state) they share (`c13_two_engines`).

  NOT covered (still tests only, REVIEW2 F12): immutability of earlier result OBJECTS under
  `DNSRewrites`/`GetBasicResult`/`GetCosmeticOption` beyond `rewrites_fresh`; the answers here are values.
-/
namespace UF.C13
open UF UF.B UF.Prog UF.Storage UF.Compose UF.Compose4

/-- C13 for histories of DNS, `MatchAll`, `Engine.MatchRequest` and cosmetic events, ANY environment: from any
    state satisfying the shared invariant with no closed list (whatever the cache, the pool and the lazy-compile
    cells hold), every answer is the stateless answer of its event, and the state reached is again such a
    state. -/
theorem c13_queries {Re : Type} (env : Env Rule Re) (cx : QCtx) (s : State Rule Re) (hs : SInv env s)
    (h0 : s.closed = []) (es : List QEv) :
    (runQHistory env cx s es).2 = es.map (pureQAns env cx) ∧
      SInv env (runQHistory env cx s es).1 ∧ (runQHistory env cx s es).1.closed = [] := by
  obtain ⟨a, c⟩ := runQHistory_pure cx es (s := s) ⟨hs, h0⟩
  exact ⟨a, c.1, c.2⟩

/-- The statement of the property: the answer to an event after ANY history of events equals the answer to the
    same event as the first event on a fresh engine (empty cache, empty pool, nothing compiled). -/
theorem c13_queries_fresh {Re : Type} (env : Env Rule Re) (cx : QCtx) (es : List QEv) (e : QEv) :
    (runQEv env cx (runQHistory env cx ({} : State Rule Re) es).1 e).2 = (runQEv env cx ({} : State Rule Re) e).2 := by
  obtain ⟨_, c⟩ := runQHistory_pure cx es (clean_init env)
  rw [(runQEv_pure cx e c).1, (runQEv_pure cx e (clean_init env)).1]

/-- `Engine.MatchRequest` alone: the two `MatchAll` runs of one call see different states (the second finds the
    cache and the cells as the first left them), and the call may follow any history; the result is
    `NewMatchingResult` of the two stateless `MatchAll` answers. -/
theorem c13_matchRequest {Re : Type} (env : Env Rule Re) (cx : QCtx) (s : State Rule Re) (hs : SInv env s)
    (h0 : s.closed = []) (r : Request) :
    (runMatchRequest env cx s r).2 =
      newMatchingResult (netRulesOf (pureAnswer env (.web r)).1)
        (if r.sourceURL != [] then netRulesOf (pureAnswer env (.web (cx.sourceReq r))).1 else []) ∧
    SInv env (runMatchRequest env cx s r).1 ∧ (runMatchRequest env cx s r).1.closed = [] := by
  obtain ⟨a, c⟩ := runMatchRequest_pure cx r (s := s) ⟨hs, h0⟩
  exact ⟨a, c.1, c.2⟩

/-- The cosmetic query neither reads nor writes the shared state (rule cache, lazy-compile cells, pool, fault
    state): the state after it is the state before it, and its answer is a function of the immutable tables. -/
theorem c13_cosmetic_inert {Re : Type} (env : Env Rule Re) (cx : QCtx) (s : State Rule Re) (h : Bytes) (o : CosOpt) :
    runQEv env cx s (.cosmetic h o) = (s, .cosmetic (cx.cosmetic h o)) := rfl

/-- On the network engine built from the bytes of the lists the stateless `matchRequest` answer IS group I3's
    model of `Engine.MatchRequest` (retrieving through group D's storage in any two reachable cache states). -/
theorem c13_matchRequest_is_engine {Re : Type} (io : IO) (px : E.ParseExt) (lists : List RList) (pm : PatModel Re)
    (hpat : px.ext.pat = pm.pat) (st : RuleStorage) (hnew : newRuleStorage lists = some st)
    (history history' : List (BitVec 64)) (r : Request) :
    pureMatchRequest (envNet io px lists pm) (engineCtx px lists) r =
      Compose3.engineMatch io px lists st history history' r :=
  pureMatchRequest_envNet io px lists pm hpat st hnew history history' r

/-- C13 FOR THE `Engine` (engine.go) BUILT FROM THE BYTES OF THE LISTS: any history of `MatchAll`,
    `Engine.MatchRequest` and `GetCosmeticResult` events on the state machine returns, event by event, what the
    engine models return from the bytes: `Engine.matchAll` (group B over group D's storage with its cache in any
    reachable state), `Compose3.engineMatch` (group I3: `MatchAll` twice + `NewMatchingResult`),
    `Compose3.engineCosmeticResult` (groups B/I1/I3).  (`dns` events on this environment are the degenerate DNS
    engine without hosts table; for the real one see `c13_two_engines`.) -/
theorem c13_queries_engine {Re : Type} (io : IO) (px : E.ParseExt) (lists : List RList) (pm : PatModel Re)
    (hpat : px.ext.pat = pm.pat) (st : RuleStorage) (hnew : newRuleStorage lists = some st)
    (history history' : List (BitVec 64)) (es : List QEv) :
    (runQHistory (envNet io px lists pm) (engineCtx px lists) {} es).2 =
      es.map (engineQAns io px lists st history history') := by
  rw [(runQHistory_pure _ es (clean_init _)).1]
  exact List.map_congr_left (fun e _ => pureQAns_envNet io px lists pm hpat st hnew history history' e)

/-- …spelled out for `Engine.MatchRequest` from RAW inputs: whatever events came before, the call on
    `NewRequest(url, sourceURL, reqType)` returns group I3's top-level `engineMatchRequest` (the object of
    `c06_top`, `c16_top`). -/
theorem c13_matchRequest_top {Re : Type} (io : IO) (px : E.ParseExt) (lists : List RList) (pm : PatModel Re)
    (hpat : px.ext.pat = pm.pat) (st : RuleStorage) (hnew : newRuleStorage lists = some st)
    (history history' : List (BitVec 64)) (before : List QEv) (url sourceURL : Bytes) (reqType : Nat) :
    (runMatchRequest (envNet io px lists pm) (engineCtx px lists)
        (runQHistory (envNet io px lists pm) (engineCtx px lists) {} before).1
        (Compose3.requestOf px.ext url sourceURL reqType)).2 =
      Compose3.engineMatchRequest io px lists st history history' url sourceURL reqType := by
  obtain ⟨_, c⟩ := runQHistory_pure (engineCtx px lists) before (clean_init (envNet io px lists pm))
  rw [(runMatchRequest_pure _ _ c).1, pureMatchRequest_envNet io px lists pm hpat st hnew history history']
  rfl

/-- …and for the cosmetic query: whatever events came before, and leaving the state as it was. -/
theorem c13_cosmetic_top {Re : Type} (io : IO) (px : E.ParseExt) (lists : List RList) (pm : PatModel Re)
    (before : List QEv) (hostname : Bytes) (option : CosOpt) :
    runQEv (envNet io px lists pm) (engineCtx px lists)
        (runQHistory (envNet io px lists pm) (engineCtx px lists) {} before).1 (.cosmetic hostname option) =
      ((runQHistory (envNet io px lists pm) (engineCtx px lists) {} before).1,
        .cosmetic (Compose3.engineCosmeticResult px lists hostname option)) := rfl

/-- No hypothesis on the pattern oracle is needed (every `ext.pat` is the oracle of a pattern model). -/
theorem c13_queries_engine_every_oracle (io : IO) (px : E.ParseExt) (lists : List RList)
    (st : RuleStorage) (hnew : newRuleStorage lists = some st) (history history' : List (BitVec 64)) (es : List QEv) :
    (runQHistory (envNet io px lists (PatModel.ofOracle px.ext.pat)) (engineCtx px lists) {} es).2 =
      es.map (engineQAns io px lists st history history') :=
  c13_queries_engine io px lists _ rfl st hnew history history' es

/-- AN `Engine` AND A `DNSEngine` OVER ONE STORAGE (`NewEngine(s)`, `NewDNSEngine(s)`): they share the rule cache
    and the rule objects in it (hence their lazy-compile cells), and have their own lookup tables,
    sequential-table objects and request pool.  Any history alternating DNS queries (on the DNS engine) with
    `MatchAll`, `Engine.MatchRequest` and cosmetic queries (on the `Engine`), from the fresh pair, returns event
    by event what the engine models return from the bytes -- whatever the other engine put into the cache or
    compiled before. -/
theorem c13_two_engines {Re : Type} (io : IO) (px : E.ParseExt) (lists : List RList) (pm : PatModel Re)
    (hpat : px.ext.pat = pm.pat) (st : RuleStorage) (hnew : newRuleStorage lists = some st)
    (history history' : List (BitVec 64)) (es : List QEv) :
    (runWHistory (envNet io px lists pm) (envDns io px lists pm) (engineCtx px lists) {} es).2 =
      es.map (worldQAns io px lists st history history') := by
  rw [runWHistory_pure (sameStorage_envNet_envDns io px lists pm) _ es (clean_init _) (clean_init _)]
  apply List.map_congr_left
  intro e _
  cases e with
  | dns d => simp only [pureWAns, worldQAns, pureQAns, pureAnswer_envDns io px lists pm hpat st hnew history]
  | web r => exact pureQAns_envNet io px lists pm hpat st hnew history history' (.web r)
  | matchRequest r => exact pureQAns_envNet io px lists pm hpat st hnew history history' (.matchRequest r)
  | cosmetic h o => rfl

/-! ### Non-vacuity, from list BYTES: a blocking rule, a `$document` exception that matches the REFERRER only, a hosts
    line, a specific and a generic cosmetic rule.  `Engine.MatchRequest` with a source URL (two `MatchAll` runs:
    the document exception comes from the second) is asked three times in a history that also holds a cosmetic
    query, a plain `MatchAll` and the same request without referrer: the answers with referrer are equal, equal
    to the answer of the fresh engine and to group I3's `engineMatchRequest` from raw inputs; without referrer
    the request is blocked. -/

private def exPx : E.ParseExt :=
  { ext := { psl := fun _ => (lit "org", true), parseAddr := fun s => if s == lit "0.0.0.0" then some ⟨true, 0, []⟩ else none,
             parsePrefix := fun _ => none, pat := fun p _ t => Bytes.hasSub t p },
    loadDNSRewrite := fun _ => none, regexpShortcut := fun _ => [] }

private def exLists : List RList :=
  [⟨1, false, lit "/banner\r\n! c\n0.0.0.0 b.org\n-ads-\n@@c.org/page$document\nc.org##.ad\n##.gen\n", false⟩,
   ⟨-2, true, lit "##x\n/ad$domain=c.org\n-ads-", true⟩]

private def exIO : IO := ⟨4096, fun _ => 3⟩

private def exView : QAns → Option Bytes × Option Bytes × List Bytes × List Bytes
  | .result m => (m.basicRule.map (·.text), m.documentRule.map (·.text), [], [])
  | .rules a => (none, none, (netRulesOf a.1).map (·.text), (hostRulesOf a.2).map (·.text))
  | .cosmetic c => (none, none, c.1, c.2)

example :
    let env := envNet exIO exPx exLists (PatModel.ofOracle exPx.ext.pat)
    let cx := engineCtx exPx exLists
    let url := lit "http://x.org/ad/-ads-/banner"
    let src := lit "http://c.org/page"
    let r := Compose3.requestOf exPx.ext url src 4
    let r0 := Compose3.requestOf exPx.ext url [] 4
    let h := runQHistory env cx {}
      [.matchRequest r, .cosmetic (lit "c.org") 0xFFFFFFFF#32, .web r, .matchRequest r0, .matchRequest r, .matchRequest r]
    h.2.map exView =
      [(none, some (lit "@@c.org/page$document"), [], []),
       (none, none, [lit ".gen"], [lit ".ad"]),
       (none, none, [lit "-ads-", lit "-ads-", lit "/banner", lit "/ad$domain=c.org"], []),
       (some (lit "-ads-"), none, [], []),
       (none, some (lit "@@c.org/page$document"), [], []),
       (none, some (lit "@@c.org/page$document"), [], [])] ∧
    h.2[0]? = h.2[4]? ∧ h.2[4]? = h.2[5]? ∧
    h.2[5]? = some (runQEv env cx {} (.matchRequest r)).2 ∧
    (runQEv env cx {} (.matchRequest r)).2 =
      .result (Compose3.engineMatchRequest exIO exPx exLists ⟨exLists, []⟩ [] [] url src 4) ∧
    h.1.cache.length = 5 := by decide +kernel

/-- Two engines over the same lists: DNS queries on the DNS engine alternate with `Engine.MatchRequest` and a
    cosmetic query on the `Engine`; the shared cache grows, every answer repeats. -/
example :
    let envN := envNet exIO exPx exLists (PatModel.ofOracle exPx.ext.pat)
    let envD := envDns exIO exPx exLists (PatModel.ofOracle exPx.ext.pat)
    let cx := engineCtx exPx exLists
    let r := Compose3.requestOf exPx.ext (lit "http://x.org/ad/-ads-/banner") (lit "http://c.org/page") 4
    let d : DReq := { hostname := lit "b.org", clientName := lit "laptop" }
    let h := runWHistory envN envD cx {}
      [.dns d, .matchRequest r, .dns { hostname := lit "b.org" }, .cosmetic (lit "c.org") 0xFFFFFFFF#32, .matchRequest r]
    h.2.map exView =
      [(none, none, [], [lit "0.0.0.0 b.org"]),
       (none, some (lit "@@c.org/page$document"), [], []),
       (none, none, [], [lit "0.0.0.0 b.org"]),
       (none, none, [lit ".gen"], [lit ".ad"]),
       (none, some (lit "@@c.org/page$document"), [], [])] ∧
    h.1.web.cache.length = 6 ∧ h.1.dns.cache = h.1.web.cache ∧ h.1.dns.pool.length = 1 ∧ h.1.web.pool.length = 0 := by
  decide +kernel

/-- `c13_matchRequest_top` instantiated on these lists (its hypotheses are satisfiable), after ANY history. -/
example (before : List QEv) :
    (runMatchRequest (envNet exIO exPx exLists (PatModel.ofOracle exPx.ext.pat)) (engineCtx exPx exLists)
        (runQHistory (envNet exIO exPx exLists (PatModel.ofOracle exPx.ext.pat)) (engineCtx exPx exLists) {} before).1
        (Compose3.requestOf exPx.ext (lit "http://x.org/ad/-ads-/banner") (lit "http://c.org/page") 4)).2 =
      Compose3.engineMatchRequest exIO exPx exLists ⟨exLists, []⟩ [] []
        (lit "http://x.org/ad/-ads-/banner") (lit "http://c.org/page") 4 :=
  c13_matchRequest_top exIO exPx exLists _ rfl ⟨exLists, []⟩ rfl [] [] before _ _ 4

end UF.C13

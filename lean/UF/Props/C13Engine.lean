import UF.Compose4.EnvOfStorage
import UF.Compose4.CacheRefine
import UF.Props.C13
/-
  C13 ON THE ENGINE MODELS (integration group J).  `Props/C13.lean` proves purity for the state machine
  `UF.Prog` over an abstract environment; here the environment is `Compose4.envOf`: group B's lookup tables
  (`Engine.build` / `DnsEngine.build`: shortcut windows, domain suffixes, hosts bucket, sequential table),
  `NetworkRule.Match` of groups E/B split into its stateless checks and the lazily compiled pattern, and --
  in the `…_storage` forms -- group D's storage as the retrieval function, built from the BYTES of the lists.

  What is stated: a history of queries run on the state machine (rule cache, request pool, lazy-compile cells
  all evolving) returns, query by query, what the ENGINE MODEL returns (`Engine.matchAll`,
  `DnsEngine.matchRequest`) when it retrieves through group D's storage WITH ITS CACHE in any reachable cache
  state -- in particular the fresh one.  Lists are compared as lists (same rules, order, multiplicities).
  Property theorems only (helper lemmas live in UF/Compose4).
-/
namespace UF.C13
open UF UF.B UF.Prog UF.Storage UF.Compose UF.Compose4

/-- The stateless answer of the state machine on the engine environment IS the engine model's answer. -/
theorem c13_pure_is_engine {Re : Type} (hf : HashFns) (k : Nat) (truth : Int → Option Rule) (listOf : Int → Int)
    (etld1 : Bytes → Bytes) (ext : Ext) (pm : PatModel Re) (basic : List NetRule → Option NetRule) (d : DnsEngine)
    (hpat : ext.pat = pm.pat) (q : Query) :
    pureAnswer (envOf hf k truth listOf etld1 ext pm basic d) q = engineAnswer hf k truth etld1 ext basic d q :=
  pureAnswer_eq hf k truth listOf etld1 ext pm basic d hpat q

/-- `Match` of the state machine on a fresh rule object is group B/E's `NetworkRule.Match`. -/
theorem c13_match_is_engine {Re : Type} (hf : HashFns) (k : Nat) (truth : Int → Option Rule) (listOf : Int → Int)
    (etld1 : Bytes → Bytes) (ext : Ext) (pm : PatModel Re) (basic : List NetRule → Option NetRule) (d : DnsEngine)
    (hpat : ext.pat = pm.pat) (n : NetRule) (q : Request) :
    (envOf hf k truth listOf etld1 ext pm basic d).mtch (.net n) q = n.matches ext q :=
  envOf_mtch_net hf k truth listOf etld1 ext pm basic d hpat n q

/-- C13 for ANY engine model (any hash pair, window length, tables `d`, retrieval function, pattern model):
    every history of web and DNS queries, from any state satisfying the shared invariant, answers what the
    engine model answers statelessly. -/
theorem c13_engine_generic {Re : Type} (hf : HashFns) (k : Nat) (truth : Int → Option Rule) (listOf : Int → Int)
    (etld1 : Bytes → Bytes) (ext : Ext) (pm : PatModel Re) (basic : List NetRule → Option NetRule) (d : DnsEngine)
    (hpat : ext.pat = pm.pat) (s : State Rule Re) (hs : SInv (envOf hf k truth listOf etld1 ext pm basic d) s)
    (h0 : s.closed = []) (qs : List Query) :
    (runHistory (envOf hf k truth listOf etld1 ext pm basic d) s (qs.map HEv.query)).2 =
      qs.map (engineAnswer hf k truth etld1 ext basic d) := by
  rw [c13_history _ qs s hs h0]
  exact List.map_congr_left (fun q _ => pureAnswer_eq hf k truth listOf etld1 ext pm basic d hpat q)

/-- C13 FOR THE DNS ENGINE BUILT FROM THE BYTES OF THE LISTS: any history of queries (DNS queries through
    the request pool; `web` queries = `MatchAll` of its network engine) on the state machine returns, query by
    query, what group B's engine model returns when it retrieves through group D's storage with its cache in
    ANY reachable cache state `reach … history` -- e.g. `history = []`, the fresh engine. -/
theorem c13_engine {Re : Type} (io : IO) (px : E.ParseExt) (lists : List RList) (pm : PatModel Re)
    (hpat : px.ext.pat = pm.pat) (st : RuleStorage) (hnew : newRuleStorage lists = some st)
    (history : List (BitVec 64)) (qs : List Query) :
    (runHistory (envDns io px lists pm) {} (qs.map HEv.query)).2 = qs.map (dnsAnswer io px lists st history) := by
  rw [c13_history _ qs {} (sinv_init _) rfl]
  exact List.map_congr_left (fun q _ => pureAnswer_envDns io px lists pm hpat st hnew history q)

/-- The same for the network engine of the lists (`NewNetworkEngine`). -/
theorem c13_engine_net {Re : Type} (io : IO) (px : E.ParseExt) (lists : List RList) (pm : PatModel Re)
    (hpat : px.ext.pat = pm.pat) (st : RuleStorage) (hnew : newRuleStorage lists = some st)
    (history : List (BitVec 64)) (qs : List Query) :
    (runHistory (envNet io px lists pm) {} (qs.map HEv.query)).2 = qs.map (netAnswer io px lists st history) := by
  rw [c13_history _ qs {} (sinv_init _) rfl]
  exact List.map_congr_left (fun q _ => pureAnswer_envNet io px lists pm hpat st hnew history q)

/-- …spelled out for `NetworkEngine.MatchAll`: whatever was asked before (`before`), the answer to `q` is the
    list `Engine.matchAll` computes on the engine built from the lists -- the object `C01.c01_storage` equates
    with the linear scan of the lists. -/
theorem c13_engine_matchAll {Re : Type} (io : IO) (px : E.ParseExt) (lists : List RList) (pm : PatModel Re)
    (hpat : px.ext.pat = pm.pat) (st : RuleStorage) (hnew : newRuleStorage lists = some st)
    (history : List (BitVec 64)) (before : List Query) (q : Request) :
    (runQuery (envNet io px lists pm) (runHistory (envNet io px lists pm) {} (before.map HEv.query)).1 (.web q)).2.answer =
      (((Engine.build djb2 Facts.shortcutLength (storageNetRules px lists)).matchAll djb2 Facts.shortcutLength
          (retrieveNet (retrieveAt io px (reach io px st history))) px.ext q).map Rule.net, []) := by
  rw [c13_fresh, (c13 _ {} (.web q) (sinv_init _) rfl).2.1, pureAnswer_envNet io px lists pm hpat st hnew history]
  rfl

/-- …and for `DNSEngine.MatchRequest`: whatever was asked before and whatever the pooled request `old` holds,
    the answer assembles to group I3's top-level model `dnsEngineMatchRequest` (from bytes). -/
theorem c13_engine_matchRequest {Re : Type} (io : IO) (px : E.ParseExt) (lists : List RList) (pm : PatModel Re)
    (hpat : px.ext.pat = pm.pat) (st : RuleStorage) (hnew : newRuleStorage lists = some st)
    (history : List (BitVec 64)) (before : List Query) (old : Request) (d : DReq) (hd : d.hostname ≠ []) :
    dnsResultOf getDNSBasicRule
        (runQuery (envDns io px lists pm) (runHistory (envDns io px lists pm) {} (before.map HEv.query)).1 (.dns d)).2.answer =
      Compose3.dnsEngineMatchRequest io px lists st history old d := by
  rw [c13_fresh, (c13 _ {} (.dns d) (sinv_init _) rfl).2.1, pureAnswer_envDns io px lists pm hpat st hnew history,
    dnsAnswer_dns io px lists st history old d hd]

/-- No hypothesis on the pattern oracle is needed: every `ext.pat` is the oracle of a pattern model (the
    compiled object = the pair it was compiled from). -/
theorem c13_engine_every_oracle (io : IO) (px : E.ParseExt) (lists : List RList)
    (st : RuleStorage) (hnew : newRuleStorage lists = some st) (history : List (BitVec 64)) (qs : List Query) :
    (runHistory (envDns io px lists (PatModel.ofOracle px.ext.pat)) {} (qs.map HEv.query)).2 =
      qs.map (dnsAnswer io px lists st history) :=
  c13_engine io px lists _ rfl st hnew history qs

/-- THE CACHE OF THE STATE MACHINE IS GROUP D'S STORAGE CACHE: from related states (`CacheRel`: the state
    machine's cache serves exactly the rule objects behind what `RuleStorage.cache` holds; a new storage and the
    empty state are related), the retrieval sub-program `get / read / put` of the state machine, run alone, hands
    the table the pointer `RuleStorage.RetrieveRule` of group D's model returns (`retrieveFull`, before the type
    assertion of `RetrieveNetworkRule`/`RetrieveHostRule`), and ends in related states.  `i` is any Go `int64`
    (every index a table holds is one: `idxOf k = k.toInt`). -/
theorem c13_cache_is_storage_cache {Re : Type} (io : IO) (px : E.ParseExt) (lists : List RList) (pm : PatModel Re)
    (st : RuleStorage) (hinv : Storage.CacheInv io (realParser px) st) (hl : st.lists = lists)
    (s : State Rule Re) (t : Thread Rule) (src : Src) (i : Int) (hi : (BitVec.ofInt 64 i).toInt = i)
    (hrel : CacheRel px st s.cache) (h0 : s.closed = []) :
    (retrieveProg (envDns io px lists pm) s t src i).2.pc =
        .use src i ((retrieveFull io px st (BitVec.ofInt 64 i)).1.filter ((envDns io px lists pm).wants src)) ∧
      CacheRel px (retrieveFull io px st (BitVec.ofInt 64 i)).2 (retrieveProg (envDns io px lists pm) s t src i).1.cache ∧
      (retrieveProg (envDns io px lists pm) s t src i).1.closed = [] :=
  retrieve_refines io px lists (envDns io px lists pm) rfl st hinv hl s t src i hi hrel h0

/-! ### Non-vacuity: a concrete storage (two lists, String- and File-backed; a hosts line; a `$domain` rule; the
    same text in both lists), the network engine built from its bytes, and a history of two identical queries
    run on the STATE MACHINE: the second finds the cache warm and the lazy-compile cells set, both return the
    list `Engine.matchAll` computes (shortcuts table first, then the domains table). -/

private def exPx : E.ParseExt :=
  { ext := { psl := fun _ => (lit "org", true), parseAddr := fun s => if s == lit "0.0.0.0" then some ⟨true, 0, []⟩ else none,
             parsePrefix := fun _ => none, pat := fun p _ t => Bytes.hasSub t p },
    loadDNSRewrite := fun _ => none, regexpShortcut := fun _ => [] }

private def exLists : List RList :=
  [⟨1, false, lit "/banner\r\n! c\n0.0.0.0 b.org\n-ads-\n", false⟩,
   ⟨-2, true, lit "##x\n/ad$domain=c.org\n-ads-", true⟩]

private def exQ : Request :=
  { url := lit "http://x.org/ad/-ads-/banner", urlLower := lit "http://x.org/ad/-ads-/banner", hostname := lit "x.org",
    sourceURL := lit "http://c.org/", sourceHostname := lit "c.org", reqType := 4, thirdParty := true }

example :
    let env := envNet ⟨4096, fun _ => 3⟩ exPx exLists (PatModel.ofOracle exPx.ext.pat)
    let h := runHistory env {} [.query (.web exQ), .query (.web exQ)]
    h.2.map (fun a => (netRulesOf a.1).map (fun r => (r.text, r.listID))) =
        [[(lit "-ads-", 1), (lit "-ads-", -2), (lit "/banner", 1), (lit "/ad$domain=c.org", -2)],
         [(lit "-ads-", 1), (lit "-ads-", -2), (lit "/banner", 1), (lit "/ad$domain=c.org", -2)]] ∧
      h.1.cache.length = 4 ∧
      ((Engine.build djb2 Facts.shortcutLength (storageNetRules exPx exLists)).matchAll djb2 Facts.shortcutLength
          (retrieveNet (retrieveAt ⟨4096, fun _ => 3⟩ exPx ⟨exLists, []⟩)) exPx.ext exQ).map (fun r => (r.text, r.listID)) =
        [(lit "-ads-", 1), (lit "-ads-", -2), (lit "/banner", 1), (lit "/ad$domain=c.org", -2)] := by decide +kernel

end UF.C13

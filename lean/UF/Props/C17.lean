import UF.Proofs.RequestRef
/-
  C17 — request fields agree with the standard URL parser and the Public Suffix List.

  Model: UF/Model/RequestNew.lean (`extractHostname`, `effectiveTLDPlusOne`, `newRequest`,
  `fillRequestForHostname`) mirrors filterutil/util.go and rules/request.go.
  Reference: UF/Spec/Request.lean.  `publicsuffix.PublicSuffix` is an arbitrary oracle `ext.psl`
  (hypothesis where needed: it answers with a dot-suffix of the hostname).  `net/url` and the PSL
  data themselves are compared in Go by the `assert c17.*` ops of the correspondence check.
-/
namespace UF.H
open Bytes

/-- For a well-formed hierarchical URL
      `scheme "://" host [":" port] [("/"|"?") rest]`
    (scheme free of '/', host free of `/ : ?`), the extracted hostname is `host`. -/
theorem extract_host (scheme host port rest : Bytes) (hasPort : Bool) (sep : Option UInt8)
    (hs : scheme.all (fun c => c != ch '/' && c != ch ':') = true)
    (hh : host.all (fun c => !(c == ch '/' || c == ch ':' || c == ch '?' || c == ch '#')) = true)
    (hsep : sep = none ∨ sep = some (ch '/') ∨ sep = some (ch '?')) :
    extractHostname
      (scheme ++ lit "://" ++ host ++
        ((if hasPort then ch ':' :: port else []) ++
         (match sep with | none => [] | some c => c :: rest))) = .ok host := by
  apply extract_host_url
  · simp only [List.all_eq_true] at hs ⊢
    intro x hx
    have := hs x hx
    simp only [Bool.and_eq_true] at this
    exact this.1
  · simp only [List.all_eq_true] at hh ⊢
    intro x hx
    have := hh x hx
    simp only [isStop]
    cases h1 : x == ch '/' <;> cases h2 : x == ch ':' <;> cases h3 : x == ch '?' <;> simp_all
  · cases hasPort with
    | true => exact Or.inr ⟨ch ':', _, rfl, by decide⟩
    | false =>
      rcases hsep with h | h | h <;> subst h
      · left; rfl
      · exact Or.inr ⟨ch '/', _, rfl, by decide⟩
      · exact Or.inr ⟨ch '?', _, rfl, by decide⟩

/-- The hand-rolled `effectiveTLDPlusOne` equals the reference "public suffix plus one label"
    (`none` ↦ "") for every hostname without empty labels and every oracle whose answer is a
    dot-suffix of the hostname. -/
theorem etld1_spec (ext : Ext) (h : Bytes) (hn : noEmptyLabel h = true)
    (hsuf : h = (ext.psl h).1 ∨ ∃ pre, h = pre ++ ch '.' :: (ext.psl h).1) :
    effectiveTLDPlusOne ext h = .ok ((refETLD1 ext h).getD []) :=
  effectiveTLDPlusOne_eq_ref ext h hn hsuf

/-- The lower-cased URL is the lower-casing of the length-capped URL (and the stored URL is the
    capped URL). -/
theorem lower_capped (ext : Ext) (url src : Bytes) (t : Nat) (q : Request)
    (h : newRequest ext url src t = .ok q) :
    q.url = url.take Facts.maxURLLength ∧ q.urlLower = toLower (url.take Facts.maxURLLength) ∧
    q.sourceURL = src.take Facts.maxURLLength ∧ q.reqType = t := by
  obtain ⟨_, _, _, _, _, _, _, _, hq⟩ := newRequest_eq ext url src t
  rw [hq] at h
  cases h
  exact ⟨rfl, rfl, rfl, rfl⟩

/-- Hostname and registrable domain of the request: the domain is eTLD+1 of the hostname, or the
    hostname itself when there is none. -/
theorem c17_domain (ext : Ext) (url src : Bytes) (t : Nat) (q : Request)
    (h : newRequest ext url src t = .ok q) :
    extractHostname (url.take Facts.maxURLLength) = .ok q.hostname ∧
    extractHostname (src.take Facts.maxURLLength) = .ok q.sourceHostname ∧
    (∃ e, effectiveTLDPlusOne ext q.hostname = .ok e ∧ q.domain = if e = [] then q.hostname else e) ∧
    (∃ e, effectiveTLDPlusOne ext q.sourceHostname = .ok e ∧
      q.sourceDomain = if e = [] then q.sourceHostname else e) := by
  obtain ⟨hh, sh, e, se, h1, h2, h3, h4, hq⟩ := newRequest_eq ext url src t
  rw [hq] at h
  cases h
  refine ⟨h1, h2, ⟨e, h3, ?_⟩, ⟨se, h4, ?_⟩⟩
  · cases e <;> simp
  · cases se <;> simp

/-- With the PSL reference: for hostnames without empty labels (oracle answering a dot-suffix),
    `Domain` is the reference registrable domain. -/
theorem c17_domain_ref (ext : Ext) (url src : Bytes) (t : Nat) (q : Request)
    (h : newRequest ext url src t = .ok q) (hn : noEmptyLabel q.hostname = true)
    (hsuf : q.hostname = (ext.psl q.hostname).1 ∨ ∃ pre, q.hostname = pre ++ ch '.' :: (ext.psl q.hostname).1) :
    q.domain = refDomain ext q.hostname := by
  obtain ⟨_, _, ⟨e, he, hd⟩, _⟩ := c17_domain ext url src t q h
  rw [etld1_spec ext q.hostname hn hsuf] at he
  cases he
  rw [hd]
  unfold refDomain
  cases hr : refETLD1 ext q.hostname with
  | none => simp
  | some d =>
    -- the reference never yields the empty string for a host without empty labels
    have := refETLD1_ne_nil ext q.hostname d hn hr
    cases d with
    | nil => exact absurd rfl this
    | cons c r => simp

/-- A request is third-party iff it has a source whose registrable domain differs from its own. -/
theorem third_party_iff (ext : Ext) (url src : Bytes) (t : Nat) (q : Request)
    (h : newRequest ext url src t = .ok q) :
    q.thirdParty = true ↔ (q.sourceDomain ≠ [] ∧ q.sourceDomain ≠ q.domain) := by
  obtain ⟨_, _, _, _, _, _, _, _, hq⟩ := newRequest_eq ext url src t
  rw [hq] at h
  cases h
  simp

theorem third_party_eq_ref (ext : Ext) (url src : Bytes) (t : Nat) (q : Request)
    (h : newRequest ext url src t = .ok q) :
    q.thirdParty = refThirdParty q.domain q.sourceDomain := by
  have := third_party_iff ext url src t q h
  unfold refThirdParty
  cases hq : q.thirdParty
  · have h' : ¬(q.sourceDomain ≠ [] ∧ q.sourceDomain ≠ q.domain) := by
      intro hc; rw [this.mpr hc] at hq; cases hq
    simp [h']
  · simp [this.mp hq]

/-- Third-party is symmetric in (url, source) when both have a registrable domain. -/
theorem third_party_symm (ext : Ext) (u s : Bytes) (t t' : Nat) (q q' : Request)
    (h : newRequest ext u s t = .ok q) (h' : newRequest ext s u t' = .ok q')
    (hd : q.domain ≠ []) (hsd : q.sourceDomain ≠ []) :
    q.thirdParty = q'.thirdParty := by
  obtain ⟨a, b, e, se, h1, h2, h3, h4, hq⟩ := newRequest_eq ext u s t
  obtain ⟨a', b', e', se', h1', h2', h3', h4', hq'⟩ := newRequest_eq ext s u t'
  rw [hq] at h
  rw [hq'] at h'
  cases h
  cases h'
  -- the same intermediate values on both sides
  rw [h2] at h1'
  cases h1'
  rw [h1] at h2'
  cases h2'
  rw [h4] at h3'
  cases h3'
  rw [h3] at h4'
  cases h4'
  simp only at hd hsd ⊢
  generalize (if (!e.isEmpty) = true then e else a) = D at hd ⊢
  generalize (if (!se.isEmpty) = true then se else b) = S at hsd ⊢
  have key : (S != D) = (D != S) := by
    by_cases heq : S = D
    · subst heq; rfl
    · have hne : D ≠ S := fun h => heq h.symm
      rw [bne_iff_ne.mpr heq, bne_iff_ne.mpr hne]
  cases D with
  | nil => exact absurd rfl hd
  | cons x xs =>
    cases S with
    | nil => exact absurd rfl hsd
    | cons y ys =>
      simp only [List.isEmpty_cons, Bool.not_false, Bool.true_and]
      exact key

/-- `FillRequestForHostname`: the fields it sets, and that it leaves the other ones alone. -/
theorem fill_hostname (ext : Ext) (r : Request) (hostname : Bytes) :
    ∃ e, effectiveTLDPlusOne ext hostname = .ok e ∧
      fillRequestForHostname ext r hostname = .ok
        { r with url := lit "http://" ++ hostname, urlLower := lit "http://" ++ hostname,
                 hostname := hostname, reqType := Facts.TypeDocument, thirdParty := false,
                 isHostnameRequest := true, domain := if e = [] then hostname else e } := by
  obtain ⟨e, he, hd⟩ := domainOrHost_ok ext hostname
  refine ⟨e, he, ?_⟩
  simp only [fillRequestForHostname, hd]
  cases e <;> simp

/-- For a lower-case hostname the request for a hostname equals the request for `http://hostname`
    in every URL-derived field. -/
theorem fill_hostname_url (ext : Ext) (hostname : Bytes) (q : Request)
    (hh : hostname.all (fun c => !isStop c) = true)
    (h : newRequestForHostname ext hostname = .ok q) :
    extractHostname q.url = .ok q.hostname := by
  obtain ⟨e, _, hq⟩ := fill_hostname ext {} hostname
  unfold newRequestForHostname at h
  rw [hq] at h
  cases h
  have := extract_host_url (lit "http") hostname [] (by decide) hh (Or.inl rfl)
  simpa [lit] using this

/-- Neither the URL functions nor `NewRequest` ever panic, for any input and any oracle
    (`url[firstIdx:]`, `url[firstIdx:nextIdx]`, `hostname[0]`, `hostname[len-1]`, `hostname[i]`,
    `hostname[:i]`, `hostname[1+k:]`, `url[:maxURLLength]`). -/
theorem c17_total (ext : Ext) (url src : Bytes) (t : Nat) :
    (∃ h, extractHostname url = .ok h) ∧ (∃ d, effectiveTLDPlusOne ext url = .ok d) ∧
    (∃ q, newRequest ext url src t = .ok q) ∧ (∃ q, newRequestForHostname ext url = .ok q) := by
  refine ⟨extractHostname_ok url, effectiveTLDPlusOne_ok ext url, ?_, ?_⟩
  · obtain ⟨h, sh, e, se, _, _, _, _, hq⟩ := newRequest_eq ext url src t
    exact ⟨_, hq⟩
  · obtain ⟨e, _, hq⟩ := fill_hostname ext {} url
    exact ⟨_, hq⟩

/-- On the URL grammar of the property (request URL `scheme://host tail`, a source of the same
    shape, both within the 4 KiB cap, hosts without empty labels, PSL oracle answering a
    dot-suffix) `NewRequest` returns exactly the reference request: hostname = the grammar's host,
    domain = public suffix plus one label (or the host), third-party = "source domain differs". -/
theorem c17_request_eq_ref (ext : Ext) (scheme host tail sscheme shost stail : Bytes) (t : Nat)
    (hu : goodURLParts scheme host tail = true) (hs : goodURLParts sscheme shost stail = true)
    (hlen : (scheme ++ lit "://" ++ host ++ tail).length ≤ Facts.maxURLLength)
    (hslen : (sscheme ++ lit "://" ++ shost ++ stail).length ≤ Facts.maxURLLength)
    (hn : noEmptyLabel host = true) (hp : pslIsDotSuffix ext host)
    (hsn : noEmptyLabel shost = true) (hsp : pslIsDotSuffix ext shost) :
    ∃ q, newRequest ext (scheme ++ lit "://" ++ host ++ tail) (sscheme ++ lit "://" ++ shost ++ stail) t = .ok q ∧
      refRequest ext (scheme ++ lit "://" ++ host ++ tail) (sscheme ++ lit "://" ++ shost ++ stail) t = some q ∧
      q.hostname = host ∧ q.sourceHostname = shost := by
  obtain ⟨a, b, e, se, h1, h2, h3, h4, hq⟩ :=
    newRequest_eq ext (scheme ++ lit "://" ++ host ++ tail) (sscheme ++ lit "://" ++ shost ++ stail) t
  rw [List.take_of_length_le hlen] at h1 hq
  rw [List.take_of_length_le hslen] at h2 hq
  obtain ⟨u1, u2, e', u3, u4⟩ := url_side ext scheme host tail hu hn hp
  obtain ⟨s1, s2, se', s3, s4⟩ := url_side ext sscheme shost stail hs hsn hsp
  rw [u1] at h1; cases h1
  rw [s1] at h2; cases h2
  rw [u3] at h3; cases h3
  rw [s3] at h4; cases h4
  refine ⟨_, hq, ?_, rfl, rfl⟩
  unfold refRequest
  rw [List.take_of_length_le hlen, List.take_of_length_le hslen]
  have hsne : (sscheme ++ lit "://" ++ shost ++ stail).isEmpty = false := by
    have := (goodURLParts_unpack hs).1
    cases sscheme with
    | nil => exact absurd rfl this
    | cons c r => rfl
  simp only [hsne, Bool.false_eq_true, if_false, u2, s2, hn, hsn, Bool.or_true, Bool.and_self, Bool.not_true]
  rw [u4, s4]
  congr 2
  unfold refThirdParty
  generalize refDomain ext shost = S
  generalize refDomain ext host = D
  cases S with
  | nil => simp
  | cons y ys => by_cases h : y :: ys = D <;> simp [h]

/-- The same without a source (`sourceURL = ""`): never third-party. -/
theorem c17_request_eq_ref_nosrc (ext : Ext) (scheme host tail : Bytes) (t : Nat)
    (hu : goodURLParts scheme host tail = true)
    (hlen : (scheme ++ lit "://" ++ host ++ tail).length ≤ Facts.maxURLLength)
    (hn : noEmptyLabel host = true) (hp : pslIsDotSuffix ext host) :
    ∃ q, newRequest ext (scheme ++ lit "://" ++ host ++ tail) [] t = .ok q ∧
      refRequest ext (scheme ++ lit "://" ++ host ++ tail) [] t = some q ∧
      q.hostname = host ∧ q.thirdParty = false := by
  obtain ⟨a, b, e, se, h1, h2, h3, h4, hq⟩ := newRequest_eq ext (scheme ++ lit "://" ++ host ++ tail) [] t
  rw [List.take_of_length_le hlen] at h1 hq
  simp only [List.take_nil] at h2 hq
  obtain ⟨u1, u2, e', u3, u4⟩ := url_side ext scheme host tail hu hn hp
  obtain ⟨s1, se', s3, s4⟩ := empty_side ext
  rw [u1] at h1; cases h1
  rw [s1] at h2; cases h2
  rw [u3] at h3; cases h3
  rw [s3] at h4; cases h4
  have hsd : refDomain ext [] = [] := by
    unfold refDomain refETLD1
    have hk : (splitByte (ext.psl []).1 (ch '.')) ≠ [] := splitByte_go_ne_nil _ _ _
    have : (splitByte [] (ch '.')).length ≤ (splitByte (ext.psl []).1 (ch '.')).length := by
      have h1 : (splitByte [] (ch '.')).length = 1 := by decide
      have h2 : 0 < (splitByte (ext.psl []).1 (ch '.')).length := List.length_pos_iff.mpr hk
      omega
    simp [this]
  rw [s4, hsd] at hq
  refine ⟨_, hq, ?_, rfl, by simp⟩
  unfold refRequest
  rw [List.take_of_length_le hlen]
  simp only [List.take_nil, List.isEmpty_nil, if_true, u2, hn, Bool.and_self, Bool.not_true,
    Bool.false_eq_true, if_false, Bool.true_or]
  rw [u4, hsd]
  simp [refThirdParty]

/-! Non-vacuity -/


example : (effectiveTLDPlusOne c17Ext (lit "www.example.co.uk")).toOption = some (lit "example.co.uk") := by decide
example : (effectiveTLDPlusOne c17Ext (lit "co.uk")).toOption = some [] := by decide
example : noEmptyLabel (lit "www.example.co.uk") = true ∧
    (∃ pre, lit "www.example.co.uk" = pre ++ ch '.' :: (c17Ext.psl (lit "www.example.co.uk")).1) :=
  ⟨by decide, lit "www.example", by decide⟩
example : (newRequest c17Ext (lit "https://www.example.co.uk:8080/a?b") (lit "http://cdn.other.com/") 4).toOption.map
    (fun q => (q.hostname, q.domain, q.sourceDomain, q.thirdParty)) =
    some (lit "www.example.co.uk", lit "example.co.uk", lit "other.com", true) := by decide
/-- The hypotheses of `c17_request_eq_ref` are satisfiable. -/
example : goodURLParts (lit "https") (lit "www.example.co.uk") (lit ":8080/a?b#c") = true ∧
    goodURLParts (lit "http") (lit "cdn.other.com") (lit "/") = true ∧
    pslIsDotSuffix c17Ext (lit "www.example.co.uk") ∧ pslIsDotSuffix c17Ext (lit "cdn.other.com") :=
  ⟨by decide, by decide, Or.inr ⟨lit "www.example", by decide⟩, Or.inr ⟨lit "cdn.other", by decide⟩⟩
/-- The non-hierarchical branch really takes "index of ':' minus one". -/
example : (extractHostname (lit "stun:example.org")).toOption = some (lit "n") := by decide

end UF.H

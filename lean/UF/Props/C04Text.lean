import UF.Compose5.TextRef
import UF.Props.C04Full
/-
  C04 AT TEXT LEVEL (integration group L) — an INDEPENDENT reference for rule TEXT.

  The reference of `c04` / `c04_text` (`specMatch`, group E) is a function of the RECORD the model parser
  produced; nothing there specifies the modifier grammar.  Here the grammar is DATA (UF/Compose5/Grammar.lean):

    * `Mod`      one modifier as written: a bare option name, `third-party` in its two spellings and the two
                 spellings of its negation, `~match-case`, `document`, `[~]content-type`, and the five
                 value-carrying modifiers with their values in written order, each value negated or not;
    * `render`   the rule text `[@@] pattern [$ mod , mod , …]` (values joined with `|`, `~` for negation);
    * `ModSpec`  what the text MEANS, family by family (`ModSpec.ofMods`): content-type names ↦ the generated
                 `Facts.Type*` bits, `$dnstype` names ↦ numbers through the generated `dns.StringToType` table,
                 the document-only options (`elemhide`, `generichide`, `genericblock`, `jsinject`, `urlblock`,
                 `content`, `extension`, `popup`; `document` implies five of them) ↦ "document requests only";
    * `specMatchText`  the reference of the property, a function of (pattern as written, ModSpec, request).

  GRAMMAR-LEVEL LEMMAS (`c04_grammar_*`): whatever the parser model accepts for a rendered text stores, for
  each modifier family, exactly what the structured data say — for ANY order of the modifiers and ANY order
  and negation pattern of the values.  `c04_text_ref`: `Match` of the parsed rule = `specMatchText` of the
  structured data.

  DOMAIN (stated as hypotheses, executable as `patOK` / `modsOK` for the driver):
    * pattern: non-empty, first byte neither `@` nor `/` (mask patterns; `/regex/` rules: `c04_regex_some`),
      no `$`, no backslash;
    * "any subset of modifiers": each value-carrying modifier (`domain`, `denyallow`, `dnstype`, `ctag`,
      `client`) at most once (given twice, the LAST one wins in Go — outside the property's grammar);
      value lists non-empty; values non-empty and free of `, \ $ | ~ ' "` (so `$client` values are unquoted and
      unescaped); `$dnstype` names ASCII;
    * not in the grammar: `~extension` (toggles a bit), `$dnsrewrite` (C09/C10), `$replace`/`$csp`/… (unreachable).
  Only property theorems and non-vacuity examples here; helper lemmas live in UF/Compose5.

  Added by group P2 (REVIEW2 F11): Props/C04Perm.lean PROVES what `c04_text_ref_order` below assumes (`hsame`):
  the reference is invariant under permutation of modifiers and values (`c04_text_ref_perm`).  Props/C04Wide.lean
  proves `c04_text_ref` for a WIDER grammar: quoted client names, patterns beginning with `/`, `~extension`.
-/
namespace UF.C04
open UF Bytes UF.I2 UF.L

/-! ### grammar-level lemmas, one per modifier family -/

/-- ALL FAMILIES: the parsed record in terms of the meaning of the modifiers (`ParsedAs`). -/
theorem c04_grammar (px : E.ParseExt) (wl : Bool) (pat : Bytes) (ms : List Mod) (id : Int) (r : NetRule)
    (hp : patOK pat = true) (hm : modsOK ms = true)
    (h : E.parseNetRule px (render wl pat ms) id = .ok r) :
    ParsedAs px.ext wl (ModSpec.ofMods ms) r :=
  parsedAs_of_parse hp hm h

/-- `$domain=v1|~v2|…`: the permitted domains are the values written without `~`, the restricted ones those
    written with `~`, each list in written order. -/
theorem c04_grammar_domain (px : E.ParseExt) (wl : Bool) (pat : Bytes) (ms : List Mod) (id : Int) (r : NetRule)
    (hp : patOK pat = true) (hm : modsOK ms = true)
    (h : E.parseNetRule px (render wl pat ms) id = .ok r) :
    r.permDomains = (ModSpec.ofMods ms).permDomains ∧ r.restrDomains = (ModSpec.ofMods ms).restrDomains :=
  ⟨(parsedAs_of_parse hp hm h).permDomains, (parsedAs_of_parse hp hm h).restrDomains⟩

/-- … and the meaning of the one `domain` modifier of a list: its values, split by the `~`. -/
theorem c04_grammar_domain_values (pre post : List Mod) (vs : List (Bool × Bytes))
    (h : modsOK (pre ++ .domain vs :: post) = true) :
    (ModSpec.ofMods (pre ++ .domain vs :: post)).permDomains = posVals vs ∧
    (ModSpec.ofMods (pre ++ .domain vs :: post)).restrDomains = negVals vs := by
  have hone : atMostOne Mod.isDomain (pre ++ .domain vs :: post) = true := by
    unfold modsOK at h; simp only [Bool.and_eq_true] at h; exact h.1.1.1.1.2
  unfold atMostOne at hone
  simp only [decide_eq_true_eq, List.filter_append, List.length_append] at hone
  rw [List.filter_cons_of_pos (by rfl), List.length_cons] at hone
  have hnone : ∀ l : List Mod, (l.filter Mod.isDomain).length = 0 → ∀ (f : List (Bool × Bytes) → List Bytes),
      l.flatMap (fun m => f m.domainVals) = [] ∨ f [] ≠ [] := by
    intro l hl f
    by_cases hf : f [] = []
    · left
      induction l with
      | nil => rfl
      | cons m l ih =>
        cases hm : Mod.isDomain m with
        | true => rw [List.filter_cons_of_pos hm] at hl; simp at hl
        | false =>
          rw [List.filter_cons_of_neg (by simp [hm])] at hl
          rw [List.flatMap_cons, ih hl]
          cases m <;> first | (simpa [Mod.domainVals] using hf) | cases hm
    · exact .inr hf
  have h1 : (pre.filter Mod.isDomain).length = 0 := by omega
  have h2 : (post.filter Mod.isDomain).length = 0 := by omega
  constructor
  · show (pre ++ .domain vs :: post).flatMap (fun m => posVals m.domainVals) = _
    rw [List.flatMap_append, List.flatMap_cons]
    rcases hnone pre h1 posVals with e | e
    · rcases hnone post h2 posVals with e' | e'
      · rw [e, e']; simp [Mod.domainVals]
      · exact absurd rfl e'
    · exact absurd rfl e
  · show (pre ++ .domain vs :: post).flatMap (fun m => negVals m.domainVals) = _
    rw [List.flatMap_append, List.flatMap_cons]
    rcases hnone pre h1 negVals with e | e
    · rcases hnone post h2 negVals with e' | e'
      · rw [e, e']; simp [Mod.domainVals]
      · exact absurd rfl e'
    · exact absurd rfl e

/-- `$ctag=…`: the stored tag lists are the written values, SORTED (what `matchClientTags`' merge needs). -/
theorem c04_grammar_ctag (px : E.ParseExt) (wl : Bool) (pat : Bytes) (ms : List Mod) (id : Int) (r : NetRule)
    (hp : patOK pat = true) (hm : modsOK ms = true)
    (h : E.parseNetRule px (render wl pat ms) id = .ok r) :
    r.permTags = sortB (ModSpec.ofMods ms).permTags ∧ r.restrTags = sortB (ModSpec.ofMods ms).restrTags :=
  ⟨(parsedAs_of_parse hp hm h).permTags, (parsedAs_of_parse hp hm h).restrTags⟩

/-- Content types: each written name ↦ its generated bit, `~name` ↦ the restricted mask; with a
    document-only option (or `$document`) the permitted mask is OVERRIDDEN by `TypeDocument`. -/
theorem c04_grammar_types (px : E.ParseExt) (wl : Bool) (pat : Bytes) (ms : List Mod) (id : Int) (r : NetRule)
    (hp : patOK pat = true) (hm : modsOK ms = true)
    (h : E.parseNetRule px (render wl pat ms) id = .ok r) :
    r.permTypes = (if (ModSpec.ofMods ms).docOnly then Facts.TypeDocument else bitsOf (ModSpec.ofMods ms).permTypes) ∧
    r.restrTypes = bitsOf (ModSpec.ofMods ms).restrTypes :=
  ⟨(parsedAs_of_parse hp hm h).permTypes, (parsedAs_of_parse hp hm h).restrTypes⟩

/-- The name ↦ bit table of the grammar is the generated one, bit by bit (a changed `Type*` constant or a
    renamed content type breaks this). -/
theorem c04_grammar_type_table :
    CType.all.map (fun c => (c.name, c.bit)) =
      [(lit "script", Facts.TypeScript), (lit "stylesheet", Facts.TypeStylesheet),
       (lit "subdocument", Facts.TypeSubdocument), (lit "object", Facts.TypeObject), (lit "image", Facts.TypeImage),
       (lit "xmlhttprequest", Facts.TypeXmlhttprequest), (lit "media", Facts.TypeMedia), (lit "font", Facts.TypeFont),
       (lit "websocket", Facts.TypeWebsocket), (lit "ping", Facts.TypePing), (lit "other", Facts.TypeOther)] ∧
    CType.all.all (fun c => E.contentTypeOf c.name == some c.bit) = true ∧
    (CType.all.map CType.bit).Pairwise (· ≠ ·) := by
  refine ⟨rfl, by decide, by decide⟩

/-- `third-party` / `~first-party` enable, `~third-party` / `first-party` disable the third-party option;
    `match-case`, `important`, `badfilter` set their bits; document-only options are recognised by name. -/
theorem c04_grammar_options (px : E.ParseExt) (wl : Bool) (pat : Bytes) (ms : List Mod) (id : Int) (r : NetRule)
    (hp : patOK pat = true) (hm : modsOK ms = true)
    (h : E.parseNetRule px (render wl pat ms) id = .ok r) :
    r.whitelist = wl ∧
    r.isEnabled Facts.OptionThirdParty = ms.any Mod.isThirdParty ∧
    r.isDisabled Facts.OptionThirdParty = ms.any Mod.isFirstParty ∧
    r.isEnabled Facts.OptionMatchCase = ms.any (Mod.isOpt .matchCase) ∧
    r.isEnabled Facts.OptionImportant = ms.any (Mod.isOpt .important) ∧
    r.isEnabled Facts.OptionBadfilter = ms.any (Mod.isOpt .badfilter) ∧
    E.documentOnlyOptions.any (fun o => r.isEnabled o) = ms.any Mod.isDocOnly := by
  have hpa := parsedAs_of_parse hp hm h
  exact ⟨hpa.whitelist, hpa.thirdParty, hpa.firstParty, hpa.matchCase, hpa.important, hpa.badfilter, hpa.docOnly⟩

/-- `$dnstype=A|~AAAA|…`: names ↦ record-type numbers through the generated table (case-insensitively). -/
theorem c04_grammar_dnstype (px : E.ParseExt) (wl : Bool) (pat : Bytes) (ms : List Mod) (id : Int) (r : NetRule)
    (hp : patOK pat = true) (hm : modsOK ms = true)
    (h : E.parseNetRule px (render wl pat ms) id = .ok r) :
    r.permDns = (ModSpec.ofMods ms).permDns ∧ r.restrDns = (ModSpec.ofMods ms).restrDns :=
  ⟨(parsedAs_of_parse hp hm h).permDns, (parsedAs_of_parse hp hm h).restrDns⟩

/-- `$denyallow=v1|v2|…`. -/
theorem c04_grammar_denyallow (px : E.ParseExt) (wl : Bool) (pat : Bytes) (ms : List Mod) (id : Int) (r : NetRule)
    (hp : patOK pat = true) (hm : modsOK ms = true)
    (h : E.parseNetRule px (render wl pat ms) id = .ok r) :
    r.denyallow = (ModSpec.ofMods ms).denyallow :=
  (parsedAs_of_parse hp hm h).denyallow

/-- `$client=…`: the stored client sets are those of the written values (names sorted, addresses as
    full-length subnets, CIDR subnets through the `netip` oracle, subnets sorted). -/
theorem c04_grammar_client (px : E.ParseExt) (wl : Bool) (pat : Bytes) (ms : List Mod) (id : Int) (r : NetRule)
    (hp : patOK pat = true) (hm : modsOK ms = true)
    (h : E.parseNetRule px (render wl pat ms) id = .ok r) :
    r.permClients = clientsOf px.ext (ModSpec.ofMods ms).permClients ∧
    r.restrClients = clientsOf px.ext (ModSpec.ofMods ms).restrClients ∧
    (∀ name ip, specClientIn r.permClients name ip =
      (ModSpec.ofMods ms).permClients.any (clientValMatches px.ext name ip)) ∧
    (∀ name ip, specClientIn r.restrClients name ip =
      (ModSpec.ofMods ms).restrClients.any (clientValMatches px.ext name ip)) := by
  have hpa := parsedAs_of_parse hp hm h
  refine ⟨hpa.permClients, hpa.restrClients, fun name ip => ?_, fun name ip => ?_⟩
  · rw [hpa.permClients, specClientIn_clientsOf]
  · rw [hpa.restrClients, specClientIn_clientsOf]

/-- The pattern and the split of the text: `parseRuleText` returns the pattern as written, the modifiers
    joined with commas and the exception flag; the stored pattern is its `/*`-normalisation. -/
theorem c04_grammar_pattern (px : E.ParseExt) (wl : Bool) (pat : Bytes) (ms : List Mod) (id : Int) (r : NetRule)
    (hp : patOK pat = true) (hm : modsOK ms = true)
    (h : E.parseNetRule px (render wl pat ms) id = .ok r) :
    E.parseRuleText (render wl pat ms) = .ok (pat, optsText ms, wl) ∧ r.pattern = MaskSpec.normalize pat := by
  have h1 := parseRuleText_render (wl := wl) hp (modsOK_vals hm)
  obtain ⟨pat', opts, wl', hprt, hpat, _, _⟩ := parseNetRule_pattern h
  rw [h1] at hprt
  cases hprt
  exact ⟨h1, hpat⟩

/-! ### the reference -/

/-- The MODIFIER part of C04 against the text-level reference, for ANY pattern oracle: `Match` of the parsed
    rule is the shortcut pre-check, every modifier family of the structured data, and the pattern oracle on
    the stored pattern. -/
theorem c04_text_ref_mods (px : E.ParseExt) (wl : Bool) (pat : Bytes) (ms : List Mod) (id : Int) (r : NetRule)
    (q : Request) (hp : patOK pat = true) (hm : modsOK ms = true)
    (h : E.parseNetRule px (render wl pat ms) id = .ok r) (hq : q.InDomain) :
    r.matches px.ext q =
      (hasSub q.urlLower r.shortcut && specModsText px.ext (ModSpec.ofMods ms) q &&
        px.ext.pat (MaskSpec.normalize pat) (ModSpec.ofMods ms).matchCase (textTarget pat q)) := by
  have hpa := parsedAs_of_parse hp hm h
  have hpat := (c04_grammar_pattern px wl pat ms id r hp hm h).2
  have hmods := mods_eq_text hpa q hq.oneType
  have hpt : specPattern px.ext r q =
      px.ext.pat (MaskSpec.normalize pat) (ModSpec.ofMods ms).matchCase (textTarget pat q) := by
    unfold specPattern textTarget
    rw [specTarget_pattern r q, hpat, hpa.matchCase]
  rw [c04_text px _ id r q h hq]
  unfold specMatch
  rw [hpt, ← hmods]
  simp only [Bool.and_assoc]

/-- C04 FROM STRUCTURED MODIFIERS TO `Match`, no parser and no record on the reference side, no oracle for
    the pattern: for every pattern of the domain, every list of modifiers of the grammar domain in ANY
    order, and every request of the domain, whatever `NewNetworkRule` accepts for the rendered text matches
    the request iff `specMatchText` says so. -/
theorem c04_text_ref (px : E.ParseExt) (wl : Bool) (pat : Bytes) (ms : List Mod) (id : Int) (r : NetRule)
    (q : Request) (hp : patOK pat = true) (hm : modsOK ms = true)
    (h : E.parseNetRule px (render wl pat ms) id = .ok r) (hq : q.InDomain)
    (hd : MaskDomain r.pattern (specTarget r q))
    (hlower : q.urlLower = toLower q.url)
    (hhost : q.isHostnameRequest = true → hasSub q.url q.hostname = true) :
    r.matches (withModelPat px.ext) q = specMatchText px.ext pat (ModSpec.ofMods ms) q := by
  rw [c04_full_end_to_end px _ id r q h hq hd hlower hhost]
  exact noShortcut_eq_text hp hm h q hq.oneType

/-- Value order never matters, at text level: two modifier lists with the same MEANING up to the order of
    the values (and of the modifiers) give rules that match the same requests. -/
theorem c04_text_ref_order (px : E.ParseExt) (wl : Bool) (pat : Bytes) (ms ms' : List Mod) (id id' : Int)
    (r r' : NetRule) (q : Request) (hp : patOK pat = true) (hm : modsOK ms = true) (hm' : modsOK ms' = true)
    (h : E.parseNetRule px (render wl pat ms) id = .ok r)
    (h' : E.parseNetRule px (render wl pat ms') id' = .ok r') (hq : q.InDomain)
    (hd : MaskDomain r.pattern (specTarget r q)) (hd' : MaskDomain r'.pattern (specTarget r' q))
    (hlower : q.urlLower = toLower q.url)
    (hhost : q.isHostnameRequest = true → hasSub q.url q.hostname = true)
    (hsame : specMatchText px.ext pat (ModSpec.ofMods ms) q = specMatchText px.ext pat (ModSpec.ofMods ms') q) :
    r.matches (withModelPat px.ext) q = r'.matches (withModelPat px.ext) q := by
  rw [c04_text_ref px wl pat ms id r q hp hm h hq hd hlower hhost,
    c04_text_ref px wl pat ms' id' r' q hp hm' h' hq hd' hlower hhost, hsame]

/-! ### `/regex/` rules and other patterns WITHOUT `getD` (review finding 12) -/

/-- For ANY well-formed rule: if the pattern model ANSWERS on the target (`modelPat … = some b`; outside its
    domain — non-ASCII input, unsupported syntax — it does not answer and nothing is claimed), `Match` over
    the composed model is the modifiers' reference and that answer. -/
theorem c04_pattern_some (ext : Ext) (r : NetRule) (q : Request) (hwf : r.WellFormed) (hq : q.InDomain)
    (b : Bool) (hb : modelPat r.pattern (r.isEnabled Facts.OptionMatchCase) (specTarget r q) = some b) :
    r.matches (withModelPat ext) q =
      (hasSub q.urlLower r.shortcut && specThirdParty r q && specReqType r q.reqType && specDenyallow ext r q &&
        specSourceDomain ext r q && specDnsType r q && specCTag r q && specClient r q && b) := by
  rw [c04 (withModelPat ext) r q hwf hq]
  unfold specMatch specPattern
  rw [specDenyallow_withModelPat, specSourceDomain_withModelPat, withModelPat_pat]
  unfold modelPatD
  rw [hb]
  rfl

/-- `/regex/` rules: when the regex model answers, the pattern conjunct is the SEARCH of the parsed
    expression (`(?i)` unless `$match-case`) in the target — stated with the answer as a hypothesis, not
    through `getD false`.  (Group P3: "the parsed expression" of a `$match-case` text is GO's tree,
    `Re.goTree`, which for expressions like `A.|[aA]` is not the textbook reading; in terms of the written
    expression: `c04_regex_matchcase_written`, `c04_regex_ci_written`, Props/C04Quirk.lean.) -/
theorem c04_regex_some (ext : Ext) (r : NetRule) (q : Request) (hwf : r.WellFormed) (hq : q.InDomain)
    (hre : UF.isRegexPattern r.pattern = true) (b : Bool)
    (hb : modelPat r.pattern (r.isEnabled Facts.OptionMatchCase) (specTarget r q) = some b) :
    ∃ re, Re.parseRE (regexRuleText r.pattern (r.isEnabled Facts.OptionMatchCase)) = some re ∧
      isAscii (specTarget r q) = true ∧
      r.matches (withModelPat ext) q =
        (hasSub q.urlLower r.shortcut && specThirdParty r q && specReqType r q.reqType && specDenyallow ext r q &&
          specSourceDomain ext r q && specDnsType r q && specCTag r q && specClient r q &&
          Re.search re (specTarget r q)) := by
  obtain ⟨re, hparse, hbs, hascii⟩ := modelPat_regex_some hre hb
  refine ⟨re, hparse, hascii, ?_⟩
  rw [c04_pattern_some ext r q hwf hq b hb, hbs]

/-- … and for mask patterns: the documented mask language, again only when the model answers. -/
theorem c04_mask_some (ext : Ext) (r : NetRule) (q : Request) (hwf : r.WellFormed) (hq : q.InDomain)
    (hre : UF.isRegexPattern r.pattern = false) (b : Bool)
    (hb : modelPat r.pattern (r.isEnabled Facts.OptionMatchCase) (specTarget r q) = some b) :
    r.matches (withModelPat ext) q =
      (hasSub q.urlLower r.shortcut && specThirdParty r q && specReqType r q.reqType && specDenyallow ext r q &&
        specSourceDomain ext r q && specDnsType r q && specCTag r q && specClient r q && specPatternMask r q) := by
  rw [c04_pattern_some ext r q hwf hq b hb, modelPat_mask_some hre hb]
  rfl

/-- Out of the pattern model's domain nothing is claimed — and `getD` would have claimed `false`: a
    non-ASCII target makes `modelPat` answer `none`. -/
theorem c04_pattern_none_example :
    modelPat (lit "||ex.org/a^b") false [104, 116, 116, 112, 58, 47, 47, 101, 120, 46, 111, 114, 103, 47, 97, 195, 169, 98] = none := by
  decide

/-! ### Non-vacuity -/

private def exPx : E.ParseExt :=
  { ext := { psl := fun _ => (lit "com", true), parseAddr := fun _ => none,
             parsePrefix := fun _ => none, pat := fun _ _ _ => true },
    loadDNSRewrite := fun _ => none, regexpShortcut := fun _ => [] }

private def exMods : List Mod :=
  [.domain [(false, lit "a.com"), (true, lit "b.a.com")], .ctype false .script, .thirdParty true,
   .ctag [(false, lit "pc"), (true, lit "kid")], .dnstype [(true, lit "aaaa")]]

/-- The rendering is the text a filter author writes; it is in the domain; the parser model accepts it. -/
example : render false (lit "||example.org^") exMods =
    lit "||example.org^$domain=a.com|~b.a.com,script,~first-party,ctag=pc|~kid,dnstype=~aaaa" := by decide
example : patOK (lit "||example.org^") = true ∧ modsOK exMods = true := by decide
example : (E.parseNetRule exPx (render false (lit "||example.org^") exMods) 1).toOption.isSome = true := by
  decide +kernel

/-- The meaning: one permitted and one excluded domain, `script`, third-party, tags, AAAA (28) excluded. -/
example : ModSpec.ofMods exMods =
    { thirdParty := true, permTypes := [.script], permDomains := [lit "a.com"], restrDomains := [lit "b.a.com"],
      restrDns := [28], permTags := [lit "pc"], restrTags := [lit "kid"] } := by decide

/-- The reference decides requests: a third-party script request from `www.a.com` with tag `pc` matches,
    the same from `b.a.com` (excluded subdomain) does not, nor does an image request. -/
example :
    specModsText exPx.ext (ModSpec.ofMods exMods)
      { sourceHostname := lit "www.a.com", reqType := Facts.TypeScript, thirdParty := true,
        sortedTags := [lit "pc"], dnsType := 1 } = true ∧
    specModsText exPx.ext (ModSpec.ofMods exMods)
      { sourceHostname := lit "b.a.com", reqType := Facts.TypeScript, thirdParty := true,
        sortedTags := [lit "pc"], dnsType := 1 } = false ∧
    specModsText exPx.ext (ModSpec.ofMods exMods)
      { sourceHostname := lit "www.a.com", reqType := Facts.TypeImage, thirdParty := true,
        sortedTags := [lit "pc"], dnsType := 1 } = false := by decide

/-- The document-only override: `@@||e.com^$script,elemhide` applies to document requests only. -/
example :
    textTypes (ModSpec.ofMods [.ctype false .script, .opt .elemhide]) { reqType := Facts.TypeScript } = false ∧
    textTypes (ModSpec.ofMods [.ctype false .script, .opt .elemhide]) { reqType := Facts.TypeDocument } = true := by
  decide

end UF.C04

import UF.Compose2.Pat
import UF.Props.C03
/-
  C03 inside the composed model (integration group I2): the pattern oracle of `NetworkRule.Match`,
  instantiated by `modelPat` (group G's `compiledAccepts` for mask patterns, group A's `regexPat` for
  `/regex/` patterns), answers the DOCUMENTED MASK LANGUAGE on every mask pattern — and the two groups'
  models of `preparePattern` agree where both apply.
  Only property theorems and non-vacuity examples here; helper lemmas are in UF/Compose2/Pat.lean.
-/
namespace UF.C03
open UF Bytes UF.I2

/-- On its domain (ASCII pattern that is not a `/regex/`, ASCII target without a line feed) the
    pattern oracle of the composed model is total and answers the documented language of the stored
    pattern. -/
theorem c03_full (p u : Bytes) (mc : Bool) (h : MaskDomain p u) :
    modelPat p mc u = some (MaskSpec.maskAccepts (MaskSpec.tokenize p) mc u) :=
  modelPat_mask mc h

/-- For the pattern as WRITTEN in the rule (`example.org/*` form included): `NewNetworkRule` stores
    `normalize p` and the oracle answers `ruleAccepts p`. -/
theorem c03_full_written (p u : Bytes) (mc : Bool) (h : MaskDomain (MaskSpec.normalize p) u) :
    Mask.rewriteSlashStar p = some (MaskSpec.normalize p) ∧
    modelPat (MaskSpec.normalize p) mc u = some (MaskSpec.ruleAccepts p mc u) :=
  modelPat_written mc h

/-- Whenever the oracle answers on a pattern that is not a `/regex/`, the answer is the documented
    language — no domain hypothesis: outside the domain it does not answer. -/
theorem c03_full_some (p u : Bytes) (mc b : Bool) (hre : UF.isRegexPattern p = false)
    (h : modelPat p mc u = some b) : b = MaskSpec.maskAccepts (MaskSpec.tokenize p) mc u :=
  modelPat_mask_some hre h

/-- Groups A and G modelled `preparePattern` + `MatchString` independently (`regexPat` through
    `searchFast`, `compiledAccepts` through the `isRegexPattern` branch of `patternToRegexp`, the `.*`
    short-cut and `search`): on its whole domain `modelPat` is the single function `compiledAccepts`.
    (Group P3: both go through `parseRE`, i.e. through Go's tree `goTree` for `$match-case` `/regex/`
    patterns; mask expressions are untouched by it, `c03_mask_goTree`, Props/C03Quirk.lean.) -/
theorem c03_models_agree (p u : Bytes) (mc b : Bool) (h : modelPat p mc u = some b) :
    Mask.compiledAccepts p mc u = b :=
  modelPat_some_compiled h

/-! ### Non-vacuity -/

example : MaskDomain (lit "||ex.org^") (lit "https://Sub.ex.org/x") :=
  { notRegex := by decide, patAscii := by decide, tgtAscii := by decide, noLF := by unfold Mask.NoNL; decide }
example : modelPat (lit "||ex.org^") false (lit "https://Sub.ex.org/x") = some true := by decide
example : modelPat (lit "||ex.org^") true (lit "https://Sub.eX.org/x") = some false := by decide
example : modelPat (lit "||ex.org^") false (lit "https://ex.org/\n") = none := by decide
example : modelPat (lit "/ex\\.org/") false (lit "http://EX.org/") = some true := by decide

end UF.C03

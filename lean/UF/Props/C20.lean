import UF.Proofs.HtmlFind
/-
  C20 -- proxy HTML injection inserts one tag and preserves every byte.

  Model: UF/Model/Html.lean (`filterHTML`, repaired shape of commit 9cb6043); reference:
  UF/Spec/Html.lean (`specFind`, `specFilter`, on the bytes of the body).  All theorems hold for EVERY
  window size `w`; the code's value is the generated fact `Facts.headBufferSize` (`c20_code`).
  The tag is ASCII (rendered from an ASCII template and the request hostname).
-/
namespace UF.Html

/-- Latin-1 decoding followed by encoding is the identity on all byte strings (all 256 values). -/
theorem latin1_roundtrip (b : Bytes) : latin1Encode (latin1Decode b) = some b := by
  have := latin1Encode_decode_append b []
  simpa [latin1Encode] using this

/-- The search on the transcoded text finds the reference position (first marker start among the
    first `w` BYTES OF THE BODY), reported as a byte index into the UTF-8 text. -/
theorem c20_index (w : Nat) (b : Bytes) :
    findBodyInjectionIndex w (latin1Decode b) = (specFind w b).map (fun k => (latin1Decode (b.take k)).length) :=
  findBodyInjectionIndex_decode w b

/-- C20, main statement: for every window, every body over all 256 byte values and every ASCII tag,
    `filterHTML` succeeds (no encoder error, no slice panic), the new body is the reference
    `body[:i] ++ tag ++ body[i:]` (or the body itself), the declared length is the length of the new
    body, `Content-Encoding` is removed, and the CSP headers are removed only when a tag was injected. -/
theorem c20 (w : Nat) (b tag : Bytes) (ht : Bytes.isAscii tag = true) :
    filterHTML w b tag =
      some ⟨specFilter w b tag, (specFilter w b tag).length, false, !(specFind w b).isSome⟩ :=
  filterHTML_eq w b tag ht

/-- The same for the window the code uses (generated fact). -/
theorem c20_code (b tag : Bytes) (ht : Bytes.isAscii tag = true) :
    (filterHTML Facts.headBufferSize b tag).map (·.body) = some (specFilter Facts.headBufferSize b tag) := by
  rw [c20 _ _ _ ht, Option.map_some]

/-- The reference position is the FIRST marker start inside the window: `i` is returned iff it lies
    in the first `w` bytes, the body continues with a marker there, and does so at no earlier position. -/
theorem c20_first (w : Nat) (body : Bytes) (i : Nat) :
    specFind w body = some i ↔
      (i < w ∧ i < body.length ∧ markerAt (body.drop i) = true ∧ ∀ j, j < i → markerAt (body.drop j) = false) :=
  specFind_some_iff w body i

/-- Exactly one tag is inserted and every original byte is kept in order: the output is
    `pre ++ tag ++ suf` with `pre ++ suf = body`, and its declared length is `|body| + |tag|`. -/
theorem c20_count (w : Nat) (b tag : Bytes) (ht : Bytes.isAscii tag = true) (i : Nat) (h : specFind w b = some i) :
    ∃ r, filterHTML w b tag = some r ∧ r.body = b.take i ++ tag ++ b.drop i ∧
      b.take i ++ b.drop i = b ∧ r.contentLength = b.length + tag.length ∧ r.contentEncoding = false ∧
      r.cspKept = false := by
  refine ⟨_, c20 w b tag ht, ?_⟩
  have hi := (specFind_le h).1
  simp only [specFilter, h, Option.isSome_some, Bool.not_true, List.take_append_drop, List.length_append,
    List.length_take, List.length_drop, true_and, and_true]
  omega

/-- No marker start among the first `w` bytes ⇒ the body is returned unchanged (all bytes, the same
    length), and the CSP headers stay. -/
theorem c20_unchanged (w : Nat) (b tag : Bytes) (ht : Bytes.isAscii tag = true)
    (h : ∀ j, j < w → j < b.length → markerAt (b.drop j) = false) :
    filterHTML w b tag = some ⟨b, b.length, false, true⟩ := by
  have hn := (specFind_none_iff w b).mpr h
  rw [c20 w b tag ht]
  simp [specFilter, hn]

/-! Non-vacuity and the D12 witness (window 8 instead of 16384; `decide +kernel` = evaluation by the kernel, no extra axiom):
    five high bytes, then `</HeAd>`.  The marker starts at byte 5 < 8 of the body; in the transcoded
    text it starts at byte 10. -/

example : filterHTML 8 ([0xFF, 0xE9, 0x80, 0xC3, 0xA0] ++ lit "</HeAd>x") (lit "<s>") =
    some ⟨[0xFF, 0xE9, 0x80, 0xC3, 0xA0] ++ lit "<s></HeAd>x", 16, false, false⟩ := by decide +kernel

/-- the repaired search finds it (index 10 of the text), the pre-9cb6043 search does not -/
example : findBodyInjectionIndex 8 (latin1Decode ([0xFF, 0xE9, 0x80, 0xC3, 0xA0] ++ lit "</HeAd>x")) = some 10 ∧
    findOld 8 (latin1Decode ([0xFF, 0xE9, 0x80, 0xC3, 0xA0] ++ lit "</HeAd>x")) 0 = none := by decide +kernel

/-- a marker beyond the window is not used; near-markers with high bytes are not markers -/
example : filterHTML 8 (lit "12345678<link>") (lit "<s>") = some ⟨lit "12345678<link>", 14, false, true⟩ := by decide +kernel
example : filterHTML 64 (lit "<lin" ++ [0xE2, 0x84, 0xAA] ++ lit "><" ++ [0xC5, 0xBF] ++ lit "tyle>") (lit "<s>") =
    some ⟨lit "<lin" ++ [0xE2, 0x84, 0xAA] ++ lit "><" ++ [0xC5, 0xBF] ++ lit "tyle>", 16, false, true⟩ := by decide +kernel

end UF.Html

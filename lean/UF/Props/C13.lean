import UF.Proofs.ProgRun
import UF.Proofs.ProgSlices
import UF.Gen.Facts
/-
  C13 — query results are a pure function of the lists and the request.
  Property theorems only (helper lemmas live in UF/Proofs/Prog*.lean).  Everything is about the
  Prog / Pool models (lean/UF/Model/Prog.lean, Pool.lean); the tie to the Go code is the two generated
  fact obligations below plus the `c13hist` / `c13model` correspondence runs.
-/
namespace UF.C13
open UF UF.Prog

/-- FACT (regenerated from /repo on every run): every field of `rules.Request` is definitely assigned
    when a pooled request is refilled (`getRequestFromPool` ∪ `FillRequestForHostname`).  A new field
    without an assignment, or a dropped assignment, breaks this `decide`. -/
theorem c13_fact_request_fields : Facts.requestAssignedOnRefill = Facts.requestFields := by decide

/-- FACT: the model's `Request` has exactly the fields of `rules.Request`. -/
theorem c13_fact_model_fields : Facts.requestFields = modelRequestFields := by decide

/-- No per-request data (client identity, tags, record type, source) survives the refill: the refilled
    request does not depend on the pooled value at all. -/
theorem fill_overwrites (etld1 : Bytes → Bytes) (old : Request) (d : DReq) :
    fillFromPool etld1 old d = fillFromPool etld1 default d :=
  fill_overwrites' etld1 old d

/-- `CacheInv` (cache ⊆ graph of `truth`) is preserved by every atomic action of every thread whose
    local state is well formed (`TInv`: a pending `cachePut idx r` carries `truth idx = some r`). -/
theorem cacheInv_preserved {R : Type} (env : Env R) (s : State R) (t : Thread R)
    (hc : CacheInv env s) (ht : TInv env t) :
    CacheInv env (step env s t).1 ∧ TInv env (step env s t).2 :=
  ⟨step_cacheInv hc ht, step_tinv ht⟩

/-- C13 for one query: from ANY state satisfying `CacheInv` (whatever the cache, the pool and the
    compile flags hold after earlier queries), a sequentially executed query finishes, answers exactly
    the stateless `pureAnswer`, and re-establishes the invariant. -/
theorem c13 {R : Type} (env : Env R) (s : State R) (q : Query) (hc : CacheInv env s) (h0 : s.closed = []) :
    (runQuery env s q).2.pc = .done ∧
    (runQuery env s q).2.answer env = pureAnswer env q ∧
    CacheInv env (runQuery env s q).1 ∧ (runQuery env s q).1.closed = [] := by
  have hg := runQuery_good_eq q hc h0
  have hd := runQuery_done env s q
  refine ⟨hd, ?_, hg.1, by rw [runQuery_closed]; exact h0⟩
  rw [answer_of_good_eq hg.2 hd, runQuery_q]

/-- C13 lifted to every history of queries (any length, repeats, DNS and web queries mixed): the i-th
    answer is `pureAnswer` of the i-th query, whatever was asked before. -/
theorem c13_history {R : Type} (env : Env R) (qs : List Query) :
    ∀ (s : State R), CacheInv env s → s.closed = [] →
      (runHistory env s (qs.map HEv.query)).2 = qs.map (pureAnswer env) := by
  induction qs with
  | nil => intro s _ _; rfl
  | cons q rest ih =>
    intro s hc h0
    obtain ⟨_, ha, hc', h0'⟩ := c13 env s q hc h0
    simp only [List.map_cons, runHistory, ha, ih _ hc' h0']

/-- The statement of the property: the answer after any history equals the answer of the same query
    as the FIRST query on a fresh engine (empty cache, empty pool, nothing compiled). -/
theorem c13_fresh {R : Type} (env : Env R) (qs : List Query) (q : Query) :
    (runQuery env (runHistory env ({} : State R) (qs.map HEv.query)).1 q).2.answer env =
      (runQuery env ({} : State R) q).2.answer env := by
  have hinit : CacheInv env ({} : State R) := by intro idx r h; simp at h
  have hstate : ∀ (qs : List Query) (s : State R), CacheInv env s → s.closed = [] →
      CacheInv env (runHistory env s (qs.map HEv.query)).1 ∧
        (runHistory env s (qs.map HEv.query)).1.closed = [] := by
    intro qs
    induction qs with
    | nil => intro s hc h0; exact ⟨hc, h0⟩
    | cons q' rest ih =>
      intro s hc h0
      obtain ⟨_, _, hc', h0'⟩ := c13 env s q' hc h0
      simpa [runHistory] using ih _ hc' h0'
  obtain ⟨hc, h0⟩ := hstate qs {} hinit rfl
  rw [(c13 env _ q hc h0).2.1, (c13 env _ q hinit rfl).2.1]

/-- `removeDNSRewriteRules` with the capacity-limited reslice `rules[:i:i]`, on explicit slices: it
    never panics, the heap only GROWS (`h ++ ext`: no existing backing array is written, so the caller's
    slice -- and every other slice -- shows the same elements afterwards), and the result is the
    sub-sequence of non-rewrite rules. -/
theorem rewrites_fresh {α : Type} (isRw : α → Bool) (h : Heap α) (rules : Slice) (hwf : rules.WF h) :
    ∃ ext f, removeDNSRewriteRulesS isRw true h rules = some (h ++ ext, f) ∧
      rules.view (h ++ ext) = rules.view h ∧
      f.view (h ++ ext) = (rules.view h).filter (fun r => !isRw r) := by
  obtain ⟨ext, f, h1, h2⟩ := removeDNSRewriteRulesS_spec isRw h rules hwf
  exact ⟨ext, f, h1, by simp only [Slice.view, heap_getD_append_left h ext hwf.1], h2⟩

/-- Non-vacuity of `rewrites_fresh`: with `rules[:i]` instead of `rules[:i:i]` (capacity kept) the first
    append writes INTO the caller's array: for `[rw, a]` the caller afterwards sees `[a, a]`. -/
example :
    let h : Heap Nat := [[1, 2]]
    let rules : Slice := { arr := 0, len := 2, cap := 2 }
    (removeDNSRewriteRulesS (· == 1) false h rules).map (fun p => rules.view p.1) = some [2, 2] ∧
    (removeDNSRewriteRulesS (· == 1) true h rules).map (fun p => rules.view p.1) = some [1, 2] := by decide

/-- Non-vacuity of `c13`/`c13_history`: a concrete engine (two indices, one closed-over `truth`), a
    history in which the second query finds the cache warm and the pool non-empty. -/
example :
    let env : Env Nat := { truth := fun i => if i == 10 then some 7 else if i == 20 then some 8 else none,
                           listOf := fun _ => 1, ruleId := id, etld1 := id,
                           cands := fun _ => [10, 20, 30], mtch := fun r _ => r == 7, resident := [] }
    let d1 : DReq := { hostname := lit "a", clientName := lit "laptop" }
    let d2 : DReq := { hostname := lit "a" }
    (runHistory env {} [.query (.dns d1), .query (.dns d2)]).2 = [[7], [7]] ∧
    (runHistory env {} [.query (.dns d1), .query (.dns d2)]).1.cache.length = 2 ∧
    (runHistory env {} [.query (.dns d1), .query (.dns d2)]).1.pool.length = 1 := by decide

end UF.C13

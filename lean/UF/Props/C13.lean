import UF.Proofs.ProgRun
import UF.Proofs.ProgSlices
import UF.Gen.Facts
/-
  C13 — query results are a pure function of the lists and the request.
  Property theorems only (helper lemmas live in UF/Proofs/Prog*.lean).  Everything is about the
  Prog / Pool models (lean/UF/Model/Prog.lean, Pool.lean); the tie to the Go code is the two generated
  fact obligations below plus the `c13hist` / `c13model` correspondence runs.
-/
namespace UF.C13
open UF UF.Prog

/-- FACT (regenerated from /repo on every run): every field of `rules.Request` is definitely assigned
    when a pooled request is refilled (`getRequestFromPool` ∪ `FillRequestForHostname`).  A new field
    without an assignment, or a dropped assignment, breaks this `decide`. -/
theorem c13_fact_request_fields : Facts.requestAssignedOnRefill = Facts.requestFields := by decide

/-- FACT: the model's `Request` has exactly the fields of `rules.Request`. -/
theorem c13_fact_model_fields : Facts.requestFields = modelRequestFields := by decide

/-- No per-request data (client identity, tags, record type, source) survives the refill: the refilled
    request does not depend on the pooled value at all. -/
theorem fill_overwrites (etld1 : Bytes → Bytes) (old : Request) (d : DReq) :
    fillFromPool etld1 old d = fillFromPool etld1 default d :=
  fill_overwrites' etld1 old d

/-- The invariant of the shared state -- `CacheInv` (cache ⊆ graph of `truth`) and `CellInv` (a lazy-compile
    cell is empty or what compiling ITS rule gives) -- is preserved by every atomic action of every thread
    whose local state is well formed (`TInv`: a pending `cachePut idx r` carries `truth idx = some r`, a rule
    at `preparePattern` is the rule of its object), and no action changes a cell that is set. -/
theorem sinv_preserved {R Re : Type} (env : Env R Re) (s : State R Re) (t : Thread R)
    (hs : SInv env s) (ht : TInv env t) :
    SInv env (step env s t).1 ∧ TInv env (step env s t).2 ∧ CellsLe s (step env s t).1 :=
  ⟨step_sinv hs ht, step_tinv hs.1 ht, step_cellsLe env s t⟩

/-- The lazy-compile state cannot leak: under `CellInv`, whatever cell a rule object has reached
    (`uncompiled`, `compiled re`, `invalid`), what `preparePattern` + `MatchString` answer for a request is
    `patOK` -- a function of the rule and the request alone. -/
theorem c13_cell_is_function_of_rule {R Re : Type} (env : Env R Re) (s : State R Re) (ob : Obj) (r : R)
    (req : Request) (hci : CellInv env s) (hob : env.objRule ob = some r) :
    (match s.cells ob with
      | .compiled x => env.accepts x r req
      | .invalid => false
      | .uncompiled => env.patOK r req) = env.patOK r req := by
  cases hc : s.cells ob with
  | uncompiled => rfl
  | compiled x => simp [Env.patOK, cell_compiled hci hob hc]
  | invalid => simp [Env.patOK, cell_invalid hci hob hc]

/-- C13 for one query: from ANY state satisfying the invariant (whatever the cache, the pool and the
    lazy-compile cells hold after earlier queries), a sequentially executed query finishes without a crash,
    answers exactly the stateless `pureAnswer`, and re-establishes the invariant. -/
theorem c13 {R Re : Type} (env : Env R Re) (s : State R Re) (q : Query) (hs : SInv env s) (h0 : s.closed = []) :
    (runQuery env s q).2.pc = .done ∧
    (runQuery env s q).2.answer = pureAnswer env q ∧
    SInv env (runQuery env s q).1 ∧ (runQuery env s q).1.closed = [] := by
  have hg := runQuery_good q hs
  have he := runQuery_goodEq q hs h0
  refine ⟨hg.2.2, ?_, hg.1, by rw [runQuery_closed]; exact h0⟩
  rw [answer_of_goodEq hg.2.1.1 he hg.2.2, runQuery_q]

/-- C13 lifted to every history of queries (any length, repeats, DNS and web queries mixed): the i-th
    answer is `pureAnswer` of the i-th query, whatever was asked before. -/
theorem c13_history {R Re : Type} (env : Env R Re) (qs : List Query) :
    ∀ (s : State R Re), SInv env s → s.closed = [] →
      (runHistory env s (qs.map HEv.query)).2 = qs.map (pureAnswer env) := by
  induction qs with
  | nil => intro s _ _; rfl
  | cons q rest ih =>
    intro s hs h0
    obtain ⟨_, ha, hs', h0'⟩ := c13 env s q hs h0
    have := ih _ hs' h0'
    simp only [runHistory] at this ⊢
    simp only [List.map_cons, runHistoryT, ha, this]

/-- The statement of the property: the answer after any history equals the answer of the same query
    as the FIRST query on a fresh engine (empty cache, empty pool, nothing compiled). -/
theorem c13_fresh {R Re : Type} (env : Env R Re) (qs : List Query) (q : Query) :
    (runQuery env (runHistory env ({} : State R Re) (qs.map HEv.query)).1 q).2.answer =
      (runQuery env ({} : State R Re) q).2.answer := by
  have hinit : SInv env ({} : State R Re) := sinv_init env
  have hstate : ∀ (qs : List Query) (s : State R Re), SInv env s → s.closed = [] →
      SInv env (runHistory env s (qs.map HEv.query)).1 ∧
        (runHistory env s (qs.map HEv.query)).1.closed = [] := by
    intro qs
    induction qs with
    | nil => intro s hs h0; exact ⟨hs, h0⟩
    | cons q' rest ih =>
      intro s hs h0
      obtain ⟨_, _, hs', h0'⟩ := c13 env s q' hs h0
      simpa [runHistory, runHistoryT] using ih _ hs' h0'
  obtain ⟨hs, h0⟩ := hstate qs {} hinit rfl
  rw [(c13 env _ q hs h0).2.1, (c13 env _ q hinit rfl).2.1]

/-- `removeDNSRewriteRules` with the capacity-limited reslice `rules[:i:i]`, on explicit slices: it
    never panics, the heap only GROWS (`h ++ ext`: no existing backing array is written, so the caller's
    slice -- and every other slice -- shows the same elements afterwards), and the result is the
    sub-sequence of non-rewrite rules. -/
theorem rewrites_fresh {α : Type} (isRw : α → Bool) (h : Heap α) (rules : Slice) (hwf : rules.WF h) :
    ∃ ext f, removeDNSRewriteRulesS isRw true h rules = some (h ++ ext, f) ∧
      rules.view (h ++ ext) = rules.view h ∧
      f.view (h ++ ext) = (rules.view h).filter (fun r => !isRw r) := by
  obtain ⟨ext, f, h1, h2⟩ := removeDNSRewriteRulesS_spec isRw h rules hwf
  exact ⟨ext, f, h1, by simp only [Slice.view, heap_getD_append_left h ext hwf.1], h2⟩

/-- Non-vacuity of `rewrites_fresh`: with `rules[:i]` instead of `rules[:i:i]` (capacity kept) the first
    append writes INTO the caller's array: for `[rw, a]` the caller afterwards sees `[a, a]`. -/
example :
    let h : Heap Nat := [[1, 2]]
    let rules : Slice := { arr := 0, len := 2, cap := 2 }
    (removeDNSRewriteRulesS (· == 1) false h rules).map (fun p => rules.view p.1) = some [2, 2] ∧
    (removeDNSRewriteRulesS (· == 1) true h rules).map (fun p => rules.view p.1) = some [1, 2] := by decide

/-- Non-vacuity of `c13`/`c13_history`: a concrete engine (rules = numbers; 7 compiles and accepts, 8 has an
    invalid pattern, 9 is a "match anything" pattern; index 10 sits in two shortcut buckets), a history in
    which the second query finds the cache warm, the pool non-empty and the cells of 7 and 8 set. -/
example :
    let env : Env Nat Nat :=
      { truth := fun i => if i == 10 then some 7 else if i == 20 then some 8 else if i == 30 then some 9 else none,
        listOf := fun _ => 1, etld1 := id,
        cands := fun _ => [(true, 10), (true, 20), (true, 10), (false, 30), (false, 40)], hcands := fun _ => [],
        basic := fun _ => false, wants := fun _ _ => true, pre := fun _ _ => true,
        compile := fun r => if r == 7 then .re 1 else if r == 8 then .bad else .any,
        accepts := fun _ _ _ => true, resident := [8, 9] }
    let d1 : DReq := { hostname := lit "a", clientName := lit "laptop" }
    let d2 : DReq := { hostname := lit "a" }
    let h := runHistory env {} [.query (.dns d1), .query (.dns d2)]
    h.2 = [([7, 9, 9], []), ([7, 9, 9], [])] ∧ h.1.cache.length = 3 ∧ h.1.pool.length = 1 ∧
      h.1.cells (.st 10) = .compiled 1 ∧ h.1.cells (.st 20) = .invalid ∧ h.1.cells (.st 30) = .uncompiled ∧
      h.1.cells (.seq 0) = .invalid := by decide

end UF.C13

import UF.Proofs.EngineDns
import UF.Props.C01
/-
  C02 — the DNS engine's answer equals the reference resolution over all rules.

  `L` is the list of ALL rules of the storage (network, host, cosmetic) in storage order with their
  storage indexes.  `basic` is `GetDNSBasicRule` (C06–C08, another work group): the theorem holds
  for every function that decides alike, up to the class of the winner, on candidate lists carrying
  the same set of rule texts (`BasicRespectsTexts`).  As in C01 the theorem holds for every pair of
  hash functions (host-name hash collisions included) and every window length.
  Property theorems only (helper lemmas live in UF/Proofs).
-/
namespace UF.C02
open UF UF.B

/-- The mask idiom `((e & H) | (e ^ H)) == H` of `IsHostLevelNetworkRule` says: no `$domain`, not both
    permitted and restricted content types, no disabled option, and every enabled option bit is a
    bit of `important | badfilter`. -/
theorem isHostLevel_iff (r : NetRule) :
    isHostLevel r = true ↔
      r.permDomains = [] ∧ r.restrDomains = [] ∧ ¬(r.permTypes ≠ 0 ∧ r.restrTypes ≠ 0) ∧ r.disabled = 0 ∧
      (∀ i, r.enabled.testBit i = true → (Facts.OptionImportant ||| Facts.OptionBadfilter).testBit i = true) := by
  have hH : Facts.OptionImportant ||| Facts.OptionBadfilter = Facts.OptionHostLevelRulesOnly := by decide
  rw [hH]; exact isHostLevel_iff' r

/-- The executable reference predicate is the implementation's classification. -/
theorem isHostLevel_eq_dnsApplicable (r : NetRule) : isHostLevel r = dnsApplicable r :=
  (dnsApplicable_eq r).symm

/-- C02: componentwise agreement with the reference scan, for every hash pair. -/
theorem c02 (hf : HashFns) (k : Nat) (hcoh : hf.Coherent k)
    (retrieve : Idx → Option Rule) (ext : Ext) (basic : List NetRule → Option NetRule)
    (L : List (Rule × Idx)) (q : Request)
    (hlen : L.length < maxInt32) (hret : RetrievalOK retrieve L)
    (hparse : TextDeterminesRule (hostLevelNet L))
    (hbasic : BasicRespectsTexts basic (netRulesOf (L.map (·.1)))) :
    DnsResult.Equiv ((DnsEngine.build hf k L).matchRequest hf k retrieve ext basic q)
      (specDns ext basic (L.map (·.1)) q) := by
  unfold DnsEngine.matchRequest specDns
  by_cases hq : q.hostname.isEmpty = true
  · simp only [hq, if_true]
    exact ⟨fun _ => Iff.rfl, rfl, fun _ => Iff.rfl, fun _ => Iff.rfl, rfl⟩
  · simp only [hq, Bool.false_eq_true, if_false]
    rw [dns_build_net]
    -- the network part is C01 on the host-level rules
    have hlen' : (hostLevelNet L).length < maxInt32 := Nat.lt_of_le_of_lt (hostLevelNet_length L) hlen
    have hret' : RetrievalOK (retrieveNet retrieve) (hostLevelNet L) := by
      intro p hp
      have := hret _ ((mem_hostLevelNet L p.1 p.2).1 hp).1
      simp only at this
      simp [retrieveNet, this]
    have hwf : ∀ p ∈ hostLevelNet L, DomainsWF p.1 := by
      intro p hp d hd
      have := ((isHostLevel_iff' p.1).1 ((mem_hostLevelNet L p.1 p.2).1 hp).2).1
      rw [this] at hd; cases hd
    have hmemS : ∀ r, r ∈ (netRulesOf (L.map (·.1))).filter (fun r => dnsApplicable r && r.matches ext q) ↔
        r ∈ specMatchAll ext ((hostLevelNet L).map (·.1)) q := by
      intro r
      simp only [specMatchAll, List.mem_filter, mem_netRulesOf, List.mem_map, Bool.and_eq_true, dnsApplicable_eq]
      constructor
      · rintro ⟨⟨⟨rule, i⟩, hp, hrule⟩, hl, hm⟩
        simp only at hrule; subst hrule
        exact ⟨⟨(r, i), (mem_hostLevelNet L r i).2 ⟨hp, hl⟩, rfl⟩, hm⟩
      · rintro ⟨⟨⟨r', i⟩, hp, hr⟩, hm⟩
        simp only at hr; subst hr
        obtain ⟨h1, h2⟩ := (mem_hostLevelNet L r' i).1 hp
        exact ⟨⟨(Rule.net r', i), h1, rfl⟩, h2, hm⟩
    have htexts : ∀ t,
        t ∈ ((Engine.build hf k (hostLevelNet L)).matchAll hf k (retrieveNet retrieve) ext q).map (·.text) ↔
        t ∈ ((netRulesOf (L.map (·.1))).filter (fun r => dnsApplicable r && r.matches ext q)).map (·.text) := by
      intro t
      rw [C01.c01 hf k hcoh (retrieveNet retrieve) ext (hostLevelNet L) q hlen' hret' hwf hparse t]
      simp only [List.mem_map, hmemS]
    have hsubM : ∀ r ∈ (Engine.build hf k (hostLevelNet L)).matchAll hf k (retrieveNet retrieve) ext q,
        r ∈ netRulesOf (L.map (·.1)) := by
      intro r hr
      obtain ⟨h1, _⟩ := C01.c01_sound hf k (retrieveNet retrieve) ext (hostLevelNet L) q hlen' hret' r hr
      obtain ⟨⟨r', i⟩, hp, hr'⟩ := List.mem_map.1 h1
      simp only at hr'; subst hr'
      exact (mem_netRulesOf _ _).2 (List.mem_map.2 ⟨(Rule.net r', i), ((mem_hostLevelNet L r' i).1 hp).1, rfl⟩)
    have hsubS : ∀ r ∈ (netRulesOf (L.map (·.1))).filter (fun r => dnsApplicable r && r.matches ext q),
        r ∈ netRulesOf (L.map (·.1)) := fun r hr => (List.mem_filter.1 hr).1
    have hb := hbasic _ _ hsubM hsubS htexts
    have hhost := mem_matchLookupTable hf k retrieve L hret q.hostname
    cases hM : basic ((Engine.build hf k (hostLevelNet L)).matchAll hf k (retrieveNet retrieve) ext q) with
    | some rM =>
      cases hS : basic ((netRulesOf (L.map (·.1))).filter (fun r => dnsApplicable r && r.matches ext q)) with
      | some rS =>
        rw [hM, hS] at hb
        exact ⟨htexts, hb, fun _ => Iff.rfl, fun _ => Iff.rfl, rfl⟩
      | none => rw [hM, hS] at hb; cases hb
    | none =>
      cases hS : basic ((netRulesOf (L.map (·.1))).filter (fun r => dnsApplicable r && r.matches ext q)) with
      | some rS => rw [hM, hS] at hb; cases hb
      | none =>
        simp only
        by_cases hrr : ((DnsEngine.build hf k L).matchLookupTable hf retrieve q.hostname).isEmpty = true
        · have hnil : (DnsEngine.build hf k L).matchLookupTable hf retrieve q.hostname = [] :=
            List.isEmpty_iff.1 hrr
          have hnone : ∀ h, h ∉ (hostRulesOf (L.map (·.1))).filter (fun hr => hr.hostnames.contains q.hostname) := by
            intro h hh; have := (hhost h).2 hh; rw [hnil] at this; cases this
          have hnil' : (hostRulesOf (L.map (·.1))).filter (fun hr => hr.hostnames.contains q.hostname) = [] :=
            List.eq_nil_iff_forall_not_mem.2 hnone
          simp only [hrr, if_true, hnil']
          exact ⟨htexts, rfl, fun _ => by simp, fun _ => by simp, by simp⟩
        · simp only [hrr, Bool.false_eq_true, if_false]
          have hne : (hostRulesOf (L.map (·.1))).filter (fun hr => hr.hostnames.contains q.hostname) ≠ [] := by
            intro hnil'
            apply hrr
            apply List.isEmpty_iff.2
            apply List.eq_nil_iff_forall_not_mem.2
            intro h hh; have := (hhost h).1 hh; rw [hnil'] at this; cases this
          refine ⟨htexts, rfl, ?_, ?_, ?_⟩
          · intro h; simp only [List.mem_filter, hhost]
          · intro h; simp only [List.mem_filter, hhost]
          · cases hc : (hostRulesOf (L.map (·.1))).filter (fun hr => hr.hostnames.contains q.hostname) with
            | nil => exact absurd hc hne
            | cons => rfl

/-- C02 for the code as it is (djb2, generated `shortcutLength`). -/
theorem c02_djb2 (retrieve : Idx → Option Rule) (ext : Ext) (basic : List NetRule → Option NetRule)
    (L : List (Rule × Idx)) (q : Request)
    (hlen : L.length < maxInt32) (hret : RetrievalOK retrieve L)
    (hparse : TextDeterminesRule (hostLevelNet L))
    (hbasic : BasicRespectsTexts basic (netRulesOf (L.map (·.1)))) :
    DnsResult.Equiv ((DnsEngine.build djb2 Facts.shortcutLength L).matchRequest djb2 Facts.shortcutLength retrieve ext basic q)
      (specDns ext basic (L.map (·.1)) q) :=
  c02 djb2 Facts.shortcutLength (djb2_coherent _ (by decide)) retrieve ext basic L q hlen hret hparse hbasic

/-- `matched` is true iff a basic rule or a host entry was found. -/
theorem c02_matched_iff (hf : HashFns) (k : Nat) (retrieve : Idx → Option Rule) (ext : Ext)
    (basic : List NetRule → Option NetRule) (d : DnsEngine) (q : Request) :
    (d.matchRequest hf k retrieve ext basic q).matched = true ↔
      (d.matchRequest hf k retrieve ext basic q).networkRule.isSome = true ∨
      (d.matchRequest hf k retrieve ext basic q).v4 ≠ [] ∨ (d.matchRequest hf k retrieve ext basic q).v6 ≠ [] := by
  unfold DnsEngine.matchRequest
  by_cases hq : q.hostname.isEmpty = true
  · simp [hq]
  · simp only [hq, Bool.false_eq_true, if_false]
    cases hb : basic (d.net.matchAll hf k (retrieveNet retrieve) ext q) with
    | some r => simp
    | none =>
      simp only
      by_cases hrr : (d.matchLookupTable hf retrieve q.hostname).isEmpty = true
      · simp [hrr]
      · simp only [hrr, Bool.false_eq_true, if_false, true_iff, Option.isSome_none, false_or]
        cases hl : d.matchLookupTable hf retrieve q.hostname with
        | nil => rw [hl] at hrr; simp at hrr
        | cons h t =>
          by_cases h4 : h.ip.is4 = true
          · left; simp [h4]
          · right; simp [h4]

/-- An empty host name yields the empty result, not matched. -/
theorem c02_empty_hostname (hf : HashFns) (k : Nat) (retrieve : Idx → Option Rule) (ext : Ext)
    (basic : List NetRule → Option NetRule) (d : DnsEngine) (q : Request) (hq : q.hostname = []) :
    (d.matchRequest hf k retrieve ext basic q).matched = false ∧
    (d.matchRequest hf k retrieve ext basic q).networkRules = [] ∧
    (d.matchRequest hf k retrieve ext basic q).v4 = [] ∧ (d.matchRequest hf k retrieve ext basic q).v6 = [] := by
  simp [DnsEngine.matchRequest, hq]

/-! Non-vacuity: a `basic` that satisfies `BasicRespectsTexts` for every rule set (no winner at
    all, or "some exception among the candidates" decided on texts) and a concrete rule list. -/
example (S : List NetRule) : BasicRespectsTexts (fun _ => none) S := by
  intro l l' _ _ _; rfl

example :
    let r1 : NetRule := { text := lit "||example.org^", pattern := lit "||example.org^", shortcut := lit "example.org" }
    let h1 : HostRule := { text := lit "0.0.0.0 example.org", hostnames := [lit "example.org"] }
    let L : List (Rule × Idx) := [(.net r1, 0), (.host h1, 15)]
    let retrieve : Idx → Option Rule := fun i => (L.find? (·.2 == i)).map (·.1)
    L.length < maxInt32 ∧ RetrievalOK retrieve L ∧ TextDeterminesRule (hostLevelNet L) ∧ isHostLevel r1 = true := by
  intro r1 h1 L retrieve
  refine ⟨by decide, ?_, ?_, by decide⟩
  · intro p hp
    simp only [L, List.mem_cons, List.not_mem_nil, or_false] at hp
    rcases hp with rfl | rfl <;> rfl
  · have : hostLevelNet L = [(r1, 0)] := by decide
    rw [this]
    intro p hp p' hp' _
    simp only [List.mem_singleton] at hp hp'
    subst hp; subst hp'; rfl

end UF.C02

import UF.Spec.Result
import UF.Proofs.Result
import UF.Proofs.ResultExamples
/-
  C06 — the verdict follows the documented precedence, whatever the rule order.
  Property theorems only (helper lemmas live in UF/Proofs/Result.lean).

  Scope notes.
  * `$replace` cannot be set from rule text on this tree.  When an effective `$replace` rule is
    present `GetBasicResult` / `GetDNSBasicRule` return nil whatever else matches — that is NOT the
    precedence the property documents, so `c06_web` / `c06_dns` carry the hypothesis "no `$replace`
    bit" (true of every parsed rule), and `c06_web_all` / `c06_dns_all` state what the code does for
    ALL rule records, with the early return made explicit.
  * `U`/`G` (a referrer-level `$urlblock` / `$genericblock` exception is in force) range over the
    source exceptions that are not badfilter rules, not disabled by one and not `$dnsrewrite`
    rules, as the property text says ("a referrer-level urlblock exception suppresses every
    blocking rule"); a `$stealth,urlblock` source exception counts.
-/
namespace UF.C06
open UF

/-- Web requests: model of `NewMatchingResult(rules, src).GetBasicResult()` = reference class, for
    all rule lists and source-rule lists of parsed rules. -/
theorem c06_web (rules src : List NetRule) (hrep : ∀ r ∈ rules, r.isEnabled Facts.OptionReplace = false) :
    classOf (getBasicResult (newMatchingResult rules src)) = classWeb rules src := by
  rw [webClass_eq, (trigger_false_of_no_replace rules hrep).1]; rfl

/-- DNS requests: model of `GetDNSBasicRule(rules)` = reference class. -/
theorem c06_dns (rules : List NetRule) (hrep : ∀ r ∈ rules, r.isEnabled Facts.OptionReplace = false) :
    classOf (getDNSBasicRule rules) = classDns rules := by
  rw [dnsClass_eq, (trigger_false_of_no_replace rules hrep).2]; rfl

/-- For ALL rule records (including the unreachable `$replace` bit). -/
theorem c06_web_all (rules src : List NetRule) :
    classOf (getBasicResult (newMatchingResult rules src)) =
      if webReplaceTrigger rules then .none else classWeb rules src :=
  webClass_eq rules src

theorem c06_dns_all (rules : List NetRule) :
    classOf (getDNSBasicRule rules) = if dnsReplaceTrigger rules then .none else classDns rules :=
  dnsClass_eq rules

/-- The verdict class does not depend on the order of the rules or of the source rules (no
    hypothesis on the rules: also with `$replace` bits). -/
theorem c06_perm (rules rules' src src' : List NetRule) (h : rules.Perm rules') (hs : src.Perm src') :
    classOf (getBasicResult (newMatchingResult rules src)) =
      classOf (getBasicResult (newMatchingResult rules' src')) := by
  rw [webClass_eq, webClass_eq, webReplaceTrigger_perm rules rules' h, classWeb_perm rules rules' src src' h hs]

theorem c06_dns_perm (rules rules' : List NetRule) (h : rules.Perm rules') :
    classOf (getDNSBasicRule rules) = classOf (getDNSBasicRule rules') := by
  rw [dnsClass_eq, dnsClass_eq, dnsReplaceTrigger_perm rules rules' h, classDns_perm rules rules' h]

/-- … nor on how the rules are split across lists: any two families of lists with the same rules
    overall (in any order) give the same class. -/
theorem c06_split (ls ls' ss ss' : List (List NetRule)) (h : ls.flatten.Perm ls'.flatten)
    (hs : ss.flatten.Perm ss'.flatten) :
    classOf (getBasicResult (newMatchingResult ls.flatten ss.flatten)) =
      classOf (getBasicResult (newMatchingResult ls'.flatten ss'.flatten)) :=
  c06_perm _ _ _ _ h hs

/-- Rewrite rules, rules disabled by badfilter (and badfilter rules) and special-purpose rules
    never become the basic rule of a web result … -/
theorem c06_basic_effective (rules src : List NetRule) (b : NetRule)
    (h : (newMatchingResult rules src).basicRule = some b) :
    b ∈ rules ∧ b.badfilter = false ∧ (∀ x ∈ rules, isTwin x b = false) ∧ b.rewrite = none ∧
      isSpecial b = false := by
  obtain ⟨h1, h2, h3⟩ := basicRule_mem rules src b h
  unfold effectiveIn at h2
  simp only [Bool.and_eq_true, Bool.not_eq_true', List.any_eq_false, Option.isNone_iff_eq_none] at h2
  exact ⟨h1, h2.1.1, fun x hx => by simpa using h2.1.2 x hx, h2.2, h3⟩

/-- … nor the DNS basic rule. -/
theorem c06_dns_basic_effective (rules : List NetRule) (b : NetRule) (h : getDNSBasicRule rules = some b) :
    b ∈ rules ∧ b.badfilter = false ∧ (∀ x ∈ rules, isTwin x b = false) ∧ b.rewrite = none ∧
      isSpecial b = false := by
  obtain ⟨h1, h2, h3⟩ := dnsBasicRule_mem rules b h
  unfold effectiveIn at h2
  simp only [Bool.and_eq_true, Bool.not_eq_true', List.any_eq_false, Option.isNone_iff_eq_none] at h2
  exact ⟨h1, h2.1.1, fun x hx => by simpa using h2.1.2 x hx, h2.2, h3⟩

/-- The document rule (what `GetBasicResult` falls back to) is a referrer-level exception. -/
theorem c06_precedence_doc (rules src : List NetRule)
    (hrep : ∀ r ∈ rules, r.isEnabled Facts.OptionReplace = false)
    (hnone : precedence (webCandidate rules src) rules = .none) :
    classOf (getBasicResult (newMatchingResult rules src)) =
      if srcUrlblock src || srcGenericblock src then .allow else .none := by
  rw [c06_web rules src hrep, classWeb, hnone]

/-! #### non-vacuity and the old shape (D5) -/


/-- Repaired code on the D5 replay: allow in both orders (and block without the source exceptions). -/
example : classOf (getBasicResult (newMatchingResult [exBlock] [exG, exU])) = .allow ∧
    classOf (getBasicResult (newMatchingResult [exBlock] [exU, exG])) = .allow ∧
    classOf (getBasicResult (newMatchingResult [exBlock] [exG])) = .block ∧
    classOf (getBasicResult (newMatchingResult [exBlock] [])) = .block ∧
    classWeb [exBlock] [exG, exU] = .allow := by decide

/-- The pinned tree's shape (D5) on the same input: the verdict depends on the order of the two
    source exceptions. -/
example : classOf (getBasicResult (newMatchingResultOld [exBlock] [exG, exU])) = .block ∧
    classOf (getBasicResult (newMatchingResultOld [exBlock] [exU, exG])) = .allow := by decide

end UF.C06

import UF.Compose5.C08Storage
import UF.Props.C06Top
import UF.Props.C02Top
/-
  C08 AT ENGINE LEVEL (integration group L): "adding a rule together with its `$badfilter` twin to any list
  leaves every verdict unchanged", observed at `Engine.MatchRequest` / `NetworkEngine.Match` and at
  `DNSEngine.MatchRequest`, from the BYTES of the lists.

  What group C proved (UF/Props/C08.lean) speaks about the list of rules ALREADY matching a request: the pair
  `x`, `x$badfilter` is in it or not.  Missing, and supplied here:
    (a) a rule and its `$badfilter` twin match the SAME requests (`c08_twin_same_requests`): `negatesBadfilter`
        compares every matching-relevant field but not the shortcut, `Match` reads the shortcut; for PARSED
        rules the shortcut is a function of the stored pattern (group I2), which the twins share;
    (b) `c08_storage` (web) / `c08_storage_dns` / `c08_storage_rewrites`: two storages whose line-by-line parsed
        network rules differ, as sets, exactly by `x` and `xb`; `c08_storage_lines*`: the same with the two rules
        given as two LINES inserted at arbitrary positions of arbitrary lists (content surgery on the bytes);
    (c) the value-ORDER inconsistency of the twin relation is in UF/Props/C08Order.lean;
    (a') the text-level form of (a) — texts differing only by `badfilter` at any position of the modifier list
        parse to twins — and `c08_storage_texts` are in UF/Props/C08Text.lean.
  Property theorems only (helper lemmas live in UF/Compose5).
-/
namespace UF.C08
open UF UF.B UF.Storage UF.Compose UF.Compose3 UF.L

/-! ### (a) twins match the same requests -/

/-- `Match` reads a rule only through the fields `negatesBadfilter` compares, plus the shortcut. -/
theorem matchFields_matches (ext : Ext) (x y : NetRule) (q : Request)
    (h : x.matchFields = y.matchFields) (hs : x.shortcut = y.shortcut) : x.matches ext q = y.matches ext q :=
  L.matchFields_matches ext x y q h hs

/-- … and not the `$badfilter` bit: a rule with the matching fields of `x$badfilter` and the shortcut of `x`
    matches exactly what `x` matches. -/
theorem twin_matches (ext : Ext) (x xb : NetRule) (q : Request)
    (hxb : xb.matchFields = x.withBadfilter.matchFields) (hs : xb.shortcut = x.shortcut) :
    xb.matches ext q = x.matches ext q :=
  L.twin_matches ext x xb q hxb hs

/-- Two rules `NewNetworkRule` returns (any texts, any list ids) with the same stored pattern have the same
    shortcut. -/
theorem parsed_same_pattern_same_shortcut (px : E.ParseExt) (t t' : Bytes) (i j : Int) (r r' : NetRule)
    (h : E.parseNetRule px t i = .ok r) (h' : E.parseNetRule px t' j = .ok r') (hp : r.pattern = r'.pattern) :
    r.shortcut = r'.shortcut :=
  L.parsed_same_pattern_same_shortcut h h' hp

/-- A PARSED rule and a PARSED twin of it (identical apart from the `$badfilter` modifier, the text and the
    list id) match the same requests. -/
theorem c08_twin_same_requests (px : E.ParseExt) (tx tb : Bytes) (i j : Int) (x xb : NetRule)
    (hx : E.parseNetRule px tx i = .ok x) (hb : E.parseNetRule px tb j = .ok xb)
    (hxb : xb.matchFields = x.withBadfilter.matchFields) :
    ∀ q, xb.matches px.ext q = x.matches px.ext q :=
  fun q => parsed_twin_matches hx hb hxb q

/-! ### (b) the verdict of the engine, from bytes -/

/-- `Engine.MatchRequest` on an already built request (any `rules.Request` value, e.g. with client data —
    what `NetworkEngine.Match` sees): two storages whose line-by-line parsed network rules are, as sets, those
    of `lists` plus `x` and `xb` (`x` not a badfilter rule, `xb` its `$badfilter` twin, `x` structurally
    distinct from every rule of `lists`) give the same verdict class.  `io`, the cache histories, the order of
    lists and lines, list ids and multiplicities are arbitrary on both sides. -/
theorem c08_storage_request (io io' : IO) (px : E.ParseExt) (lists lists' : List RList)
    (hok : StorageOK lists) (hok' : StorageOK lists')
    (st st' : RuleStorage) (hnew : newRuleStorage lists = some st) (hnew' : newRuleStorage lists' = some st')
    (h1 h2 h1' h2' : List (BitVec 64)) (x xb : NetRule)
    (hins : ∀ r, r ∈ netRulesOf (specRules px lists') ↔ r ∈ netRulesOf (specRules px lists) ∨ r = x ∨ r = xb)
    (hx : x.badfilter = false) (hxb : xb.matchFields = x.withBadfilter.matchFields)
    (hdist : ∀ r ∈ netRulesOf (specRules px lists), r.matchFields ≠ x.matchFields)
    (q : Request) :
    classOf (getBasicResult (engineMatch io' px lists' st' h1' h2' q)) =
      classOf (getBasicResult (engineMatch io px lists st h1 h2 q)) := by
  rw [C06.c06_top_request io' px lists' hok' st' hnew', C06.c06_top_request io px lists hok st hnew]
  obtain ⟨hxm, hbm⟩ := ins_parsed hins
  rw [classWeb_agree (matchingLines_ins hins hxb q) (sourceMatchingLines_ins hins hxb q)]
  exact classWeb_withPair _ _ x xb _ _ hx hxb
    (fun r hr => hdist r (matchingLines_sub hr)) (fun r hr => hdist r (sourceMatchingLines_sub hr))
    (fun r hr => allNet_noReplace (matchingLines_sub hr)) (allNet_noReplace hxm) (allNet_noReplace hbm)

/-- C08 FROM RAW INPUTS, web: verdict(L + {x, x$badfilter}) = verdict(L) for
    `NewEngine(storage).MatchRequest(NewRequest(url, sourceURL, type))`, all URL strings, source-URL strings
    and request types. -/
theorem c08_storage (io io' : IO) (px : E.ParseExt) (lists lists' : List RList)
    (hok : StorageOK lists) (hok' : StorageOK lists')
    (st st' : RuleStorage) (hnew : newRuleStorage lists = some st) (hnew' : newRuleStorage lists' = some st')
    (h1 h2 h1' h2' : List (BitVec 64)) (x xb : NetRule)
    (hins : ∀ r, r ∈ netRulesOf (specRules px lists') ↔ r ∈ netRulesOf (specRules px lists) ∨ r = x ∨ r = xb)
    (hx : x.badfilter = false) (hxb : xb.matchFields = x.withBadfilter.matchFields)
    (hdist : ∀ r ∈ netRulesOf (specRules px lists), r.matchFields ≠ x.matchFields)
    (url sourceURL : Bytes) (reqType : Nat) :
    classOf (getBasicResult (engineMatchRequest io' px lists' st' h1' h2' url sourceURL reqType)) =
      classOf (getBasicResult (engineMatchRequest io px lists st h1 h2 url sourceURL reqType)) :=
  c08_storage_request io io' px lists lists' hok hok' st st' hnew hnew' h1 h2 h1' h2' x xb hins hx hxb hdist _

/-- C08 FROM RAW INPUTS, DNS: the class of `DNSEngine.MatchRequest(dReq).NetworkRule` (non-empty hostname;
    any record type, client name / address / tags, any pooled request value). -/
theorem c08_storage_dns (io io' : IO) (px : E.ParseExt) (lists lists' : List RList)
    (hok : StorageOK lists) (hok' : StorageOK lists')
    (st st' : RuleStorage) (hnew : newRuleStorage lists = some st) (hnew' : newRuleStorage lists' = some st')
    (h h' : List (BitVec 64)) (x xb : NetRule)
    (hins : ∀ r, r ∈ netRulesOf (specRules px lists') ↔ r ∈ netRulesOf (specRules px lists) ∨ r = x ∨ r = xb)
    (hx : x.badfilter = false) (hxb : xb.matchFields = x.withBadfilter.matchFields)
    (hdist : ∀ r ∈ netRulesOf (specRules px lists), r.matchFields ≠ x.matchFields)
    (old old' : Request) (d : DReq) (hd : d.hostname ≠ []) :
    classOf (dnsEngineMatchRequest io' px lists' st' h' old' d).networkRule =
      classOf (dnsEngineMatchRequest io px lists st h old d).networkRule := by
  rw [C02.c02_top_class io' px lists' hok' st' hnew' h' old' d hd, C02.c02_top_class io px lists hok st hnew h old d hd]
  obtain ⟨hxm, hbm⟩ := ins_parsed hins
  rw [classDns_agree (dnsMatchingLines_ins hins hxb d)]
  exact classDns_withPair _ x xb _ hx hxb (fun r hr => hdist r (dnsMatchingLines_sub hr))
    (fun r hr => allNet_noReplace (dnsMatchingLines_sub hr)) (allNet_noReplace hxm) (allNet_noReplace hbm)

/-- … and `DNSResult.DNSRewrites()`: neither call crashes and the effective rewrites carry the same set of
    rule texts (`x` and `xb` themselves, `$dnsrewrite` rules or not, are never among them). -/
theorem c08_storage_rewrites (io io' : IO) (px : E.ParseExt) (lists lists' : List RList)
    (hok : StorageOK lists) (hok' : StorageOK lists')
    (st st' : RuleStorage) (hnew : newRuleStorage lists = some st) (hnew' : newRuleStorage lists' = some st')
    (h h' : List (BitVec 64)) (x xb : NetRule)
    (hins : ∀ r, r ∈ netRulesOf (specRules px lists') ↔ r ∈ netRulesOf (specRules px lists) ∨ r = x ∨ r = xb)
    (hx : x.badfilter = false) (hxb : xb.matchFields = x.withBadfilter.matchFields)
    (hdist : ∀ r ∈ netRulesOf (specRules px lists), r.matchFields ≠ x.matchFields)
    (old old' : Request) (d : DReq) (hd : d.hostname ≠ []) :
    ∃ out out', dnsEffectiveRewrites (dnsEngineMatchRequest io px lists st h old d) = some out ∧
      dnsEffectiveRewrites (dnsEngineMatchRequest io' px lists' st' h' old' d) = some out' ∧
      ∀ t, t ∈ out'.map (·.text) ↔ t ∈ out.map (·.text) := by
  obtain ⟨out, e1, t1⟩ := C02.c02_top_rewrites_lines io px lists hok st hnew h old d hd
  obtain ⟨out', e2, t2⟩ := C02.c02_top_rewrites_lines io' px lists' hok' st' hnew' h' old' d hd
  refine ⟨out, out', e1, e2, fun t => ?_⟩
  rw [t1, t2, texts_of_agree (specRewrites_agree (dnsMatchingLines_ins hins hxb d)),
    specRewrites_withPair _ x xb _ hx hxb (fun r hr => hdist r (dnsMatchingLines_sub hr))]

/-! ### (b') the same with the two rules given as two inserted LINES -/

/-- What the insertion of a line does to the bytes: `strings.Split` of the new content is that of the old one
    with the line put between two pieces — in the middle (`a ⏎ b` ↦ `a ⏎ t ⏎ b`), at the very beginning
    (`b` ↦ `t ⏎ b`) or at the very end (`a` ↦ `a ⏎ t`) of any list of the storage; the backing may change. -/
theorem c08_line_inserted (A B : List RList) (id : Int) (ic f f' : Bool) (a b t : Bytes) (ht : 10 ∉ t) :
    LineInserted t id (A ++ ⟨id, ic, a ++ 10 :: b, f⟩ :: B) (A ++ ⟨id, ic, a ++ 10 :: (t ++ 10 :: b), f'⟩ :: B) ∧
    LineInserted t id (A ++ ⟨id, ic, b, f⟩ :: B) (A ++ ⟨id, ic, t ++ 10 :: b, f'⟩ :: B) ∧
    LineInserted t id (A ++ ⟨id, ic, a, f⟩ :: B) (A ++ ⟨id, ic, a ++ 10 :: t, f'⟩ :: B) :=
  ⟨lineInserted_middle A B id ic f f' a b t ht, lineInserted_front A B id ic f f' b t ht,
    lineInserted_back A B id ic f f' a t ht⟩

/-- Two lines `tx` (into the list with id `i`) and `tb` (into the list with id `j`) inserted one after the
    other at arbitrary positions — same list or different lists, either relative order —, which `NewRule`
    turns into the network rules `x` and `xb`: the parsed network rules are the old ones plus `x` and `xb`. -/
theorem c08_lines_rules (px : E.ParseExt) (tx tb : Bytes) (i j : Int) (lists lists1 lists' : List RList)
    (x xb : NetRule) (hl1 : LineInserted tx i lists lists1) (hl2 : LineInserted tb j lists1 lists')
    (hpx : E.newRule (realRx px) tx i = .ok (some (.net x)))
    (hpb : E.newRule (realRx px) tb j = .ok (some (.net xb))) :
    ∀ r, r ∈ netRulesOf (specRules px lists') ↔ r ∈ netRulesOf (specRules px lists) ∨ r = x ∨ r = xb :=
  netRules_twoLinesInserted hl1 hl2 hpx hpb

/-- C08 from raw inputs with the pair given as two inserted lines, web and DNS together. -/
theorem c08_storage_lines (io io' : IO) (px : E.ParseExt) (lists lists1 lists' : List RList)
    (hok : StorageOK lists) (hok' : StorageOK lists')
    (st st' : RuleStorage) (hnew : newRuleStorage lists = some st) (hnew' : newRuleStorage lists' = some st')
    (h1 h2 h1' h2' : List (BitVec 64)) (tx tb : Bytes) (i j : Int) (x xb : NetRule)
    (hl1 : LineInserted tx i lists lists1) (hl2 : LineInserted tb j lists1 lists')
    (hpx : E.newRule (realRx px) tx i = .ok (some (.net x)))
    (hpb : E.newRule (realRx px) tb j = .ok (some (.net xb)))
    (hx : x.badfilter = false) (hxb : xb.matchFields = x.withBadfilter.matchFields)
    (hdist : ∀ r ∈ netRulesOf (specRules px lists), r.matchFields ≠ x.matchFields) :
    (∀ url sourceURL reqType,
      classOf (getBasicResult (engineMatchRequest io' px lists' st' h1' h2' url sourceURL reqType)) =
        classOf (getBasicResult (engineMatchRequest io px lists st h1 h2 url sourceURL reqType))) ∧
    (∀ q, classOf (getBasicResult (engineMatch io' px lists' st' h1' h2' q)) =
        classOf (getBasicResult (engineMatch io px lists st h1 h2 q))) ∧
    (∀ old old' d, d.hostname ≠ [] →
      classOf (dnsEngineMatchRequest io' px lists' st' h1' old' d).networkRule =
        classOf (dnsEngineMatchRequest io px lists st h1 old d).networkRule) := by
  have hins := netRules_twoLinesInserted hl1 hl2 hpx hpb
  exact ⟨fun url src ty => c08_storage io io' px lists lists' hok hok' st st' hnew hnew' h1 h2 h1' h2' x xb hins hx hxb
      hdist url src ty,
    fun q => c08_storage_request io io' px lists lists' hok hok' st st' hnew hnew' h1 h2 h1' h2' x xb hins hx hxb hdist q,
    fun old old' d hd => c08_storage_dns io io' px lists lists' hok hok' st st' hnew hnew' h1 h1' x xb hins hx hxb
      hdist old old' d hd⟩

/-! ### Non-vacuity -/

private def exPx : E.ParseExt :=
  { ext := { psl := fun _ => (lit "org", true), parseAddr := fun _ => none,
             parsePrefix := fun _ => none, pat := I2.modelPatD },
    loadDNSRewrite := fun _ => none, regexpShortcut := fun _ => [] }

private def exBase : List RList :=
  [⟨1, false, lit "||ads.org^\n@@||ads.org^$image\n", false⟩, ⟨7, false, lit "||x.org^", false⟩]

/-- `||ads.org^$important` goes into list 1 (middle), its twin into list 7 (end). -/
private def exMid : List RList :=
  [⟨1, false, lit "||ads.org^\n||ads.org^$important\n@@||ads.org^$image\n", false⟩, ⟨7, false, lit "||x.org^", false⟩]

private def exExt : List RList :=
  [⟨1, false, lit "||ads.org^\n||ads.org^$important\n@@||ads.org^$image\n", false⟩,
   ⟨7, false, lit "||x.org^\n||ads.org^$badfilter,important", false⟩]

example : StorageOK exBase ∧ StorageOK exExt := ⟨⟨by decide, by decide, by decide⟩, ⟨by decide, by decide, by decide⟩⟩

example : LineInserted (lit "||ads.org^$important") 1 exBase exMid :=
  lineInserted_middle [] [⟨7, false, lit "||x.org^", false⟩] 1 false false false (lit "||ads.org^")
    (lit "@@||ads.org^$image\n") (lit "||ads.org^$important") (by decide)

example : LineInserted (lit "||ads.org^$badfilter,important") 7 exMid exExt :=
  lineInserted_back [⟨1, false, lit "||ads.org^\n||ads.org^$important\n@@||ads.org^$image\n", false⟩] [] 7 false false false
    (lit "||x.org^") (lit "||ads.org^$badfilter,important") (by decide)

private def exNet (t : Bytes) (id : Int) : NetRule :=
  match E.newRule (realRx exPx) t id with
  | .ok (some (.net x)) => x
  | _ => default

/-- The two lines parse to twins, `x` is distinct from the three base rules, and the computed verdicts agree
    (an image request is allowed by the exception — which `$important` would have overridden —, a script
    request is blocked). -/
example :
    (match E.newRule (realRx exPx) (lit "||ads.org^$important") 1,
           E.newRule (realRx exPx) (lit "||ads.org^$badfilter,important") 7 with
     | .ok (some (.net _)), .ok (some (.net _)) => true
     | _, _ => false) = true ∧
    (exNet (lit "||ads.org^$important") 1).badfilter = false ∧
    (exNet (lit "||ads.org^$badfilter,important") 7).matchFields =
      (exNet (lit "||ads.org^$important") 1).withBadfilter.matchFields ∧
    (∀ r ∈ netRulesOf (specRules exPx exBase), r.matchFields ≠ (exNet (lit "||ads.org^$important") 1).matchFields) ∧
    classOf (getBasicResult (engineMatchRequest ⟨4096, fun _ => 1⟩ exPx exExt ⟨exExt, []⟩ [] []
      (lit "http://ads.org/x.png") [] 32)) = .allow ∧
    classOf (getBasicResult (engineMatchRequest ⟨4096, fun _ => 1⟩ exPx exBase ⟨exBase, []⟩ [] []
      (lit "http://ads.org/x.png") [] 32)) = .allow ∧
    classOf (getBasicResult (engineMatchRequest ⟨4096, fun _ => 1⟩ exPx exExt ⟨exExt, []⟩ [] []
      (lit "http://ads.org/x.js") [] 4)) = .block := by
  decide +kernel

end UF.C08

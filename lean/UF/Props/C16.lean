import UF.Spec.CosmeticOption
import UF.Proofs.Bits
import UF.Proofs.C16
/-
  C16 — exception modifiers only ever switch cosmetic options off.
  Property theorems only (helper lemmas live in UF/Proofs).
-/
namespace UF.C16
open UF

/-- With no basic rule, or a non-exception basic rule, everything is enabled. -/
theorem c16_nonexception (basic : Option NetRule) (h : ∀ r, basic = some r → r.whitelist = false) :
    getCosmeticOption basic = cosAll := by
  cases basic with
  | none => rfl
  | some r => simp [getCosmeticOption, h r rfl]

/-- For EVERY option mask of an exception rule (all 2^64 of them, not only the nine named modifiers):
    the option is "all minus the union of what elemhide / generichide / jsinject disable". -/
theorem c16_bits (r : NetRule) (hw : r.whitelist = true) :
    getCosmeticOption (some r) =
      andNot cosAll
        ((if r.isEnabled Facts.OptionElemhide then cosCSS ||| cosGenericCSS else 0) |||
         (if r.isEnabled Facts.OptionGenerichide then cosGenericCSS else 0) |||
         (if r.isEnabled Facts.OptionJsinject then cosJS else 0)) := by
  simp only [getCosmeticOption, hw]
  cases r.isEnabled Facts.OptionElemhide <;> cases r.isEnabled Facts.OptionGenerichide <;>
    cases r.isEnabled Facts.OptionJsinject <;> decide

/-- The statement of the property: for every list of the nine named modifiers (any subset, any order,
    repetitions allowed) on an exception rule whose enabled options are exactly the bits those
    modifiers set, the option equals the reference "All minus the union of disabled(m)". -/
theorem c16 (r : NetRule) (mods : List CosMod) (hw : r.whitelist = true)
    (hbits : r.enabled = modsBits mods) :
    getCosmeticOption (some r) = specCosmeticOption true mods := by
  have key : ∀ k, r.enabled.testBit k = mods.any (fun m => m.bits.testBit k) := by
    intro k; rw [hbits, modsBits, testBit_foldl_or]; simp
  have he : r.isEnabled Facts.OptionElemhide = mods.any (fun m => m.bits.testBit 4) := by
    rw [← key]; exact and_two_pow_beq r.enabled 4
  have hg : r.isEnabled Facts.OptionGenerichide = mods.any (fun m => m.bits.testBit 5) := by
    rw [← key]; exact and_two_pow_beq r.enabled 5
  have hj : r.isEnabled Facts.OptionJsinject = mods.any (fun m => m.bits.testBit 7) := by
    rw [← key]; exact and_two_pow_beq r.enabled 7
  rw [c16_bits r hw, he, hg, hj]
  simp only [specCosmeticOption, if_true]
  congr 1
  clear he hg hj key hbits
  induction mods with
  | nil => decide
  | cons m ms ih =>
    simp only [List.foldl_cons, List.any_cons]
    rw [bv_foldl_or, ← ih]
    exact c16_step m _ _ _

/-- Monotonicity: enabling more option bits on an exception rule can only remove cosmetic options. -/
theorem c16_mono (r r' : NetRule) (hw : r.whitelist = true) (hw' : r'.whitelist = true)
    (hsub : ∀ opt, r.isEnabled opt = true → r'.isEnabled opt = true) :
    getCosmeticOption (some r') &&& getCosmeticOption (some r) = getCosmeticOption (some r') := by
  rw [c16_bits r hw, c16_bits r' hw']
  have h1 := hsub Facts.OptionElemhide
  have h2 := hsub Facts.OptionGenerichide
  have h3 := hsub Facts.OptionJsinject
  revert h1 h2 h3
  cases r.isEnabled Facts.OptionElemhide <;> cases r.isEnabled Facts.OptionGenerichide <;>
    cases r.isEnabled Facts.OptionJsinject <;>
    cases r'.isEnabled Facts.OptionElemhide <;> cases r'.isEnabled Facts.OptionGenerichide <;>
    cases r'.isEnabled Facts.OptionJsinject <;> simp <;> decide

/-- No combination of modifiers re-enables an option: the result is always a subset of `All`, and the
    bits `Engine.GetCosmeticResult` decodes are exactly "not disabled". -/
theorem c16_flags (r : NetRule) (hw : r.whitelist = true) :
    decodeCosmeticFlags (getCosmeticOption (some r)) =
      (!r.isEnabled Facts.OptionElemhide,
       !r.isEnabled Facts.OptionJsinject,
       !(r.isEnabled Facts.OptionElemhide || r.isEnabled Facts.OptionGenerichide)) := by
  rw [c16_bits r hw]
  cases r.isEnabled Facts.OptionElemhide <;> cases r.isEnabled Facts.OptionGenerichide <;>
    cases r.isEnabled Facts.OptionJsinject <;> decide

/-- Non-vacuity: the rule `@@||e.org^$elemhide,generichide` (the D10 replay) satisfies the hypotheses
    of `c16` and gets JS only. -/
example :
    let r : NetRule := { whitelist := true, enabled := modsBits [.elemhide, .generichide] }
    r.whitelist = true ∧ r.enabled = modsBits [.elemhide, .generichide] ∧
      getCosmeticOption (some r) = cosJS := by decide

/-- The unrepaired code toggled the bits (XOR); on the D10 input that re-enables generic CSS. This
    `example` records that the model distinguishes the two behaviours. -/
example : (cosAll ^^^ cosCSS ^^^ cosGenericCSS ^^^ cosGenericCSS) = cosJS ||| cosGenericCSS := by decide

end UF.C16

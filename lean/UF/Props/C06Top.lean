import UF.Compose3.Request
import UF.Props.C06
/-
  C06 AT THE TOP LEVEL (integration group I3): the verdict of `Engine.MatchRequest` taken from RAW inputs —
  the BYTES of the filter lists, the URL string, the source-URL string and the request type.

  `engineMatchRequest` (UF/Compose3/WebTop.lean) is the model of engine.go:
      request := NewRequest(url, sourceURL, type)                              (group H, C17)
      rules   := MatchAll(request) of the engine built by scanning the lists    (groups B, D, E; I1: C01/C11/C12)
      source  := MatchAll(NewRequest(request.SourceURL, "", TypeDocument))      if SourceURL != ""
      result  := NewMatchingResult(rules, source)                               (group C, C06/C07/C08)
  composed here: C01-from-bytes (`c01_storage`, sound + complete as sets of texts), "text determines the rule
  up to the list id" (parser model), C06 (`c06_web`), and the new fact that the reference class does not
  depend on order, multiplicities and list ids of the matched rules (UF/Compose3/Agree.lean — `MatchAll`
  returns table order, one rule per text in the sequential table; the reference filters in storage order).

  Parameters left: the oracles in `px` (public suffix, netip, pattern oracle, `$dnsrewrite` value parser,
  regexp-shortcut finder); `io` (chunking of file reads) and the two cache histories are universally
  quantified.  Domain: `StorageOK lists` (distinct list ids in int32, fewer than `MaxInt32` bytes in total).
  `c06_top_full` additionally instantiates the pattern oracle by the proved model and replaces `Match` by its
  declarative reference (C03 + C04 + C05 + C12, group I2), under explicit ASCII / mask-pattern hypotheses.
  Property theorems only (helper lemmas live in UF/Compose3).
-/
namespace UF.C06
open UF UF.B UF.Storage UF.Compose UF.Compose3

/-- C06 FROM RAW INPUTS: for all list contents, ids, backings, cache histories, URL strings, source-URL
    strings and request types, the verdict class of `NewEngine(storage).MatchRequest(NewRequest(url, src, t))`
    is the documented precedence (`classWeb`: important exception > important block > exception > block,
    blocking rules suppressed by a referrer-level `$urlblock` / generic ones by `$genericblock`, only
    effective non-special rules count) computed over
      { network rules parsed from the lines of the lists that individually match the request } and
      { … that match the referrer document request } (empty without a source URL). -/
theorem c06_top (io : IO) (px : E.ParseExt) (lists : List RList) (hok : StorageOK lists)
    (st : RuleStorage) (hnew : newRuleStorage lists = some st) (history history' : List (BitVec 64))
    (url sourceURL : Bytes) (reqType : Nat) :
    classOf (getBasicResult (engineMatchRequest io px lists st history history' url sourceURL reqType)) =
      classWeb (matchingLines px lists (requestOf px.ext url sourceURL reqType))
        (sourceMatchingLines px lists (requestOf px.ext url sourceURL reqType)) :=
  engineMatch_class io px lists hok st hnew history history' _

/-- The same for an already built request (any `rules.Request` value, e.g. one with client data). -/
theorem c06_top_request (io : IO) (px : E.ParseExt) (lists : List RList) (hok : StorageOK lists)
    (st : RuleStorage) (hnew : newRuleStorage lists = some st) (history history' : List (BitVec 64))
    (r : Request) :
    classOf (getBasicResult (engineMatch io px lists st history history' r)) =
      classWeb (matchingLines px lists r) (sourceMatchingLines px lists r) :=
  engineMatch_class io px lists hok st hnew history history' r

/-- The reference sets spelled out: a rule is among the matching lines iff some piece between two newlines
    of some list parses (`NewRule`) to it as a network rule and it matches. -/
theorem c06_top_lines (px : E.ParseExt) (lists : List RList) (q : Request) (r : NetRule) :
    r ∈ matchingLines px lists q ↔
      (∃ l ∈ lists, ∃ piece ∈ splitLines l.content, E.newRule (realRx px) piece l.id = .ok (some (.net r))) ∧
        r.matches px.ext q = true :=
  mem_matchingLines

/-- The request the reference sets are computed for: `NewRequest` never fails, caps both URLs at 4096 bytes
    and lower-cases; the referrer request is the capped source URL as a `document` request without source. -/
theorem c06_top_requests (ext : Ext) (url sourceURL : Bytes) (reqType : Nat) :
    H.newRequest ext url sourceURL reqType = .ok (requestOf ext url sourceURL reqType) ∧
    (requestOf ext url sourceURL reqType).url = url.take Facts.maxURLLength ∧
    (requestOf ext url sourceURL reqType).sourceURL = sourceURL.take Facts.maxURLLength ∧
    (requestOf ext url sourceURL reqType).reqType = reqType ∧
    H.newRequest ext (requestOf ext url sourceURL reqType).sourceURL [] Facts.TypeDocument =
      .ok (sourceRequestOf ext (requestOf ext url sourceURL reqType)) ∧
    (sourceRequestOf ext (requestOf ext url sourceURL reqType)).url = sourceURL.take Facts.maxURLLength ∧
    (sourceRequestOf ext (requestOf ext url sourceURL reqType)).hostname =
      (requestOf ext url sourceURL reqType).sourceHostname := by
  obtain ⟨f1, _, f3, f4, _⟩ := requestOf_fields ext url sourceURL reqType
  obtain ⟨g1, g2, _⟩ := sourceRequestOf_fields ext url sourceURL reqType
  exact ⟨requestOf_eq _ _ _ _, f1, f3, f4, requestOf_eq _ _ _ _, by rw [g1, f3], g2⟩

/-- The rule `GetBasicResult` returns as the BASIC rule is one of the matching lines (never a rule that
    does not match, never a rule that is not in the lists), it is effective and not special-purpose. -/
theorem c06_top_winner (io : IO) (px : E.ParseExt) (lists : List RList) (hok : StorageOK lists)
    (st : RuleStorage) (hnew : newRuleStorage lists = some st) (history history' : List (BitVec 64))
    (url sourceURL : Bytes) (reqType : Nat) (b : NetRule)
    (h : (engineMatchRequest io px lists st history history' url sourceURL reqType).basicRule = some b) :
    b ∈ matchingLines px lists (requestOf px.ext url sourceURL reqType) ∧
      b.badfilter = false ∧ b.rewrite = none ∧ isSpecial b = false := by
  refine ⟨engineMatch_basic_mem io px lists hok st hnew history history' _ b h, ?_⟩
  obtain ⟨_, h2, _, h4, h5⟩ := c06_basic_effective _ _ b h
  exact ⟨h2, h4, h5⟩

/-- Order, splits, ids, duplicates, noise: two storages whose accepted network rules carry the same SET OF
    TEXTS give the same verdict class for every URL, source URL and type — whatever the order of the lists
    and of the lines, however the lines are split across lists, whatever the list ids, multiplicities,
    comments, rejected lines and line ends ("in any order", from bytes). -/
theorem c06_top_texts (io io' : IO) (px : E.ParseExt) (lists lists' : List RList)
    (hok : StorageOK lists) (hok' : StorageOK lists')
    (st st' : RuleStorage) (hnew : newRuleStorage lists = some st) (hnew' : newRuleStorage lists' = some st')
    (h1 h2 h1' h2' : List (BitVec 64)) (url sourceURL : Bytes) (reqType : Nat)
    (h : ∀ t, t ∈ (netRulesOf (specRules px lists)).map (·.text) ↔ t ∈ (netRulesOf (specRules px lists')).map (·.text)) :
    classOf (getBasicResult (engineMatchRequest io px lists st h1 h2 url sourceURL reqType)) =
      classOf (getBasicResult (engineMatchRequest io' px lists' st' h1' h2' url sourceURL reqType)) := by
  rw [c06_top io px lists hok st hnew, c06_top io' px lists' hok' st' hnew']
  have key : ∀ q, ListsAgree (matchingLines px lists q) (matchingLines px lists' q) := by
    intro q
    have sub : ∀ (A B : List RList),
        (∀ t, t ∈ (netRulesOf (specRules px A)).map (·.text) → t ∈ (netRulesOf (specRules px B)).map (·.text)) →
        ∀ r ∈ matchingLines px A q, ∃ r' ∈ matchingLines px B q, SameButID r r' := by
      intro A B hAB r hr
      obtain ⟨hrA, hm⟩ := List.mem_filter.1 hr
      obtain ⟨r', hr', ht⟩ := List.mem_map.1 (hAB r.text (List.mem_map.2 ⟨r, hrA, rfl⟩))
      have hs : SameButID r r' :=
        sameButID_of_eq (parse_same_text (allNet_parse (lists := A) hrA) (allNet_parse (lists := B) hr') ht.symm)
      refine ⟨r', List.mem_filter.2 ⟨hr', ?_⟩, hs⟩
      rw [← congr_noID (fun x => x.matches px.ext q) (fun _ => rfl) hs]
      exact hm
    refine ⟨sub lists lists' (fun t => (h t).1), fun r' hr' => ?_⟩
    obtain ⟨r, hr, hs⟩ := sub lists' lists (fun t => (h t).2) r' hr'
    exact ⟨r, hr, hs.symm⟩
  apply classWeb_agree (key _)
  unfold sourceMatchingLines
  split
  · exact key _
  · exact listsAgree_refl []

/-- In particular: any permutation of the lists. -/
theorem c06_top_perm (io : IO) (px : E.ParseExt) (lists lists' : List RList) (hperm : lists.Perm lists')
    (hok : StorageOK lists) (hok' : StorageOK lists')
    (st st' : RuleStorage) (hnew : newRuleStorage lists = some st) (hnew' : newRuleStorage lists' = some st')
    (h1 h2 h1' h2' : List (BitVec 64)) (url sourceURL : Bytes) (reqType : Nat) :
    classOf (getBasicResult (engineMatchRequest io px lists st h1 h2 url sourceURL reqType)) =
      classOf (getBasicResult (engineMatchRequest io px lists' st' h1' h2' url sourceURL reqType)) := by
  apply c06_top_texts io io px lists lists' hok hok' st st' hnew hnew'
  intro t
  simp only [List.mem_map, mem_netRulesOf, mem_specRules]
  constructor
  · rintro ⟨r, ⟨l, hl, rest⟩, rfl⟩; exact ⟨r, ⟨l, hperm.mem_iff.1 hl, rest⟩, rfl⟩
  · rintro ⟨r, ⟨l, hl, rest⟩, rfl⟩; exact ⟨r, ⟨l, hperm.mem_iff.2 hl, rest⟩, rfl⟩

/-- C06 from raw inputs with NOTHING about `Match` left to an oracle: the pattern oracle is the proved model
    (`modelPatD`), and on the mask domain (every pattern of the lists is an ASCII non-`/regex/` pattern; the
    two capped URLs are ASCII without line feed; the type is one content type; no hostname starts with a
    dot) the matching lines are the rules satisfying the DECLARATIVE reference `specMatchNoShortcut`: every
    modifier as a set-membership statement and the documented mask language of the pattern as written. -/
theorem c06_top_full (io : IO) (px : E.ParseExt) (lists : List RList) (hok : StorageOK lists)
    (st : RuleStorage) (hnew : newRuleStorage lists = some st) (history history' : List (BitVec 64))
    (url sourceURL : Bytes) (reqType : Nat)
    (hpat : px.ext.pat = I2.modelPatD)
    (ht : ∃ k, reqType = 2 ^ k)
    (hh : (requestOf px.ext url sourceURL reqType).hostname.head? ≠ some (ch '.'))
    (hs : (requestOf px.ext url sourceURL reqType).sourceHostname.head? ≠ some (ch '.'))
    (hd : ∀ r ∈ netRulesOf (specRules px lists),
      I2.MaskDomain r.pattern (url.take Facts.maxURLLength) ∧
      I2.MaskDomain r.pattern (sourceURL.take Facts.maxURLLength)) :
    classOf (getBasicResult (engineMatchRequest io px lists st history history' url sourceURL reqType)) =
      classWeb
        ((netRulesOf (specRules px lists)).filter fun r =>
          I2.specMatchNoShortcut px.ext r (requestOf px.ext url sourceURL reqType))
        (if sourceURL.take Facts.maxURLLength != [] then
          (netRulesOf (specRules px lists)).filter fun r =>
            I2.specMatchNoShortcut px.ext r (sourceRequestOf px.ext (requestOf px.ext url sourceURL reqType))
         else []) := by
  rw [c06_top io px lists hok st hnew]
  obtain ⟨f1, f2, f3, _, f5, _⟩ := requestOf_fields px.ext url sourceURL reqType
  obtain ⟨hq, hsq⟩ := requestOf_inDomain px.ext url sourceURL reqType ht hh hs
  have e1 := matchingLines_eq_ref px lists hpat _ hq (by rw [f2, f1]) f5
    (fun r hr => by rw [f1]; exact (hd r hr).1)
  rw [e1]
  unfold sourceMatchingLines
  rw [f3]
  split
  · obtain ⟨g1, _⟩ := sourceRequestOf_fields px.ext url sourceURL reqType
    have g := requestOf_fields px.ext (requestOf px.ext url sourceURL reqType).sourceURL [] Facts.TypeDocument
    have e2 := matchingLines_eq_ref px lists hpat
      (sourceRequestOf px.ext (requestOf px.ext url sourceURL reqType)) hsq
      (by unfold sourceRequestOf; rw [g.2.1, g.1]) (by unfold sourceRequestOf; exact g.2.2.2.2.1)
      (fun r hr => by rw [g1, f3]; exact (hd r hr).2)
    rw [e2]; rfl
  · rfl

/-! ### Non-vacuity: a storage with a blocking rule, an exception in another list, a `$domain` rule and a
    referrer-level `$genericblock` exception; the composed model is computed on it. -/

private def exPx : E.ParseExt :=
  { ext := { psl := fun _ => (lit "org", true), parseAddr := fun _ => none,
             parsePrefix := fun _ => none, pat := I2.modelPatD },
    loadDNSRewrite := fun _ => none, regexpShortcut := fun _ => [] }

private def exLists : List RList :=
  [⟨1, false, lit "||ads.org^\r\n! c\n/banner$domain=site.org\n", false⟩,
   ⟨7, false, lit "@@||site.org^$genericblock\n##x", false⟩]

example : StorageOK exLists := ⟨by decide, by decide, by decide⟩

/-- The generic rule `||ads.org^` is suppressed by the referrer's `$genericblock` exception (the verdict falls
    back to the document rule: allow); the `$domain` rule is not generic and still blocks. -/
example :
    classOf (getBasicResult (engineMatchRequest ⟨4096, fun _ => 1⟩ exPx exLists ⟨exLists, []⟩ [] []
      (lit "http://ads.org/x") (lit "http://site.org/") 4)) = .allow ∧
    classOf (getBasicResult (engineMatchRequest ⟨4096, fun _ => 1⟩ exPx exLists ⟨exLists, []⟩ [] []
      (lit "http://ads.org/x") [] 4)) = .block ∧
    classOf (getBasicResult (engineMatchRequest ⟨4096, fun _ => 1⟩ exPx exLists ⟨exLists, []⟩ [] []
      (lit "http://ads.org/banner") (lit "http://site.org/") 4)) = .block := by
  decide +kernel

end UF.C06

import UF.Proofs.ProgRun
import UF.Gen.Facts
/-
  C14 — engines can be queried concurrently: race-free and sequentially consistent.  PARTIAL BY NATURE.

  What is proved here is a statement about the abstract Prog model: for EVERY schedule of its atomic
  actions, every finished query returned the stateless answer.  That one critical section of the Go
  code is one atomic action of the model is an ASSUMPTION; it is compared on every run with the lock
  table extracted from the source (`c14_fact_lock_table`).  The Go memory model, the scheduler,
  sync.Mutex/RWMutex, sync.Pool, os.File and regexp internals are outside the model; the `-race` runs
  of the harness (bin/vconfig_groupf.py `c14_extra`) are exploration, not proof.
-/
namespace UF.C14
open UF UF.Prog

/-- An access row `(method, field, r|w, lock held)` is properly locked when it happens under the
    matching mutex: writes under `Lock`, reads under `Lock` or `RLock`. -/
def properlyLocked (row : String × String × String × String) : Bool :=
  let lock := row.2.2.2
  let kind := row.2.2.1
  ["Lock(recv)", "Lock(cacheMu)"].contains lock ||
    (kind == "r" && ["RLock(recv)", "RLock(cacheMu)"].contains lock)

/-- FACT (regenerated from /repo on every run by go/ast): which methods touch `RuleStorage.cache`,
    `FileRuleList.File/buffer`, `NetworkRule.regex/invalid` through their receiver, whether they read or
    write, and which lock they hold at that point.  Every such access is either one of the model's
    action-table rows (the few accesses that are deliberately unlocked: construction-time and single-owner
    paths) or happens under the matching lock -- so extracting a locked section into a helper method does
    not disturb the obligation, while dropping or narrowing a lock does. -/
theorem c14_fact_lock_table :
    Facts.lockTable.all (fun row => actionTable.contains row || properlyLocked row) = true := by decide

/-- …and every critical section the model's atomic actions stand for still exists in the code: each
    locked row of the action table has a row of the extracted table with the same field, access kind
    and lock. -/
theorem c14_fact_sections_exist :
    (actionTable.filter properlyLocked).all (fun row =>
      Facts.lockTable.any (fun r => r.2 == row.2)) = true := by decide

/-- Sequential consistency of the model, for EVERY schedule: any number of concurrent queries `qs`,
    any list of thread ids of any length (a thread id may repeat arbitrarily, be starved, or not exist),
    from any state satisfying `CacheInv` with no list closed: every thread that has finished returned
    `pureAnswer` of its query -- the answer a fresh engine gives sequentially (C13). -/
theorem c14_sc {R : Type} (env : Env R) (s : State R) (qs : List Query) (sched : List Nat)
    (hc : CacheInv env s) (h0 : s.closed = []) :
    ∀ t ∈ (Config.run env ⟨s, qs.map Thread.init⟩ (sched.map Ev.run)).threads,
      t.pc = .done → t.answer env = pureAnswer env t.q := by
  have hinit : CInv Eq env ⟨s, qs.map Thread.init⟩ ∧ (⟨s, qs.map Thread.init⟩ : Config R).state.closed = [] := by
    refine ⟨⟨hc, ?_⟩, h0⟩
    intro t ht
    simp only [List.mem_map] at ht
    obtain ⟨q, _, rfl⟩ := ht
    exact good_init Eq env q
  have h := run_cinv_eq sched _ hinit
  intro t ht hd
  exact answer_of_good_eq (h.1.2 t ht) hd

/-- The threads keep their queries: thread `i` of the final configuration still runs `qs[i]`. -/
theorem c14_sc_queries {R : Type} (env : Env R) (s : State R) (qs : List Query) (sched : List Ev) :
    (Config.run env ⟨s, qs.map Thread.init⟩ sched).threads.map (·.q) = qs := by
  have key : ∀ (sched : List Ev) (c : Config R), (Config.run env c sched).threads.map (·.q) = c.threads.map (·.q) := by
    intro sched
    induction sched with
    | nil => intro c; rfl
    | cons e rest ih =>
      intro c
      simp only [Config.run, List.foldl_cons]
      have := ih (c.exec env e)
      simp only [Config.run] at this
      rw [this]
      cases e with
      | close l => rfl
      | run tid =>
        simp only [Config.exec]
        cases ht : c.threads[tid]? with
        | none => rfl
        | some t =>
          simp only [List.map_set, step_q]
          rw [List.getElem?_eq_some_iff] at ht
          obtain ⟨hlt, ht⟩ := ht
          rw [← ht]
          apply List.ext_getElem (by simp)
          intro i h1 h2
          by_cases hi : tid = i
          · subst hi; simp
          · simp [List.getElem_set_ne hi]
  rw [key]; simp [List.map_map, Function.comp_def, Thread.init]

/-- No thread can be blocked by another: the actions are total, and from ANY shared state reached
    concurrently a started thread that is given `fuel` more actions of its own finishes. -/
theorem c14_progress {R : Type} (env : Env R) (s : State R) (t : Thread R) (hs : t.pc ≠ .start) :
    (runThread env t.fuel s t).2.pc = .done :=
  runThread_done env _ s t hs (Nat.le_refl _)

/-- Non-vacuity (1): two concurrent queries on a cold cache, interleaved action by action: both miss,
    both read, both insert -- and both return the stateless answer. -/
example :
    let env : Env Nat := { truth := fun i => if i == 10 then some 7 else none,
                           listOf := fun _ => 1, ruleId := id, etld1 := id,
                           cands := fun _ => [10], mtch := fun _ _ => true, resident := [] }
    let q : Query := .web {}
    let c := Config.run env ⟨{}, [Thread.init q, Thread.init q]⟩ ([0,1,0,1,0,1,0,1,0,1,0,1,0,1].map Ev.run)
    c.threads.map (fun t => (t.pc.isDone, t.answer env)) = [(true, [7]), (true, [7])] ∧
      c.state.cache = [(10, 7)] := by decide

/-- Non-vacuity (2), the theorem DEPENDS on the assumed granularity: in the variant model where
    `Seek` and `readLine` are two separate actions (the list mutex of `FileRuleList.RetrieveRule`
    removed) there is a two-thread schedule on which thread 0, reading index 10, returns the line of
    index 20. -/
theorem c14_granularity_matters :
    let truth : Idx → Option Nat := fun i => if i == 10 then some 7 else if i == 20 then some 8 else none
    ∃ sched : List Nat,
      (frun truth {} [.seek 10, .seek 20] sched).2[0]? = some (.done (truth 20)) ∧ truth 20 ≠ truth 10 :=
  ⟨[0, 1, 0, 1], by decide⟩

end UF.C14

import UF.Proofs.ProgRun
import UF.Model.LockSections
import UF.Gen.Facts
/-
  C14 — engines can be queried concurrently: race-free and sequentially consistent.  PARTIAL BY NATURE.

  What is proved here is a statement about the abstract Prog model: for EVERY schedule of its atomic
  actions, every finished query returned the stateless answer.  That one critical section of the Go
  code is one atomic action of the model is an ASSUMPTION; it is compared on every run with the lock
  facts extracted from the source (`c14_fact_lock_table`, `c14_fact_sections_exist` here, the section-level
  obligations in Props/C14Sections.lean).  The Go memory model, the scheduler,
  sync.Mutex/RWMutex, sync.Pool, os.File and regexp internals are outside the model; the `-race` runs
  of the harness (bin/vconfig_groupf.py `c14_extra`) are exploration, not proof.
-/
namespace UF.C14
open UF UF.Prog

/-- An access row `(method, field, r|w, lock held)` is properly locked when it happens under the
    matching mutex: writes under `Lock`, reads under `Lock` or `RLock`. -/
def properlyLocked (row : String × String × String × String) : Bool :=
  let lock := row.2.2.2
  let kind := row.2.2.1
  ["Lock(recv)", "Lock(cacheMu)"].contains lock ||
    (kind == "r" && ["RLock(recv)", "RLock(cacheMu)"].contains lock)

/-- FACT (regenerated from /repo on every run, go/types over every package of the module: `Facts.p4Accesses`,
    harness/facts_p4.go): EVERY access to `RuleStorage.cache`, `FileRuleList.File/buffer`, `NetworkRule.regex/invalid`
    -- through a receiver, a local, a parameter, in a method, a free function or a closure -- is either one of the
    deliberately unlocked actions of the model (`unlockedActions`: the unlocked rows of the action table, matched
    with their function, plus the constructor's store of the opened file) or coincides, UP TO THE FUNCTION IT SITS
    IN, with a locked row of the action table: same field, same access kind, same lock -- held in the function itself
    or at every call site of the unexported helper it was extracted into.  So extracting a locked section, or a part
    of one, into a helper does not disturb the obligation (harmless/13, harmless/33), while dropping, narrowing or
    weakening a lock, or touching guarded state from a new unlocked place, does.
    (Restated by work group P4: until then the obligation ran over the receiver-only, intra-procedural
    `Facts.lockTable` and whitelisted rows BY METHOD NAME, so it alarmed on harmless/33 and could not see accesses
    through other expressions -- item F6 of notes/REVIEW2.md.  The stricter per-field criterion -- `File`/`buffer`
    need the exclusive side -- is `c14_fact_accesses_locked` in Props/C14Sections.lean.) -/
theorem c14_fact_lock_table :
    Facts.p4Accesses.all (fun r =>
      unlockedActions.contains (r.1, r.2.1, r.2.2.1) ||
      r.2.2.2.any (fun l => (actionTable.filter properlyLocked).any (fun row =>
        row.2 == (shortField r.2.1, r.2.2.1, shortLock l)))) = true := by decide

/-- …and every critical section the model's atomic actions stand for still exists in the code: each locked row of
    the action table has a critical section (`Facts.p4Sections`: one row per Lock/Unlock pair, module functions
    called inside it inlined) under that lock -- or, for the read side of `cacheMu`, under its write side -- that
    makes that access.  (Restated by work group P4 over the typed, inlined section table; which accesses lie
    TOGETHER in one section is `c14_fact_model_sections_exist` / `c14_fact_sections_check_then_act`.) -/
theorem c14_fact_sections_exist :
    (actionTable.filter properlyLocked).all (fun row =>
      Facts.p4Sections.any (fun s => lockServes s.2.1 row.2.2.2 &&
        s.2.2.any (fun a => shortField a.1 == row.2.1 && a.2 == row.2.2.1))) = true := by decide

/-- Non-vacuity of the two obligations above: the row a helper extracted from the write-locked section yields is
    accepted whatever the helper is called; the same access with no lock held, or under the read side only, is not. -/
example :
    let ok := fun (r : String × String × String × List String) =>
      unlockedActions.contains (r.1, r.2.1, r.2.2.1) ||
      r.2.2.2.any (fun l => (actionTable.filter properlyLocked).any (fun row =>
        row.2 == (shortField r.2.1, r.2.2.1, shortLock l)))
    ok ("filterlist.RuleStorage.anyHelper", "RuleStorage.cache", "w", ["Lock(RuleStorage.cacheMu)/caller"]) = true ∧
    ok ("filterlist.peekCache", "RuleStorage.cache", "r", []) = false ∧
    ok ("filterlist.RuleStorage.anyHelper", "RuleStorage.cache", "w", ["RLock(RuleStorage.cacheMu)"]) = false := by decide

/-- FACT (go/ast over the packages urlfilter, lookup, filterlist, recomputed on every run): NO function on a
    query path -- reachable, in the name-based call graph, from an exported function or method that is neither a
    constructor `New*` nor the construction-time API `AddRule`/`TryAdd` -- assigns to, appends to, increments,
    deletes from or re-initialises a field of the struct types the model treats as immutable after construction
    (`DNSEngine.pool/lookupTable/networkEngine/rulesStorage/RulesCount`, `NetworkEngine.lookupTables/ruleStorage/
    RulesCount`, `RuleStorage.listsMap/lists/cacheMu`, the maps of the three lookup tables, the sequential table's
    slice, the cosmetic engine's tables), nor calls `AddRule`/`TryAdd`.  Helper extraction inside constructors
    does not disturb it; memoising into a table from `MatchAll` does. -/
theorem c14_fact_no_query_writes :
    Facts.fieldWriters.all (fun row => row.2.2.1 == "-" || postConstructionWriters.contains (row.1, row.2.1)) = true := by
  decide

/-- FACT: every writer of such a field is a constructor (`New*`/`new*`) or a function all of whose call sites
    inside the module lie in constructor-only functions (`addRule`, `AddRule`, `TryAdd` today).  What exported
    mutators do when a USER calls them after construction is outside the property. -/
theorem c14_fact_writers_constructor_only :
    Facts.fieldWriters.all (fun row => row.2.2.2 == "c" || postConstructionWriters.contains (row.1, row.2.1)) = true := by
  decide

/-- FACT: the extraction is not vacuous: every struct type the model freezes was found in the source, and each
    has a writer row (its constructor). -/
theorem c14_fact_frozen_types_found :
    frozenTypes.all (fun t => Facts.frozenTypes.contains t && Facts.ctorWrittenTypes.contains t) = true := by decide

/-- Sequential consistency of the model, for EVERY schedule: any number of concurrent queries `qs`,
    any list of thread ids of any length (a thread id may repeat arbitrarily, be starved, or not exist),
    from any state satisfying the shared invariant with no list closed: no thread crashes, and every thread
    that has finished returned `pureAnswer` of its query -- the answer a fresh engine gives sequentially
    (C13).  The lazy-compile cells are part of the state: two threads may race to `preparePattern` of one
    rule object; the loser of the mutex finds the winner's result, which `CellInv` says is its own. -/
theorem c14_sc {R Re : Type} (env : Env R Re) (s : State R Re) (qs : List Query) (sched : List Nat)
    (hs : SInv env s) (h0 : s.closed = []) :
    ∀ t ∈ (Config.run env ⟨s, qs.map Thread.init⟩ (sched.map Ev.run)).threads,
      t.pc ≠ .crash ∧ (t.pc = .done → t.answer = pureAnswer env t.q) := by
  have hinit : CInv (GoodEq env) env ⟨s, qs.map Thread.init⟩ ∧ (⟨s, qs.map Thread.init⟩ : Config R Re).state.closed = [] :=
    ⟨cinv_init _ env s qs hs (goodEq_init env), h0⟩
  have h := run_cinv_eq sched _ hinit
  intro t ht
  exact ⟨(h.1.2 t ht).1.2.2, fun hd => answer_of_goodEq (h.1.2 t ht).1.1 (h.1.2 t ht).2 hd⟩

/-- The shared invariant holds after every schedule (so a later batch of queries starts from a good state). -/
theorem c14_sc_state {R Re : Type} (env : Env R Re) (s : State R Re) (qs : List Query) (sched : List Nat)
    (hs : SInv env s) (h0 : s.closed = []) :
    SInv env (Config.run env ⟨s, qs.map Thread.init⟩ (sched.map Ev.run)).state :=
  (run_cinv_eq sched _ ⟨cinv_init _ env s qs hs (goodEq_init env), h0⟩).1.1

/-- `matchPattern` reads `f.regex` OUTSIDE the rule mutex (the action `rx`), after its own call of
    `preparePattern` returned 1.  That read never finds nil, whatever the other threads do in between:
    no action of any thread changes a cell that is set (`CellsLe`), so `RxOK` -- established by the thread's
    own `prep` -- survives every interleaving. -/
theorem c14_regex_read_outside_lock {R Re : Type} (env : Env R Re) (s : State R Re) (t u : Thread R)
    (h : RxOK s t) : RxOK (step env s u).1 t :=
  rxOK_mono (step_cellsLe env s u) h

/-- The threads keep their queries: thread `i` of the final configuration still runs `qs[i]`. -/
theorem c14_sc_queries {R Re : Type} (env : Env R Re) (s : State R Re) (qs : List Query) (sched : List Ev) :
    (Config.run env ⟨s, qs.map Thread.init⟩ sched).threads.map (·.q) = qs := by
  have key : ∀ (sched : List Ev) (c : Config R Re), (Config.run env c sched).threads.map (·.q) = c.threads.map (·.q) := by
    intro sched
    induction sched with
    | nil => intro c; rfl
    | cons e rest ih =>
      intro c
      simp only [Config.run, List.foldl_cons]
      have := ih (c.exec env e)
      simp only [Config.run] at this
      rw [this]
      cases e with
      | close l => rfl
      | run tid =>
        simp only [Config.exec, Config.execG]
        cases ht : c.threads[tid]? with
        | none => rfl
        | some t =>
          simp only [List.map_set, step_q]
          rw [List.getElem?_eq_some_iff] at ht
          obtain ⟨hlt, ht⟩ := ht
          rw [← ht]
          apply List.ext_getElem (by simp)
          intro i h1 h2
          by_cases hi : tid = i
          · subst hi; simp
          · simp [List.getElem_set_ne hi]
  rw [key]; simp [List.map_map, Function.comp_def, Thread.init]

/-- No thread can be blocked by another: the actions are total, and from ANY shared state reached
    concurrently a started thread that is given `fuel` more actions of its own has finished (or crashed --
    which `c14_sc` excludes). -/
theorem c14_progress {R Re : Type} (env : Env R Re) (s : State R Re) (t : Thread R) (hs : t.pc ≠ .start) :
    (runThread env (t.fuel env) s t).2.pc = .done ∨ (runThread env (t.fuel env) s t).2.pc = .crash :=
  runThread_done env _ s t hs (Nat.le_refl _)

/-- Non-vacuity (1): two concurrent queries on a cold cache, interleaved action by action: both miss,
    both read, one inserts and the other adopts the inserted object, both meet at `preparePattern` of the same
    rule object (the first compiles, the second finds `regex` set) -- and both return the stateless answer. -/
example :
    let env : Env Nat Nat :=
      { truth := fun i => if i == 10 then some 7 else none, listOf := fun _ => 1, etld1 := id,
        cands := fun _ => [(true, 10)], hcands := fun _ => [], basic := fun _ => false,
        wants := fun _ _ => true, pre := fun _ _ => true, compile := fun _ => .re 5,
        accepts := fun x _ _ => x == 5, resident := [] }
    let q : Query := .web {}
    let c := Config.run env ⟨{}, [Thread.init q, Thread.init q]⟩
      ([0,1,0,1,0,1,0,1,0,1,0,1,0,1,0,1,0,1,0,1].map Ev.run)
    c.threads.map (fun t => (t.pc.isDone, t.answer)) = [(true, ([7], [])), (true, ([7], []))] ∧
      c.state.cache = [(10, 7)] ∧ c.state.cells (.st 10) = .compiled 5 := by decide

/-- Non-vacuity (2), the theorem DEPENDS on the assumed granularity: in the variant model where
    `Seek` and `readLine` are two separate actions (the list mutex of `FileRuleList.RetrieveRule`
    removed) there is a two-thread schedule on which thread 0, reading index 10, returns the line of
    index 20. -/
theorem c14_granularity_matters :
    let truth : Idx → Option Nat := fun i => if i == 10 then some 7 else if i == 20 then some 8 else none
    ∃ sched : List Nat,
      (frun truth {} [.seek 10, .seek 20] sched).2[0]? = some (.done (truth 20)) ∧ truth 20 ≠ truth 10 :=
  ⟨[0, 1, 0, 1], by decide⟩

end UF.C14

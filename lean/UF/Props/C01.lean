import UF.Proofs.EngineMatch
/-
  C01 — the network engine's indexed lookup is equivalent to a linear scan of all network rules.

  `L` is the list of network rules of the storage in storage order with their storage indexes
  (ANY list: this covers every split into lists, every list id and every insertion order, which
  drives the histogram).  The theorems hold for EVERY pair of hash functions `hf` (only coherence
  between `FastHash` and `FastHashBetween` on a window is used: collisions are invisible) and every
  window length `k`; `c01_djb2` instantiates them with the hash of `filterutil/hash.go` and the
  generated `shortcutLength`.  Hypotheses:
  * `RetrievalOK`  – a scanned rule is retrieved by its index (this is C11's theorem);
  * `L.length < MaxInt32` – `TryAdd` starts its minimum search at `math.MaxInt32`;
  * `DomainsWF`    – parser guarantee on `$domain` values (non-empty, no trailing dot);
  * `TextDeterminesRule` – rules are parsed from their text.
  Property theorems only (helper lemmas live in UF/Proofs).
-/
namespace UF.C01
open UF UF.B

/-- Soundness: indexing never adds a rule — every reported rule is a network rule of the lists and
    matches the request. -/
theorem c01_sound (hf : HashFns) (k : Nat) (retrieve : Idx → Option NetRule) (ext : Ext)
    (L : List (NetRule × Idx)) (q : Request)
    (hlen : L.length < maxInt32) (hret : RetrievalOK retrieve L) :
    ∀ r ∈ (Engine.build hf k L).matchAll hf k retrieve ext q,
      r ∈ L.map (·.1) ∧ r.matches ext q = true := by
  intro r hr
  obtain ⟨⟨i, hi⟩, hm⟩ := matchAllG_sound hf k retrieve (fun r => r.matches ext q) q.urlLower
    q.sourceHostname L hlen hret r hr
  exact ⟨List.mem_map.2 ⟨(r, i), hi, rfl⟩, hm⟩

/-- Completeness: indexing never loses a rule — the text of every matching network rule of the
    lists is among the reported texts. -/
theorem c01_complete (hf : HashFns) (k : Nat) (hcoh : hf.Coherent k)
    (retrieve : Idx → Option NetRule) (ext : Ext) (L : List (NetRule × Idx)) (q : Request)
    (hlen : L.length < maxInt32) (hret : RetrievalOK retrieve L)
    (hwf : ∀ p ∈ L, DomainsWF p.1) (hparse : TextDeterminesRule L) :
    ∀ r ∈ L.map (·.1), r.matches ext q = true →
      r.text ∈ ((Engine.build hf k L).matchAll hf k retrieve ext q).map (·.text) := by
  intro r hr hm
  obtain ⟨p, hp, rfl⟩ := List.mem_map.1 hr
  refine matchAllG_complete hf k hcoh retrieve (fun r => r.matches ext q) q.urlLower q.sourceHostname
    L hlen hret ?_ ?_ ?_ p hp hm
  · intro p _ h; exact matches_shortcut ext p.1 q h
  · intro p hp h hpd hwild; exact matches_domain ext p.1 q (hwf p hp) h hpd hwild
  · intro p hp p' hp' ht
    show p.1.matches ext q = p'.1.matches ext q
    rw [hparse p hp p' hp' ht]; rfl

/-- C01: the reported texts are exactly the texts of the network rules that individually match. -/
theorem c01 (hf : HashFns) (k : Nat) (hcoh : hf.Coherent k)
    (retrieve : Idx → Option NetRule) (ext : Ext) (L : List (NetRule × Idx)) (q : Request)
    (hlen : L.length < maxInt32) (hret : RetrievalOK retrieve L)
    (hwf : ∀ p ∈ L, DomainsWF p.1) (hparse : TextDeterminesRule L) (t : Bytes) :
    t ∈ ((Engine.build hf k L).matchAll hf k retrieve ext q).map (·.text) ↔
      t ∈ (specMatchAll ext (L.map (·.1)) q).map (·.text) := by
  constructor
  · intro h
    obtain ⟨r, hr, rfl⟩ := List.mem_map.1 h
    obtain ⟨h1, h2⟩ := c01_sound hf k retrieve ext L q hlen hret r hr
    exact List.mem_map.2 ⟨r, List.mem_filter.2 ⟨h1, h2⟩, rfl⟩
  · intro h
    obtain ⟨r, hr, rfl⟩ := List.mem_map.1 h
    obtain ⟨h1, h2⟩ := List.mem_filter.1 hr
    exact c01_complete hf k hcoh retrieve ext L q hlen hret hwf hparse r h1 h2

/-- Any insertion order (which drives the shortcut histogram and the bucket choice) gives the same
    set of reported texts. -/
theorem c01_insertion_order (hf : HashFns) (k : Nat) (hcoh : hf.Coherent k)
    (retrieve : Idx → Option NetRule) (ext : Ext) (L L' : List (NetRule × Idx)) (q : Request)
    (hperm : L.Perm L')
    (hlen : L.length < maxInt32) (hret : RetrievalOK retrieve L)
    (hwf : ∀ p ∈ L, DomainsWF p.1) (hparse : TextDeterminesRule L) (t : Bytes) :
    t ∈ ((Engine.build hf k L).matchAll hf k retrieve ext q).map (·.text) ↔
      t ∈ ((Engine.build hf k L').matchAll hf k retrieve ext q).map (·.text) := by
  have hlen' : L'.length < maxInt32 := by rw [← hperm.length_eq]; exact hlen
  have hret' : RetrievalOK retrieve L' := fun p hp => hret p (hperm.mem_iff.2 hp)
  have hwf' : ∀ p ∈ L', DomainsWF p.1 := fun p hp => hwf p (hperm.mem_iff.2 hp)
  have hparse' : TextDeterminesRule L' :=
    fun p hp p' hp' => hparse p (hperm.mem_iff.2 hp) p' (hperm.mem_iff.2 hp')
  rw [c01 hf k hcoh retrieve ext L q hlen hret hwf hparse t,
      c01 hf k hcoh retrieve ext L' q hlen' hret' hwf' hparse' t]
  simp only [specMatchAll, List.mem_map, List.mem_filter]
  constructor
  · rintro ⟨r, ⟨⟨p, hp, rfl⟩, hm⟩, rfl⟩; exact ⟨p.1, ⟨⟨p, hperm.mem_iff.1 hp, rfl⟩, hm⟩, rfl⟩
  · rintro ⟨r, ⟨⟨p, hp, rfl⟩, hm⟩, rfl⟩; exact ⟨p.1, ⟨⟨p, hperm.mem_iff.2 hp, rfl⟩, hm⟩, rfl⟩

/-- The slice expressions `s[i:i+k]` of the window loops (`0 ≤ i ≤ len-k`) never panic. -/
theorem c01_window_no_panic (k : Nat) (s : Bytes) (i : Nat) (hi : i < s.length + 1 - k) :
    Bytes.slice? s i (i + k) = some ((s.drop i).take k) := window_slice k s i hi

/-- `FastHashBetween(s, i, i+k)` is `FastHash(s[i:i+k])` for every window length `k ≥ 1`
    (for `k = 0` it is not: `FastHash "" = 0`). -/
theorem c01_hash_coherent (k : Nat) (hk : 1 ≤ k) : djb2.Coherent k := djb2_coherent k hk

/-- The window loops do not index out of range: `FastHashBetween` reads only `str[begin..end)`. -/
theorem c01_hash_no_panic (s : Bytes) (i k : Nat) (h : i + k ≤ s.length) :
    fastHashBetween? s i (i + k) = some (fastHashBetween s i (i + k)) :=
  fastHashBetween?_eq s i (i + k) h

/-- C01 for the code as it is: the djb2 hash of `filterutil/hash.go` and the generated window
    length `shortcutLength`. -/
theorem c01_djb2 (retrieve : Idx → Option NetRule) (ext : Ext) (L : List (NetRule × Idx)) (q : Request)
    (hlen : L.length < maxInt32) (hret : RetrievalOK retrieve L)
    (hwf : ∀ p ∈ L, DomainsWF p.1) (hparse : TextDeterminesRule L) (t : Bytes) :
    t ∈ ((Engine.build djb2 Facts.shortcutLength L).matchAll djb2 Facts.shortcutLength retrieve ext q).map (·.text) ↔
      t ∈ (specMatchAll ext (L.map (·.1)) q).map (·.text) :=
  c01 djb2 Facts.shortcutLength (djb2_coherent _ (by decide)) retrieve ext L q hlen hret hwf hparse t

/-- The hash pair that sends everything to one bucket is admissible: the theorems above cover the
    worst case of collisions. -/
theorem c01_constant_hash_coherent (k : Nat) : (⟨fun _ => 7, fun _ _ _ => 7⟩ : HashFns).Coherent k :=
  fun _ _ _ => rfl

/-- The model distinguishes the repaired code from the pinned tree (defect D1): with the OLD domains
    table the rule `/ad$domain=example.*` is filed under the hash of the literal `example.*`, so a
    request from `example.com` — which the rule matches — reports nothing. -/
example :
    let ext : Ext := ⟨fun _ => (lit "com", true), fun _ => none, fun _ => none, fun _ _ _ => true⟩
    let r : NetRule := { text := lit "/ad$domain=example.*", pattern := lit "/ad", shortcut := lit "/ad",
                         permDomains := [lit "example.*"] }
    let q : Request := { url := lit "http://x.com/ad", urlLower := lit "http://x.com/ad", hostname := lit "x.com",
                         sourceURL := lit "http://example.com/", sourceHostname := lit "example.com", reqType := 4,
                         thirdParty := true }
    let retrieve : Idx → Option NetRule := fun _ => some r
    r.matches ext q = true ∧
    ((DomainsTable.tryAddOld djb2 {} r 0).map fun t =>
        t.matchAllG djb2 retrieve (fun r => r.matches ext q) q.sourceHostname) = some [] ∧
    ((Engine.build djb2 Facts.shortcutLength [(r, 0)]).matchAll djb2 Facts.shortcutLength retrieve ext q).map (·.text)
      = [lit "/ad$domain=example.*"] := by
  decide

/-! Non-vacuity: the hypotheses are satisfiable by a non-trivial instance (a shortcut-table rule, a
    domains-table rule and a duplicated sequential rule in two lists). -/
example :
    let r1 : NetRule := { text := lit "/banner", pattern := lit "/banner", shortcut := lit "/banner" }
    let r2 : NetRule := { text := lit "/ad$domain=example.org", pattern := lit "/ad", shortcut := lit "/ad",
                          permDomains := [lit "example.org"] }
    let r3 : NetRule := { text := lit "ad", pattern := lit "ad", shortcut := lit "ad" }
    let r4 : NetRule := { r3 with listID := 2 }
    let L : List (NetRule × Idx) := [(r1, 0), (r2, 8), (r3, 31), (r4, 8589934592)]
    let retrieve : Idx → Option NetRule := fun i => (L.find? (·.2 == i)).map (·.1)
    L.length < maxInt32 ∧ RetrievalOK retrieve L ∧ (∀ p ∈ L, DomainsWF p.1) ∧ TextDeterminesRule L := by
  intro r1 r2 r3 r4 L retrieve
  refine ⟨by decide, ?_, ?_, ?_⟩
  · intro p hp
    simp only [L, List.mem_cons, List.not_mem_nil, or_false] at hp
    rcases hp with rfl | rfl | rfl | rfl <;> rfl
  · intro p hp
    simp only [L, List.mem_cons, List.not_mem_nil, or_false] at hp
    rcases hp with rfl | rfl | rfl | rfl <;> intro d hd <;> simp [r1, r2, r3, r4] at hd
    subst hd; decide
  · intro p hp p' hp' ht
    simp only [L, List.mem_cons, List.not_mem_nil, or_false] at hp hp'
    rcases hp with rfl | rfl | rfl | rfl <;> rcases hp' with rfl | rfl | rfl | rfl <;>
      first | rfl | (exfalso; revert ht; decide)

end UF.C01

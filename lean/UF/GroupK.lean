-- Property files of maintenance group K (import UF.Props.Cxx lines go here).
import UF.Props.C12Engine

-- Property files of work group H (import UF.Props.Cxx lines go here).
import UF.Driver.Ops.GroupH
import UF.Props.C10
import UF.Props.C17
import UF.Props.C18

/- Property theorems of group P1 (second adversarial review: F7 = C07 at text level, m1 = C06, m2 = C16). -/
import UF.Props.C07TextExact
import UF.Props.C06TopMore
import UF.Props.C16TopRaw

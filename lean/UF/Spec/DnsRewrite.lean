import UF.Model.DnsRewrite
import UF.Spec.Result
/-
  Reference for C09: the effective DNS rewrites are the non-exception rewrite rules that no
  exception disables.
-/
namespace UF

/-- Does exception `e` disable rewrite rule `r`?  As the property states it: a non-important
    exception never disables an important rewrite; an exception with an empty value disables
    everything else; an exception with a value disables rewrites with the same new CNAME, or the same
    response code and, for successful responses, the same record type and value. -/
def disables (e r : NetRule) : Bool :=
  match e.rewrite, r.rewrite with
  | some ew, some rw =>
    (e.important || !r.important) &&
      (ew == emptyRewrite ||
        (if ew.newCNAME != [] then rw.newCNAME == ew.newCNAME
         else rw.rcode == ew.rcode && (ew.rcode != 0 || (rw.rrType == ew.rrType && rw.value == ew.value))))
  | _, _ => false

/-- The reference on a list of rewrite rules without `$badfilter`: filter, order preserved. -/
def specRewritesCore (all : List NetRule) : List NetRule :=
  all.filter (fun r => !r.whitelist && !all.any (fun e => e.whitelist && disables e r))

/-- With `$badfilter` (C08): badfilter rules and their twins are not effective in the first place. -/
def specRewrites (all : List NetRule) : List NetRule := specRewritesCore (specRemoveBad all)

end UF

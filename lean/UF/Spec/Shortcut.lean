import UF.Model.Shortcut
/-
  Reference definitions for C05.

  * `maskRuns p` – the maximal runs of `p` free of `* ^ |` (split at every separator);
    `specFindShortcut p` – the first longest run (the reference for `findShortcut`);
  * `IsMaskRun p w` – `w` is a separator-free factor of `p` delimited by separators or the ends;
  * `litAtoms fold w` – the atoms a literal run compiles to (one single-byte literal per byte).
-/
namespace UF
open Bytes

def isMaskSpecial (c : UInt8) : Bool := c == 42 || c == 94 || c == 124

/-- Split at every `*`, `^`, `|` (always at least one run). -/
def maskRuns (p : Bytes) : List Bytes := go p []
where
  go : Bytes → Bytes → List Bytes
    | [], cur => [cur.reverse]
    | a :: t, cur => if isMaskSpecial a then cur.reverse :: go t [] else go t (a :: cur)

/-- The first run of maximal length. -/
def specFindShortcut (p : Bytes) : Bytes :=
  (maskRuns p).foldl (fun best r => if r.length > best.length then r else best) []

/-- `w` is a maximal separator-free run of `p`. -/
def IsMaskRun (p w : Bytes) : Prop :=
  ∃ x z, p = x ++ w ++ z ∧ (∀ c ∈ w, isMaskSpecial c = false) ∧
    (x = [] ∨ ∃ x' c, x = x' ++ [c] ∧ isMaskSpecial c = true) ∧
    (z = [] ∨ ∃ c z', z = c :: z' ∧ isMaskSpecial c = true)

/-- The atoms of a literal run. -/
def litAtoms (fold : Bool) (w : Bytes) : List Re := w.map fun c => Re.lit [c] fold

end UF

import UF.Model.CosmeticOption
/-
  Reference for C16: every exception modifier *disables* a fixed set of cosmetic options and the
  option of a verdict is "everything minus the union of what its modifiers disable".
-/
namespace UF

/-- The modifiers of the property's quantifier, by name. -/
inductive CosMod where
  | elemhide | generichide | jsinject | document | urlblock | genericblock | content | extension | important
  deriving DecidableEq, Repr

/-- What a modifier switches off (as documented: `$document` contains `$elemhide` and `$jsinject`). -/
def CosMod.disabled : CosMod → CosOpt
  | .elemhide => cosCSS ||| cosGenericCSS
  | .generichide => cosGenericCSS
  | .jsinject => cosJS
  | .document => cosCSS ||| cosGenericCSS ||| cosJS
  | _ => 0

/-- Reference: all options minus the union of the disabled sets. `none`/non-exception ⇒ everything. -/
def specCosmeticOption (exception : Bool) (mods : List CosMod) : CosOpt :=
  if exception then andNot cosAll (mods.foldl (fun acc m => acc ||| m.disabled) 0) else cosAll

/-- The option bits a modifier sets on a rule (`$document` expands to five bits, rules/network.go). -/
def CosMod.bits : CosMod → Nat
  | .elemhide => Facts.OptionElemhide
  | .generichide => Facts.OptionGenerichide
  | .jsinject => Facts.OptionJsinject
  | .document => Facts.OptionElemhide ||| Facts.OptionJsinject ||| Facts.OptionUrlblock |||
      Facts.OptionContent ||| Facts.OptionExtension
  | .urlblock => Facts.OptionUrlblock
  | .genericblock => Facts.OptionGenericblock
  | .content => Facts.OptionContent
  | .extension => Facts.OptionExtension
  | .important => Facts.OptionImportant

def modsBits (mods : List CosMod) : Nat := mods.foldl (fun acc m => acc ||| m.bits) 0

end UF

import UF.Model.Cosmetic
/-
  Reference for C15: selectors of applicable, non-excepted element-hiding rules.
-/
namespace UF

/-- `r` applies to `host` and no exception with the same selector applies to `host`. -/
def cosApplicable (ext : Ext) (L : List CosRule) (host : Bytes) (r : CosRule) : Bool :=
  !r.whitelist && r.matches ext host &&
  !(L.any fun e => e.whitelist && e.content == r.content && e.matches ext host)

def specCosmetic (ext : Ext) (L : List CosRule) (host : Bytes)
    (includeCSS _includeJS includeGenericCSS : Bool) : List Bytes × List Bytes :=
  let app := L.filter (cosApplicable ext L host)
  (if includeCSS && includeGenericCSS then (app.filter (·.permDomains.isEmpty)).map (·.content) else [],
   if includeCSS then (app.filter (!·.permDomains.isEmpty)).map (·.content) else [])

end UF

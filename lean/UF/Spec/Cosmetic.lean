import UF.Model.Cosmetic
/-
  Reference for C15: selectors of applicable, non-excepted element-hiding rules.
-/
namespace UF.B
open UF UF.Bytes

/-- `r` applies to `host` and no exception with the same selector applies to `host`. -/
def cosApplicable (ext : Ext) (L : List CosRule) (host : Bytes) (r : CosRule) : Bool :=
  !r.whitelist && cosMatches ext r host &&
  !(L.any fun e => e.whitelist && e.content == r.content && cosMatches ext e host)

def specCosmetic (ext : Ext) (L : List CosRule) (host : Bytes)
    (includeCSS _includeJS includeGenericCSS : Bool) : List Bytes × List Bytes :=
  let app := L.filter (cosApplicable ext L host)
  (if includeCSS && includeGenericCSS then (app.filter (·.permDomains.isEmpty)).map (·.content) else [],
   if includeCSS then (app.filter (!·.permDomains.isEmpty)).map (·.content) else [])

end UF.B

namespace UF.B
open UF UF.Bytes

/-- Parser guarantee (`loadDomains`): no permitted domain of a cosmetic rule is the empty string. -/
def CosDomainsWF (L : List CosRule) : Prop := ∀ r ∈ L, ∀ d ∈ r.permDomains, d ≠ []

end UF.B

import UF.Model.Html
/-
  Reference for C20, on the BYTES of the (decompressed) body -- no transcoding anywhere:
  the first position `i < min window |body|` at which the body continues with one of the four
  markers, compared ASCII-case-insensitively; the output is `body[:i] ++ tag ++ body[i:]`, or the
  body itself when there is no such position.
-/
namespace UF.Html

/-- ASCII-case-insensitive "`s` starts with the ASCII string `m`". -/
def startsWithFold : (s m : Bytes) → Bool
  | _, [] => true
  | [], _ :: _ => false
  | a :: s, b :: m => Bytes.lowerByte a == Bytes.lowerByte b && a < 0x80 && startsWithFold s m

def markerAt (s : Bytes) : Bool := markers.any (startsWithFold s)

/-- First marker start among the first `window` bytes. -/
def specFind : (window : Nat) → (body : Bytes) → Option Nat
  | 0, _ => none
  | _, [] => none
  | w + 1, c :: r => if markerAt (c :: r) then some 0 else (specFind w r).map (· + 1)

def specFilter (window : Nat) (body tag : Bytes) : Bytes :=
  match specFind window body with
  | some i => body.take i ++ tag ++ body.drop i
  | none => body

end UF.Html

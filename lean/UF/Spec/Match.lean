import UF.Model.Rule
import UF.Model.Match
/-
  C04 — reference definition of "a network rule matches a request", written from the rule's
  modifier VALUES as plain set-membership statements.  Nothing here depends on the order of the
  values inside a modifier, on sortedness, on index arithmetic or on pre-checks: lists are only
  read through `List.any` / `List.contains`.

  The implementation-shaped model is `NetRule.matches` (UF/Model/Match.lean); the theorems relating
  the two are in UF/Props/C04.lean.
-/
namespace UF
open Bytes

/-- Sortedness by `strings.Compare` (what `slices.Sort` establishes and `SortedClientTags` promises). -/
def SortedB (l : List Bytes) : Prop := l.Pairwise (fun a b => Bytes.cmp a b ≠ .gt)

instance (l : List Bytes) : Decidable (SortedB l) := by unfold SortedB; infer_instance

/-- A rule as the parser leaves it: client tags and client host names are sorted. -/
structure NetRule.WellFormed (r : NetRule) : Prop where
  permTags : SortedB r.permTags
  restrTags : SortedB r.restrTags
  permHosts : ∀ c, r.permClients = some c → SortedB c.hosts
  restrHosts : ∀ c, r.restrClients = some c → SortedB c.hosts

/-- `$domain=d` / `$denyallow=d` for a plain domain: the host is `d` or a subdomain of `d`. -/
def specPlainDomain (host d : Bytes) : Bool :=
  host == d || hasSuffix host (ch '.' :: d)

/-- `$domain=base.*`: the host is `base.s` or a subdomain of it, where `s` is the public suffix of
    the host, which must be non-empty and ICANN-managed. -/
def specWildcardDomain (ext : Ext) (host base : Bytes) : Bool :=
  let s := (ext.psl host).1
  let icann := (ext.psl host).2
  !s.isEmpty && icann &&
    (host == base ++ ch '.' :: s || hasSuffix host (ch '.' :: (base ++ ch '.' :: s)))

/-- One value of a domain list. -/
def specDomainEntry (ext : Ext) (host d : Bytes) : Bool :=
  if hasSuffix d (lit ".*") then specWildcardDomain ext host (d.take (d.length - 2))
  else specPlainDomain host d

/-- The host belongs to the set described by a list of domain values. -/
def specInDomains (ext : Ext) (host : Bytes) (ds : List Bytes) : Bool :=
  ds.any (specDomainEntry ext host)

/-- `$third-party` / `$~third-party`. -/
def specThirdParty (r : NetRule) (q : Request) : Bool :=
  (!r.isEnabled Facts.OptionThirdParty || q.thirdParty) &&
  (!r.isDisabled Facts.OptionThirdParty || !q.thirdParty)

/-- Content types, for a request type that is ONE content type (`t = 2^k`): it must be among the
    permitted ones when any is listed and must not be among the restricted ones. -/
def specReqType (r : NetRule) (t : Nat) : Bool :=
  (r.permTypes == 0 || (r.permTypes &&& t) != 0) && (r.restrTypes &&& t) == 0

/-- `$domain`: restricted wins; a permitted value is required when any is listed. -/
def specSourceDomain (ext : Ext) (r : NetRule) (q : Request) : Bool :=
  !specInDomains ext q.sourceHostname r.restrDomains &&
  (r.permDomains.isEmpty || specInDomains ext q.sourceHostname r.permDomains)

/-- `$denyallow`: the request host must not be one of the listed domains; a hostname request
    whose host is an IP address never matches a rule carrying `$denyallow`. -/
def specDenyallow (ext : Ext) (r : NetRule) (q : Request) : Bool :=
  r.denyallow.isEmpty ||
  (!(q.isHostnameRequest && isProbablyIP q.hostname && (ext.parseAddr q.hostname).isSome) &&
   !specInDomains ext q.hostname r.denyallow)

/-- `$dnstype`. -/
def specDnsType (r : NetRule) (q : Request) : Bool :=
  !r.restrDns.contains q.dnsType && (r.permDns.isEmpty || r.permDns.contains q.dnsType)

/-- `$ctag`: no restricted tag among the request's tags and, if any permitted tag is listed, one of
    them among the request's tags. -/
def specCTag (r : NetRule) (q : Request) : Bool :=
  !r.restrTags.any (fun t => q.sortedTags.contains t) &&
  (r.permTags.isEmpty || r.permTags.any (fun t => q.sortedTags.contains t))

/-- The client (name, address) belongs to a `$client` value set. -/
def specClientIn (c : Option Clients) (name : Bytes) (ip : Option Addr) : Bool :=
  match c with
  | none => false
  | some c =>
    (!name.isEmpty && c.hosts.contains name) ||
    (match ip with
     | none => false
     | some a => c.nets.any (fun n => n.containsAddr a))

/-- `$client`. -/
def specClient (r : NetRule) (q : Request) : Bool :=
  !specClientIn r.restrClients q.clientName q.clientIP &&
  (Clients.len r.permClients == 0 || specClientIn r.permClients q.clientName q.clientIP)

/-- The pattern is applied to the bare hostname for hostname requests unless the pattern is
    anchored to a URL (`||`, `http://`, `https://`, `://`) or is a plain `/hostname.` fragment. -/
def specTarget (r : NetRule) (q : Request) : Bytes :=
  if q.isHostnameRequest &&
      !(hasPrefix r.pattern (lit "||") || hasPrefix r.pattern (lit "http://") ||
        hasPrefix r.pattern (lit "https://") || hasPrefix r.pattern (lit "://")) &&
      !(decide (r.pattern.length > 3) && r.pattern.head? == some (ch '/') &&
        r.pattern.getLast? == some (ch '.') &&
        (r.pattern.drop 1).dropLast.all
          (fun c => isAlpha c || isDigit c || c == ch '.' || c == ch '-'))
  then q.hostname else q.url

def specPattern (ext : Ext) (r : NetRule) (q : Request) : Bool :=
  ext.pat r.pattern (r.isEnabled Facts.OptionMatchCase) (specTarget r q)

/-- The reference: the pattern (and its shortcut) and every modifier hold. -/
def specMatch (ext : Ext) (r : NetRule) (q : Request) : Bool :=
  hasSub q.urlLower r.shortcut &&
  specThirdParty r q &&
  specReqType r q.reqType &&
  specDenyallow ext r q &&
  specSourceDomain ext r q &&
  specDnsType r q &&
  specCTag r q &&
  specClient r q &&
  specPattern ext r q

/-- The request domain of C04 (DESIGN.md §6): the request type is exactly one content type, the
    tags are sorted (contract of `SortedClientTags`), and host names do not begin with a dot
    (a name with an empty first label is not a host name; the wildcard pre-check of
    `isDomainOrSubdomainOfAny` uses `strings.Index(...) > 0` and is exact only then). -/
structure Request.InDomain (q : Request) : Prop where
  oneType : ∃ k, q.reqType = 2 ^ k
  sorted : SortedB q.sortedTags
  hostNoDot : q.hostname.head? ≠ some (ch '.')
  srcNoDot : q.sourceHostname.head? ≠ some (ch '.')

instance (q : Request) : Decidable (q.sortedTags.Pairwise (fun a b => Bytes.cmp a b ≠ .gt)) := by
  infer_instance

/-- Executable version of `Request.InDomain` for the driver (`k` bounded by the 32-bit mask). -/
def Request.inDomainB (q : Request) : Bool :=
  (List.range 32).any (fun k => q.reqType == 2 ^ k) &&
  decide (SortedB q.sortedTags) &&
  q.hostname.head? != some (ch '.') && q.sourceHostname.head? != some (ch '.')

/-- Two client sets with the same host names (as sorted lists) and the same subnets up to order. -/
def Clients.PermEquiv : Option Clients → Option Clients → Prop
  | none, none => True
  | some a, some b => a.hosts = b.hosts ∧ a.nets.Perm b.nets
  | _, _ => False

/-- `r'` is `r` with the VALUES of the list-valued modifiers written in another order:
    `$domain`, `$denyallow`, `$dnstype` lists are permutations of each other (the parser keeps the
    written order), `$ctag` lists and `$client` host names are equal (the parser sorts them, and a
    sorted list is determined by its multiset, see `sortB_eq_of_perm`), `$client` subnets are
    permutations; everything else is equal. -/
structure NetRule.PermEquiv (r r' : NetRule) : Prop where
  text : r.text = r'.text
  listID : r.listID = r'.listID
  whitelist : r.whitelist = r'.whitelist
  pattern : r.pattern = r'.pattern
  shortcut : r.shortcut = r'.shortcut
  permDomains : r.permDomains.Perm r'.permDomains
  restrDomains : r.restrDomains.Perm r'.restrDomains
  denyallow : r.denyallow.Perm r'.denyallow
  permDns : r.permDns.Perm r'.permDns
  restrDns : r.restrDns.Perm r'.restrDns
  permTags : r.permTags = r'.permTags
  restrTags : r.restrTags = r'.restrTags
  permClients : Clients.PermEquiv r.permClients r'.permClients
  restrClients : Clients.PermEquiv r.restrClients r'.restrClients
  enabled : r.enabled = r'.enabled
  disabled : r.disabled = r'.disabled
  permTypes : r.permTypes = r'.permTypes
  restrTypes : r.restrTypes = r'.restrTypes

end UF

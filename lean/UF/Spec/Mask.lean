import UF.Basic.Bytes
/-
  C03 — the documented mask language of basic (non-regex) rule patterns, as an executable reference
  defined directly on positions of the subject string.  Nothing here mentions regular expressions
  or the generated facts.

    `||`  at the very start: start of an address = scheme ∈ {http, https, ws, wss}, `://`, then
          optionally any number (≥ 1) of characters of `[a-z0-9-_.]` followed by `.` (subdomains);
    `|`   at the very start / very end: anchors the pattern to the start / end of the subject;
          a `|` anywhere else is a literal pipe;
    `*`   any string (possibly empty);
    `^`   one separator character -- any character except a letter, a digit or one of `_ - . %`
          (and except the blank: DESIGN.md §6) -- or the end of the subject;
    any other character: itself, compared ignoring ASCII case unless `$match-case` is set
          (without `$match-case` the whole pattern is case-insensitive, the scheme and the subdomain
          characters of `||` included).
  The patterns ``, `*`, `|` and `||` accept every subject.  A pattern not anchored by a leading
  pipe may start anywhere in the subject; one not anchored by a trailing pipe may end anywhere.
  `NewNetworkRule` stores a pattern ending in `/*` with that tail replaced by `^`
  (`example.org/*` ≡ `example.org^`); `normalize` is that documented normalisation.
-/
namespace UF.MaskSpec
open UF

inductive Start where
  | none | pipe | dbl
  deriving Repr, DecidableEq, Inhabited

inductive Tok where
  | lit (c : UInt8) | star | sep
  deriving Repr, DecidableEq, Inhabited

structure MaskPat where
  start : Start
  body : List Tok
  endPipe : Bool
  deriving Repr, DecidableEq, Inhabited

def tokOfByte (b : UInt8) : Tok :=
  if b == 42 then .star else if b == 94 then .sep else .lit b

/-- Strip one trailing `|`, if any. -/
def splitEnd (s : Bytes) : Bytes × Bool :=
  if s.getLast? == some 124 then (s.dropLast, true) else (s, false)

/-- Split a pattern into start marker, body bytes and end marker.  A `|` that is not the first
    byte (or the second after a first `|`) and not the last byte stays in the body: a literal. -/
def splitMask : Bytes → Start × Bytes × Bool
  | 124 :: 124 :: r => (.dbl, splitEnd r)
  | 124 :: r => (.pipe, splitEnd r)
  | r => (.none, splitEnd r)

def tokenize (p : Bytes) : MaskPat :=
  let (s, b, e) := splitMask p
  { start := s, body := b.map tokOfByte, endPipe := e }

/-- `example.org/*` → `example.org^` (the pattern as stored in the rule). -/
def normalize (p : Bytes) : Bytes :=
  if Bytes.hasSuffix p [47, 42] then p.take (p.length - 2) ++ [94] else p

/-- ``, `*`, `|`, `||`: accept everything. -/
def MaskPat.isAny (p : MaskPat) : Bool :=
  !p.endPipe && (p.body == [] || (p.start == .none && p.body == [.star]))

/-- Separator characters: everything except letters, digits, `_ - . %` and the blank. -/
def isSep (c : UInt8) : Bool :=
  !(c == 32 || Bytes.isAlpha c || Bytes.isDigit c || c == 46 || c == 37 || c == 95 || c == 45)

/-- Literal comparison: exact under match-case, ASCII case folding otherwise. -/
def eqc (mc : Bool) (c x : UInt8) : Bool :=
  if mc then c == x else Bytes.lowerByte c == Bytes.lowerByte x

/-- `f` holds for some suffix of the string (every position, the end included). -/
def anySuffix (f : Bytes → Bool) : Bytes → Bool
  | [] => f []
  | x :: s => f (x :: s) || anySuffix f s

/-- The body tokens match a prefix of `s` (all of `s` if the pattern ends with a pipe). -/
def matchBody (mc : Bool) (endPipe : Bool) : List Tok → Bytes → Bool
  | [], s => !endPipe || s.isEmpty
  | .lit c :: ts, s =>
    match s with
    | x :: s' => eqc mc c x && matchBody mc endPipe ts s'
    | [] => false
  | .star :: ts, s => anySuffix (matchBody mc endPipe ts) s
  | .sep :: ts, s =>
    match s with
    | x :: s' => isSep x && matchBody mc endPipe ts s'
    | [] => matchBody mc endPipe ts []

/-- `pre` is a prefix of `s` (per-character `eqc`); returns the rest. -/
def stripPrefix (mc : Bool) : (pre s : Bytes) → Option Bytes
  | [], s => some s
  | _ :: _, [] => none
  | c :: pre, x :: s => if eqc mc c x then stripPrefix mc pre s else none

/-- Characters of the subdomain part of `||`: `[a-z0-9-_.]`, case-insensitive unless match-case. -/
def isHostChar (mc : Bool) (c : UInt8) : Bool :=
  Bytes.isLower c || Bytes.isDigit c || c == 45 || c == 95 || c == 46 || (!mc && Bytes.isUpper c)

/-- `f` holds for the string after some `h ++ "."` with `h` a non-empty run of host characters
    (`n` = number of host characters already consumed). -/
def afterSubdomains (mc : Bool) (f : Bytes → Bool) : Nat → Bytes → Bool
  | _, [] => false
  | n, x :: s =>
    (x == 46 && decide (n > 0) && f s) || (isHostChar mc x && afterSubdomains mc f (n + 1) s)

def schemes : List Bytes :=
  [[104, 116, 116, 112], [104, 116, 116, 112, 115], [119, 115], [119, 115, 115]]  -- http https ws wss

/-- `u` = scheme `sc`, `://`, optional subdomains, and `f` holds for the rest. -/
def afterScheme (mc : Bool) (f : Bytes → Bool) (u : Bytes) (sc : Bytes) : Bool :=
  match stripPrefix mc (sc ++ [58, 47, 47]) u with
  | some r => f r || afterSubdomains mc f 0 r
  | none => false

/-- `f` holds for some remainder of `u` after "start of address". -/
def afterStartURL (mc : Bool) (f : Bytes → Bool) (u : Bytes) : Bool :=
  schemes.any (afterScheme mc f u)

/-- The documented language of a mask pattern. -/
def maskAccepts (p : MaskPat) (mc : Bool) (u : Bytes) : Bool :=
  if p.isAny then true else
  match p.start with
  | .none => anySuffix (matchBody mc p.endPipe p.body) u
  | .pipe => matchBody mc p.endPipe p.body u
  | .dbl => afterStartURL mc (matchBody mc p.endPipe p.body) u

/-- The language of the pattern text of a rule (as written in the rule). -/
def ruleAccepts (pattern : Bytes) (mc : Bool) (u : Bytes) : Bool :=
  maskAccepts (tokenize (normalize pattern)) mc u

end UF.MaskSpec

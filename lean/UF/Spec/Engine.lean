import UF.Model.Match
import UF.Model.Lookup
/-
  Reference for C01: the network rules that individually match the request (linear scan),
  and the hypotheses under which the engine is compared with it.
-/
namespace UF.B
open UF UF.Bytes

def specMatchAll (ext : Ext) (rules : List NetRule) (q : Request) : List NetRule :=
  rules.filter (fun r => r.matches ext q)

/-- C11 (rule storage): every scanned rule is retrieved by its index. -/
def RetrievalOK {α} (retrieve : Idx → Option α) (L : List (α × Idx)) : Prop :=
  ∀ p ∈ L, retrieve p.2 = some p.1

/-- Parser guarantee (`loadDomains`: every `$domain` value is a valid domain name or ends in `.*`):
    a permitted domain is not empty and does not end in a dot. -/
def DomainsWF (r : NetRule) : Prop :=
  ∀ d ∈ r.permDomains, d ≠ [] ∧ d.getLast? ≠ some (ch '.')

/-- Rules are parsed from their text: two rules of the lists with the same text differ at most in
    the list id. (The sequential table keeps one rule per text.) -/
def TextDeterminesRule (L : List (NetRule × Idx)) : Prop :=
  ∀ p ∈ L, ∀ p' ∈ L, p.1.text = p'.1.text → p'.1 = { p.1 with listID := p'.1.listID }

end UF.B

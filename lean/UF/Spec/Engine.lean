import UF.Model.Match
/-
  Reference for C01: the network rules that individually match the request (linear scan).
-/
namespace UF

def specMatchAll (ext : Ext) (rules : List NetRule) (q : Request) : List NetRule :=
  rules.filter (fun r => r.matches ext q)

end UF

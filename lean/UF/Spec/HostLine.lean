import UF.Model.HostRule
/-
  C18 reference: the hosts-file line grammar of the property,

      IP (sp|tab)+ name ((sp|tab)+ name)* [ws* '#' any]        and        name [ws* '#' any]

  read declaratively: cut the line at the first '#', take the blank-separated non-empty tokens;
  one token = a bare domain name (address 0.0.0.0), several = an address followed by the names.
-/
namespace UF.H
open Bytes

/-- The non-empty tokens of `s` separated by runs of blanks (space or tab). -/
def blankTokens (s : Bytes) : List Bytes :=
  go s []
where
  go : Bytes → Bytes → List Bytes
    | [], cur => if cur.isEmpty then [] else [cur.reverse]
    | c :: t, cur =>
      if isBlank c then (if cur.isEmpty then go t [] else cur.reverse :: go t [])
      else go t (c :: cur)

/-- The part of the line before the comment sign (a '#' in column 0 does not start a comment of a
    hosts line: such a line is a comment line as a whole and never reaches the hosts syntax). -/
def hostLineBody (line : Bytes) : Bytes :=
  match indexByte line (ch '#') with
  | some i => if i > 0 then line.take i else line
  | none => line

/-- Names and address a line stands for (`none` = not a hosts line). -/
def specHostLine (ext : Ext) (dn : Bytes → Bool) (line : Bytes) : Option (List Bytes × Addr) :=
  match blankTokens (hostLineBody line) with
  | [] => if dn [] then some ([[]], addrV4Unspecified) else none
  | [name] => if dn name then some ([name], addrV4Unspecified) else none
  | ip :: names => (ext.parseAddr ip).map fun a => (names, a)

/-- "A host rule matches a queried name iff it is one of its names, and the DNS engine reports it
    under the IPv4 or IPv6 group according to its address": (in V4 group, in V6 group). -/
def specHostAnswer (names : List Bytes) (a : Addr) (q : Bytes) : Bool × Bool :=
  (decide (q ∈ names) && a.is4, decide (q ∈ names) && !a.is4)

/-- The carve-out of DESIGN.md §6 as a test on the line: the line starts like a comment, or it
    contains `$$` / `$@$`, or its first '#' directly follows a non-blank and starts a cosmetic marker.
    Such lines are outside the hosts grammar. -/
def hostLineCarveOut (line : Bytes) : Bool :=
  line.head? == some (ch '!') || line.head? == some (ch '#') ||
  hasSub line (lit "$$") || hasSub line (lit "$@$") ||
  (match indexByte line (ch '#') with
   | some i =>
     decide (i > 0) && !(line[i - 1]? == some (ch ' ') || line[i - 1]? == some (ch '\t')) &&
     Facts.H.cosmeticMarkers.any (fun m => hasPrefix (line.drop i) m)
   | none => false)

end UF.H

namespace UF.H
open Bytes

/-! ### The line grammar of the property, as text builders and side conditions -/

def blankFree (s : Bytes) : Bool := s.all fun c => !isBlank c
def hashFree (s : Bytes) : Bool := s.all fun c => c != ch '#'
def allBlank (s : Bytes) : Bool := s.all isBlank

/-- A name (or an address text): non-empty, without blanks and without '#'. -/
def isHostToken (n : Bytes) : Bool := !n.isEmpty && blankFree n && hashFree n
/-- `(sp|tab)+`. -/
def isBlankRun (w : Bytes) : Bool := !w.isEmpty && allBlank w
/-- `[ '#' any ]`. -/
def isCommentTail (c : Bytes) : Bool := c.isEmpty || c.head? == some (ch '#')

/-- `((sp|tab)+ name)*` from the list of (blank run, name) pairs. -/
def namesText : List (Bytes × Bytes) → Bytes
  | [] => []
  | (w, n) :: rest => w ++ n ++ namesText rest

/-- `IP (sp|tab)+ name ((sp|tab)+ name)* ws* [ '#' any ]`. -/
def hostLineIP (ip : Bytes) (wn : List (Bytes × Bytes)) (trail cmt : Bytes) : Bytes :=
  ip ++ namesText wn ++ trail ++ cmt

/-- `name ws* [ '#' any ]`. -/
def hostLineBare (name trail cmt : Bytes) : Bytes := name ++ trail ++ cmt

def goodPairs (wn : List (Bytes × Bytes)) : Bool :=
  wn.all fun p => isBlankRun p.1 && isHostToken p.2

end UF.H

import UF.Model.HostRule
/-
  C18 reference: the hosts-file line grammar of the property,

      IP (sp|tab)+ name ((sp|tab)+ name)* [ws* '#' any]        and        name [ws* '#' any]

  read declaratively: cut the line at the first '#', take the blank-separated non-empty tokens;
  one token = a bare domain name (address 0.0.0.0), several = an address followed by the names.
-/
namespace UF.H
open Bytes

/-- The non-empty tokens of `s` separated by runs of blanks (space or tab). -/
def blankTokens (s : Bytes) : List Bytes :=
  go s []
where
  go : Bytes → Bytes → List Bytes
    | [], cur => if cur.isEmpty then [] else [cur.reverse]
    | c :: t, cur =>
      if isBlank c then (if cur.isEmpty then go t [] else cur.reverse :: go t [])
      else go t (c :: cur)

/-- The part of the line before the comment sign (a '#' in column 0 does not start a comment of a
    hosts line: such a line is a comment line as a whole and never reaches the hosts syntax). -/
def hostLineBody (line : Bytes) : Bytes :=
  match indexByte line (ch '#') with
  | some i => if i > 0 then line.take i else line
  | none => line

/-- Names and address a line stands for (`none` = not a hosts line). -/
def specHostLine (ext : Ext) (dn : Bytes → Bool) (line : Bytes) : Option (List Bytes × Addr) :=
  match blankTokens (hostLineBody line) with
  | [] => if dn [] then some ([[]], addrV4Unspecified) else none
  | [name] => if dn name then some ([name], addrV4Unspecified) else none
  | ip :: names => (ext.parseAddr ip).map fun a => (names, a)

/-- "A host rule matches a queried name iff it is one of its names, and the DNS engine reports it
    under the IPv4 or IPv6 group according to its address": (in V4 group, in V6 group). -/
def specHostAnswer (names : List Bytes) (a : Addr) (q : Bytes) : Bool × Bool :=
  (decide (q ∈ names) && a.is4, decide (q ∈ names) && !a.is4)

/-- The carve-out of DESIGN.md §6, EXACTLY: the lines `NewRule` does not hand to the hosts syntax,
    as computed by the model of its two tests -- the line is a comment line or cosmetic syntax.
    (Before the repair of D16 this was a syntactic test that excluded every line CONTAINING `$$` or
    `$@$`, which hid the defect.)  For the lines of the property's grammar the set is characterised
    syntactically by `commentIsMarker` (theorem `c18_carveOut_grammar`), for every line a syntactic
    sufficient condition for being outside it is `hostLineOutside = false`
    (`c18_not_comment_not_cosmetic`). -/
def hostLineCarveOut (line : Bytes) : Bool := isCommentLine line || isCosmeticLine line

/-- The carve-out the property itself states, on the parts of a grammar line
    `… name trail cmt`: "a double '#' only after a blank, otherwise the line is element-hiding
    syntax" -- the comment directly follows a non-blank (`trail` is empty) and begins with a cosmetic
    marker (`##`, `#@#`, `#?#`, `#$#`, `#%#`, …; a comment begins with '#', so `$$`/`$@$` cannot). -/
def commentIsMarker (trail cmt : Bytes) : Bool :=
  trail.isEmpty && Facts.H.cosmeticMarkers.any (fun m => hasPrefix cmt m)

/-- A purely syntactic test, independent of the marker search of the model, used by the driver to
    decide on which lines the hosts reference is compared: the line starts like a comment, or the
    text before the comment sign contains a '$' (not a character of a name or an address), or the
    first '#' directly follows a non-blank and starts a cosmetic marker.  What follows the comment
    sign is otherwise irrelevant (`$$`, `$@$`, ` ##` … in comments are inside the domain). -/
def hostLineOutside (line : Bytes) : Bool :=
  line.head? == some (ch '!') || line.head? == some (ch '#') ||
  (hostLineBody line).any (fun c => c == ch '$') ||
  (match indexByte line (ch '#') with
   | some i =>
     decide (i > 0) && !(line[i - 1]? == some (ch ' ') || line[i - 1]? == some (ch '\t')) &&
     Facts.H.cosmeticMarkers.any (fun m => hasPrefix (line.drop i) m)
   | none => false)

end UF.H

namespace UF.H
open Bytes

/-! ### The line grammar of the property, as text builders and side conditions -/

def blankFree (s : Bytes) : Bool := s.all fun c => !isBlank c
def hashFree (s : Bytes) : Bool := s.all fun c => c != ch '#'
/-- No '$': not a character of a host name or of an address. -/
def dollarFree (s : Bytes) : Bool := s.all fun c => c != ch '$'
def allBlank (s : Bytes) : Bool := s.all isBlank

/-- A name (or an address text): non-empty, without blanks and without '#'. -/
def isHostToken (n : Bytes) : Bool := !n.isEmpty && blankFree n && hashFree n
/-- `(sp|tab)+`. -/
def isBlankRun (w : Bytes) : Bool := !w.isEmpty && allBlank w
/-- `[ '#' any ]`. -/
def isCommentTail (c : Bytes) : Bool := c.isEmpty || c.head? == some (ch '#')

/-- `((sp|tab)+ name)*` from the list of (blank run, name) pairs. -/
def namesText : List (Bytes × Bytes) → Bytes
  | [] => []
  | (w, n) :: rest => w ++ n ++ namesText rest

/-- `IP (sp|tab)+ name ((sp|tab)+ name)* ws* [ '#' any ]`. -/
def hostLineIP (ip : Bytes) (wn : List (Bytes × Bytes)) (trail cmt : Bytes) : Bytes :=
  ip ++ namesText wn ++ trail ++ cmt

/-- `name ws* [ '#' any ]`. -/
def hostLineBare (name trail cmt : Bytes) : Bytes := name ++ trail ++ cmt

def goodPairs (wn : List (Bytes × Bytes)) : Bool :=
  wn.all fun p => isBlankRun p.1 && isHostToken p.2

/-- The names contain no '$'. -/
def dollarFreePairs (wn : List (Bytes × Bytes)) : Bool :=
  wn.all fun p => dollarFree p.2

/-- An address or a bare name: no '$' and no leading '!' (a line starting with '!' is a comment). -/
def isPlainToken (t : Bytes) : Bool := dollarFree t && !(t.head? == some (ch '!'))

end UF.H

import UF.Model.Storage
/-
  Reference for C11: "parsing the content line by line".  The content is split at newlines
  (`strings.Split(content, "\n")`), a final empty piece is not a line; the offset of a line is the
  number of bytes before it; each piece is handed to the parser (without its newline).
-/
namespace UF.Storage

/-- `strings.Split(content, "\n")`. -/
def splitLines : Bytes → List Bytes
  | [] => [[]]
  | c :: r =>
    if c == 10 then [] :: splitLines r else
    match splitLines r with
    | l :: ls => (c :: l) :: ls
    | [] => [[c]]

/-- Pieces with the offset of their first byte; the piece after the last newline counts only if
    it is not empty. -/
def withOffsets : Nat → List Bytes → List (Nat × Bytes)
  | _, [] => []
  | pos, [p] => if p.isEmpty then [] else [(pos, p)]
  | pos, p :: q :: ps => (pos, p) :: withOffsets (pos + p.length + 1) (q :: ps)

def specLines (content : Bytes) : List (Nat × Bytes) := withOffsets 0 (splitLines content)

/-- The reference scan of one list. -/
def specScanList (parse : Parser) (id : Int) (ignoreCosmetic : Bool) (content : Bytes) : List (SRule × Nat) :=
  (specLines content).filterMap fun (off, p) =>
    match parse p id with
    | .rule k t => if ignoreCosmetic && k == .cosmetic then none else some (⟨k, t, id⟩, off)
    | _ => none

/-- The reference scan of a storage: list by list, index = (list id, offset). -/
def specStorageScan (parse : Parser) (lists : List RList) : List (SRule × Int × Nat) :=
  lists.flatMap fun l => (specScanList parse l.id l.ignoreCosmetic l.content).map fun (r, off) => (r, l.id, off)

end UF.Storage

import UF.Model.Rule
import UF.Gen.Facts
/-
  C17 reference definitions.

  * Hostname of a well-formed hierarchical URL
        u = scheme ++ "://" ++ host ++ [":" ++ port] ++ [("/"|"?") ++ rest]
    (scheme free of '/' and ':', host free of "/:?#", no userinfo): the text between the first
    "://" and the next of `/ : ?` (or the end).
  * Registrable domain: the public suffix (given by the PSL oracle) plus ONE more label; none when
    the host is the suffix itself.
  * Third party: there is a source and its registrable domain differs from the request's.
-/
namespace UF.H
open Bytes

/-- Is `u` inside the URL grammar, and if so what is its host?  (`none` = outside the grammar.) -/
def refURLHost (u : Bytes) : Option Bytes :=
  match indexOf u (lit "://") with
  | none => none
  | some i =>
    let scheme := u.take i
    if scheme.isEmpty || scheme.any (fun c => c == ch '/' || c == ch ':') then none else
    let rest := u.drop (i + 3)
    let host := rest.takeWhile (fun c => !(c == ch '/' || c == ch ':' || c == ch '?'))
    -- a fragment directly after the host, userinfo or an empty host are outside the contract
    if host.isEmpty || host.any (fun c => c == ch '#' || c == ch '@') then none else some host

def noEmptyLabel (h : Bytes) : Bool := (splitByte h (ch '.')).all (fun l => !l.isEmpty)

/-- "Suffix plus one label": the last `k + 1` labels of `h` where `k` = number of labels of the
    public suffix; `none` if `h` has no more than `k` labels. -/
def refETLD1 (ext : Ext) (h : Bytes) : Option Bytes :=
  let labels := splitByte h (ch '.')
  let k := (splitByte (ext.psl h).1 (ch '.')).length
  if labels.length ≤ k then none
  else some (joinSep (labels.drop (labels.length - (k + 1))) [ch '.'])

/-- "the PSL eTLD+1, or the hostname itself when there is none". -/
def refDomain (ext : Ext) (h : Bytes) : Bytes := (refETLD1 ext h).getD h

def refThirdParty (domain sourceDomain : Bytes) : Bool :=
  decide (sourceDomain ≠ [] ∧ sourceDomain ≠ domain)

/-- The request the property describes, for URLs inside the grammar (`none` otherwise).  An
    empty source URL means "no source". -/
def refRequest (ext : Ext) (url sourceURL : Bytes) (requestType : Nat) : Option Request :=
  let url := url.take Facts.maxURLLength
  let sourceURL := sourceURL.take Facts.maxURLLength
  match refURLHost url, (if sourceURL.isEmpty then some [] else refURLHost sourceURL) with
  | some h, some sh =>
    if !(noEmptyLabel h && (sh.isEmpty || noEmptyLabel sh)) then none else
    let d := refDomain ext h
    let sd := refDomain ext sh
    some { reqType := requestType, url := url, urlLower := toLower url, hostname := h, domain := d,
           sourceURL := sourceURL, sourceHostname := sh, sourceDomain := sd,
           thirdParty := refThirdParty d sd }
  | _, _ => none

end UF.H

namespace UF.H
open Bytes

/-- Side conditions of the URL grammar `scheme "://" host tail`, `tail` being
    `[":" port] [("/"|"?") rest]`: non-empty scheme without '/' and ':', non-empty host without
    `/ : ? # @`, and a tail that is empty or starts with one of `: / ?`. -/
def goodURLParts (scheme host tail : Bytes) : Bool :=
  !scheme.isEmpty && scheme.all (fun c => c != ch '/' && c != ch ':') &&
  !host.isEmpty && host.all (fun c => !(c == ch '/' || c == ch ':' || c == ch '?' || c == ch '#' || c == ch '@')) &&
  (match tail with
   | [] => true
   | c :: _ => c == ch '/' || c == ch ':' || c == ch '?')

/-- The PSL oracle answers with a dot-suffix of the hostname (what `publicsuffix.PublicSuffix` does). -/
def pslIsDotSuffix (ext : Ext) (h : Bytes) : Prop :=
  h = (ext.psl h).1 ∨ ∃ pre, h = pre ++ ch '.' :: (ext.psl h).1

end UF.H

import UF.Model.Rule
import UF.Gen.Facts
/-
  C10 reference: the published contract of `rules.DNSRewrite` / `rules.RRValue`
  (doc comments in rules/dnsrewrite.go), as an executable predicate on the model record.

  * `NewCNAME` set  ⇒  clients ignore the other fields: they are all zero;
  * `RRType` "is only non-zero if RCode is dns.RCodeSuccess";
  * the dynamic type of `Value` is determined by `RRType`:
      netip.Addr (IPv4) for A, netip.Addr (IPv6) for AAAA, *DNSMX for MX, a string that is a valid
      FQDN (ends with a dot) for PTR, a string for TXT, *DNSSVCB for HTTPS and SVCB, *DNSSRV for
      SRV, nil otherwise;
  * the numeric fields are `uint16`.
-/
namespace UF.H
open Bytes

def isU16 (n : Nat) : Bool := decide (n ≤ 65535)

/-- The value constructor demanded by the record type (`rr = 0` included: nil). -/
def valueShapeOK (rr : Nat) (v : RRVal) : Bool :=
  if rr == Facts.H.DnsTypeA then
    match v with | .addr a => a.is4 | _ => false
  else if rr == Facts.H.DnsTypeAAAA then
    match v with | .addr a => !a.is4 | _ => false
  else if rr == Facts.H.DnsTypeMX then
    match v with | .mx p _ => isU16 p | _ => false
  else if rr == Facts.H.DnsTypeSRV then
    match v with | .srv p w po _ => isU16 p && isU16 w && isU16 po | _ => false
  else if rr == Facts.H.DnsTypeHTTPS || rr == Facts.H.DnsTypeSVCB then
    match v with | .svcb p _ _ => isU16 p | _ => false
  else if rr == Facts.H.DnsTypePTR then
    match v with | .str s => s.getLast? == some (ch '.') | _ => false
  else if rr == Facts.H.DnsTypeTXT then
    match v with | .str _ => true | _ => false
  else
    match v with | .none => true | _ => false

def shapeOK (rw : DnsRewrite) : Bool :=
  if !rw.newCNAME.isEmpty then
    rw.rcode == 0 && rw.rrType == 0 && rw.value == .none
  else if rw.rcode != 0 then
    rw.rrType == 0 && rw.value == .none
  else
    isU16 rw.rrType && valueShapeOK rw.rrType rw.value

end UF.H

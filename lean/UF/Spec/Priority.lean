import UF.Model.Priority
/-
  Reference for C07: the priority relation is "greater" in the lexicographic order of a key
  `(class, redirect, domain-specific, number of modifiers)` — the documented criteria
  (verdict class, then domain-specific over generic, then more modifiers over fewer).
-/
namespace UF

/-- The lexicographic key. `redirect` and `specific` are 0/1. -/
structure PKey where
  cls : Nat
  redirect : Nat
  specific : Nat
  count : Nat
  deriving DecidableEq, Repr

/-- Verdict class: `@@…$important` (3) > `$important` (2) > `@@` (1) > plain block (0). -/
def classRank (r : NetRule) : Nat :=
  if r.whitelist && r.important then 3 else if r.important then 2 else if r.whitelist then 1 else 0

def pkey (r : NetRule) : PKey :=
  { cls := classRank r,
    redirect := if r.redirect then 1 else 0,
    specific := if r.isGeneric then 0 else 1,
    count := modifierCount r }

/-- `a > b` lexicographically. -/
def PKey.gt (a b : PKey) : Prop :=
  a.cls > b.cls ∨ (a.cls = b.cls ∧
    (a.redirect > b.redirect ∨ (a.redirect = b.redirect ∧
      (a.specific > b.specific ∨ (a.specific = b.specific ∧ a.count > b.count)))))

instance (a b : PKey) : Decidable (a.gt b) := by unfold PKey.gt; exact inferInstance

/-- Executable reference of the relation (printed by the driver next to the model's answer). -/
def specHigher (a b : NetRule) : Bool := decide ((pkey a).gt (pkey b))

/-- `AddsModifier r r'`: `r'` is `r` with one more modifier — one more option bit (enabled or
    disabled), one more content type (permitted or restricted), or a modifier with a value list
    (`$domain`, `$dnstype`, `$ctag`, `$client`, `$denyallow`) that `r` does not carry. -/
inductive AddsModifier (r : NetRule) : NetRule → Prop where
  | option (k : Nat) (h : r.enabled.testBit k = false) : AddsModifier r { r with enabled := r.enabled ||| 2 ^ k }
  | disabledOption (k : Nat) (h : r.disabled.testBit k = false) :
      AddsModifier r { r with disabled := r.disabled ||| 2 ^ k }
  | contentType (k : Nat) (h : r.permTypes.testBit k = false) :
      AddsModifier r { r with permTypes := r.permTypes ||| 2 ^ k }
  | restrictedContentType (k : Nat) (h : r.restrTypes.testBit k = false) :
      AddsModifier r { r with restrTypes := r.restrTypes ||| 2 ^ k }
  | domain (ds : List Bytes) (h : r.permDomains = []) (hds : ds ≠ []) : AddsModifier r { r with permDomains := ds }
  | restrictedDomain (ds : List Bytes) (h1 : r.permDomains = []) (h2 : r.restrDomains = []) (hds : ds ≠ []) :
      AddsModifier r { r with restrDomains := ds }
  | dnstype (p q : List Nat) (h1 : r.permDns = []) (h2 : r.restrDns = []) (hpq : p ≠ [] ∨ q ≠ []) :
      AddsModifier r { r with permDns := p, restrDns := q }
  | ctag (p q : List Bytes) (h1 : r.permTags = []) (h2 : r.restrTags = []) (hpq : p ≠ [] ∨ q ≠ []) :
      AddsModifier r { r with permTags := p, restrTags := q }
  | client (p q : Option Clients) (h1 : Clients.len r.permClients = 0) (h2 : Clients.len r.restrClients = 0)
      (hpq : Clients.len p ≠ 0 ∨ Clients.len q ≠ 0) : AddsModifier r { r with permClients := p, restrClients := q }
  | denyallow (ds : List Bytes) (h : r.denyallow = []) (hds : ds ≠ []) : AddsModifier r { r with denyallow := ds }

end UF

import UF.Model.Priority
/-
  Reference for C07: the priority relation is "greater" in the lexicographic order of a key
  `(class, redirect, domain-specific, number of modifiers)` — the documented criteria
  (verdict class, then domain-specific over generic, then more modifiers over fewer).
-/
namespace UF

/-- The lexicographic key. `redirect` and `specific` are 0/1. -/
structure PKey where
  cls : Nat
  redirect : Nat
  specific : Nat
  count : Nat
  deriving DecidableEq, Repr

/-- Verdict class: `@@…$important` (3) > `$important` (2) > `@@` (1) > plain block (0). -/
def classRank (r : NetRule) : Nat :=
  if r.whitelist && r.important then 3 else if r.important then 2 else if r.whitelist then 1 else 0

def pkey (r : NetRule) : PKey :=
  { cls := classRank r,
    redirect := if r.redirect then 1 else 0,
    specific := if r.isGeneric then 0 else 1,
    count := modifierCount r }

/-- `a > b` lexicographically. -/
def PKey.gt (a b : PKey) : Prop :=
  a.cls > b.cls ∨ (a.cls = b.cls ∧
    (a.redirect > b.redirect ∨ (a.redirect = b.redirect ∧
      (a.specific > b.specific ∨ (a.specific = b.specific ∧ a.count > b.count)))))

instance (a b : PKey) : Decidable (a.gt b) := by unfold PKey.gt; exact inferInstance

/-- Executable reference of the relation (printed by the driver next to the model's answer). -/
def specHigher (a b : NetRule) : Bool := decide ((pkey a).gt (pkey b))

end UF

import UF.Model.DnsEngine
/-
  Reference for C02: scan every rule of the lists.
-/
namespace UF

/-- A network rule is DNS-applicable: no `$domain`, not both permitted and restricted content types,
    no disabled option, and the enabled options are a subset of {important, badfilter}. -/
def dnsApplicable (r : NetRule) : Bool :=
  r.permDomains.isEmpty && r.restrDomains.isEmpty &&
  !(r.permTypes != 0 && r.restrTypes != 0) &&
  r.disabled == 0 &&
  (r.enabled ||| (Facts.OptionImportant ||| Facts.OptionBadfilter)) == (Facts.OptionImportant ||| Facts.OptionBadfilter)

def netRulesOf (L : List Rule) : List NetRule :=
  L.filterMap fun | .net r => some r | _ => none

def hostRulesOf (L : List Rule) : List HostRule :=
  L.filterMap fun | .host r => some r | _ => none

def specDns (ext : Ext) (basic : List NetRule → Option NetRule) (L : List Rule) (q : Request) : DnsResult :=
  if q.hostname.isEmpty then {}
  else
    let nrs := (netRulesOf L).filter fun r => dnsApplicable r && r.matches ext q
    match basic nrs with
    | some r => { networkRules := nrs, networkRule := some r, matched := true }
    | none =>
      let hs := (hostRulesOf L).filter fun hr => hr.hostnames.contains q.hostname
      { networkRules := nrs, v4 := hs.filter (·.ip.is4), v6 := hs.filter (!·.ip.is4), matched := !hs.isEmpty }

end UF

import UF.Model.DnsEngine
/-
  Reference for C02: scan every rule of the lists.
-/
namespace UF.B
open UF UF.Bytes

/-- A network rule is DNS-applicable: no `$domain`, not both permitted and restricted content types,
    no disabled option, and the enabled options are a subset of {important, badfilter}. -/
def dnsApplicable (r : NetRule) : Bool :=
  r.permDomains.isEmpty && r.restrDomains.isEmpty &&
  !(r.permTypes != 0 && r.restrTypes != 0) &&
  r.disabled == 0 &&
  (r.enabled ||| (Facts.OptionImportant ||| Facts.OptionBadfilter)) == (Facts.OptionImportant ||| Facts.OptionBadfilter)

def netRulesOf (L : List Rule) : List NetRule :=
  L.filterMap fun | .net r => some r | _ => none

def hostRulesOf (L : List Rule) : List HostRule :=
  L.filterMap fun | .host r => some r | _ => none

def specDns (ext : Ext) (basic : List NetRule → Option NetRule) (L : List Rule) (q : Request) : DnsResult :=
  if q.hostname.isEmpty then {}
  else
    let nrs := (netRulesOf L).filter fun r => dnsApplicable r && r.matches ext q
    match basic nrs with
    | some r => { networkRules := nrs, networkRule := some r, matched := true }
    | none =>
      let hs := (hostRulesOf L).filter fun hr => hr.hostnames.contains q.hostname
      { networkRules := nrs, v4 := hs.filter (·.ip.is4), v6 := hs.filter (!·.ip.is4), matched := !hs.isEmpty }

end UF.B

namespace UF.B
open UF UF.Bytes

/-- The class of the winning rule the property compares: exception? important? -/
def netCls (r : NetRule) : Bool × Bool := (r.whitelist, r.important)

/-- Componentwise agreement of two DNS results as the property states it: network rules as a set
    of texts, `NetworkRule == nil` and its exception/important class, host rules as sets, `matched`. -/
def DnsResult.Equiv (a b : DnsResult) : Prop :=
  (∀ t, t ∈ a.networkRules.map (·.text) ↔ t ∈ b.networkRules.map (·.text)) ∧
  a.networkRule.map netCls = b.networkRule.map netCls ∧
  (∀ h, h ∈ a.v4 ↔ h ∈ b.v4) ∧ (∀ h, h ∈ a.v6 ↔ h ∈ b.v6) ∧
  a.matched = b.matched

/-- What C02 needs from `GetDNSBasicRule` (C06/C07/C08): on candidate lists drawn from the rules `S`
    that carry the same set of rule texts it makes the same decision up to the class of the winner. -/
def BasicRespectsTexts (basic : List NetRule → Option NetRule) (S : List NetRule) : Prop :=
  ∀ l l' : List NetRule, (∀ r ∈ l, r ∈ S) → (∀ r ∈ l', r ∈ S) →
    (∀ t, t ∈ l.map (·.text) ↔ t ∈ l'.map (·.text)) →
    (basic l).map netCls = (basic l').map netCls

/-- The host-level network rules of the storage with their indexes (what `NewDNSEngine` offers to
    its network engine). -/
def hostLevelNet (L : List (Rule × Idx)) : List (NetRule × Idx) :=
  L.filterMap fun p => match p.1 with
    | .net r => if isHostLevel r then some (r, p.2) else none
    | _ => none

end UF.B

import UF.Model.Result
import UF.Spec.Priority
/-
  References for C08 ($badfilter disables exactly its twins) and C06 (verdict class).
-/
namespace UF

/-! ### C08 -/

/-- The matching-relevant fields of a rule: everything except the text, the list id and the
    shortcut (exception flag, pattern, both type masks, both option masks, domains, denyallow,
    DNS types, ctags, clients, rewrite). -/
def NetRule.matchFields (a : NetRule) : NetRule := { a with text := [], listID := 0, shortcut := [] }

/-- The rule with the `$badfilter` bit flipped (cleared when it is set), as `negatesBadfilter` does. -/
def NetRule.flipBadfilter (b : NetRule) : NetRule := { b with enabled := b.enabled ^^^ Facts.OptionBadfilter }

/-- The rule with `$badfilter` added. -/
def NetRule.withBadfilter (x : NetRule) : NetRule := { x with enabled := x.enabled ||| Facts.OptionBadfilter }

/-- `b` is a badfilter rule and, apart from the badfilter modifier (and the text), identical to `r`. -/
def isTwin (b r : NetRule) : Bool :=
  b.badfilter && decide (b.flipBadfilter.matchFields = r.matchFields)

/-- Reference for `removeBadfilterRules`: a rule survives iff it is not a badfilter rule and no
    badfilter rule of the list negates it; order and multiplicity of the survivors are kept. -/
def specRemoveBad (rs : List NetRule) : List NetRule :=
  rs.filter (fun r => !r.badfilter && !rs.any (fun b => b.badfilter && negatesBadfilter b r))

/-- The same with the declarative twin relation. -/
def specRemoveBadTwin (rs : List NetRule) : List NetRule :=
  rs.filter (fun r => !r.badfilter && !rs.any (fun b => isTwin b r))

/-! ### C06 -/

/-- "Effective": not a badfilter rule, not disabled by a badfilter rule of the same list, and not a
    `$dnsrewrite` rule. -/
def effectiveIn (all : List NetRule) (r : NetRule) : Bool :=
  !r.badfilter && !all.any (fun b => isTwin b r) && r.rewrite.isNone

/-- Special-purpose rules (`$cookie`, `$replace`, `$csp`, `$stealth`) never become the basic result. -/
def isSpecial (r : NetRule) : Bool :=
  r.isEnabled Facts.OptionCookie || r.isEnabled Facts.OptionReplace || r.isEnabled Facts.OptionCsp ||
    r.isEnabled Facts.OptionStealth

/-- The documented precedence over a set of candidates: important exceptions, important blocks,
    exceptions, blocks. -/
def precedence (cands : NetRule → Bool) (rules : List NetRule) : VClass :=
  if rules.any (fun r => cands r && (r.whitelist && r.important)) then .allow
  else if rules.any (fun r => cands r && (!r.whitelist && r.important)) then .block
  else if rules.any (fun r => cands r && r.whitelist) then .allow
  else if rules.any (fun r => cands r && !r.whitelist) then .block
  else .none

/-- A referrer-level `$urlblock` exception is in force. -/
def srcUrlblock (src : List NetRule) : Bool :=
  src.any (fun s => effectiveIn src s && (s.whitelist && s.isEnabled Facts.OptionUrlblock))

/-- A referrer-level `$genericblock` exception is in force. -/
def srcGenericblock (src : List NetRule) : Bool :=
  src.any (fun s => effectiveIn src s && (s.whitelist && s.isEnabled Facts.OptionGenericblock))

/-- Candidates of a web request: effective, not special-purpose; blocking rules are suppressed by a
    referrer-level `$urlblock` exception, generic ones by a `$genericblock` exception. -/
def webCandidate (rules src : List NetRule) (r : NetRule) : Bool :=
  effectiveIn rules r && !isSpecial r &&
    (r.whitelist || (!srcUrlblock src && !(srcGenericblock src && r.isGeneric)))

/-- Reference verdict class of a web request. -/
def classWeb (rules src : List NetRule) : VClass :=
  match precedence (webCandidate rules src) rules with
  | .none => if srcUrlblock src || srcGenericblock src then .allow else .none
  | c => c

def dnsCandidate (rules : List NetRule) (r : NetRule) : Bool := effectiveIn rules r && !isSpecial r

/-- Reference verdict class of a DNS request. -/
def classDns (rules : List NetRule) : VClass := precedence (dnsCandidate rules) rules

/-- What the code does when an effective `$replace` rule is present (unreachable from rule text on
    this tree): `GetBasicResult` and `GetDNSBasicRule` return nil.  This is NOT the documented
    precedence of the property; the property theorems carry the hypothesis "no `$replace` bit". -/
def webReplaceTrigger (rules : List NetRule) : Bool :=
  rules.any (fun r => effectiveIn rules r && (!r.isEnabled Facts.OptionCookie && r.isEnabled Facts.OptionReplace))

def dnsReplaceTrigger (rules : List NetRule) : Bool :=
  rules.any (fun r => effectiveIn rules r && r.isEnabled Facts.OptionReplace)

end UF

import UF.Model.Result
import UF.Spec.Priority
/-
  References for C08 ($badfilter disables exactly its twins) and C06 (verdict class).
-/
namespace UF

/-! ### C08 -/

/-- The matching-relevant fields of a rule: everything except the text, the list id and the
    shortcut (exception flag, pattern, both type masks, both option masks, domains, denyallow,
    DNS types, ctags, clients, rewrite). -/
def NetRule.matchFields (a : NetRule) : NetRule := { a with text := [], listID := 0, shortcut := [] }

/-- The rule with the `$badfilter` bit flipped (cleared when it is set), as `negatesBadfilter` does. -/
def NetRule.flipBadfilter (b : NetRule) : NetRule := { b with enabled := b.enabled ^^^ Facts.OptionBadfilter }

/-- The rule with `$badfilter` added. -/
def NetRule.withBadfilter (x : NetRule) : NetRule := { x with enabled := x.enabled ||| Facts.OptionBadfilter }

/-- `b` is a badfilter rule and, apart from the badfilter modifier (and the text), identical to `r`. -/
def isTwin (b r : NetRule) : Bool :=
  b.badfilter && decide (b.flipBadfilter.matchFields = r.matchFields)

/-- Reference for `removeBadfilterRules`: a rule survives iff it is not a badfilter rule and no
    badfilter rule of the list negates it; order and multiplicity of the survivors are kept. -/
def specRemoveBad (rs : List NetRule) : List NetRule :=
  rs.filter (fun r => !r.badfilter && !rs.any (fun b => b.badfilter && negatesBadfilter b r))

/-- The same with the declarative twin relation. -/
def specRemoveBadTwin (rs : List NetRule) : List NetRule :=
  rs.filter (fun r => !r.badfilter && !rs.any (fun b => isTwin b r))

end UF

import UF.Compose5.Effect
/-
  Integration (group L), part 4: `$client`, `$document`, and the step lemma for every modifier of the grammar.
-/
namespace UF.L
open UF UF.E Bytes UF.Compose3

/-! ### `$client` -/

theorem hasPrefix_cons_ne (a : UInt8) (t : Bytes) (c : UInt8) (rest : Bytes) (h : a ≠ c) :
    hasPrefix (a :: t) (c :: rest) = false := by
  show (a == c && hasPrefix t rest) = false
  have : (a == c) = false := by
    cases h' : a == c with
    | false => rfl
    | true => exact absurd (eq_of_beq h') h
  rw [this]; rfl

theorem replaceAll_go_noop (c : UInt8) (rest new : Bytes) (s : Bytes) (h : c ∉ s) :
    replaceAll.go (c :: rest) new s 0 = s := by
  induction s with
  | nil => rfl
  | cons a t ih =>
    have ha : a ≠ c := fun e => h (e ▸ List.mem_cons_self)
    simp only [replaceAll.go, hasPrefix_cons_ne a t c rest ha, Bool.false_eq_true, if_false]
    rw [ih (fun h' => h (List.mem_cons_of_mem _ h'))]

theorem replaceAll_noop (c : UInt8) (rest new : Bytes) (s : Bytes) (h : c ∉ s) :
    replaceAll s (c :: rest) new = s := by
  unfold replaceAll
  simp only [List.isEmpty_cons, Bool.false_eq_true, if_false]
  exact replaceAll_go_noop c rest new s h

theorem loadClientsStep_clean (ext : Ext) (acc : Option Clients × Option Clients) (v : Bool × Bytes)
    (hv : cleanVal v.2 = true) :
    loadClientsStep ext acc (renderVal v) =
      .ok (if v.1 then (acc.1, addClient ext acc.2 v.2) else (addClient ext acc.1 v.2, acc.2)) := by
  obtain ⟨neg, d⟩ := v
  have hbs : ch '\\' ∉ d := clean_notMem hv (by decide)
  have hr : replaceAll d (lit "\\,") (lit ",") = d := replaceAll_noop (ch '\\') [ch ','] (lit ",") d hbs
  have h0 : ¬ ((0 : UInt8) > 0) := by decide
  have he : d.isEmpty = false := isEmpty_false (cleanVal_ne_nil hv)
  have hpre := hasPrefix_tilde_clean hv
  obtain ⟨c, t, rfl, hc⟩ := cleanVal_cons hv
  have h1 : (c == ch '\'') = false := by
    cases h' : c == ch '\'' with
    | false => rfl
    | true => exact absurd (eq_of_beq h') (cleanByte_ne hc).2.2.2.2.2.1
  have h2 : (c == ch '"') = false := by
    cases h' : c == ch '"' with
    | false => rfl
    | true => exact absurd (eq_of_beq h') (cleanByte_ne hc).2.2.2.2.2.2
  have hi0 : idxC (c :: t) 0 = .ok c := rfl
  have hlast := idxC_ok' (s := c :: t) (i := (c :: t).length - 1) (by simp)
  unfold loadClientsStep
  cases neg with
  | false =>
    by_cases hl : (c :: t).length ≥ 2
    · simp only [renderVal, hpre, hl, if_true, hi0, hlast, bind, Except.bind, pure, Except.pure, h1, h2, Bool.or_self,
        Bool.false_and, Bool.false_eq_true, if_false, h0, hr, he]
    · simp only [renderVal, hpre, hl, bind, Except.bind, pure, Except.pure,
        Bool.false_eq_true, if_false, h0, hr, he]
  | true =>
    by_cases hl : (c :: t).length ≥ 2
    · simp only [renderVal, hasPrefix_tilde_cons, sliceC_tail, hl, if_true, hi0, hlast, bind, Except.bind, pure, Except.pure, h1, h2, Bool.or_self,
        Bool.false_and, Bool.false_eq_true, if_false, h0, hr, he]
    · simp only [renderVal, hasPrefix_tilde_cons, sliceC_tail, hl, bind, Except.bind, pure, Except.pure, if_true,
        Bool.false_eq_true, if_false, h0, hr, he]
theorem foldlM_clients (ext : Ext) :
    ∀ (vs : List (Bool × Bytes)) (acc acc' : Option Clients × Option Clients),
      (∀ v ∈ vs, cleanVal v.2 = true) →
      (vs.map renderVal).foldlM (loadClientsStep ext) acc = .ok acc' →
      acc' = ((posVals vs).foldl (addClient ext) acc.1, (negVals vs).foldl (addClient ext) acc.2) := by
  intro vs
  induction vs with
  | nil =>
    intro acc acc' _ h
    simp only [List.map_nil, List.foldlM, pure, Except.pure] at h
    cases h
    rfl
  | cons v vs ih =>
    intro acc acc' hok h
    simp only [List.map_cons, List.foldlM] at h
    rw [loadClientsStep_clean ext acc v (hok v List.mem_cons_self)] at h
    have := ih _ acc' (fun x hx => hok x (List.mem_cons_of_mem _ hx)) h
    rw [this]
    obtain ⟨neg, d⟩ := v
    cases neg <;> simp [posVals, negVals]

theorem render_escFree (vs : List (Bool × Bytes)) (h : ∀ v ∈ vs, cleanVal v.2 = true) :
    sepFree (ch '\\') (vs.map renderVal) := by
  intro x hx
  obtain ⟨v, hv, rfl⟩ := List.mem_map.1 hx
  have hn : ch '\\' ∉ v.2 := clean_notMem (h v hv) (by decide)
  obtain ⟨neg, d⟩ := v
  cases neg
  · exact hn
  · intro hm
    simp only [renderVal, if_true, List.mem_cons] at hm
    rcases hm with hm | hm
    · exact absurd hm (by decide)
    · exact hn hm

theorem effect_client {px : ParseExt} {r r' : NetRule} {vs : List (Bool × Bytes)}
    (hok : (Mod.client vs).valsOK = true) (h : loadOptionsStep px r (renderMod (.client vs)) = .ok r') :
    r' = applyMod px.ext r (.client vs) := by
  simp only [Mod.valsOK, Bool.and_eq_true, List.all_eq_true, Bool.not_eq_true', List.isEmpty_eq_false_iff] at hok
  show r' = { r with permClients := clientsOf px.ext (posVals vs), restrClients := clientsOf px.ext (negVals vs) }
  rw [show renderMod (.client vs) = lit "client" ++ ch '=' :: joinVals (vs.map renderVal) from rfl,
    loadOptionsStep_nv px r _ _ (by decide) (by decide), loadOption_client] at h
  obtain ⟨⟨p, rs⟩, hl, h⟩ := bind_ok_elim h
  cases pure_ok_elim h
  unfold loadClients at hl
  have hne : ∀ x ∈ vs.map renderVal, x ≠ [] := fun x hx => by
    obtain ⟨v, hv, rfl⟩ := List.mem_map.1 hx
    exact renderVal_ne_nil v (hok.2 v hv)
  have hj : (joinVals (vs.map renderVal)).isEmpty = false :=
    isEmpty_false (joinVals_ne_nil (map_ne_nil _ hok.1) hne)
  rw [hj] at hl
  simp only [Bool.false_eq_true, if_false] at hl
  unfold joinVals at hl
  obtain ⟨list, hsp, hl⟩ := bind_ok_elim hl
  rw [split_join (ch '|') (ch '\\') (by decide) _ (map_ne_nil _ hok.1) hne (render_sepFree vs hok.2)
    (render_escFree vs hok.2)] at hsp
  cases hsp
  obtain ⟨⟨p0, r0⟩, hf, hl⟩ := bind_ok_elim hl
  have hfc := foldlM_clients px.ext vs (none, none) (p0, r0) hok.2 hf
  cases pure_ok_elim hl
  cases hfc
  rfl

/-! ### `$document` -/

theorem docBits_assoc (a : Nat) :
    a ||| Facts.OptionElemhide ||| Facts.OptionJsinject ||| Facts.OptionUrlblock ||| Facts.OptionContent |||
      Facts.OptionExtension = a ||| docBits := by
  unfold docBits
  simp only [Nat.or_assoc]

theorem effect_document {px : ParseExt} {r r' : NetRule}
    (h : loadOptionsStep px r (renderMod .document) = .ok r') : r' = applyMod px.ext r .document := by
  show r' = { r with enabled := r.enabled ||| docBits }
  rw [show renderMod .document = lit "document" from rfl, loadOptionsStep_n px r _ (by decide),
    loadOption_document] at h
  obtain ⟨r1, h1, h⟩ := bind_ok_elim h
  cases pure_ok_elim h
  -- the first call succeeds only on an exception rule
  have hw : r.whitelist = true := by
    unfold setOptionEnabled at h1
    cases hwl : r.whitelist with
    | true => rfl
    | false =>
      rw [hwl] at h1
      simp only [Bool.false_and, Bool.false_eq_true, if_false, Bool.not_false, Bool.true_and] at h1
      have : ((Facts.OptionElemhide &&& Facts.OptionWhitelistOnly) == Facts.OptionElemhide) = true := by decide
      rw [this] at h1
      simp only [if_true] at h1
      cases h1
  cases setOptionEnabled_on h1
  rw [document_wl { r with enabled := r.enabled ||| Facts.OptionElemhide } hw]
  show ({ r with enabled := r.enabled ||| Facts.OptionElemhide ||| Facts.OptionJsinject ||| Facts.OptionUrlblock |||
      Facts.OptionContent ||| Facts.OptionExtension } : NetRule) = _
  rw [docBits_assoc]

/-! ### every modifier -/

/-- THE STEP LEMMA: on the spelling of a well-formed modifier the option loop, if it succeeds, performs
    exactly the record update `applyMod`. -/
theorem step_effect {px : ParseExt} {r r' : NetRule} {m : Mod} (hok : m.valsOK = true)
    (h : loadOptionsStep px r (renderMod m) = .ok r') : r' = applyMod px.ext r m := by
  cases m with
  | opt o =>
    rw [show renderMod (.opt o) = o.name from rfl, loadOptionsStep_n px r _ (opt_name_noeq o), loadOption_opt] at h
    exact setOptionEnabled_on h
  | thirdParty alt =>
    rw [loadOptionsStep_n px r _ (by cases alt <;> decide), loadOption_thirdParty] at h
    exact setOptionEnabled_on h
  | firstParty alt =>
    rw [loadOptionsStep_n px r _ (by cases alt <;> decide), loadOption_firstParty] at h
    exact setOptionEnabled_off h
  | notMatchCase =>
    rw [show renderMod .notMatchCase = lit "~match-case" from rfl, loadOptionsStep_n px r _ (by decide),
      loadOption_notMatchCase] at h
    exact setOptionEnabled_off h
  | document => exact effect_document h
  | ctype neg c =>
    cases neg with
    | false =>
      rw [show renderMod (.ctype false c) = c.name from rfl, loadOptionsStep_n px r _ (ctype_name_noeq c),
        loadOption_ctype] at h
      cases pure_ok_elim h
      rfl
    | true =>
      rw [show renderMod (.ctype true c) = ch '~' :: c.name from rfl,
        loadOptionsStep_n px r _ (by
          intro hm
          rcases List.mem_cons.1 hm with e | e
          · exact absurd e (by decide)
          · exact ctype_name_noeq c e),
        loadOption_nctype] at h
      cases pure_ok_elim h
      rfl
  | domain vs => exact effect_domain hok h
  | denyallow vs => exact effect_denyallow hok h
  | dnstype vs => exact effect_dnstype hok h
  | ctag vs => exact effect_ctag hok h
  | client vs => exact effect_client hok h

/-- The loop over the rendered modifiers is the fold of `applyMod`. -/
theorem foldlM_effect {px : ParseExt} :
    ∀ (ms : List Mod) (r r' : NetRule), (∀ m ∈ ms, m.valsOK = true) →
      (ms.map renderMod).foldlM (loadOptionsStep px) r = .ok r' → r' = ms.foldl (applyMod px.ext) r := by
  intro ms
  induction ms with
  | nil =>
    intro r r' _ h
    simp only [List.map_nil, List.foldlM, pure, Except.pure] at h
    cases h; rfl
  | cons m ms ih =>
    intro r r' hok h
    simp only [List.map_cons, List.foldlM] at h
    obtain ⟨r1, h1, h2⟩ := bind_ok_elim h
    cases step_effect (hok m List.mem_cons_self) h1
    exact ih _ r' (fun x hx => hok x (List.mem_cons_of_mem _ hx)) h2

end UF.L

import UF.Compose5.Fields
import UF.Compose2.MatchFull
import UF.Proofs.MatchSpec
import UF.Proofs.MergeSorted
/-
  Integration (group L), part 7: the record-level reference of C04 (`specMatch`'s modifier conjuncts, group E),
  evaluated on a rule that was PARSED FROM A RENDERED TEXT, is the text-level reference `specModsText`
  evaluated on the structured modifiers.
-/
namespace UF.L
open UF UF.E Bytes UF.Compose3 UF.I2

/-! ### content types -/

theorem ctype_bit_pow (c : CType) : ∃ i, c.bit = 2 ^ i := by
  cases c
  · exact ⟨2, rfl⟩
  · exact ⟨3, rfl⟩
  · exact ⟨1, rfl⟩
  · exact ⟨4, rfl⟩
  · exact ⟨5, rfl⟩
  · exact ⟨6, rfl⟩
  · exact ⟨7, rfl⟩
  · exact ⟨8, rfl⟩
  · exact ⟨9, rfl⟩
  · exact ⟨10, rfl⟩
  · exact ⟨11, rfl⟩

theorem two_pow_beq (i k : Nat) : ((2 : Nat) ^ i == 2 ^ k) = decide (i = k) := by
  by_cases h : i = k
  · subst h; simp
  · have : (2 : Nat) ^ i ≠ 2 ^ k := fun e => h ((Nat.pow_right_inj (by decide)).1 e)
    simp [h, this]

theorem ctype_testBit (c : CType) (k : Nat) : c.bit.testBit k = (c.bit == 2 ^ k) := by
  obtain ⟨i, hi⟩ := ctype_bit_pow c
  rw [hi, Nat.testBit_two_pow, two_pow_beq]

theorem bitsOf_fold_testBit (l : List CType) (a k : Nat) :
    (l.foldl (fun a c => a ||| c.bit) a).testBit k = (a.testBit k || l.any (fun c => c.bit == 2 ^ k)) := by
  induction l generalizing a with
  | nil => simp
  | cons c l ih =>
    simp only [List.foldl_cons, List.any_cons]
    rw [ih, Nat.testBit_or, ctype_testBit, Bool.or_assoc]

theorem bitsOf_testBit (l : List CType) (k : Nat) : (bitsOf l).testBit k = l.any (fun c => c.bit == 2 ^ k) := by
  unfold bitsOf
  rw [bitsOf_fold_testBit, Nat.zero_testBit, Bool.false_or]

theorem bitsOf_fold_zero (l : List CType) (a : Nat) :
    (l.foldl (fun a c => a ||| c.bit) a = 0) ↔ (a = 0 ∧ l = []) := by
  induction l generalizing a with
  | nil => simp
  | cons c l ih =>
    simp only [List.foldl_cons]
    rw [ih]
    constructor
    · rintro ⟨h, _⟩
      obtain ⟨i, hi⟩ := ctype_bit_pow c
      have := (Nat.or_eq_zero_iff.1 h).2
      rw [hi] at this
      exact absurd this (Nat.ne_of_gt (Nat.two_pow_pos i))
    · rintro ⟨_, h⟩; cases h

theorem bitsOf_beq_zero (l : List CType) : (bitsOf l == 0) = l.isEmpty := by
  unfold bitsOf
  cases l with
  | nil => rfl
  | cons c l =>
    have hne : ¬ ((c :: l).foldl (fun a c => a ||| c.bit) 0 = 0) := fun h => by
      have := ((bitsOf_fold_zero (c :: l) 0).1 h).2; cases this
    show ((c :: l).foldl (fun a c => a ||| c.bit) 0 == 0) = false
    exact beq_false_of_ne hne

theorem and_pow_bne (n k : Nat) : ((n &&& 2 ^ k) != 0) = n.testBit k := by
  rcases E.and_two_pow_cases n k with e | e
  · have hb := and_two_pow_beq n k
    rw [e] at hb ⊢
    have : ((0 : Nat) == 2 ^ k) = false := by
      have := Nat.two_pow_pos k
      exact beq_false_of_ne (by omega)
    rw [this] at hb
    rw [← hb]; rfl
  · have hb := and_two_pow_beq n k
    rw [e] at hb ⊢
    simp only [beq_self_eq_true] at hb
    rw [← hb]
    have := Nat.two_pow_pos k
    exact bne_iff_ne.2 (by omega)

theorem and_pow_beq_zero (n k : Nat) : ((n &&& 2 ^ k) == 0) = !n.testBit k := by
  rw [← and_pow_bne]
  cases h : (n &&& 2 ^ k) == 0 <;> simp [bne, h]

theorem types_eq {ext : Ext} {wl : Bool} {s : ModSpec} {r : NetRule} (hp : ParsedAs ext wl s r) (q : Request)
    (hq : ∃ k, q.reqType = 2 ^ k) : specReqType r q.reqType = textTypes s q := by
  obtain ⟨k, hk⟩ := hq
  unfold specReqType textTypes
  rw [hp.permTypes, hp.restrTypes, hk, and_pow_beq_zero, bitsOf_testBit]
  cases hd : s.docOnly with
  | true =>
    simp only [if_true]
    rw [and_pow_bne, show Facts.TypeDocument = 2 ^ 0 from rfl, Nat.testBit_two_pow, two_pow_beq]
    have : ((2 : Nat) ^ 0 == 0) = false := by decide
    rw [this, Bool.false_or]
    congr 1
    by_cases h : k = 0
    · subst h; simp
    · have : ¬ 0 = k := fun e => h e.symm
      simp [h, this]
  | false =>
    simp only [Bool.false_eq_true, if_false]
    rw [and_pow_bne, bitsOf_testBit, bitsOf_beq_zero]

/-! ### tags -/

theorem any_sortB (l : List Bytes) (p : Bytes → Bool) : (sortB l).any p = l.any p :=
  (E.sortB_perm l).any_eq

theorem isEmpty_sortB (l : List Bytes) : (sortB l).isEmpty = l.isEmpty := (E.sortB_perm l).isEmpty_eq

theorem ctag_eq {ext : Ext} {wl : Bool} {s : ModSpec} {r : NetRule} (hp : ParsedAs ext wl s r) (q : Request) :
    specCTag r q = textCTag s q := by
  unfold specCTag textCTag
  rw [hp.permTags, hp.restrTags, any_sortB, any_sortB, isEmpty_sortB]

/-! ### clients -/

def clientHosts (ext : Ext) (l : List Bytes) : List Bytes := l.flatMap (fun v => (clientDelta ext v).1)
def clientNets (ext : Ext) (l : List Bytes) : List Prefix := l.flatMap (fun v => (clientDelta ext v).2)

theorem foldl_addClient_some (ext : Ext) (l : List Bytes) (c : Clients) :
    l.foldl (addClient ext) (some c) =
      some { hosts := c.hosts ++ clientHosts ext l, nets := c.nets ++ clientNets ext l } := by
  induction l generalizing c with
  | nil => simp [clientHosts, clientNets]
  | cons x l ih =>
    simp only [List.foldl_cons]
    show List.foldl (addClient ext) (some (Clients.add ext c x)) l = _
    rw [ih, Clients.add_eq]
    simp [clientHosts, clientNets, List.flatMap_cons]

theorem clientsOf_cons (ext : Ext) (x : Bytes) (l : List Bytes) :
    clientsOf ext (x :: l) =
      some { hosts := sortB (clientHosts ext (x :: l)), nets := sortPrefixes (clientNets ext (x :: l)) } := by
  unfold clientsOf
  simp only [List.foldl_cons]
  show Clients.finalize (List.foldl (addClient ext) (some (Clients.add ext { hosts := [], nets := [] } x)) l) = _
  rw [foldl_addClient_some, Clients.add_eq]
  simp [Clients.finalize, clientHosts, clientNets, List.flatMap_cons]

theorem clientDelta_net (ext : Ext) (v : Bytes) :
    clientDelta ext v = match clientNet ext v with | some p => ([], [p]) | none => ([v], []) := by
  unfold clientDelta clientNet
  split
  · cases ext.parseAddr v <;> rfl
  · split
    · cases ext.parsePrefix v <;> rfl
    · rfl

theorem clientIn_eq (ext : Ext) (name : Bytes) (ip : Option Addr) (l : List Bytes) :
    ((!name.isEmpty && (clientHosts ext l).contains name) ||
      (match ip with | none => false | some a => (clientNets ext l).any (fun n => n.containsAddr a))) =
    l.any (clientValMatches ext name ip) := by
  induction l with
  | nil => cases ip <;> simp [clientHosts, clientNets]
  | cons v l ih =>
    rw [List.any_cons, ← ih]
    unfold clientHosts clientNets clientValMatches
    rw [List.flatMap_cons, List.flatMap_cons, clientDelta_net]
    cases hn : clientNet ext v with
    | some p =>
      cases ip with
      | none => simp
      | some a =>
        simp only [List.nil_append, List.singleton_append, List.any_cons]
        cases (!name.isEmpty && (List.flatMap (fun v => (clientDelta ext v).fst) l).contains name) <;>
          cases p.containsAddr a <;> simp
    | none =>
      simp only [List.singleton_append, List.nil_append]
      rw [List.contains_cons]
      cases name.isEmpty <;> cases (name == v) <;> simp

theorem specClientIn_clientsOf (ext : Ext) (name : Bytes) (ip : Option Addr) (l : List Bytes) :
    specClientIn (clientsOf ext l) name ip = l.any (clientValMatches ext name ip) := by
  cases l with
  | nil => rfl
  | cons x l =>
    rw [clientsOf_cons, ← clientIn_eq]
    cases ip with
    | none =>
      show (!name.isEmpty && (sortB (clientHosts ext (x :: l))).contains name || false) = _
      rw [(E.sortB_perm _).contains_eq]
    | some a =>
      show (!name.isEmpty && (sortB (clientHosts ext (x :: l))).contains name ||
        (sortPrefixes (clientNets ext (x :: l))).any (fun n => n.containsAddr a)) = _
      rw [(E.sortB_perm _).contains_eq, (sortPrefixes_perm _).any_eq]

theorem clientDelta_len (ext : Ext) (v : Bytes) :
    (clientDelta ext v).1.length + (clientDelta ext v).2.length = 1 := by
  rw [clientDelta_net]
  cases clientNet ext v <;> rfl

theorem clients_len (ext : Ext) (l : List Bytes) :
    (clientHosts ext l).length + (clientNets ext l).length = l.length := by
  induction l with
  | nil => rfl
  | cons v l ih =>
    simp only [clientHosts, clientNets, List.flatMap_cons, List.length_append, List.length_cons] at ih ⊢
    have := clientDelta_len ext v
    omega

theorem len_clientsOf (ext : Ext) (l : List Bytes) : (Clients.len (clientsOf ext l) == 0) = l.isEmpty := by
  cases l with
  | nil => rfl
  | cons x l =>
    rw [clientsOf_cons]
    unfold Clients.len
    simp only
    rw [(E.sortB_perm _).length_eq, (sortPrefixes_perm _).length_eq, clients_len]
    simp

theorem client_eq {ext : Ext} {wl : Bool} {s : ModSpec} {r : NetRule} (hp : ParsedAs ext wl s r) (q : Request) :
    specClient r q = textClient ext s q := by
  unfold specClient textClient
  rw [hp.permClients, hp.restrClients, specClientIn_clientsOf, specClientIn_clientsOf, len_clientsOf]

/-! ### all modifier families -/

theorem mods_eq_text {ext : Ext} {wl : Bool} {s : ModSpec} {r : NetRule} (hp : ParsedAs ext wl s r) (q : Request)
    (hq : ∃ k, q.reqType = 2 ^ k) :
    (specThirdParty r q && specReqType r q.reqType && specDenyallow ext r q && specSourceDomain ext r q &&
      specDnsType r q && specCTag r q && specClient r q) = specModsText ext s q := by
  unfold specModsText
  rw [types_eq hp q hq, ctag_eq hp q, client_eq hp q]
  have h1 : specThirdParty r q = textThirdParty s q := by
    unfold specThirdParty textThirdParty; rw [hp.thirdParty, hp.firstParty]
  have h2 : specDenyallow ext r q = textDenyallow ext s q := by
    unfold specDenyallow textDenyallow; rw [hp.denyallow]
  have h3 : specSourceDomain ext r q = textDomain ext s q := by
    unfold specSourceDomain textDomain; rw [hp.permDomains, hp.restrDomains]
  have h4 : specDnsType r q = textDnsType s q := by
    unfold specDnsType textDnsType; rw [hp.permDns, hp.restrDns]
  rw [h1, h2, h3, h4]

/-! ### the whole reference, pattern included -/

/-- The target the pattern is applied to: the bare hostname for hostname requests unless the pattern (as
    stored: `example.org/*` is `example.org^`) is anchored to a URL or is a `/hostname.` fragment; else the URL. -/
def textTarget (pat : Bytes) (q : Request) : Bytes :=
  specTarget ({ pattern := MaskSpec.normalize pat } : NetRule) q

/-- THE TEXT-LEVEL REFERENCE of C04: every modifier family of the structured modifiers holds and the
    documented mask language of the pattern AS WRITTEN accepts the target (case-sensitively iff `match-case`
    is written).  No parser, no rule record. -/
def specMatchText (ext : Ext) (pat : Bytes) (s : ModSpec) (q : Request) : Bool :=
  specModsText ext s q && MaskSpec.ruleAccepts pat s.matchCase (textTarget pat q)

theorem specTarget_pattern (r : NetRule) (q : Request) :
    specTarget r q = specTarget ({ pattern := r.pattern } : NetRule) q := rfl

/-- The record-level reference without the shortcut, on a rule parsed from a rendered text. -/
theorem noShortcut_eq_text {px : ParseExt} {wl : Bool} {pat : Bytes} {ms : List Mod} {id : Int} {r : NetRule}
    (hp : patOK pat = true) (hm : modsOK ms = true)
    (h : parseNetRule px (render wl pat ms) id = .ok r) (q : Request) (hq : ∃ k, q.reqType = 2 ^ k) :
    specMatchNoShortcut px.ext r q = specMatchText px.ext pat (ModSpec.ofMods ms) q := by
  have hpa := parsedAs_of_parse hp hm h
  obtain ⟨pat', opts, wl', hprt, hpat, _, _⟩ := parseNetRule_pattern h
  rw [parseRuleText_render hp (modsOK_vals hm)] at hprt
  cases hprt
  unfold specMatchNoShortcut specMatchText
  rw [mods_eq_text hpa q hq]
  congr 1
  unfold specPatternMask MaskSpec.ruleAccepts textTarget
  rw [specTarget_pattern r q, hpat, hpa.matchCase]

end UF.L

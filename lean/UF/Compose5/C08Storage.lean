import UF.Compose5.C08Match
import UF.Compose3.WebTop
import UF.Compose3.DnsTop
import UF.Props.C08
import UF.Props.C06
/-
  Integration (group L), C08 part (b): helper lemmas for the engine-level statement
  "adding a rule and its `$badfilter` twin, each on its own line, anywhere in the lists, changes no verdict".

    * `withPair`: the matching lines of the extended storage are, as a set, the matching lines of the base
      storage plus BOTH members of the pair (when `x` matches — then `xb` matches too, part (a)) or neither;
    * `classWeb_withPair` / `classDns_withPair` / `specRewrites_withPair`: the reference verdict (and the
      effective rewrites) of a list with the pair appended is that of the list (model = spec, C06, and the
      model starts with `removeBadfilterRules`, C08);
    * `LineInserted`: one line inserted at an arbitrary position of one list (pieces between newlines), and
      what it does to the line-by-line parsed rules.
-/
namespace UF.L
open UF UF.B UF.Storage UF.Compose UF.Compose3

/-! ### lists with the pair added -/

/-- `l` with the pair appended (or not). -/
def withPair (b : Bool) (x xb : NetRule) (l : List NetRule) : List NetRule := if b then l ++ [x, xb] else l

theorem mem_withPair {b : Bool} {x xb r : NetRule} {l : List NetRule} :
    r ∈ withPair b x xb l ↔ r ∈ l ∨ (b = true ∧ (r = x ∨ r = xb)) := by
  unfold withPair
  cases b <;> simp

/-- Filtering a rule set extended by `x` and `xb` with a test that does not distinguish the two. -/
theorem filter_ins_agree {N N' : List NetRule} {x xb : NetRule}
    (hins : ∀ r, r ∈ N' ↔ r ∈ N ∨ r = x ∨ r = xb) (p : NetRule → Bool) (hp : p xb = p x) :
    ListsAgree (N'.filter p) (withPair (p x) x xb (N.filter p)) := by
  apply listsAgree_of_mem
  intro r
  rw [mem_withPair, List.mem_filter, List.mem_filter, hins r]
  constructor
  · rintro ⟨h | h | h, hpr⟩
    · exact .inl ⟨h, hpr⟩
    · subst h; exact .inr ⟨hpr, .inl rfl⟩
    · subst h; exact .inr ⟨by rw [← hp]; exact hpr, .inr rfl⟩
  · rintro (⟨h, hpr⟩ | ⟨hpx, h | h⟩)
    · exact ⟨.inl h, hpr⟩
    · subst h; exact ⟨.inr (.inl rfl), hpx⟩
    · subst h; exact ⟨.inr (.inr rfl), by rw [hp]; exact hpx⟩

theorem removeBad_withPair (b : Bool) (x xb : NetRule) (l : List NetRule) (hx : x.badfilter = false)
    (hxb : xb.matchFields = x.withBadfilter.matchFields) (hdist : ∀ r ∈ l, r.matchFields ≠ x.matchFields) :
    removeBadfilterRules (withPair b x xb l) = removeBadfilterRules l := by
  cases b
  · rfl
  · have := (C08.c08_twin l [] [] x xb hx hxb (by simpa using hdist)).1
    simpa [withPair] using this

theorem noReplace_withPair {b : Bool} {x xb : NetRule} {l : List NetRule}
    (hl : ∀ r ∈ l, r.isEnabled Facts.OptionReplace = false) (hxr : x.isEnabled Facts.OptionReplace = false)
    (hbr : xb.isEnabled Facts.OptionReplace = false) :
    ∀ r ∈ withPair b x xb l, r.isEnabled Facts.OptionReplace = false := by
  intro r hr
  rcases mem_withPair.1 hr with h | ⟨_, h | h⟩
  · exact hl r h
  · rw [h]; exact hxr
  · rw [h]; exact hbr

/-- The reference class of a web request does not see a twin pair added to the matching rules and/or to the
    rules matching the referrer. -/
theorem classWeb_withPair (b b' : Bool) (x xb : NetRule) (l s : List NetRule) (hx : x.badfilter = false)
    (hxb : xb.matchFields = x.withBadfilter.matchFields)
    (hl : ∀ r ∈ l, r.matchFields ≠ x.matchFields) (hs : ∀ r ∈ s, r.matchFields ≠ x.matchFields)
    (hrep : ∀ r ∈ l, r.isEnabled Facts.OptionReplace = false) (hxr : x.isEnabled Facts.OptionReplace = false)
    (hbr : xb.isEnabled Facts.OptionReplace = false) :
    classWeb (withPair b x xb l) (withPair b' x xb s) = classWeb l s := by
  rw [← C06.c06_web _ _ (noReplace_withPair hrep hxr hbr), ← C06.c06_web l s hrep,
    C08.c08_verdict_web _ _ _ _ (removeBad_withPair b x xb l hx hxb hl) (removeBad_withPair b' x xb s hx hxb hs)]

/-- The same for the reference class of a DNS request. -/
theorem classDns_withPair (b : Bool) (x xb : NetRule) (l : List NetRule) (hx : x.badfilter = false)
    (hxb : xb.matchFields = x.withBadfilter.matchFields)
    (hl : ∀ r ∈ l, r.matchFields ≠ x.matchFields)
    (hrep : ∀ r ∈ l, r.isEnabled Facts.OptionReplace = false) (hxr : x.isEnabled Facts.OptionReplace = false)
    (hbr : xb.isEnabled Facts.OptionReplace = false) :
    classDns (withPair b x xb l) = classDns l := by
  rw [← C06.c06_dns _ (noReplace_withPair hrep hxr hbr), ← C06.c06_dns l hrep,
    C08.c08_verdict_dns _ _ (removeBad_withPair b x xb l hx hxb hl)]

/-- … and for the reference of the effective `$dnsrewrite` rules (C09). -/
theorem specRewrites_withPair (b : Bool) (x xb : NetRule) (l : List NetRule) (hx : x.badfilter = false)
    (hxb : xb.matchFields = x.withBadfilter.matchFields) (hl : ∀ r ∈ l, r.matchFields ≠ x.matchFields) :
    specRewrites (dnsRewritesAll (withPair b x xb l)) = specRewrites (dnsRewritesAll l) := by
  have h1 := C08.c08_rewrites_filtered (withPair b x xb l)
  have h2 := C08.c08_rewrites_filtered l
  rw [removeBad_withPair b x xb l hx hxb hl, ← h2, dnsRewrites_eq_spec, dnsRewrites_eq_spec] at h1
  exact Option.some.inj h1

/-! ### `dnsApplicable` does not read the `$badfilter` bit -/

theorem dnsApplicable_withBadfilter (x : NetRule) : dnsApplicable x.withBadfilter = dnsApplicable x := by
  unfold dnsApplicable NetRule.withBadfilter
  simp only
  have : (x.enabled ||| Facts.OptionBadfilter ||| (Facts.OptionImportant ||| Facts.OptionBadfilter)) =
      (x.enabled ||| (Facts.OptionImportant ||| Facts.OptionBadfilter)) := by
    rw [Nat.or_assoc]
    rfl
  rw [this]

theorem dnsApplicable_matchFields (x y : NetRule) (h : x.matchFields = y.matchFields) :
    dnsApplicable x = dnsApplicable y := by
  obtain ⟨_, _, h3, h4, _, _, _, _, _, _, _, h12, h13, h14, h15, _⟩ := (matchFields_eq_iff x y).1 h
  unfold dnsApplicable
  rw [h3, h4, h12, h13, h14, h15]

theorem dnsApplicable_twin (x xb : NetRule) (hxb : xb.matchFields = x.withBadfilter.matchFields) :
    dnsApplicable xb = dnsApplicable x := by
  rw [dnsApplicable_matchFields xb _ hxb, dnsApplicable_withBadfilter]

/-! ### the rules of the extended storage -/

/-- `x` and `xb` are rules of the extended storage, hence parsed from their texts. -/
theorem ins_parsed {px : E.ParseExt} {lists lists' : List RList} {x xb : NetRule}
    (hins : ∀ r, r ∈ netRulesOf (specRules px lists') ↔ r ∈ netRulesOf (specRules px lists) ∨ r = x ∨ r = xb) :
    x ∈ allNet px lists' ∧ xb ∈ allNet px lists' :=
  ⟨(hins x).2 (.inr (.inl rfl)), (hins xb).2 (.inr (.inr rfl))⟩

/-- A rule and its twin, both rules of one storage, match the same requests. -/
theorem ins_twin_matches {px : E.ParseExt} {lists' : List RList} {x xb : NetRule}
    (hxm : x ∈ allNet px lists') (hbm : xb ∈ allNet px lists')
    (hxb : xb.matchFields = x.withBadfilter.matchFields) (q : Request) :
    xb.matches px.ext q = x.matches px.ext q :=
  parsed_twin_matches (allNet_parse hxm) (allNet_parse hbm) hxb q

/-- The matching lines of the extended storage. -/
theorem matchingLines_ins {px : E.ParseExt} {lists lists' : List RList} {x xb : NetRule}
    (hins : ∀ r, r ∈ netRulesOf (specRules px lists') ↔ r ∈ netRulesOf (specRules px lists) ∨ r = x ∨ r = xb)
    (hxb : xb.matchFields = x.withBadfilter.matchFields) (q : Request) :
    ListsAgree (matchingLines px lists' q) (withPair (x.matches px.ext q) x xb (matchingLines px lists q)) := by
  obtain ⟨hxm, hbm⟩ := ins_parsed hins
  exact filter_ins_agree hins (fun r => r.matches px.ext q) (ins_twin_matches hxm hbm hxb q)

theorem sourceMatchingLines_ins {px : E.ParseExt} {lists lists' : List RList} {x xb : NetRule}
    (hins : ∀ r, r ∈ netRulesOf (specRules px lists') ↔ r ∈ netRulesOf (specRules px lists) ∨ r = x ∨ r = xb)
    (hxb : xb.matchFields = x.withBadfilter.matchFields) (q : Request) :
    ListsAgree (sourceMatchingLines px lists' q)
      (withPair (q.sourceURL != [] && x.matches px.ext (sourceRequestOf px.ext q)) x xb
        (sourceMatchingLines px lists q)) := by
  unfold sourceMatchingLines
  cases hsrc : (q.sourceURL != [])
  · simp only [Bool.false_eq_true, if_false, Bool.false_and]
    exact listsAgree_refl []
  · simp only [if_true, Bool.true_and]
    exact matchingLines_ins hins hxb _

theorem dnsMatchingLines_ins {px : E.ParseExt} {lists lists' : List RList} {x xb : NetRule}
    (hins : ∀ r, r ∈ netRulesOf (specRules px lists') ↔ r ∈ netRulesOf (specRules px lists) ∨ r = x ∨ r = xb)
    (hxb : xb.matchFields = x.withBadfilter.matchFields) (d : DReq) :
    ListsAgree (dnsMatchingLines px lists' d)
      (withPair (dnsApplicable x && x.matches px.ext (dnsRequestOf px.ext default d)) x xb
        (dnsMatchingLines px lists d)) := by
  obtain ⟨hxm, hbm⟩ := ins_parsed hins
  unfold dnsMatchingLines
  exact filter_ins_agree hins (fun r => dnsApplicable r && r.matches px.ext (dnsRequestOf px.ext default d))
    (by rw [dnsApplicable_twin x xb hxb, ins_twin_matches hxm hbm hxb])

theorem matchingLines_sub {px : E.ParseExt} {lists : List RList} {q : Request} {r : NetRule}
    (h : r ∈ matchingLines px lists q) : r ∈ allNet px lists :=
  (List.mem_filter.1 h).1

theorem sourceMatchingLines_sub {px : E.ParseExt} {lists : List RList} {q : Request} {r : NetRule}
    (h : r ∈ sourceMatchingLines px lists q) : r ∈ allNet px lists := by
  unfold sourceMatchingLines at h
  split at h
  · exact matchingLines_sub h
  · cases h

theorem dnsMatchingLines_sub {px : E.ParseExt} {lists : List RList} {d : DReq} {r : NetRule}
    (h : r ∈ dnsMatchingLines px lists d) : r ∈ allNet px lists :=
  (List.mem_filter.1 h).1

/-! ### inserting one line -/

/-- `lists'` is `lists` with the line `t` inserted at an arbitrary position of the list with id `id`: the
    pieces between newlines of that list's content are the old pieces with `t` put between two of them (or
    before the first / after the last); every other list, the id and the `IgnoreCosmetic` flag are unchanged
    (the backing — string or file — may change). -/
def LineInserted (t : Bytes) (id : Int) (lists lists' : List RList) : Prop :=
  ∃ (A B : List RList) (l l' : RList) (p s : List Bytes),
    lists = A ++ l :: B ∧ lists' = A ++ l' :: B ∧ l.id = id ∧ l'.id = id ∧
    l'.ignoreCosmetic = l.ignoreCosmetic ∧
    splitLines l.content = p ++ s ∧ splitLines l'.content = p ++ t :: s

/-- `strings.Split(a + "\n" + b, "\n") = strings.Split(a, "\n") ++ strings.Split(b, "\n")`. -/
theorem splitLines_append_nl (a b : Bytes) : splitLines (a ++ 10 :: b) = splitLines a ++ splitLines b := by
  induction a with
  | nil => rfl
  | cons c r ih =>
    by_cases hc : c = 10
    · subst hc
      simp only [List.cons_append, splitLines, beq_self_eq_true, if_true, ih]
    · have hc' : (c == 10) = false := by simpa using hc
      simp only [List.cons_append, splitLines, hc', Bool.false_eq_true, if_false, ih]
      cases hr : splitLines r with
      | nil => exact absurd hr (splitLines_ne_nil r)
      | cons l ls => rfl

/-- Content surgery, in the middle: `a ⏎ b` becomes `a ⏎ t ⏎ b` (`t` without a newline). -/
theorem lineInserted_middle (A B : List RList) (id : Int) (ic f f' : Bool) (a b t : Bytes) (ht : 10 ∉ t) :
    LineInserted t id (A ++ ⟨id, ic, a ++ 10 :: b, f⟩ :: B) (A ++ ⟨id, ic, a ++ 10 :: (t ++ 10 :: b), f'⟩ :: B) :=
  ⟨A, B, _, _, splitLines a, splitLines b, rfl, rfl, rfl, rfl, rfl, splitLines_append_nl a b, by
    simp only [splitLines_append_nl, splitLines_of_not_mem ht]; rfl⟩

/-- … at the beginning: `b` becomes `t ⏎ b`. -/
theorem lineInserted_front (A B : List RList) (id : Int) (ic f f' : Bool) (b t : Bytes) (ht : 10 ∉ t) :
    LineInserted t id (A ++ ⟨id, ic, b, f⟩ :: B) (A ++ ⟨id, ic, t ++ 10 :: b, f'⟩ :: B) :=
  ⟨A, B, _, _, [], splitLines b, rfl, rfl, rfl, rfl, rfl, rfl, by
    simp only [splitLines_append_nl, splitLines_of_not_mem ht]; rfl⟩

/-- … at the end: `a` becomes `a ⏎ t`. -/
theorem lineInserted_back (A B : List RList) (id : Int) (ic f f' : Bool) (a t : Bytes) (ht : 10 ∉ t) :
    LineInserted t id (A ++ ⟨id, ic, a, f⟩ :: B) (A ++ ⟨id, ic, a ++ 10 :: t, f'⟩ :: B) :=
  ⟨A, B, _, _, splitLines a, [], rfl, rfl, rfl, rfl, rfl, by simp, by
    simp only [splitLines_append_nl, splitLines_of_not_mem ht]⟩

/-- The line-by-line parsed network rules after inserting a line that `NewRule` turns into the network
    rule `x`: the old ones plus `x`. -/
theorem netRules_lineInserted {px : E.ParseExt} {t : Bytes} {id : Int} {lists lists' : List RList} {x : NetRule}
    (h : LineInserted t id lists lists') (hx : E.newRule (realRx px) t id = .ok (some (.net x))) :
    ∀ r, r ∈ netRulesOf (specRules px lists') ↔ r ∈ netRulesOf (specRules px lists) ∨ r = x := by
  obtain ⟨A, B, l, l', p, s, rfl, rfl, hid, hid', hic, hp, hp'⟩ := h
  intro r
  rw [mem_netRulesOf, mem_netRulesOf, mem_specRules, mem_specRules]
  constructor
  · rintro ⟨l0, hl0, piece, hpiece, hn, _⟩
    rcases List.mem_append.1 hl0 with hA | hB
    · exact .inl ⟨l0, List.mem_append_left _ hA, piece, hpiece, hn, by simp [isCos]⟩
    · rcases List.mem_cons.1 hB with rfl | hB
      · rw [hp'] at hpiece
        rcases List.mem_append.1 hpiece with h1 | h1
        · exact .inl ⟨l, by simp, piece, by rw [hp]; exact List.mem_append_left _ h1,
            by rw [hid, ← hid']; exact hn, by simp [isCos]⟩
        · rcases List.mem_cons.1 h1 with rfl | h1
          · rw [hid', hx] at hn
            right
            injection hn with hn
            injection hn with hn
            injection hn with hn
            exact hn.symm
          · exact .inl ⟨l, by simp, piece, by rw [hp]; exact List.mem_append_right _ h1,
              by rw [hid, ← hid']; exact hn, by simp [isCos]⟩
      · exact .inl ⟨l0, List.mem_append_right _ (List.mem_cons_of_mem _ hB), piece, hpiece, hn, by simp [isCos]⟩
  · rintro (⟨l0, hl0, piece, hpiece, hn, _⟩ | rfl)
    · rcases List.mem_append.1 hl0 with hA | hB
      · exact ⟨l0, List.mem_append_left _ hA, piece, hpiece, hn, by simp [isCos]⟩
      · rcases List.mem_cons.1 hB with rfl | hB
        · refine ⟨l', by simp, piece, ?_, by rw [hid', ← hid]; exact hn, by simp [isCos]⟩
          rw [hp] at hpiece
          rw [hp']
          rcases List.mem_append.1 hpiece with h1 | h1
          · exact List.mem_append_left _ h1
          · exact List.mem_append_right _ (List.mem_cons_of_mem _ h1)
        · exact ⟨l0, List.mem_append_right _ (List.mem_cons_of_mem _ hB), piece, hpiece, hn, by simp [isCos]⟩
    · exact ⟨l', by simp, t, by rw [hp']; simp, by rw [hid']; exact hx, by simp [isCos]⟩

/-- Two insertions, one after the other (the second one sees the first line, so every relative position of the
    two lines — same list or different lists, either order — is covered). -/
theorem netRules_twoLinesInserted {px : E.ParseExt} {tx tb : Bytes} {i j : Int} {lists lists1 lists' : List RList}
    {x xb : NetRule} (h1 : LineInserted tx i lists lists1) (h2 : LineInserted tb j lists1 lists')
    (hx : E.newRule (realRx px) tx i = .ok (some (.net x)))
    (hb : E.newRule (realRx px) tb j = .ok (some (.net xb))) :
    ∀ r, r ∈ netRulesOf (specRules px lists') ↔ r ∈ netRulesOf (specRules px lists) ∨ r = x ∨ r = xb := by
  intro r
  rw [netRules_lineInserted h2 hb r, netRules_lineInserted h1 hx r, or_assoc]

end UF.L

import UF.Compose5.GrammarX
/-
  Group P1 (review 2, F7): the PRIORITY KEY OF A RULE TEXT, computed from the modifiers as written.

  `IsHigherPriority` reads a rule only through `pkey` (class, `$redirect`, domain-specific, number of
  modifiers: UF/Spec/Priority.lean).  For a parsed rendered text every field `pkey` reads is determined by a
  small state `PState` that the option loop updates modifier by modifier (`stepP`, purely syntactic: no
  oracle, no parser), followed by the document-only override: `textKey wl xs`.  `pkey_parseX`:
  `pkey (NewNetworkRule(renderX wl pat xs)) = textKey wl xs`.
-/
namespace UF.L
open UF UF.E Bytes UF.Compose3

/-- What the priority order reads of the state of the option loop. -/
structure PState where
  enabled : Nat := 0
  disabled : Nat := 0
  permTypes : Nat := 0
  restrTypes : Nat := 0
  /-- some permitted `$domain` value is stored (the rule is not generic) -/
  specific : Bool := false
  /-- `$domain` / `$dnstype` / `$ctag` / `$client` / `$denyallow` is counted -/
  dom : Bool := false
  dns : Bool := false
  tag : Bool := false
  cli : Bool := false
  deny : Bool := false
  deriving DecidableEq, Repr, Inhabited

def pstate (r : NetRule) : PState where
  enabled := r.enabled
  disabled := r.disabled
  permTypes := r.permTypes
  restrTypes := r.restrTypes
  specific := !r.permDomains.isEmpty
  dom := r.permDomains.length != 0 || r.restrDomains.length != 0
  dns := r.permDns.length != 0 || r.restrDns.length != 0
  tag := r.permTags.length != 0 || r.restrTags.length != 0
  cli := Clients.len r.permClients != 0 || Clients.len r.restrClients != 0
  deny := r.denyallow.length != 0

/-- One modifier, on the state. -/
def stepP (s : PState) (x : XMod) : PState :=
  match x with
  | .notExtension => { s with enabled := s.enabled ^^^ Facts.OptionExtension }
  | .base (.opt o) => { s with enabled := s.enabled ||| o.bit }
  | .base (.thirdParty _) => { s with enabled := s.enabled ||| Facts.OptionThirdParty }
  | .base (.firstParty _) => { s with disabled := s.disabled ||| Facts.OptionThirdParty }
  | .base .notMatchCase => { s with disabled := s.disabled ||| Facts.OptionMatchCase }
  | .base .document => { s with enabled := s.enabled ||| docBits }
  | .base (.ctype false c) => { s with permTypes := s.permTypes ||| c.bit }
  | .base (.ctype true c) => { s with restrTypes := s.restrTypes ||| c.bit }
  | .base (.domain vs) =>
    { s with specific := !(posVals vs).isEmpty, dom := (posVals vs).length != 0 || (negVals vs).length != 0 }
  | .base (.denyallow vs) => { s with deny := vs.length != 0 }
  | .base (.dnstype vs) =>
    { s with dns := ((posVals vs).filterMap dnsTypeNumber).length != 0 ||
                    ((negVals vs).filterMap dnsTypeNumber).length != 0 }
  | .base (.ctag vs) => { s with tag := (posVals vs).length != 0 || (negVals vs).length != 0 }
  | .base (.client vs) => { s with cli := (posVals vs).length != 0 || (negVals vs).length != 0 }

theorem sortB_length (l : List Bytes) : (sortB l).length = l.length := (E.sortB_perm l).length_eq

theorem pstate_applyX (ext : Ext) (r : NetRule) (x : XMod) : pstate (applyX ext r x) = stepP (pstate r) x := by
  cases x with
  | notExtension => rfl
  | base m =>
    cases m with
    | ctype neg c => cases neg <;> rfl
    | ctag vs =>
      show pstate { r with permTags := sortB (posVals vs), restrTags := sortB (negVals vs) } = _
      unfold pstate stepP
      simp only [sortB_length]
    | client vs =>
      show pstate { r with permClients := clientsOf ext (posVals vs), restrClients := clientsOf ext (negVals vs) } = _
      unfold pstate stepP
      simp only [clientsOf_len]
    | _ => rfl

theorem pstate_foldl (ext : Ext) (xs : List XMod) (r : NetRule) :
    pstate (xs.foldl (applyX ext) r) = xs.foldl stepP (pstate r) := by
  induction xs generalizing r with
  | nil => rfl
  | cons x xs ih => rw [List.foldl_cons, List.foldl_cons, ih, pstate_applyX]

/-- The permitted content types the order counts: `document` alone once a document-only option is on. -/
def PState.effTypes (s : PState) : Nat := if docOnlyB s.enabled then Facts.TypeDocument else s.permTypes

/-- The number of modifiers `IsHigherPriority` counts, from the state. -/
def PState.count (s : PState) : Nat :=
  popCount s.enabled + popCount s.disabled + popCount s.effTypes + popCount s.restrTypes
  + (if s.dom then 1 else 0) + (if s.dns then 1 else 0) + (if s.tag then 1 else 0)
  + (if s.cli then 1 else 0) + (if s.deny then 1 else 0)

/-- The key of a rule with exception flag `wl` whose option loop ended in state `s`. -/
def keyP (wl : Bool) (s : PState) : PKey :=
  let important := (s.enabled &&& Facts.OptionImportant) == Facts.OptionImportant
  { cls := if wl && important then 3 else if important then 2 else if wl then 1 else 0,
    redirect := if (s.enabled &&& Facts.OptionRedirect) == Facts.OptionRedirect then 1 else 0,
    specific := if s.specific then 1 else 0,
    count := s.count }

theorem pkey_overrideDoc (R : NetRule) : pkey (overrideDoc R) = keyP R.whitelist (pstate R) := by
  rw [overrideDoc_eq]
  unfold pkey keyP classRank modifierCount PState.count PState.effTypes pstate NetRule.redirect NetRule.important
    NetRule.isEnabled NetRule.isGeneric
  simp only
  cases R.permDomains.isEmpty <;> rfl

/-- THE KEY OF A RULE TEXT: exception flag and modifiers as written. -/
def textKey (wl : Bool) (xs : List XMod) : PKey := keyP wl (xs.foldl stepP {})

theorem pkey_modFields (r : NetRule) : pkey r = pkey (modFields r) := rfl

/-- The key of the rule `NewNetworkRule` builds from a rendered text is the key of the text. -/
theorem pkey_parseX {px : ParseExt} {wl : Bool} {pat : Bytes} {xs : List XMod} {id : Int} {r : NetRule}
    (hp : patOK pat = true) (hm : ∀ x ∈ xs, x.valsOK = true)
    (h : parseNetRule px (renderX wl pat xs) id = .ok r) : pkey r = textKey wl xs := by
  rw [pkey_modFields, parseX_modFields hp hm h, pkey_overrideDoc, loopRec_whitelist]
  unfold loopRec textKey
  rw [pstate_foldl]
  rfl

/-! ### states that differ in `specific` only -/

def XMod.isDomain : XMod → Bool
  | .base (.domain _) => true
  | _ => false

theorem stepP_specific_dom (s : PState) (b : Bool) (x : XMod) (hx : x.isDomain = true) :
    stepP { s with specific := b } x = stepP s x := by
  cases x with
  | notExtension => cases hx
  | base m =>
    cases m with
    | domain vs => rfl
    | ctype neg c => cases hx
    | _ => cases hx

theorem stepP_specific_other (s : PState) (b : Bool) (x : XMod) (hx : x.isDomain = false) :
    stepP { s with specific := b } x = { stepP s x with specific := b } := by
  cases x with
  | notExtension => rfl
  | base m =>
    cases m with
    | domain vs => cases hx
    | ctype neg c => cases neg <;> rfl
    | _ => rfl

/-- Without a later `$domain` the difference persists … -/
theorem foldl_stepP_specific_other (xs : List XMod) (s : PState) (b : Bool) (h : xs.any XMod.isDomain = false) :
    xs.foldl stepP { s with specific := b } = { xs.foldl stepP s with specific := b } := by
  induction xs generalizing s with
  | nil => rfl
  | cons x xs ih =>
    simp only [List.any_cons, Bool.or_eq_false_iff] at h
    simp only [List.foldl_cons]
    rw [stepP_specific_other s b x h.1]
    exact ih (stepP s x) h.2

/-- … and a later `$domain` erases it. -/
theorem foldl_stepP_specific_dom (xs : List XMod) (s : PState) (b : Bool) (h : xs.any XMod.isDomain = true) :
    xs.foldl stepP { s with specific := b } = xs.foldl stepP s := by
  induction xs generalizing s with
  | nil => cases h
  | cons x xs ih =>
    simp only [List.foldl_cons]
    cases hx : x.isDomain with
    | true => rw [stepP_specific_dom s b x hx]
    | false =>
      rw [stepP_specific_other s b x hx]
      simp only [List.any_cons, hx, Bool.false_or] at h
      exact ih (stepP s x) h

theorem posNeg_ne_zero {α} (vs : List (Bool × α)) (h : vs ≠ []) :
    ((posVals vs).length != 0 || (negVals vs).length != 0) = true := by
  have := pos_neg_length vs
  have hl : vs.length ≠ 0 := fun h0 => h (List.eq_nil_of_length_eq_zero h0)
  by_cases hp : (posVals vs).length = 0
  · have : (negVals vs).length ≠ 0 := by omega
    simp [this]
  · simp [hp]

end UF.L

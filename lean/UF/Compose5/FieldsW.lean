import UF.Compose5.EffectW
import UF.Compose5.Fields
/-
  Group P2 (REVIEW2 F11, widening), part 3: the grammar-level lemma `ParsedAs` for the WIDER grammar — every
  modifier field of a rule parsed from a rendered wide text, as a function of `ModSpec.ofModsW ms`.

  The fold of `applyModW` differs from the fold of `applyMod` over the narrow counterpart only in the `enabled`
  bits (`~extension` toggles bit 10); bits 0‥3 (third-party, match-case, important, badfilter) and the seven other
  document-only bits are the OR of what each modifier contributes, bit 10 follows the left-to-right reading
  `extensionOn`.
-/
namespace UF.L
open UF UF.E Bytes UF.Compose3

/-! ### the `enabled` bits of the wide fold -/

def enStepW (a : Nat) : ModW → Nat
  | .base m => a ||| enBits m
  | .clientQ _ => a
  | .notExtension => a ^^^ Facts.OptionExtension

def enW (ms : List ModW) (a : Nat) : Nat := ms.foldl enStepW a

theorem applyMod_setEnabled (ext : Ext) (r : NetRule) (e : Nat) (m : Mod) :
    applyMod ext { r with enabled := e } m = { applyMod ext r m with enabled := e ||| enBits m } := by
  cases m with
  | ctype neg c => cases neg <;> simp [applyMod, enBits]
  | _ => simp [applyMod, enBits]

theorem foldl_applyMod_setEnabled (ext : Ext) (ms : List Mod) (r : NetRule) (e : Nat) :
    ms.foldl (applyMod ext) { r with enabled := e } =
      { ms.foldl (applyMod ext) r with enabled := ms.foldl (fun a m => a ||| enBits m) e } := by
  induction ms generalizing r e with
  | nil => rfl
  | cons m ms ih =>
    simp only [List.foldl_cons]
    rw [applyMod_setEnabled, ih]

/-- The wide fold is the narrow fold, except for the `enabled` bits. -/
theorem foldl_applyModW (ext : Ext) (ms : List ModW) (r : NetRule) :
    ms.foldl (applyModW ext) r = { (narrow ms).foldl (applyMod ext) r with enabled := enW ms r.enabled } := by
  induction ms generalizing r with
  | nil => rfl
  | cons m ms ih =>
    simp only [List.foldl_cons]
    rw [ih]
    cases m with
    | base m =>
      show _ = { (m :: narrow ms).foldl (applyMod ext) r with enabled := enW ms (r.enabled ||| enBits m) }
      rw [show applyModW ext r (.base m) = applyMod ext r m from rfl, applyMod_enabled]
      rfl
    | clientQ vs =>
      show _ = { (Mod.client _ :: narrow ms).foldl (applyMod ext) r with enabled := enW ms r.enabled }
      rw [show applyModW ext r (.clientQ vs) = applyMod ext r (.client (vs.map (fun v => (v.1, v.2.value)))) from rfl,
        applyMod_enabled]
      show _ = { (narrow ms).foldl (applyMod ext) (applyMod ext r (.client _)) with enabled := enW ms r.enabled }
      simp [enBits]
    | notExtension =>
      show _ = { (narrow ms).foldl (applyMod ext) r with enabled := enW ms (r.enabled ^^^ Facts.OptionExtension) }
      rw [show applyModW ext r .notExtension = { r with enabled := r.enabled ^^^ Facts.OptionExtension } from rfl,
        foldl_applyMod_setEnabled]

theorem ext_testBit (k : Nat) : Facts.OptionExtension.testBit k = decide (k = 10) := by
  rw [show Facts.OptionExtension = 2 ^ 10 from rfl, Nat.testBit_two_pow]
  by_cases h : k = 10
  · subst h; rfl
  · have : ¬ 10 = k := fun e => h e.symm
    simp [h, this]

/-- Bits other than bit 10: the OR of what the narrow counterparts contribute. -/
theorem enW_testBit (k : Nat) (hk : k ≠ 10) (ms : List ModW) (a : Nat) :
    (enW ms a).testBit k = ((narrow ms).foldl (fun a m => a ||| enBits m) a).testBit k := by
  induction ms generalizing a with
  | nil => rfl
  | cons m ms ih =>
    unfold enW at ih ⊢
    simp only [List.foldl_cons]
    rw [ih]
    cases m with
    | base m => rfl
    | clientQ vs =>
      show ((narrow ms).foldl (fun a m => a ||| enBits m) a).testBit k =
        ((narrow ms).foldl (fun a m => a ||| enBits m) (a ||| 0)).testBit k
      rw [Nat.or_zero]
    | notExtension =>
      show ((narrow ms).foldl (fun a m => a ||| enBits m) (a ^^^ Facts.OptionExtension)).testBit k =
        ((narrow ms).foldl (fun a m => a ||| enBits m) a).testBit k
      rw [foldl_or_testBit, foldl_or_testBit, Nat.testBit_xor, ext_testBit]
      simp [hk]

/-- Bit 10: the left-to-right reading. -/
theorem enW_bit10 (ms : List ModW) (a : Nat) : (enW ms a).testBit 10 = ms.foldl extStep (a.testBit 10) := by
  induction ms generalizing a with
  | nil => rfl
  | cons m ms ih =>
    unfold enW at ih ⊢
    simp only [List.foldl_cons]
    rw [ih]
    congr 1
    cases m with
    | base m =>
      show (a ||| enBits m).testBit 10 = extStep (a.testBit 10) (.base m)
      rw [Nat.testBit_or]
      cases m with
      | opt o => cases o <;> cases a.testBit 10 <;> decide
      | thirdParty alt => cases alt <;> cases a.testBit 10 <;> decide
      | document => cases a.testBit 10 <;> decide
      | ctype neg c => cases a.testBit 10 <;> simp [enBits, extStep]
      | _ => cases a.testBit 10 <;> simp [enBits, extStep]
    | clientQ vs => rfl
    | notExtension =>
      show (a ^^^ Facts.OptionExtension).testBit 10 = !a.testBit 10
      rw [Nat.testBit_xor, ext_testBit]
      cases a.testBit 10 <;> rfl

/-- The seven document-only bits other than `extension`. -/
def otherDocBits (n : Nat) : Bool :=
  n.testBit 7 || n.testBit 4 || n.testBit 9 || n.testBit 8 || n.testBit 6 || n.testBit 5 || n.testBit 14

theorem docOnlyB_split (n : Nat) : docOnlyB n = (otherDocBits n || n.testBit 10) := by
  rw [docOnlyB_bits]
  unfold otherDocBits
  cases n.testBit 7 <;> cases n.testBit 4 <;> cases n.testBit 9 <;> cases n.testBit 8 <;> cases n.testBit 6 <;>
    cases n.testBit 5 <;> cases n.testBit 10 <;> cases n.testBit 14 <;> rfl

theorem otherDocBits_enBits (m : Mod) : otherDocBits (enBits m) = (ModW.base m).isDocOnlyOther := by
  cases m with
  | opt o => cases o <;> decide
  | thirdParty alt => cases alt <;> decide
  | firstParty alt => cases alt <;> decide
  | ctype neg c => cases neg <;> cases c <;> decide
  | notMatchCase => decide
  | document => decide
  | domain vs => show otherDocBits 0 = false; decide
  | denyallow vs => show otherDocBits 0 = false; decide
  | dnstype vs => show otherDocBits 0 = false; decide
  | ctag vs => show otherDocBits 0 = false; decide
  | client vs => show otherDocBits 0 = false; decide

theorem otherDocBits_enW (ms : List ModW) (a : Nat) :
    otherDocBits (enW ms a) = (otherDocBits a || ms.any ModW.isDocOnlyOther) := by
  induction ms generalizing a with
  | nil => simp [enW]
  | cons m ms ih =>
    unfold enW at ih ⊢
    simp only [List.foldl_cons, List.any_cons]
    rw [ih]
    cases m with
    | base m =>
      show (otherDocBits (a ||| enBits m) || _) = _
      rw [← otherDocBits_enBits]
      unfold otherDocBits
      simp only [Nat.testBit_or]
      generalize ms.any ModW.isDocOnlyOther = z
      cases a.testBit 7 <;> cases a.testBit 4 <;> cases a.testBit 9 <;> cases a.testBit 8 <;> cases a.testBit 6 <;>
        cases a.testBit 5 <;> cases a.testBit 14 <;> simp
    | clientQ vs => rfl
    | notExtension =>
      show (otherDocBits (a ^^^ Facts.OptionExtension) || _) = _
      have : otherDocBits (a ^^^ Facts.OptionExtension) = otherDocBits a := by
        unfold otherDocBits
        simp only [Nat.testBit_xor, ext_testBit]
        simp
      rw [this]
      rfl

theorem docOnlyB_enW (ms : List ModW) :
    docOnlyB (enW ms 0) = (ms.any ModW.isDocOnlyOther || extensionOn ms) := by
  rw [docOnlyB_split, otherDocBits_enW, enW_bit10]
  rfl

/-! ### the parsed record -/

theorem onceOK_parts {ms : List Mod} (h : onceOK ms = true) :
    atMostOne Mod.isDomain ms = true ∧ atMostOne Mod.isDenyallow ms = true ∧ atMostOne Mod.isDnstype ms = true ∧
      atMostOne Mod.isCtag ms = true ∧ atMostOne Mod.isClient ms = true := by
  unfold onceOK at h
  simp only [Bool.and_eq_true] at h
  exact ⟨h.1.1.1.1, h.1.1.1.2, h.1.1.2, h.1.2, h.2⟩

local macro "wtac3" : tactic => `(tactic| (intro r m hm; cases m with
  | ctype neg c => cases neg <;> first | rfl | cases hm
  | _ => first | rfl | cases hm))
local macro "wtac2" : tactic => `(tactic| (intro m hm; cases m with
  | ctype neg c => cases neg <;> first | rfl | cases hm
  | _ => first | rfl | cases hm))

/-- The core of the grammar-level lemma, stated on the FOLD: the record obtained from the fold of `applyMod` over
    `ms` by replacing the `enabled` bits with `E` (whose bits 0‥3 are those of the fold) and applying the
    document-only override stores what `ModSpec.ofMods ms` says, with "document-only" = `docOnlyB E`. -/
theorem parsedAs_core {ext : Ext} {wl : Bool} {t pat : Bytes} {id : Int} {ms : List Mod} {E : Nat} {r : NetRule}
    (honce : onceOK ms = true)
    (hr : r = { overrideDoc { ms.foldl (applyMod ext) (initRule t wl id pat) with enabled := E } with
                pattern := r.pattern, shortcut := r.shortcut })
    (hbits : ∀ k, k ≤ 3 → E.testBit k = (ms.foldl (fun a m => a ||| enBits m) 0).testBit k) :
    ParsedAs ext wl { ModSpec.ofMods ms with docOnly := docOnlyB E } r := by
  generalize hr0 : initRule t wl id pat = r0 at hr
  have i_dis : r0.disabled = 0 := by rw [← hr0]; rfl
  have i_pt : r0.permTypes = 0 := by rw [← hr0]; rfl
  have i_rt : r0.restrTypes = 0 := by rw [← hr0]; rfl
  rw [overrideDoc_eq] at hr
  generalize hr2 : ms.foldl (applyMod ext) r0 = r2 at hr
  obtain ⟨o1, o2, o3, o4, o5⟩ := onceOK_parts honce
  have e_dis : r2.disabled = ms.foldl (fun a m => a ||| disBits m) 0 := by
    rw [← hr2, foldl_or ext NetRule.disabled disBits (applyMod_disabled ext), i_dis]
  have e_pt : r2.permTypes = bitsOf (ms.filterMap Mod.permType) := by
    rw [← hr2, foldl_or ext NetRule.permTypes permBits (applyMod_permTypes ext), i_pt]
    exact foldl_or_filterMap permBits Mod.permType (fun m => by
      cases m with
      | ctype neg c => cases neg <;> rfl
      | _ => rfl) ms 0
  have e_rt : r2.restrTypes = bitsOf (ms.filterMap Mod.restrType) := by
    rw [← hr2, foldl_or ext NetRule.restrTypes restrBits (applyMod_restrTypes ext), i_rt]
    exact foldl_or_filterMap restrBits Mod.restrType (fun m => by
      cases m with
      | ctype neg c => cases neg <;> rfl
      | _ => rfl) ms 0
  have bit : ∀ k, k ≤ 3 → E.testBit k = ms.any (fun m => (enBits m).testBit k) := by
    intro k hk
    rw [hbits k hk, foldl_or_testBit, Nat.zero_testBit, Bool.false_or]
  have hwl : r2.whitelist = wl := by
    rw [← hr2]
    have : ∀ (l : List Mod) (x : NetRule), (l.foldl (applyMod ext) x).whitelist = x.whitelist := by
      intro l
      induction l with
      | nil => intro x; rfl
      | cons m l ih => intro x; rw [List.foldl_cons, ih, applyMod_whitelist]
    rw [this, ← hr0]; rfl
  have hrw : r2.rewrite = none := by
    rw [← hr2]
    have : ∀ (l : List Mod) (x : NetRule), (l.foldl (applyMod ext) x).rewrite = x.rewrite := by
      intro l
      induction l with
      | nil => intro x; rfl
      | cons m l ih => intro x; rw [List.foldl_cons, ih, applyMod_rewrite]
    rw [this, ← hr0]; rfl
  have w_pd : r2.permDomains = (ModSpec.ofMods ms).permDomains := by
    rw [← hr2]
    exact foldl_written ext NetRule.permDomains Mod.isDomain (fun m => posVals m.domainVals) (fun x => x)
      (by wtac3) (by wtac3) (by wtac2) ms r0 o1 (by rw [← hr0]; rfl)
  have w_rd : r2.restrDomains = (ModSpec.ofMods ms).restrDomains := by
    rw [← hr2]
    exact foldl_written ext NetRule.restrDomains Mod.isDomain (fun m => negVals m.domainVals) (fun x => x)
      (by wtac3) (by wtac3) (by wtac2) ms r0 o1 (by rw [← hr0]; rfl)
  have w_da : r2.denyallow = (ModSpec.ofMods ms).denyallow := by
    rw [← hr2]
    exact foldl_written ext NetRule.denyallow Mod.isDenyallow Mod.denyallowVals (fun x => x)
      (by wtac3) (by wtac3) (by wtac2) ms r0 o2 (by rw [← hr0]; rfl)
  have w_pn : r2.permDns = (ModSpec.ofMods ms).permDns := by
    rw [← hr2]
    exact foldl_written ext NetRule.permDns Mod.isDnstype
      (fun m => (posVals m.dnstypeVals).filterMap dnsTypeNumber) (fun x => x)
      (by wtac3) (by wtac3) (by wtac2) ms r0 o3 (by rw [← hr0]; rfl)
  have w_rn : r2.restrDns = (ModSpec.ofMods ms).restrDns := by
    rw [← hr2]
    exact foldl_written ext NetRule.restrDns Mod.isDnstype
      (fun m => (negVals m.dnstypeVals).filterMap dnsTypeNumber) (fun x => x)
      (by wtac3) (by wtac3) (by wtac2) ms r0 o3 (by rw [← hr0]; rfl)
  have w_pt : r2.permTags = sortB (ModSpec.ofMods ms).permTags := by
    rw [← hr2]
    exact foldl_written ext NetRule.permTags Mod.isCtag (fun m => posVals m.ctagVals) sortB
      (by wtac3) (by wtac3) (by wtac2) ms r0 o4 (by rw [← hr0]; rfl)
  have w_rt : r2.restrTags = sortB (ModSpec.ofMods ms).restrTags := by
    rw [← hr2]
    exact foldl_written ext NetRule.restrTags Mod.isCtag (fun m => negVals m.ctagVals) sortB
      (by wtac3) (by wtac3) (by wtac2) ms r0 o4 (by rw [← hr0]; rfl)
  have w_pc : r2.permClients = clientsOf ext (ModSpec.ofMods ms).permClients := by
    rw [← hr2]
    exact foldl_written ext NetRule.permClients Mod.isClient (fun m => posVals m.clientVals) (clientsOf ext)
      (by wtac3) (by wtac3) (by wtac2) ms r0 o5 (by rw [← hr0]; rfl)
  have w_rc : r2.restrClients = clientsOf ext (ModSpec.ofMods ms).restrClients := by
    rw [← hr2]
    exact foldl_written ext NetRule.restrClients Mod.isClient (fun m => negVals m.clientVals) (clientsOf ext)
      (by wtac3) (by wtac3) (by wtac2) ms r0 o5 (by rw [← hr0]; rfl)
  have f_en : r.enabled = E := by
    have := congrArg NetRule.enabled hr
    exact this
  have f_dis : r.disabled = r2.disabled := by
    have := congrArg NetRule.disabled hr
    exact this
  exact {
    whitelist := (congrArg NetRule.whitelist hr).trans hwl
    thirdParty := by
      rw [show r.isEnabled Facts.OptionThirdParty = r.enabled.testBit 0 from and_two_pow_beq r.enabled 0, f_en,
        bit 0 (by decide), enBits_tp]; rfl
    firstParty := by
      rw [show r.isDisabled Facts.OptionThirdParty = r.disabled.testBit 0 from and_two_pow_beq r.disabled 0, f_dis,
        e_dis, foldl_or_testBit, Nat.zero_testBit, Bool.false_or, disBits_fp]; rfl
    matchCase := by
      rw [show r.isEnabled Facts.OptionMatchCase = r.enabled.testBit 1 from and_two_pow_beq r.enabled 1, f_en,
        bit 1 (by decide), enBits_opt .matchCase 1 rfl (.inl rfl)]; rfl
    important := by
      rw [show r.isEnabled Facts.OptionImportant = r.enabled.testBit 2 from and_two_pow_beq r.enabled 2, f_en,
        bit 2 (by decide), enBits_opt .important 2 rfl (.inr (.inl rfl))]; rfl
    badfilter := by
      rw [show r.isEnabled Facts.OptionBadfilter = r.enabled.testBit 3 from and_two_pow_beq r.enabled 3, f_en,
        bit 3 (by decide), enBits_opt .badfilter 3 rfl (.inr (.inr rfl))]; rfl
    docOnly := by rw [f_en]
    permTypes := by
      have : r.permTypes = if docOnlyB E then Facts.TypeDocument else r2.permTypes := by
        have := congrArg NetRule.permTypes hr
        exact this
      rw [this, e_pt]; rfl
    restrTypes := (congrArg NetRule.restrTypes hr).trans e_rt
    permDomains := (congrArg NetRule.permDomains hr).trans w_pd
    restrDomains := (congrArg NetRule.restrDomains hr).trans w_rd
    denyallow := (congrArg NetRule.denyallow hr).trans w_da
    permDns := (congrArg NetRule.permDns hr).trans w_pn
    restrDns := (congrArg NetRule.restrDns hr).trans w_rn
    permTags := (congrArg NetRule.permTags hr).trans w_pt
    restrTags := (congrArg NetRule.restrTags hr).trans w_rt
    permClients := (congrArg NetRule.permClients hr).trans w_pc
    restrClients := (congrArg NetRule.restrClients hr).trans w_rc
    rewrite := (congrArg NetRule.rewrite hr).trans hrw }

theorem modsOKW_vals {ms : List ModW} (h : modsOKW ms = true) : ∀ m ∈ ms, m.valsOK = true := by
  unfold modsOKW at h
  simp only [Bool.and_eq_true, List.all_eq_true] at h
  exact h.1

/-- THE GRAMMAR-LEVEL LEMMA OF THE WIDER GRAMMAR: a rule text rendered from structured wide modifiers, if the
    parser model accepts it, is stored as the meaning `ModSpec.ofModsW ms` says. -/
theorem parsedAs_of_parseW {px : ParseExt} {wl : Bool} {pat : Bytes} {ms : List ModW} {id : Int} {r : NetRule}
    (hp : patOKW pat = true) (hs : slashOK pat ms = true) (hm : modsOKW ms = true)
    (h : parseNetRule px (renderW wl pat ms) id = .ok r) :
    ParsedAs px.ext wl (ModSpec.ofModsW ms) r := by
  have hr := parse_renderW hp hs (modsOKW_vals hm) h
  rw [foldl_applyModW] at hr
  have honce : onceOK (narrow ms) = true := by
    unfold modsOKW at hm
    simp only [Bool.and_eq_true] at hm
    exact hm.2
  have := parsedAs_core (ext := px.ext) (E := enW ms 0) honce hr (fun k hk => by
    rw [enW_testBit k (by omega) ms 0])
  rw [docOnlyB_enW] at this
  exact this

end UF.L

import UF.Model.Parse
import UF.Proofs.ParsePerm
/-
  Integration (group L): `splitWithEscapeCharacter` on a separator-joined list of "clean" items (non-empty, without
  the separator and without the escape character) gives the items back.  Used for the `,`-joined modifier list
  of a rule and for the `|`-joined `$client` values.

  The Go loop is index-based (`str[i]`, checked in the model); it is first shown to be a structural loop over
  the remaining bytes.
-/
namespace UF.L
open UF UF.E Bytes

/-- The loop of `splitWithEscapeCharacter` as a structural recursion over the bytes still to read. -/
def splitL (sep esc : UInt8) (preserveAll : Bool) : Bytes → Bytes → Bool → List Bytes → Bytes × List Bytes
  | [], sb, _, parts => (sb, parts)
  | c :: rest, sb, escaped, parts =>
    if c == esc then splitL sep esc preserveAll rest sb true parts
    else if c == sep then
      if escaped then splitL sep esc preserveAll rest (sb ++ [c]) false parts
      else if preserveAll || sb.length > 0 then splitL sep esc preserveAll rest [] escaped (parts ++ [sb])
      else splitL sep esc preserveAll rest sb escaped parts
    else
      splitL sep esc preserveAll rest ((if escaped then sb ++ [esc] else sb) ++ [c]) false parts

theorem splitEscLoop_eq (sep esc : UInt8) (pa : Bool) (rest : Bytes) :
    ∀ (str pre : Bytes) (fuel : Nat) (sb : Bytes) (escaped : Bool) (parts : List Bytes),
      str = pre ++ rest → rest.length ≤ fuel →
      splitEscLoop str sep esc pa fuel pre.length sb escaped parts = .ok (splitL sep esc pa rest sb escaped parts) := by
  induction rest with
  | nil =>
    intro str pre fuel sb escaped parts hstr _
    cases fuel with
    | zero => rfl
    | succ fuel =>
      unfold splitEscLoop
      rw [if_pos (by rw [hstr]; simp)]
      rfl
  | cons c rest ih =>
    intro str pre fuel sb escaped parts hstr hfuel
    cases fuel with
    | zero => simp at hfuel
    | succ fuel =>
      have hstr' : str = (pre ++ [c]) ++ rest := by rw [hstr]; simp
      have hlen : (pre ++ [c]).length = pre.length + 1 := by simp
      have hf : rest.length ≤ fuel := by simpa using hfuel
      have hidx : idxC str pre.length = .ok c := by
        unfold idxC
        rw [hstr]
        simp
        rfl
      unfold splitEscLoop
      rw [if_neg (by rw [hstr]; simp)]
      simp only [hidx, bind, Except.bind]
      rw [← hlen]
      rw [splitL]
      by_cases h1 : (c == esc) = true
      · simp only [h1, if_true]
        exact ih str _ fuel _ _ _ hstr' hf
      · simp only [h1, Bool.false_eq_true, if_false]
        by_cases h2 : (c == sep) = true
        · simp only [h2, if_true]
          by_cases h3 : escaped = true
          · simp only [h3, if_true]
            exact ih str _ fuel _ _ _ hstr' hf
          · simp only [h3, Bool.false_eq_true, if_false]
            by_cases h4 : (pa || decide (sb.length > 0)) = true
            · simp only [h4, if_true]
              exact ih str _ fuel _ _ _ hstr' hf
            · simp only [h4, Bool.false_eq_true, if_false]
              exact ih str _ fuel _ _ _ hstr' hf
        · simp only [h2, Bool.false_eq_true, if_false]
          exact ih str _ fuel _ _ _ hstr' hf

/-- A clean item: no separator, no escape character. -/
def CleanItem (sep esc : UInt8) (x : Bytes) : Prop := sep ∉ x ∧ esc ∉ x

theorem splitL_clean (sep esc : UInt8) (pa : Bool) (x tail sb : Bytes) (parts : List Bytes)
    (hx : CleanItem sep esc x) :
    splitL sep esc pa (x ++ tail) sb false parts = splitL sep esc pa tail (sb ++ x) false parts := by
  induction x generalizing sb with
  | nil => simp
  | cons c cs ih =>
    have hc1 : (c == esc) = false := by
      apply Bool.eq_false_iff.2
      intro h
      rw [beq_iff_eq] at h
      exact hx.2 (by simp [h])
    have hc2 : (c == sep) = false := by
      apply Bool.eq_false_iff.2
      intro h
      rw [beq_iff_eq] at h
      exact hx.1 (by simp [h])
    have hcs : CleanItem sep esc cs := ⟨fun h => hx.1 (by simp [h]), fun h => hx.2 (by simp [h])⟩
    rw [List.cons_append, splitL]
    simp only [hc1, hc2, Bool.false_eq_true, if_false]
    rw [ih _ hcs]
    simp

theorem splitL_sep (sep esc : UInt8) (tail sb : Bytes) (parts : List Bytes) (hse : sep ≠ esc) (hsb : sb ≠ []) :
    splitL sep esc false (sep :: tail) sb false parts = splitL sep esc false tail [] false (parts ++ [sb]) := by
  have h1 : (sep == esc) = false := by simpa using hse
  have h2 : decide (sb.length > 0) = true := by
    cases sb with
    | nil => exact absurd rfl hsb
    | cons => simp
  rw [splitL]
  simp [h1, h2]

theorem splitL_joinSep (sep esc : UInt8) (hse : sep ≠ esc) (l : List Bytes) (hne : l ≠ [])
    (hc : ∀ x ∈ l, x ≠ [] ∧ CleanItem sep esc x) (parts : List Bytes) :
    splitL sep esc false (joinSep l [sep]) [] false parts = (l.getLast hne, parts ++ l.dropLast) := by
  induction l generalizing parts with
  | nil => exact absurd rfl hne
  | cons p ps ih =>
    cases ps with
    | nil =>
      have := splitL_clean sep esc false p [] [] parts (hc p (by simp)).2
      simp only [List.append_nil, List.nil_append] at this
      simp only [joinSep, this]
      simp [splitL]
    | cons q qs =>
      have hp := hc p (by simp)
      show splitL sep esc false (p ++ [sep] ++ joinSep (q :: qs) [sep]) [] false parts = _
      rw [List.append_assoc, splitL_clean sep esc false p _ [] parts hp.2]
      simp only [List.nil_append, List.cons_append]
      rw [splitL_sep sep esc _ p parts hse hp.1, ih (by simp) (fun x hx => hc x (by simp [hx]))]
      simp

/-- `splitWithEscapeCharacter` gives the items of a joined list of clean non-empty items back. -/
theorem splitEsc_joinSep (sep esc : UInt8) (hse : sep ≠ esc) (l : List Bytes) (hne : l ≠ [])
    (hc : ∀ x ∈ l, x ≠ [] ∧ CleanItem sep esc x) :
    splitWithEscapeCharacter (joinSep l [sep]) sep esc false = .ok l := by
  have hemp : (joinSep l [sep]).isEmpty = false := by
    cases l with
    | nil => exact absurd rfl hne
    | cons p ps =>
      have hp : p ≠ [] := (hc p (by simp)).1
      cases p with
      | nil => exact absurd rfl hp
      | cons c cs => cases ps <;> rfl
  unfold splitWithEscapeCharacter
  rw [hemp]
  simp only [Bool.false_eq_true, if_false]
  have := splitEscLoop_eq sep esc false (joinSep l [sep]) (joinSep l [sep]) [] (joinSep l [sep]).length [] false []
    (by simp) (Nat.le_refl _)
  simp only [List.length_nil] at this
  rw [this, splitL_joinSep sep esc hse l hne hc]
  have hlast : (l.getLast hne) ≠ [] := (hc _ (List.getLast_mem hne)).1
  have hl : decide ((l.getLast hne).length > 0) = true := by
    cases h : l.getLast hne with
    | nil => exact absurd h hlast
    | cons => simp
  simp only [bind, Except.bind, Bool.false_or, hl, if_true, List.nil_append, pure, Except.pure]
  rw [List.dropLast_concat_getLast]

end UF.L

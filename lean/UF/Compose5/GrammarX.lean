import UF.Compose5.Append
/-
  Group P1 (second adversarial review, F7): the modifier grammar EXTENDED by `~extension`.

  The grammar of group L (`Mod`, UF/Compose5/Grammar.lean) has no constructor for `~extension`, the one
  option of `loadOption` that TOGGLES a bit (`f.enabledOptions ^= OptionExtension`, rules/network.go).  Adding
  a constructor to `Mod` would change the reference of C04 (`ModSpec.ofMods`, which is order-free); instead
  the extension lives here: `XMod = Mod + ~extension`, with its spelling (`renderXMod`), the rule text
  (`renderX`; on lists of plain `Mod`s it IS `render`: `renderX_base`), the closed form of the option loop
  (`applyX`) and the parsing theorem `parse_renderX` (the generalisation of `parse_render`).
-/
namespace UF.L
open UF UF.E Bytes UF.Compose3

/-- One modifier of the extended grammar. -/
inductive XMod where
  | base (m : Mod)
  /-- `~extension`: toggles the `extension` option bit -/
  | notExtension
  deriving DecidableEq, Repr, Inhabited

def renderXMod : XMod → Bytes
  | .base m => renderMod m
  | .notExtension => lit "~extension"

def XMod.valsOK : XMod → Bool
  | .base m => m.valsOK
  | .notExtension => true

def optsTextX (xs : List XMod) : Bytes := joinSep (xs.map renderXMod) [ch ',']

/-- The rule text `[@@] pattern [$ mod , mod , …]` over the extended grammar. -/
def renderX (exception : Bool) (pattern : Bytes) (xs : List XMod) : Bytes :=
  (if exception then lit "@@" else []) ++ pattern ++ (if optsTextX xs = [] then [] else ch '$' :: optsTextX xs)

/-- On modifiers of group L's grammar the extended rendering is `render`. -/
theorem renderX_base (wl : Bool) (pat : Bytes) (ms : List Mod) :
    renderX wl pat (ms.map .base) = render wl pat ms := by
  unfold renderX render optsTextX optsText
  rw [List.map_map]
  rfl

/-- The closed form of one step of the option loop on a modifier of the extended grammar. -/
def applyX (ext : Ext) (r : NetRule) (x : XMod) : NetRule :=
  match x with
  | .base m => applyMod ext r m
  | .notExtension => { r with enabled := r.enabled ^^^ Facts.OptionExtension }

theorem loadOption_notExtension (px : ParseExt) (r : NetRule) (value : Bytes) :
    loadOption px r (lit "~extension") value = pure { r with enabled := r.enabled ^^^ Facts.OptionExtension } := by
  unfold loadOption; rfl

theorem step_effectX {px : ParseExt} {r r' : NetRule} {x : XMod} (hok : x.valsOK = true)
    (h : loadOptionsStep px r (renderXMod x) = .ok r') : r' = applyX px.ext r x := by
  cases x with
  | base m => exact step_effect hok h
  | notExtension =>
    rw [show renderXMod .notExtension = lit "~extension" from rfl, loadOptionsStep_n px r _ (by decide),
      loadOption_notExtension] at h
    cases pure_ok_elim h
    rfl

theorem foldlM_effectX {px : ParseExt} :
    ∀ (xs : List XMod) (r r' : NetRule), (∀ x ∈ xs, x.valsOK = true) →
      (xs.map renderXMod).foldlM (loadOptionsStep px) r = .ok r' → r' = xs.foldl (applyX px.ext) r := by
  intro xs
  induction xs with
  | nil =>
    intro r r' _ h
    simp only [List.map_nil, List.foldlM, pure, Except.pure] at h
    cases h; rfl
  | cons x xs ih =>
    intro r r' hok h
    simp only [List.map_cons, List.foldlM] at h
    obtain ⟨r1, h1, h2⟩ := bind_ok_elim h
    cases step_effectX (hok x List.mem_cons_self) h1
    exact ih _ r' (fun y hy => hok y (List.mem_cons_of_mem _ hy)) h2

theorem renderXMod_all (x : XMod) (h : x.valsOK = true) : (renderXMod x).all optByte = true := by
  cases x with
  | base m => exact renderMod_all m h
  | notExtension => decide

theorem renderXMod_ne_nil (x : XMod) : renderXMod x ≠ [] := by
  cases x with
  | base m => exact renderMod_ne_nil m
  | notExtension => decide

theorem piecesX_free (xs : List XMod) (h : ∀ x ∈ xs, x.valsOK = true) (c : UInt8) (hc : optByte c = false) :
    sepFree c (xs.map renderXMod) := by
  intro y hy
  obtain ⟨x, hx, rfl⟩ := List.mem_map.1 hy
  exact optByte_notMem (renderXMod_all x (h x hx)) hc

theorem optsTextX_noDollar (xs : List XMod) (h : ∀ x ∈ xs, x.valsOK = true) : ch '$' ∉ optsTextX xs := by
  intro hm
  rcases mem_joinSep hm with e | ⟨y, hy, hc⟩
  · exact absurd e (by decide)
  · exact piecesX_free xs h (ch '$') (by decide) y hy hc

/-- PARSING A RENDERED TEXT of the extended grammar (generalises `parse_render`). -/
theorem parse_renderX {px : ParseExt} {wl : Bool} {pat : Bytes} {xs : List XMod} {id : Int} {r : NetRule}
    (hp : patOK pat = true) (hm : ∀ x ∈ xs, x.valsOK = true)
    (h : parseNetRule px (renderX wl pat xs) id = .ok r) :
    r = { overrideDoc (xs.foldl (applyX px.ext) (initRule (renderX wl pat xs) wl id pat)) with
          pattern := r.pattern, shortcut := r.shortcut } := by
  obtain ⟨pat', opts, wl', r1, hprt, hl, hr⟩ := parseNetRule_parts h
  obtain ⟨c, rest, rfl, hc1, hc2, hd, hb⟩ := patOK_cons hp
  have hrt := parseRuleText_joined wl c rest (optsTextX xs) hc1 hc2 hd hb (optsTextX_noDollar xs hm)
  rw [show ((if wl then lit "@@" else []) ++ (c :: rest) ++
      (if optsTextX xs = [] then [] else ch '$' :: optsTextX xs)) = renderX wl (c :: rest) xs from rfl] at hrt
  rw [hrt] at hprt
  cases hprt
  rw [hr]
  cases xs with
  | nil =>
    have : optsTextX ([] : List XMod) = [] := rfl
    rw [this] at hl
    unfold loadOptions at hl
    simp only [List.isEmpty_nil, if_true] at hl
    cases pure_ok_elim hl
    rw [List.foldl_nil, overrideDoc_init]
  | cons x xs =>
    have hne : (x :: xs).map renderXMod ≠ [] := by simp
    obtain ⟨r2, hf, hr1⟩ := loadOptions_parts hne
      (fun y hy => by obtain ⟨x', _, rfl⟩ := List.mem_map.1 hy; exact renderXMod_ne_nil x')
      (piecesX_free _ hm (ch ',') (by decide)) (piecesX_free _ hm (ch '\\') (by decide)) hl
    cases foldlM_effectX (x :: xs) _ r2 hm hf
    rw [hr1]

/-! ### the modifier fields -/

theorem applyX_whitelist (ext : Ext) (r : NetRule) (x : XMod) : (applyX ext r x).whitelist = r.whitelist := by
  cases x with
  | base m => exact applyMod_whitelist ext r m
  | notExtension => rfl

theorem foldl_applyX_whitelist (ext : Ext) (xs : List XMod) (r : NetRule) :
    (xs.foldl (applyX ext) r).whitelist = r.whitelist := by
  induction xs generalizing r with
  | nil => rfl
  | cons x xs ih => rw [List.foldl_cons, ih, applyX_whitelist]

theorem modFields_applyX (ext : Ext) (r : NetRule) (x : XMod) :
    modFields (applyX ext r x) = applyX ext (modFields r) x := by
  cases x with
  | base m => exact modFields_applyMod' ext r m
  | notExtension => rfl

theorem modFields_foldlX (ext : Ext) (xs : List XMod) (r : NetRule) :
    modFields (xs.foldl (applyX ext) r) = xs.foldl (applyX ext) (modFields r) := by
  induction xs generalizing r with
  | nil => rfl
  | cons x xs ih => rw [List.foldl_cons, List.foldl_cons, ih, modFields_applyX]

/-- The record the option loop of a rule text with exception flag `wl` starts from, text / id / pattern
    cleared. -/
def init0 (wl : Bool) : NetRule := { whitelist := wl }

/-- The state of the option loop after the modifiers `xs` (before the document-only override), on the
    modifier fields: a function of the exception flag and of the modifiers AS WRITTEN. -/
def loopRec (ext : Ext) (wl : Bool) (xs : List XMod) : NetRule := xs.foldl (applyX ext) (init0 wl)

/-- Every modifier field of a parsed rendered text is `overrideDoc (loopRec …)`. -/
theorem parseX_modFields {px : ParseExt} {wl : Bool} {pat : Bytes} {xs : List XMod} {id : Int} {r : NetRule}
    (hp : patOK pat = true) (hm : ∀ x ∈ xs, x.valsOK = true)
    (h : parseNetRule px (renderX wl pat xs) id = .ok r) :
    modFields r = overrideDoc (loopRec px.ext wl xs) := by
  have hr := parse_renderX hp hm h
  rw [hr]
  show modFields (overrideDoc _) = _
  rw [modFields_overrideDoc, modFields_foldlX]
  rfl

theorem loopRec_append (ext : Ext) (wl : Bool) (xs : List XMod) (x : XMod) :
    loopRec ext wl (xs ++ [x]) = applyX ext (loopRec ext wl xs) x := by
  unfold loopRec
  rw [List.foldl_append, List.foldl_cons, List.foldl_nil]

theorem loopRec_whitelist (ext : Ext) (wl : Bool) (xs : List XMod) : (loopRec ext wl xs).whitelist = wl :=
  foldl_applyX_whitelist ext xs (init0 wl)

/-- APPENDING A MODIFIER of the extended grammar to a text of the extended grammar. -/
theorem append_x {px : ParseExt} {wl : Bool} {pat : Bytes} {xs : List XMod} {x : XMod} {id id' : Int}
    {r r' : NetRule} (hp : patOK pat = true) (hm : ∀ y ∈ xs ++ [x], y.valsOK = true)
    (h : parseNetRule px (renderX wl pat xs) id = .ok r)
    (h' : parseNetRule px (renderX wl pat (xs ++ [x])) id' = .ok r') :
    ∃ R : NetRule, R.whitelist = wl ∧ modFields r = overrideDoc R ∧
      modFields r' = overrideDoc (applyX px.ext R x) := by
  refine ⟨loopRec px.ext wl xs, loopRec_whitelist _ _ _, ?_, ?_⟩
  · exact parseX_modFields hp (fun y hy => hm y (List.mem_append_left _ hy)) h
  · rw [parseX_modFields hp hm h', loopRec_append]

end UF.L

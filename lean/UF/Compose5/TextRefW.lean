import UF.Compose5.FieldsW
import UF.Compose5.TextRef
/-
  Group P2 (REVIEW2 F11, widening), part 4: the record-level reference of C04 on a rule parsed from a rendered text
  of the WIDER grammar is the text-level reference `specMatchText` on the meaning `ModSpec.ofModsW ms`.
-/
namespace UF.L
open UF UF.E Bytes UF.Compose3 UF.I2

theorem noShortcut_eq_textW {px : ParseExt} {wl : Bool} {pat : Bytes} {ms : List ModW} {id : Int} {r : NetRule}
    (hp : patOKW pat = true) (hs : slashOK pat ms = true) (hm : modsOKW ms = true)
    (h : parseNetRule px (renderW wl pat ms) id = .ok r) (q : Request) (hq : ∃ k, q.reqType = 2 ^ k) :
    specMatchNoShortcut px.ext r q = specMatchText px.ext pat (ModSpec.ofModsW ms) q := by
  have hpa := parsedAs_of_parseW hp hs hm h
  obtain ⟨pat', opts, wl', hprt, hpat, _, _⟩ := parseNetRule_pattern h
  rw [parseRuleText_renderW hp hs (modsOKW_vals hm)] at hprt
  cases hprt
  unfold specMatchNoShortcut specMatchText
  rw [mods_eq_text hpa q hq]
  congr 1
  unfold specPatternMask MaskSpec.ruleAccepts textTarget
  rw [specTarget_pattern r q, hpat, hpa.matchCase]

end UF.L

import UF.Compose5.ParseText
import UF.Proofs.Bits
/-
  Integration (group L), part 6: the GRAMMAR-LEVEL LEMMAS — every modifier field of a rule parsed from a
  rendered text, as a function of the structured data (`ModSpec.ofMods ms`), one lemma per family.
-/
namespace UF.L
open UF UF.E Bytes UF.Compose3

/-! ### bit-valued fields: OR of what each modifier contributes -/

def enBits : Mod → Nat
  | .opt o => o.bit | .thirdParty _ => Facts.OptionThirdParty | .document => docBits | _ => 0
def disBits : Mod → Nat
  | .firstParty _ => Facts.OptionThirdParty | .notMatchCase => Facts.OptionMatchCase | _ => 0
def permBits : Mod → Nat | .ctype false c => c.bit | _ => 0
def restrBits : Mod → Nat | .ctype true c => c.bit | _ => 0

/-- The request-type mask of a list of content types. -/
def bitsOf (l : List CType) : Nat := l.foldl (fun a c => a ||| c.bit) 0

theorem applyMod_enabled (ext : Ext) (r : NetRule) (m : Mod) :
    (applyMod ext r m).enabled = r.enabled ||| enBits m := by
  cases m with
  | ctype neg c => cases neg <;> simp [applyMod, enBits]
  | _ => simp [applyMod, enBits]

theorem applyMod_disabled (ext : Ext) (r : NetRule) (m : Mod) :
    (applyMod ext r m).disabled = r.disabled ||| disBits m := by
  cases m with
  | ctype neg c => cases neg <;> simp [applyMod, disBits]
  | _ => simp [applyMod, disBits]

theorem applyMod_permTypes (ext : Ext) (r : NetRule) (m : Mod) :
    (applyMod ext r m).permTypes = r.permTypes ||| permBits m := by
  cases m with
  | ctype neg c => cases neg <;> simp [applyMod, permBits]
  | _ => simp [applyMod, permBits]

theorem applyMod_restrTypes (ext : Ext) (r : NetRule) (m : Mod) :
    (applyMod ext r m).restrTypes = r.restrTypes ||| restrBits m := by
  cases m with
  | ctype neg c => cases neg <;> simp [applyMod, restrBits]
  | _ => simp [applyMod, restrBits]

theorem applyMod_whitelist (ext : Ext) (r : NetRule) (m : Mod) :
    (applyMod ext r m).whitelist = r.whitelist := by
  cases m with
  | ctype neg c => cases neg <;> rfl
  | _ => rfl

theorem applyMod_rewrite (ext : Ext) (r : NetRule) (m : Mod) :
    (applyMod ext r m).rewrite = r.rewrite := by
  cases m with
  | ctype neg c => cases neg <;> rfl
  | _ => rfl

/-- A field that every step ORs something into. -/
theorem foldl_or (ext : Ext) (f : NetRule → Nat) (b : Mod → Nat)
    (hf : ∀ r m, f (applyMod ext r m) = f r ||| b m) (ms : List Mod) (r : NetRule) :
    f (ms.foldl (applyMod ext) r) = ms.foldl (fun a m => a ||| b m) (f r) := by
  induction ms generalizing r with
  | nil => rfl
  | cons m ms ih => simp only [List.foldl_cons]; rw [ih, hf]

theorem foldl_or_testBit (b : Mod → Nat) (k : Nat) (ms : List Mod) (a : Nat) :
    (ms.foldl (fun a m => a ||| b m) a).testBit k = (a.testBit k || ms.any (fun m => (b m).testBit k)) := by
  induction ms generalizing a with
  | nil => simp
  | cons m ms ih => simp only [List.foldl_cons, List.any_cons]; rw [ih, Nat.testBit_or, Bool.or_assoc]

theorem foldl_or_filterMap (b : Mod → Nat) (g : Mod → Option CType)
    (hb : ∀ m, b m = match g m with | some c => c.bit | none => 0) (ms : List Mod) (a : Nat) :
    ms.foldl (fun a m => a ||| b m) a = (ms.filterMap g).foldl (fun a c => a ||| c.bit) a := by
  induction ms generalizing a with
  | nil => rfl
  | cons m ms ih =>
    simp only [List.foldl_cons, List.filterMap_cons]
    rw [hb m]
    cases g m with
    | none => simp only [Nat.or_zero]; exact ih a
    | some c => simp only [List.foldl_cons]; exact ih _

/-! ### the document-only test is a homomorphism for OR -/

theorem docOnlyB_bits (n : Nat) :
    docOnlyB n = (n.testBit 7 || n.testBit 4 || n.testBit 9 || n.testBit 8 || n.testBit 6 || n.testBit 5 ||
      n.testBit 10 || n.testBit 14) := by
  unfold docOnlyB documentOnlyOptions
  simp only [List.any_cons, List.any_nil, Bool.or_false]
  rw [show ((n &&& Facts.OptionJsinject) == Facts.OptionJsinject) = n.testBit 7 from and_two_pow_beq n 7,
    show ((n &&& Facts.OptionElemhide) == Facts.OptionElemhide) = n.testBit 4 from and_two_pow_beq n 4,
    show ((n &&& Facts.OptionContent) == Facts.OptionContent) = n.testBit 9 from and_two_pow_beq n 9,
    show ((n &&& Facts.OptionUrlblock) == Facts.OptionUrlblock) = n.testBit 8 from and_two_pow_beq n 8,
    show ((n &&& Facts.OptionGenericblock) == Facts.OptionGenericblock) = n.testBit 6 from and_two_pow_beq n 6,
    show ((n &&& Facts.OptionGenerichide) == Facts.OptionGenerichide) = n.testBit 5 from and_two_pow_beq n 5,
    show ((n &&& Facts.OptionExtension) == Facts.OptionExtension) = n.testBit 10 from and_two_pow_beq n 10,
    show ((n &&& Facts.OptionPopup) == Facts.OptionPopup) = n.testBit 14 from and_two_pow_beq n 14]
  simp only [Bool.or_assoc]

theorem docOnlyB_or (a b : Nat) : docOnlyB (a ||| b) = (docOnlyB a || docOnlyB b) := by
  simp only [docOnlyB_bits, Nat.testBit_or]
  simp only [Bool.or_assoc, Bool.or_comm, Bool.or_left_comm]

theorem docOnlyB_enBits (m : Mod) : docOnlyB (enBits m) = m.isDocOnly := by
  cases m with
  | opt o => cases o <;> decide
  | thirdParty alt => cases alt <;> decide
  | firstParty alt => cases alt <;> decide
  | ctype neg c => cases neg <;> cases c <;> decide
  | notMatchCase => decide
  | document => decide
  | domain vs => show docOnlyB 0 = false; decide
  | denyallow vs => show docOnlyB 0 = false; decide
  | dnstype vs => show docOnlyB 0 = false; decide
  | ctag vs => show docOnlyB 0 = false; decide
  | client vs => show docOnlyB 0 = false; decide

theorem docOnlyB_foldl (ms : List Mod) (a : Nat) :
    docOnlyB (ms.foldl (fun a m => a ||| enBits m) a) = (docOnlyB a || ms.any Mod.isDocOnly) := by
  induction ms generalizing a with
  | nil => simp
  | cons m ms ih =>
    simp only [List.foldl_cons, List.any_cons]
    rw [ih, docOnlyB_or, docOnlyB_enBits, Bool.or_assoc]

/-! ### value fields: written by at most one modifier -/

/-- A field that one family of modifiers overwrites (with `g` of the values it carries) and all other
    modifiers leave alone: when the family occurs at most once, the field is `g` of all the values written for it. -/
theorem foldl_written {α γ} (ext : Ext) (f : NetRule → γ) (is : Mod → Bool) (val : Mod → List α) (g : List α → γ)
    (hw : ∀ r m, is m = true → f (applyMod ext r m) = g (val m))
    (hk : ∀ r m, is m = false → f (applyMod ext r m) = f r)
    (hv : ∀ m, is m = false → val m = []) :
    ∀ (ms : List Mod) (r : NetRule), atMostOne is ms = true → f r = g [] →
      f (ms.foldl (applyMod ext) r) = g (ms.flatMap val) := by
  have keep : ∀ (ms : List Mod) (r : NetRule), (∀ m ∈ ms, is m = false) →
      f (ms.foldl (applyMod ext) r) = f r ∧ ms.flatMap val = [] := by
    intro ms
    induction ms with
    | nil => intro r _; exact ⟨rfl, rfl⟩
    | cons m ms ih =>
      intro r h
      have hm := h m List.mem_cons_self
      obtain ⟨h1, h2⟩ := ih (applyMod ext r m) (fun x hx => h x (List.mem_cons_of_mem _ hx))
      refine ⟨by rw [List.foldl_cons, h1, hk r m hm], ?_⟩
      rw [List.flatMap_cons, hv m hm, h2]; rfl
  intro ms
  induction ms with
  | nil => intro r _ h0; exact h0
  | cons m ms ih =>
    intro r hone h0
    unfold atMostOne at hone
    simp only [decide_eq_true_eq] at hone
    cases hm : is m with
    | true =>
      rw [List.filter_cons_of_pos hm, List.length_cons] at hone
      have hnone : ∀ x ∈ ms, is x = false := by
        intro x hx
        cases hx' : is x with
        | false => rfl
        | true =>
          have : x ∈ ms.filter is := List.mem_filter.2 ⟨hx, hx'⟩
          have := List.length_pos_of_mem this
          omega
      obtain ⟨h1, h2⟩ := keep ms (applyMod ext r m) hnone
      rw [List.foldl_cons, h1, hw r m hm, List.flatMap_cons, h2, List.append_nil]
    | false =>
      rw [List.filter_cons_of_neg (by simp [hm])] at hone
      rw [List.foldl_cons, List.flatMap_cons, hv m hm, List.nil_append]
      exact ih (applyMod ext r m) (by unfold atMostOne; simpa using hone) (by rw [hk r m hm]; exact h0)

/-! ### the parsed record, family by family -/

theorem clientsOf_nil (ext : Ext) : clientsOf ext [] = none := rfl

/-- What the parser model stores for a rendered rule text, in terms of the MEANING of the modifiers. -/
structure ParsedAs (ext : Ext) (wl : Bool) (s : ModSpec) (r : NetRule) : Prop where
  whitelist : r.whitelist = wl
  thirdParty : r.isEnabled Facts.OptionThirdParty = s.thirdParty
  firstParty : r.isDisabled Facts.OptionThirdParty = s.firstParty
  matchCase : r.isEnabled Facts.OptionMatchCase = s.matchCase
  important : r.isEnabled Facts.OptionImportant = s.important
  badfilter : r.isEnabled Facts.OptionBadfilter = s.badfilter
  docOnly : docOnlyB r.enabled = s.docOnly
  permTypes : r.permTypes = if s.docOnly then Facts.TypeDocument else bitsOf s.permTypes
  restrTypes : r.restrTypes = bitsOf s.restrTypes
  permDomains : r.permDomains = s.permDomains
  restrDomains : r.restrDomains = s.restrDomains
  denyallow : r.denyallow = s.denyallow
  permDns : r.permDns = s.permDns
  restrDns : r.restrDns = s.restrDns
  permTags : r.permTags = sortB s.permTags
  restrTags : r.restrTags = sortB s.restrTags
  permClients : r.permClients = clientsOf ext s.permClients
  restrClients : r.restrClients = clientsOf ext s.restrClients
  rewrite : r.rewrite = none

/-- Which modifiers set a given bit of the enabled / disabled options. -/
theorem enBits_bit (k : Nat) (p : Mod → Bool)
    (hopt : ∀ o : Opt, o.bit.testBit k = p (.opt o))
    (htp : ∀ alt, Facts.OptionThirdParty.testBit k = p (.thirdParty alt))
    (hdoc : docBits.testBit k = p .document)
    (hrest : ∀ m, enBits m = 0 → p m = false) :
    (fun m => (enBits m).testBit k) = p := by
  funext m
  cases m with
  | opt o => exact hopt o
  | thirdParty alt => exact htp alt
  | document => exact hdoc
  | firstParty alt => rw [hrest _ rfl]; exact Nat.zero_testBit k
  | notMatchCase => rw [hrest _ rfl]; exact Nat.zero_testBit k
  | ctype neg c => rw [hrest _ rfl]; exact Nat.zero_testBit k
  | domain vs => rw [hrest _ rfl]; exact Nat.zero_testBit k
  | denyallow vs => rw [hrest _ rfl]; exact Nat.zero_testBit k
  | dnstype vs => rw [hrest _ rfl]; exact Nat.zero_testBit k
  | ctag vs => rw [hrest _ rfl]; exact Nat.zero_testBit k
  | client vs => rw [hrest _ rfl]; exact Nat.zero_testBit k

theorem enBits_tp : (fun m => (enBits m).testBit 0) = Mod.isThirdParty :=
  enBits_bit 0 _ (fun o => by cases o <;> decide) (fun alt => by cases alt <;> decide) (by decide)
    (fun m h => by cases m <;> first | rfl | (exact absurd h (by decide)) | skip
                   all_goals (rename_i o; cases o <;> exact absurd h (by decide)))

theorem enBits_opt (o : Opt) (k : Nat) (hk : o.bit = 2 ^ k) (hk0 : k = 1 ∨ k = 2 ∨ k = 3) :
    (fun m => (enBits m).testBit k) = Mod.isOpt o := by
  rcases hk0 with rfl | rfl | rfl
  · refine enBits_bit 1 _ (fun o' => ?_) (fun alt => ?_) ?_ (fun m h => ?_)
    · cases o <;> first | (exact absurd hk (by decide)) | (cases o' <;> decide)
    · cases o <;> first | (exact absurd hk (by decide)) | (cases alt <;> decide)
    · cases o <;> first | (exact absurd hk (by decide)) | decide
    · cases m <;> first | rfl | (exact absurd h (by decide)) | skip
      all_goals (rename_i o'; cases o' <;> exact absurd h (by decide))
  · refine enBits_bit 2 _ (fun o' => ?_) (fun alt => ?_) ?_ (fun m h => ?_)
    · cases o <;> first | (exact absurd hk (by decide)) | (cases o' <;> decide)
    · cases o <;> first | (exact absurd hk (by decide)) | (cases alt <;> decide)
    · cases o <;> first | (exact absurd hk (by decide)) | decide
    · cases m <;> first | rfl | (exact absurd h (by decide)) | skip
      all_goals (rename_i o'; cases o' <;> exact absurd h (by decide))
  · refine enBits_bit 3 _ (fun o' => ?_) (fun alt => ?_) ?_ (fun m h => ?_)
    · cases o <;> first | (exact absurd hk (by decide)) | (cases o' <;> decide)
    · cases o <;> first | (exact absurd hk (by decide)) | (cases alt <;> decide)
    · cases o <;> first | (exact absurd hk (by decide)) | decide
    · cases m <;> first | rfl | (exact absurd h (by decide)) | skip
      all_goals (rename_i o'; cases o' <;> exact absurd h (by decide))

theorem disBits_fp : (fun m => (disBits m).testBit 0) = Mod.isFirstParty := by
  funext m
  cases m with
  | firstParty alt => cases alt <;> decide
  | opt o => exact Nat.zero_testBit 0
  | thirdParty alt => exact Nat.zero_testBit 0
  | notMatchCase => decide
  | document => exact Nat.zero_testBit 0
  | ctype neg c => exact Nat.zero_testBit 0
  | domain vs => exact Nat.zero_testBit 0
  | denyallow vs => exact Nat.zero_testBit 0
  | dnstype vs => exact Nat.zero_testBit 0
  | ctag vs => exact Nat.zero_testBit 0
  | client vs => exact Nat.zero_testBit 0

theorem overrideDoc_eq (r : NetRule) :
    overrideDoc r = { r with permTypes := if docOnlyB r.enabled then Facts.TypeDocument else r.permTypes } := by
  unfold overrideDoc
  split <;> rfl

theorem modsOK_vals {ms : List Mod} (h : modsOK ms = true) : ∀ m ∈ ms, m.valsOK = true := by
  unfold modsOK at h
  simp only [Bool.and_eq_true, List.all_eq_true] at h
  exact h.1.1.1.1.1

local macro "wtac3" : tactic => `(tactic| (intro r m hm; cases m with
  | ctype neg c => cases neg <;> first | rfl | cases hm
  | _ => first | rfl | cases hm))
local macro "wtac2" : tactic => `(tactic| (intro m hm; cases m with
  | ctype neg c => cases neg <;> first | rfl | cases hm
  | _ => first | rfl | cases hm))

/-- THE GRAMMAR-LEVEL LEMMAS, all families at once: a rule text rendered from structured modifiers, if the
    parser model accepts it, is stored as the meaning of the modifiers says. -/
theorem parsedAs_of_parse {px : ParseExt} {wl : Bool} {pat : Bytes} {ms : List Mod} {id : Int} {r : NetRule}
    (hp : patOK pat = true) (hm : modsOK ms = true)
    (h : parseNetRule px (render wl pat ms) id = .ok r) :
    ParsedAs px.ext wl (ModSpec.ofMods ms) r := by
  have hr := parse_render hp (modsOK_vals hm) h
  generalize hr0 : initRule (render wl pat ms) wl id pat = r0 at hr
  have i_en : r0.enabled = 0 := by rw [← hr0]; rfl
  have i_dis : r0.disabled = 0 := by rw [← hr0]; rfl
  have i_pt : r0.permTypes = 0 := by rw [← hr0]; rfl
  have i_rt : r0.restrTypes = 0 := by rw [← hr0]; rfl
  rw [overrideDoc_eq] at hr
  generalize hr2 : ms.foldl (applyMod px.ext) r0 = r2 at hr
  have hone := hm
  unfold modsOK at hone
  simp only [Bool.and_eq_true] at hone
  obtain ⟨⟨⟨⟨⟨_, o1⟩, o2⟩, o3⟩, o4⟩, o5⟩ := hone
  -- bit fields of the fold
  have e_en : r2.enabled = ms.foldl (fun a m => a ||| enBits m) 0 := by
    rw [← hr2, foldl_or px.ext NetRule.enabled enBits (applyMod_enabled px.ext), i_en]
  have e_dis : r2.disabled = ms.foldl (fun a m => a ||| disBits m) 0 := by
    rw [← hr2, foldl_or px.ext NetRule.disabled disBits (applyMod_disabled px.ext), i_dis]
  have e_pt : r2.permTypes = bitsOf (ms.filterMap Mod.permType) := by
    rw [← hr2, foldl_or px.ext NetRule.permTypes permBits (applyMod_permTypes px.ext), i_pt]
    exact foldl_or_filterMap permBits Mod.permType (fun m => by
      cases m with
      | ctype neg c => cases neg <;> rfl
      | _ => rfl) ms 0
  have e_rt : r2.restrTypes = bitsOf (ms.filterMap Mod.restrType) := by
    rw [← hr2, foldl_or px.ext NetRule.restrTypes restrBits (applyMod_restrTypes px.ext), i_rt]
    exact foldl_or_filterMap restrBits Mod.restrType (fun m => by
      cases m with
      | ctype neg c => cases neg <;> rfl
      | _ => rfl) ms 0
  have e_doc : docOnlyB r2.enabled = ms.any Mod.isDocOnly := by
    rw [e_en, docOnlyB_foldl]
    show (docOnlyB 0 || _) = _
    rw [show docOnlyB 0 = false by decide, Bool.false_or]
  have bit : ∀ k, r2.enabled.testBit k = ms.any (fun m => (enBits m).testBit k) := by
    intro k
    rw [e_en, foldl_or_testBit, Nat.zero_testBit, Bool.false_or]
  have hwl : r2.whitelist = wl := by
    rw [← hr2]
    have : ∀ (l : List Mod) (x : NetRule), (l.foldl (applyMod px.ext) x).whitelist = x.whitelist := by
      intro l
      induction l with
      | nil => intro x; rfl
      | cons m l ih => intro x; rw [List.foldl_cons, ih, applyMod_whitelist]
    rw [this, ← hr0]; rfl
  have hrw : r2.rewrite = none := by
    rw [← hr2]
    have : ∀ (l : List Mod) (x : NetRule), (l.foldl (applyMod px.ext) x).rewrite = x.rewrite := by
      intro l
      induction l with
      | nil => intro x; rfl
      | cons m l ih => intro x; rw [List.foldl_cons, ih, applyMod_rewrite]
    rw [this, ← hr0]; rfl
  -- value fields of the fold
  have w_pd : r2.permDomains = (ModSpec.ofMods ms).permDomains := by
    rw [← hr2]
    exact foldl_written px.ext NetRule.permDomains Mod.isDomain (fun m => posVals m.domainVals) (fun x => x)
      (by wtac3) (by wtac3) (by wtac2) ms r0 o1 (by rw [← hr0]; rfl)
  have w_rd : r2.restrDomains = (ModSpec.ofMods ms).restrDomains := by
    rw [← hr2]
    exact foldl_written px.ext NetRule.restrDomains Mod.isDomain (fun m => negVals m.domainVals) (fun x => x)
      (by wtac3) (by wtac3) (by wtac2) ms r0 o1 (by rw [← hr0]; rfl)
  have w_da : r2.denyallow = (ModSpec.ofMods ms).denyallow := by
    rw [← hr2]
    exact foldl_written px.ext NetRule.denyallow Mod.isDenyallow Mod.denyallowVals (fun x => x)
      (by wtac3) (by wtac3) (by wtac2) ms r0 o2 (by rw [← hr0]; rfl)
  have w_pn : r2.permDns = (ModSpec.ofMods ms).permDns := by
    rw [← hr2]
    exact foldl_written px.ext NetRule.permDns Mod.isDnstype
      (fun m => (posVals m.dnstypeVals).filterMap dnsTypeNumber) (fun x => x)
      (by wtac3) (by wtac3) (by wtac2) ms r0 o3 (by rw [← hr0]; rfl)
  have w_rn : r2.restrDns = (ModSpec.ofMods ms).restrDns := by
    rw [← hr2]
    exact foldl_written px.ext NetRule.restrDns Mod.isDnstype
      (fun m => (negVals m.dnstypeVals).filterMap dnsTypeNumber) (fun x => x)
      (by wtac3) (by wtac3) (by wtac2) ms r0 o3 (by rw [← hr0]; rfl)
  have w_pt : r2.permTags = sortB (ModSpec.ofMods ms).permTags := by
    rw [← hr2]
    exact foldl_written px.ext NetRule.permTags Mod.isCtag (fun m => posVals m.ctagVals) sortB
      (by wtac3) (by wtac3) (by wtac2) ms r0 o4 (by rw [← hr0]; rfl)
  have w_rt : r2.restrTags = sortB (ModSpec.ofMods ms).restrTags := by
    rw [← hr2]
    exact foldl_written px.ext NetRule.restrTags Mod.isCtag (fun m => negVals m.ctagVals) sortB
      (by wtac3) (by wtac3) (by wtac2) ms r0 o4 (by rw [← hr0]; rfl)
  have w_pc : r2.permClients = clientsOf px.ext (ModSpec.ofMods ms).permClients := by
    rw [← hr2]
    exact foldl_written px.ext NetRule.permClients Mod.isClient (fun m => posVals m.clientVals) (clientsOf px.ext)
      (by wtac3) (by wtac3) (by wtac2) ms r0 o5 (by rw [← hr0]; rfl)
  have w_rc : r2.restrClients = clientsOf px.ext (ModSpec.ofMods ms).restrClients := by
    rw [← hr2]
    exact foldl_written px.ext NetRule.restrClients Mod.isClient (fun m => negVals m.clientVals) (clientsOf px.ext)
      (by wtac3) (by wtac3) (by wtac2) ms r0 o5 (by rw [← hr0]; rfl)
  -- the parsed record
  have f_en : r.enabled = r2.enabled := by
    have := congrArg NetRule.enabled hr
    exact this
  have f_dis : r.disabled = r2.disabled := by
    have := congrArg NetRule.disabled hr
    exact this
  exact {
    whitelist := (congrArg NetRule.whitelist hr).trans hwl
    thirdParty := by
      rw [show r.isEnabled Facts.OptionThirdParty = r.enabled.testBit 0 from and_two_pow_beq r.enabled 0, f_en, bit,
        enBits_tp]; rfl
    firstParty := by
      rw [show r.isDisabled Facts.OptionThirdParty = r.disabled.testBit 0 from and_two_pow_beq r.disabled 0, f_dis,
        e_dis, foldl_or_testBit, Nat.zero_testBit, Bool.false_or, disBits_fp]; rfl
    matchCase := by
      rw [show r.isEnabled Facts.OptionMatchCase = r.enabled.testBit 1 from and_two_pow_beq r.enabled 1, f_en, bit,
        enBits_opt .matchCase 1 rfl (.inl rfl)]; rfl
    important := by
      rw [show r.isEnabled Facts.OptionImportant = r.enabled.testBit 2 from and_two_pow_beq r.enabled 2, f_en, bit,
        enBits_opt .important 2 rfl (.inr (.inl rfl))]; rfl
    badfilter := by
      rw [show r.isEnabled Facts.OptionBadfilter = r.enabled.testBit 3 from and_two_pow_beq r.enabled 3, f_en, bit,
        enBits_opt .badfilter 3 rfl (.inr (.inr rfl))]; rfl
    docOnly := by rw [f_en, e_doc]; rfl
    permTypes := by
      have : r.permTypes = if docOnlyB r2.enabled then Facts.TypeDocument else r2.permTypes := by
        have := congrArg NetRule.permTypes hr
        exact this
      rw [this, e_doc, e_pt]; rfl
    restrTypes := (congrArg NetRule.restrTypes hr).trans e_rt
    permDomains := (congrArg NetRule.permDomains hr).trans w_pd
    restrDomains := (congrArg NetRule.restrDomains hr).trans w_rd
    denyallow := (congrArg NetRule.denyallow hr).trans w_da
    permDns := (congrArg NetRule.permDns hr).trans w_pn
    restrDns := (congrArg NetRule.restrDns hr).trans w_rn
    permTags := (congrArg NetRule.permTags hr).trans w_pt
    restrTags := (congrArg NetRule.restrTags hr).trans w_rt
    permClients := (congrArg NetRule.permClients hr).trans w_pc
    restrClients := (congrArg NetRule.restrClients hr).trans w_rc
    rewrite := (congrArg NetRule.rewrite hr).trans hrw }

end UF.L

import UF.Compose5.AppendX
/-
  Group P1: a rule text that PARSES has only known `$dnstype` names (`loadDNSTypes` rejects unknown ones), so
  the `$dnstype` modifier of a parsed text is always counted — the hypothesis `hknown` of `c07_text_dnstype` is
  a consequence of the parse.
-/
namespace UF.L
open UF UF.E Bytes UF.Compose3

/-- Every value of a value loop that succeeded was accepted by its step. -/
theorem foldlM_vals_known {β} (step : List β × List β → Bytes → PE (List β × List β)) (f : Bytes → Option β)
    (ok : Bool × Bytes → Prop)
    (hstep : ∀ acc v acc', ok v → step acc (renderVal v) = .ok acc' →
      ∃ b, f v.2 = some b ∧ acc' = upd2 acc (v.1, b)) :
    ∀ (vs : List (Bool × Bytes)) (acc acc' : List β × List β), (∀ v ∈ vs, ok v) →
      (vs.map renderVal).foldlM step acc = .ok acc' → ∀ v ∈ vs, (f v.2).isSome = true := by
  intro vs
  induction vs with
  | nil => intro _ _ _ _ v hv; cases hv
  | cons v vs ih =>
    intro acc acc' hok h x hx
    simp only [List.map_cons, List.foldlM] at h
    obtain ⟨a1, h1, h2⟩ := bind_ok_elim h
    rcases List.mem_cons.1 hx with rfl | hx
    · obtain ⟨b, hb, _⟩ := hstep acc x a1 (hok x List.mem_cons_self) h1
      rw [hb]; rfl
    · exact ih a1 acc' (fun y hy => hok y (List.mem_cons_of_mem _ hy)) h2 x hx

/-- The step of the option loop on `dnstype=…` succeeds only if every name is a known record type. -/
theorem dnstype_step_known {px : ParseExt} {r r' : NetRule} {vs : List (Bool × Bytes)}
    (hok : (Mod.dnstype vs).valsOK = true) (h : loadOptionsStep px r (renderMod (.dnstype vs)) = .ok r') :
    ∀ v ∈ vs, (dnsTypeNumber v.2).isSome = true := by
  simp only [Mod.valsOK, Bool.and_eq_true, List.all_eq_true, Bool.not_eq_true', List.isEmpty_eq_false_iff] at hok
  rw [show renderMod (.dnstype vs) = lit "dnstype" ++ ch '=' :: joinVals (vs.map renderVal) from rfl,
    loadOptionsStep_nv px r _ _ (by decide) (by decide), loadOption_dnstype] at h
  obtain ⟨⟨p, rs⟩, hl, h⟩ := bind_ok_elim h
  unfold loadDNSTypes at hl
  have hc : ∀ v ∈ vs, cleanVal v.2 = true := fun v hv => (hok.2 v hv).1
  have hj : (joinVals (vs.map renderVal)).isEmpty = false :=
    isEmpty_false (joinVals_ne_nil (map_ne_nil _ hok.1) (fun x hx => by
      obtain ⟨v, hv, rfl⟩ := List.mem_map.1 hx
      exact renderVal_ne_nil v (hc v hv)))
  rw [hj] at hl
  simp only [Bool.false_eq_true, if_false] at hl
  unfold joinVals at hl
  rw [splitByte_joinSep _ _ (map_ne_nil _ hok.1) (render_sepFree vs hc)] at hl
  exact foldlM_vals_known loadDNSTypesStep dnsTypeNumber (fun v => cleanVal v.2 = true ∧ isAscii v.2 = true)
    (fun acc v acc' hv hs => loadDNSTypesStep_render acc acc' v hv hs) vs ([], []) (p, rs) hok.2 hl

/-- A successful loop over `pre ++ x :: post` performed a successful step on `x`. -/
theorem foldlM_mid {α β} (f : β → α → PE β) (pre post : List α) (x : α) (b0 b2 : β)
    (h : (pre ++ x :: post).foldlM f b0 = .ok b2) : ∃ b1 b1', f b1 x = .ok b1' := by
  rw [List.foldlM_append] at h
  obtain ⟨b1, _, h⟩ := bind_ok_elim h
  simp only [List.foldlM] at h
  obtain ⟨b1', h1, _⟩ := bind_ok_elim h
  exact ⟨b1, b1', h1⟩

/-- The option loop of a parsed rendered text succeeded on every modifier. -/
theorem parseX_step_ok {px : ParseExt} {wl : Bool} {pat : Bytes} {pre post : List XMod} {x : XMod} {id : Int}
    {r : NetRule} (hp : patOK pat = true) (hm : ∀ y ∈ pre ++ x :: post, y.valsOK = true)
    (h : parseNetRule px (renderX wl pat (pre ++ x :: post)) id = .ok r) :
    ∃ r1 r1', loadOptionsStep px r1 (renderXMod x) = .ok r1' := by
  obtain ⟨pat', opts, wl', r1, hprt, hl, _⟩ := parseNetRule_parts h
  obtain ⟨c, rest, rfl, hc1, hc2, hd, hb⟩ := patOK_cons hp
  have hrt := parseRuleText_joined wl c rest (optsTextX (pre ++ x :: post)) hc1 hc2 hd hb
    (optsTextX_noDollar _ hm)
  rw [show ((if wl then lit "@@" else []) ++ (c :: rest) ++
      (if optsTextX (pre ++ x :: post) = [] then [] else ch '$' :: optsTextX (pre ++ x :: post))) =
      renderX wl (c :: rest) (pre ++ x :: post) from rfl] at hrt
  rw [hrt] at hprt
  cases hprt
  have hne : (pre ++ x :: post).map renderXMod ≠ [] := by simp
  obtain ⟨r2, hf, _⟩ := loadOptions_parts hne
    (fun y hy => by obtain ⟨x', _, rfl⟩ := List.mem_map.1 hy; exact renderXMod_ne_nil x')
    (piecesX_free _ hm (ch ',') (by decide)) (piecesX_free _ hm (ch '\\') (by decide)) hl
  rw [List.map_append, List.map_cons] at hf
  exact foldlM_mid _ _ _ _ _ _ hf

/-- A parsed rendered text has only known `$dnstype` names. -/
theorem parseX_dnstype_known {px : ParseExt} {wl : Bool} {pat : Bytes} {pre post : List XMod}
    {vs : List (Bool × Bytes)} {id : Int} {r : NetRule} (hp : patOK pat = true)
    (hm : ∀ y ∈ pre ++ .base (.dnstype vs) :: post, y.valsOK = true)
    (h : parseNetRule px (renderX wl pat (pre ++ .base (.dnstype vs) :: post)) id = .ok r) :
    ∀ v ∈ vs, (dnsTypeNumber v.2).isSome = true := by
  obtain ⟨r1, r1', hs⟩ := parseX_step_ok hp hm h
  exact dnstype_step_known (hm (.base (.dnstype vs)) (List.mem_append_right _ List.mem_cons_self)) hs

/-- Known names, at least one of them: the modifier is counted. -/
theorem dns_flag_of_known (vs : List (Bool × Bytes)) (hne : vs ≠ [])
    (hk : ∀ v ∈ vs, (dnsTypeNumber v.2).isSome = true) :
    (((posVals vs).filterMap dnsTypeNumber).length != 0 ||
      ((negVals vs).filterMap dnsTypeNumber).length != 0) = true := by
  cases vs with
  | nil => exact absurd rfl hne
  | cons v rest =>
    obtain ⟨neg, d⟩ := v
    have hd := hk (neg, d) List.mem_cons_self
    obtain ⟨n, hn⟩ := Option.isSome_iff_exists.1 hd
    cases neg with
    | false =>
      have : ((posVals ((false, d) :: rest)).filterMap dnsTypeNumber).length != 0 := by
        simp [posVals, hn]
      rw [this, Bool.true_or]
    | true =>
      have : ((negVals ((true, d) :: rest)).filterMap dnsTypeNumber).length != 0 := by
        simp [negVals, hn]
      rw [this, Bool.or_true]

theorem ne_of_flag2 {α} {p q : List α} (h : (p.length != 0 || q.length != 0) = true) : p ≠ [] ∨ q ≠ [] := by
  rcases Bool.or_eq_true_iff.1 h with h | h
  · left; intro e; rw [e] at h; simp at h
  · right; intro e; rw [e] at h; simp at h

end UF.L

import UF.Compose5.Effect2
/-
  Integration (group L), part 5: `NewNetworkRule` on a RENDERED rule text.

  `parse_render`: for a pattern of the text-level domain (`patOK`) and modifiers of the grammar domain
  (`modsOK`), whatever the parser model accepts for `render exception pattern ms` is, on every modifier field,

      the fold of `applyMod` over `ms` from the empty record, followed by the document-only override of the
      permitted content types

  (pattern and shortcut are what group I2's `parseNetRule_pattern` says).
-/
namespace UF.L
open UF UF.E Bytes UF.Compose3

/-! ### the rendered modifiers are comma-free, escape-free, `$`-free and non-empty -/

def optByte (c : UInt8) : Bool := c != ch ',' && c != ch '\\' && c != ch '$'

theorem all_joinSep (p : UInt8 → Bool) (l : List Bytes) (sep : Bytes) (hl : ∀ x ∈ l, x.all p = true)
    (hs : sep.all p = true) : (joinSep l sep).all p = true := by
  induction l with
  | nil => rfl
  | cons m ms ih =>
    cases ms with
    | nil => simpa [joinSep] using hl m List.mem_cons_self
    | cons n ns =>
      simp only [joinSep, List.all_append, Bool.and_eq_true]
      exact ⟨⟨hl m List.mem_cons_self, hs⟩, ih (fun x hx => hl x (List.mem_cons_of_mem _ hx))⟩

theorem cleanByte_optByte {c : UInt8} (h : cleanByte c = true) : optByte c = true := by
  obtain ⟨h1, h2, h3, _⟩ := cleanByte_ne h
  simp [optByte, h1, h2, h3]

theorem cleanVal_all {v : Bytes} (h : cleanVal v = true) : v.all optByte = true :=
  List.all_eq_true.2 (fun c hc => cleanByte_optByte (cleanVal_mem h c hc))

theorem renderVal_all (v : Bool × Bytes) (h : cleanVal v.2 = true) : (renderVal v).all optByte = true := by
  obtain ⟨neg, d⟩ := v
  cases neg
  · exact cleanVal_all h
  · show (optByte (ch '~') && d.all optByte) = true
    rw [cleanVal_all h]; decide

theorem joinVals_all (l : List Bytes) (h : ∀ x ∈ l, x.all optByte = true) : (joinVals l).all optByte = true :=
  all_joinSep optByte l _ h (by decide)

theorem valued_all (name : Bytes) (l : List Bytes) (hn : name.all optByte = true)
    (h : ∀ x ∈ l, x.all optByte = true) : (name ++ ch '=' :: joinVals l).all optByte = true := by
  rw [List.all_append, hn, List.all_cons, joinVals_all l h]; decide

theorem renderMod_all (m : Mod) (h : m.valsOK = true) : (renderMod m).all optByte = true := by
  cases m with
  | opt o => cases o <;> decide
  | thirdParty alt => cases alt <;> decide
  | firstParty alt => cases alt <;> decide
  | notMatchCase => decide
  | document => decide
  | ctype neg c => cases neg <;> cases c <;> decide
  | domain vs =>
    simp only [Mod.valsOK, Bool.and_eq_true, List.all_eq_true] at h
    exact valued_all _ _ (by decide) (fun x hx => by
      obtain ⟨v, hv, rfl⟩ := List.mem_map.1 hx; exact renderVal_all v (h.2 v hv))
  | denyallow vs =>
    simp only [Mod.valsOK, Bool.and_eq_true, List.all_eq_true] at h
    exact valued_all _ _ (by decide) (fun x hx => cleanVal_all (h.2 x hx))
  | dnstype vs =>
    simp only [Mod.valsOK, Bool.and_eq_true, List.all_eq_true] at h
    exact valued_all _ _ (by decide) (fun x hx => by
      obtain ⟨v, hv, rfl⟩ := List.mem_map.1 hx; exact renderVal_all v (h.2 v hv).1)
  | ctag vs =>
    simp only [Mod.valsOK, Bool.and_eq_true, List.all_eq_true] at h
    exact valued_all _ _ (by decide) (fun x hx => by
      obtain ⟨v, hv, rfl⟩ := List.mem_map.1 hx; exact renderVal_all v (h.2 v hv))
  | client vs =>
    simp only [Mod.valsOK, Bool.and_eq_true, List.all_eq_true] at h
    exact valued_all _ _ (by decide) (fun x hx => by
      obtain ⟨v, hv, rfl⟩ := List.mem_map.1 hx; exact renderVal_all v (h.2 v hv))

theorem renderMod_ne_nil (m : Mod) : renderMod m ≠ [] := by
  cases m with
  | opt o => cases o <;> decide
  | thirdParty alt => cases alt <;> decide
  | firstParty alt => cases alt <;> decide
  | notMatchCase => decide
  | document => decide
  | ctype neg c => cases neg <;> cases c <;> decide
  | domain vs => simp [renderMod, lit]
  | denyallow vs => simp [renderMod, lit]
  | dnstype vs => simp [renderMod, lit]
  | ctag vs => simp [renderMod, lit]
  | client vs => simp [renderMod, lit]

theorem optByte_notMem {s : Bytes} (h : s.all optByte = true) {c : UInt8} (hc : optByte c = false) : c ∉ s := by
  intro hm
  rw [List.all_eq_true.1 h c hm] at hc
  cases hc

theorem pieces_free (ms : List Mod) (h : ∀ m ∈ ms, m.valsOK = true) (c : UInt8) (hc : optByte c = false) :
    sepFree c (ms.map renderMod) := by
  intro x hx
  obtain ⟨m, hm, rfl⟩ := List.mem_map.1 hx
  exact optByte_notMem (renderMod_all m (h m hm)) hc

theorem optsText_eq_nil_iff (ms : List Mod) : optsText ms = [] ↔ ms = [] := by
  constructor
  · intro h
    cases ms with
    | nil => rfl
    | cons m ms => exact absurd h (joinSep_ne_nil _ _ _ (renderMod_ne_nil m))
  · intro h; rw [h]; rfl

theorem optsText_noDollar (ms : List Mod) (h : ∀ m ∈ ms, m.valsOK = true) : ch '$' ∉ optsText ms := by
  intro hm
  rcases mem_joinSep hm with e | ⟨x, hx, hc⟩
  · exact absurd e (by decide)
  · exact pieces_free ms h (ch '$') (by decide) x hx hc

/-! ### the three stages of `NewNetworkRule` -/

/-- The record the option loop starts from. -/
def initRule (t : Bytes) (wl : Bool) (id : Int) (pat : Bytes) : NetRule :=
  { text := t, whitelist := wl, listID := id, pattern := pat }

/-- Is one of the eight document-only option bits set? -/
def docOnlyB (enabled : Nat) : Bool := documentOnlyOptions.any (fun o => (enabled &&& o) == o)

/-- The last statement of `loadOptions`. -/
def overrideDoc (r : NetRule) : NetRule :=
  if docOnlyB r.enabled then { r with permTypes := Facts.TypeDocument } else r

/-- `NewNetworkRule` = `parseRuleText`, then `loadOptions`, then two writes to pattern and shortcut. -/
theorem parseNetRule_parts {px : ParseExt} {t : Bytes} {id : Int} {r : NetRule}
    (h : parseNetRule px t id = .ok r) :
    ∃ pat opts wl r1, parseRuleText t = .ok (pat, opts, wl) ∧
      loadOptions px (initRule t wl id pat) opts = .ok r1 ∧
      r = { r1 with pattern := r.pattern, shortcut := r.shortcut } := by
  unfold parseNetRule at h
  obtain ⟨⟨pattern, options, whitelist⟩, hprt, h⟩ := bind_ok_elim h
  obtain ⟨r1, hl, h⟩ := bind_ok_elim h
  refine ⟨pattern, options, whitelist, r1, hprt, hl, ?_⟩
  extract_lets jp at h
  have hjp : ∀ r2, jp r2 = .ok r → r = { r2 with pattern := r.pattern, shortcut := r.shortcut } := by
    intro r2 h
    simp only [jp] at h
    refine ite_ok_elim h ?_ ?_ <;> clear h <;> intro h
    · cases h
    · obtain ⟨sc, _, h⟩ := bind_ok_elim h
      refine ite_ok_elim h ?_ ?_ <;> clear h <;> intro h
      · cases pure_ok_elim h; rfl
      · cases pure_ok_elim h; rfl
  refine ite_ok_elim h ?_ ?_ <;> clear h <;> intro h
  · obtain ⟨p, _, h⟩ := bind_ok_elim h
    obtain ⟨r2, hp, h⟩ := bind_ok_elim h
    cases pure_ok_elim hp
    have := hjp _ h
    rw [this]
  · obtain ⟨r2, hp, h⟩ := bind_ok_elim h
    cases pure_ok_elim hp
    exact hjp _ h

/-- `loadOptions` on comma-joined, escape-free pieces: the loop over the pieces, then the override. -/
theorem loadOptions_parts {px : ParseExt} {r0 r1 : NetRule} {parts : List Bytes} (hne : parts ≠ [])
    (hp : ∀ x ∈ parts, x ≠ []) (hs : sepFree (ch ',') parts) (he : sepFree (ch '\\') parts)
    (h : loadOptions px r0 (joinSep parts [ch ',']) = .ok r1) :
    ∃ r2, parts.foldlM (loadOptionsStep px) r0 = .ok r2 ∧ r1 = overrideDoc r2 := by
  unfold loadOptions at h
  have hj : (joinSep parts [ch ',']).isEmpty = false := by
    cases parts with
    | nil => exact absurd rfl hne
    | cons m ms => exact isEmpty_false (joinSep_ne_nil _ m ms (hp m List.mem_cons_self))
  rw [hj] at h
  simp only [Bool.false_eq_true, if_false] at h
  obtain ⟨list, hsp, h⟩ := bind_ok_elim h
  rw [split_join (ch ',') (ch '\\') (by decide) parts hne hp hs he] at hsp
  cases hsp
  obtain ⟨r2, hf, h⟩ := bind_ok_elim h
  refine ⟨r2, hf, ?_⟩
  refine ite_ok_elim_c h ?_ ?_ <;> clear h <;> intro hc h
  · cases pure_ok_elim h
    have : docOnlyB r2.enabled = true := hc
    rw [overrideDoc, if_pos this]
  · cases pure_ok_elim h
    have : ¬ docOnlyB r1.enabled = true := hc
    rw [overrideDoc, if_neg this]

theorem overrideDoc_init (t : Bytes) (wl : Bool) (id : Int) (p : Bytes) :
    overrideDoc (initRule t wl id p) = initRule t wl id p := by
  unfold overrideDoc
  rw [if_neg]
  show ¬ docOnlyB 0 = true
  decide

theorem patOK_cons {pat : Bytes} (h : patOK pat = true) :
    ∃ c rest, pat = c :: rest ∧ c ≠ ch '@' ∧ c ≠ ch '/' ∧ ch '$' ∉ c :: rest ∧ ch '\\' ∉ c :: rest := by
  cases pat with
  | nil => simp [patOK] at h
  | cons c rest =>
    simp only [patOK, Bool.and_eq_true, bne_iff_ne, ne_eq, Bool.not_eq_true', List.contains_eq_mem,
      decide_eq_false_iff_not] at h
    exact ⟨c, rest, rfl, h.1.1.1, h.1.1.2, h.1.2, h.2⟩

/-- `parseRuleText` on a rendered text gives back the pattern as written, the joined modifiers and the
    exception flag. -/
theorem parseRuleText_render {wl : Bool} {pat : Bytes} {ms : List Mod}
    (hp : patOK pat = true) (hm : ∀ m ∈ ms, m.valsOK = true) :
    parseRuleText (render wl pat ms) = .ok (pat, optsText ms, wl) := by
  obtain ⟨c, rest, rfl, hc1, hc2, hd, hb⟩ := patOK_cons hp
  exact parseRuleText_joined wl c rest (optsText ms) hc1 hc2 hd hb (optsText_noDollar ms hm)

/-- PARSING A RENDERED TEXT: every modifier field of the parsed rule is the fold of `applyMod` over the
    modifiers as written, with the document-only override of the permitted content types at the end. -/
theorem parse_render {px : ParseExt} {wl : Bool} {pat : Bytes} {ms : List Mod} {id : Int} {r : NetRule}
    (hp : patOK pat = true) (hm : ∀ m ∈ ms, m.valsOK = true)
    (h : parseNetRule px (render wl pat ms) id = .ok r) :
    r = { overrideDoc (ms.foldl (applyMod px.ext) (initRule (render wl pat ms) wl id pat)) with
          pattern := r.pattern, shortcut := r.shortcut } := by
  obtain ⟨pat', opts, wl', r1, hprt, hl, hr⟩ := parseNetRule_parts h
  obtain ⟨c, rest, rfl, hc1, hc2, hd, hb⟩ := patOK_cons hp
  have hrt := parseRuleText_joined wl c rest (optsText ms) hc1 hc2 hd hb (optsText_noDollar ms hm)
  rw [show ((if wl then lit "@@" else []) ++ (c :: rest) ++
      (if optsText ms = [] then [] else ch '$' :: optsText ms)) = render wl (c :: rest) ms from rfl] at hrt
  rw [hrt] at hprt
  cases hprt
  rw [hr]
  cases ms with
  | nil =>
    have : optsText ([] : List Mod) = [] := rfl
    rw [this] at hl
    unfold loadOptions at hl
    simp only [List.isEmpty_nil, if_true] at hl
    cases pure_ok_elim hl
    rw [List.foldl_nil, overrideDoc_init]
  | cons m ms =>
    have hne : (m :: ms).map renderMod ≠ [] := by simp
    obtain ⟨r2, hf, hr1⟩ := loadOptions_parts hne
      (fun x hx => by obtain ⟨m', _, rfl⟩ := List.mem_map.1 hx; exact renderMod_ne_nil m')
      (pieces_free _ hm (ch ',') (by decide)) (pieces_free _ hm (ch '\\') (by decide)) hl
    cases foldlM_effect (m :: ms) _ r2 hm hf
    rw [hr1]

end UF.L

import UF.Spec.Result
import UF.Proofs.Badfilter
import UF.Compose2.ParsePattern
/-
  Integration (group L), C08 part (a): a rule and its `$badfilter` twin match the SAME requests.

  `NetRule.matchFields` (the fields `negatesBadfilter` compares) drops the shortcut, `NetRule.matches` reads
  it (`matchShortcut`).  The gap is closed in two steps:
    * `matchFields_matches`: `matches` reads a rule only through its matching fields and its shortcut;
      the `$badfilter` bit (bit 3 of the enabled mask) is read by none of the ten checks (`twin_matches`);
    * the shortcut a parsed rule carries is a function of its STORED pattern (and of the `/regex/` shortcut
      oracle of `px`), group I2's `parseNetRule_pattern`/`ShortcutOK`: two parsed rules with the same pattern
      have the same shortcut (`parsed_same_pattern_same_shortcut`).
-/
namespace UF.L
open UF UF.E

/-- `Match` reads a rule only through the matching-relevant fields and the shortcut (never the text, never
    the list id). -/
theorem matchFields_matches (ext : Ext) (x y : NetRule) (q : Request)
    (h : x.matchFields = y.matchFields) (hs : x.shortcut = y.shortcut) : x.matches ext q = y.matches ext q := by
  cases x; cases y
  simp only [NetRule.matchFields, NetRule.mk.injEq, true_and] at h
  simp only at hs
  obtain ⟨h1, h2, h3, h4, h5, h6, h7, h8, h9, h10, h11, h12, h13, h14, h15, h16⟩ := h
  subst h1 h2 h3 h4 h5 h6 h7 h8 h9 h10 h11 h12 h13 h14 h15 h16 hs
  rfl

/-- Setting bit 3 does not change bits 0 and 1. -/
theorem isEnabled_withBadfilter (x : NetRule) (k : Nat) (hk : k ≠ 3) :
    x.withBadfilter.isEnabled (2 ^ k) = x.isEnabled (2 ^ k) := by
  show ((x.enabled ||| 2 ^ 3) &&& 2 ^ k == 2 ^ k) = (x.enabled &&& 2 ^ k == 2 ^ k)
  rw [and_two_pow_beq, and_two_pow_beq, Nat.testBit_or, Nat.testBit_two_pow]
  have : decide (3 = k) = false := by simp; omega
  rw [this, Bool.or_false]

/-- None of the ten checks of `Match` reads the `$badfilter` bit. -/
theorem withBadfilter_matches (ext : Ext) (x : NetRule) (q : Request) :
    x.withBadfilter.matches ext q = x.matches ext q := by
  have h0 : x.withBadfilter.isEnabled Facts.OptionThirdParty = x.isEnabled Facts.OptionThirdParty :=
    isEnabled_withBadfilter x 0 (by omega)
  have h1 : x.withBadfilter.isEnabled Facts.OptionMatchCase = x.isEnabled Facts.OptionMatchCase :=
    isEnabled_withBadfilter x 1 (by omega)
  unfold NetRule.matches matchPattern
  rw [h0, h1]
  rfl

/-- A rule `xb` that carries the matching fields of `x$badfilter` and the shortcut of `x` matches exactly
    the requests `x` matches. -/
theorem twin_matches (ext : Ext) (x xb : NetRule) (q : Request)
    (hxb : xb.matchFields = x.withBadfilter.matchFields) (hs : xb.shortcut = x.shortcut) :
    xb.matches ext q = x.matches ext q := by
  rw [matchFields_matches ext xb x.withBadfilter q hxb hs, withBadfilter_matches]

/-- The shortcut of a parsed rule is a function of its stored pattern. -/
theorem shortcutOK_same_pattern {px : ParseExt} {r r' : NetRule} (h : I2.ShortcutOK px r)
    (h' : I2.ShortcutOK px r') (hp : r.pattern = r'.pattern) : r.shortcut = r'.shortcut := by
  unfold I2.ShortcutOK at h h'
  rw [hp] at h
  rcases h with ⟨hre, hs⟩ | ⟨hre, w, hw, hs⟩ <;> rcases h' with ⟨hre', hs'⟩ | ⟨hre', w', hw', hs'⟩
  · rw [hs, hs']
  · rw [hre] at hre'; cases hre'
  · rw [hre] at hre'; cases hre'
  · rw [hw] at hw'; cases hw'; rw [hs, hs']

/-- Two rules parsed (by the same parser, from any two texts, under any two list ids) to the same stored
    pattern carry the same shortcut. -/
theorem parsed_same_pattern_same_shortcut {px : ParseExt} {t t' : Bytes} {i j : Int} {r r' : NetRule}
    (h : parseNetRule px t i = .ok r) (h' : parseNetRule px t' j = .ok r') (hp : r.pattern = r'.pattern) :
    r.shortcut = r'.shortcut := by
  obtain ⟨_, _, _, _, _, _, hs⟩ := I2.parseNetRule_pattern h
  obtain ⟨_, _, _, _, _, _, hs'⟩ := I2.parseNetRule_pattern h'
  exact shortcutOK_same_pattern hs hs' hp

/-- Parsed twins: the same matching fields up to the `$badfilter` bit ⇒ the same pattern ⇒ the same shortcut
    ⇒ the same requests. -/
theorem parsed_twin_matches {px : ParseExt} {tx tb : Bytes} {i j : Int} {x xb : NetRule}
    (hx : parseNetRule px tx i = .ok x) (hb : parseNetRule px tb j = .ok xb)
    (hxb : xb.matchFields = x.withBadfilter.matchFields) (q : Request) :
    xb.matches px.ext q = x.matches px.ext q := by
  have hp : xb.pattern = x.pattern := ((matchFields_eq_iff _ _).1 hxb).2.1
  exact twin_matches px.ext x xb q hxb (parsed_same_pattern_same_shortcut hb hx hp)

end UF.L

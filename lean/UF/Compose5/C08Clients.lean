import UF.Compose5.C08Split
import UF.Compose5.C08Order
/-
  Integration (group L), C08 part (c), `$client`: `clients.finalize` sorts the host names (`slices.Sort`) and
  the subnets (`slices.SortFunc(nets, comparePrefix)`).  `comparePrefix` is a total preorder whose ties are
  prefixes equal up to the IPv6 ZONE of the address; on zone-free prefixes (the only ones `clients.add` can
  produce with the real `netip`: `IsProbablyIP` admits no `%`, `ParsePrefix` rejects zones) it is antisymmetric,
  so the sorted list is determined by the multiset and two `$client` values that are permutations of each other
  give EQUAL client sets.
-/
namespace UF.L
open UF UF.E Bytes

theorem prefixLe_total (a b : Prefix) : prefixLe a b = true ∨ prefixLe b a = true := by
  rcases a with ⟨⟨a4, av, az⟩, ab⟩
  rcases b with ⟨⟨b4, bv, bz⟩, bb⟩
  cases a4 <;> cases b4 <;> simp [prefixLe] <;> omega

theorem prefixLe_trans {a b c : Prefix} (h1 : prefixLe a b = true) (h2 : prefixLe b c = true) :
    prefixLe a c = true := by
  rcases a with ⟨⟨a4, av, az⟩, ab⟩
  rcases b with ⟨⟨b4, bv, bz⟩, bb⟩
  rcases c with ⟨⟨c4, cv, cz⟩, cb⟩
  cases a4 <;> cases b4 <;> cases c4 <;> simp [prefixLe] at h1 h2 ⊢ <;> omega

theorem prefixLe_antisymm {a b : Prefix} (ha : a.addr.zone = []) (hb : b.addr.zone = [])
    (h1 : prefixLe a b = true) (h2 : prefixLe b a = true) : a = b := by
  rcases a with ⟨⟨a4, av, az⟩, ab⟩
  rcases b with ⟨⟨b4, bv, bz⟩, bb⟩
  simp only at ha hb
  subst ha hb
  cases a4 <;> cases b4 <;> simp [prefixLe] at h1 h2 ⊢ <;> omega

def SortedP (l : List Prefix) : Prop := l.Pairwise (fun a b => prefixLe a b = true)

theorem insertPrefix_sorted (x : Prefix) (l : List Prefix) (h : SortedP l) : SortedP (insertPrefix x l) := by
  induction l with
  | nil => simp [insertPrefix, SortedP]
  | cons y ys ih =>
    simp only [insertPrefix]
    have hy := List.pairwise_cons.mp h
    split
    · rename_i hle
      refine List.pairwise_cons.mpr ⟨?_, h⟩
      intro z hz
      rcases List.mem_cons.mp hz with rfl | hz
      · exact hle
      · exact prefixLe_trans hle (hy.1 z hz)
    · rename_i hle
      have hyx : prefixLe y x = true := by
        rcases prefixLe_total x y with h' | h'
        · exact absurd h' hle
        · exact h'
      refine List.pairwise_cons.mpr ⟨?_, ih hy.2⟩
      intro z hz
      have := (insertPrefix_perm x ys).mem_iff.mp hz
      rcases List.mem_cons.mp this with rfl | hz
      · exact hyx
      · exact hy.1 z hz

theorem sortPrefixes_sorted (l : List Prefix) : SortedP (sortPrefixes l) := by
  induction l with
  | nil => simp [sortPrefixes, SortedP]
  | cons x l ih =>
    show SortedP (insertPrefix x (sortPrefixes l))
    exact insertPrefix_sorted x _ ih

/-- Two sorted lists of zone-free prefixes that are permutations of each other are equal. -/
theorem sortedP_perm_eq {l l' : List Prefix} (h : l.Perm l') (hl : SortedP l) (hl' : SortedP l')
    (hz : ∀ p ∈ l, p.addr.zone = []) : l = l' := by
  induction l generalizing l' with
  | nil => exact (List.nil_perm.mp h).symm ▸ rfl
  | cons x xs ih =>
    cases l' with
    | nil => exact absurd h.length_eq (by simp)
    | cons y ys =>
      have hx := List.pairwise_cons.mp hl
      have hy := List.pairwise_cons.mp hl'
      have h1 : x ∈ y :: ys := h.mem_iff.mp (List.mem_cons_self)
      have h2 : y ∈ x :: xs := h.mem_iff.mpr (List.mem_cons_self)
      have hxy : x = y := by
        rcases List.mem_cons.mp h1 with e | h1
        · exact e
        · rcases List.mem_cons.mp h2 with e | h2'
          · exact e.symm
          · exact prefixLe_antisymm (hz x (by simp)) (hz y h2) (hx.1 y h2') (hy.1 x h1)
      subst hxy
      rw [ih (List.Perm.cons_inv h) hx.2 hy.2 (fun p hp => hz p (by simp [hp]))]

/-- The finalized client sets of two accumulators with the same members are EQUAL when the subnets carry no
    zone. -/
theorem finalize_eq_of_permEquiv {a b : Option Clients}
    (h : Clients.PermEquiv (Clients.finalize a) (Clients.finalize b))
    (hz : ∀ c, Clients.finalize a = some c → ∀ p ∈ c.nets, p.addr.zone = []) :
    Clients.finalize a = Clients.finalize b := by
  cases a with
  | none =>
    cases b with
    | none => rfl
    | some b => exact h.elim
  | some a =>
    cases b with
    | none => exact h.elim
    | some b =>
      simp only [Clients.finalize, Clients.PermEquiv] at h ⊢
      have hn := sortedP_perm_eq h.2 (sortPrefixes_sorted _) (sortPrefixes_sorted _) (hz _ rfl)
      rw [h.1, hn]

/-- `loadClients` on a `|`-joined list of clean values (non-empty, no `|`, no backslash). -/
theorem loadClients_joinSep (ext : Ext) (l : List Bytes) (hne : l ≠ [])
    (hc : ∀ x ∈ l, x ≠ [] ∧ CleanItem (ch '|') (ch '\\') x) :
    loadClients ext (joinSep l [ch '|']) = (do
      let (p, r) ← l.foldlM (loadClientsStep ext) (none, none)
      pure (Clients.finalize p, Clients.finalize r)) := by
  unfold loadClients
  rw [joinSep_isEmpty_false l _ hne (fun d hd => (hc d hd).1),
    splitEsc_joinSep (ch '|') (ch '\\') (by decide) l hne hc]
  rfl

/-- `$client` values written in another order: the finalized pairs are related by `PermEquiv`. -/
theorem loadClients_perm (ext : Ext) {l l' : List Bytes} (hperm : l.Perm l') (hne : l ≠ [])
    (hc : ∀ x ∈ l, x ≠ [] ∧ CleanItem (ch '|') (ch '\\') x) {p rs p' rs' : Option Clients}
    (h : loadClients ext (joinSep l [ch '|']) = .ok (p, rs))
    (h' : loadClients ext (joinSep l' [ch '|']) = .ok (p', rs')) :
    Clients.PermEquiv p p' ∧ Clients.PermEquiv rs rs' ∧
      (∃ a, p = Clients.finalize a) ∧ (∃ a, rs = Clients.finalize a) ∧
      (∃ a, p' = Clients.finalize a) ∧ (∃ a, rs' = Clients.finalize a) := by
  have hne' : l' ≠ [] := ne_nil_perm hperm hne
  have hc' : ∀ x ∈ l', x ≠ [] ∧ CleanItem (ch '|') (ch '\\') x := fun x hx => hc x (hperm.mem_iff.2 hx)
  rw [loadClients_joinSep ext l hne hc] at h
  rw [loadClients_joinSep ext l' hne' hc'] at h'
  obtain ⟨⟨a1, a2⟩, e, h⟩ := bind_ok_elim h
  obtain ⟨⟨b1, b2⟩, e', h'⟩ := bind_ok_elim h'
  have hrel := loadClients_items_perm ext hperm
  rw [e, e'] at hrel
  simp only [PE.Rel] at hrel
  have h := pure_ok_elim h
  have h' := pure_ok_elim h'
  simp only [Prod.mk.injEq] at h h'
  rw [← h.1, ← h.2, ← h'.1, ← h'.2]
  exact ⟨hrel.1, hrel.2, ⟨a1, rfl⟩, ⟨a2, rfl⟩, ⟨b1, rfl⟩, ⟨b2, rfl⟩⟩

end UF.L

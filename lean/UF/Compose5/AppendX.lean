import UF.Compose5.TextKey
/-
  Group P1 (review 2, F7): how ONE MORE modifier changes what the priority order reads — the cases the
  text-level theorems of group L left open: `document`, `~extension`, a modifier the rule already carries,
  a list-valued modifier written again, one more VALUE in a list-valued modifier.
  Helper lemmas only; the property theorems are in UF/Props/C07TextExact.lean.
-/
namespace UF.L
open UF UF.E Bytes UF.Compose3

/-! ### bit counting -/

theorem popCount_or_and (a b : Nat) : popCount (a ||| b) + popCount (a &&& b) = popCount a + popCount b := by
  induction a using Nat.strongRecOn generalizing b with
  | _ a ih =>
    by_cases ha : a = 0
    · subst ha
      simp [popCount_zero]
    · rw [popCount_step (a ||| b), popCount_step (a &&& b), popCount_step a, popCount_step b,
        Nat.or_div_two, Nat.and_div_two]
      have h2 := ih (a / 2) (Nat.div_lt_self (Nat.pos_of_ne_zero ha) (by decide)) (b / 2)
      have hm : (a ||| b) % 2 + (a &&& b) % 2 = a % 2 + b % 2 := by
        have e1 := @Nat.or_mod_two_pow a b 1
        have e2 := @Nat.and_mod_two_pow a b 1
        rw [Nat.pow_one] at e1 e2
        rw [e1, e2]
        rcases Nat.mod_two_eq_zero_or_one a with h | h <;> rcases Nat.mod_two_eq_zero_or_one b with h' | h' <;>
          rw [h, h'] <;> decide
      omega

theorem popCount_and_le (a b : Nat) : popCount (a &&& b) ≤ popCount b := by
  induction b using Nat.strongRecOn generalizing a with
  | _ b ih =>
    by_cases hb : b = 0
    · subst hb
      simp [popCount_zero]
    · rw [popCount_step (a &&& b), popCount_step b, Nat.and_div_two]
      have h2 := ih (b / 2) (Nat.div_lt_self (Nat.pos_of_ne_zero hb) (by decide)) (a / 2)
      have hm : (a &&& b) % 2 ≤ b % 2 := by
        have e2 := @Nat.and_mod_two_pow a b 1
        rw [Nat.pow_one] at e2
        rw [e2]
        rcases Nat.mod_two_eq_zero_or_one a with h | h <;> rcases Nat.mod_two_eq_zero_or_one b with h' | h' <;>
          rw [h, h'] <;> decide
      omega

theorem or_eq_of_and_eq {e b : Nat} (h : e &&& b = b) : e ||| b = e := by
  apply Nat.eq_of_testBit_eq
  intro i
  have := congrArg (fun n => n.testBit i) h
  simp only [Nat.testBit_and] at this
  rw [Nat.testBit_or]
  cases he : e.testBit i <;> cases hb : b.testBit i <;> simp_all

theorem xor_pow_of_clear {e k : Nat} (h : e.testBit k = false) : e ^^^ 2 ^ k = e ||| 2 ^ k := by
  apply Nat.eq_of_testBit_eq
  intro i
  rw [Nat.testBit_xor, Nat.testBit_or, Nat.testBit_two_pow]
  by_cases hi : k = i
  · subst hi; simp [h]
  · simp [hi]

theorem xor_pow_of_set {e k : Nat} (h : e.testBit k = true) :
    (e ^^^ 2 ^ k).testBit k = false ∧ (e ^^^ 2 ^ k) ||| 2 ^ k = e := by
  constructor
  · rw [Nat.testBit_xor, Nat.testBit_two_pow, h]; simp
  · apply Nat.eq_of_testBit_eq
    intro i
    rw [Nat.testBit_or, Nat.testBit_xor, Nat.testBit_two_pow]
    by_cases hi : k = i
    · subst hi; simp [h]
    · simp [hi]

/-! ### comparing two rules whose class and `$redirect` bit agree -/

/-- Class, `$redirect`, generic/specific equal and `count' + a = count + b`: higher iff `a < b`, lower iff
    `a > b`. -/
theorem higher_of_counts (r' r : NetRule) (hc : classRank r' = classRank r)
    (hr : r'.redirect = r.redirect) (hg : r'.isGeneric = r.isGeneric) (a b : Nat)
    (h : modifierCount r' + a = modifierCount r + b) :
    isHigherPriority r' r = decide (a < b) ∧ isHigherPriority r r' = decide (a > b) := by
  constructor
  · rw [higher_eq_count _ _ hc hr hg]
    apply decide_eq_decide.2
    constructor <;> intro hh <;> omega
  · rw [higher_eq_count _ _ hc.symm hr.symm hg.symm]
    apply decide_eq_decide.2
    constructor <;> intro hh <;> omega

/-- Class, `$redirect` and count equal: the specific rule is higher. -/
theorem higher_of_generic (r' r : NetRule) (hc : classRank r' = classRank r)
    (hr : r'.redirect = r.redirect) (hm : modifierCount r' = modifierCount r) :
    isHigherPriority r' r = (r.isGeneric && !r'.isGeneric) := by
  apply Bool.eq_iff_iff.2
  rw [higher_iff_key]
  unfold PKey.gt pkey
  simp only [hc, hr, hm]
  cases r.isGeneric <;> cases r'.isGeneric <;> simp

theorem isEnabled_or_mask (e d : Nat) (k : Nat) (hd : d.testBit k = false) :
    (((e ||| d) &&& 2 ^ k) == 2 ^ k) = ((e &&& 2 ^ k) == 2 ^ k) := by
  rw [and_two_pow_beq, and_two_pow_beq, Nat.testBit_or, hd, Bool.or_false]

theorem docOnlyB_docBits (e : Nat) : docOnlyB (e ||| docBits) = true := by
  rw [docOnlyB_or]
  have : docOnlyB docBits = true := by decide
  rw [this, Bool.or_true]

/-- `document` appended: five option bits (those not yet set), and the permitted content types become
    `document`. -/
theorem document_counts (R : NetRule) :
    classRank (overrideDoc { R with enabled := R.enabled ||| docBits }) = classRank (overrideDoc R) ∧
    (overrideDoc { R with enabled := R.enabled ||| docBits }).redirect = (overrideDoc R).redirect ∧
    (overrideDoc { R with enabled := R.enabled ||| docBits }).isGeneric = (overrideDoc R).isGeneric ∧
    modifierCount (overrideDoc { R with enabled := R.enabled ||| docBits }) +
        (popCount (overrideDoc R).permTypes + popCount ((overrideDoc R).enabled &&& docBits)) =
      modifierCount (overrideDoc R) + 6 := by
  have hB : overrideDoc { R with enabled := R.enabled ||| docBits } =
      { R with enabled := R.enabled ||| docBits, permTypes := Facts.TypeDocument } := by
    unfold overrideDoc
    show (if docOnlyB (R.enabled ||| docBits) = true then _ else _) = _
    rw [docOnlyB_docBits]; rfl
  rw [hB, overrideDoc_eq]
  have himp : ({ R with enabled := R.enabled ||| docBits, permTypes := Facts.TypeDocument } : NetRule).important =
      R.important := isEnabled_or_mask R.enabled docBits 2 (by decide)
  have hred : ({ R with enabled := R.enabled ||| docBits, permTypes := Facts.TypeDocument } : NetRule).redirect =
      R.redirect := isEnabled_or_mask R.enabled docBits 18 (by decide)
  refine ⟨?_, hred, rfl, ?_⟩
  · unfold classRank
    rw [himp]
    rfl
  · unfold modifierCount
    simp only
    have h1 := popCount_or_and R.enabled docBits
    have h2 : popCount docBits = 5 := by decide
    have h3 : popCount Facts.TypeDocument = 1 := by decide
    rw [h3]
    omega

/-- One document-only option bit that is not yet set (`k` is none of `important` = 2, `$redirect` = 18). -/
theorem doconly_bit_counts (R : NetRule) (k : Nat) (hk2 : k ≠ 2) (hk18 : k ≠ 18)
    (hdoc : docOnlyB (2 ^ k) = true) (hbit : R.enabled.testBit k = false) :
    classRank (overrideDoc { R with enabled := R.enabled ||| 2 ^ k }) = classRank (overrideDoc R) ∧
    (overrideDoc { R with enabled := R.enabled ||| 2 ^ k }).redirect = (overrideDoc R).redirect ∧
    (overrideDoc { R with enabled := R.enabled ||| 2 ^ k }).isGeneric = (overrideDoc R).isGeneric ∧
    modifierCount (overrideDoc { R with enabled := R.enabled ||| 2 ^ k }) + popCount (overrideDoc R).permTypes =
      modifierCount (overrideDoc R) + 2 := by
  have hB : overrideDoc { R with enabled := R.enabled ||| 2 ^ k } =
      { R with enabled := R.enabled ||| 2 ^ k, permTypes := Facts.TypeDocument } := by
    unfold overrideDoc
    show (if docOnlyB (R.enabled ||| 2 ^ k) = true then _ else _) = _
    rw [docOnlyB_or, hdoc, Bool.or_true]; rfl
  rw [hB, overrideDoc_eq]
  have himp : ({ R with enabled := R.enabled ||| 2 ^ k, permTypes := Facts.TypeDocument } : NetRule).important =
      R.important := by
    show (((R.enabled ||| 2 ^ k) &&& 2 ^ 2) == 2 ^ 2) = ((R.enabled &&& 2 ^ 2) == 2 ^ 2)
    rw [isEnabled_or_two_pow, and_two_pow_beq]; simp [hk2]
  have hred : ({ R with enabled := R.enabled ||| 2 ^ k, permTypes := Facts.TypeDocument } : NetRule).redirect =
      R.redirect := by
    show (((R.enabled ||| 2 ^ k) &&& 2 ^ 18) == 2 ^ 18) = ((R.enabled &&& 2 ^ 18) == 2 ^ 18)
    rw [isEnabled_or_two_pow, and_two_pow_beq]; simp [hk18]
  refine ⟨?_, hred, rfl, ?_⟩
  · unfold classRank
    rw [himp]
    rfl
  · unfold modifierCount
    simp only
    rw [popCount_or_two_pow k R.enabled hbit, show popCount Facts.TypeDocument = 1 by decide]
    omega

/-! ### a modifier the rule already carries -/

/-- Does the parsed rule `r` already carry what the modifier `m` would set?  (List-valued modifiers: see
    `c07_text_domain_again_iff`, `c07_text_list_again_tie`.) -/
def Mod.carriedBy (r : NetRule) : Mod → Bool
  | .opt o => r.isEnabled o.bit
  | .thirdParty _ => r.isEnabled Facts.OptionThirdParty
  | .firstParty _ => r.isDisabled Facts.OptionThirdParty
  | .notMatchCase => r.isDisabled Facts.OptionMatchCase
  | .document => r.isEnabled docBits
  | .ctype false c => E.documentOnlyOptions.any (fun x => r.isEnabled x) || (r.permTypes &&& c.bit) == c.bit
  | .ctype true c => (r.restrTypes &&& c.bit) == c.bit
  | _ => false

theorem overrideDoc_fields (R : NetRule) :
    (overrideDoc R).enabled = R.enabled ∧ (overrideDoc R).disabled = R.disabled ∧
    (overrideDoc R).restrTypes = R.restrTypes := by
  unfold overrideDoc
  split <;> exact ⟨rfl, rfl, rfl⟩

/-- Applying a modifier that is already carried changes nothing after the override. -/
theorem applyMod_carried (ext : Ext) (R : NetRule) (m : Mod) (h : Mod.carriedBy (overrideDoc R) m = true) :
    overrideDoc (applyMod ext R m) = overrideDoc R := by
  obtain ⟨fe, fd, fr⟩ := overrideDoc_fields R
  cases m with
  | opt o =>
    have : R.enabled ||| o.bit = R.enabled := by
      apply or_eq_of_and_eq
      have h' : ((overrideDoc R).enabled &&& o.bit) == o.bit := h
      rw [fe] at h'
      exact eq_of_beq h'
    show overrideDoc { R with enabled := R.enabled ||| o.bit } = _
    rw [this]
  | thirdParty alt =>
    have : R.enabled ||| Facts.OptionThirdParty = R.enabled := by
      apply or_eq_of_and_eq
      have h' : ((overrideDoc R).enabled &&& Facts.OptionThirdParty) == Facts.OptionThirdParty := h
      rw [fe] at h'
      exact eq_of_beq h'
    show overrideDoc { R with enabled := R.enabled ||| Facts.OptionThirdParty } = _
    rw [this]
  | firstParty alt =>
    have : R.disabled ||| Facts.OptionThirdParty = R.disabled := by
      apply or_eq_of_and_eq
      have h' : ((overrideDoc R).disabled &&& Facts.OptionThirdParty) == Facts.OptionThirdParty := h
      rw [fd] at h'
      exact eq_of_beq h'
    show overrideDoc { R with disabled := R.disabled ||| Facts.OptionThirdParty } = _
    rw [this]
  | notMatchCase =>
    have : R.disabled ||| Facts.OptionMatchCase = R.disabled := by
      apply or_eq_of_and_eq
      have h' : ((overrideDoc R).disabled &&& Facts.OptionMatchCase) == Facts.OptionMatchCase := h
      rw [fd] at h'
      exact eq_of_beq h'
    show overrideDoc { R with disabled := R.disabled ||| Facts.OptionMatchCase } = _
    rw [this]
  | document =>
    have : R.enabled ||| docBits = R.enabled := by
      apply or_eq_of_and_eq
      have h' : ((overrideDoc R).enabled &&& docBits) == docBits := h
      rw [fe] at h'
      exact eq_of_beq h'
    show overrideDoc { R with enabled := R.enabled ||| docBits } = _
    rw [this]
  | ctype neg c =>
    cases neg with
    | true =>
      have : R.restrTypes ||| c.bit = R.restrTypes := by
        apply or_eq_of_and_eq
        have h' : ((overrideDoc R).restrTypes &&& c.bit) == c.bit := h
        rw [fr] at h'
        exact eq_of_beq h'
      show overrideDoc { R with restrTypes := R.restrTypes ||| c.bit } = _
      rw [this]
    | false =>
      show overrideDoc { R with permTypes := R.permTypes ||| c.bit } = _
      cases hd : docOnlyB R.enabled with
      | true => exact overrideDoc_permTypes_doc R _ hd
      | false =>
        have h' : (docOnlyB (overrideDoc R).enabled || ((overrideDoc R).permTypes &&& c.bit) == c.bit) = true := h
        rw [fe, hd, Bool.false_or] at h'
        have hp : (overrideDoc R).permTypes = R.permTypes := by unfold overrideDoc; rw [hd]; rfl
        rw [hp] at h'
        have : R.permTypes ||| c.bit = R.permTypes := or_eq_of_and_eq (eq_of_beq h')
        rw [this]
  | domain vs => cases h
  | denyallow vs => cases h
  | dnstype vs => cases h
  | ctag vs => cases h
  | client vs => cases h

/-! ### list-valued modifiers by kind -/

/-- The five list-valued modifiers. -/
inductive ListKind where
  | domain | denyallow | dnstype | ctag | client
  deriving DecidableEq, Repr, Inhabited

/-- The modifier of kind `k` with the values `vs` (`$denyallow` values carry no negation: the flag is dropped). -/
def ListKind.mod : ListKind → List (Bool × Bytes) → Mod
  | .domain, vs => .domain vs
  | .denyallow, vs => .denyallow (vs.map (·.2))
  | .dnstype, vs => .dnstype vs
  | .ctag, vs => .ctag vs
  | .client, vs => .client vs

theorem posVals_insert_isEmpty {α} (a b : List (Bool × α)) (v : Bool × α) :
    (posVals (a ++ v :: b)).isEmpty = ((posVals (a ++ b)).isEmpty && v.1) := by
  obtain ⟨neg, d⟩ := v
  unfold posVals
  simp only [List.filter_append, List.filter_cons, List.map_append]
  cases neg <;> simp

theorem filterMap_insert_ne {α β} (f : α → Option β) (a b : List α) (v : α)
    (h : ((a ++ b).filterMap f).length != 0) : ((a ++ v :: b).filterMap f).length != 0 := by
  simp only [List.filterMap_append, List.length_append, bne_iff_ne, ne_eq] at h ⊢
  have hle : (List.filterMap f b).length ≤ (List.filterMap f (v :: b)).length := by
    rw [List.filterMap_cons]
    cases f v <;> simp
  omega

/-- One more value in a list-valued modifier: the state after the modifier changes at most in `specific`
    (a first permitted `$domain` value).  `hdns`: some `$dnstype` name of the shorter list is known. -/
theorem stepP_add_value (s : PState) (k : ListKind) (a b : List (Bool × Bytes)) (v : Bool × Bytes)
    (hne : a ++ b ≠ [])
    (hdns : k = .dnstype → (((posVals (a ++ b)).filterMap dnsTypeNumber).length != 0 ||
      ((negVals (a ++ b)).filterMap dnsTypeNumber).length != 0) = true) :
    stepP s (.base (k.mod (a ++ v :: b))) =
      { stepP s (.base (k.mod (a ++ b))) with
        specific := if k = .domain then !((posVals (a ++ b)).isEmpty && v.1)
                    else (stepP s (.base (k.mod (a ++ b)))).specific } := by
  have hne' : a ++ v :: b ≠ [] := by simp
  cases k with
  | domain =>
    show ({ s with specific := !(posVals (a ++ v :: b)).isEmpty,
                   dom := (posVals (a ++ v :: b)).length != 0 || (negVals (a ++ v :: b)).length != 0 } : PState) = _
    rw [posNeg_ne_zero _ hne', posVals_insert_isEmpty]
    show _ = ({ s with specific := !((posVals (a ++ b)).isEmpty && v.1),
                       dom := (posVals (a ++ b)).length != 0 || (negVals (a ++ b)).length != 0 } : PState)
    rw [posNeg_ne_zero _ hne]
  | denyallow =>
    show ({ s with deny := ((a ++ v :: b).map (·.2)).length != 0 } : PState) =
      ({ s with deny := ((a ++ b).map (·.2)).length != 0 } : PState)
    have h1 : (((a ++ v :: b).map (·.2)).length != 0) = true := by simp
    have h2 : (((a ++ b).map (·.2)).length != 0) = true := by
      have : (a ++ b).length ≠ 0 := fun h0 => hne (List.eq_nil_of_length_eq_zero h0)
      simpa using this
    rw [h1, h2]
  | dnstype =>
    have h0 := hdns rfl
    show ({ s with dns := ((posVals (a ++ v :: b)).filterMap dnsTypeNumber).length != 0 ||
        ((negVals (a ++ v :: b)).filterMap dnsTypeNumber).length != 0 } : PState) =
      ({ s with dns := ((posVals (a ++ b)).filterMap dnsTypeNumber).length != 0 ||
        ((negVals (a ++ b)).filterMap dnsTypeNumber).length != 0 } : PState)
    rw [h0]
    have : (((posVals (a ++ v :: b)).filterMap dnsTypeNumber).length != 0 ||
        ((negVals (a ++ v :: b)).filterMap dnsTypeNumber).length != 0) = true := by
      obtain ⟨neg, d⟩ := v
      rcases Bool.or_eq_true_iff.1 h0 with hp | hn
      · have : (((posVals (a ++ (neg, d) :: b)).filterMap dnsTypeNumber).length != 0) = true := by
          unfold posVals at hp ⊢
          simp only [List.filter_append, List.filter_cons, List.map_append] at hp ⊢
          cases neg
          · simp only [Bool.not_false, if_true, List.map_cons]
            exact filterMap_insert_ne _ _ _ _ hp
          · simpa using hp
        rw [this, Bool.true_or]
      · have : (((negVals (a ++ (neg, d) :: b)).filterMap dnsTypeNumber).length != 0) = true := by
          unfold negVals at hn ⊢
          simp only [List.filter_append, List.filter_cons, List.map_append] at hn ⊢
          cases neg
          · simpa using hn
          · simp only [if_true, List.map_cons]
            exact filterMap_insert_ne _ _ _ _ hn
        rw [this, Bool.or_true]
    rw [this]
  | ctag =>
    show ({ s with tag := (posVals (a ++ v :: b)).length != 0 || (negVals (a ++ v :: b)).length != 0 } : PState) =
      ({ s with tag := (posVals (a ++ b)).length != 0 || (negVals (a ++ b)).length != 0 } : PState)
    rw [posNeg_ne_zero _ hne', posNeg_ne_zero _ hne]
  | client =>
    show ({ s with cli := (posVals (a ++ v :: b)).length != 0 || (negVals (a ++ v :: b)).length != 0 } : PState) =
      ({ s with cli := (posVals (a ++ b)).length != 0 || (negVals (a ++ b)).length != 0 } : PState)
    rw [posNeg_ne_zero _ hne', posNeg_ne_zero _ hne]

theorem keyP_specific_gt (wl : Bool) (s : PState) :
    (keyP wl { s with specific := true }).gt (keyP wl { s with specific := false }) ∧
    ¬ (keyP wl { s with specific := false }).gt (keyP wl { s with specific := true }) := by
  unfold PKey.gt keyP PState.count PState.effTypes
  simp

theorem pstate_eta_specific (s : PState) : { s with specific := s.specific } = s := rfl

/-! ### replacing a counted list by another non-empty one -/

theorem tie_of_pkey {a b : NetRule} (h : pkey a = pkey b) :
    isHigherPriority a b = false ∧ isHigherPriority b a = false := by
  constructor
  · rw [higher_false_iff, h]; exact PKey.gt_irrefl _
  · rw [higher_false_iff, h]; exact PKey.gt_irrefl _

theorem length_bne_of_ne {α} {l : List α} (h : l ≠ []) : (l.length != 0) = true := by
  have : l.length ≠ 0 := fun h0 => h (List.eq_nil_of_length_eq_zero h0)
  simpa using this

theorem flag2_of_ne {α} {p q : List α} (h : p ≠ [] ∨ q ≠ []) : (p.length != 0 || q.length != 0) = true := by
  rcases h with h | h
  · rw [length_bne_of_ne h, Bool.true_or]
  · rw [length_bne_of_ne h, Bool.or_true]

theorem pkey_denyallow (A : NetRule) (l : List Bytes) (h1 : A.denyallow ≠ []) (h2 : l ≠ []) :
    pkey { A with denyallow := l } = pkey A := by
  unfold pkey classRank modifierCount NetRule.redirect NetRule.important NetRule.isEnabled NetRule.isGeneric
  simp only [length_bne_of_ne h1, length_bne_of_ne h2]

theorem pkey_dns (A : NetRule) (p q : List Nat) (h1 : A.permDns ≠ [] ∨ A.restrDns ≠ []) (h2 : p ≠ [] ∨ q ≠ []) :
    pkey { A with permDns := p, restrDns := q } = pkey A := by
  unfold pkey classRank modifierCount NetRule.redirect NetRule.important NetRule.isEnabled NetRule.isGeneric
  simp only [flag2_of_ne h1, flag2_of_ne h2]

theorem pkey_tags (A : NetRule) (p q : List Bytes) (h1 : A.permTags ≠ [] ∨ A.restrTags ≠ [])
    (h2 : p ≠ [] ∨ q ≠ []) : pkey { A with permTags := p, restrTags := q } = pkey A := by
  unfold pkey classRank modifierCount NetRule.redirect NetRule.important NetRule.isEnabled NetRule.isGeneric
  simp only [flag2_of_ne h1, flag2_of_ne h2]

theorem pkey_clients (A : NetRule) (p q : Option Clients)
    (h1 : (Clients.len A.permClients != 0 || Clients.len A.restrClients != 0) = true)
    (h2 : (Clients.len p != 0 || Clients.len q != 0) = true) :
    pkey { A with permClients := p, restrClients := q } = pkey A := by
  unfold pkey classRank modifierCount NetRule.redirect NetRule.important NetRule.isEnabled NetRule.isGeneric
  simp only [h1, h2]

theorem ListKind.mod_ne {k : ListKind} {vs : List (Bool × Bytes)} (h : (k.mod vs).valsOK = true) : vs ≠ [] := by
  intro e
  subst e
  cases k <;> simp [ListKind.mod, Mod.valsOK] at h

end UF.L

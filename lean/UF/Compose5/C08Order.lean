import UF.Props.C08
import UF.Proofs.ParsePerm
import UF.Proofs.ParseWF
/-
  Integration (group L), C08 part (c): helper lemmas for the VALUE-ORDER inconsistency of the twin relation.

  `negatesBadfilter` compares the list-valued modifiers with `slices.Equal` / `clients.Equal`.  `$ctag` values and
  `$client` host names / subnets are SORTED when the rule is parsed, `$domain`, `$denyallow` and `$dnstype` values
  are kept in the written order.  Hence `$ctag=y|x,badfilter` disables `$ctag=x|y` while `$domain=b.com|a.com,badfilter`
  does not disable `$domain=a.com|b.com`.

  The lemmas speak about `loadOption` on the modifier VALUE TEXT (`v1|v2|…`): the state of the rule under
  construction after this one modifier, starting from two states that are twins.
-/
namespace UF.L
open UF UF.E Bytes

/-! ### the branches of `loadOption` -/

theorem c08_loadOption_ctag (px : ParseExt) (r : NetRule) (v : Bytes) :
    loadOption px r (lit "ctag") v = (do
      let (p, rs) ← loadCTags v
      pure { r with permTags := p, restrTags := rs }) := by
  unfold loadOption; rfl

theorem c08_loadOption_client (px : ParseExt) (r : NetRule) (v : Bytes) :
    loadOption px r (lit "client") v = (do
      let (p, rs) ← loadClients px.ext v
      pure { r with permClients := p, restrClients := rs }) := by
  unfold loadOption; rfl

theorem c08_loadOption_domain (px : ParseExt) (r : NetRule) (v : Bytes) :
    loadOption px r (lit "domain") v = (do
      let (p, rs) ← loadDomains v (ch '|')
      pure { r with permDomains := p, restrDomains := rs }) := by
  unfold loadOption; rfl

theorem c08_loadOption_denyallow (px : ParseExt) (r : NetRule) (v : Bytes) :
    loadOption px r (lit "denyallow") v = (do
      let (p, rs) ← loadDomains v (ch '|')
      if rs.length > 0 || p.length == 0 then throw .err
      else pure { r with denyallow := p }) := by
  unfold loadOption; rfl

theorem c08_loadOption_dnstype (px : ParseExt) (r : NetRule) (v : Bytes) :
    loadOption px r (lit "dnstype") v = (do
      let (p, rs) ← loadDNSTypes v
      pure { r with permDns := p, restrDns := rs }) := by
  unfold loadOption; rfl

/-! ### joined values -/

theorem joinSep_isEmpty_false (l : List Bytes) (sep : UInt8) (hne : l ≠ []) (h : ∀ d ∈ l, d ≠ []) :
    (joinSep l [sep]).isEmpty = false := by
  cases l with
  | nil => exact absurd rfl hne
  | cons p ps =>
    have hp : p ≠ [] := h p (by simp)
    cases ps with
    | nil =>
      cases p with
      | nil => exact absurd rfl hp
      | cons => rfl
    | cons q qs =>
      cases p with
      | nil => exact absurd rfl hp
      | cons => rfl

/-! ### `$domain` / `$denyallow`: the written order is kept -/

/-- A plain (not `~`-negated) value `loadDomains` accepts. -/
def PlainDomain (d : Bytes) : Prop :=
  d ≠ [] ∧ hasPrefix d (lit "~") = false ∧
    ∃ n, isDomainNameC d = .ok n ∧ (!n && !hasSuffix d (lit ".*")) = false

/-- A non-empty list of plain values without the separator. -/
def PlainDomains (l : List Bytes) : Prop := l ≠ [] ∧ sepFree (ch '|') l ∧ ∀ d ∈ l, PlainDomain d

theorem loadDomainsStep_plain (acc : List Bytes × List Bytes) (d : Bytes) (h : PlainDomain d) :
    loadDomainsStep acc d = .ok (acc.1 ++ [d], acc.2) := by
  obtain ⟨_, hp, n, hn, hc⟩ := h
  unfold loadDomainsStep
  simp only [hp, Bool.false_eq_true, if_false, bind, Except.bind, pure, Except.pure, hn, hc]

theorem foldlM_loadDomains_plain (l : List Bytes) (h : ∀ d ∈ l, PlainDomain d) (acc : List Bytes × List Bytes) :
    l.foldlM loadDomainsStep acc = .ok (acc.1 ++ l, acc.2) := by
  induction l generalizing acc with
  | nil => simp [List.foldlM, pure, Except.pure]
  | cons d ds ih =>
    rw [List.foldlM_cons, loadDomainsStep_plain acc d (h d (by simp))]
    simp only [bind, Except.bind]
    rw [ih (fun x hx => h x (by simp [hx]))]
    simp

/-- `loadDomains` keeps the written order. -/
theorem loadDomains_plain (l : List Bytes) (h : PlainDomains l) :
    loadDomains (joinSep l [ch '|']) (ch '|') = .ok (l, []) := by
  obtain ⟨hne, hs, hp⟩ := h
  unfold loadDomains
  rw [joinSep_isEmpty_false l _ hne (fun d hd => (hp d hd).1), splitByte_joinSep l _ hne hs,
    foldlM_loadDomains_plain l hp]
  simp

/-- Executable test for `PlainDomains` (for examples). -/
def plainDomainsB (l : List Bytes) : Bool :=
  !l.isEmpty && l.all fun d =>
    !d.contains (ch '|') && !d.isEmpty && !hasPrefix d (lit "~") &&
      match isDomainNameC d with
      | .ok n => n || hasSuffix d (lit ".*")
      | .error _ => false

theorem plainDomains_of_B (l : List Bytes) (h : plainDomainsB l = true) : PlainDomains l := by
  unfold plainDomainsB at h
  simp only [Bool.and_eq_true, Bool.not_eq_true', List.all_eq_true] at h
  obtain ⟨hne, hall⟩ := h
  refine ⟨(by intro e; rw [e] at hne; cases hne), ?_, ?_⟩
  · intro d hd hm
    have := (hall d hd).1.1.1
    rw [List.contains_eq_mem] at this
    simp [hm] at this
  · intro d hd
    obtain ⟨⟨⟨_, h2⟩, h3⟩, h4⟩ := hall d hd
    refine ⟨(by intro e; rw [e] at h2; cases h2), h3, ?_⟩
    cases hn : isDomainNameC d with
    | error e => rw [hn] at h4; cases h4
    | ok n =>
      rw [hn] at h4
      refine ⟨n, rfl, ?_⟩
      simp only at h4
      cases n <;> simp_all

/-! ### `$dnstype`: the written order is kept -/

/-- A non-empty list of plain (not `~`-negated) record type names with their numbers. -/
def PlainTypes (l : List Bytes) (f : Bytes → Nat) : Prop :=
  l ≠ [] ∧ sepFree (ch '|') l ∧ ∀ s ∈ l, s ≠ [] ∧ s.head? ≠ some (ch '~') ∧ strToRRType s = .ok (f s)

theorem loadDNSTypesStep_plain (acc : List Nat × List Nat) (s : Bytes) (t : Nat)
    (h : s ≠ [] ∧ s.head? ≠ some (ch '~') ∧ strToRRType s = .ok t) :
    loadDNSTypesStep acc s = .ok (acc.1 ++ [t], acc.2) := by
  obtain ⟨h1, h2, h3⟩ := h
  cases s with
  | nil => exact absurd rfl h1
  | cons c cs =>
    have hc : ¬ c = ch '~' := by
      intro hc
      apply h2
      rw [hc]; rfl
    unfold loadDNSTypesStep
    simp only [List.length_cons, idxC, bind, Except.bind, pure, Except.pure]
    simp [h3, hc]

theorem foldlM_loadDNSTypes_plain (l : List Bytes) (f : Bytes → Nat)
    (h : ∀ s ∈ l, s ≠ [] ∧ s.head? ≠ some (ch '~') ∧ strToRRType s = .ok (f s)) (acc : List Nat × List Nat) :
    l.foldlM loadDNSTypesStep acc = .ok (acc.1 ++ l.map f, acc.2) := by
  induction l generalizing acc with
  | nil => simp [List.foldlM, pure, Except.pure]
  | cons d ds ih =>
    rw [List.foldlM_cons, loadDNSTypesStep_plain acc d (f d) (h d (by simp))]
    simp only [bind, Except.bind]
    rw [ih (fun x hx => h x (by simp [hx]))]
    simp

theorem loadDNSTypes_plain (l : List Bytes) (f : Bytes → Nat) (h : PlainTypes l f) :
    loadDNSTypes (joinSep l [ch '|']) = .ok (l.map f, []) := by
  obtain ⟨hne, hs, hp⟩ := h
  unfold loadDNSTypes
  rw [joinSep_isEmpty_false l _ hne (fun d hd => (hp d hd).1), splitByte_joinSep l _ hne hs,
    foldlM_loadDNSTypes_plain l f hp]
  simp

/-! ### the twin relation on two states that differ in one list-valued field -/

/-- Two rule texts as the model parser sees them: does the first (a `$badfilter` rule) negate the second?
    (`none`: one of them is rejected.) -/
def negatesText (px : ParseExt) (tb tr : Bytes) : Option Bool :=
  match parseNetRule px tb 0, parseNetRule px tr 0 with
  | .ok b, .ok r => some (negatesBadfilter b r)
  | _, _ => none

end UF.L

import UF.Model.ParseOptions
import UF.Proofs.ParseTotal
import UF.Proofs.ParsePerm
/-
  Integration (group L), part 1: the TEXT-LEVEL splitters of `NewNetworkRule` on text that was JOINED from
  escape-free pieces — `parseRuleText` finds the one `$`, `splitWithEscapeCharacter` gives back the
  comma-separated pieces, `loadOptionsStep` cuts `name=value` at the first `=`.

  These lemmas are what lets a reference written on STRUCTURED modifier data (UF/Compose5/Grammar.lean) be
  compared with the parser model run on the rendered text.
-/
namespace UF.L
open UF UF.E Bytes

/-! ### `splitWithEscapeCharacter` on escape-free text -/

/-- The loop of `splitWithEscapeCharacter … preserveAllTokens = false` when no escape character occurs:
    plain recursion over the remaining bytes. -/
def simpleSplit (sep : UInt8) : Bytes → Bytes → List Bytes → Bytes × List Bytes
  | [], sb, parts => (sb, parts)
  | c :: t, sb, parts =>
    if c == sep then
      (if sb.length > 0 then simpleSplit sep t [] (parts ++ [sb]) else simpleSplit sep t sb parts)
    else simpleSplit sep t (sb ++ [c]) parts

theorem idxC_of_drop {str : Bytes} {i : Nat} {c : UInt8} {t : Bytes} (h : str.drop i = c :: t) :
    idxC str i = .ok c ∧ str.drop (i + 1) = t ∧ i < str.length := by
  have hlt : i < str.length := by
    by_cases hi : i < str.length
    · exact hi
    · rw [List.drop_eq_nil_of_le (Nat.le_of_not_lt hi)] at h; cases h
  have h0 : (str.drop i)[0]? = some c := by rw [h]; rfl
  rw [List.getElem?_drop] at h0
  refine ⟨?_, ?_, hlt⟩
  · unfold idxC
    rw [show str[i]? = some c by simpa using h0]
    rfl
  · rw [← List.tail_drop, h]; rfl

theorem splitEscLoop_simple (str : Bytes) (sep esc : UInt8) :
    ∀ (fuel i : Nat) (sb : Bytes) (parts : List Bytes) (rest : Bytes),
      esc ∉ rest → str.drop i = rest → rest.length ≤ fuel →
      splitEscLoop str sep esc false fuel i sb false parts = .ok (simpleSplit sep rest sb parts) := by
  intro fuel
  induction fuel with
  | zero =>
    intro i sb parts rest _ _ hl
    have : rest = [] := List.eq_nil_of_length_eq_zero (Nat.le_zero.1 hl)
    subst this
    rfl
  | succ fuel ih =>
    intro i sb parts rest hesc hd hl
    cases rest with
    | nil =>
      have hi : i ≥ str.length := by
        by_cases hi : i < str.length
        · have := List.drop_eq_nil_iff.1 hd; omega
        · omega
      simp only [splitEscLoop, hi, if_true, simpleSplit]
      rfl
    | cons c t =>
      obtain ⟨hc, hd', hlt⟩ := idxC_of_drop hd
      have hce : (c == esc) = false := by
        cases h : c == esc with
        | false => rfl
        | true => exact absurd (by rw [← eq_of_beq h]; exact List.mem_cons_self) hesc
      have het : esc ∉ t := fun h => hesc (List.mem_cons_of_mem _ h)
      have hlt' : t.length ≤ fuel := by simp at hl; omega
      have hi : ¬ i ≥ str.length := by omega
      simp only [splitEscLoop, hi, if_false, hc, bind, Except.bind, hce, Bool.false_eq_true, simpleSplit]
      by_cases hs : (c == sep) = true
      · simp only [hs, if_true, Bool.false_or]
        by_cases hsb : sb.length > 0
        · simp only [hsb, decide_true, if_true]
          exact ih (i + 1) [] (parts ++ [sb]) t het hd' hlt'
        · simp only [hsb, decide_false, Bool.false_eq_true, if_false]
          exact ih (i + 1) sb parts t het hd' hlt'
      · simp only [hs, if_false, Bool.false_eq_true]
        exact ih (i + 1) (sb ++ [c]) parts t het hd' hlt'

theorem simpleSplit_run (sep : UInt8) (x rest sb : Bytes) (parts : List Bytes) (hx : sep ∉ x) :
    simpleSplit sep (x ++ rest) sb parts = simpleSplit sep rest (sb ++ x) parts := by
  induction x generalizing sb with
  | nil => simp
  | cons a x ih =>
    have ha : (a == sep) = false := by
      cases h : a == sep with
      | false => rfl
      | true => exact absurd (by rw [eq_of_beq h]; exact List.mem_cons_self) hx
    have ht : sep ∉ x := fun h => hx (List.mem_cons_of_mem _ h)
    simp only [List.cons_append, simpleSplit, ha, Bool.false_eq_true, if_false]
    rw [ih _ ht]
    simp

/-- The pieces, each non-empty and free of the separator, come back. -/
theorem simpleSplit_join (sep : UInt8) (m : Bytes) (ms : List Bytes) (parts : List Bytes)
    (hne : ∀ x ∈ m :: ms, x ≠ []) (hs : sepFree sep (m :: ms)) :
    ∃ sb parts', simpleSplit sep (joinSep (m :: ms) [sep]) [] parts = (sb, parts') ∧ sb ≠ [] ∧
      parts' ++ [sb] = parts ++ m :: ms := by
  induction ms generalizing m parts with
  | nil =>
    refine ⟨m, parts, ?_, hne m List.mem_cons_self, rfl⟩
    have := simpleSplit_run sep m [] [] parts (hs m List.mem_cons_self)
    simpa [joinSep, simpleSplit] using this
  | cons n ns ih =>
    have hm : m ≠ [] := hne m List.mem_cons_self
    have hml : m.length > 0 := List.length_pos_iff.2 hm
    obtain ⟨sb, parts', h1, h2, h3⟩ := ih n (parts ++ [m])
      (fun x hx => hne x (List.mem_cons_of_mem _ hx)) (fun x hx => hs x (List.mem_cons_of_mem _ hx))
    refine ⟨sb, parts', ?_, h2, by rw [h3]; simp⟩
    show simpleSplit sep (m ++ [sep] ++ joinSep (n :: ns) [sep]) [] parts = _
    rw [List.append_assoc, simpleSplit_run sep m _ [] parts (hs m List.mem_cons_self)]
    simp only [List.nil_append, List.singleton_append, simpleSplit, beq_self_eq_true, if_true, hml]
    exact h1

theorem joinSep_ne_nil (sep : Bytes) (m : Bytes) (ms : List Bytes) (hm : m ≠ []) : joinSep (m :: ms) sep ≠ [] := by
  cases ms with
  | nil => simpa [joinSep] using hm
  | cons n ns =>
    simp only [joinSep]
    intro h
    have := List.append_eq_nil_iff.1 h
    exact hm (List.append_eq_nil_iff.1 this.1).1

theorem mem_joinSep {c sep : UInt8} {ms : List Bytes} (h : c ∈ joinSep ms [sep]) :
    c = sep ∨ ∃ x ∈ ms, c ∈ x := by
  induction ms with
  | nil => simp [joinSep] at h
  | cons m ms ih =>
    cases ms with
    | nil => exact .inr ⟨m, List.mem_cons_self, by simpa [joinSep] using h⟩
    | cons n ns =>
      simp only [joinSep, List.append_assoc, List.mem_append, List.mem_singleton] at h
      rcases h with h | h | h
      · exact .inr ⟨m, List.mem_cons_self, h⟩
      · exact .inl h
      · rcases ih h with h | ⟨x, hx, hc⟩
        · exact .inl h
        · exact .inr ⟨x, List.mem_cons_of_mem _ hx, hc⟩

/-- `splitWithEscapeCharacter` is a left inverse of joining non-empty pieces that contain neither the
    separator nor the escape character. -/
theorem split_join (sep esc : UInt8) (hse : esc ≠ sep) (ms : List Bytes) (hms : ms ≠ [])
    (hne : ∀ x ∈ ms, x ≠ []) (hs : sepFree sep ms) (he : sepFree esc ms) :
    splitWithEscapeCharacter (joinSep ms [sep]) sep esc false = .ok ms := by
  cases ms with
  | nil => exact absurd rfl hms
  | cons m ms =>
    have hj : joinSep (m :: ms) [sep] ≠ [] := joinSep_ne_nil _ m ms (hne m List.mem_cons_self)
    have hesc : esc ∉ joinSep (m :: ms) [sep] := by
      intro h
      rcases mem_joinSep h with h | ⟨x, hx, hc⟩
      · exact hse h
      · exact he x hx hc
    unfold splitWithEscapeCharacter
    have hie : (joinSep (m :: ms) [sep]).isEmpty = false := by
      cases h : joinSep (m :: ms) [sep] with
      | nil => exact absurd h hj
      | cons => rfl
    rw [hie]
    simp only [Bool.false_eq_true, if_false]
    rw [splitEscLoop_simple _ sep esc _ 0 [] [] _ hesc (by simp) (Nat.le_refl _)]
    obtain ⟨sb, parts', h1, h2, h3⟩ := simpleSplit_join sep m ms [] hne hs
    rw [h1]
    have hl : sb.length > 0 := List.length_pos_iff.2 h2
    simp only [bind, Except.bind, Bool.false_or, hl, decide_true, if_true, pure, Except.pure]
    rw [h3]; rfl

/-! ### `parseRuleText` on `pattern ++ "$" ++ options` -/

theorem drop_after (a : Bytes) (c : UInt8) (b : Bytes) :
    ((a ++ c :: b).take (a ++ c :: b).length).drop (a.length + 1) = b := by
  rw [List.take_length, show a ++ c :: b = (a ++ [c]) ++ b by simp, List.drop_left' (by simp)]

theorem idxC_append_right {a b : Bytes} {j : Nat} {c : UInt8} (h : b[j]? = some c) :
    idxC (a ++ b) (a.length + j) = .ok c := by
  unfold idxC
  rw [List.getElem?_append_right (Nat.le_add_right _ _), Nat.add_sub_cancel_left, h]
  rfl

theorem idxC_append_left {a b : Bytes} {j : Nat} {c : UInt8} (h : a[j]? = some c) :
    idxC (a ++ b) j = .ok c := by
  unfold idxC
  have hj : j < a.length := by
    by_cases hj : j < a.length
    · exact hj
    · rw [List.getElem?_eq_none (Nat.le_of_not_lt hj)] at h; cases h
  rw [List.getElem?_append_left hj, h]
  rfl

/-- No `$` below position `k`: the loop runs down to 0 and returns the whole text as the pattern. -/
theorem parseSplitLoop_none (t : Bytes) (h : ch '$' ∉ t) :
    ∀ k, k ≤ t.length → parseSplitLoop t k false = .ok (t, []) := by
  intro k
  induction k with
  | zero => intro _; rfl
  | succ k ih =>
    intro hk
    have hlt : k < t.length := hk
    have hc : (t[k] != ch '$') = true := by
      rw [bne_iff_ne]
      intro e
      exact h (e ▸ List.getElem_mem hlt)
    simp only [parseSplitLoop, idxC_ok' hlt, bind, Except.bind, hc, if_true]
    exact ih (Nat.le_of_lt hlt)

/-- The loop on `a ++ "$" ++ b` with no `$` in `b` (and `a` not ending in a backslash): above the `$` it
    only skips; at the `$` it cuts. -/
theorem parseSplitLoop_cut (a b : Bytes) (hb : ch '$' ∉ b) (ha : a.getLast? ≠ some (ch '\\')) :
    ∀ j, j ≤ b.length →
      parseSplitLoop (a ++ ch '$' :: b) (a.length + 1 + j) false = .ok (a, b) := by
  intro j
  induction j with
  | zero =>
    intro _
    have hc : idxC (a ++ ch '$' :: b) a.length = .ok (ch '$') :=
      idxC_append_right (a := a) (b := ch '$' :: b) (j := 0) rfl
    have hs1 : sliceC (a ++ ch '$' :: b) 0 a.length = .ok a := by
      rw [sliceC_ok (by simp)]
      simp
    have hs2 : sliceC (a ++ ch '$' :: b) (a.length + 1) (a ++ ch '$' :: b).length = .ok b := by
      rw [sliceC_ok (by simp), drop_after]
    simp only [parseSplitLoop, hc, bind, Except.bind, bne_self_eq_false, Bool.false_eq_true,
      if_false, Bool.not_false, Bool.true_and]
    by_cases hpos : a.length > 0
    · have hlast : ∃ p, idxC (a ++ ch '$' :: b) (a.length - 1) = .ok p ∧ p ≠ ch '\\' := by
        have hlt : a.length - 1 < a.length := by omega
        refine ⟨a[a.length - 1], idxC_append_left (List.getElem?_eq_getElem hlt), ?_⟩
        intro e
        apply ha
        rw [List.getLast?_eq_getElem?, List.getElem?_eq_getElem hlt, e]
      obtain ⟨p, hp, hne⟩ := hlast
      have hpe : (p == ch '\\') = false := by
        cases h : p == ch '\\' with
        | false => rfl
        | true => exact absurd (eq_of_beq h) hne
      simp only [hpos, decide_true, if_true, hp, pure, Except.pure, hpe, Bool.false_eq_true, if_false, hs1, hs2]
    · simp only [hpos, decide_false, Bool.false_eq_true, if_false, pure, Except.pure, hs1, hs2]
  | succ j ih =>
    intro hj
    have hlt : j < b.length := hj
    have hc : idxC (a ++ ch '$' :: b) (a.length + 1 + j) = .ok b[j] := by
      have : (ch '$' :: b)[j + 1]? = some b[j] := by simp [List.getElem?_eq_getElem hlt]
      have h2 := idxC_append_right (a := a) (b := ch '$' :: b) (j := j + 1) this
      rwa [show a.length + (j + 1) = a.length + 1 + j by omega] at h2
    have hne : (b[j] != ch '$') = true := by
      rw [bne_iff_ne]
      intro e
      exact hb (e ▸ List.getElem_mem hlt)
    rw [show a.length + 1 + (j + 1) = (a.length + 1 + j) + 1 by omega]
    simp only [parseSplitLoop, hc, bind, Except.bind, hne, if_true]
    exact ih (Nat.le_of_lt hlt)

/-- `parseRuleText` on `[@@] pattern [$ options]`: the pattern starts with a byte other than `@` and `/`
    (so the text is neither read as an exception by accident nor as a `/regex/`), contains no `$` and no
    backslash; the options contain no `$`. -/
theorem parseRuleText_joined (wl : Bool) (c : UInt8) (pat opts : Bytes)
    (hc1 : c ≠ ch '@') (hc2 : c ≠ ch '/')
    (hp : ch '$' ∉ c :: pat) (hbs : ch '\\' ∉ c :: pat) (ho : ch '$' ∉ opts) :
    parseRuleText ((if wl then lit "@@" else []) ++ (c :: pat) ++ (if opts = [] then [] else ch '$' :: opts)) =
      .ok (c :: pat, opts, wl) := by
  -- the text after the exception marker
  let t : Bytes := (c :: pat) ++ (if opts = [] then [] else ch '$' :: opts)
  have ht : t = (c :: pat) ++ (if opts = [] then [] else ch '$' :: opts) := rfl
  have hsplit : parseSplitLoop t (t.length - 1) false = .ok (c :: pat, opts) := by
    by_cases hoe : opts = []
    · have : t = c :: pat := by rw [ht, if_pos hoe]; simp
      rw [this, hoe]
      exact parseSplitLoop_none _ hp _ (Nat.sub_le _ _)
    · have : t = (c :: pat) ++ ch '$' :: opts := by rw [ht, if_neg hoe]
      rw [this]
      have hl : opts.length ≥ 1 := List.length_pos_iff.2 hoe
      have hlast : (c :: pat).getLast? ≠ some (ch '\\') := by
        intro e
        exact hbs (List.mem_of_getLast? e)
      have := parseSplitLoop_cut (c :: pat) opts ho hlast (opts.length - 1) (Nat.sub_le _ _)
      rw [show ((c :: pat) ++ ch '$' :: opts).length - 1 = (c :: pat).length + 1 + (opts.length - 1) by
        simp; omega]
      exact this
  have hreg : (hasPrefix t (lit "/") && hasSuffix t (lit "/") && !hasSub t (lit "replace=")) = false := by
    have : hasPrefix t (lit "/") = false := by
      rw [ht]
      show (c == ch '/' && _) = false
      have : (c == ch '/') = false := by
        cases h : c == ch '/' with
        | false => rfl
        | true => exact absurd (eq_of_beq h) hc2
      rw [this]; rfl
    rw [this]; rfl
  cases wl with
  | false =>
    have hrt : ((if false = true then lit "@@" else []) ++ (c :: pat) ++ (if opts = [] then [] else ch '$' :: opts)) = t := by
      simp [ht]
    rw [hrt]
    have h1 : (t.isEmpty || t == lit "@@") = false := by
      rw [ht]
      have : ((c :: pat) ++ (if opts = [] then [] else ch '$' :: opts)) = c :: (pat ++ (if opts = [] then [] else ch '$' :: opts)) := rfl
      rw [this]
      have hce : (c == ch '@') = false := by
        cases h : c == ch '@' with
        | false => rfl
        | true => exact absurd (eq_of_beq h) hc1
      show (false || (c :: _ == lit "@@")) = false
      rw [Bool.false_or]
      show (c :: _ == ch '@' :: [ch '@']) = false
      rw [List.cons_beq_cons, hce]; rfl
    have h2 : hasPrefix t (lit "@@") = false := by
      rw [ht]
      show (c == ch '@' && _) = false
      have : (c == ch '@') = false := by
        cases h : c == ch '@' with
        | false => rfl
        | true => exact absurd (eq_of_beq h) hc1
      rw [this]; rfl
    unfold parseRuleText
    simp only [h1, Bool.false_eq_true, if_false, h2, pure, Except.pure, bind, Except.bind, hreg, hsplit]
  | true =>
    have hrt : ((if true = true then lit "@@" else []) ++ (c :: pat) ++ (if opts = [] then [] else ch '$' :: opts)) =
        lit "@@" ++ t := by
      simp [ht]
    rw [hrt]
    have h1 : ((lit "@@" ++ t).isEmpty || (lit "@@" ++ t) == lit "@@") = false := by
      rw [ht]
      show (false || (ch '@' :: ch '@' :: c :: _ == ch '@' :: [ch '@'])) = false
      rw [Bool.false_or, List.cons_beq_cons, List.cons_beq_cons]
      simp
    have h2 : hasPrefix (lit "@@" ++ t) (lit "@@") = true := by
      show hasPrefix (ch '@' :: ch '@' :: t) (ch '@' :: [ch '@']) = true
      simp [hasPrefix]
    have h3 : sliceC (lit "@@" ++ t) 2 (lit "@@" ++ t).length = .ok t := by
      rw [sliceC_ok (by simp [lit])]
      show Except.ok (List.drop 2 (List.take _ (ch '@' :: ch '@' :: t))) = _
      simp [lit]
    unfold parseRuleText
    simp only [h1, Bool.false_eq_true, if_false, h2, if_true, h3, pure, Except.pure, bind, Except.bind, hreg, hsplit]

/-! ### `name=value` -/

theorem indexByte_go_none (c : UInt8) (s : Bytes) (k : Nat) (h : c ∉ s) : indexByte.go c s k = none := by
  induction s generalizing k with
  | nil => rfl
  | cons a t ih =>
    have ha : (a == c) = false := by
      cases h' : a == c with
      | false => rfl
      | true => exact absurd (by rw [eq_of_beq h']; exact List.mem_cons_self) h
    simp only [indexByte.go, ha, Bool.false_eq_true, if_false]
    exact ih _ (fun h' => h (List.mem_cons_of_mem _ h'))

theorem indexByte_go_first (c : UInt8) (n rest : Bytes) (k : Nat) (h : c ∉ n) :
    indexByte.go c (n ++ c :: rest) k = some (k + n.length) := by
  induction n generalizing k with
  | nil => simp [indexByte.go]
  | cons a t ih =>
    have ha : (a == c) = false := by
      cases h' : a == c with
      | false => rfl
      | true => exact absurd (by rw [eq_of_beq h']; exact List.mem_cons_self) h
    simp only [List.cons_append, indexByte.go, ha, Bool.false_eq_true, if_false]
    rw [ih _ (fun h' => h (List.mem_cons_of_mem _ h'))]
    simp; omega

/-- One comma-separated piece `name=value` (name non-empty, without `=`) is handed to `loadOption` as
    `(name, value)`. -/
theorem loadOptionsStep_nv (px : ParseExt) (r : NetRule) (name value : Bytes) (hn : name ≠ [])
    (he : ch '=' ∉ name) :
    loadOptionsStep px r (name ++ ch '=' :: value) = loadOption px r name value := by
  unfold loadOptionsStep
  have hi : indexByte (name ++ ch '=' :: value) (ch '=') = some name.length := by
    unfold indexByte
    rw [indexByte_go_first _ _ _ _ he]; simp
  have hl : name.length > 0 := List.length_pos_iff.2 hn
  rw [hi]
  simp only [hl, if_true]
  have h1 : sliceC (name ++ ch '=' :: value) 0 name.length = .ok name := by
    rw [sliceC_ok (by simp)]; simp
  have h2 : sliceC (name ++ ch '=' :: value) (name.length + 1) (name ++ ch '=' :: value).length = .ok value := by
    rw [sliceC_ok (by simp), drop_after]
  rw [h1, h2]
  rfl

/-- A piece without `=` is an option name with the empty value. -/
theorem loadOptionsStep_n (px : ParseExt) (r : NetRule) (name : Bytes) (he : ch '=' ∉ name) :
    loadOptionsStep px r name = loadOption px r name [] := by
  unfold loadOptionsStep
  have hi : indexByte name (ch '=') = none := indexByte_go_none _ _ _ he
  rw [hi]

end UF.L

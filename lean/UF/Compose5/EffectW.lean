import UF.Compose5.GrammarW
import UF.Compose5.SplitW
import UF.Compose5.ParseText
/-
  Group P2 (REVIEW2 F11, widening), part 2: what the parser model does with one rendered modifier of the WIDER
  grammar — `$client` with quoted names, `~extension` — and the fold over a rendered modifier list.
-/
namespace UF.L
open UF UF.E Bytes UF.Compose3

/-- The closed form of one step of the option loop on a well-formed wide modifier. -/
def applyModW (ext : Ext) (r : NetRule) : ModW → NetRule
  | .base m => applyMod ext r m
  | .clientQ vs => applyMod ext r (.client (vs.map (fun v => (v.1, v.2.value))))
  | .notExtension => { r with enabled := r.enabled ^^^ Facts.OptionExtension }

/-! ### quoted names -/

theorem nameByte_ne {c : UInt8} (h : nameByte c = true) :
    c ≠ ch ',' ∧ c ≠ ch '\\' ∧ c ≠ ch '$' ∧ c ≠ ch '|' := by
  unfold nameByte at h
  simp only [Bool.and_eq_true, bne_iff_ne, ne_eq] at h
  exact ⟨h.1.1.1, h.1.1.2, h.1.2, h.2⟩

theorem name_notMem {n : Bytes} (h : n.all nameByte = true) {c : UInt8} (hc : nameByte c = false) : c ∉ n := by
  intro hm
  rw [List.all_eq_true.1 h c hm] at hc
  cases hc

theorem mem_escQuote {q c : UInt8} {n : Bytes} (h : c ∈ escQuote q n) : c = ch '\\' ∨ c ∈ n := by
  induction n with
  | nil => simp [escQuote] at h
  | cons a t ih =>
    unfold escQuote at h
    split at h
    · simp only [List.mem_cons] at h
      rcases h with h | h | h
      · exact .inl h
      · exact .inr (h ▸ List.mem_cons_self)
      · rcases ih h with e | e
        · exact .inl e
        · exact .inr (List.mem_cons_of_mem _ e)
    · simp only [List.mem_cons] at h
      rcases h with h | h
      · exact .inr (h ▸ List.mem_cons_self)
      · rcases ih h with e | e
        · exact .inl e
        · exact .inr (List.mem_cons_of_mem _ e)

/-- Inside an escaped name every backslash is followed by the quote character. -/
theorem escOK_escQuote (sep q : UInt8) (hq1 : q ≠ sep) (hq2 : q ≠ ch '\\') (n rest : Bytes) (hn : ch '\\' ∉ n) :
    escOK sep (ch '\\') (escQuote q n ++ rest) = escOK sep (ch '\\') rest := by
  induction n with
  | nil => rfl
  | cons c t ih =>
    have hc : c ≠ ch '\\' := fun e => hn (e ▸ List.mem_cons_self)
    have ht : ch '\\' ∉ t := fun h => hn (List.mem_cons_of_mem _ h)
    unfold escQuote
    split
    · rename_i hcq
      have : c = q := eq_of_beq hcq
      subst this
      show escOK sep (ch '\\') (ch '\\' :: c :: (escQuote c t ++ rest)) = _
      have h1 : (c != sep) = true := bne_iff_ne.2 hq1
      have h2 : (c != ch '\\') = true := bne_iff_ne.2 hq2
      simp only [escOK, beq_self_eq_true, if_true, h1, h2, Bool.true_and]
      exact ih ht
    · show escOK sep (ch '\\') (c :: (escQuote q t ++ rest)) = _
      rw [escOK_cons_ne _ (beq_false_of_ne' hc)]
      exact ih ht

theorem hasPrefix_cons_cons (a b : UInt8) (s p : Bytes) : hasPrefix (a :: s) (b :: p) = (a == b && hasPrefix s p) := rfl

/-- `strings.ReplaceAll(name, "\\,", ",")` does nothing to an escaped name. -/
theorem replace_comma_escQuote (q : UInt8) (hq1 : q ≠ ch ',') (hq2 : q ≠ ch '\\') (n : Bytes) (hn : ch '\\' ∉ n) :
    replaceAll (escQuote q n) (lit "\\,") (lit ",") = escQuote q n := by
  show replaceAll.go [ch '\\', ch ','] [ch ','] (escQuote q n) 0 = escQuote q n
  induction n with
  | nil => rfl
  | cons c t ih =>
    have hc : c ≠ ch '\\' := fun e => hn (e ▸ List.mem_cons_self)
    have ht : ch '\\' ∉ t := fun h => hn (List.mem_cons_of_mem _ h)
    unfold escQuote
    split
    · rename_i hcq
      have : c = q := eq_of_beq hcq
      subst this
      simp only [replaceAll.go, hasPrefix_cons_cons, beq_self_eq_true, Bool.true_and, beq_false_of_ne' hq1,
        beq_false_of_ne' hq2, Bool.false_and, Bool.false_eq_true, if_false]
      rw [ih ht]
    · simp only [replaceAll.go, hasPrefix_cons_cons, beq_false_of_ne' hc, Bool.false_and, Bool.false_eq_true, if_false]
      rw [ih ht]

/-- `strings.ReplaceAll(name, "\\" + quote, quote)` gives the name back. -/
theorem replace_quote_escQuote (q : UInt8) (n : Bytes) (hn : ch '\\' ∉ n) :
    replaceAll (escQuote q n) [ch '\\', q] [q] = n := by
  show replaceAll.go [ch '\\', q] [q] (escQuote q n) 0 = n
  induction n with
  | nil => rfl
  | cons c t ih =>
    have hc : c ≠ ch '\\' := fun e => hn (e ▸ List.mem_cons_self)
    have ht : ch '\\' ∉ t := fun h => hn (List.mem_cons_of_mem _ h)
    unfold escQuote
    split
    · rename_i hcq
      have : c = q := eq_of_beq hcq
      subst this
      have hp : hasPrefix (ch '\\' :: c :: escQuote c t) [ch '\\', c] = true := by
        simp [hasPrefix_cons_cons, hasPrefix]
      simp only [replaceAll.go, hp, if_true, List.length_cons, List.length_nil, List.singleton_append]
      rw [ih ht]
    · simp only [replaceAll.go, hasPrefix_cons_cons, beq_false_of_ne' hc, Bool.false_and, Bool.false_eq_true, if_false]
      rw [ih ht]

theorem quoteCh_cases (dq : Bool) : quoteCh dq = ch '\'' ∨ quoteCh dq = ch '"' := by
  cases dq
  · exact .inl rfl
  · exact .inr rfl

theorem sliceC_inner (q : UInt8) (body : Bytes) :
    sliceC (q :: (body ++ [q])) 1 ((q :: (body ++ [q])).length - 1) = .ok body := by
  rw [sliceC_ok (by simp)]
  simp

/-- One `$client` value of the wider grammar: the step of `loadClients` adds what the value DENOTES. -/
theorem loadClientsStep_cval (ext : Ext) (acc : Option Clients × Option Clients) (v : Bool × CVal)
    (hv : v.2.ok = true) :
    loadClientsStep ext acc (renderCV v) =
      .ok (if v.1 then (acc.1, addClient ext acc.2 v.2.value) else (addClient ext acc.1 v.2.value, acc.2)) := by
  obtain ⟨neg, cv⟩ := v
  cases cv with
  | plain d => exact loadClientsStep_clean ext acc (neg, d) hv
  | quoted dq n =>
    simp only [CVal.ok, Bool.and_eq_true, Bool.not_eq_true', List.isEmpty_eq_false_iff] at hv
    obtain ⟨hne, hall⟩ := hv
    have hbs : ch '\\' ∉ n := name_notMem hall (by decide)
    have hq : quoteCh dq ≠ ch ',' ∧ quoteCh dq ≠ ch '\\' ∧ quoteCh dq ≠ ch '~' ∧ quoteCh dq > 0 := by
      cases dq <;> decide
    generalize hqd : quoteCh dq = q at hq
    have hq' : q = ch '\'' ∨ q = ch '"' := hqd ▸ quoteCh_cases dq
    obtain ⟨hq1, hq2, hq3, hq4⟩ := hq
    have hr1 := replace_comma_escQuote q hq1 hq2 n hbs
    have hr2 := replace_quote_escQuote q n hbs
    have he : n.isEmpty = false := isEmpty_false hne
    have hpre : hasPrefix (q :: (escQuote q n ++ [q])) (lit "~") = false :=
      hasPrefix_cons_ne q _ (ch '~') [] hq3
    have hlen : (q :: (escQuote q n ++ [q])).length ≥ 2 := by simp
    have hi0 : idxC (q :: (escQuote q n ++ [q])) 0 = .ok q := rfl
    have hlast : idxC (q :: (escQuote q n ++ [q])) ((q :: (escQuote q n ++ [q])).length - 1) = .ok q := by
      rw [idxC_ok' (by simp)]
      congr 1
      simp
    have hqq : (q == ch '\'' || q == ch '"') = true := by
      rcases hq' with e | e <;> subst e <;> decide
    have hsl := sliceC_inner q (escQuote q n)
    have hstep : loadClientsStep ext acc (q :: (escQuote q n ++ [q])) = .ok (addClient ext acc.1 n, acc.2) := by
      unfold loadClientsStep
      simp only [hpre, hlen, if_true, hi0, hlast, bind, Except.bind, pure, Except.pure, hqq, beq_self_eq_true,
        Bool.and_self, Bool.false_eq_true, if_false, hq4, hsl, hr1, hr2, he]
    have hstepN : loadClientsStep ext acc (ch '~' :: q :: (escQuote q n ++ [q])) =
        .ok (acc.1, addClient ext acc.2 n) := by
      unfold loadClientsStep
      simp only [hasPrefix_tilde_cons, sliceC_tail, hlen, if_true, hi0, hlast, bind, Except.bind, pure,
        Except.pure, hqq, beq_self_eq_true, Bool.and_self, Bool.false_eq_true, if_false, hq4, hsl, hr1, hr2, he]
    cases neg with
    | false =>
      show loadClientsStep ext acc (quoteCh dq :: (escQuote (quoteCh dq) n ++ [quoteCh dq])) = _
      rw [hqd]; exact hstep
    | true =>
      show loadClientsStep ext acc (ch '~' :: quoteCh dq :: (escQuote (quoteCh dq) n ++ [quoteCh dq])) = _
      rw [hqd]; exact hstepN

theorem posVals_map {α β} (f : α → β) (vs : List (Bool × α)) :
    posVals (vs.map (fun v => (v.1, f v.2))) = (posVals vs).map f := by
  induction vs with
  | nil => rfl
  | cons v vs ih =>
    obtain ⟨neg, a⟩ := v
    cases neg <;> simp_all [posVals]

theorem negVals_map {α β} (f : α → β) (vs : List (Bool × α)) :
    negVals (vs.map (fun v => (v.1, f v.2))) = (negVals vs).map f := by
  induction vs with
  | nil => rfl
  | cons v vs ih =>
    obtain ⟨neg, a⟩ := v
    cases neg <;> simp_all [negVals]

theorem foldlM_clientsW (ext : Ext) :
    ∀ (vs : List (Bool × CVal)) (acc acc' : Option Clients × Option Clients),
      (∀ v ∈ vs, v.2.ok = true) →
      (vs.map renderCV).foldlM (loadClientsStep ext) acc = .ok acc' →
      acc' = (((posVals vs).map CVal.value).foldl (addClient ext) acc.1,
              ((negVals vs).map CVal.value).foldl (addClient ext) acc.2) := by
  intro vs
  induction vs with
  | nil =>
    intro acc acc' _ h
    simp only [List.map_nil, List.foldlM, pure, Except.pure] at h
    cases h
    rfl
  | cons v vs ih =>
    intro acc acc' hok h
    simp only [List.map_cons, List.foldlM] at h
    rw [loadClientsStep_cval ext acc v (hok v List.mem_cons_self)] at h
    have := ih _ acc' (fun x hx => hok x (List.mem_cons_of_mem _ hx)) h
    rw [this]
    obtain ⟨neg, d⟩ := v
    cases neg <;> simp [posVals, negVals]

/-! ### the rendered values: non-empty, no `|`, harmless backslashes -/

theorem renderCVal_ne_nil (cv : CVal) (h : cv.ok = true) : renderCVal cv ≠ [] := by
  cases cv with
  | plain v => exact cleanVal_ne_nil h
  | quoted dq n => simp [renderCVal]

theorem renderCV_ne_nil (v : Bool × CVal) (h : v.2.ok = true) : renderCV v ≠ [] := by
  obtain ⟨neg, cv⟩ := v
  cases neg
  · exact renderCVal_ne_nil cv h
  · simp [renderCV]

theorem mem_renderCVal {c : UInt8} {cv : CVal} (h : c ∈ renderCVal cv) :
    (∃ v, cv = .plain v ∧ c ∈ v) ∨ (∃ dq n, cv = .quoted dq n ∧ (c = quoteCh dq ∨ c = ch '\\' ∨ c ∈ n)) := by
  cases cv with
  | plain v => exact .inl ⟨v, rfl, h⟩
  | quoted dq n =>
    refine .inr ⟨dq, n, rfl, ?_⟩
    simp only [renderCVal, List.mem_cons, List.mem_append, List.mem_nil_iff, or_false] at h
    rcases h with h | h | h
    · exact .inl h
    · exact .inr (mem_escQuote h)
    · exact .inl h

/-- A byte that is not `~`, not a quote, not a backslash and not allowed in values does not occur in a rendering. -/
theorem renderCV_notMem (v : Bool × CVal) (hv : v.2.ok = true) (c : UInt8) (hc1 : cleanByte c = false)
    (hc2 : nameByte c = false) (hc3 : c ≠ ch '~') (hc4 : c ≠ ch '\'') (hc5 : c ≠ ch '"') (hc6 : c ≠ ch '\\') :
    c ∉ renderCV v := by
  obtain ⟨neg, cv⟩ := v
  have hcv : c ∉ renderCVal cv := by
    intro hm
    rcases mem_renderCVal hm with ⟨d, rfl, hd⟩ | ⟨dq, n, rfl, hd⟩
    · exact clean_notMem hv hc1 hd
    · simp only [CVal.ok, Bool.and_eq_true] at hv
      rcases hd with e | e | e
      · cases dq
        · exact hc4 e
        · exact hc5 e
      · exact hc6 e
      · exact name_notMem hv.2 hc2 e
  cases neg
  · exact hcv
  · intro hm
    simp only [renderCV, if_true, List.mem_cons] at hm
    rcases hm with e | e
    · exact hc3 e
    · exact hcv e

theorem escOK_renderCVal (sep : UInt8) (hs1 : sep ≠ ch '\'') (hs2 : sep ≠ ch '"') (cv : CVal) (h : cv.ok = true) :
    escOK sep (ch '\\') (renderCVal cv) = true := by
  cases cv with
  | plain v => exact escOK_of_notMem _ _ _ (clean_notMem h (by decide))
  | quoted dq n =>
    simp only [CVal.ok, Bool.and_eq_true] at h
    have hbs : ch '\\' ∉ n := name_notMem h.2 (by decide)
    have hq1 : quoteCh dq ≠ sep := by
      cases dq
      · exact fun e => hs1 e.symm
      · exact fun e => hs2 e.symm
    have hq2 : quoteCh dq ≠ ch '\\' := by cases dq <;> decide
    show escOK sep (ch '\\') (quoteCh dq :: (escQuote (quoteCh dq) n ++ [quoteCh dq])) = true
    rw [escOK_cons_ne _ (beq_false_of_ne' hq2), escOK_escQuote sep _ hq1 hq2 n _ hbs,
      escOK_cons_ne _ (beq_false_of_ne' hq2)]
    rfl

theorem escOK_renderCV (sep : UInt8) (hs1 : sep ≠ ch '\'') (hs2 : sep ≠ ch '"') (v : Bool × CVal)
    (h : v.2.ok = true) : escOK sep (ch '\\') (renderCV v) = true := by
  obtain ⟨neg, cv⟩ := v
  cases neg
  · exact escOK_renderCVal sep hs1 hs2 cv h
  · show escOK sep (ch '\\') (ch '~' :: renderCVal cv) = true
    rw [escOK_cons_ne _ (by decide)]
    exact escOK_renderCVal sep hs1 hs2 cv h

/-! ### `$client` with quoted names -/

theorem effect_clientQ {px : ParseExt} {r r' : NetRule} {vs : List (Bool × CVal)}
    (hok : (ModW.clientQ vs).valsOK = true) (h : loadOptionsStep px r (renderModW (.clientQ vs)) = .ok r') :
    r' = applyModW px.ext r (.clientQ vs) := by
  simp only [ModW.valsOK, Bool.and_eq_true, List.all_eq_true, Bool.not_eq_true', List.isEmpty_eq_false_iff] at hok
  show r' = { r with permClients := clientsOf px.ext (posVals (vs.map (fun v => (v.1, v.2.value)))),
                     restrClients := clientsOf px.ext (negVals (vs.map (fun v => (v.1, v.2.value)))) }
  rw [show renderModW (.clientQ vs) = lit "client" ++ ch '=' :: joinVals (vs.map renderCV) from rfl,
    loadOptionsStep_nv px r _ _ (by decide) (by decide), loadOption_client] at h
  obtain ⟨⟨p, rs⟩, hl, h⟩ := bind_ok_elim h
  cases pure_ok_elim h
  unfold loadClients at hl
  have hne : ∀ x ∈ vs.map renderCV, x ≠ [] := fun x hx => by
    obtain ⟨v, hv, rfl⟩ := List.mem_map.1 hx
    exact renderCV_ne_nil v (hok.2 v hv)
  have hj : (joinVals (vs.map renderCV)).isEmpty = false :=
    isEmpty_false (joinVals_ne_nil (map_ne_nil _ hok.1) hne)
  rw [hj] at hl
  simp only [Bool.false_eq_true, if_false] at hl
  unfold joinVals at hl
  obtain ⟨list, hsp, hl⟩ := bind_ok_elim hl
  have hsf : sepFree (ch '|') (vs.map renderCV) := fun x hx => by
    obtain ⟨v, hv, rfl⟩ := List.mem_map.1 hx
    exact renderCV_notMem v (hok.2 v hv) (ch '|') (by decide) (by decide) (by decide) (by decide) (by decide)
      (by decide)
  have hes : ∀ x ∈ vs.map renderCV, escOK (ch '|') (ch '\\') x = true := fun x hx => by
    obtain ⟨v, hv, rfl⟩ := List.mem_map.1 hx
    exact escOK_renderCV (ch '|') (by decide) (by decide) v (hok.2 v hv)
  rw [split_join_safe (ch '|') (ch '\\') (by decide) _ (map_ne_nil _ hok.1) hne hsf hes] at hsp
  cases hsp
  obtain ⟨⟨p0, r0⟩, hf, hl⟩ := bind_ok_elim hl
  have hfc := foldlM_clientsW px.ext vs (none, none) (p0, r0) hok.2 hf
  cases pure_ok_elim hl
  cases hfc
  rw [posVals_map, negVals_map]
  rfl

theorem loadOption_notExtension (px : ParseExt) (r : NetRule) (value : Bytes) :
    loadOption px r (lit "~extension") value = pure { r with enabled := r.enabled ^^^ Facts.OptionExtension } := by
  unfold loadOption; rfl

/-- THE STEP LEMMA of the wider grammar. -/
theorem step_effectW {px : ParseExt} {r r' : NetRule} {m : ModW} (hok : m.valsOK = true)
    (h : loadOptionsStep px r (renderModW m) = .ok r') : r' = applyModW px.ext r m := by
  cases m with
  | base m => exact step_effect hok h
  | clientQ vs => exact effect_clientQ hok h
  | notExtension =>
    rw [show renderModW .notExtension = lit "~extension" from rfl, loadOptionsStep_n px r _ (by decide),
      loadOption_notExtension] at h
    cases pure_ok_elim h
    rfl

theorem foldlM_effectW {px : ParseExt} :
    ∀ (ms : List ModW) (r r' : NetRule), (∀ m ∈ ms, m.valsOK = true) →
      (ms.map renderModW).foldlM (loadOptionsStep px) r = .ok r' → r' = ms.foldl (applyModW px.ext) r := by
  intro ms
  induction ms with
  | nil =>
    intro r r' _ h
    simp only [List.map_nil, List.foldlM, pure, Except.pure] at h
    cases h; rfl
  | cons m ms ih =>
    intro r r' hok h
    simp only [List.map_cons, List.foldlM] at h
    obtain ⟨r1, h1, h2⟩ := bind_ok_elim h
    cases step_effectW (hok m List.mem_cons_self) h1
    exact ih _ r' (fun x hx => hok x (List.mem_cons_of_mem _ hx)) h2

/-! ### the rendered modifiers at the level of the comma split -/

theorem renderModW_ne_nil (m : ModW) : renderModW m ≠ [] := by
  cases m with
  | base m => exact renderMod_ne_nil m
  | clientQ vs => simp [renderModW, lit]
  | notExtension => decide

theorem mem_valued {c : UInt8} {name : Bytes} {l : List Bytes} (h : c ∈ name ++ ch '=' :: joinVals l) :
    c ∈ name ∨ c = ch '=' ∨ c = ch '|' ∨ ∃ x ∈ l, c ∈ x := by
  simp only [List.mem_append, List.mem_cons] at h
  rcases h with h | h | h
  · exact .inl h
  · exact .inr (.inl h)
  · rcases mem_joinSep h with e | e
    · exact .inr (.inr (.inl e))
    · exact .inr (.inr (.inr e))

/-- `,` and `$` do not occur in a rendered wide modifier. -/
theorem renderModW_notMem (m : ModW) (h : m.valsOK = true) (c : UInt8) (hc : c = ch ',' ∨ c = ch '$') :
    c ∉ renderModW m := by
  cases m with
  | base m =>
    exact optByte_notMem (renderMod_all m h) (by rcases hc with rfl | rfl <;> decide)
  | clientQ vs =>
    simp only [ModW.valsOK, Bool.and_eq_true, List.all_eq_true] at h
    intro hm
    rcases mem_valued hm with e | e | e | ⟨x, hx, e⟩
    · rcases hc with rfl | rfl <;> exact absurd e (by decide)
    · rcases hc with rfl | rfl <;> exact absurd e (by decide)
    · rcases hc with rfl | rfl <;> exact absurd e (by decide)
    · obtain ⟨v, hv, rfl⟩ := List.mem_map.1 hx
      refine renderCV_notMem v (h.2 v hv) c ?_ ?_ ?_ ?_ ?_ ?_ e <;> rcases hc with rfl | rfl <;> decide
  | notExtension => rcases hc with rfl | rfl <;> decide

theorem escOK_valued (name : Bytes) (l : List Bytes) (hn : ch '\\' ∉ name)
    (h : ∀ x ∈ l, escOK (ch ',') (ch '\\') x = true) :
    escOK (ch ',') (ch '\\') (name ++ ch '=' :: joinVals l) = true := by
  refine escOK_append _ _ _ _ _ (Nat.le_refl _) (escOK_of_notMem _ _ _ hn) ?_
  rw [escOK_cons_ne _ (by decide)]
  -- the values joined with `|`
  unfold joinVals
  induction l with
  | nil => rfl
  | cons m ms ih =>
    cases ms with
    | nil => simpa [joinSep] using h m List.mem_cons_self
    | cons n ns =>
      simp only [joinSep]
      exact escOK_append _ _ _ _ _ (Nat.le_refl _)
        (escOK_append _ _ _ _ _ (Nat.le_refl _) (h m List.mem_cons_self) (by decide))
        (ih (fun x hx => h x (List.mem_cons_of_mem _ hx)))

theorem escOK_renderModW (m : ModW) (h : m.valsOK = true) : escOK (ch ',') (ch '\\') (renderModW m) = true := by
  cases m with
  | base m => exact escOK_of_notMem _ _ _ (optByte_notMem (renderMod_all m h) (by decide))
  | clientQ vs =>
    simp only [ModW.valsOK, Bool.and_eq_true, List.all_eq_true] at h
    exact escOK_valued _ _ (by decide) (fun x hx => by
      obtain ⟨v, hv, rfl⟩ := List.mem_map.1 hx
      exact escOK_renderCV (ch ',') (by decide) (by decide) v (h.2 v hv))
  | notExtension => exact escOK_of_notMem _ _ _ (by decide)

theorem optsTextW_eq_nil_iff (ms : List ModW) : optsTextW ms = [] ↔ ms = [] := by
  constructor
  · intro h
    cases ms with
    | nil => rfl
    | cons m ms => exact absurd h (joinSep_ne_nil _ _ _ (renderModW_ne_nil m))
  · intro h; rw [h]; rfl

theorem optsTextW_noDollar (ms : List ModW) (h : ∀ m ∈ ms, m.valsOK = true) : ch '$' ∉ optsTextW ms := by
  intro hm
  rcases mem_joinSep hm with e | ⟨x, hx, hc⟩
  · exact absurd e (by decide)
  · obtain ⟨m, hmm, rfl⟩ := List.mem_map.1 hx
    exact renderModW_notMem m (h m hmm) _ (.inr rfl) hc

/-- `loadOptions` on comma-joined pieces with harmless backslashes: the loop over the pieces, then the override. -/
theorem loadOptions_partsS {px : ParseExt} {r0 r1 : NetRule} {parts : List Bytes} (hne : parts ≠ [])
    (hp : ∀ x ∈ parts, x ≠ []) (hs : sepFree (ch ',') parts) (he : ∀ x ∈ parts, escOK (ch ',') (ch '\\') x = true)
    (h : loadOptions px r0 (joinSep parts [ch ',']) = .ok r1) :
    ∃ r2, parts.foldlM (loadOptionsStep px) r0 = .ok r2 ∧ r1 = overrideDoc r2 := by
  unfold loadOptions at h
  have hj : (joinSep parts [ch ',']).isEmpty = false := by
    cases parts with
    | nil => exact absurd rfl hne
    | cons m ms => exact isEmpty_false (joinSep_ne_nil _ m ms (hp m List.mem_cons_self))
  rw [hj] at h
  simp only [Bool.false_eq_true, if_false] at h
  obtain ⟨list, hsp, h⟩ := bind_ok_elim h
  rw [split_join_safe (ch ',') (ch '\\') (by decide) parts hne hp hs he] at hsp
  cases hsp
  obtain ⟨r2, hf, h⟩ := bind_ok_elim h
  refine ⟨r2, hf, ?_⟩
  refine ite_ok_elim_c h ?_ ?_ <;> clear h <;> intro hc h
  · cases pure_ok_elim h
    have : docOnlyB r2.enabled = true := hc
    rw [overrideDoc, if_pos this]
  · cases pure_ok_elim h
    have : ¬ docOnlyB r1.enabled = true := hc
    rw [overrideDoc, if_neg this]

theorem patOKW_cons {pat : Bytes} (h : patOKW pat = true) :
    ∃ c rest, pat = c :: rest ∧ c ≠ ch '@' ∧ ch '$' ∉ c :: rest ∧ ch '\\' ∉ c :: rest := by
  cases pat with
  | nil => simp [patOKW] at h
  | cons c rest =>
    simp only [patOKW, Bool.and_eq_true, bne_iff_ne, ne_eq, Bool.not_eq_true', List.contains_eq_mem,
      decide_eq_false_iff_not] at h
    exact ⟨c, rest, rfl, h.1.1, h.1.2, h.2⟩

/-- `parseRuleText` on a rendered text of the wider grammar. -/
theorem parseRuleText_renderW {wl : Bool} {pat : Bytes} {ms : List ModW}
    (hp : patOKW pat = true) (hs : slashOK pat ms = true) (hm : ∀ m ∈ ms, m.valsOK = true) :
    parseRuleText (renderW wl pat ms) = .ok (pat, optsTextW ms, wl) := by
  obtain ⟨c, rest, rfl, hc1, hd, hb⟩ := patOKW_cons hp
  have hreg : (hasPrefix (bodyW (c :: rest) ms) (lit "/") && hasSuffix (bodyW (c :: rest) ms) (lit "/")) = false := by
    unfold slashOK at hs
    cases hb : (hasPrefix (bodyW (c :: rest) ms) (lit "/") && hasSuffix (bodyW (c :: rest) ms) (lit "/")) with
    | false => rfl
    | true => rw [hb] at hs; cases hs
  exact parseRuleText_joinedW wl c rest (optsTextW ms) hc1 hd hb (optsTextW_noDollar ms hm) hreg

/-- PARSING A RENDERED TEXT of the wider grammar: every modifier field of the parsed rule is the fold of
    `applyModW` over the modifiers as written, with the document-only override at the end. -/
theorem parse_renderW {px : ParseExt} {wl : Bool} {pat : Bytes} {ms : List ModW} {id : Int} {r : NetRule}
    (hp : patOKW pat = true) (hs : slashOK pat ms = true) (hm : ∀ m ∈ ms, m.valsOK = true)
    (h : parseNetRule px (renderW wl pat ms) id = .ok r) :
    r = { overrideDoc (ms.foldl (applyModW px.ext) (initRule (renderW wl pat ms) wl id pat)) with
          pattern := r.pattern, shortcut := r.shortcut } := by
  obtain ⟨pat', opts, wl', r1, hprt, hl, hr⟩ := parseNetRule_parts h
  rw [parseRuleText_renderW hp hs hm] at hprt
  cases hprt
  rw [hr]
  cases ms with
  | nil =>
    have : optsTextW ([] : List ModW) = [] := rfl
    rw [this] at hl
    unfold loadOptions at hl
    simp only [List.isEmpty_nil, if_true] at hl
    cases pure_ok_elim hl
    rw [List.foldl_nil, overrideDoc_init]
  | cons m ms =>
    have hne : (m :: ms).map renderModW ≠ [] := by simp
    obtain ⟨r2, hf, hr1⟩ := loadOptions_partsS hne
      (fun x hx => by obtain ⟨m', _, rfl⟩ := List.mem_map.1 hx; exact renderModW_ne_nil m')
      (fun x hx => by
        obtain ⟨m', hm', rfl⟩ := List.mem_map.1 hx
        exact renderModW_notMem m' (hm m' hm') _ (.inl rfl))
      (fun x hx => by
        obtain ⟨m', hm', rfl⟩ := List.mem_map.1 hx
        exact escOK_renderModW m' (hm m' hm')) hl
    cases foldlM_effectW (m :: ms) _ r2 hm hf
    rw [hr1]

end UF.L

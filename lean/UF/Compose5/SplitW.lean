import UF.Compose5.Split
/-
  Group P2 (REVIEW2 F11, widening of the text-level grammar), part 1: the splitters on text that CONTAINS the
  escape character, harmlessly — every backslash is followed by a byte that is neither the separator nor a
  backslash (`escOK`), as in the quoted client name `'Frank\'s laptop'`.  `splitWithEscapeCharacter` then copies
  the backslash and the byte after it, so joined pieces still come back unchanged (`split_join_safe`); and
  `parseRuleText` on `[@@] pattern [$ options]` for patterns that may begin with `/` as long as the text is not
  of the form `/…/` (`parseRuleText_joinedW`).
-/
namespace UF.L
open UF UF.E Bytes

/-- Every escape character is followed by a byte that is neither the separator nor the escape character. -/
def escOK (sep esc : UInt8) : Bytes → Bool
  | [] => true
  | c :: t =>
    if c == esc then
      match t with
      | [] => false
      | d :: t' => d != sep && d != esc && escOK sep esc t'
    else escOK sep esc t

/-- The loop of `splitWithEscapeCharacter … preserveAllTokens = false` on `escOK` text: an escape character and
    the byte after it are copied. -/
def simpleSplitE (sep esc : UInt8) : Bytes → Bytes → List Bytes → Bytes × List Bytes
  | [], sb, parts => (sb, parts)
  | c :: t, sb, parts =>
    if c == esc then
      match t with
      | [] => (sb, parts)
      | d :: t' => simpleSplitE sep esc t' ((sb ++ [esc]) ++ [d]) parts
    else if c == sep then
      (if sb.length > 0 then simpleSplitE sep esc t [] (parts ++ [sb]) else simpleSplitE sep esc t sb parts)
    else simpleSplitE sep esc t (sb ++ [c]) parts

theorem beq_false_of_ne' {a b : UInt8} (h : a ≠ b) : (a == b) = false := by
  cases h' : a == b with
  | false => rfl
  | true => exact absurd (eq_of_beq h') h

theorem escOK_cons_ne {sep esc c : UInt8} (t : Bytes) (h : (c == esc) = false) :
    escOK sep esc (c :: t) = escOK sep esc t := by
  cases t <;> simp [escOK, h]

theorem simpleSplitE_cons_ne {sep esc c : UInt8} (t sb : Bytes) (parts : List Bytes) (h : (c == esc) = false) :
    simpleSplitE sep esc (c :: t) sb parts =
      (if c == sep then
        (if sb.length > 0 then simpleSplitE sep esc t [] (parts ++ [sb]) else simpleSplitE sep esc t sb parts)
      else simpleSplitE sep esc t (sb ++ [c]) parts) := by
  cases t <;> simp [simpleSplitE, h]

theorem splitEscLoop_E (str : Bytes) (sep esc : UInt8) :
    ∀ (n fuel i : Nat) (sb : Bytes) (parts : List Bytes) (rest : Bytes), rest.length ≤ n →
      escOK sep esc rest = true → str.drop i = rest → rest.length ≤ fuel →
      splitEscLoop str sep esc false fuel i sb false parts = .ok (simpleSplitE sep esc rest sb parts) := by
  intro n
  induction n with
  | zero =>
    intro fuel i sb parts rest hn _ hd _
    have : rest = [] := List.eq_nil_of_length_eq_zero (Nat.le_zero.1 hn)
    subst this
    have hi : i ≥ str.length := by
      by_cases hi : i < str.length
      · have := List.drop_eq_nil_iff.1 hd; omega
      · omega
    cases fuel with
    | zero => rfl
    | succ f => simp only [splitEscLoop, hi, if_true, simpleSplitE]; rfl
  | succ n ih =>
    intro fuel i sb parts rest hn hok hd hl
    cases rest with
    | nil =>
      have hi : i ≥ str.length := by
        by_cases hi : i < str.length
        · have := List.drop_eq_nil_iff.1 hd; omega
        · omega
      cases fuel with
      | zero => rfl
      | succ f => simp only [splitEscLoop, hi, if_true, simpleSplitE]; rfl
    | cons c t =>
      obtain ⟨hc, hd', hlt⟩ := idxC_of_drop hd
      cases fuel with
      | zero => simp at hl
      | succ f =>
        have hi : ¬ i ≥ str.length := by omega
        have htl : t.length ≤ n := by simp at hn; omega
        have htf : t.length ≤ f := by simp at hl; omega
        by_cases hce : (c == esc) = true
        · -- an escape character: the next byte exists and is harmless
          cases t with
          | nil => simp [escOK, hce] at hok
          | cons d t' =>
            simp only [escOK, hce, if_true, Bool.and_eq_true, bne_iff_ne, ne_eq] at hok
            obtain ⟨⟨hds, hde⟩, hok'⟩ := hok
            obtain ⟨hc2, hd2, hlt2⟩ := idxC_of_drop hd'
            cases f with
            | zero => simp at htf
            | succ f' =>
              have hi2 : ¬ i + 1 ≥ str.length := by omega
              simp only [splitEscLoop, hi, if_false, hc, bind, Except.bind, hce, if_true, hi2, hc2,
                beq_false_of_ne' hde, beq_false_of_ne' hds, Bool.false_eq_true, simpleSplitE]
              exact ih f' (i + 1 + 1) _ parts t' (by simp at htl; omega) hok' hd2 (by simp at htf; omega)
        · have hce' : (c == esc) = false := by cases h : c == esc <;> simp_all
          have hok' : escOK sep esc t = true := by rw [← escOK_cons_ne t hce']; exact hok
          rw [simpleSplitE_cons_ne t sb parts hce']
          simp only [splitEscLoop, hi, if_false, hc, bind, Except.bind, hce', Bool.false_eq_true]
          by_cases hs : (c == sep) = true
          · simp only [hs, if_true, Bool.false_or]
            by_cases hsb : sb.length > 0
            · simp only [hsb, decide_true, if_true]
              exact ih f (i + 1) [] (parts ++ [sb]) t htl hok' hd' htf
            · simp only [hsb, decide_false, Bool.false_eq_true, if_false]
              exact ih f (i + 1) sb parts t htl hok' hd' htf
          · simp only [hs, if_false, Bool.false_eq_true]
            exact ih f (i + 1) (sb ++ [c]) parts t htl hok' hd' htf

/-- A piece without the separator, all of whose escape characters are harmless, is copied. -/
theorem simpleSplitE_run (sep esc : UInt8) :
    ∀ (n : Nat) (x rest sb : Bytes) (parts : List Bytes), x.length ≤ n → escOK sep esc x = true → sep ∉ x →
      simpleSplitE sep esc (x ++ rest) sb parts = simpleSplitE sep esc rest (sb ++ x) parts := by
  intro n
  induction n with
  | zero =>
    intro x rest sb parts hn _ _
    have : x = [] := List.eq_nil_of_length_eq_zero (Nat.le_zero.1 hn)
    subst this; simp
  | succ n ih =>
    intro x rest sb parts hn hok hx
    cases x with
    | nil => simp
    | cons c t =>
      have hcs : (c == sep) = false := beq_false_of_ne' (fun e => hx (e ▸ List.mem_cons_self))
      have hts : sep ∉ t := fun h => hx (List.mem_cons_of_mem _ h)
      by_cases hce : (c == esc) = true
      · cases t with
        | nil => simp [escOK, hce] at hok
        | cons d t' =>
          simp only [escOK, hce, if_true, Bool.and_eq_true, bne_iff_ne, ne_eq] at hok
          have hce2 : c = esc := eq_of_beq hce
          simp only [List.cons_append, simpleSplitE, hce, if_true]
          rw [ih t' rest _ parts (by simp at hn; omega) hok.2 (fun h => hts (List.mem_cons_of_mem _ h))]
          subst hce2
          simp
      · have hce' : (c == esc) = false := by cases h : c == esc <;> simp_all
        have hok' : escOK sep esc t = true := by rw [← escOK_cons_ne t hce']; exact hok
        rw [List.cons_append, simpleSplitE_cons_ne _ sb parts hce']
        simp only [hcs, Bool.false_eq_true, if_false]
        rw [ih t rest _ parts (by simp at hn; omega) hok' hts]
        simp

theorem escOK_append (sep esc : UInt8) :
    ∀ (n : Nat) (a b : Bytes), a.length ≤ n → escOK sep esc a = true → escOK sep esc b = true →
      escOK sep esc (a ++ b) = true := by
  intro n
  induction n with
  | zero =>
    intro a b hn _ hb
    have : a = [] := List.eq_nil_of_length_eq_zero (Nat.le_zero.1 hn)
    subst this; exact hb
  | succ n ih =>
    intro a b hn ha hb
    cases a with
    | nil => exact hb
    | cons c t =>
      by_cases hce : (c == esc) = true
      · cases t with
        | nil => simp [escOK, hce] at ha
        | cons d t' =>
          simp only [escOK, hce, if_true, Bool.and_eq_true] at ha
          simp only [List.cons_append, escOK, hce, if_true, Bool.and_eq_true]
          exact ⟨ha.1, ih t' b (by simp at hn; omega) ha.2 hb⟩
      · have hce' : (c == esc) = false := by cases h : c == esc <;> simp_all
        have ha' : escOK sep esc t = true := by rw [← escOK_cons_ne t hce']; exact ha
        rw [List.cons_append, escOK_cons_ne _ hce']
        exact ih t b (by simp at hn; omega) ha' hb

theorem escOK_joinSep (sep esc : UInt8) (hse : esc ≠ sep) (ms : List Bytes)
    (h : ∀ x ∈ ms, escOK sep esc x = true) : escOK sep esc (joinSep ms [sep]) = true := by
  induction ms with
  | nil => rfl
  | cons m ms ih =>
    cases ms with
    | nil => simpa [joinSep] using h m List.mem_cons_self
    | cons n ns =>
      simp only [joinSep]
      have hsep : escOK sep esc [sep] = true := by
        simp [escOK, beq_false_of_ne' (fun e => hse e.symm)]
      exact escOK_append sep esc _ _ _ (Nat.le_refl _)
        (escOK_append sep esc _ _ _ (Nat.le_refl _) (h m List.mem_cons_self) hsep)
        (ih (fun x hx => h x (List.mem_cons_of_mem _ hx)))

/-- The pieces, each non-empty, free of the separator and with harmless escapes only, come back. -/
theorem simpleSplitE_join (sep esc : UInt8) (hse : esc ≠ sep) (m : Bytes) (ms : List Bytes) (parts : List Bytes)
    (hne : ∀ x ∈ m :: ms, x ≠ []) (hs : sepFree sep (m :: ms)) (he : ∀ x ∈ m :: ms, escOK sep esc x = true) :
    ∃ sb parts', simpleSplitE sep esc (joinSep (m :: ms) [sep]) [] parts = (sb, parts') ∧ sb ≠ [] ∧
      parts' ++ [sb] = parts ++ m :: ms := by
  induction ms generalizing m parts with
  | nil =>
    refine ⟨m, parts, ?_, hne m List.mem_cons_self, rfl⟩
    have := simpleSplitE_run sep esc _ m [] [] parts (Nat.le_refl _) (he m List.mem_cons_self)
      (hs m List.mem_cons_self)
    simpa [joinSep, simpleSplitE] using this
  | cons n ns ih =>
    have hm : m ≠ [] := hne m List.mem_cons_self
    have hml : m.length > 0 := List.length_pos_iff.2 hm
    obtain ⟨sb, parts', h1, h2, h3⟩ := ih n (parts ++ [m])
      (fun x hx => hne x (List.mem_cons_of_mem _ hx)) (fun x hx => hs x (List.mem_cons_of_mem _ hx))
      (fun x hx => he x (List.mem_cons_of_mem _ hx))
    refine ⟨sb, parts', ?_, h2, by rw [h3]; simp⟩
    show simpleSplitE sep esc (m ++ [sep] ++ joinSep (n :: ns) [sep]) [] parts = _
    rw [List.append_assoc, simpleSplitE_run sep esc _ m _ [] parts (Nat.le_refl _) (he m List.mem_cons_self)
      (hs m List.mem_cons_self)]
    rw [List.nil_append, List.singleton_append, simpleSplitE_cons_ne _ _ _ (beq_false_of_ne' (fun e => hse e.symm))]
    simp only [beq_self_eq_true, if_true, hml]
    exact h1

/-- `splitWithEscapeCharacter` is a left inverse of joining non-empty pieces that do not contain the separator
    and whose escape characters are all harmless. -/
theorem split_join_safe (sep esc : UInt8) (hse : esc ≠ sep) (ms : List Bytes) (hms : ms ≠ [])
    (hne : ∀ x ∈ ms, x ≠ []) (hs : sepFree sep ms) (he : ∀ x ∈ ms, escOK sep esc x = true) :
    splitWithEscapeCharacter (joinSep ms [sep]) sep esc false = .ok ms := by
  cases ms with
  | nil => exact absurd rfl hms
  | cons m ms =>
    have hj : joinSep (m :: ms) [sep] ≠ [] := joinSep_ne_nil _ m ms (hne m List.mem_cons_self)
    unfold splitWithEscapeCharacter
    have hie : (joinSep (m :: ms) [sep]).isEmpty = false := by
      cases h : joinSep (m :: ms) [sep] with
      | nil => exact absurd h hj
      | cons => rfl
    rw [hie]
    simp only [Bool.false_eq_true, if_false]
    rw [splitEscLoop_E _ sep esc _ _ 0 [] [] _ (Nat.le_refl _) (escOK_joinSep sep esc hse _ he) (by simp)
      (Nat.le_refl _)]
    obtain ⟨sb, parts', h1, h2, h3⟩ := simpleSplitE_join sep esc hse m ms [] hne hs he
    rw [h1]
    have hl : sb.length > 0 := List.length_pos_iff.2 h2
    simp only [bind, Except.bind, Bool.false_or, hl, decide_true, if_true, pure, Except.pure]
    rw [h3]; rfl

/-- Text without the escape character is `escOK`. -/
theorem escOK_of_notMem (sep esc : UInt8) (s : Bytes) (h : esc ∉ s) : escOK sep esc s = true := by
  induction s with
  | nil => rfl
  | cons c t ih =>
    have : (c == esc) = false := beq_false_of_ne' (fun e => h (e ▸ List.mem_cons_self))
    rw [escOK_cons_ne t this]
    exact ih (fun h' => h (List.mem_cons_of_mem _ h'))

/-! ### `parseRuleText` for patterns that may begin with `/` -/

/-- `parseRuleText` on `[@@] pattern [$ options]`: the pattern starts with a byte other than `@`, contains no
    `$` and no backslash; the options contain no `$`; the text after the exception marker is NOT of the form
    `/…/` (a `/regex/` rule, whose options would not be parsed). -/
theorem parseRuleText_joinedW (wl : Bool) (c : UInt8) (pat opts : Bytes)
    (hc1 : c ≠ ch '@')
    (hp : ch '$' ∉ c :: pat) (hbs : ch '\\' ∉ c :: pat) (ho : ch '$' ∉ opts)
    (hreg : (hasPrefix ((c :: pat) ++ (if opts = [] then [] else ch '$' :: opts)) (lit "/") &&
             hasSuffix ((c :: pat) ++ (if opts = [] then [] else ch '$' :: opts)) (lit "/")) = false) :
    parseRuleText ((if wl then lit "@@" else []) ++ (c :: pat) ++ (if opts = [] then [] else ch '$' :: opts)) =
      .ok (c :: pat, opts, wl) := by
  -- the text after the exception marker
  let t : Bytes := (c :: pat) ++ (if opts = [] then [] else ch '$' :: opts)
  have ht : t = (c :: pat) ++ (if opts = [] then [] else ch '$' :: opts) := rfl
  have hsplit : parseSplitLoop t (t.length - 1) false = .ok (c :: pat, opts) := by
    by_cases hoe : opts = []
    · have : t = c :: pat := by rw [ht, if_pos hoe]; simp
      rw [this, hoe]
      exact parseSplitLoop_none _ hp _ (Nat.sub_le _ _)
    · have : t = (c :: pat) ++ ch '$' :: opts := by rw [ht, if_neg hoe]
      rw [this]
      have hl : opts.length ≥ 1 := List.length_pos_iff.2 hoe
      have hlast : (c :: pat).getLast? ≠ some (ch '\\') := by
        intro e
        exact hbs (List.mem_of_getLast? e)
      have := parseSplitLoop_cut (c :: pat) opts ho hlast (opts.length - 1) (Nat.sub_le _ _)
      rw [show ((c :: pat) ++ ch '$' :: opts).length - 1 = (c :: pat).length + 1 + (opts.length - 1) by
        simp; omega]
      exact this
  have hreg' : (hasPrefix t (lit "/") && hasSuffix t (lit "/") && !hasSub t (lit "replace=")) = false := by
    rw [← ht] at hreg
    rw [hreg]; rfl
  cases wl with
  | false =>
    have hrt : ((if false = true then lit "@@" else []) ++ (c :: pat) ++ (if opts = [] then [] else ch '$' :: opts)) = t := by
      simp [ht]
    rw [hrt]
    have h1 : (t.isEmpty || t == lit "@@") = false := by
      rw [ht]
      have : ((c :: pat) ++ (if opts = [] then [] else ch '$' :: opts)) = c :: (pat ++ (if opts = [] then [] else ch '$' :: opts)) := rfl
      rw [this]
      have hce : (c == ch '@') = false := beq_false_of_ne' hc1
      show (false || (c :: _ == lit "@@")) = false
      rw [Bool.false_or]
      show (c :: _ == ch '@' :: [ch '@']) = false
      rw [List.cons_beq_cons, hce]; rfl
    have h2 : hasPrefix t (lit "@@") = false := by
      rw [ht]
      show (c == ch '@' && _) = false
      rw [beq_false_of_ne' hc1]; rfl
    unfold parseRuleText
    simp only [h1, Bool.false_eq_true, if_false, h2, pure, Except.pure, bind, Except.bind, hreg', hsplit]
  | true =>
    have hrt : ((if true = true then lit "@@" else []) ++ (c :: pat) ++ (if opts = [] then [] else ch '$' :: opts)) =
        lit "@@" ++ t := by
      simp [ht]
    rw [hrt]
    have h1 : ((lit "@@" ++ t).isEmpty || (lit "@@" ++ t) == lit "@@") = false := by
      rw [ht]
      show (false || (ch '@' :: ch '@' :: c :: _ == ch '@' :: [ch '@'])) = false
      rw [Bool.false_or, List.cons_beq_cons, List.cons_beq_cons]
      simp
    have h2 : hasPrefix (lit "@@" ++ t) (lit "@@") = true := by
      show hasPrefix (ch '@' :: ch '@' :: t) (ch '@' :: [ch '@']) = true
      simp [hasPrefix]
    have h3 : sliceC (lit "@@" ++ t) 2 (lit "@@" ++ t).length = .ok t := by
      rw [sliceC_ok (by simp [lit])]
      show Except.ok (List.drop 2 (List.take _ (ch '@' :: ch '@' :: t))) = _
      simp [lit]
    unfold parseRuleText
    simp only [h1, Bool.false_eq_true, if_false, h2, if_true, h3, pure, Except.pure, bind, Except.bind, hreg', hsplit]

end UF.L

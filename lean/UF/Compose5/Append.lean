import UF.Compose5.TextRef
import UF.Spec.Priority
import UF.Proofs.Priority
/-
  Integration (group L), part 8: APPENDING one modifier to a rendered rule text.

  `append_mod`: for `t = render exception pattern ms` and `t' = render exception pattern (ms ++ [m])` (i.e.
  `t' = t ++ "," ++ spelling of m`, or `t ++ "$" ++ …` when `t` has no modifier yet), the two parsed rules are,
  on every field other than text / list id / pattern / shortcut,

      r  = overrideDoc R          and          r' = overrideDoc (applyMod R m)

  for one record `R` (the option loop's state after `ms`, before the document-only override).
-/
namespace UF.L
open UF UF.E Bytes UF.Compose3

/-- The modifier fields of a rule: text, list id, pattern and shortcut cleared. -/
def modFields (r : NetRule) : NetRule := { r with text := [], listID := 0, pattern := [], shortcut := [] }

theorem modFields_idem (r : NetRule) : modFields (modFields r) = modFields r := rfl

theorem modFields_applyMod (ext : Ext) (r : NetRule) (m : Mod) :
    modFields (applyMod ext r m) = modFields (applyMod ext (modFields r) m) := by
  cases m with
  | ctype neg c => cases neg <;> rfl
  | _ => rfl

theorem modFields_overrideDoc (r : NetRule) : modFields (overrideDoc r) = overrideDoc (modFields r) := by
  unfold overrideDoc
  show modFields (if docOnlyB r.enabled = true then _ else _) = if docOnlyB r.enabled = true then _ else _
  split <;> rfl

theorem modFields_foldl (ext : Ext) (ms : List Mod) (r : NetRule) :
    modFields (ms.foldl (applyMod ext) r) = modFields (ms.foldl (applyMod ext) (modFields r)) := by
  induction ms generalizing r with
  | nil => rfl
  | cons m ms ih =>
    simp only [List.foldl_cons]
    rw [ih (applyMod ext r m), modFields_applyMod, ← ih (applyMod ext (modFields r) m)]

/-- `IsHigherPriority` reads the modifier fields only. -/
theorem higher_modFields (a b : NetRule) : isHigherPriority a b = isHigherPriority (modFields a) (modFields b) := rfl

/-- APPENDING A MODIFIER, at the level of parsed records. -/
theorem append_mod {px : ParseExt} {wl : Bool} {pat : Bytes} {ms : List Mod} {m : Mod} {id id' : Int}
    {r r' : NetRule} (hp : patOK pat = true) (hm : ∀ x ∈ ms ++ [m], x.valsOK = true)
    (h : parseNetRule px (render wl pat ms) id = .ok r)
    (h' : parseNetRule px (render wl pat (ms ++ [m])) id' = .ok r') :
    ∃ R : NetRule, modFields R = R ∧ R.whitelist = wl ∧ modFields r = overrideDoc R ∧
      modFields r' = overrideDoc (modFields (applyMod px.ext R m)) := by
  have hr := parse_render hp (fun x hx => hm x (List.mem_append_left _ hx)) h
  have hr' := parse_render hp hm h'
  refine ⟨modFields (ms.foldl (applyMod px.ext) (modFields (initRule (render wl pat ms) wl id pat))), rfl, ?_, ?_, ?_⟩
  · show (ms.foldl (applyMod px.ext) (modFields (initRule (render wl pat ms) wl id pat))).whitelist = wl
    have : ∀ (l : List Mod) (x : NetRule), (l.foldl (applyMod px.ext) x).whitelist = x.whitelist := by
      intro l
      induction l with
      | nil => intro x; rfl
      | cons m l ih => intro x; rw [List.foldl_cons, ih, applyMod_whitelist]
    rw [this]; rfl
  · rw [hr]
    show modFields (overrideDoc _) = _
    rw [modFields_overrideDoc, modFields_foldl]
  · rw [hr']
    show modFields (overrideDoc _) = _
    rw [modFields_overrideDoc, List.foldl_append, List.foldl_cons, List.foldl_nil, modFields_applyMod,
      modFields_foldl]
    rfl

theorem modFields_applyMod' (ext : Ext) (r : NetRule) (m : Mod) :
    modFields (applyMod ext r m) = applyMod ext (modFields r) m := by
  cases m with
  | ctype neg c => cases neg <;> rfl
  | _ => rfl

/-- … in the form used by the priority theorems. -/
theorem append_mod' {px : ParseExt} {wl : Bool} {pat : Bytes} {ms : List Mod} {m : Mod} {id id' : Int}
    {r r' : NetRule} (hp : patOK pat = true) (hm : ∀ x ∈ ms ++ [m], x.valsOK = true)
    (h : parseNetRule px (render wl pat ms) id = .ok r)
    (h' : parseNetRule px (render wl pat (ms ++ [m])) id' = .ok r') :
    ∃ R : NetRule, R.whitelist = wl ∧ modFields r = overrideDoc R ∧
      modFields r' = overrideDoc (applyMod px.ext R m) := by
  obtain ⟨R, hR, hwl, e, e'⟩ := append_mod hp hm h h'
  refine ⟨R, hwl, e, ?_⟩
  rw [e', modFields_applyMod', hR]

/-! ### how one more modifier changes the overridden record -/

theorem overrideDoc_enabled (r : NetRule) : (overrideDoc r).enabled = r.enabled := by
  unfold overrideDoc; split <;> rfl

theorem docOnlyB_or_pow (n k : Nat)
    (hk : k ≠ 7 ∧ k ≠ 4 ∧ k ≠ 9 ∧ k ≠ 8 ∧ k ≠ 6 ∧ k ≠ 5 ∧ k ≠ 10 ∧ k ≠ 14) :
    docOnlyB (n ||| 2 ^ k) = docOnlyB n := by
  obtain ⟨h1, h2, h3, h4, h5, h6, h7, h8⟩ := hk
  rw [docOnlyB_or]
  have : docOnlyB (2 ^ k) = false := by
    rw [docOnlyB_bits]
    simp only [Nat.testBit_two_pow]
    simp [h1, h2, h3, h4, h5, h6, h7, h8]
  rw [this, Bool.or_false]

/-- Setting an option bit that is not a document-only bit commutes with the override. -/
theorem overrideDoc_enable (R : NetRule) (k : Nat)
    (hk : k ≠ 7 ∧ k ≠ 4 ∧ k ≠ 9 ∧ k ≠ 8 ∧ k ≠ 6 ∧ k ≠ 5 ∧ k ≠ 10 ∧ k ≠ 14) :
    overrideDoc { R with enabled := R.enabled ||| 2 ^ k } =
      { overrideDoc R with enabled := (overrideDoc R).enabled ||| 2 ^ k } := by
  unfold overrideDoc
  show (if docOnlyB (R.enabled ||| 2 ^ k) = true then _ else _) = _
  rw [docOnlyB_or_pow R.enabled k hk]
  split <;> rfl

/-- Setting ANY option bit on a rule that already carries a document-only option. -/
theorem overrideDoc_enable_doc (R : NetRule) (k : Nat) (hd : docOnlyB R.enabled = true) :
    overrideDoc { R with enabled := R.enabled ||| 2 ^ k } =
      { overrideDoc R with enabled := (overrideDoc R).enabled ||| 2 ^ k } := by
  unfold overrideDoc
  show (if docOnlyB (R.enabled ||| 2 ^ k) = true then _ else _) = _
  rw [docOnlyB_or, hd, Bool.true_or]
  simp only [if_true]

theorem overrideDoc_disable (R : NetRule) (x : Nat) :
    overrideDoc { R with disabled := x } = { overrideDoc R with disabled := x } := by
  unfold overrideDoc
  show (if docOnlyB R.enabled = true then _ else _) = _
  split <;> rfl

theorem overrideDoc_restrTypes (R : NetRule) (x : Nat) :
    overrideDoc { R with restrTypes := x } = { overrideDoc R with restrTypes := x } := by
  unfold overrideDoc
  show (if docOnlyB R.enabled = true then _ else _) = _
  split <;> rfl

theorem overrideDoc_permTypes_plain (R : NetRule) (x : Nat) (hd : docOnlyB R.enabled = false) :
    overrideDoc { R with permTypes := x } = { overrideDoc R with permTypes := x } := by
  unfold overrideDoc
  show (if docOnlyB R.enabled = true then _ else _) = _
  rw [hd]
  rfl

theorem overrideDoc_permTypes_doc (R : NetRule) (x : Nat) (hd : docOnlyB R.enabled = true) :
    overrideDoc { R with permTypes := x } = overrideDoc R := by
  unfold overrideDoc
  show (if docOnlyB R.enabled = true then _ else _) = _
  rw [hd]
  rfl

theorem overrideDoc_domains (R : NetRule) (p n : List Bytes) :
    overrideDoc { R with permDomains := p, restrDomains := n } =
      { overrideDoc R with permDomains := p, restrDomains := n } := by
  unfold overrideDoc
  show (if docOnlyB R.enabled = true then _ else _) = _
  split <;> rfl

theorem overrideDoc_denyallow (R : NetRule) (p : List Bytes) :
    overrideDoc { R with denyallow := p } = { overrideDoc R with denyallow := p } := by
  unfold overrideDoc
  show (if docOnlyB R.enabled = true then _ else _) = _
  split <;> rfl

theorem overrideDoc_dns (R : NetRule) (p n : List Nat) :
    overrideDoc { R with permDns := p, restrDns := n } = { overrideDoc R with permDns := p, restrDns := n } := by
  unfold overrideDoc
  show (if docOnlyB R.enabled = true then _ else _) = _
  split <;> rfl

theorem overrideDoc_tags (R : NetRule) (p n : List Bytes) :
    overrideDoc { R with permTags := p, restrTags := n } = { overrideDoc R with permTags := p, restrTags := n } := by
  unfold overrideDoc
  show (if docOnlyB R.enabled = true then _ else _) = _
  split <;> rfl

theorem overrideDoc_clients (R : NetRule) (p n : Option Clients) :
    overrideDoc { R with permClients := p, restrClients := n } =
      { overrideDoc R with permClients := p, restrClients := n } := by
  unfold overrideDoc
  show (if docOnlyB R.enabled = true then _ else _) = _
  split <;> rfl

theorem clientsOf_len (ext : Ext) (l : List Bytes) : Clients.len (clientsOf ext l) = l.length := by
  cases l with
  | nil => rfl
  | cons x l =>
    rw [clientsOf_cons]
    unfold Clients.len
    simp only
    rw [(E.sortB_perm _).length_eq, (sortPrefixes_perm _).length_eq, clients_len]

theorem pos_neg_length {α} (vs : List (Bool × α)) : (posVals vs).length + (negVals vs).length = vs.length := by
  induction vs with
  | nil => rfl
  | cons v vs ih =>
    obtain ⟨b, x⟩ := v
    cases b <;> simp [posVals, negVals] at ih ⊢ <;> omega

theorem opt_bit_pow (o : Opt) : ∃ k, o.bit = 2 ^ k ∧ k < 15 := by
  cases o
  · exact ⟨2, rfl, by decide⟩
  · exact ⟨3, rfl, by decide⟩
  · exact ⟨1, rfl, by decide⟩
  · exact ⟨4, rfl, by decide⟩
  · exact ⟨5, rfl, by decide⟩
  · exact ⟨6, rfl, by decide⟩
  · exact ⟨7, rfl, by decide⟩
  · exact ⟨8, rfl, by decide⟩
  · exact ⟨9, rfl, by decide⟩
  · exact ⟨10, rfl, by decide⟩
  · exact ⟨14, rfl, by decide⟩
  · exact ⟨11, rfl, by decide⟩
  · exact ⟨12, rfl, by decide⟩
  · exact ⟨13, rfl, by decide⟩

/-- With class, `$redirect` and generic/specific unchanged, the comparison IS the comparison of the counts. -/
theorem higher_eq_count (r' r : NetRule) (hc : classRank r' = classRank r)
    (hr : r'.redirect = r.redirect) (hg : r'.isGeneric = r.isGeneric) :
    isHigherPriority r' r = decide (modifierCount r' > modifierCount r) := by
  apply Bool.eq_iff_iff.2
  rw [higher_iff_key, decide_eq_true_eq]
  constructor
  · intro h
    unfold PKey.gt pkey at h
    simp only [hc, hr, hg] at h
    rcases h with h | ⟨_, h | ⟨_, h | ⟨_, h⟩⟩⟩
    · exact absurd h (Nat.lt_irrefl _)
    · exact absurd h (Nat.lt_irrefl _)
    · exact absurd h (Nat.lt_irrefl _)
    · exact h
  · intro h
    unfold PKey.gt pkey
    simp only [hc, hr, hg]
    exact Or.inr ⟨trivial, Or.inr ⟨trivial, Or.inr ⟨trivial, h⟩⟩⟩

/-- A document-only option on a rule without document-only options: the override replaces the permitted
    content types by `document`, so the count changes by `2 - (number of permitted types)`. -/
theorem doconly_counts (R : NetRule) (k : Nat) (hk2 : k ≠ 2) (hk18 : k ≠ 18)
    (hbit : R.enabled.testBit k = false) :
    let R' : NetRule := { R with enabled := R.enabled ||| 2 ^ k, permTypes := Facts.TypeDocument }
    classRank R' = classRank R ∧ R'.redirect = R.redirect ∧ R'.isGeneric = R.isGeneric ∧
      modifierCount R' + popCount R.permTypes = modifierCount R + 2 := by
  intro R'
  have himp : R'.important = R.important := by
    show (((R.enabled ||| 2 ^ k) &&& 2 ^ 2) == 2 ^ 2) = ((R.enabled &&& 2 ^ 2) == 2 ^ 2)
    rw [isEnabled_or_two_pow, and_two_pow_beq]; simp [hk2]
  have hred : R'.redirect = R.redirect := by
    show (((R.enabled ||| 2 ^ k) &&& 2 ^ 18) == 2 ^ 18) = ((R.enabled &&& 2 ^ 18) == 2 ^ 18)
    rw [isEnabled_or_two_pow, and_two_pow_beq]; simp [hk18]
  refine ⟨?_, hred, rfl, ?_⟩
  · unfold classRank
    rw [himp]
  · unfold modifierCount
    simp only [R']
    rw [popCount_or_two_pow k R.enabled hbit, show popCount Facts.TypeDocument = 1 by decide]
    omega

theorem docOnlyB_false_bits {n : Nat} (h : docOnlyB n = false) (k : Nat)
    (hk : k = 7 ∨ k = 4 ∨ k = 9 ∨ k = 8 ∨ k = 6 ∨ k = 5 ∨ k = 10 ∨ k = 14) : n.testBit k = false := by
  rw [docOnlyB_bits] at h
  simp only [Bool.or_eq_false_iff] at h
  obtain ⟨⟨⟨⟨⟨⟨⟨h7, h4⟩, h9⟩, h8⟩, h6⟩, h5⟩, h10⟩, h14⟩ := h
  rcases hk with rfl | rfl | rfl | rfl | rfl | rfl | rfl | rfl <;> assumption

theorem docOnly_bit (o : Opt) (h : o.docOnly = true) :
    ∃ k, o.bit = 2 ^ k ∧ (k = 7 ∨ k = 4 ∨ k = 9 ∨ k = 8 ∨ k = 6 ∨ k = 5 ∨ k = 10 ∨ k = 14) := by
  cases o <;> first | (exact absurd h (by decide)) | skip
  · exact ⟨4, rfl, by decide⟩
  · exact ⟨5, rfl, by decide⟩
  · exact ⟨6, rfl, by decide⟩
  · exact ⟨7, rfl, by decide⟩
  · exact ⟨8, rfl, by decide⟩
  · exact ⟨9, rfl, by decide⟩
  · exact ⟨10, rfl, by decide⟩
  · exact ⟨14, rfl, by decide⟩

end UF.L

import UF.Spec.DnsRewrite
import UF.Spec.DnsRewriteShape
import UF.Proofs.DnsRewrite
/-
  C09, the relation "exception `e` disables rewrite `r`" written from the property TEXT
  (integration group L; answer to review finding 9: `UF.disables` is `matchException` transcribed
  with the same if/else nesting, so the relation was not specified independently).

  The text: "an exception with an empty value disables all non-important rewrites (all rewrites if
  it is itself important), and an exception with a value disables rewrites with the same new CNAME,
  or the same response code and, for successful responses, the same record type and value.
  Non-important exceptions never disable important rewrites".

  The clauses of the text are the named predicates below; a reading of the text is a plain Boolean
  combination of them (no `if`, no nesting):

    guard       := e.important ∨ ¬ r.important                                (last sentence)
    emptyValue  := every field of the exception's value is zero               (first clause)
    sameNewCNAME:= the exception names a new CNAME and the rewrite has the same one
    sameResponse:= same rcode ∧ (rcode ≠ 0 ∨ (same record type ∧ same value))

  Three readings of "A, or B":

    disablesText      guard ∧ (emptyValue ∨ sameNewCNAME ∨ (exception has NO new CNAME ∧ sameResponse))
                      "an exception is either a CNAME exception or a response exception"
    disablesTextKind  guard ∧ (emptyValue ∨ sameNewCNAME ∨ (NEITHER has a new CNAME ∧ sameResponse))
                      "CNAME rewrites are compared with CNAME exceptions, responses with responses"
    disablesTextNaive guard ∧ (emptyValue ∨ sameNewCNAME ∨ sameResponse)
                      the literal "or"

  Results (theorems in UF/Props/C09Text.lean, lemmas here):
    * `disablesText  = disables`  for ALL records (no hypothesis);
    * `disablesTextKind = disables` when the REWRITE's value has the C10 shape "a new CNAME stands
      alone" (`cnameAlone`: new CNAME ⇒ rcode = 0 ∧ rrType = 0 ∧ value = nil); false without it;
    * `disablesTextNaive` is NOT `disables`, also not on C10-shaped (parsed) values: a CNAME exception
      `@@||e^$dnsrewrite=x.net` would disable `||e^$dnsrewrite=NOERROR` and every OTHER CNAME rewrite
      `||e^$dnsrewrite=y.net` (all three have rcode 0, type 0, value nil); the code does not.
      It coincides with `disables` exactly on pairs whose exception has no new CNAME (or the listed
      coincidence fails), see `disablesTextNaive_ne_iff`.
-/
namespace UF.L
open UF

/-! ### the clauses of the text -/

/-- "an exception with an empty value": every field of the value is the zero value. -/
def emptyValue (w : DnsRewrite) : Bool :=
  w.rcode == 0 && w.rrType == 0 && w.newCNAME == [] && w.value == RRVal.none

/-- The value names a new CNAME. -/
def hasNewCNAME (w : DnsRewrite) : Bool := w.newCNAME != []

/-- "rewrites with the same new CNAME" (as the one the exception names). -/
def sameNewCNAME (ew rw : DnsRewrite) : Bool := hasNewCNAME ew && rw.newCNAME == ew.newCNAME

/-- "the same response code and, for successful responses, the same record type and value". -/
def sameResponse (ew rw : DnsRewrite) : Bool :=
  rw.rcode == ew.rcode && (ew.rcode != 0 || (rw.rrType == ew.rrType && rw.value == ew.value))

/-- "Non-important exceptions never disable important rewrites". -/
def importanceOK (e r : NetRule) : Bool := e.important || !r.important

/-! ### three readings -/

/-- The text, reading "an exception with a value" as EITHER a CNAME exception OR a response
    exception.  Equal to `disables` for all records (`disablesText_eq_disables`). -/
def disablesText (e r : NetRule) : Bool :=
  match e.rewrite, r.rewrite with
  | some ew, some rw =>
    importanceOK e r &&
      (emptyValue ew || sameNewCNAME ew rw || (!hasNewCNAME ew && sameResponse ew rw))
  | _, _ => false

/-- The text, comparing like with like: CNAME rewrites with CNAME exceptions, responses with
    responses.  Equal to `disables` when the rewrite has the C10 shape (`cnameAlone`). -/
def disablesTextKind (e r : NetRule) : Bool :=
  match e.rewrite, r.rewrite with
  | some ew, some rw =>
    importanceOK e r &&
      (emptyValue ew || sameNewCNAME ew rw ||
        (!hasNewCNAME ew && !hasNewCNAME rw && sameResponse ew rw))
  | _, _ => false

/-- The NAIVE reading: the literal "same new CNAME, or same response …".  Not the code's relation. -/
def disablesTextNaive (e r : NetRule) : Bool :=
  match e.rewrite, r.rewrite with
  | some ew, some rw =>
    importanceOK e r && (emptyValue ew || sameNewCNAME ew rw || sameResponse ew rw)
  | _, _ => false

/-- The part of the C10 shape (`UF.H.shapeOK`) the readings depend on: a new CNAME stands alone. -/
def cnameAlone (w : DnsRewrite) : Bool :=
  w.newCNAME == [] || (w.rcode == 0 && w.rrType == 0 && w.value == RRVal.none)

/-! ### the reference filter, for any relation -/

/-- `specRewrites` with the relation as a parameter: after `$badfilter` (C08), the non-exception
    rules that no exception disables; order kept. -/
def specRewritesWith (d : NetRule → NetRule → Bool) (all : List NetRule) : List NetRule :=
  (specRemoveBad all).filter (fun r =>
    !r.whitelist && !(specRemoveBad all).any (fun e => e.whitelist && d e r))

/-- The text-level reference for C09 (mirrors `UF.specRewrites`, with `disablesText`). -/
def specRewritesText (all : List NetRule) : List NetRule :=
  (specRemoveBad all).filter (fun r =>
    !r.whitelist && !(specRemoveBad all).any (fun e => e.whitelist && disablesText e r))

def specRewritesTextKind (all : List NetRule) : List NetRule := specRewritesWith disablesTextKind all
def specRewritesTextNaive (all : List NetRule) : List NetRule := specRewritesWith disablesTextNaive all

theorem specRewritesText_eq_with (all : List NetRule) :
    specRewritesText all = specRewritesWith disablesText all := rfl

theorem specRewrites_eq_with (all : List NetRule) :
    specRewrites all = specRewritesWith disables all := rfl

/-- Two relations that agree on (effective exception, effective non-exception) pairs of the list give
    the same reference. -/
theorem specRewritesWith_congr (d1 d2 : NetRule → NetRule → Bool) (all : List NetRule)
    (h : ∀ e ∈ specRemoveBad all, ∀ r ∈ specRemoveBad all,
      e.whitelist = true → r.whitelist = false → d1 e r = d2 e r) :
    specRewritesWith d1 all = specRewritesWith d2 all := by
  unfold specRewritesWith
  apply List.filter_congr
  intro r hr
  cases hw : r.whitelist with
  | true => simp
  | false =>
    simp only [Bool.not_false, Bool.true_and]
    congr 1
    apply any_congr_mem
    intro e he
    cases hew : e.whitelist with
    | false => simp
    | true => simp [h e he r hr hew hw]

/-! ### the clauses against the records -/

theorem emptyValue_eq (w : DnsRewrite) : emptyValue w = (w == emptyRewrite) := by
  obtain ⟨rc, rr, cn, v⟩ := w
  rw [Bool.eq_iff_iff]
  simp [emptyValue, emptyRewrite, and_assoc]

theorem cnameAlone_of_shapeOK (w : DnsRewrite) (h : H.shapeOK w = true) : cnameAlone w = true := by
  unfold H.shapeOK at h
  unfold cnameAlone
  cases hc : w.newCNAME with
  | nil => simp
  | cons a as =>
    simp only [hc, List.isEmpty_cons, Bool.not_false, if_true] at h
    simp only [Bool.and_eq_true, beq_iff_eq] at h
    simp [h.1.1, h.1.2, h.2]

/-- The relation on values behind `disables`. -/
theorem disables_some (e r : NetRule) (ew rw : DnsRewrite) (he : e.rewrite = some ew)
    (hr : r.rewrite = some rw) :
    disables e r = (importanceOK e r && (emptyValue ew ||
      (if ew.newCNAME != [] then rw.newCNAME == ew.newCNAME else sameResponse ew rw))) := by
  unfold disables
  simp only [he, hr, emptyValue_eq, importanceOK, sameResponse]

/-- READING 1 needs no hypothesis. -/
theorem disablesText_eq_disables (e r : NetRule) : disablesText e r = disables e r := by
  cases he : e.rewrite with
  | none => simp [disablesText, disables, he]
  | some ew =>
    cases hr : r.rewrite with
    | none => simp [disablesText, disables, he, hr]
    | some rw =>
      rw [disables_some e r ew rw he hr]
      simp only [disablesText, he, hr, sameNewCNAME, hasNewCNAME]
      cases importanceOK e r <;> cases emptyValue ew <;> cases (ew.newCNAME != []) <;>
        cases (rw.newCNAME == ew.newCNAME) <;> cases sameResponse ew rw <;> rfl

/-- The naive reading only ever disables MORE than the code. -/
theorem disablesTextNaive_of_disables (e r : NetRule) (h : disables e r = true) :
    disablesTextNaive e r = true := by
  cases he : e.rewrite with
  | none => simp [disables, he] at h
  | some ew =>
    cases hr : r.rewrite with
    | none => simp [disables, he, hr] at h
    | some rw =>
      rw [disables_some e r ew rw he hr] at h
      simp only [disablesTextNaive, he, hr, sameNewCNAME, hasNewCNAME]
      revert h
      cases importanceOK e r <;> cases emptyValue ew <;> cases (ew.newCNAME != []) <;>
        cases (rw.newCNAME == ew.newCNAME) <;> cases sameResponse ew rw <;> simp

/-- Exactly where the naive reading leaves the code: the exception names a new CNAME, the rewrite
    has another (or none), and yet the "same response" clause holds. -/
theorem disablesTextNaive_ne_iff (e r : NetRule) :
    disablesTextNaive e r ≠ disables e r ↔
      ∃ ew rw, e.rewrite = some ew ∧ r.rewrite = some rw ∧ importanceOK e r = true ∧
        ew.newCNAME ≠ [] ∧ rw.newCNAME ≠ ew.newCNAME ∧ sameResponse ew rw = true := by
  cases he : e.rewrite with
  | none => simp [disablesTextNaive, disables, he]
  | some ew =>
    cases hr : r.rewrite with
    | none => simp [disablesTextNaive, disables, he, hr]
    | some rw =>
      rw [disables_some e r ew rw he hr]
      simp only [disablesTextNaive, he, hr, sameNewCNAME, hasNewCNAME]
      have hemp : ew.newCNAME ≠ [] → emptyValue ew = false := by
        intro h
        cases hh : emptyValue ew with
        | false => rfl
        | true =>
          simp only [emptyValue, Bool.and_eq_true, beq_iff_eq] at hh
          exact absurd hh.1.2 h
      constructor
      · intro hne
        refine ⟨ew, rw, rfl, rfl, ?_⟩
        by_cases hc : ew.newCNAME = []
        · simp [hc] at hne
        · have h1 := hemp hc
          by_cases hs : rw.newCNAME = ew.newCNAME
          · simp [hc, hs] at hne
          · cases hi : importanceOK e r <;> cases hsr : sameResponse ew rw <;>
              simp_all
      · rintro ⟨ew', rw', h1, h2, hi, hc, hs, hsr⟩
        cases Option.some.inj h1
        cases Option.some.inj h2
        simp [hemp hc, hc, hs, hi, hsr]

/-- On an exception WITHOUT a new CNAME the naive reading is the code's relation. -/
theorem disablesTextNaive_eq_of_noCNAME (e r : NetRule)
    (h : ∀ ew, e.rewrite = some ew → ew.newCNAME = []) : disablesTextNaive e r = disables e r := by
  apply Decidable.byContradiction
  intro hne
  obtain ⟨ew, _, he, _, _, hc, _⟩ := (disablesTextNaive_ne_iff e r).mp hne
  exact hc (h ew he)

/-- For a C10-shaped CNAME exception "same response" says: the rewrite is a bare NOERROR. -/
theorem sameResponse_of_cnameAlone (ew rw : DnsRewrite) (hc : ew.newCNAME ≠ [])
    (hs : cnameAlone ew = true) :
    sameResponse ew rw = (rw.rcode == 0 && rw.rrType == 0 && rw.value == RRVal.none) := by
  unfold cnameAlone at hs
  simp only [Bool.or_eq_true, Bool.and_eq_true, beq_iff_eq, hc, false_or] at hs
  obtain ⟨⟨h1, h2⟩, h3⟩ := hs
  simp [sameResponse, h1, h2, h3, Bool.and_assoc]

/-- A C10-shaped rewrite is "bare NOERROR" iff it is a CNAME rewrite or the empty value. -/
theorem bareNoerror_iff (rw : DnsRewrite) (hs : cnameAlone rw = true) :
    (rw.rcode = 0 ∧ rw.rrType = 0 ∧ rw.value = RRVal.none) ↔ (rw.newCNAME ≠ [] ∨ rw = emptyRewrite) := by
  obtain ⟨rc, rr, cn, v⟩ := rw
  unfold cnameAlone at hs
  simp only [Bool.or_eq_true, Bool.and_eq_true, beq_iff_eq] at hs
  simp only [emptyRewrite, DnsRewrite.mk.injEq]
  constructor
  · rintro ⟨h1, h2, h3⟩
    by_cases hc : cn = []
    · exact Or.inr ⟨h1, h2, hc, h3⟩
    · exact Or.inl hc
  · rintro (hc | ⟨h1, h2, _, h3⟩)
    · rcases hs with hs | ⟨⟨h1, h2⟩, h3⟩
      · exact absurd hs hc
      · exact ⟨h1, h2, h3⟩
    · exact ⟨h1, h2, h3⟩

/-- READING 2 needs the shape of the REWRITE's value (not of the exception's). -/
theorem disablesTextKind_eq_disables (e r : NetRule)
    (hr : ∀ rw, r.rewrite = some rw → cnameAlone rw = true) : disablesTextKind e r = disables e r := by
  cases he : e.rewrite with
  | none => simp [disablesTextKind, disables, he]
  | some ew =>
    cases hrr : r.rewrite with
    | none => simp [disablesTextKind, disables, he, hrr]
    | some rw =>
      rw [disables_some e r ew rw he hrr]
      simp only [disablesTextKind, he, hrr, sameNewCNAME, hasNewCNAME]
      have hs := hr rw hrr
      -- the only pair on which the two differ: response exception (not empty), CNAME rewrite,
      -- same response; excluded by the shape of the rewrite
      have key : emptyValue ew = false → (ew.newCNAME != []) = false → (rw.newCNAME != []) = true →
          sameResponse ew rw = false := by
        intro hemp hce hcr
        have hce : ew.newCNAME = [] := by simpa using hce
        have hcr : rw.newCNAME ≠ [] := by simpa using hcr
        unfold cnameAlone at hs
        simp only [Bool.or_eq_true, Bool.and_eq_true, beq_iff_eq, hcr, false_or] at hs
        obtain ⟨⟨h1, h2⟩, h3⟩ := hs
        cases hsr : sameResponse ew rw with
        | false => rfl
        | true =>
          exfalso
          simp only [sameResponse, h1, h2, h3, Bool.and_eq_true, Bool.or_eq_true, beq_iff_eq,
            bne_iff_ne] at hsr
          obtain ⟨hrc, hrest⟩ := hsr
          have hrt : ew.rrType = 0 ∧ ew.value = RRVal.none := by
            rcases hrest with hne | ⟨ht, hv⟩
            · exact absurd hrc.symm hne
            · exact ⟨ht.symm, hv.symm⟩
          have : emptyValue ew = true := by
            simp [emptyValue, ← hrc, hrt.1, hrt.2, hce]
          rw [this] at hemp; cases hemp
      cases ha : (ew.newCNAME != []) <;> cases hb : (rw.newCNAME != []) <;>
        cases hemp : emptyValue ew <;> cases importanceOK e r <;>
        cases (rw.newCNAME == ew.newCNAME) <;> cases hsr : sameResponse ew rw <;>
        first
          | rfl
          | (exfalso; have := key hemp ha hb; rw [hsr] at this; cases this)


/-! ### from the reference list back to the input -/

theorem mem_of_mem_effective (res : List NetRule) (r : NetRule)
    (h : r ∈ specRemoveBad (dnsRewritesAll res)) : r ∈ res := by
  have h1 := (List.mem_filter.mp h).1
  rw [dnsRewritesAll_eq] at h1
  exact (List.mem_filter.mp h1).1

/-- `DNSRewrites()` is the reference filter for EVERY relation that agrees with `disables` on the
    (exception, non-exception) pairs of the input. -/
theorem dnsRewrites_eq_with (d : NetRule → NetRule → Bool) (res : List NetRule)
    (h : ∀ e ∈ res, ∀ r ∈ res, e.whitelist = true → r.whitelist = false → d e r = disables e r) :
    dnsRewrites res = some (specRewritesWith d (dnsRewritesAll res)) := by
  rw [dnsRewrites_eq_spec, specRewrites_eq_with]
  congr 1
  apply specRewritesWith_congr
  intro e he r hr hew hrw
  exact (h e (mem_of_mem_effective res e he) r (mem_of_mem_effective res r hr) hew hrw).symm

/-! ### example rules (records as `rules.NewNetworkRule` builds them) for UF/Props/C09Text.lean -/

/-- `||e^$dnsrewrite=NOERROR`: rcode 0, no type, no value, no CNAME. -/
def xNoerror : NetRule := { text := lit "||e^$dnsrewrite=NOERROR", rewrite := some {} }
/-- `@@||e^$dnsrewrite=x.net`. -/
def xExcX : NetRule :=
  { text := lit "@@||e^$dnsrewrite=x.net", whitelist := true, rewrite := some { newCNAME := lit "x.net" } }
/-- `||e^$dnsrewrite=x.net`. -/
def xCnameX : NetRule := { text := lit "||e^$dnsrewrite=x.net", rewrite := some { newCNAME := lit "x.net" } }
/-- `||e^$dnsrewrite=y.net`. -/
def xCnameY : NetRule := { text := lit "||e^$dnsrewrite=y.net", rewrite := some { newCNAME := lit "y.net" } }
/-- `||e^$dnsrewrite=1.2.3.4`. -/
def xA : NetRule :=
  { text := lit "||e^$dnsrewrite=1.2.3.4", rewrite := some { rrType := 1, value := .addr { is4 := true, val := 0x01020304 } } }
/-- `||e^$dnsrewrite=NXDOMAIN` and its exception. -/
def xNx : NetRule := { text := lit "||e^$dnsrewrite=NXDOMAIN", rewrite := some { rcode := 3 } }
def xExcNx : NetRule :=
  { text := lit "@@||e^$dnsrewrite=NXDOMAIN", whitelist := true, rewrite := some { rcode := 3 } }
/-- `@@||e^$dnsrewrite=1.2.3.4`. -/
def xExcA : NetRule :=
  { text := lit "@@||e^$dnsrewrite=1.2.3.4", whitelist := true,
    rewrite := some { rrType := 1, value := .addr { is4 := true, val := 0x01020304 } } }
/-- NOT a value the parser produces (violates C10): a new CNAME together with rcode 3. -/
def xIllShaped : NetRule := { text := lit "ill-shaped", rewrite := some { rcode := 3, newCNAME := lit "y.net" } }

end UF.L

import UF.Compose5.C08Split
import UF.Compose5.C08Match
import UF.Compose.ListID
import UF.Proofs.ParseTotal
/-
  Integration (group L), C08 part (a) at TEXT level: two rule texts with the same exception marker and pattern
  whose `,`-separated modifier lists differ only by one `badfilter` — at ANY position of the list — parse to
  twins: the second rule is the first one with the `$badfilter` bit set (and its own text / list id).

  Method: the parser commutes with `tw m t j` = "set text and list id, OR the mask `m` into the enabled options"
  for every mask `m` that has at most bit 3 (`m = 0`: only text and id change; `m = 8`: `$badfilter` added) —
  the same walk through `loadOption` as group I1's `parseNetRule_setID`.  The `badfilter` item itself turns
  `tw 0 … r` into `tw 8 … r`.
-/
namespace UF.L
open UF UF.E UF.Compose Bytes

/-- Set text and list id, OR `m` into the enabled options. -/
def tw (m : Nat) (t : Bytes) (j : Int) (r : NetRule) : NetRule :=
  { r with text := t, listID := j, enabled := r.enabled ||| m }

/-- `m` has no bit other than bit 3. -/
def OnlyBit3 (m : Nat) : Prop := ∀ k, k ≠ 3 → m.testBit k = false

theorem onlyBit3_zero : OnlyBit3 0 := fun k _ => by simp
theorem onlyBit3_eight : OnlyBit3 8 := by
  intro k hk
  have : (8 : Nat) = 2 ^ 3 := rfl
  rw [this, Nat.testBit_two_pow]
  simp; omega

theorem tw_isEnabled {m : Nat} (hm : OnlyBit3 m) (t : Bytes) (j : Int) (r : NetRule) (k : Nat) (hk : k ≠ 3) :
    (tw m t j r).isEnabled (2 ^ k) = r.isEnabled (2 ^ k) := by
  show ((r.enabled ||| m) &&& 2 ^ k == 2 ^ k) = (r.enabled &&& 2 ^ k == 2 ^ k)
  rw [and_two_pow_beq, and_two_pow_beq, Nat.testBit_or, hm k hk, Bool.or_false]

theorem or_right_comm' (a b c : Nat) : (a ||| b) ||| c = (a ||| c) ||| b := by
  rw [Nat.or_assoc, Nat.or_comm b c, ← Nat.or_assoc]

theorem or_xor_ext {m : Nat} (hm : OnlyBit3 m) (e : Nat) :
    (e ||| m) ^^^ Facts.OptionExtension = (e ^^^ Facts.OptionExtension) ||| m := by
  apply Nat.eq_of_testBit_eq
  intro i
  have h : Facts.OptionExtension = 2 ^ 10 := rfl
  rw [h]
  simp only [Nat.testBit_xor, Nat.testBit_or, Nat.testBit_two_pow]
  by_cases h10 : 10 = i
  · subst h10
    rw [hm 10 (by omega)]
    simp
  · simp [h10]

theorem setOptionEnabled_tw (m : Nat) (t : Bytes) (j : Int) (r : NetRule) (opt : Nat) (en : Bool) :
    setOptionEnabled (tw m t j r) opt en = mapE (tw m t j) (setOptionEnabled r opt en) := by
  unfold setOptionEnabled
  refine ite_mapE rfl (ite_mapE rfl (ite_mapE ?_ rfl))
  show Except.ok _ = Except.ok _
  simp only [tw, or_right_comm' r.enabled m opt]

theorem setIgnoringError_tw (m : Nat) (t : Bytes) (j : Int) (r : NetRule) (opt : Nat) :
    setIgnoringError (tw m t j r) opt = tw m t j (setIgnoringError r opt) := by
  unfold setIgnoringError
  rw [setOptionEnabled_tw]
  cases setOptionEnabled r opt true <;> rfl

theorem loadOption_tw {m : Nat} (hm : OnlyBit3 m) (px : ParseExt) (t : Bytes) (j : Int) (r : NetRule)
    (name value : Bytes) :
    loadOption px (tw m t j r) name value = mapE (tw m t j) (loadOption px r name value) := by
  unfold loadOption
  iterate 6 (refine ite_mapE (setOptionEnabled_tw ..) ?_)
  refine ite_mapE (bind_mapE (fun ⟨p, rs⟩ => rfl)) ?_
  refine ite_mapE (by cases px.loadDNSRewrite value <;> rfl) ?_
  refine ite_mapE (bind_mapE (fun ⟨p, rs⟩ => rfl)) ?_
  refine ite_mapE (bind_mapE (fun ⟨p, rs⟩ => ite_mapE rfl rfl)) ?_
  refine ite_mapE (bind_mapE (fun ⟨p, rs⟩ => rfl)) ?_
  refine ite_mapE (bind_mapE (fun ⟨p, rs⟩ => rfl)) ?_
  iterate 7 (refine ite_mapE (setOptionEnabled_tw ..) ?_)
  refine ite_mapE ?_ ?_
  · show Except.ok _ = Except.ok _
    simp only [tw, or_xor_ext hm r.enabled]
  refine ite_mapE ?_ ?_
  · refine bind_mapE2 (setOptionEnabled_tw ..) ?_
    intro a
    simp only [setIgnoringError_tw]
    rfl
  iterate 4 (refine ite_mapE (setOptionEnabled_tw ..) ?_)
  cases contentTypeOf name with
  | some ty => simp only [setRequestType]; split <;> rfl
  | none =>
    simp only
    refine ite_mapE ?_ rfl
    cases contentTypeOf (name.drop 1) with
    | some ty => simp only [setRequestType]; split <;> rfl
    | none => rfl

theorem loadOptionsStep_tw {m : Nat} (hm : OnlyBit3 m) (px : ParseExt) (t : Bytes) (j : Int) (r : NetRule)
    (o : Bytes) :
    loadOptionsStep px (tw m t j r) o = mapE (tw m t j) (loadOptionsStep px r o) := by
  unfold loadOptionsStep
  cases indexByte o (ch '=') with
  | none => exact loadOption_tw hm ..
  | some eqIdx =>
    simp only
    refine ite_mapE ?_ (loadOption_tw hm ..)
    exact bind_mapE (fun name => bind_mapE (fun value => loadOption_tw hm ..))

theorem foldlM_tw {m : Nat} (hm : OnlyBit3 m) (px : ParseExt) (t : Bytes) (j : Int) (l : List Bytes)
    (r : NetRule) :
    l.foldlM (loadOptionsStep px) (tw m t j r) = mapE (tw m t j) (l.foldlM (loadOptionsStep px) r) := by
  induction l generalizing r with
  | nil => rfl
  | cons a l ih =>
    simp only [List.foldlM]
    exact bind_mapE2 (loadOptionsStep_tw hm px t j r a) (fun r1 => ih r1)

/-- The `badfilter` item: from "text and id changed" to "text and id changed, `$badfilter` set". -/
theorem badfilterStep_tw (px : ParseExt) (t : Bytes) (j : Int) (r : NetRule) :
    loadOptionsStep px (tw 0 t j r) (lit "badfilter") = .ok (tw 8 t j r) := by
  have h1 : indexByte (lit "badfilter") (ch '=') = none := by decide
  unfold loadOptionsStep
  rw [h1]
  have h2 : ∀ r' : NetRule, loadOption px r' (lit "badfilter") [] = setOptionEnabled r' Facts.OptionBadfilter true := by
    intro r'; unfold loadOption; rfl
  simp only [h2]
  unfold setOptionEnabled
  have hb : (Facts.OptionBadfilter &&& Facts.OptionBlacklistOnly == Facts.OptionBadfilter) = false := by decide
  have hw : (Facts.OptionBadfilter &&& Facts.OptionWhitelistOnly == Facts.OptionBadfilter) = false := by decide
  simp only [hb, hw, Bool.and_false, Bool.false_eq_true, if_false, if_true]
  show Except.ok _ = Except.ok _
  simp only [tw, Nat.or_zero]
  rfl

/-- The loop of `loadOptions` over a list with `badfilter` inserted at any position. -/
theorem foldlM_insert_badfilter (px : ParseExt) (t : Bytes) (j : Int) (os1 os2 : List Bytes) (r : NetRule) :
    (os1 ++ lit "badfilter" :: os2).foldlM (loadOptionsStep px) (tw 0 t j r) =
      mapE (tw 8 t j) ((os1 ++ os2).foldlM (loadOptionsStep px) r) := by
  rw [List.foldlM_append, List.foldlM_append, foldlM_tw onlyBit3_zero]
  cases os1.foldlM (loadOptionsStep px) r with
  | error e => rfl
  | ok r1 =>
    show (lit "badfilter" :: os2).foldlM (loadOptionsStep px) (tw 0 t j r1) = _
    rw [List.foldlM_cons, badfilterStep_tw]
    exact foldlM_tw onlyBit3_eight px t j os2 r1

theorem documentOnly_tw {m : Nat} (hm : OnlyBit3 m) (t : Bytes) (j : Int) (r : NetRule) :
    documentOnlyOptions.any (fun o => (tw m t j r).isEnabled o) = documentOnlyOptions.any (fun o => r.isEnabled o) := by
  unfold documentOnlyOptions
  simp only [List.any_cons, List.any_nil]
  have h7 : (tw m t j r).isEnabled Facts.OptionJsinject = r.isEnabled Facts.OptionJsinject :=
    tw_isEnabled hm t j r 7 (by omega)
  have h4 : (tw m t j r).isEnabled Facts.OptionElemhide = r.isEnabled Facts.OptionElemhide :=
    tw_isEnabled hm t j r 4 (by omega)
  have h9 : (tw m t j r).isEnabled Facts.OptionContent = r.isEnabled Facts.OptionContent :=
    tw_isEnabled hm t j r 9 (by omega)
  have h8 : (tw m t j r).isEnabled Facts.OptionUrlblock = r.isEnabled Facts.OptionUrlblock :=
    tw_isEnabled hm t j r 8 (by omega)
  have h6 : (tw m t j r).isEnabled Facts.OptionGenericblock = r.isEnabled Facts.OptionGenericblock :=
    tw_isEnabled hm t j r 6 (by omega)
  have h5 : (tw m t j r).isEnabled Facts.OptionGenerichide = r.isEnabled Facts.OptionGenerichide :=
    tw_isEnabled hm t j r 5 (by omega)
  have h10 : (tw m t j r).isEnabled Facts.OptionExtension = r.isEnabled Facts.OptionExtension :=
    tw_isEnabled hm t j r 10 (by omega)
  have h14 : (tw m t j r).isEnabled Facts.OptionPopup = r.isEnabled Facts.OptionPopup :=
    tw_isEnabled hm t j r 14 (by omega)
  rw [h7, h4, h9, h8, h6, h5, h10, h14]

theorem documentOnly_fresh (r : NetRule) (h : r.enabled = 0) :
    documentOnlyOptions.any (fun o => r.isEnabled o) = false := by
  unfold documentOnlyOptions NetRule.isEnabled
  rw [h]
  decide

/-- A modifier as it can stand in a `,`-joined list: non-empty, no comma, no backslash. -/
def CleanOption (o : Bytes) : Prop := o ≠ [] ∧ CleanItem (ch ',') (ch '\\') o

theorem cleanOption_badfilter : CleanOption (lit "badfilter") := by
  refine ⟨by decide, ?_, ?_⟩ <;> decide

/-- `loadOptions` on the modifier list with `badfilter` inserted at any position (`r`: the fresh record of
    `NewNetworkRule`, no option enabled yet — needed when `badfilter` is the only modifier). -/
theorem loadOptions_insert_badfilter (px : ParseExt) (t : Bytes) (j : Int) (os1 os2 : List Bytes) (r : NetRule)
    (hc : ∀ o ∈ os1 ++ os2, CleanOption o)
    (hr : documentOnlyOptions.any (fun o => r.isEnabled o) = false) :
    loadOptions px (tw 0 t j r) (joinSep (os1 ++ lit "badfilter" :: os2) [ch ',']) =
      mapE (tw 8 t j) (loadOptions px r (joinSep (os1 ++ os2) [ch ','])) := by
  have hc' : ∀ o ∈ os1 ++ lit "badfilter" :: os2, o ≠ [] ∧ CleanItem (ch ',') (ch '\\') o := by
    intro o ho
    rcases List.mem_append.1 ho with h | h
    · exact hc o (List.mem_append_left _ h)
    · rcases List.mem_cons.1 h with rfl | h
      · exact cleanOption_badfilter
      · exact hc o (List.mem_append_right _ h)
  have hne' : os1 ++ lit "badfilter" :: os2 ≠ [] := by simp
  have hemp' : (joinSep (os1 ++ lit "badfilter" :: os2) [ch ',']).isEmpty = false := by
    have := splitEsc_joinSep (ch ',') (ch '\\') (by decide) _ hne' hc'
    cases hj : joinSep (os1 ++ lit "badfilter" :: os2) [ch ','] with
    | cons => rfl
    | nil =>
      rw [hj] at this
      simp [splitWithEscapeCharacter, pure, Except.pure] at this
  have tailEq : ∀ r1 : NetRule,
      (if documentOnlyOptions.any (fun o => (tw 8 t j r1).isEnabled o) then
          (pure { tw 8 t j r1 with permTypes := Facts.TypeDocument } : PE NetRule) else pure (tw 8 t j r1)) =
        mapE (tw 8 t j) (if documentOnlyOptions.any (fun o => r1.isEnabled o) then
          pure { r1 with permTypes := Facts.TypeDocument } else pure r1) := by
    intro r1
    rw [documentOnly_tw onlyBit3_eight]
    exact ite_mapE rfl rfl
  unfold loadOptions
  rw [hemp']
  simp only [Bool.false_eq_true, if_false]
  rw [splitEsc_joinSep (ch ',') (ch '\\') (by decide) _ hne' hc']
  simp only [bind, Except.bind]
  by_cases hne : os1 ++ os2 = []
  · -- `badfilter` is the only modifier
    have h1 : os1 = [] := (List.append_eq_nil_iff.1 hne).1
    have h2 : os2 = [] := (List.append_eq_nil_iff.1 hne).2
    subst h1 h2
    have hfold : ([] ++ [lit "badfilter"]).foldlM (loadOptionsStep px) (tw 0 t j r) = .ok (tw 8 t j r) := by
      show (loadOptionsStep px (tw 0 t j r) (lit "badfilter") >>= fun r' => pure r') = _
      rw [badfilterStep_tw]; rfl
    rw [hfold]
    simp only [List.append_nil, joinSep, List.isEmpty_nil, if_true]
    have := tailEq r
    rw [hr] at this
    simp only [Bool.false_eq_true, if_false] at this
    exact this
  · have hcc : ∀ o ∈ os1 ++ os2, o ≠ [] ∧ CleanItem (ch ',') (ch '\\') o := hc
    have hemp : (joinSep (os1 ++ os2) [ch ',']).isEmpty = false := by
      have := splitEsc_joinSep (ch ',') (ch '\\') (by decide) _ hne hcc
      cases hj : joinSep (os1 ++ os2) [ch ','] with
      | cons => rfl
      | nil =>
        rw [hj] at this
        simp [splitWithEscapeCharacter, pure, Except.pure] at this
        exact absurd (by rw [this.1, this.2]; rfl) hne
    rw [hemp]
    simp only [Bool.false_eq_true, if_false]
    rw [splitEsc_joinSep (ch ',') (ch '\\') (by decide) _ hne hcc, foldlM_insert_badfilter]
    dsimp only
    cases (os1 ++ os2).foldlM (loadOptionsStep px) r with
    | error e => rfl
    | ok r1 => exact tailEq r1

/-- The part of `NewNetworkRule` after `loadOptions` (pattern rewrite, validation, shortcut) commutes with
    `tw`. -/
theorem parseTail_tw (px : ParseExt) (m : Nat) (t : Bytes) (j : Int) (pattern : Bytes) (r1 : NetRule) :
    (do
      let r ←
        if hasSuffix (tw m t j r1).pattern (lit "/*") then do
          let p ← sliceC (tw m t j r1).pattern 0 ((tw m t j r1).pattern.length - 2)
          pure { tw m t j r1 with pattern := p ++ lit "^" }
        else pure (tw m t j r1)
      if (pattern == lit "||" || pattern == lit "|" || pattern == lit "*" || pattern.isEmpty ||
            pattern.length < 3) &&
          r.permDomains.isEmpty && r.restrDomains.isEmpty &&
          Clients.len r.permClients == 0 && Clients.len r.restrClients == 0 &&
          r.permTags.isEmpty && r.restrTags.isEmpty && r.permDns.isEmpty && r.restrDns.isEmpty &&
          r.denyallow.isEmpty then throw PErr.err
      else do
        let sc ← shortcutCandidate px r.pattern
        if sc.length > 1 then pure { r with shortcut := toLower sc } else pure r : PE NetRule) =
    mapE (tw m t j) (do
      let r ←
        if hasSuffix r1.pattern (lit "/*") then do
          let p ← sliceC r1.pattern 0 (r1.pattern.length - 2)
          pure { r1 with pattern := p ++ lit "^" }
        else pure r1
      if (pattern == lit "||" || pattern == lit "|" || pattern == lit "*" || pattern.isEmpty ||
            pattern.length < 3) &&
          r.permDomains.isEmpty && r.restrDomains.isEmpty &&
          Clients.len r.permClients == 0 && Clients.len r.restrClients == 0 &&
          r.permTags.isEmpty && r.restrTags.isEmpty && r.permDns.isEmpty && r.restrDns.isEmpty &&
          r.denyallow.isEmpty then throw PErr.err
      else do
        let sc ← shortcutCandidate px r.pattern
        if sc.length > 1 then pure { r with shortcut := toLower sc } else pure r) := by
  have tail : ∀ r2 : NetRule, _ = mapE (tw m t j) _ := fun r2 =>
    ite_mapE (c := ((pattern == lit "||" || pattern == lit "|" || pattern == lit "*" || pattern.isEmpty ||
        pattern.length < 3) &&
      r2.permDomains.isEmpty && r2.restrDomains.isEmpty &&
      Clients.len r2.permClients == 0 && Clients.len r2.restrClients == 0 &&
      r2.permTags.isEmpty && r2.restrTags.isEmpty && r2.permDns.isEmpty && r2.restrDns.isEmpty &&
      r2.denyallow.isEmpty) = true) (a' := throw PErr.err) (a := throw PErr.err) (f := tw m t j) rfl
      (bind_mapE (x := shortcutCandidate px r2.pattern) (fun sc =>
        ite_mapE (c := sc.length > 1) (a' := pure { tw m t j r2 with shortcut := toLower sc })
          (a := pure { r2 with shortcut := toLower sc }) (b' := pure (tw m t j r2)) (b := pure r2) rfl rfl))
  refine ite_mapE ?_ ?_
  · exact bind_mapE (fun p => bind_mapE2 (f := tw m t j) (x := pure { r1 with pattern := p ++ lit "^" }) rfl
      (fun r2 => tail r2))
  · exact bind_mapE2 (f := tw m t j) (x := pure r1) rfl (fun r2 => tail r2)

/-- `NewNetworkRule` on two texts with the same exception marker and pattern whose modifier lists differ by one
    `badfilter` at any position: the second result is the first one with the `$badfilter` bit (and its own text
    and list id) — in particular both are accepted or both are rejected. -/
theorem parseNetRule_insert_badfilter (px : ParseExt) (t1 t2 : Bytes) (i j : Int) (pat : Bytes) (wl : Bool)
    (os1 os2 : List Bytes) (hc : ∀ o ∈ os1 ++ os2, CleanOption o)
    (h1 : parseRuleText t1 = .ok (pat, joinSep (os1 ++ os2) [ch ','], wl))
    (h2 : parseRuleText t2 = .ok (pat, joinSep (os1 ++ lit "badfilter" :: os2) [ch ','], wl)) :
    parseNetRule px t2 j = mapE (tw 8 t2 j) (parseNetRule px t1 i) := by
  unfold parseNetRule
  rw [h1, h2]
  simp only [bind, Except.bind]
  have hl := loadOptions_insert_badfilter px t2 j os1 os2
    { text := t1, whitelist := wl, listID := i, pattern := pat } hc (documentOnly_fresh _ rfl)
  have h0 : tw 0 t2 j { text := t1, whitelist := wl, listID := i, pattern := pat } =
      { text := t2, whitelist := wl, listID := j, pattern := pat } := by simp only [tw, Nat.or_zero]
  rw [h0] at hl
  rw [hl]
  cases loadOptions px { text := t1, whitelist := wl, listID := i, pattern := pat } (joinSep (os1 ++ os2) [ch ',']) with
  | error e => rfl
  | ok r1 => exact parseTail_tw px 8 t2 j pat r1

theorem joinSep_isEmpty_false' (l : List Bytes) (hne : l ≠ []) (h : ∀ d ∈ l, d ≠ []) :
    (joinSep l [ch ',']).isEmpty = false := by
  cases l with
  | nil => exact absurd rfl hne
  | cons p ps =>
    have hp : p ≠ [] := h p (by simp)
    cases p with
    | nil => exact absurd rfl hp
    | cons c cs => cases ps <;> rfl

/-! ### `parseRuleText` on `[@@] body $ modifiers` -/

theorem idxC_body (body rest : Bytes) (k : Nat) (hk : k < body.length) :
    idxC (body ++ rest) k = .ok body[k] := by
  unfold idxC
  rw [List.getElem?_append_left hk, List.getElem?_eq_getElem hk]
  rfl

theorem idxC_dollar (body opts : Bytes) : idxC (body ++ ch '$' :: opts) body.length = .ok (ch '$') := by
  unfold idxC
  simp
  rfl

theorem idxC_opts (body opts : Bytes) (k : Nat) (hk : k < opts.length) :
    idxC (body ++ ch '$' :: opts) (body.length + (k + 1)) = .ok opts[k] := by
  unfold idxC
  rw [List.getElem?_append_right (by omega)]
  have : body.length + (k + 1) - body.length = k + 1 := by omega
  rw [this, List.getElem?_cons_succ, List.getElem?_eq_getElem hk]
  rfl

theorem parseSplitLoop_skip (body opts : Bytes) (hd : ch '$' ∉ opts) :
    ∀ k, k ≤ opts.length →
      parseSplitLoop (body ++ ch '$' :: opts) (body.length + k + 1) false =
        parseSplitLoop (body ++ ch '$' :: opts) (body.length + 1) false := by
  intro k
  induction k with
  | zero => intro _; rfl
  | succ k ih =>
    intro hk
    have hk' : k < opts.length := by omega
    have hne : (opts[k] != ch '$') = true := by
      apply bne_iff_ne.2
      intro h
      exact hd (h ▸ List.getElem_mem hk')
    show parseSplitLoop _ ((body.length + (k + 1)) + 1) false = _
    rw [parseSplitLoop]
    simp only [idxC_opts body opts k hk', bind, Except.bind, hne, if_true]
    exact ih (by omega)

theorem parseSplitLoop_dollar (body opts : Bytes) (hb : body.getLast? ≠ some (ch '\\')) :
    parseSplitLoop (body ++ ch '$' :: opts) (body.length + 1) false = .ok (body, opts) := by
  rw [parseSplitLoop]
  have hne : (ch '$' != ch '$') = false := by decide
  simp only [idxC_dollar, bind, Except.bind, hne, Bool.false_eq_true, if_false, Bool.not_false, Bool.true_and]
  have hs1 : sliceC (body ++ ch '$' :: opts) 0 body.length = .ok body := by
    rw [sliceC_ok (by simp)]; simp
  have hs2 : sliceC (body ++ ch '$' :: opts) (body.length + 1) (body ++ ch '$' :: opts).length = .ok opts := by
    rw [sliceC_ok ⟨by simp, Nat.le_refl _⟩, List.take_length]
    have e : (body ++ ch '$' :: opts) = (body ++ [ch '$']) ++ opts := by simp
    rw [e, List.drop_left' (by simp)]
  by_cases h0 : body.length > 0
  · have hlast : idxC (body ++ ch '$' :: opts) (body.length - 1) = .ok (body[body.length - 1]'(by omega)) :=
      idxC_body body _ _ (by omega)
    have hnb : (body[body.length - 1]'(by omega) == ch '\\') = false := by
      apply Bool.eq_false_iff.2
      intro h
      rw [beq_iff_eq] at h
      apply hb
      rw [List.getLast?_eq_getElem?, List.getElem?_eq_getElem (by omega), h]
    simp only [h0, decide_true, if_true, hlast, pure, Except.pure, hnb, Bool.false_eq_true, if_false, hs1, hs2]
  · simp only [h0, decide_false, Bool.false_eq_true, if_false, pure, Except.pure, hs1, hs2]

theorem parseSplitLoop_text (body opts : Bytes) (hopts : opts ≠ []) (hd : ch '$' ∉ opts)
    (hb : body.getLast? ≠ some (ch '\\')) :
    parseSplitLoop (body ++ ch '$' :: opts) ((body ++ ch '$' :: opts).length - 1) false = .ok (body, opts) := by
  have hl : (body ++ ch '$' :: opts).length - 1 = body.length + (opts.length - 1) + 1 := by
    have : opts.length > 0 := by
      cases opts with
      | nil => exact absurd rfl hopts
      | cons => simp
    simp only [List.length_append, List.length_cons]
    omega
  rw [hl, parseSplitLoop_skip body opts hd _ (by omega), parseSplitLoop_dollar body opts hb]

/-- `parseRuleText` on `[@@] body $ opts`: the options are what follows the LAST `$` when they contain none,
    the pattern does not end with a backslash and the text is not of the `/regex/` shape. -/
theorem parseRuleText_split (wl : Bool) (body opts : Bytes)
    (hwl : wl = false → hasPrefix (body ++ ch '$' :: opts) (lit "@@") = false)
    (hopts : opts ≠ []) (hd : ch '$' ∉ opts) (hb : body.getLast? ≠ some (ch '\\'))
    (hreg : (hasPrefix (body ++ ch '$' :: opts) (lit "/") && hasSuffix (body ++ ch '$' :: opts) (lit "/") &&
      !hasSub (body ++ ch '$' :: opts) (lit "replace=")) = false) :
    parseRuleText ((if wl then lit "@@" else []) ++ (body ++ ch '$' :: opts)) = .ok (body, opts, wl) := by
  have hemp : ∀ pre : Bytes, (pre ++ (body ++ ch '$' :: opts)).isEmpty = false := by
    intro pre; cases pre <;> cases body <;> rfl
  have hat : lit "@@" = [64, 64] := by decide
  have hemp0 : (body ++ ch '$' :: opts).isEmpty = false := by cases body <;> rfl
  cases wl with
  | false =>
    have hp := hwl rfl
    have hne : ((body ++ ch '$' :: opts) == lit "@@") = false := by
      apply Bool.eq_false_iff.2
      intro h
      rw [beq_iff_eq] at h
      rw [h] at hp
      revert hp
      decide
    simp only [Bool.false_eq_true, if_false, List.nil_append]
    unfold parseRuleText
    simp only [hemp0, hne, Bool.or_self, Bool.false_eq_true, if_false, hp, bind, Except.bind, pure, Except.pure,
      hreg, parseSplitLoop_text body opts hopts hd hb]
  | true =>
    simp only [if_true]
    have hne : ((lit "@@" ++ (body ++ ch '$' :: opts)) == lit "@@") = false := by
      apply Bool.eq_false_iff.2
      intro h
      rw [beq_iff_eq] at h
      have := congrArg List.length h
      rw [hat] at this
      simp at this
    have hp : hasPrefix (lit "@@" ++ (body ++ ch '$' :: opts)) (lit "@@") = true := by
      rw [hat]; simp [hasPrefix]
    have hsl : sliceC (lit "@@" ++ (body ++ ch '$' :: opts)) 2 (lit "@@" ++ (body ++ ch '$' :: opts)).length =
        .ok (body ++ ch '$' :: opts) := by
      rw [sliceC_ok ⟨by rw [hat]; simp, Nat.le_refl _⟩, List.take_length, hat]
      rfl
    unfold parseRuleText
    simp only [hemp (lit "@@"), hne, Bool.or_self, Bool.false_eq_true, if_false, hp, if_true, bind, Except.bind,
      pure, Except.pure, hsl, hreg, parseSplitLoop_text body opts hopts hd hb]

theorem hasPrefix_at_body (body opts : Bytes) :
    hasPrefix (body ++ ch '$' :: opts) (lit "@@") = hasPrefix body (lit "@@") := by
  have hat : lit "@@" = [64, 64] := by decide
  have h36 : (ch '$' == (64 : UInt8)) = false := by decide
  rw [hat]
  rcases body with _ | ⟨a, _ | ⟨b, rest⟩⟩
  · simp [hasPrefix, h36]
  · simp [hasPrefix, h36]
  · simp [hasPrefix]

theorem dollar_not_mem_joinSep (l : List Bytes) (h : ∀ o ∈ l, ch '$' ∉ o) : ch '$' ∉ joinSep l [ch ','] := by
  induction l with
  | nil => simp [joinSep]
  | cons p ps ih =>
    cases ps with
    | nil => exact h p (by simp)
    | cons q qs =>
      show ch '$' ∉ p ++ [ch ','] ++ joinSep (q :: qs) [ch ',']
      intro hm
      rcases List.mem_append.1 hm with hm | hm
      · rcases List.mem_append.1 hm with hm | hm
        · exact h p (by simp) hm
        · simp at hm
          revert hm
          decide
      · exact ih (fun o ho => h o (by simp [ho])) hm

theorem c08_joinSep_ne_nil (l : List Bytes) (hne : l ≠ []) (h : ∀ o ∈ l, o ≠ []) : joinSep l [ch ','] ≠ [] := by
  intro e
  have := joinSep_isEmpty_false' l hne h
  rw [e] at this
  cases this

/-- TEXT LEVEL: `[@@] body $ m1,…,mk` and the same text with `badfilter` inserted at any position of the
    (non-empty) modifier list. -/
theorem parseNetRule_texts_insert_badfilter (px : ParseExt) (wl : Bool) (body : Bytes) (os1 os2 : List Bytes)
    (i j : Int) (hne : os1 ++ os2 ≠ [])
    (hc : ∀ o ∈ os1 ++ os2, CleanOption o ∧ ch '$' ∉ o)
    (hwl : wl = false → hasPrefix body (lit "@@") = false)
    (hb : body.getLast? ≠ some (ch '\\'))
    (hreg : ∀ opts, (hasPrefix (body ++ ch '$' :: opts) (lit "/") && hasSuffix (body ++ ch '$' :: opts) (lit "/") &&
      !hasSub (body ++ ch '$' :: opts) (lit "replace=")) = false) :
    parseNetRule px ((if wl then lit "@@" else []) ++ (body ++ ch '$' :: joinSep (os1 ++ lit "badfilter" :: os2) [ch ','])) j =
      mapE (tw 8 ((if wl then lit "@@" else []) ++ (body ++ ch '$' :: joinSep (os1 ++ lit "badfilter" :: os2) [ch ','])) j)
        (parseNetRule px ((if wl then lit "@@" else []) ++ (body ++ ch '$' :: joinSep (os1 ++ os2) [ch ','])) i) := by
  have hc2 : ∀ o ∈ os1 ++ lit "badfilter" :: os2, CleanOption o ∧ ch '$' ∉ o := by
    intro o ho
    rcases List.mem_append.1 ho with h | h
    · exact hc o (List.mem_append_left _ h)
    · rcases List.mem_cons.1 h with rfl | h
      · exact ⟨cleanOption_badfilter, by decide⟩
      · exact hc o (List.mem_append_right _ h)
  apply parseNetRule_insert_badfilter px _ _ i j body wl os1 os2 (fun o ho => (hc o ho).1)
  · exact parseRuleText_split wl body _ (fun h => by rw [hasPrefix_at_body]; exact hwl h)
      (c08_joinSep_ne_nil _ hne (fun o ho => (hc o ho).1.1)) (dollar_not_mem_joinSep _ (fun o ho => (hc o ho).2)) hb
      (hreg _)
  · exact parseRuleText_split wl body _ (fun h => by rw [hasPrefix_at_body]; exact hwl h)
      (c08_joinSep_ne_nil _ (by simp) (fun o ho => (hc2 o ho).1.1)) (dollar_not_mem_joinSep _ (fun o ho => (hc2 o ho).2)) hb
      (hreg _)

theorem tw8_matchFields (t : Bytes) (j : Int) (x : NetRule) :
    (tw 8 t j x).matchFields = x.withBadfilter.matchFields := rfl

end UF.L

import UF.Compose5.Grammar
/-
  Group P2 (REVIEW2 F11): a WIDER modifier grammar for the parser-independent reference of C04.  Everything of
  UF/Compose5/Grammar.lean stays as it is (`ModW.base` embeds it); added are

    * QUOTED CLIENT NAMES (`$client='Kids-PC'`, `$client="Frank's phone"|~'Mary\'s laptop'`): a `$client` value is
      `CVal.plain v` (an address, a subnet or a name written bare, as before) or `CVal.quoted dq name` — the NAME
      as the client reports it, written between single (`dq = false`) or double quotes, every occurrence of that
      quote character inside the name written `\'` / `\"`.  The MEANING of a quoted value is the name
      (`CVal.value`), whatever characters it contains (spaces, `~`, the other quote character, …);
    * `~extension` (`ModW.notExtension`): by the code's own comment "depends on options order": it TOGGLES the
      extension bit, so its meaning is defined by reading the modifiers left to right (`extensionOn`), and it is
      the one modifier for which the ORDER OF THE MODIFIERS matters (`c04_wide_notExtension_order`,
      Props/C04Wide.lean);
    * PATTERNS BEGINNING WITH `/` that are not `/regex/` rules (`/banner.gif$image`): `patOKW` drops the
      "first byte is not `/`" of `patOK`; what is needed instead is that the text after `@@` is not of the form
      `/…/` (`slashOK`, a joint condition on pattern and modifiers).

  Nothing here mentions the parser.  `ModSpec.ofModsW` is the meaning of a wide modifier list, the reference is
  the same `specMatchText` (UF/Compose5/TextRef.lean) applied to it.
-/
namespace UF.L
open UF Bytes

/-- One `$client` value as written. -/
inductive CVal where
  /-- written bare: an IP address, a CIDR subnet, or a name without special characters -/
  | plain (v : Bytes)
  /-- `'name'` (`dq = false`) or `"name"` (`dq = true`); `name` is the client name itself, unescaped -/
  | quoted (dq : Bool) (name : Bytes)
  deriving DecidableEq, Repr, Inhabited

/-- What the value denotes: the text of a bare value, the name of a quoted one. -/
def CVal.value : CVal → Bytes
  | .plain v => v
  | .quoted _ n => n

def quoteCh (dq : Bool) : UInt8 := if dq then ch '"' else ch '\''

/-- The quote character inside a quoted name is written with a backslash in front. -/
def escQuote (q : UInt8) : Bytes → Bytes
  | [] => []
  | c :: t => if c == q then ch '\\' :: c :: escQuote q t else c :: escQuote q t

def renderCVal : CVal → Bytes
  | .plain v => v
  | .quoted dq n => quoteCh dq :: (escQuote (quoteCh dq) n ++ [quoteCh dq])

/-- `value` or `~value` (the `~` stays outside the quotes). -/
def renderCV (v : Bool × CVal) : Bytes := if v.1 then ch '~' :: renderCVal v.2 else renderCVal v.2

/-- One modifier of the wider grammar. -/
inductive ModW where
  | base (m : Mod)
  /-- `$client=…` whose values may be quoted names -/
  | clientQ (vals : List (Bool × CVal))
  /-- `~extension` -/
  | notExtension
  deriving DecidableEq, Repr, Inhabited

def renderModW : ModW → Bytes
  | .base m => renderMod m
  | .clientQ vs => lit "client" ++ ch '=' :: joinVals (vs.map renderCV)
  | .notExtension => lit "~extension"

def optsTextW (ms : List ModW) : Bytes := joinSep (ms.map renderModW) [ch ',']

/-- The text after the exception marker. -/
def bodyW (pattern : Bytes) (ms : List ModW) : Bytes :=
  pattern ++ (if optsTextW ms = [] then [] else ch '$' :: optsTextW ms)

def renderW (exception : Bool) (pattern : Bytes) (ms : List ModW) : Bytes :=
  (if exception then lit "@@" else []) ++ pattern ++ (if optsTextW ms = [] then [] else ch '$' :: optsTextW ms)

/-! ### meaning -/

/-- The modifier of the narrow grammar with the same meaning (`~extension` has none). -/
def ModW.toMod? : ModW → Option Mod
  | .base m => some m
  | .clientQ vs => some (.client (vs.map (fun v => (v.1, v.2.value))))
  | .notExtension => none

def narrow (ms : List ModW) : List Mod := ms.filterMap ModW.toMod?

/-- The extension bit while reading the modifiers from left to right: `extension` and `document` switch it
    on, `~extension` TOGGLES it. -/
def extStep (b : Bool) : ModW → Bool
  | .base (.opt .extension) => true
  | .base .document => true
  | .notExtension => !b
  | _ => b

def extensionOn (ms : List ModW) : Bool := ms.foldl extStep false

/-- Document-only by something other than the extension bit. -/
def ModW.isDocOnlyOther : ModW → Bool
  | .base (.opt o) => o.docOnly && o != .extension
  | .base .document => true
  | _ => false

/-- The meaning of a wide modifier list: that of its narrow counterpart, with "document-only" decided by the
    other document-only options or by the extension bit as the left-to-right reading leaves it. -/
def ModSpec.ofModsW (ms : List ModW) : ModSpec :=
  { ModSpec.ofMods (narrow ms) with docOnly := ms.any ModW.isDocOnlyOther || extensionOn ms }

/-! ### domain -/

/-- A byte that may occur in a quoted name: anything but `,` `\` `$` `|` (commas and pipes would have to be
    escaped as well, a backslash cannot be written at all). -/
def nameByte (c : UInt8) : Bool := c != ch ',' && c != ch '\\' && c != ch '$' && c != ch '|'

def CVal.ok : CVal → Bool
  | .plain v => cleanVal v
  | .quoted _ n => !n.isEmpty && n.all nameByte

def ModW.valsOK : ModW → Bool
  | .base m => m.valsOK
  | .clientQ vs => !vs.isEmpty && vs.all (fun v => v.2.ok)
  | .notExtension => true

/-- Each value-carrying modifier at most once. -/
def onceOK (ms : List Mod) : Bool :=
  atMostOne Mod.isDomain ms && atMostOne Mod.isDenyallow ms && atMostOne Mod.isDnstype ms &&
  atMostOne Mod.isCtag ms && atMostOne Mod.isClient ms

def modsOKW (ms : List ModW) : Bool := ms.all ModW.valsOK && onceOK (narrow ms)

/-- Patterns of the wider reference: non-empty, not starting with `@`, without `$` and without a backslash. -/
def patOKW (pat : Bytes) : Bool :=
  match pat with
  | [] => false
  | c :: _ => c != ch '@' && !pat.contains (ch '$') && !pat.contains (ch '\\')

/-- The text after `@@` is not of the form `/…/` (which `NewNetworkRule` reads as a regex rule WITHOUT options). -/
def slashOK (pat : Bytes) (ms : List ModW) : Bool :=
  !(hasPrefix (bodyW pat ms) (lit "/") && hasSuffix (bodyW pat ms) (lit "/"))

/-! ### the wide grammar extends the narrow one -/

theorem renderW_base (wl : Bool) (pat : Bytes) (ms : List Mod) :
    renderW wl pat (ms.map .base) = render wl pat ms := by
  have : optsTextW (ms.map .base) = optsText ms := by
    unfold optsTextW optsText
    rw [List.map_map]
    rfl
  unfold renderW render
  rw [this]

theorem narrow_base (ms : List Mod) : narrow (ms.map .base) = ms := by
  induction ms with
  | nil => rfl
  | cons m ms ih => simp only [narrow, List.map_cons, List.filterMap_cons, ModW.toMod?] at ih ⊢; rw [ih]

theorem extensionOn_base (ms : List Mod) (b : Bool) :
    (ms.map ModW.base).foldl extStep b =
      (b || ms.any (fun m => m == .opt .extension || m == .document)) := by
  induction ms generalizing b with
  | nil => simp
  | cons m ms ih =>
    simp only [List.map_cons, List.foldl_cons, List.any_cons]
    rw [ih]
    cases m with
    | opt o => cases o <;> cases b <;> simp [extStep]
    | document => cases b <;> simp [extStep]
    | ctype neg c => cases b <;> simp [extStep]
    | _ => cases b <;> simp [extStep]

theorem any_or_any {α} (l : List α) (p q : α → Bool) : (l.any p || l.any q) = l.any (fun x => p x || q x) := by
  induction l with
  | nil => rfl
  | cons a l ih =>
    simp only [List.any_cons, ← ih]
    cases p a <;> cases q a <;> cases l.any p <;> cases l.any q <;> rfl

theorem ofModsW_base (ms : List Mod) : ModSpec.ofModsW (ms.map .base) = ModSpec.ofMods ms := by
  unfold ModSpec.ofModsW
  rw [narrow_base]
  have : ((ms.map ModW.base).any ModW.isDocOnlyOther || extensionOn (ms.map .base)) = ms.any Mod.isDocOnly := by
    unfold extensionOn
    rw [extensionOn_base, Bool.false_or, List.any_map, any_or_any]
    congr 1
    funext m
    cases m with
    | opt o => cases o <;> rfl
    | ctype neg c => rfl
    | _ => rfl
  rw [this]
  rfl

end UF.L

import UF.Compose5.Grammar
import UF.Compose5.Split
import UF.Compose3.CosText
/-
  Integration (group L), part 3: what the parser model does with ONE rendered modifier.

  For every constructor of the grammar (`Mod`) the step of the option loop of `NewNetworkRule` on the
  modifier's spelling (`loadOptionsStep px r (renderMod m)`), IF it succeeds, is the record update `applyMod`:
  one option bit, one content-type bit, or the value lists exactly as written (`~` = restricted; tags and
  client names sorted).  `applyMod` is a proof device (a closed form of the parser's effect on well-formed
  modifiers); the reference of C04 (`specModsText`) does not mention it.
-/
namespace UF.L
open UF UF.E Bytes UF.Compose3

/-- The five option bits of `$document`. -/
def docBits : Nat :=
  Facts.OptionElemhide ||| Facts.OptionJsinject ||| Facts.OptionUrlblock ||| Facts.OptionContent |||
    Facts.OptionExtension

/-- The client set a list of `$client` values (as written, in order) denotes. -/
def clientsOf (ext : Ext) (vs : List Bytes) : Option Clients :=
  Clients.finalize (vs.foldl (addClient ext) none)

/-- The closed form of one step of the option loop on a well-formed modifier. -/
def applyMod (ext : Ext) (r : NetRule) (m : Mod) : NetRule :=
  match m with
  | .opt o => { r with enabled := r.enabled ||| o.bit }
  | .thirdParty _ => { r with enabled := r.enabled ||| Facts.OptionThirdParty }
  | .firstParty _ => { r with disabled := r.disabled ||| Facts.OptionThirdParty }
  | .notMatchCase => { r with disabled := r.disabled ||| Facts.OptionMatchCase }
  | .document => { r with enabled := r.enabled ||| docBits }
  | .ctype false c => { r with permTypes := r.permTypes ||| c.bit }
  | .ctype true c => { r with restrTypes := r.restrTypes ||| c.bit }
  | .domain vs => { r with permDomains := posVals vs, restrDomains := negVals vs }
  | .denyallow vs => { r with denyallow := vs }
  | .dnstype vs => { r with permDns := (posVals vs).filterMap dnsTypeNumber,
                            restrDns := (negVals vs).filterMap dnsTypeNumber }
  | .ctag vs => { r with permTags := sortB (posVals vs), restrTags := sortB (negVals vs) }
  | .client vs => { r with permClients := clientsOf ext (posVals vs), restrClients := clientsOf ext (negVals vs) }

/-! ### bare names -/

theorem setOptionEnabled_on {r r' : NetRule} {opt : Nat} (h : setOptionEnabled r opt true = .ok r') :
    r' = { r with enabled := r.enabled ||| opt } := by
  unfold setOptionEnabled at h
  split at h
  · cases h
  · split at h
    · cases h
    · simp only [if_true] at h; cases h; rfl

theorem setOptionEnabled_off {r r' : NetRule} {opt : Nat} (h : setOptionEnabled r opt false = .ok r') :
    r' = { r with disabled := r.disabled ||| opt } := by
  unfold setOptionEnabled at h
  split at h
  · cases h
  · split at h
    · cases h
    · simp only [Bool.false_eq_true, if_false] at h; cases h; rfl

theorem loadOption_opt (px : ParseExt) (r : NetRule) (o : Opt) (value : Bytes) :
    loadOption px r o.name value = setOptionEnabled r o.bit true := by
  cases o <;> (unfold loadOption; rfl)

theorem loadOption_thirdParty (px : ParseExt) (r : NetRule) (alt : Bool) (value : Bytes) :
    loadOption px r (renderMod (.thirdParty alt)) value = setOptionEnabled r Facts.OptionThirdParty true := by
  cases alt <;> (unfold loadOption; rfl)

theorem loadOption_firstParty (px : ParseExt) (r : NetRule) (alt : Bool) (value : Bytes) :
    loadOption px r (renderMod (.firstParty alt)) value = setOptionEnabled r Facts.OptionThirdParty false := by
  cases alt <;> (unfold loadOption; rfl)

theorem loadOption_notMatchCase (px : ParseExt) (r : NetRule) (value : Bytes) :
    loadOption px r (lit "~match-case") value = setOptionEnabled r Facts.OptionMatchCase false := by
  unfold loadOption; rfl

theorem loadOption_ctype (px : ParseExt) (r : NetRule) (c : CType) (value : Bytes) :
    loadOption px r c.name value = pure (setRequestType r c.bit true) := by
  cases c <;> (unfold loadOption; rfl)

theorem loadOption_nctype (px : ParseExt) (r : NetRule) (c : CType) (value : Bytes) :
    loadOption px r (ch '~' :: c.name) value = pure (setRequestType r c.bit false) := by
  cases c <;> (unfold loadOption; rfl)

theorem loadOption_domain (px : ParseExt) (r : NetRule) (value : Bytes) :
    loadOption px r (lit "domain") value = (do
      let (p, rs) ← loadDomains value (ch '|')
      pure { r with permDomains := p, restrDomains := rs }) := by
  unfold loadOption; rfl

theorem loadOption_denyallow (px : ParseExt) (r : NetRule) (value : Bytes) :
    loadOption px r (lit "denyallow") value = (do
      let (p, rs) ← loadDomains value (ch '|')
      if rs.length > 0 || p.length == 0 then throw .err
      else pure { r with denyallow := p }) := by
  unfold loadOption; rfl

theorem loadOption_dnstype (px : ParseExt) (r : NetRule) (value : Bytes) :
    loadOption px r (lit "dnstype") value = (do
      let (p, rs) ← loadDNSTypes value
      pure { r with permDns := p, restrDns := rs }) := by
  unfold loadOption; rfl

theorem loadOption_ctag (px : ParseExt) (r : NetRule) (value : Bytes) :
    loadOption px r (lit "ctag") value = (do
      let (p, rs) ← loadCTags value
      pure { r with permTags := p, restrTags := rs }) := by
  unfold loadOption; rfl

theorem loadOption_client (px : ParseExt) (r : NetRule) (value : Bytes) :
    loadOption px r (lit "client") value = (do
      let (p, rs) ← loadClients px.ext value
      pure { r with permClients := p, restrClients := rs }) := by
  unfold loadOption; rfl

theorem opt_name_noeq (o : Opt) : ch '=' ∉ o.name := by cases o <;> decide
theorem ctype_name_noeq (c : CType) : ch '=' ∉ c.name := by cases c <;> decide

/-! ### clean values -/

theorem cleanVal_mem {v : Bytes} (h : cleanVal v = true) : ∀ c ∈ v, cleanByte c = true := by
  unfold cleanVal at h
  simp only [Bool.and_eq_true, List.all_eq_true] at h
  exact h.2

theorem cleanVal_cons {v : Bytes} (h : cleanVal v = true) : ∃ c t, v = c :: t ∧ cleanByte c = true := by
  cases v with
  | nil => simp [cleanVal] at h
  | cons c t => exact ⟨c, t, rfl, cleanVal_mem h c List.mem_cons_self⟩

theorem cleanVal_ne_nil {v : Bytes} (h : cleanVal v = true) : v ≠ [] := by
  obtain ⟨c, t, rfl, _⟩ := cleanVal_cons h
  simp

theorem cleanByte_ne {c : UInt8} (h : cleanByte c = true) :
    c ≠ ch ',' ∧ c ≠ ch '\\' ∧ c ≠ ch '$' ∧ c ≠ ch '|' ∧ c ≠ ch '~' ∧ c ≠ ch '\'' ∧ c ≠ ch '"' := by
  unfold cleanByte at h
  simp only [Bool.and_eq_true, bne_iff_ne, ne_eq] at h
  obtain ⟨⟨⟨⟨⟨⟨h1, h2⟩, h3⟩, h4⟩, h5⟩, h6⟩, h7⟩ := h
  exact ⟨h1, h2, h3, h4, h5, h6, h7⟩

theorem clean_notMem {v : Bytes} (h : cleanVal v = true) {c : UInt8} (hc : cleanByte c = false) : c ∉ v := by
  intro hm
  rw [cleanVal_mem h c hm] at hc
  cases hc

theorem hasPrefix_tilde_cons (d : Bytes) : hasPrefix (ch '~' :: d) (lit "~") = true := by
  show (ch '~' == ch '~' && hasPrefix d []) = true
  cases d <;> rfl

theorem hasPrefix_tilde_clean {d : Bytes} (h : cleanVal d = true) : hasPrefix d (lit "~") = false := by
  obtain ⟨c, t, rfl, hc⟩ := cleanVal_cons h
  have := (cleanByte_ne hc).2.2.2.2.1
  show (c == ch '~' && hasPrefix t []) = false
  have : (c == ch '~') = false := by
    cases h' : c == ch '~' with
    | false => rfl
    | true => exact absurd (eq_of_beq h') this
  rw [this]; rfl

theorem sliceC_tail (c : UInt8) (d : Bytes) : sliceC (c :: d) 1 (c :: d).length = .ok d := by
  rw [sliceC_ok (by simp)]
  simp

/-! ### value loops with two accumulators -/

/-- A value loop whose step, when it succeeds on the rendered value, appends `f value` to the restricted or
    permitted accumulator. -/
theorem foldlM_vals {β} (step : List β × List β → Bytes → PE (List β × List β)) (f : Bytes → Option β)
    (ok : Bool × Bytes → Prop)
    (hstep : ∀ acc v acc', ok v → step acc (renderVal v) = .ok acc' →
      ∃ b, f v.2 = some b ∧ acc' = upd2 acc (v.1, b)) :
    ∀ (vs : List (Bool × Bytes)) (acc acc' : List β × List β), (∀ v ∈ vs, ok v) →
      (vs.map renderVal).foldlM step acc = .ok acc' →
      acc' = (acc.1 ++ (posVals vs).filterMap f, acc.2 ++ (negVals vs).filterMap f) := by
  intro vs
  induction vs with
  | nil =>
    intro acc acc' _ h
    simp only [List.map_nil, List.foldlM, pure, Except.pure] at h
    cases h
    simp [posVals, negVals]
  | cons v vs ih =>
    intro acc acc' hok h
    simp only [List.map_cons, List.foldlM] at h
    obtain ⟨a1, h1, h2⟩ := bind_ok_elim h
    obtain ⟨b, hb, ha1⟩ := hstep acc v a1 (hok v List.mem_cons_self) h1
    have := ih a1 acc' (fun x hx => hok x (List.mem_cons_of_mem _ hx)) h2
    rw [this, ha1]
    obtain ⟨neg, d⟩ := v
    cases neg <;> simp [upd2, posVals, negVals, hb]

/-- Joined rendered values split back (for `strings.Split` on `|`). -/
theorem render_sepFree (vs : List (Bool × Bytes)) (h : ∀ v ∈ vs, cleanVal v.2 = true) :
    sepFree (ch '|') (vs.map renderVal) := by
  intro x hx
  obtain ⟨v, hv, rfl⟩ := List.mem_map.1 hx
  have hc := h v hv
  have hn : ch '|' ∉ v.2 := clean_notMem hc (by decide)
  obtain ⟨neg, d⟩ := v
  cases neg
  · exact hn
  · intro hm
    simp only [renderVal, if_true, List.mem_cons] at hm
    rcases hm with hm | hm
    · exact absurd hm (by decide)
    · exact hn hm

theorem map_ne_nil {α β} (f : α → β) {l : List α} (h : l ≠ []) : l.map f ≠ [] := by
  cases l with
  | nil => exact absurd rfl h
  | cons => simp

theorem joinVals_ne_nil {l : List Bytes} (h : l ≠ []) (hne : ∀ x ∈ l, x ≠ []) : joinVals l ≠ [] := by
  cases l with
  | nil => exact absurd rfl h
  | cons m ms => exact joinSep_ne_nil _ m ms (hne m List.mem_cons_self)

theorem renderVal_ne_nil (v : Bool × Bytes) (h : cleanVal v.2 = true) : renderVal v ≠ [] := by
  obtain ⟨neg, d⟩ := v
  cases neg
  · exact cleanVal_ne_nil h
  · simp [renderVal]

theorem isEmpty_false {l : Bytes} (h : l ≠ []) : l.isEmpty = false := by
  cases l with
  | nil => exact absurd rfl h
  | cons => rfl

/-! ### `$domain`, `$denyallow` -/

theorem loadDomainsStep_neg (acc : List Bytes × List Bytes) (d : Bytes) :
    loadDomainsStep acc (ch '~' :: d) = (do
      let isName ← isDomainNameC d
      if !isName && !hasSuffix d (lit ".*") then throw .err
      else pure (acc.1, acc.2 ++ [d])) := by
  unfold loadDomainsStep
  simp only [hasPrefix_tilde_cons, if_true, sliceC_tail, bind, Except.bind, pure, Except.pure]

theorem loadDomainsStep_pos (acc : List Bytes × List Bytes) (d : Bytes) (h : hasPrefix d (lit "~") = false) :
    loadDomainsStep acc d = (do
      let isName ← isDomainNameC d
      if !isName && !hasSuffix d (lit ".*") then throw .err
      else pure (acc.1 ++ [d], acc.2)) := by
  unfold loadDomainsStep
  simp only [h, Bool.false_eq_true, if_false, bind, Except.bind, pure, Except.pure]

theorem loadDomainsStep_render (acc acc' : List Bytes × List Bytes) (v : Bool × Bytes)
    (hv : cleanVal v.2 = true) (h : loadDomainsStep acc (renderVal v) = .ok acc') :
    ∃ b, (some v.2 : Option Bytes) = some b ∧ acc' = upd2 acc (v.1, b) := by
  refine ⟨v.2, rfl, ?_⟩
  obtain ⟨neg, d⟩ := v
  cases neg with
  | false =>
    rw [show renderVal (false, d) = d from rfl, loadDomainsStep_pos acc d (hasPrefix_tilde_clean hv)] at h
    obtain ⟨isName, _, h⟩ := bind_ok_elim h
    refine ite_ok_elim h ?_ ?_ <;> clear h <;> intro h
    · cases h
    · cases pure_ok_elim h; rfl
  | true =>
    rw [show renderVal (true, d) = ch '~' :: d from rfl, loadDomainsStep_neg] at h
    obtain ⟨isName, _, h⟩ := bind_ok_elim h
    refine ite_ok_elim h ?_ ?_ <;> clear h <;> intro h
    · cases h
    · cases pure_ok_elim h; rfl

theorem filterMap_some {α} (l : List α) : l.filterMap (some : α → Option α) = l := by
  induction l with
  | nil => rfl
  | cons a t ih => simp [ih]

theorem loadDomains_render (vs : List (Bool × Bytes)) (hne : vs ≠ []) (hc : ∀ v ∈ vs, cleanVal v.2 = true)
    {p rs : List Bytes} (h : loadDomains (joinVals (vs.map renderVal)) (ch '|') = .ok (p, rs)) :
    p = posVals vs ∧ rs = negVals vs := by
  unfold loadDomains at h
  have hj : (joinVals (vs.map renderVal)).isEmpty = false :=
    isEmpty_false (joinVals_ne_nil (map_ne_nil _ hne) (fun x hx => by
      obtain ⟨v, hv, rfl⟩ := List.mem_map.1 hx
      exact renderVal_ne_nil v (hc v hv)))
  rw [hj] at h
  simp only [Bool.false_eq_true, if_false] at h
  unfold joinVals at h
  rw [splitByte_joinSep _ _ (map_ne_nil _ hne) (render_sepFree vs hc)] at h
  have := foldlM_vals loadDomainsStep some (fun v => cleanVal v.2 = true)
    (fun acc v acc' hv hs => loadDomainsStep_render acc acc' v hv hs) vs ([], []) (p, rs) hc h
  simp only [List.nil_append, filterMap_some] at this
  exact ⟨congrArg Prod.fst this, congrArg Prod.snd this⟩

theorem effect_domain {px : ParseExt} {r r' : NetRule} {vs : List (Bool × Bytes)}
    (hok : (Mod.domain vs).valsOK = true) (h : loadOptionsStep px r (renderMod (.domain vs)) = .ok r') :
    r' = applyMod px.ext r (.domain vs) := by
  simp only [Mod.valsOK, Bool.and_eq_true, List.all_eq_true, Bool.not_eq_true', List.isEmpty_eq_false_iff] at hok
  show r' = { r with permDomains := posVals vs, restrDomains := negVals vs }
  rw [show renderMod (.domain vs) = lit "domain" ++ ch '=' :: joinVals (vs.map renderVal) from rfl,
    loadOptionsStep_nv px r _ _ (by decide) (by decide), loadOption_domain] at h
  obtain ⟨⟨p, rs⟩, hl, h⟩ := bind_ok_elim h
  cases pure_ok_elim h
  obtain ⟨rfl, rfl⟩ := loadDomains_render vs hok.1 hok.2 hl
  rfl

theorem posVals_plain (vs : List Bytes) : posVals (vs.map (fun v => (false, v))) = vs := by
  induction vs with
  | nil => rfl
  | cons a t ih => simpa [posVals] using ih

theorem negVals_plain (vs : List Bytes) : negVals (vs.map (fun v => (false, v))) = [] := by
  induction vs with
  | nil => rfl
  | cons a t ih => simp [negVals]

theorem renderVal_plain (vs : List Bytes) : (vs.map (fun v => ((false, v) : Bool × Bytes))).map renderVal = vs := by
  induction vs with
  | nil => rfl
  | cons a t ih =>
    simp only [List.map_cons, List.cons.injEq]
    exact ⟨rfl, ih⟩

theorem effect_denyallow {px : ParseExt} {r r' : NetRule} {vs : List Bytes}
    (hok : (Mod.denyallow vs).valsOK = true) (h : loadOptionsStep px r (renderMod (.denyallow vs)) = .ok r') :
    r' = applyMod px.ext r (.denyallow vs) := by
  simp only [Mod.valsOK, Bool.and_eq_true, List.all_eq_true, Bool.not_eq_true', List.isEmpty_eq_false_iff] at hok
  show r' = { r with denyallow := vs }
  rw [show renderMod (.denyallow vs) = lit "denyallow" ++ ch '=' :: joinVals vs from rfl,
    loadOptionsStep_nv px r _ _ (by decide) (by decide), loadOption_denyallow] at h
  obtain ⟨⟨p, rs⟩, hl, h⟩ := bind_ok_elim h
  refine ite_ok_elim h ?_ ?_ <;> clear h <;> intro h
  · cases h
  · cases pure_ok_elim h
    rw [← renderVal_plain vs] at hl
    obtain ⟨rfl, _⟩ := loadDomains_render (vs.map (fun v => (false, v))) (map_ne_nil _ hok.1)
      (fun v hv => by obtain ⟨x, hx, rfl⟩ := List.mem_map.1 hv; exact hok.2 x hx) hl
    rw [posVals_plain]

/-! ### `$ctag` -/

theorem loadCTagsStep_neg (acc : List Bytes × List Bytes) (d : Bytes) :
    loadCTagsStep acc (ch '~' :: d) =
      (if !isValidCTag d then throw .err else pure (acc.1, acc.2 ++ [d])) := by
  unfold loadCTagsStep
  simp only [hasPrefix_tilde_cons, if_true, sliceC_tail, bind, Except.bind, pure, Except.pure]

theorem loadCTagsStep_pos (acc : List Bytes × List Bytes) (d : Bytes) (h : hasPrefix d (lit "~") = false) :
    loadCTagsStep acc d =
      (if !isValidCTag d then throw .err else pure (acc.1 ++ [d], acc.2)) := by
  unfold loadCTagsStep
  simp only [h, Bool.false_eq_true, if_false, bind, Except.bind, pure, Except.pure]

theorem loadCTagsStep_render (acc acc' : List Bytes × List Bytes) (v : Bool × Bytes)
    (hv : cleanVal v.2 = true) (h : loadCTagsStep acc (renderVal v) = .ok acc') :
    ∃ b, (some v.2 : Option Bytes) = some b ∧ acc' = upd2 acc (v.1, b) := by
  refine ⟨v.2, rfl, ?_⟩
  obtain ⟨neg, d⟩ := v
  cases neg with
  | false =>
    rw [show renderVal (false, d) = d from rfl, loadCTagsStep_pos acc d (hasPrefix_tilde_clean hv)] at h
    refine ite_ok_elim h ?_ ?_ <;> clear h <;> intro h
    · cases h
    · cases pure_ok_elim h; rfl
  | true =>
    rw [show renderVal (true, d) = ch '~' :: d from rfl, loadCTagsStep_neg] at h
    refine ite_ok_elim h ?_ ?_ <;> clear h <;> intro h
    · cases h
    · cases pure_ok_elim h; rfl

theorem effect_ctag {px : ParseExt} {r r' : NetRule} {vs : List (Bool × Bytes)}
    (hok : (Mod.ctag vs).valsOK = true) (h : loadOptionsStep px r (renderMod (.ctag vs)) = .ok r') :
    r' = applyMod px.ext r (.ctag vs) := by
  simp only [Mod.valsOK, Bool.and_eq_true, List.all_eq_true, Bool.not_eq_true', List.isEmpty_eq_false_iff] at hok
  show r' = { r with permTags := sortB (posVals vs), restrTags := sortB (negVals vs) }
  rw [show renderMod (.ctag vs) = lit "ctag" ++ ch '=' :: joinVals (vs.map renderVal) from rfl,
    loadOptionsStep_nv px r _ _ (by decide) (by decide), loadOption_ctag] at h
  obtain ⟨⟨p, rs⟩, hl, h⟩ := bind_ok_elim h
  cases pure_ok_elim h
  unfold loadCTags at hl
  have hj : (joinVals (vs.map renderVal)).isEmpty = false :=
    isEmpty_false (joinVals_ne_nil (map_ne_nil _ hok.1) (fun x hx => by
      obtain ⟨v, hv, rfl⟩ := List.mem_map.1 hx
      exact renderVal_ne_nil v (hok.2 v hv)))
  rw [hj] at hl
  simp only [Bool.false_eq_true, if_false] at hl
  obtain ⟨⟨p0, r0⟩, hf, hl⟩ := bind_ok_elim hl
  cases pure_ok_elim hl
  unfold joinVals at hf
  rw [splitByte_joinSep _ _ (map_ne_nil _ hok.1) (render_sepFree vs hok.2)] at hf
  have := foldlM_vals loadCTagsStep some (fun v => cleanVal v.2 = true)
    (fun acc v acc' hv hs => loadCTagsStep_render acc acc' v hv hs) vs ([], []) (p0, r0) hok.2 hf
  simp only [List.nil_append, filterMap_some] at this
  cases this
  rfl

/-! ### `$dnstype` -/

theorem upperKey_ascii (s : Bytes) (h : isAscii s = true) : upperKey s = toUpper s := by
  induction s with
  | nil => rfl
  | cons c t ih =>
    have hc : c < 128 := by
      simp only [isAscii, List.all_cons, Bool.and_eq_true, decide_eq_true_eq] at h; exact h.1
    have ht : isAscii t = true := by
      simp only [isAscii, List.all_cons, Bool.and_eq_true] at h; exact h.2
    have h1 : c ≠ 0xC5 := by intro e; rw [e] at hc; exact absurd hc (by decide)
    have h2 : c ≠ 0xC4 := by intro e; rw [e] at hc; exact absurd hc (by decide)
    rw [upperKey.eq_def]
    split
    · rename_i heq; cases heq; exact absurd rfl h1
    · rename_i heq; cases heq; exact absurd rfl h2
    · rename_i heq; cases heq
      rw [ih ht]; rfl
    · rename_i heq; cases heq

theorem strToRRType_number {s : Bytes} {t : Nat} (ha : isAscii s = true) (h : strToRRType s = .ok t) :
    dnsTypeNumber s = some t := by
  unfold strToRRType at h
  simp only at h
  refine ite_ok_elim h ?_ ?_ <;> clear h <;> intro h
  · cases h
  · unfold dnsTypeNumber
    rw [← upperKey_ascii s ha]
    unfold lookupNat at h
    cases hf : Facts.dnsStringToType.find? (fun e => e.1 == upperKey s) with
    | none => rw [hf] at h; cases h
    | some e => rw [hf] at h; cases pure_ok_elim h; rfl

theorem loadDNSTypesStep_render (acc acc' : List Nat × List Nat) (v : Bool × Bytes)
    (hv : cleanVal v.2 = true ∧ isAscii v.2 = true) (h : loadDNSTypesStep acc (renderVal v) = .ok acc') :
    ∃ b, dnsTypeNumber v.2 = some b ∧ acc' = upd2 acc (v.1, b) := by
  obtain ⟨neg, d⟩ := v
  obtain ⟨c, t, rfl, hcb⟩ := cleanVal_cons hv.1
  have hct : (c == ch '~') = false := by
    cases h' : c == ch '~' with
    | false => rfl
    | true => exact absurd (eq_of_beq h') (cleanByte_ne hcb).2.2.2.2.1
  unfold loadDNSTypesStep at h
  cases neg with
  | false =>
    simp only [renderVal, Bool.false_eq_true, if_false, List.length_cons] at h
    refine ite_ok_elim h ?_ ?_ <;> clear h <;> intro h
    · cases h
    · have h0 : idxC (c :: t) 0 = .ok c := rfl
      simp only [h0, bind, Except.bind, hct, Bool.false_eq_true, if_false, pure, Except.pure] at h
      cases hs : strToRRType (c :: t) with
      | error e => rw [hs] at h; cases h
      | ok rr =>
        rw [hs] at h
        simp only at h
        cases h
        exact ⟨rr, strToRRType_number hv.2 hs, rfl⟩
  | true =>
    simp only [renderVal, if_true, List.length_cons] at h
    refine ite_ok_elim h ?_ ?_ <;> clear h <;> intro h
    · cases h
    · have h0 : idxC (ch '~' :: c :: t) 0 = .ok (ch '~') := rfl
      have hsl : sliceC (ch '~' :: c :: t) 1 (t.length + 1 + 1) = .ok (c :: t) := by
        have := sliceC_tail (ch '~') (c :: t)
        simpa using this
      simp only [h0, bind, Except.bind, beq_self_eq_true, if_true, hsl] at h
      cases hs : strToRRType (c :: t) with
      | error e => rw [hs] at h; cases h
      | ok rr =>
        rw [hs] at h
        simp only [pure, Except.pure] at h
        cases h
        exact ⟨rr, strToRRType_number hv.2 hs, rfl⟩

theorem effect_dnstype {px : ParseExt} {r r' : NetRule} {vs : List (Bool × Bytes)}
    (hok : (Mod.dnstype vs).valsOK = true) (h : loadOptionsStep px r (renderMod (.dnstype vs)) = .ok r') :
    r' = applyMod px.ext r (.dnstype vs) := by
  simp only [Mod.valsOK, Bool.and_eq_true, List.all_eq_true, Bool.not_eq_true', List.isEmpty_eq_false_iff] at hok
  show r' = { r with permDns := (posVals vs).filterMap dnsTypeNumber, restrDns := (negVals vs).filterMap dnsTypeNumber }
  rw [show renderMod (.dnstype vs) = lit "dnstype" ++ ch '=' :: joinVals (vs.map renderVal) from rfl,
    loadOptionsStep_nv px r _ _ (by decide) (by decide), loadOption_dnstype] at h
  obtain ⟨⟨p, rs⟩, hl, h⟩ := bind_ok_elim h
  cases pure_ok_elim h
  unfold loadDNSTypes at hl
  have hc : ∀ v ∈ vs, cleanVal v.2 = true := fun v hv => (hok.2 v hv).1
  have hj : (joinVals (vs.map renderVal)).isEmpty = false :=
    isEmpty_false (joinVals_ne_nil (map_ne_nil _ hok.1) (fun x hx => by
      obtain ⟨v, hv, rfl⟩ := List.mem_map.1 hx
      exact renderVal_ne_nil v (hc v hv)))
  rw [hj] at hl
  simp only [Bool.false_eq_true, if_false] at hl
  unfold joinVals at hl
  rw [splitByte_joinSep _ _ (map_ne_nil _ hok.1) (render_sepFree vs hc)] at hl
  have := foldlM_vals loadDNSTypesStep dnsTypeNumber (fun v => cleanVal v.2 = true ∧ isAscii v.2 = true)
    (fun acc v acc' hv hs => loadDNSTypesStep_render acc acc' v hv hs) vs ([], []) (p, rs) hok.2 hl
  simp only [List.nil_append] at this
  cases this
  rfl

end UF.L

import UF.Spec.Match
/-
  Integration (group L), part 2: the MODIFIER GRAMMAR of network rules as DATA, independent of the parser.

  `Mod` is one modifier as a filter author writes it (its spelling is `renderMod`), a rule text is
  `[@@] pattern [$ mod , mod , …]` (`render`), the MEANING of a modifier list is the record `ModSpec`
  (`ModSpec.ofMods`): which party, which content types, which domains, … — negation is the `~` in front of
  a value or a name, the two spellings `third-party` / `~first-party` mean the same, a content-type name
  means the generated `Facts.Type*` bit, `$dnstype` names go through the generated name table
  `Facts.dnsStringToType`.  Nothing in this file mentions `loadOption`, `loadOptions` or any other part of
  the parser model: the reference `specMatchText` is a function of the ModSpec, the pattern as written and
  the request.

  The theorems relating this reference to the parser + matcher models are in UF/Compose5/Effect.lean,
  UF/Compose5/Fields.lean and UF/Props/C04Text.lean.
-/
namespace UF.L
open UF Bytes

/-! ### names -/

/-- The eleven content types that can be WRITTEN as a modifier (`$script`, `$~image`, …). -/
inductive CType where
  | script | stylesheet | subdocument | object | image | xmlhttprequest | media | font | websocket | ping | other
  deriving DecidableEq, Repr, Inhabited

def CType.name : CType → Bytes
  | .script => lit "script" | .stylesheet => lit "stylesheet" | .subdocument => lit "subdocument"
  | .object => lit "object" | .image => lit "image" | .xmlhttprequest => lit "xmlhttprequest"
  | .media => lit "media" | .font => lit "font" | .websocket => lit "websocket" | .ping => lit "ping"
  | .other => lit "other"

/-- The request-type bit of a content type (generated from rules/request.go). -/
def CType.bit : CType → Nat
  | .script => Facts.TypeScript | .stylesheet => Facts.TypeStylesheet | .subdocument => Facts.TypeSubdocument
  | .object => Facts.TypeObject | .image => Facts.TypeImage | .xmlhttprequest => Facts.TypeXmlhttprequest
  | .media => Facts.TypeMedia | .font => Facts.TypeFont | .websocket => Facts.TypeWebsocket
  | .ping => Facts.TypePing | .other => Facts.TypeOther

def CType.all : List CType :=
  [.script, .stylesheet, .subdocument, .object, .image, .xmlhttprequest, .media, .font, .websocket, .ping, .other]

/-- The options written as a bare name that switch one option bit on. -/
inductive Opt where
  | important | badfilter | matchCase
  | elemhide | generichide | genericblock | jsinject | urlblock | content | extension | popup
  | stealth | empty | mp4
  deriving DecidableEq, Repr, Inhabited

def Opt.name : Opt → Bytes
  | .important => lit "important" | .badfilter => lit "badfilter" | .matchCase => lit "match-case"
  | .elemhide => lit "elemhide" | .generichide => lit "generichide" | .genericblock => lit "genericblock"
  | .jsinject => lit "jsinject" | .urlblock => lit "urlblock" | .content => lit "content"
  | .extension => lit "extension" | .popup => lit "popup" | .stealth => lit "stealth"
  | .empty => lit "empty" | .mp4 => lit "mp4"

def Opt.bit : Opt → Nat
  | .important => Facts.OptionImportant | .badfilter => Facts.OptionBadfilter | .matchCase => Facts.OptionMatchCase
  | .elemhide => Facts.OptionElemhide | .generichide => Facts.OptionGenerichide
  | .genericblock => Facts.OptionGenericblock | .jsinject => Facts.OptionJsinject
  | .urlblock => Facts.OptionUrlblock | .content => Facts.OptionContent | .extension => Facts.OptionExtension
  | .popup => Facts.OptionPopup | .stealth => Facts.OptionStealth | .empty => Facts.OptionEmpty
  | .mp4 => Facts.OptionMp4

def Opt.all : List Opt :=
  [.important, .badfilter, .matchCase, .elemhide, .generichide, .genericblock, .jsinject, .urlblock, .content,
   .extension, .popup, .stealth, .empty, .mp4]

/-- The DOCUMENT-ONLY options: a rule carrying one of them applies to `document` requests only, whatever
    content types it lists (documented behaviour of `$elemhide`, `$popup`, …). -/
def Opt.docOnly : Opt → Bool
  | .elemhide | .generichide | .genericblock | .jsinject | .urlblock | .content | .extension | .popup => true
  | _ => false

/-! ### one modifier, as written -/

/-- One modifier of a rule text.  A value list keeps the order in which the values are written; the `Bool`
    in front of a value says whether it is negated (`~value`). -/
inductive Mod where
  /-- a bare option name -/
  | opt (o : Opt)
  /-- `third-party` (`alt = false`) or `~first-party` (`alt = true`) -/
  | thirdParty (alt : Bool)
  /-- `~third-party` (`alt = false`) or `first-party` (`alt = true`) -/
  | firstParty (alt : Bool)
  /-- `~match-case` -/
  | notMatchCase
  /-- `document` (exception rules only): the five document-level exceptions at once -/
  | document
  /-- `name` or `~name` for a content type -/
  | ctype (neg : Bool) (c : CType)
  | domain (vals : List (Bool × Bytes))
  | denyallow (vals : List Bytes)
  | dnstype (vals : List (Bool × Bytes))
  | ctag (vals : List (Bool × Bytes))
  | client (vals : List (Bool × Bytes))
  deriving DecidableEq, Repr, Inhabited

/-- `value` or `~value`. -/
def renderVal (v : Bool × Bytes) : Bytes := if v.1 then ch '~' :: v.2 else v.2

def joinVals (vs : List Bytes) : Bytes := joinSep vs [ch '|']

def renderMod : Mod → Bytes
  | .opt o => o.name
  | .thirdParty false => lit "third-party"
  | .thirdParty true => lit "~first-party"
  | .firstParty false => lit "~third-party"
  | .firstParty true => lit "first-party"
  | .notMatchCase => lit "~match-case"
  | .document => lit "document"
  | .ctype false c => c.name
  | .ctype true c => ch '~' :: c.name
  | .domain vs => lit "domain" ++ ch '=' :: joinVals (vs.map renderVal)
  | .denyallow vs => lit "denyallow" ++ ch '=' :: joinVals vs
  | .dnstype vs => lit "dnstype" ++ ch '=' :: joinVals (vs.map renderVal)
  | .ctag vs => lit "ctag" ++ ch '=' :: joinVals (vs.map renderVal)
  | .client vs => lit "client" ++ ch '=' :: joinVals (vs.map renderVal)

/-- The options part: the modifiers joined with commas. -/
def optsText (ms : List Mod) : Bytes := joinSep (ms.map renderMod) [ch ',']

/-- The rule text `[@@] pattern [$ mod , mod , …]`; the ORDER of the modifiers and of the values inside
    a modifier is the order of the data. -/
def render (exception : Bool) (pattern : Bytes) (ms : List Mod) : Bytes :=
  (if exception then lit "@@" else []) ++ pattern ++ (if optsText ms = [] then [] else ch '$' :: optsText ms)

/-! ### the meaning of a modifier list -/

/-- Not negated / negated values, in written order. -/
def posVals {α} (vs : List (Bool × α)) : List α := (vs.filter (fun v => !v.1)).map (·.2)
def negVals {α} (vs : List (Bool × α)) : List α := (vs.filter (fun v => v.1)).map (·.2)

/-- `$dnstype` names mean record-type numbers through the generated table of `dns.StringToType`,
    case-insensitively. -/
def dnsTypeNumber (name : Bytes) : Option Nat :=
  (Facts.dnsStringToType.find? (fun e => e.1 == toUpper name)).map (·.2)

/-- What a rule text SAYS, modifier family by modifier family (the record of the property: "third-party or
    first-party, content-type include and exclude lists, source-domain include and exclude lists, denyallow,
    DNS record type lists, client tags, client names, addresses and subnets"). -/
structure ModSpec where
  /-- some spelling of `third-party` is written -/
  thirdParty : Bool := false
  /-- some spelling of `first-party` is written -/
  firstParty : Bool := false
  matchCase : Bool := false
  important : Bool := false
  badfilter : Bool := false
  /-- a document-only option (`elemhide`, `generichide`, `genericblock`, `jsinject`, `urlblock`, `content`,
      `extension`, `popup`) or `document` is written -/
  docOnly : Bool := false
  permTypes : List CType := []
  restrTypes : List CType := []
  permDomains : List Bytes := []
  restrDomains : List Bytes := []
  denyallow : List Bytes := []
  permDns : List Nat := []
  restrDns : List Nat := []
  permTags : List Bytes := []
  restrTags : List Bytes := []
  permClients : List Bytes := []
  restrClients : List Bytes := []
  deriving DecidableEq, Repr, Inhabited

def Mod.isThirdParty : Mod → Bool | .thirdParty _ => true | _ => false
def Mod.isFirstParty : Mod → Bool | .firstParty _ => true | _ => false
def Mod.isOpt (o : Opt) : Mod → Bool | .opt o' => o == o' | _ => false
def Mod.isDocOnly : Mod → Bool | .opt o => o.docOnly | .document => true | _ => false
def Mod.isDomain : Mod → Bool | .domain _ => true | _ => false
def Mod.isDenyallow : Mod → Bool | .denyallow _ => true | _ => false
def Mod.isDnstype : Mod → Bool | .dnstype _ => true | _ => false
def Mod.isCtag : Mod → Bool | .ctag _ => true | _ => false
def Mod.isClient : Mod → Bool | .client _ => true | _ => false

def Mod.permType : Mod → Option CType | .ctype false c => some c | _ => none
def Mod.restrType : Mod → Option CType | .ctype true c => some c | _ => none
def Mod.domainVals : Mod → List (Bool × Bytes) | .domain vs => vs | _ => []
def Mod.denyallowVals : Mod → List Bytes | .denyallow vs => vs | _ => []
def Mod.dnstypeVals : Mod → List (Bool × Bytes) | .dnstype vs => vs | _ => []
def Mod.ctagVals : Mod → List (Bool × Bytes) | .ctag vs => vs | _ => []
def Mod.clientVals : Mod → List (Bool × Bytes) | .client vs => vs | _ => []

/-- The meaning of a list of modifiers: every family collects what is written for it. -/
def ModSpec.ofMods (ms : List Mod) : ModSpec where
  thirdParty := ms.any Mod.isThirdParty
  firstParty := ms.any Mod.isFirstParty
  matchCase := ms.any (Mod.isOpt .matchCase)
  important := ms.any (Mod.isOpt .important)
  badfilter := ms.any (Mod.isOpt .badfilter)
  docOnly := ms.any Mod.isDocOnly
  permTypes := ms.filterMap Mod.permType
  restrTypes := ms.filterMap Mod.restrType
  permDomains := ms.flatMap (fun m => posVals m.domainVals)
  restrDomains := ms.flatMap (fun m => negVals m.domainVals)
  denyallow := ms.flatMap Mod.denyallowVals
  permDns := ms.flatMap (fun m => (posVals m.dnstypeVals).filterMap dnsTypeNumber)
  restrDns := ms.flatMap (fun m => (negVals m.dnstypeVals).filterMap dnsTypeNumber)
  permTags := ms.flatMap (fun m => posVals m.ctagVals)
  restrTags := ms.flatMap (fun m => negVals m.ctagVals)
  permClients := ms.flatMap (fun m => posVals m.clientVals)
  restrClients := ms.flatMap (fun m => negVals m.clientVals)

/-! ### the domain of the grammar: "any subset of modifiers, 1..n values each" -/

/-- A byte that may occur in a value: not one of the separators / markers of the rule syntax
    (`,` `\` `$` `|` `~` and the two quote characters of `$client`). -/
def cleanByte (c : UInt8) : Bool :=
  c != ch ',' && c != ch '\\' && c != ch '$' && c != ch '|' && c != ch '~' && c != ch '\'' && c != ch '"'

def cleanVal (v : Bytes) : Bool := !v.isEmpty && v.all cleanByte

/-- Value lists are non-empty and their values clean; `$dnstype` names are ASCII. -/
def Mod.valsOK : Mod → Bool
  | .domain vs => !vs.isEmpty && vs.all (fun v => cleanVal v.2)
  | .denyallow vs => !vs.isEmpty && vs.all cleanVal
  | .dnstype vs => !vs.isEmpty && vs.all (fun v => cleanVal v.2 && isAscii v.2)
  | .ctag vs => !vs.isEmpty && vs.all (fun v => cleanVal v.2)
  | .client vs => !vs.isEmpty && vs.all (fun v => cleanVal v.2)
  | _ => true

def atMostOne (p : Mod → Bool) (ms : List Mod) : Bool := decide ((ms.filter p).length ≤ 1)

/-- "Any subset of modifiers": each value-carrying modifier is written at most once. -/
def modsOK (ms : List Mod) : Bool :=
  ms.all Mod.valsOK && atMostOne Mod.isDomain ms && atMostOne Mod.isDenyallow ms &&
  atMostOne Mod.isDnstype ms && atMostOne Mod.isCtag ms && atMostOne Mod.isClient ms

/-- The patterns of the text-level reference: non-empty, not starting with `@` or `/` (so not a `/regex/`
    and not read as an exception marker), without `$` and without a backslash. -/
def patOK (pat : Bytes) : Bool :=
  match pat with
  | [] => false
  | c :: _ => c != ch '@' && c != ch '/' && !pat.contains (ch '$') && !pat.contains (ch '\\')

/-! ### the reference: what a request must satisfy, written from the property text -/

/-- third-party / first-party. -/
def textThirdParty (s : ModSpec) (q : Request) : Bool :=
  (!s.thirdParty || q.thirdParty) && (!s.firstParty || !q.thirdParty)

/-- Content types: with a document-only option the request must be a `document` request; otherwise it
    must be one of the included types when any is listed.  It must never be one of the excluded types. -/
def textTypes (s : ModSpec) (q : Request) : Bool :=
  (if s.docOnly then q.reqType == Facts.TypeDocument
   else s.permTypes.isEmpty || s.permTypes.any (fun c => c.bit == q.reqType)) &&
  !s.restrTypes.any (fun c => c.bit == q.reqType)

/-- `$domain`: the source host is in none of the excluded domains and, when any domain is included, in
    one of them (subdomain and wildcard-TLD semantics: `specInDomains`). -/
def textDomain (ext : Ext) (s : ModSpec) (q : Request) : Bool :=
  !specInDomains ext q.sourceHostname s.restrDomains &&
  (s.permDomains.isEmpty || specInDomains ext q.sourceHostname s.permDomains)

/-- `$denyallow`: the request host is in none of the listed domains; a hostname request for an IP
    address never matches a rule with `$denyallow`. -/
def textDenyallow (ext : Ext) (s : ModSpec) (q : Request) : Bool :=
  s.denyallow.isEmpty ||
  (!(q.isHostnameRequest && isProbablyIP q.hostname && (ext.parseAddr q.hostname).isSome) &&
   !specInDomains ext q.hostname s.denyallow)

/-- `$dnstype`. -/
def textDnsType (s : ModSpec) (q : Request) : Bool :=
  !s.restrDns.contains q.dnsType && (s.permDns.isEmpty || s.permDns.contains q.dnsType)

/-- `$ctag`. -/
def textCTag (s : ModSpec) (q : Request) : Bool :=
  !s.restrTags.any (fun t => q.sortedTags.contains t) &&
  (s.permTags.isEmpty || s.permTags.any (fun t => q.sortedTags.contains t))

/-- What a `$client` value denotes: an IP address (a subnet of full length), a CIDR subnet, or — when it is
    neither — a client name. -/
def clientNet (ext : Ext) (v : Bytes) : Option Prefix :=
  if isProbablyIP v then (ext.parseAddr v).map (fun a => { addr := a, bits := a.bitLen })
  else if hasSub v (lit "/") then ext.parsePrefix v
  else none

def clientValMatches (ext : Ext) (name : Bytes) (ip : Option Addr) (v : Bytes) : Bool :=
  match clientNet ext v with
  | some p => (match ip with | some a => p.containsAddr a | none => false)
  | none => !name.isEmpty && name == v

/-- `$client`. -/
def textClient (ext : Ext) (s : ModSpec) (q : Request) : Bool :=
  !s.restrClients.any (clientValMatches ext q.clientName q.clientIP) &&
  (s.permClients.isEmpty || s.permClients.any (clientValMatches ext q.clientName q.clientIP))

/-- Every modifier family of the rule text holds for the request. -/
def specModsText (ext : Ext) (s : ModSpec) (q : Request) : Bool :=
  textThirdParty s q && textTypes s q && textDenyallow ext s q && textDomain ext s q &&
  textDnsType s q && textCTag s q && textClient ext s q

end UF.L

import UF.Spec.DnsRewrite
import UF.Proofs.Badfilter
/- Helper lemmas for C09. -/
namespace UF

theorem dnsRewritesAll_eq (nrs : List NetRule) : dnsRewritesAll nrs = nrs.filter (·.rewrite.isSome) := by
  unfold dnsRewritesAll; rw [foldl_append_if]; simp

theorem splitExceptions_foldl (l : List NetRule) (a b : List NetRule) :
    l.foldl (fun (acc : List NetRule × List NetRule) nr =>
      if nr.whitelist then (acc.1 ++ [nr], acc.2) else (acc.1, acc.2 ++ [nr])) (a, b) =
    (a ++ l.filter (·.whitelist), b ++ l.filter (fun r => !r.whitelist)) := by
  induction l generalizing a b with
  | nil => simp
  | cons x xs ih =>
    simp only [List.foldl_cons]
    cases hx : x.whitelist <;> simp [hx, ih]

theorem splitExceptions_eq (l : List NetRule) :
    splitExceptions l = (l.filter (·.whitelist), l.filter (fun r => !r.whitelist)) := by
  unfold splitExceptions; rw [splitExceptions_foldl]; simp

/-- `DeleteFunc` with a predicate that does not panic on the elements is a filter. -/
theorem deleteFunc?_eq {α} (del : α → Option Bool) (q : α → Bool) (l : List α)
    (h : ∀ x ∈ l, del x = some (q x)) : deleteFunc? del l = some (l.filter (fun x => !q x)) := by
  induction l with
  | nil => rfl
  | cons x xs ih =>
    have hx := h x (by simp)
    have hxs := ih (fun y hy => h y (by simp [hy]))
    simp only [deleteFunc?, hx, hxs, List.filter_cons]
    cases q x <;> simp

/-- On rules that carry a rewrite, `matchException` does not panic and is the reference relation
    (for an exception with a non-empty value). -/
theorem matchException_eq (nr exc : NetRule) (ew : DnsRewrite) (he : exc.rewrite = some ew)
    (hne : (ew == emptyRewrite) = false) (hnr : nr.rewrite.isSome = true) :
    matchException nr exc exc.important = some (disables exc nr) := by
  obtain ⟨rw, hrw⟩ := Option.isSome_iff_exists.mp hnr
  unfold matchException disables
  simp only [he, hrw, hne, Bool.false_or]
  by_cases hc : ew.newCNAME = [] <;> by_cases hr : rw.rcode = ew.rcode <;> by_cases h0 : ew.rcode = 0 <;>
    by_cases ht : rw.rrType = ew.rrType <;> by_cases hv : rw.value = ew.value <;>
    cases exc.important <;> cases nr.important <;> simp_all

/-- One exception applied to a list of rewrite rules. -/
theorem removeMatchingException_eq (nrules : List NetRule) (exc : NetRule)
    (he : exc.rewrite.isSome = true) (hall : ∀ r ∈ nrules, r.rewrite.isSome = true) :
    removeMatchingException nrules exc = some (nrules.filter (fun r => !disables exc r)) := by
  obtain ⟨ew, hew⟩ := Option.isSome_iff_exists.mp he
  unfold removeMatchingException
  simp only [hew]
  cases hemp : (ew == emptyRewrite) with
  | true =>
    simp only [if_true]
    cases himp : exc.important with
    | true =>
      simp only [if_true]
      have : ∀ r ∈ nrules, (!disables exc r) = false := by
        intro r hr
        obtain ⟨rw, hrw⟩ := Option.isSome_iff_exists.mp (hall r hr)
        simp [disables, hew, hrw, himp, hemp]
      rw [List.filter_eq_nil_iff.mpr]
      intro r hr; simp [this r hr]
    | false =>
      simp only [Bool.false_eq_true, if_false]
      rw [deleteFunc?_eq _ (fun nr => !nr.important) nrules (fun _ _ => rfl)]
      congr 1
      apply List.filter_congr
      intro r hr
      obtain ⟨rw, hrw⟩ := Option.isSome_iff_exists.mp (hall r hr)
      simp [disables, hew, hrw, himp, hemp]
  | false =>
    simp only [Bool.false_eq_true, if_false]
    exact deleteFunc?_eq _ (fun nr => disables exc nr) nrules
      (fun r hr => matchException_eq r exc ew hew hemp (hall r hr))

/-- All exceptions applied in turn. -/
theorem foldlM_exceptions (exceptions : List NetRule) : ∀ (nrules : List NetRule),
    (∀ e ∈ exceptions, e.rewrite.isSome = true) → (∀ r ∈ nrules, r.rewrite.isSome = true) →
    exceptions.foldlM (fun nrules exc => removeMatchingException nrules exc) nrules =
      some (nrules.filter (fun r => !exceptions.any (fun e => disables e r))) := by
  induction exceptions with
  | nil =>
    intro nrules _ _
    simp only [List.foldlM_nil, List.any_nil, Bool.not_false]
    exact congrArg some (List.filter_eq_self.mpr (by simp)).symm
  | cons e es ih =>
    intro nrules he hall
    simp only [List.foldlM_cons]
    rw [removeMatchingException_eq nrules e (he e (by simp)) hall]
    simp only [Option.bind_eq_bind, Option.bind_some]
    rw [ih _ (fun e' he' => he e' (by simp [he']))
      (fun r hr => hall r (List.mem_filter.mp hr).1)]
    rw [List.filter_filter]
    congr 1
    apply List.filter_congr
    intro r _
    simp only [List.any_cons, Bool.not_or, Bool.and_comm]

/-- The model of `DNSRewrites` never panics and equals the reference. -/
theorem dnsRewrites_eq_spec (nrs : List NetRule) :
    dnsRewrites nrs = some (specRewrites (dnsRewritesAll nrs)) := by
  unfold dnsRewrites specRewrites specRewritesCore
  rw [removeBadfilterRules_eq_spec, splitExceptions_eq]
  simp only
  have hsub : ∀ r ∈ specRemoveBad (dnsRewritesAll nrs), r.rewrite.isSome = true := by
    intro r hr
    have : r ∈ dnsRewritesAll nrs := (List.mem_filter.mp hr).1
    rw [dnsRewritesAll_eq] at this
    exact (List.mem_filter.mp this).2
  rw [foldlM_exceptions _ _ (fun e he => hsub e (List.mem_filter.mp he).1)
    (fun r hr => hsub r (List.mem_filter.mp hr).1)]
  rw [List.filter_filter]
  congr 1
  apply List.filter_congr
  intro r _
  simp only [List.any_filter, Bool.and_comm]

end UF

namespace UF

theorem any_filter_split {α} (l : List α) (p f : α → Bool) :
    l.any f = ((l.filter p).any f || (l.filter (fun x => !p x)).any f) := by
  induction l with
  | nil => rfl
  | cons x xs ih =>
    simp only [List.any_cons, List.filter_cons, ih]
    cases p x <;> simp [Bool.or_assoc, Bool.or_left_comm]

/-- Lists with the same non-exception subsequence and the same exceptions up to order agree on
    every `any`. -/
theorem any_eq_of_split (a b : List NetRule)
    (h1 : a.filter (fun r => !r.whitelist) = b.filter (fun r => !r.whitelist))
    (h2 : (a.filter (·.whitelist)).Perm (b.filter (·.whitelist))) (f : NetRule → Bool) :
    a.any f = b.any f := by
  rw [any_filter_split a (·.whitelist) f, any_filter_split b (·.whitelist) f, h1, h2.any_eq]

/-- The reference does not depend on where the exceptions sit. -/
theorem specRewrites_perm (a b : List NetRule)
    (h1 : a.filter (fun r => !r.whitelist) = b.filter (fun r => !r.whitelist))
    (h2 : (a.filter (·.whitelist)).Perm (b.filter (·.whitelist))) :
    specRewrites a = specRewrites b := by
  have hany := any_eq_of_split a b h1 h2
  unfold specRewrites specRewritesCore specRemoveBad
  simp only [List.filter_filter, List.any_filter, hany]
  -- both sides filter with the same predicate `P`, and `P r` implies `¬ r.whitelist`
  generalize hP : (fun r : NetRule =>
    (!r.whitelist && !b.any (fun a => (!a.badfilter && !b.any (fun b' => b'.badfilter && negatesBadfilter b' a)) &&
      (a.whitelist && disables a r))) &&
    (!r.badfilter && !b.any (fun b' => b'.badfilter && negatesBadfilter b' r))) = P
  have himp : ∀ r, P r = (P r && !r.whitelist) := by
    intro r; subst hP; cases h : r.whitelist <;> simp [h]
  have e1 : ∀ l : List NetRule, l.filter P = (l.filter (fun r => !r.whitelist)).filter P := by
    intro l
    rw [List.filter_filter]
    apply List.filter_congr
    intro r _; exact himp r
  rw [e1 a, e1 b, h1]

theorem specRemoveBad_of_no_badfilter (l : List NetRule) (h : ∀ r ∈ l, r.badfilter = false) :
    specRemoveBad l = l := by
  unfold specRemoveBad
  apply List.filter_eq_self.mpr
  intro r hr
  have : l.any (fun b => b.badfilter && negatesBadfilter b r) = false := by
    apply List.any_eq_false.mpr
    intro b hb; simp [h b hb]
  simp [h r hr, this]

/-- A badfilter rule negates only rules with the same `$dnsrewrite`, so removing badfilter rules on
    the rewrite subset is the same as removing them on the whole list and then restricting. -/
theorem specRemoveBad_rewrites_comm (all : List NetRule) :
    specRemoveBad (all.filter (·.rewrite.isSome)) = (specRemoveBad all).filter (·.rewrite.isSome) := by
  unfold specRemoveBad
  simp only [List.filter_filter, List.any_filter]
  apply List.filter_congr
  intro r _
  cases hr : r.rewrite.isSome with
  | false => simp
  | true =>
    simp only [Bool.and_true, Bool.true_and]
    congr 2
    apply any_congr_mem
    intro b _
    cases hn : negatesBadfilter b r with
    | false => simp
    | true =>
      have := ((negatesBadfilter_eq_isTwin b r) ▸ hn)
      unfold isTwin at this
      simp only [Bool.and_eq_true, decide_eq_true_eq] at this
      have hrw : b.rewrite = r.rewrite := ((matchFields_eq_iff _ _).mp this.2).2.2.2.2.2.2.2.2.2.2.2.2.2.2.2
      have : b.rewrite.isSome = true := by rw [hrw]; exact hr
      simp [this]

end UF

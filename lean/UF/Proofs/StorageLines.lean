import UF.Model.Storage
import UF.Spec.Storage
import UF.Proofs.TrimSpace
/-
  Lines: `takeLine`/`dropLine`/`untilNL`, the offsets reported by `scanLinesFrom`, and the
  agreement of `scanLines` with the reference `specLines`.
-/
namespace UF.Storage

theorem takeLine_append_dropLine (s : Bytes) : takeLine s ++ dropLine s = s := by
  induction s with
  | nil => rfl
  | cons c r ih =>
    by_cases h : c = 10
    · simp [takeLine, dropLine, h]
    · simp [takeLine, dropLine, h, ih]

theorem dropLine_eq_drop (s : Bytes) : dropLine s = s.drop (takeLine s).length := by
  induction s with
  | nil => rfl
  | cons c r ih =>
    by_cases h : c = 10
    · simp [takeLine, dropLine, h]
    · simp [takeLine, dropLine, h, ih]

theorem takeLine_length_pos {c : UInt8} {r : Bytes} : 0 < (takeLine (c :: r)).length := by
  by_cases h : c = 10 <;> simp [takeLine, h]

theorem takeLine_length_le (s : Bytes) : (takeLine s).length ≤ s.length := by
  have := congrArg List.length (takeLine_append_dropLine s)
  simp at this; omega

/-- `takeLine` is `untilNL` plus the newline, if there is one. -/
theorem takeLine_cases (s : Bytes) :
    (10 ∈ s ∧ takeLine s = untilNL s ++ [10]) ∨ (10 ∉ s ∧ takeLine s = s ∧ untilNL s = s) := by
  induction s with
  | nil => right; simp [takeLine, untilNL]
  | cons c r ih =>
    by_cases h : c = 10
    · left; simp [takeLine, untilNL, h]
    · have h' : ¬ (10 = c) := fun e => h e.symm
      rcases ih with ⟨h1, h2⟩ | ⟨h1, h2, h3⟩
      · left; simp [takeLine, untilNL, h, h1, h2]
      · right; simp [takeLine, untilNL, h, h', h1, h2, h3]

theorem trimSpace_takeLine (s : Bytes) : trimSpace (takeLine s) = trimSpace (untilNL s) := by
  rcases takeLine_cases s with ⟨_, h⟩ | ⟨_, h, h'⟩
  · rw [h, trimSpace_nl']
  · rw [h, h']

theorem untilNL_takeLine (s : Bytes) : untilNL (takeLine s) = untilNL s := by
  induction s with
  | nil => rfl
  | cons c r ih =>
    by_cases h : c = 10
    · simp [takeLine, untilNL, h]
    · simp [takeLine, untilNL, h, ih]

/-- What `scanLinesFrom` reports: the position is inside the input and the line is what
    `ReadBytes('\n')` returns from there. -/
theorem scanLinesFrom_mem {pos : Nat} {s : Bytes} {idx : Nat} {line : Bytes}
    (h : (idx, line) ∈ scanLinesFrom pos s) :
    pos ≤ idx ∧ idx - pos < s.length ∧ line = takeLine (s.drop (idx - pos)) := by
  induction pos, s using scanLinesFrom.induct with
  | case1 pos => simp [scanLinesFrom] at h
  | case2 pos c r line' ih =>
    rw [scanLinesFrom] at h
    simp only [List.mem_cons] at h
    rcases h with h | h
    · cases h
      simp
    · have := ih h
      obtain ⟨h1, h2, h3⟩ := this
      have hl : 0 < line'.length := takeLine_length_pos
      have hle := takeLine_length_le (c :: r)
      have hd := dropLine_eq_drop (c :: r)
      refine ⟨by omega, ?_, ?_⟩
      · rw [hd] at h2
        simp only [List.length_drop] at h2
        have : line'.length = (takeLine (c :: r)).length := rfl
        omega
      · rw [h3, hd, List.drop_drop]
        congr 2
        have : line'.length = (takeLine (c :: r)).length := rfl
        omega

theorem scanLines_mem {content : Bytes} {idx : Nat} {line : Bytes} (h : (idx, line) ∈ scanLines content) :
    idx < content.length ∧ line = takeLine (content.drop idx) := by
  have := scanLinesFrom_mem h
  simpa using this

end UF.Storage

import UF.Proofs.ParseWF
namespace UF.E
open Bytes

/-- The invariant of the option loop on the four masks. -/
structure BInv (r : NetRule) : Prop where
  en : r.enabled < 2 ^ 15
  dis : r.disabled < 2 ^ 15
  perm : r.permTypes < 2 ^ 12
  restr : r.restrTypes < 2 ^ 12

theorem setOptionEnabled_bits {r r' : NetRule} {opt : Nat} {en : Bool}
    (hr : BInv r) (ho : opt < 2 ^ 15) (h : setOptionEnabled r opt en = .ok r') : BInv r' := by
  obtain ⟨h1, h2, h3, h4⟩ := hr
  unfold setOptionEnabled at h
  split at h
  · cases h
  · split at h
    · cases h
    · split at h <;> cases h
      · exact ⟨Nat.or_lt_two_pow h1 ho, h2, h3, h4⟩
      · exact ⟨h1, Nat.or_lt_two_pow h2 ho, h3, h4⟩

theorem setIgnoringError_bits {r : NetRule} {opt : Nat} (hr : BInv r) (ho : opt < 2 ^ 15) :
    BInv (setIgnoringError r opt) := by
  unfold setIgnoringError
  split
  · next r' hx => exact setOptionEnabled_bits hr ho hx
  · exact hr

theorem setRequestType_bits {r : NetRule} {ty : Nat} {p : Bool} (hr : BInv r) (ht : ty < 2 ^ 12) :
    BInv (setRequestType r ty p) := by
  obtain ⟨h1, h2, h3, h4⟩ := hr
  unfold setRequestType
  split
  · exact ⟨h1, h2, Nat.or_lt_two_pow h3 ht, h4⟩
  · exact ⟨h1, h2, h3, Nat.or_lt_two_pow h4 ht⟩

theorem ite_some_elim {α} {c : Prop} [Decidable c] {a b : Option α} {v : α} {P : Prop}
    (h : (if c then a else b) = some v) (h1 : a = some v → P) (h2 : b = some v → P) : P := by
  split at h
  · exact h1 h
  · exact h2 h

theorem contentTypeOf_lt {name : Bytes} {ty : Nat} (h : contentTypeOf name = some ty) : ty < 2 ^ 12 := by
  unfold contentTypeOf at h
  iterate 11 (refine ite_some_elim h (fun e => by cases e; decide) ?_; clear h; intro h)
  cases h

theorem loadOption_bits {px : ParseExt} {r r' : NetRule} {name value : Bytes}
    (hr : BInv r) (h : loadOption px r name value = .ok r') : BInv r' := by
  have hr0 := hr
  obtain ⟨h1, h2, h3, h4⟩ := hr0
  unfold loadOption at h
  iterate 6 (refine ite_ok_elim h (setOptionEnabled_bits hr (by decide)) ?_; clear h; intro h)
  -- dnstype
  refine ite_ok_elim h ?_ ?_ <;> clear h <;> intro h
  · obtain ⟨⟨p, rs⟩, hx, h⟩ := bind_ok_elim h
    cases pure_ok_elim h
    exact ⟨h1, h2, h3, h4⟩
  -- dnsrewrite
  refine ite_ok_elim h ?_ ?_ <;> clear h <;> intro h
  · split at h
    · cases pure_ok_elim h
      exact ⟨h1, h2, h3, h4⟩
    · cases h
  -- domain
  refine ite_ok_elim h ?_ ?_ <;> clear h <;> intro h
  · obtain ⟨⟨p, rs⟩, hx, h⟩ := bind_ok_elim h
    cases pure_ok_elim h
    exact ⟨h1, h2, h3, h4⟩
  -- denyallow
  refine ite_ok_elim h ?_ ?_ <;> clear h <;> intro h
  · obtain ⟨⟨p, rs⟩, hx, h⟩ := bind_ok_elim h
    refine ite_ok_elim h ?_ ?_ <;> clear h <;> intro h
    · cases h
    · cases pure_ok_elim h
      exact ⟨h1, h2, h3, h4⟩
  -- ctag
  refine ite_ok_elim h ?_ ?_ <;> clear h <;> intro h
  · obtain ⟨⟨p, rs⟩, hx, h⟩ := bind_ok_elim h
    cases pure_ok_elim h
    exact ⟨h1, h2, h3, h4⟩
  -- client
  refine ite_ok_elim h ?_ ?_ <;> clear h <;> intro h
  · obtain ⟨⟨p, rs⟩, hx, h⟩ := bind_ok_elim h
    cases pure_ok_elim h
    exact ⟨h1, h2, h3, h4⟩
  iterate 7 (refine ite_ok_elim h (setOptionEnabled_bits hr (by decide)) ?_; clear h; intro h)
  -- ~extension
  refine ite_ok_elim h ?_ ?_ <;> clear h <;> intro h
  · cases pure_ok_elim h
    exact ⟨Nat.xor_lt_two_pow h1 (by decide), h2, h3, h4⟩
  -- document
  refine ite_ok_elim h ?_ ?_ <;> clear h <;> intro h
  · obtain ⟨r1, hx, h⟩ := bind_ok_elim h
    cases pure_ok_elim h
    exact setIgnoringError_bits (setIgnoringError_bits (setIgnoringError_bits (setIgnoringError_bits
      (setOptionEnabled_bits hr (by decide) hx) (by decide)) (by decide)) (by decide)) (by decide)
  iterate 4 (refine ite_ok_elim h (setOptionEnabled_bits hr (by decide)) ?_; clear h; intro h)
  -- content types
  split at h
  · next ty hty =>
    cases pure_ok_elim h
    exact setRequestType_bits hr (contentTypeOf_lt hty)
  · refine ite_ok_elim h ?_ ?_ <;> clear h <;> intro h
    · split at h
      · next ty hty =>
        cases pure_ok_elim h
        exact setRequestType_bits hr (contentTypeOf_lt hty)
      · cases h
    · cases h

theorem loadOptionsStep_bits {px : ParseExt} {r r' : NetRule} {o : Bytes}
    (hr : BInv r) (h : loadOptionsStep px r o = .ok r') : BInv r' := by
  unfold loadOptionsStep at h
  split at h
  · refine ite_ok_elim h ?_ ?_ <;> clear h <;> intro h
    · obtain ⟨name, _, h⟩ := bind_ok_elim h
      obtain ⟨value, _, h⟩ := bind_ok_elim h
      exact loadOption_bits hr h
    · exact loadOption_bits hr h
  · exact loadOption_bits hr h

theorem loadOptions_bits {px : ParseExt} {r r' : NetRule} {opts : Bytes}
    (hr : BInv r) (h : loadOptions px r opts = .ok r') : BInv r' := by
  unfold loadOptions at h
  refine ite_ok_elim h ?_ ?_ <;> clear h <;> intro h
  · cases pure_ok_elim h
    exact hr
  · obtain ⟨parts, _, h⟩ := bind_ok_elim h
    obtain ⟨r1, hf, h⟩ := bind_ok_elim h
    have hr1 : BInv r1 :=
      foldlM_inv BInv (loadOptionsStep px) (fun _ _ _ hb hs => loadOptionsStep_bits hb hs) parts r r1 hr hf
    refine ite_ok_elim h ?_ ?_ <;> clear h <;> intro h
    · cases pure_ok_elim h
      obtain ⟨h1, h2, h3, h4⟩ := hr1
      exact ⟨h1, h2, (by decide : Facts.TypeDocument < 2 ^ 12), h4⟩
    · cases pure_ok_elim h
      exact hr1

theorem parseNetRule_bits {px : ParseExt} {t : Bytes} {id : Int} {r : NetRule}
    (h : parseNetRule px t id = .ok r) : BInv r := by
  unfold parseNetRule at h
  obtain ⟨⟨pattern, options, whitelist⟩, _, h⟩ := bind_ok_elim h
  obtain ⟨r1, hl, h⟩ := bind_ok_elim h
  have hr1 : BInv r1 := by
    refine loadOptions_bits ?_ hl
    exact ⟨(by decide : (0 : Nat) < 2 ^ 15), (by decide : (0 : Nat) < 2 ^ 15),
      (by decide : (0 : Nat) < 2 ^ 12), (by decide : (0 : Nat) < 2 ^ 12)⟩
  extract_lets jp at h
  have hjp : ∀ r2, BInv r2 → jp r2 = .ok r → BInv r := by
    intro r2 hr2 h
    simp only [jp] at h
    refine ite_ok_elim h ?_ ?_ <;> clear h <;> intro h
    · cases h
    · obtain ⟨sc, _, h⟩ := bind_ok_elim h
      refine ite_ok_elim h ?_ ?_ <;> clear h <;> intro h
      · cases pure_ok_elim h
        obtain ⟨h1, h2, h3, h4⟩ := hr2
        exact ⟨h1, h2, h3, h4⟩
      · cases pure_ok_elim h
        exact hr2
  refine ite_ok_elim h ?_ ?_ <;> clear h <;> intro h
  · obtain ⟨p, _, h⟩ := bind_ok_elim h
    obtain ⟨r2, hp, h⟩ := bind_ok_elim h
    cases pure_ok_elim hp
    refine hjp _ ?_ h
    obtain ⟨h1, h2, h3, h4⟩ := hr1
    exact ⟨h1, h2, h3, h4⟩
  · obtain ⟨r2, hp, h⟩ := bind_ok_elim h
    cases pure_ok_elim hp
    exact hjp _ hr1 h

/-- the bits a rule text can set: everything below OptionCsp (2^15) -/
theorem parseNetRule_option_bits {px : ParseExt} {t : Bytes} {id : Int} {r : NetRule}
    (h : parseNetRule px t id = .ok r) : r.enabled < 2 ^ 15 ∧ r.disabled < 2 ^ 15 :=
  ⟨(parseNetRule_bits h).en, (parseNetRule_bits h).dis⟩

/-- content-type masks only ever hold the twelve RequestType bits (below 2^12) -/
theorem parseNetRule_type_bits {px : ParseExt} {t : Bytes} {id : Int} {r : NetRule}
    (h : parseNetRule px t id = .ok r) : r.permTypes < 2 ^ 12 ∧ r.restrTypes < 2 ^ 12 :=
  ⟨(parseNetRule_bits h).perm, (parseNetRule_bits h).restr⟩

theorem and_ne_of_lt {m opt : Nat} (hm : m < 2 ^ 15) (ho : 2 ^ 15 ≤ opt) : ((m &&& opt) == opt) = false := by
  have : m &&& opt ≤ m := Nat.and_le_left
  have hne : m &&& opt ≠ opt := by omega
  simpa using hne

theorem parseNetRule_no_advanced {px : ParseExt} {t : Bytes} {id : Int} {r : NetRule}
    (h : parseNetRule px t id = .ok r) (opt : Nat)
    (ho : opt = Facts.OptionCsp ∨ opt = Facts.OptionReplace ∨ opt = Facts.OptionCookie ∨ opt = Facts.OptionRedirect) :
    r.isEnabled opt = false ∧ r.isDisabled opt = false := by
  have hb := parseNetRule_bits h
  have hopt : 2 ^ 15 ≤ opt := by
    rcases ho with e | e | e | e <;> subst e <;> decide
  exact ⟨and_ne_of_lt hb.en hopt, and_ne_of_lt hb.dis hopt⟩

end UF.E

import UF.Model.RegexParse
import UF.Proofs.ShortcutBytes
/-
  The `?`-bail-out of `findRegexpShortcut`, parser side (maintenance group K, review TOP 14):
  the parser model `parseCore` (Go's `syntax.Parse` restricted to the modelled subset, WITHOUT the
  flag-group handling that `parseRE` adds in front) does not accept a text that begins with `(?i)`:
  after `(?` only `:` is in the subset.  Hence for a `$match-case` rule whose text between the slashes
  itself starts with `(?i)` the tree against which shortcut candidates are checked is `none`, nothing is
  required, no candidate is accepted and the shortcut is empty -- the hypothesis `hci` of the C05
  regex-rule theorems is not needed.
-/
namespace UF
open Bytes Re

theorem run_ciPrefix_none : run initState ciPrefix = none := by decide

theorem parseCore_ciPrefix_append (z : Bytes) : parseCore (ciPrefix ++ z) = none := by
  unfold parseCore
  rw [run_append, run_ciPrefix_none]
  rfl

theorem parseCore_of_hasPrefix_ci {p : Bytes} (h : hasPrefix p ciPrefix = true) : parseCore p = none := by
  obtain ⟨z, hz⟩ := (hasPrefix_iff _ _).1 h
  rw [hz]
  exact parseCore_ciPrefix_append z

end UF

import UF.Proofs.Shortcut
/-
  Merged required literals (`litInfo`, `requiredRuns`): every run is a factor of the lower-cased
  subject of every successful match (`search_runs`).
-/
namespace UF
open Bytes Re

/-- What `litInfo r = i` promises about the lower-cased text `lw` consumed by a match of `r`. -/
def LitInfo.Good (i : LitInfo) (lw : Bytes) : Prop :=
  (i.exact = true → lw = i.pre) ∧ (∃ z, lw = i.pre ++ z) ∧ (∃ z, lw = z ++ i.suf) ∧
    ∀ l ∈ i.inner, hasSub lw l = true

theorem LitInfo.good_trivial (lw : Bytes) : LitInfo.Good ⟨false, [], [], []⟩ lw :=
  ⟨by simp, ⟨lw, by simp⟩, ⟨lw, by simp⟩, by simp⟩

theorem litInfo_exact (r : Re) : (litInfo r).exact = true →
    (litInfo r).suf = (litInfo r).pre ∧ (litInfo r).inner = [] := by
  induction r with
  | cat a b iha ihb =>
    simp only [litInfo, Bool.and_eq_true]
    rintro ⟨ha, hb⟩
    obtain ⟨a1, a2⟩ := iha ha
    obtain ⟨b1, b2⟩ := ihb hb
    simp [ha, hb, a1, a2, b1, b2]
  | grp a iha => simpa [litInfo] using iha
  | rep a m mx iha =>
    simp only [litInfo]
    split <;> simp
  | _ => simp [litInfo]

/-- Iterations of `a` (what follows the first iteration of `a+`, `a{m,}`, `a{m,n}`). -/
inductive Iter (a : Re) : St → St → Prop
  | nil {s} : Iter a s s
  | step {s t u} : Den a s t → Iter a t u → Iter a s u

theorem Iter.shape {a : Re} {s t : St} (h : Iter a s t) : ∃ x, s.post = x ++ t.post := by
  induction h with
  | nil => exact ⟨[], by simp⟩
  | step h1 _ ih =>
    obtain ⟨x, hx, _⟩ := h1.shape
    obtain ⟨y, hy⟩ := ih
    exact ⟨x ++ y, by simp [hx, hy]⟩

theorem den_iter {r : Re} {s t : St} (h : Den r s t) :
    ∀ a, (r = .star a ∨ ∃ m mx, r = .rep a m mx) → Iter a s t := by
  induction h with
  | star0 => intro a _; exact .nil
  | starS h1 _ _ ih2 =>
    intro a hr
    rcases hr with hr | ⟨_, _, hr⟩ <;> cases hr
    exact .step h1 (ih2 _ (.inl rfl))
  | repU0 _ ih =>
    intro a hr
    rcases hr with hr | ⟨_, _, hr⟩ <;> cases hr
    exact ih _ (.inl rfl)
  | repUS h1 _ _ ih2 =>
    intro a hr
    rcases hr with hr | ⟨_, _, hr⟩ <;> cases hr
    exact .step h1 (ih2 _ (.inr ⟨_, _, rfl⟩))
  | repB0 => intro a _; exact .nil
  | repBO h1 _ _ ih2 =>
    intro a hr
    rcases hr with hr | ⟨_, _, hr⟩ <;> cases hr
    exact .step h1 (ih2 _ (.inr ⟨_, _, rfl⟩))
  | repBS h1 _ _ ih2 =>
    intro a hr
    rcases hr with hr | ⟨_, _, hr⟩ <;> cases hr
    exact .step h1 (ih2 _ (.inr ⟨_, _, rfl⟩))
  | _ => intro a hr; rcases hr with hr | ⟨_, _, hr⟩ <;> cases hr

/-- The text consumed by further iterations is empty or ends with the suffix of `a`. -/
theorem iter_tail {a : Re} {sa : Bytes}
    (hA : ∀ s t w, Den a s t → s.post = w ++ t.post → ∃ z, toLower w = z ++ sa)
    {t u : St} (h : Iter a t u) : ∀ w, t.post = w ++ u.post → w = [] ∨ ∃ z, toLower w = z ++ sa := by
  induction h with
  | @nil s =>
    intro w hw
    left
    exact List.append_cancel_right (bs := s.post) (cs := []) (by simpa using hw.symm)
  | @step s m u h1 h2 ih =>
    intro w hw
    obtain ⟨w1, e1, _⟩ := h1.shape
    obtain ⟨w2, e2⟩ := h2.shape
    have : w = w1 ++ w2 := List.append_cancel_right (bs := u.post) (by rw [← hw, e1, e2]; simp)
    subst this
    right
    obtain ⟨z1, hz1⟩ := hA _ _ _ h1 e1
    rcases ih w2 e2 with rfl | ⟨z2, hz2⟩
    · exact ⟨z1, by simpa using hz1⟩
    · exact ⟨toLower w1 ++ z2, by rw [toLower_append, hz2]; simp⟩

/-- first iteration + further iterations (`a+`, `a{m+1,…}`) -/
theorem good_first_iter {a : Re} (iha : ∀ s t, Den a s t → ∀ w, s.post = w ++ t.post → (litInfo a).Good (toLower w))
    {s t u : St} (h1 : Den a s t) (h2 : Iter a t u) (w : Bytes) (hw : s.post = w ++ u.post) :
    LitInfo.Good ⟨false, (litInfo a).pre, (litInfo a).suf, (litInfo a).inner⟩ (toLower w) := by
  obtain ⟨w1, e1, _⟩ := h1.shape
  obtain ⟨w2, e2⟩ := h2.shape
  have : w = w1 ++ w2 := List.append_cancel_right (bs := u.post) (by rw [← hw, e1, e2]; simp)
  subst this
  obtain ⟨_, ⟨zp, hp⟩, ⟨zs, hs⟩, hin⟩ := iha _ _ h1 _ e1
  have htail := iter_tail (sa := (litInfo a).suf) (fun s t w hd hw => (iha s t hd w hw).2.2.1) h2 w2 e2
  rw [toLower_append]
  refine ⟨by simp, ⟨zp ++ toLower w2, by rw [hp]; simp⟩, ?_, ?_⟩
  · rcases htail with rfl | ⟨z, hz⟩
    · exact ⟨zs, by simpa [toLower] using hs⟩
    · exact ⟨toLower w1 ++ z, by rw [hz]; simp⟩
  · intro l hl
    exact hasSub_append_left _ (hin l hl)

theorem den_info (r : Re) : ∀ (s t : St), Den r s t → ∀ w, s.post = w ++ t.post →
    (litInfo r).Good (toLower w) := by
  have wnil : ∀ (s : St) (w : Bytes), s.post = w ++ s.post → w = [] := fun s w hw =>
    List.append_cancel_right (bs := s.post) (cs := []) (by simpa using hw.symm)
  have zero : ∀ w : Bytes, w = [] → LitInfo.Good ⟨true, [], [], []⟩ (toLower w) := by
    rintro w rfl
    exact ⟨fun _ => rfl, ⟨[], rfl⟩, ⟨[], rfl⟩, by simp⟩
  induction r with
  | lit bs fold =>
    intro s t h w hw
    cases h with
    | lit h =>
      obtain ⟨x, h1, _, h3⟩ := litStep_shape _ _ _ _ h
      have : w = x := List.append_cancel_right (hw.symm.trans h1)
      subst this
      simp only [litInfo, h3]
      exact ⟨fun _ => rfl, ⟨[], by simp⟩, ⟨[], by simp⟩, by simp⟩
  | empty => intro s t h w hw; cases h; exact zero w (wnil _ _ hw)
  | bol => intro s t h w hw; cases h; exact zero w (wnil _ _ hw)
  | eol => intro s t h w hw; cases h; exact zero w (wnil _ _ hw)
  | wordB => intro s t h w hw; cases h; exact zero w (wnil _ _ hw)
  | nwordB => intro s t h w hw; cases h; exact zero w (wnil _ _ hw)
  | grp a iha =>
    intro s t h w hw
    cases h with
    | grp h => exact iha _ _ h w hw
  | cat a b iha ihb =>
    intro s u h w hw
    cases h with
    | @cat _ _ _ t _ h1 h2 =>
      obtain ⟨w1, e1, _⟩ := h1.shape
      obtain ⟨w2, e2, _⟩ := h2.shape
      have : w = w1 ++ w2 := List.append_cancel_right (bs := u.post) (by rw [← hw, e1, e2]; simp)
      subst this
      obtain ⟨ea, ⟨zpa, hpa⟩, ⟨zsa, hsa⟩, hia⟩ := iha _ _ h1 _ e1
      obtain ⟨eb, ⟨zpb, hpb⟩, ⟨zsb, hsb⟩, hib⟩ := ihb _ _ h2 _ e2
      rw [toLower_append]
      simp only [litInfo]
      refine ⟨?_, ?_, ?_, ?_⟩
      · simp only [Bool.and_eq_true]
        rintro ⟨ha, hb⟩
        simp [ha, ea ha, eb hb]
      · cases ha : (litInfo a).exact with
        | true => exact ⟨zpb, by simp [ea ha, hpb]⟩
        | false => exact ⟨zpa ++ toLower w2, by simp [hpa]⟩
      · cases hb : (litInfo b).exact with
        | true =>
          have := (litInfo_exact b hb).1
          exact ⟨zsa, by simp [eb hb, hsa, this]⟩
        | false => exact ⟨toLower w1 ++ zsb, by simp [hsb]⟩
      · intro l hl
        have hL : ∀ l ∈ (litInfo a).inner, hasSub (toLower w1 ++ toLower w2) l = true :=
          fun l hl => hasSub_append_left _ (hia l hl)
        have hR : ∀ l ∈ (litInfo b).inner, hasSub (toLower w1 ++ toLower w2) l = true :=
          fun l hl => hasSub_append_right _ (hib l hl)
        have hl' : l ∈ (if ((litInfo a).exact || (litInfo b).exact) = true
            then (litInfo a).inner ++ (litInfo b).inner
            else (litInfo a).inner ++ ((litInfo a).suf ++ (litInfo b).pre) :: (litInfo b).inner) := hl
        by_cases hx : ((litInfo a).exact || (litInfo b).exact) = true
        · rw [if_pos hx] at hl'
          rcases List.mem_append.1 hl' with hl | hl
          · exact hL l hl
          · exact hR l hl
        · rw [if_neg hx] at hl'
          simp only [List.mem_append, List.mem_cons] at hl'
          rcases hl' with hl | rfl | hl
          · exact hL l hl
          · exact (hasSub_iff _ _).2 ⟨zsa, zpb, by rw [hsa, hpb]; simp⟩
          · exact hR l hl
  | plus a iha =>
    intro s u h w hw
    cases h with
    | plus h1 h2 => exact good_first_iter iha h1 (den_iter h2 _ (.inl rfl)) w hw
  | rep a m mx iha =>
    intro s u h w hw
    cases h with
    | repU0 _ => exact LitInfo.good_trivial _
    | repB0 => exact LitInfo.good_trivial _
    | repBO _ _ => exact LitInfo.good_trivial _
    | repUS h1 h2 =>
      simp only [litInfo, Nat.succ_pos, if_true, gt_iff_lt]
      exact good_first_iter iha h1 (den_iter h2 _ (.inr ⟨_, _, rfl⟩)) w hw
    | repBS h1 h2 =>
      simp only [litInfo, Nat.succ_pos, if_true, gt_iff_lt]
      exact good_first_iter iha h1 (den_iter h2 _ (.inr ⟨_, _, rfl⟩)) w hw
  | _ => intro s t _ w _; exact LitInfo.good_trivial _

/-- Every merged run is a factor of the lower-cased subject of any successful search. -/
theorem search_runs (r : Re) (u : Bytes) (h : search r u = true) :
    ∀ l ∈ requiredRuns r, hasSub (toLower u) l = true := by
  intro l hl
  obtain ⟨x, y, z, rfl, hd⟩ := (search_iff r _).1 h
  obtain ⟨_, ⟨zp, hp⟩, ⟨zs, hs⟩, hin⟩ := den_info r _ _ hd y rfl
  have : hasSub (toLower y) l = true := by
    simp only [requiredRuns, List.mem_cons] at hl
    rcases hl with rfl | rfl | hl
    · exact (hasSub_iff _ _).2 ⟨[], zp, by simpa using hp⟩
    · exact (hasSub_iff _ _).2 ⟨zs, [], by simpa using hs⟩
    · exact hin l hl
  rw [toLower_append, toLower_append]
  exact hasSub_append_left _ (hasSub_append_right _ this)

end UF

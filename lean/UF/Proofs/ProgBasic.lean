import UF.Model.Prog
/-
  Helper lemmas about the Prog model (C13, C14, C19): the shared-state invariants `CacheInv` (the cache
  holds what the lists hold) and `CellInv` (a lazy-compile cell is empty or what compiling ITS rule
  gives), the thread-local invariant `TInv`, and the bookkeeping quantity `Tot` (what a thread has
  collected, extended by what its pending item and the remaining items contribute according to `truth`).
  The rely/guarantee structure: `TInv` and `Tot` mention only thread-local data and the immutable `Env`;
  the facts about the shared state a thread relies on are `CacheInv`, `CellInv` and "a cell that is set
  never changes" (`CellsLe`), which every action of every thread guarantees.
-/
namespace UF.Prog
variable {R Re : Type}

/-- No per-request data survives the refill of a pooled request. -/
theorem fill_overwrites' (etld1 : Bytes → Bytes) (old : Request) (d : DReq) :
    fillFromPool etld1 old d = fillFromPool etld1 default d := by
  simp only [fillFromPool, fillRequestForHostname]

/-- The cache only holds what the lists hold. -/
def CacheInv (env : Env R Re) (s : State R Re) : Prop :=
  ∀ idx r, (idx, r) ∈ s.cache → env.truth idx = some r

/-- The rule an object is: the rule of its storage index / the entry of the sequential table. -/
def Env.objRule (env : Env R Re) : Obj → Option R
  | .st idx => env.truth idx
  | .seq k => env.resident[k]?

/-- A lazy-compile cell is a function of the rule: it is empty, or what `preparePattern` leaves behind
    on that object's rule. -/
def CellInv (env : Env R Re) (s : State R Re) : Prop :=
  ∀ ob, s.cells ob = .uncompiled ∨ ∃ r, env.objRule ob = some r ∧ s.cells ob = (env.compile r).cell

/-- The invariant of the shared state. -/
def SInv (env : Env R Re) (s : State R Re) : Prop := CacheInv env s ∧ CellInv env s

/-- A cell that is set keeps its value (`regex` is written once, `invalid` is only ever set). -/
def CellsLe (s s' : State R Re) : Prop := ∀ ob, s.cells ob ≠ .uncompiled → s'.cells ob = s.cells ob

theorem CellsLe.refl (s : State R Re) : CellsLe s s := fun _ _ => rfl

theorem sinv_init (env : Env R Re) : SInv env ({} : State R Re) :=
  ⟨fun _ _ h => by simp at h, fun _ => Or.inl rfl⟩

theorem cacheLookup_mem {c : List (Idx × R)} {idx : Idx} {r : R} (h : cacheLookup c idx = some r) :
    (idx, r) ∈ c := by
  unfold cacheLookup at h
  split at h
  · next e he =>
    have h1 := List.mem_of_find?_eq_some he
    have h2 := List.find?_some he
    simp at h2 h
    subst h2; subst h
    exact h1
  · simp at h

theorem mem_cacheInsert {c : List (Idx × R)} {idx i : Idx} {r x : R} (h : (i, x) ∈ cacheInsert c idx r) :
    (i = idx ∧ x = r) ∨ (i, x) ∈ c := by
  simp [cacheInsert] at h
  rcases h with h | h
  · exact Or.inl h
  · exact Or.inr h.1

theorem cacheLookup_isSome_of_mem {c : List (Idx × R)} {idx : Idx} {r : R} (h : (idx, r) ∈ c) :
    (cacheLookup c idx).isSome := by
  unfold cacheLookup
  cases hf : c.find? (fun e => e.1 == idx) with
  | some e => simp
  | none =>
    have := List.find?_eq_none.mp hf _ h
    simp at this

theorem cacheLookup_insert_isSome {c : List (Idx × R)} {idx i : Idx} {r : R}
    (h : (cacheLookup c i).isSome) : (cacheLookup (cacheInsert c idx r) i).isSome := by
  by_cases hi : idx = i
  · subst hi; simp [cacheLookup, cacheInsert]
  · unfold cacheLookup cacheInsert at *
    rw [List.find?_cons_of_neg (by simpa using hi)]
    have : (List.find? (fun e => e.1 == i) (List.filter (fun e => e.1 != idx) c)) =
        List.find? (fun e => e.1 == i) c := by
      clear h
      induction c with
      | nil => rfl
      | cons a t ih =>
        by_cases ha : a.1 = idx
        · have hne : (a.1 == i) = false := by
            simp only [beq_eq_false_iff_ne, ne_eq]; exact fun h => hi (ha ▸ h)
          have hf : (a.1 != idx) = false := by simp [ha]
          rw [List.filter_cons, hf, List.find?_cons, hne]; simpa using ih
        · have hf : (a.1 != idx) = true := by simp [ha]
          rw [List.filter_cons, hf]; simp only [if_true, List.find?_cons, ih]
    rw [this]; exact h

/-! ### the bookkeeping quantity -/

theorem pureFold_nil (env : Env R Re) (req : Request) (acc : List (Item × R)) : pureFold env req acc [] = acc := rfl

theorem pureFold_cons (env : Env R Re) (req : Request) (acc : List (Item × R)) (it : Item) (rest : List Item) :
    pureFold env req acc (it :: rest) = pureFold env req (pureStep env req acc it) rest := rfl

theorem pureFold_append (env : Env R Re) (req : Request) (acc : List (Item × R)) (xs ys : List Item) :
    pureFold env req acc (xs ++ ys) = pureFold env req (pureFold env req acc xs) ys := by
  simp [pureFold, List.foldl_append]

/-- what the thread will have collected when the item in progress is finished (according to `truth`) -/
def pendAcc (env : Env R Re) (t : Thread R) : List (Item × R) :=
  match t.pc with
  | .get src idx => pureStep env t.req t.acc (.st src idx)
  | .read src idx => pureStep env t.req t.acc (.st src idx)
  | .put src idx r => useStep env t.req t.acc src idx ((some r).filter (env.wants src))
  | .use src idx o => useStep env t.req t.acc src idx o
  | .seq k => seqStep env t.req t.acc k
  | .prep it r => if env.mtch r t.req then t.acc ++ [(it, r)] else t.acc
  | .rx it r => if env.mtch r t.req then t.acc ++ [(it, r)] else t.acc
  | _ => t.acc

/-- collected so far, extended by the pending item and the items still to do (all according to `truth`) -/
def Tot (env : Env R Re) (t : Thread R) : List (Item × R) := pureFold env t.req (pendAcc env t) t.todo

/-- what `Tot` is compared with: the stateless result of the stage the thread is in -/
def target (env : Env R Re) (t : Thread R) : List (Item × R) :=
  if t.stage then pure2 env t.q t.req else pure1 env t.req

@[simp] theorem advance_q (t : Thread R) : t.advance.q = t.q := by
  unfold Thread.advance; split <;> (try split) <;> rfl
@[simp] theorem advance_req (t : Thread R) : t.advance.req = t.req := by
  unfold Thread.advance; split <;> (try split) <;> rfl
@[simp] theorem advance_acc (t : Thread R) : t.advance.acc = t.acc := by
  unfold Thread.advance; split <;> (try split) <;> rfl
@[simp] theorem advance_stage (t : Thread R) : t.advance.stage = t.stage := by
  unfold Thread.advance; split <;> (try split) <;> rfl

theorem Tot_advance (env : Env R Re) (t : Thread R) :
    Tot env t.advance = pureFold env t.req t.acc t.todo := by
  unfold Thread.advance
  split
  · next h => split <;> simp [Tot, pendAcc, h]
  · next h => simp [Tot, pendAcc, h, pureFold_cons]
  · next h => simp [Tot, pendAcc, h, pureFold_cons, pureStep]

theorem target_advance (env : Env R Re) (t : Thread R) : target env t.advance = target env t := by
  simp [target]

theorem advance_pc_ne_start (t : Thread R) : t.advance.pc ≠ .start := by
  unfold Thread.advance; split <;> (try split) <;> simp

theorem advance_pc_ne_crash (t : Thread R) : t.advance.pc ≠ .crash := by
  unfold Thread.advance; split <;> (try split) <;> simp

theorem advance_pc_ne_done (t : Thread R) : t.advance.pc ≠ .done := by
  unfold Thread.advance; split <;> (try split) <;> simp

/-- Thread-local invariant. -/
structure TInv (env : Env R Re) (t : Thread R) : Prop where
  req_eq : t.pc ≠ .start → t.q.trivial = false → t.req = env.reqOf t.q
  put_ok : ∀ src idx r, t.pc = .put src idx r → env.truth idx = some r
  use_ok : ∀ src idx r, t.pc = .use src idx (some r) → env.truth idx = some r ∧ env.wants src r = true
  prep_ok : ∀ it r, (t.pc = .prep it r ∨ t.pc = .rx it r) → env.objRule it.obj = some r ∧ env.pre r t.req = true
  end_todo : (t.pc = .mid ∨ t.pc = .fin ∨ t.pc = .done) → t.todo = []
  mid_stage : t.pc = .mid → t.stage = false
  fin_stage : t.pc = .fin → t.stage = true
  done_stage : t.pc = .done → t.q.trivial = false → t.stage = true
  triv : t.q.trivial = true → t.pc ≠ .start → t.pc = .done ∧ t.acc = []

theorem tinv_init (env : Env R Re) (q : Query) : TInv env (Thread.init q) := by
  refine ⟨fun h => absurd rfl h, ?_, ?_, ?_, ?_, ?_, ?_, ?_, fun _ h => absurd rfl h⟩ <;> simp [Thread.init]

/-- A thread that has started and is not finished runs a non-trivial query. -/
theorem TInv.nontriv {env : Env R Re} {t : Thread R} (ht : TInv env t) (hs : t.pc ≠ .start) (hd : t.pc ≠ .done) :
    t.q.trivial = false := by
  cases h : t.q.trivial with
  | false => rfl
  | true => exact absurd (ht.triv h hs).1 hd

theorem tinv_advance {env : Env R Re} {t : Thread R} (h : t.req = env.reqOf t.q) (hq : t.q.trivial = false) :
    TInv env t.advance := by
  refine ⟨fun _ _ => by simpa using h, ?_, ?_, ?_, ?_, ?_, ?_, ?_, ?_⟩
  · intro src idx r; unfold Thread.advance; split <;> (try split) <;> simp
  · intro src idx r; unfold Thread.advance; split <;> (try split) <;> simp
  · intro it r; unfold Thread.advance; split <;> (try split) <;> simp
  · unfold Thread.advance; split
    · next h' => split <;> (intro _; simpa using h')
    · simp
    · simp
  · unfold Thread.advance; split
    · split
      · simp
      · next hs => intro _; simpa using hs
    · simp
    · simp
  · unfold Thread.advance; split
    · split
      · next hs => intro _; simpa using hs
      · simp
    · simp
    · simp
  · intro hd; exact absurd hd (advance_pc_ne_done t)
  · intro ht; rw [advance_q, hq] at ht; cases ht

end UF.Prog

import UF.Model.Prog
/-
  Helper lemmas about the Prog model (C13, C14, C19): the shared-state invariant `CacheInv`, the
  thread-local invariant `TInv`, and the bookkeeping quantity `total` (what a thread has collected +
  what its pending candidate and the remaining candidates contribute according to `truth`).
  The rely/guarantee structure: `TInv` and `total` mention only thread-local data and `truth`;
  the only fact about the shared state a thread relies on is `CacheInv`, which every action of every
  thread preserves.
-/
namespace UF.Prog
variable {R : Type}

/-- No per-request data survives the refill of a pooled request. -/
theorem fill_overwrites' (etld1 : Bytes → Bytes) (old : Request) (d : DReq) :
    fillFromPool etld1 old d = fillFromPool etld1 default d := by
  simp only [fillFromPool, fillRequestForHostname]

/-- The cache only holds what the lists hold. -/
def CacheInv (env : Env R) (s : State R) : Prop :=
  ∀ idx r, (idx, r) ∈ s.cache → env.truth idx = some r

theorem cacheLookup_mem {c : List (Idx × R)} {idx : Idx} {r : R} (h : cacheLookup c idx = some r) :
    (idx, r) ∈ c := by
  unfold cacheLookup at h
  split at h
  · next e he =>
    have h1 := List.mem_of_find?_eq_some he
    have h2 := List.find?_some he
    simp at h2 h
    subst h2; subst h
    exact h1
  · simp at h

theorem mem_cacheInsert {c : List (Idx × R)} {idx i : Idx} {r x : R} (h : (i, x) ∈ cacheInsert c idx r) :
    (i = idx ∧ x = r) ∨ (i, x) ∈ c := by
  simp [cacheInsert] at h
  rcases h with h | h
  · exact Or.inl h
  · exact Or.inr h.1

theorem cacheLookup_insert_isSome {c : List (Idx × R)} {idx i : Idx} {r : R}
    (h : (cacheLookup c i).isSome) : (cacheLookup (cacheInsert c idx r) i).isSome := by
  by_cases hi : idx = i
  · subst hi; simp [cacheLookup, cacheInsert]
  · unfold cacheLookup cacheInsert at *
    rw [List.find?_cons_of_neg (by simpa using hi)]
    have : (List.find? (fun e => e.1 == i) (List.filter (fun e => e.1 != idx) c)) =
        List.find? (fun e => e.1 == i) c := by
      clear h
      induction c with
      | nil => rfl
      | cons a t ih =>
        by_cases ha : a.1 = idx
        · have hne : (a.1 == i) = false := by
            simp only [beq_eq_false_iff_ne, ne_eq]; exact fun h => hi (ha ▸ h)
          have hf : (a.1 != idx) = false := by simp [ha]
          rw [List.filter_cons, hf, List.find?_cons, hne]; simpa using ih
        · have hf : (a.1 != idx) = true := by simp [ha]
          rw [List.filter_cons, hf]; simp only [if_true, List.find?_cons, ih]
    rw [this]; exact h

/-! ### what a candidate contributes -/

theorem pureStorage_nil (env : Env R) (req : Request) : pureStorage env req [] = [] := rfl

theorem pureStorage_cons (env : Env R) (req : Request) (i : Idx) (rest : List Idx) :
    pureStorage env req (i :: rest) = pureStorage env req [i] ++ pureStorage env req rest := by
  simp only [pureStorage, List.filterMap_cons, List.filterMap_nil]
  cases env.truth i with
  | none => simp
  | some v => simp only [List.filter_cons]; split <;> simp

/-- the contribution of a retrieved rule -/
def one (env : Env R) (req : Request) (r : R) : List R := if env.mtch r req then [r] else []

theorem pureStorage_single_some {env : Env R} {req : Request} {i : Idx} {r : R} (h : env.truth i = some r) :
    pureStorage env req [i] = one env req r := by
  simp [pureStorage, h, one, List.filter_cons]

theorem pureStorage_single_none {env : Env R} {req : Request} {i : Idx} (h : env.truth i = none) :
    pureStorage env req [i] = [] := by
  simp [pureStorage, h]

/-- what the candidate in progress will contribute -/
def pend (env : Env R) (t : Thread R) : List R :=
  match t.pc with
  | .get idx => pureStorage env t.req [idx]
  | .read idx => pureStorage env t.req [idx]
  | .put _ r => one env t.req r
  | .comp r => one env t.req r
  | _ => []

/-- collected so far ++ pending ++ still to do (all according to `truth`) -/
def total (env : Env R) (t : Thread R) : List R :=
  t.acc ++ pend env t ++ pureStorage env t.req t.todo

theorem total_advance (env : Env R) (t : Thread R) :
    total env t.advance = t.acc ++ pureStorage env t.req t.todo := by
  unfold Thread.advance
  cases h : t.todo with
  | nil => simp [total, pend, pureStorage_nil]
  | cons i rest => simp [total, pend, pureStorage_cons env t.req i rest]

@[simp] theorem advance_q (t : Thread R) : t.advance.q = t.q := by
  unfold Thread.advance; split <;> rfl
@[simp] theorem advance_req (t : Thread R) : t.advance.req = t.req := by
  unfold Thread.advance; split <;> rfl
@[simp] theorem advance_acc (t : Thread R) : t.advance.acc = t.acc := by
  unfold Thread.advance; split <;> rfl

/-- Thread-local invariant. -/
structure TInv (env : Env R) (t : Thread R) : Prop where
  req_eq : t.pc ≠ .start → t.req = env.reqOf t.q
  put_ok : ∀ idx r, t.pc = .put idx r → env.truth idx = some r
  fin_todo : t.pc = .fin ∨ t.pc = .done → t.todo = []

theorem tinv_init (env : Env R) (q : Query) : TInv env (Thread.init q) :=
  ⟨fun h => absurd rfl h, fun _ _ h => by simp [Thread.init] at h, fun h => by simp [Thread.init] at h⟩

theorem advance_pc_ne_start (t : Thread R) : t.advance.pc ≠ .start := by
  unfold Thread.advance; split <;> simp

theorem tinv_advance {env : Env R} {t : Thread R} (h : t.req = env.reqOf t.q) : TInv env t.advance := by
  refine ⟨fun _ => by simpa using h, ?_, ?_⟩
  · intro idx r; unfold Thread.advance; split <;> simp
  · unfold Thread.advance; split
    · next h' => intro _; simpa using h'
    · simp

end UF.Prog

import UF.Proofs.TrimSpace
/-
  `strings.TrimSpace` is idempotent (so the text of a rule, which is a trimmed line, is a fixed
  point -- the parser assumption `TrimsFirst` is satisfiable by parsers that look at the text).
-/
namespace UF

theorem trimLeftU_one {c : UInt8} (hc : asciiSp c = false) : trimLeftU [c] = [c] := by
  rw [trimLeftU.eq_def]; simp [hc]
theorem trimLeftU_two {c d : UInt8} (hc : asciiSp c = false) (hu : uni2 c d = false) : trimLeftU [c, d] = [c, d] := by
  rw [trimLeftU.eq_def]; simp [hc, hu]
theorem trimLeftU_uni2 {c d : UInt8} (hc : asciiSp c = false) (hu : uni2 c d = true) (x : Bytes) :
    trimLeftU (c :: d :: x) = trimLeftU x := by
  rw [trimLeftU.eq_def]; simp [hc, hu]
theorem trimLeftU_uni3 {c d e : UInt8} (hc : asciiSp c = false) (hu : uni2 c d = false) (h3 : uni3 c d e = true)
    (x : Bytes) : trimLeftU (c :: d :: e :: x) = trimLeftU x := by
  rw [trimLeftU.eq_def]; simp [hc, hu, h3]
theorem trimLeftU_three {c d e : UInt8} (hc : asciiSp c = false) (hu : uni2 c d = false) (h3 : uni3 c d e = false)
    (x : Bytes) : trimLeftU (c :: d :: e :: x) = c :: d :: e :: x := by
  rw [trimLeftU.eq_def]; simp [hc, hu, h3]

theorem trimRevU_one {c : UInt8} (hc : asciiSp c = false) : trimRevU [c] = [c] := by
  rw [trimRevU.eq_def]; simp [hc]
theorem trimRevU_two {c d : UInt8} (hc : asciiSp c = false) (hu : uni2 d c = false) : trimRevU [c, d] = [c, d] := by
  rw [trimRevU.eq_def]; simp [hc, hu]
theorem trimRevU_uni2 {c d : UInt8} (hc : asciiSp c = false) (hu : uni2 d c = true) (x : Bytes) :
    trimRevU (c :: d :: x) = trimRevU x := by
  rw [trimRevU.eq_def]; simp [hc, hu]
theorem trimRevU_uni3 {c d e : UInt8} (hc : asciiSp c = false) (hu : uni2 d c = false) (h3 : uni3 e d c = true)
    (x : Bytes) : trimRevU (c :: d :: e :: x) = trimRevU x := by
  rw [trimRevU.eq_def]; simp [hc, hu, h3]
theorem trimRevU_three {c d e : UInt8} (hc : asciiSp c = false) (hu : uni2 d c = false) (h3 : uni3 e d c = false)
    (x : Bytes) : trimRevU (c :: d :: e :: x) = c :: d :: e :: x := by
  rw [trimRevU.eq_def]; simp [hc, hu, h3]

theorem trimLeftU_length_le (s : Bytes) : (trimLeftU s).length ≤ s.length := by
  induction s using trimLeftU.induct with
  | case1 => simp [trimLeftU]
  | case2 c r hc ih => rw [trimLeftU_sp hc]; simp; omega
  | case3 c hc => rw [trimLeftU_one (by simpa using hc)]; simp
  | case4 c hc d r2 hu ih => rw [trimLeftU_uni2 (by simpa using hc) hu]; simp; omega
  | case5 c hc d hu => rw [trimLeftU_two (by simpa using hc) (by simpa using hu)]; simp
  | case6 c hc d hu e r3 h3 ih => rw [trimLeftU_uni3 (by simpa using hc) (by simpa using hu) h3]; simp; omega
  | case7 c hc d hu e r3 h3 => rw [trimLeftU_three (by simpa using hc) (by simpa using hu) (by simpa using h3)]; simp

theorem trimLeftU_idem (s : Bytes) : trimLeftU (trimLeftU s) = trimLeftU s := by
  induction s using trimLeftU.induct with
  | case1 => simp [trimLeftU]
  | case2 c r hc ih => rw [trimLeftU_sp hc]; exact ih
  | case3 c hc => rw [trimLeftU_one (by simpa using hc), trimLeftU_one (by simpa using hc)]
  | case4 c hc d r2 hu ih => rw [trimLeftU_uni2 (by simpa using hc) hu]; exact ih
  | case5 c hc d hu =>
    rw [trimLeftU_two (by simpa using hc) (by simpa using hu), trimLeftU_two (by simpa using hc) (by simpa using hu)]
  | case6 c hc d hu e r3 h3 ih => rw [trimLeftU_uni3 (by simpa using hc) (by simpa using hu) h3]; exact ih
  | case7 c hc d hu e r3 h3 =>
    rw [trimLeftU_three (by simpa using hc) (by simpa using hu) (by simpa using h3),
      trimLeftU_three (by simpa using hc) (by simpa using hu) (by simpa using h3)]

theorem trimRevU_idem (s : Bytes) : trimRevU (trimRevU s) = trimRevU s := by
  induction s using trimRevU.induct with
  | case1 => simp [trimRevU]
  | case2 c r hc ih => rw [trimRevU_sp hc]; exact ih
  | case3 c hc => rw [trimRevU_one (by simpa using hc), trimRevU_one (by simpa using hc)]
  | case4 c hc d r2 hu ih => rw [trimRevU_uni2 (by simpa using hc) hu]; exact ih
  | case5 c hc d hu =>
    rw [trimRevU_two (by simpa using hc) (by simpa using hu), trimRevU_two (by simpa using hc) (by simpa using hu)]
  | case6 c hc d hu e r3 h3 ih => rw [trimRevU_uni3 (by simpa using hc) (by simpa using hu) h3]; exact ih
  | case7 c hc d hu e r3 h3 =>
    rw [trimRevU_three (by simpa using hc) (by simpa using hu) (by simpa using h3),
      trimRevU_three (by simpa using hc) (by simpa using hu) (by simpa using h3)]

/-- `trimRevU z` is a suffix of `z`. -/
theorem trimRevU_suffix (s : Bytes) : ∃ p, s = p ++ trimRevU s := by
  induction s using trimRevU.induct with
  | case1 => exact ⟨[], rfl⟩
  | case2 c r hc ih => obtain ⟨p, hp⟩ := ih; rw [trimRevU_sp hc]; exact ⟨c :: p, by rw [List.cons_append, ← hp]⟩
  | case3 c hc => rw [trimRevU_one (by simpa using hc)]; exact ⟨[], rfl⟩
  | case4 c hc d r2 hu ih =>
    obtain ⟨p, hp⟩ := ih; rw [trimRevU_uni2 (by simpa using hc) hu]
    exact ⟨c :: d :: p, by rw [List.cons_append, List.cons_append, ← hp]⟩
  | case5 c hc d hu => rw [trimRevU_two (by simpa using hc) (by simpa using hu)]; exact ⟨[], rfl⟩
  | case6 c hc d hu e r3 h3 ih =>
    obtain ⟨p, hp⟩ := ih; rw [trimRevU_uni3 (by simpa using hc) (by simpa using hu) h3]
    exact ⟨c :: d :: e :: p, by simp only [List.cons_append]; rw [← hp]⟩
  | case7 c hc d hu e r3 h3 =>
    rw [trimRevU_three (by simpa using hc) (by simpa using hu) (by simpa using h3)]; exact ⟨[], rfl⟩

/-- `trimRightU x` is a prefix of `x`. -/
theorem trimRightU_prefix (x : Bytes) : ∃ p, x = trimRightU x ++ p := by
  obtain ⟨p, hp⟩ := trimRevU_suffix x.reverse
  refine ⟨p.reverse, ?_⟩
  have := congrArg List.reverse hp
  simpa [trimRightU] using this

/-- A prefix of a left-trimmed string is left-trimmed. -/
theorem trimLeftU_fix_prefix (y p : Bytes) (h : trimLeftU (y ++ p) = y ++ p) : trimLeftU y = y := by
  have hlen := fun s => trimLeftU_length_le s
  match y with
  | [] => simp [trimLeftU]
  | c :: r =>
    have hc : asciiSp c = false := by
      cases hc : asciiSp c with
      | false => rfl
      | true =>
        rw [List.cons_append, trimLeftU_sp hc] at h
        have := hlen (r ++ p); rw [h] at this; simp at this; omega
    match r with
    | [] => exact trimLeftU_one hc
    | d :: r2 =>
      have hu : uni2 c d = false := by
        cases hu : uni2 c d with
        | false => rfl
        | true =>
          simp only [List.cons_append] at h
          rw [trimLeftU_uni2 hc hu] at h
          have := hlen (r2 ++ p); rw [h] at this; simp at this; omega
      match r2 with
      | [] => exact trimLeftU_two hc hu
      | e :: r3 =>
        have h3 : uni3 c d e = false := by
          cases h3 : uni3 c d e with
          | false => rfl
          | true =>
            simp only [List.cons_append] at h
            rw [trimLeftU_uni3 hc hu h3] at h
            have := hlen (r3 ++ p); rw [h] at this; simp at this; omega
        exact trimLeftU_three hc hu h3 r3

theorem trimSpaceRef_idem (s : Bytes) : trimSpaceRef (trimSpaceRef s) = trimSpaceRef s := by
  unfold trimSpaceRef
  obtain ⟨p, hp⟩ := trimRightU_prefix (trimLeftU s)
  have h1 : trimLeftU (trimRightU (trimLeftU s)) = trimRightU (trimLeftU s) := by
    apply trimLeftU_fix_prefix _ p
    rw [← hp, trimLeftU_idem]
  rw [h1]
  unfold trimRightU
  rw [List.reverse_reverse, trimRevU_idem]

/-- `strings.TrimSpace(strings.TrimSpace(s)) == strings.TrimSpace(s)`. -/
theorem trimSpace_idem (s : Bytes) : trimSpace (trimSpace s) = trimSpace s := by
  rw [trimSpace_eq_ref, trimSpace_eq_ref, trimSpaceRef_idem]

end UF

import UF.Proofs.LookupBytes
/-
  Lemmas about the three lookup tables, for an ARBITRARY pair of hash functions.
-/
namespace UF.B
open UF UF.Bytes

/-! ### Generic fold lemmas -/

theorem foldl_inv {α β} (f : β → α → β) (P : β → Prop) (l : List α) (b : β) (hb : P b)
    (hstep : ∀ b a, a ∈ l → P b → P (f b a)) : P (l.foldl f b) := by
  induction l generalizing b with
  | nil => exact hb
  | cons a l ih =>
    exact ih _ (hstep b a (by simp) hb) (fun b a' ha' => hstep b a' (by simp [ha']))

theorem foldl_reach {α β} (f : β → α → β) (P : β → Prop) (l : List α) (b : β) (a0 : α) (ha : a0 ∈ l)
    (hhit : ∀ b, P (f b a0)) (hmono : ∀ b a, P b → P (f b a)) : P (l.foldl f b) := by
  induction l generalizing b with
  | nil => cases ha
  | cons a l ih =>
    rcases List.mem_cons.1 ha with rfl | h
    · exact foldl_inv f P l _ (hhit b) (fun b a _ => hmono b a)
    · exact ih _ h

/-! ### Maps -/

@[simp] theorem hget_hset {α} (d : α) (m : HMap α) (k : UInt32) (v : α) (x : UInt32) :
    hget d (hset m k v) x = if x = k then v else hget d m x := rfl

theorem mem_pushIdx (m : HMap (List Idx)) (k : UInt32) (idx i : Idx) (x : UInt32) :
    i ∈ hget [] (pushIdx m k idx) x ↔ i ∈ hget [] m x ∨ (x = k ∧ i = idx) := by
  unfold pushIdx
  rw [hget_hset]
  by_cases h : x = k
  · subst h; simp
  · simp [h]

theorem mem_foldl_pushIdx (h : Bytes → UInt32) (idx : Idx) (ds : List Bytes) (m : HMap (List Idx))
    (i : Idx) (x : UInt32) :
    i ∈ hget [] (ds.foldl (fun lk d => pushIdx lk (h d) idx) m) x ↔
      i ∈ hget [] m x ∨ (i = idx ∧ ∃ d ∈ ds, x = h d) := by
  induction ds generalizing m with
  | nil => simp
  | cons d ds ih =>
    simp only [List.foldl_cons, ih, mem_pushIdx, List.mem_cons, exists_eq_or_imp]
    constructor
    · rintro ((h1 | ⟨h1, h2⟩) | ⟨h1, h2⟩)
      · exact Or.inl h1
      · exact Or.inr ⟨h2, Or.inl h1⟩
      · exact Or.inr ⟨h1, Or.inr h2⟩
    · rintro (h1 | ⟨h1, h2 | h2⟩)
      · exact Or.inl (Or.inl h1)
      · exact Or.inl (Or.inr ⟨h2, h1⟩)
      · exact Or.inr ⟨h1, h2⟩

/-! ### The shortcut selection loop -/

theorem pickShortcut_aux (h : Bytes → UInt32) (hist : HMap Nat) (scs : List Bytes) (acc : UInt32 × Nat) :
    let p := scs.foldl (fun acc sc => if hget 0 hist (h sc) < acc.2 then (h sc, hget 0 hist (h sc)) else acc) acc
    p = acc ∨ ∃ w ∈ scs, p = (h w, hget 0 hist (h w)) := by
  induction scs generalizing acc with
  | nil => simp
  | cons w ws ih =>
    simp only [List.foldl_cons]
    rcases ih (if hget 0 hist (h w) < acc.2 then (h w, hget 0 hist (h w)) else acc) with h1 | ⟨w', hw', h1⟩
    · by_cases hc : hget 0 hist (h w) < acc.2
      · right; exact ⟨w, by simp, by simpa [hc] using h1⟩
      · left; simpa [hc] using h1
    · right; exact ⟨w', by simp [hw'], h1⟩

/-- With fewer than `MaxInt32` entries behind every histogram count the loop selects the hash of
    one of the windows (never the initial `0`). -/
theorem pickShortcut_mem (h : Bytes → UInt32) (hist : HMap Nat) (scs : List Bytes) (hne : scs ≠ [])
    (hb : ∀ x, hget 0 hist x < maxInt32) :
    ∃ w ∈ scs, pickShortcut h hist scs = (h w, hget 0 hist (h w)) := by
  cases scs with
  | nil => exact absurd rfl hne
  | cons w ws =>
    unfold pickShortcut
    simp only [List.foldl_cons, hb (h w), if_true]
    rcases pickShortcut_aux h hist ws (h w, hget 0 hist (h w)) with h1 | ⟨w', hw', h1⟩
    · exact ⟨w, by simp, h1⟩
    · exact ⟨w', by simp [hw'], h1⟩

theorem ruleShortcuts_sub (k : Nat) (r : NetRule) (w : Bytes) (h : w ∈ ruleShortcuts k r) :
    w ∈ windows k r.shortcut := by
  unfold ruleShortcuts at h
  split at h
  · cases h
  · split at h
    · cases h
    · exact h

/-! ### `ShortcutsTable.MatchAll` -/

theorem scStep_mono (retrieve : Idx → Option NetRule) (m : NetRule → Bool) (res : List (Idx × NetRule))
    (idx : Idx) (x : Idx × NetRule) (h : x ∈ res) : x ∈ scStep retrieve m res idx := by
  unfold scStep
  split
  · exact h
  · split
    · exact h
    · simp [h]

theorem ruleIn_iff (idx : Idx) (res : List (Idx × NetRule)) :
    ruleIn idx res = true ↔ ∃ r, (idx, r) ∈ res := by
  simp only [ruleIn, List.any_eq_true, beq_iff_eq]
  constructor
  · rintro ⟨⟨i, r⟩, hm, rfl⟩; exact ⟨r, hm⟩
  · rintro ⟨r, hm⟩; exact ⟨(idx, r), hm, rfl⟩

theorem scStep_hit (retrieve : Idx → Option NetRule) (m : NetRule → Bool) (res : List (Idx × NetRule))
    (idx : Idx) (r : NetRule) (hr : retrieve idx = some r) (hm : m r = true) :
    ∃ r', (idx, r') ∈ scStep retrieve m res idx := by
  unfold scStep
  rw [hr]
  simp only [hm, Bool.not_true, Bool.or_false]
  by_cases hin : ruleIn idx res = true
  · simp only [hin, if_true]; exact (ruleIn_iff _ _).1 hin
  · simp only [hin]; exact ⟨r, by simp⟩

theorem scStep_sound (retrieve : Idx → Option NetRule) (m : NetRule → Bool) (Q : Idx × NetRule → Prop)
    (res : List (Idx × NetRule)) (idx : Idx) (hres : ∀ x ∈ res, Q x)
    (hnew : ∀ r, retrieve idx = some r → m r = true → Q (idx, r)) :
    ∀ x ∈ scStep retrieve m res idx, Q x := by
  unfold scStep
  split
  · exact hres
  · rename_i r hr
    split
    · exact hres
    · rename_i hc
      intro x hx
      rcases List.mem_append.1 hx with h | h
      · exact hres x h
      · simp only [List.mem_singleton] at h
        subst h
        apply hnew r hr
        simp only [Bool.or_eq_true, Bool.not_eq_true', not_or] at hc
        simpa using hc.2

/-- Completeness of the window loop: a bucket entry under the hash of ANY visited window
    (`0 ≤ j ≤ len-k`, the last one included) that retrieves a matching rule is reported. -/
theorem sc_matchAllG_complete (hf : HashFns) (k : Nat) (retrieve : Idx → Option NetRule)
    (m : NetRule → Bool) (url : Bytes) (t : ShortcutsTable) (j : Nat) (hj : j + k ≤ url.length)
    (idx : Idx) (hidx : idx ∈ hget [] t.lookup (hf.hb url j (j + k)))
    (r : NetRule) (hr : retrieve idx = some r) (hm : m r = true) :
    ∃ r', (idx, r') ∈ t.matchAllG hf k retrieve m url := by
  unfold ShortcutsTable.matchAllG
  apply foldl_reach _ (fun res => ∃ r', (idx, r') ∈ res) _ _ j (List.mem_range.2 (by omega))
  · intro res
    apply foldl_reach _ (fun res => ∃ r', (idx, r') ∈ res) _ _ idx hidx
    · intro res; exact scStep_hit retrieve m res idx r hr hm
    · rintro res a ⟨r', h⟩; exact ⟨r', scStep_mono _ _ _ _ _ h⟩
  · rintro res i ⟨r', h⟩
    exact foldl_inv _ (fun res => ∃ r', (idx, r') ∈ res) _ _ ⟨r', h⟩
      (fun res a _ ⟨r', h⟩ => ⟨r', scStep_mono _ _ _ _ _ h⟩)

/-- Soundness of the window loop: everything reported was retrieved from a bucket and re-matched. -/
theorem sc_matchAllG_sound (hf : HashFns) (k : Nat) (retrieve : Idx → Option NetRule)
    (m : NetRule → Bool) (url : Bytes) (t : ShortcutsTable) :
    ∀ x ∈ t.matchAllG hf k retrieve m url,
      retrieve x.1 = some x.2 ∧ m x.2 = true ∧ ∃ hs, x.1 ∈ hget [] t.lookup hs := by
  unfold ShortcutsTable.matchAllG
  let P : List (Idx × NetRule) → Prop := fun res =>
    ∀ x ∈ res, retrieve x.1 = some x.2 ∧ m x.2 = true ∧ ∃ hs, x.1 ∈ hget [] t.lookup hs
  show P _
  apply foldl_inv _ P
  · intro x hx; cases hx
  · intro res i _ hres
    apply foldl_inv _ P _ _ hres
    intro res idx hidx hres
    exact scStep_sound retrieve m _ res idx hres (fun r hr hm => ⟨hr, hm, _, hidx⟩)

/-! ### `DomainsTable.MatchAll` -/

theorem mem_dom_matchAllG (hf : HashFns) (retrieve : Idx → Option NetRule) (m : NetRule → Bool)
    (src : Bytes) (t : DomainsTable) (r : NetRule) :
    r ∈ t.matchAllG hf retrieve m src ↔
      src ≠ [] ∧ ∃ d ∈ getSubdomains src, ∃ idx ∈ hget [] t.lookup (hf.h d), retrieve idx = some r ∧ m r = true := by
  unfold DomainsTable.matchAllG
  by_cases hs : src = []
  · simp [hs]
  · have : src.isEmpty = false := by cases src <;> simp_all
    simp only [this, Bool.false_eq_true, if_false, List.mem_flatMap, List.mem_filterMap, ne_eq, hs,
      not_false_eq_true, true_and]
    constructor
    · rintro ⟨d, hd, idx, hidx, hrm⟩
      refine ⟨d, hd, idx, hidx, ?_⟩
      unfold retrieveMatching at hrm
      split at hrm
      · rename_i r' hr'
        split at hrm
        · rename_i hm; cases hrm; exact ⟨hr', hm⟩
        · cases hrm
      · cases hrm
    · rintro ⟨d, hd, idx, hidx, hr, hm⟩
      exact ⟨d, hd, idx, hidx, by simp [retrieveMatching, hr, hm]⟩

end UF.B

import UF.Proofs.ProgBasic
/-
  One atomic action (`step`): what it preserves.  Every lemma is by cases on the program counter.
-/
namespace UF.Prog
variable {R : Type}

theorem step_q (env : Env R) (s : State R) (t : Thread R) : (step env s t).2.q = t.q := by
  rcases t with ⟨q, pc, req, todo, acc⟩
  cases pc with
  | start => cases q <;> simp [step]
  | get idx => simp only [step]; split <;> rfl
  | read idx => simp only [step]; split <;> (try split) <;> simp
  | put idx r => simp only [step]; split <;> rfl
  | comp r => simp only [step]; split <;> simp
  | fin => cases q <;> rfl
  | done => rfl

theorem step_closed (env : Env R) (s : State R) (t : Thread R) : (step env s t).1.closed = s.closed := by
  rcases t with ⟨q, pc, req, todo, acc⟩
  cases pc with
  | start => cases q <;> simp [step]
  | get idx => simp only [step]; split <;> rfl
  | read idx => simp only [step]; split <;> (try split) <;> rfl
  | put idx r => simp only [step]; split <;> rfl
  | comp r => simp only [step]; split <;> rfl
  | fin => cases q <;> rfl
  | done => rfl

theorem step_pc_ne_start (env : Env R) (s : State R) (t : Thread R) : (step env s t).2.pc ≠ .start := by
  rcases t with ⟨q, pc, req, todo, acc⟩
  cases pc with
  | start => cases q <;> simp [step, advance_pc_ne_start]
  | get idx => simp only [step]; split <;> simp
  | read idx => simp only [step]; split <;> (try split) <;> simp [advance_pc_ne_start]
  | put idx r => simp only [step]; split <;> simp
  | comp r => simp only [step]; exact advance_pc_ne_start _
  | fin => cases q <;> simp [step]
  | done => simp [step]

/-- Guarantee: every action of every thread preserves the cache invariant. -/
theorem step_cacheInv {env : Env R} {s : State R} {t : Thread R} (hc : CacheInv env s) (ht : TInv env t) :
    CacheInv env (step env s t).1 := by
  rcases t with ⟨q, pc, req, todo, acc⟩
  cases pc with
  | start => cases q <;> exact hc
  | get idx => simp only [step]; split <;> exact hc
  | read idx => simp only [step]; split <;> (try split) <;> exact hc
  | put idx r =>
    simp only [step]; split
    · exact hc
    · intro i x hm
      rcases mem_cacheInsert hm with ⟨h1, h2⟩ | h
      · subst h1; subst h2; exact ht.put_ok _ _ rfl
      · exact hc i x h
  | comp r => simp only [step]; split <;> exact hc
  | fin => cases q <;> exact hc
  | done => exact hc

/-- The thread-local invariant is preserved (relying only on `CacheInv` of the shared state). -/
theorem step_tinv {env : Env R} {s : State R} {t : Thread R} (ht : TInv env t) :
    TInv env (step env s t).2 := by
  rcases t with ⟨q, pc, req, todo, acc⟩
  cases pc with
  | start =>
    cases q with
    | dns d =>
      simp only [step]
      exact tinv_advance (by simp [Env.reqOf]; exact fill_overwrites' _ _ _)
    | web r => simp only [step]; exact tinv_advance (by simp [Env.reqOf])
  | get idx =>
    have hr := ht.req_eq (by simp)
    simp only [step]; split <;> exact ⟨fun _ => hr, by simp, by simp⟩
  | read idx =>
    have hr := ht.req_eq (by simp)
    simp only [step]; split
    · exact tinv_advance hr
    · split
      · next r h => exact ⟨fun _ => hr, by intro i x hx; simp at hx; rw [← hx.1, ← hx.2]; exact h, by simp⟩
      · exact tinv_advance hr
  | put idx r =>
    have hr := ht.req_eq (by simp)
    simp only [step]; split <;> exact ⟨fun _ => hr, by simp, by simp⟩
  | comp r =>
    have hr := ht.req_eq (by simp)
    simp only [step]; apply tinv_advance; split <;> exact hr
  | fin =>
    have hr := ht.req_eq (by simp)
    have hd := ht.fin_todo (Or.inl rfl)
    cases q <;> exact ⟨fun _ => hr, by simp [step], fun _ => hd⟩
  | done => exact ht

/-- The first action: the refilled request is the one a fresh engine would build, and the thread's
    bookkeeping starts at the stateless answer. -/
theorem step_total_start (env : Env R) (s : State R) (t : Thread R) (h : t.pc = .start) :
    total env (step env s t).2 = pureStorage env (env.reqOf t.q) (env.cands (env.reqOf t.q)) := by
  rcases t with ⟨q, pc, req, todo, acc⟩
  simp at h; subst h
  cases q with
  | dns d => simp only [step, total_advance, Env.reqOf, fill_overwrites' env.etld1 _ d]; simp
  | web r => simp only [step, total_advance, Env.reqOf]; simp

/-- Every later action leaves `total` unchanged, except a failed read of a closed list, which drops the
    pending candidate. -/
theorem step_total {env : Env R} {s : State R} {t : Thread R} (hc : CacheInv env s) (ht : TInv env t)
    (hs : t.pc ≠ .start) :
    total env (step env s t).2 = total env t ∨
      (s.closed ≠ [] ∧ (total env (step env s t).2).Sublist (total env t)) := by
  rcases t with ⟨q, pc, req, todo, acc⟩
  cases pc with
  | start => exact absurd rfl hs
  | get idx =>
    left
    simp only [step]; split
    · next r h =>
      have := hc _ _ (cacheLookup_mem h)
      simp [total, pend, pureStorage_single_some this]
    · simp [total, pend]
  | read idx =>
    simp only [step]; split
    · next h =>
      right
      refine ⟨by intro h0; simp [h0] at h, ?_⟩
      rw [total_advance]; simp only [total, pend]
      exact List.Sublist.append (List.sublist_append_left _ _) (List.Sublist.refl _)
    · left
      split
      · next r h => simp [total, pend, pureStorage_single_some h]
      · next h => rw [total_advance]; simp [total, pend, pureStorage_single_none h]
  | put idx r =>
    left
    simp only [step]; split
    · next r' h =>
      -- the object found in the cache is the rule of that index, like the one just read
      have h1 := hc _ _ (cacheLookup_mem h)
      have h2 := ht.put_ok _ _ rfl
      have : r' = r := Option.some.inj (h1.symm.trans h2)
      subst this; simp [total, pend]
    · simp [total, pend]
  | comp r =>
    left
    simp only [step, total_advance]
    by_cases hm : env.mtch r req <;> simp [hm, total, pend, one]
  | fin => left; cases q <;> simp [step, total, pend]
  | done => left; rfl

theorem step_req {env : Env R} {s : State R} {t : Thread R} (hs : t.pc ≠ .start) :
    (step env s t).2.req = t.req := by
  rcases t with ⟨q, pc, req, todo, acc⟩
  cases pc with
  | start => exact absurd rfl hs
  | get idx => simp only [step]; split <;> rfl
  | read idx => simp only [step]; split <;> (try split) <;> simp
  | put idx r => simp only [step]; split <;> rfl
  | comp r => simp only [step]; split <;> simp
  | fin => cases q <;> rfl
  | done => rfl

end UF.Prog

import UF.Proofs.ProgBasic
/-
  One atomic action (`step`): what it preserves.  Every lemma is by cases on the program counter.
-/
namespace UF.Prog
variable {R Re : Type}

/-- `step` with the thread taken apart (the shape all case analyses start from). -/
theorem step_def (env : Env R Re) (s : State R Re) (t : Thread R) : step env s t = stepG (fun _ => true) env s t := rfl

theorem step_q (env : Env R Re) (s : State R Re) (t : Thread R) : (step env s t).2.q = t.q := by
  rcases t with ⟨q, pc, req, todo, acc, stage⟩
  cases pc <;> simp only [step, stepG] <;> repeat' split
  all_goals simp

theorem step_closed (env : Env R Re) (s : State R Re) (t : Thread R) : (step env s t).1.closed = s.closed := by
  rcases t with ⟨q, pc, req, todo, acc, stage⟩
  cases pc <;> simp only [step, stepG] <;> repeat' split
  all_goals rfl

theorem step_pc_ne_start (env : Env R Re) (s : State R Re) (t : Thread R) : (step env s t).2.pc ≠ .start := by
  rcases t with ⟨q, pc, req, todo, acc, stage⟩
  cases pc <;> simp only [step, stepG] <;> repeat' split
  all_goals first | exact advance_pc_ne_start _ | simp

theorem step_req {env : Env R Re} {s : State R Re} {t : Thread R} (hs : t.pc ≠ .start) :
    (step env s t).2.req = t.req := by
  rcases t with ⟨q, pc, req, todo, acc, stage⟩
  cases pc <;> simp only [step, stepG] <;> repeat' split
  all_goals first | exact absurd rfl hs | simp

theorem step_stage {env : Env R Re} {s : State R Re} {t : Thread R} (hs : t.pc ≠ .start) (hm : t.pc ≠ .mid) :
    (step env s t).2.stage = t.stage := by
  rcases t with ⟨q, pc, req, todo, acc, stage⟩
  cases pc <;> simp only [step, stepG] <;> repeat' split
  all_goals first | exact absurd rfl hs | exact absurd rfl hm | simp

/-- The cache changes only by an insertion at a key that was absent. -/
theorem step_cache (env : Env R Re) (s : State R Re) (t : Thread R) :
    (step env s t).1.cache = s.cache ∨
      ∃ idx r, cacheLookup s.cache idx = none ∧ (step env s t).1.cache = cacheInsert s.cache idx r := by
  rcases t with ⟨q, pc, req, todo, acc, stage⟩
  cases pc with
  | put src idx r =>
    simp only [step, stepG]; split
    · left; rfl
    · next h => right; exact ⟨idx, r, h, rfl⟩
  | _ =>
    left
    simp only [step, stepG] <;> repeat' split
    all_goals rfl

/-- Guarantee: a cell that is set is never changed, by any action of any thread. -/
theorem step_cellsLe (env : Env R Re) (s : State R Re) (t : Thread R) : CellsLe s (step env s t).1 := by
  rcases t with ⟨q, pc, req, todo, acc, stage⟩
  cases pc with
  | prep it r =>
    simp only [step, stepG]
    split
    · exact CellsLe.refl _
    · exact CellsLe.refl _
    · next hcell =>
      split
      · exact CellsLe.refl _
      all_goals
        intro ob hob
        simp only [cellSet]
        split
        · next h => subst h; exact absurd hcell hob
        · rfl
  | _ =>
    simp only [step, stepG] <;> repeat' split
    all_goals exact CellsLe.refl _

/-- Guarantee: every action of every thread preserves the invariant of the shared state. -/
theorem step_sinv {env : Env R Re} {s : State R Re} {t : Thread R} (hs : SInv env s) (ht : TInv env t) :
    SInv env (step env s t).1 := by
  rcases t with ⟨q, pc, req, todo, acc, stage⟩
  cases pc with
  | put src idx r =>
    simp only [step, stepG]; split
    · exact hs
    · refine ⟨?_, hs.2⟩
      intro i x hm
      rcases mem_cacheInsert hm with ⟨h1, h2⟩ | h
      · subst h1; subst h2; exact ht.put_ok _ _ _ rfl
      · exact hs.1 i x h
  | prep it r =>
    have hob := (ht.prep_ok it r (Or.inl rfl)).1
    simp only [step, stepG]
    split
    · exact hs
    · exact hs
    · split
      · exact hs
      · next x hx =>
        refine ⟨hs.1, ?_⟩
        intro ob
        simp only [cellSet]
        split
        · next h => subst h; right; exact ⟨r, hob, by simp [hx, Comp.cell]⟩
        · exact hs.2 ob
      · next hx =>
        refine ⟨hs.1, ?_⟩
        intro ob
        simp only [cellSet]
        split
        · next h => subst h; right; exact ⟨r, hob, by simp [hx, Comp.cell]⟩
        · exact hs.2 ob
  | _ =>
    simp only [step, stepG] <;> repeat' split
    all_goals exact hs

theorem filter_some_eq {p : R → Bool} {r r' : R} (h : (some r).filter p = some r') : r' = r ∧ p r = true := by
  simp only [Option.filter] at h
  split at h
  · next hp => exact ⟨(Option.some.inj h).symm, hp⟩
  · cases h

/-- The thread-local invariant is preserved (relying only on `CacheInv` of the shared state). -/
theorem step_tinv {env : Env R Re} {s : State R Re} {t : Thread R} (hc : CacheInv env s) (ht : TInv env t) :
    TInv env (step env s t).2 := by
  rcases t with ⟨q, pc, req, todo, acc, stage⟩
  cases pc with
  | start =>
    cases q with
    | dns d =>
      simp only [step, stepG]
      split
      · next hd => constructor <;> simp_all [Query.trivial, Env.reqOf]
      · next hd =>
        exact tinv_advance (by simp [Env.reqOf]; exact fill_overwrites' _ _ _) (by simpa [Query.trivial] using hd)
    | web r => simp only [step, stepG]; exact tinv_advance (by simp [Env.reqOf]) rfl
  | get src idx =>
    have hq := ht.nontriv (by simp) (by simp)
    have hr := ht.req_eq (by simp) hq
    simp only [step, stepG]; split
    · next r h =>
      have htr := hc _ _ (cacheLookup_mem h)
      refine ⟨fun _ _ => hr, by simp, ?_, by simp, by simp, by simp, by simp, by simp, fun h => by rw [hq] at h; cases h⟩
      intro src' idx' r' h'
      simp only [PC.use.injEq] at h'
      obtain ⟨h1, h2, h3⟩ := h'
      obtain ⟨h4, h5⟩ := filter_some_eq h3
      subst h1; subst h2; subst h4
      exact ⟨htr, h5⟩
    · exact ⟨fun _ _ => hr, by simp, by simp, by simp, by simp, by simp, by simp, by simp, fun h => by rw [hq] at h; cases h⟩
  | read src idx =>
    have hq := ht.nontriv (by simp) (by simp)
    have hr := ht.req_eq (by simp) hq
    simp only [step, stepG]; split
    · exact ⟨fun _ _ => hr, by simp, by simp, by simp, by simp, by simp, by simp, by simp, fun h => by rw [hq] at h; cases h⟩
    · split
      · next r h =>
        refine ⟨fun _ _ => hr, ?_, by simp, by simp, by simp, by simp, by simp, by simp, fun h => by rw [hq] at h; cases h⟩
        intro src' idx' r' h'
        simp only [PC.put.injEq] at h'
        obtain ⟨_, h2, h3⟩ := h'
        subst h2; subst h3; exact h
      · exact ⟨fun _ _ => hr, by simp, by simp, by simp, by simp, by simp, by simp, by simp, fun h => by rw [hq] at h; cases h⟩
  | put src idx r =>
    have hq := ht.nontriv (by simp) (by simp)
    have hr := ht.req_eq (by simp) hq
    have hp := ht.put_ok _ _ _ rfl
    simp only [step, stepG]; split
    · next r' h =>
      have htr := hc _ _ (cacheLookup_mem h)
      refine ⟨fun _ _ => hr, by simp, ?_, by simp, by simp, by simp, by simp, by simp, fun h => by rw [hq] at h; cases h⟩
      intro src' idx' r'' h'
      simp only [PC.use.injEq] at h'
      obtain ⟨h1, h2, h3⟩ := h'
      obtain ⟨h4, h5⟩ := filter_some_eq h3
      subst h1; subst h2; subst h4
      exact ⟨htr, h5⟩
    · refine ⟨fun _ _ => hr, by simp, ?_, by simp, by simp, by simp, by simp, by simp, fun h => by rw [hq] at h; cases h⟩
      intro src' idx' r'' h'
      simp only [PC.use.injEq] at h'
      obtain ⟨h1, h2, h3⟩ := h'
      obtain ⟨h4, h5⟩ := filter_some_eq h3
      subst h1; subst h2; subst h4
      exact ⟨hp, h5⟩
  | use src idx o =>
    have hq := ht.nontriv (by simp) (by simp)
    have hr := ht.req_eq (by simp) hq
    simp only [step, stepG]
    cases o with
    | none => simp only [if_true]; exact tinv_advance hr hq
    | some r =>
      have hu := ht.use_ok _ _ _ rfl
      simp only
      split
      · exact tinv_advance hr hq
      · split
        · split <;> exact tinv_advance hr hq
        · split
          · next hpre =>
            refine ⟨fun _ _ => hr, by simp, by simp, ?_, by simp, by simp, by simp, by simp, fun h => by rw [hq] at h; cases h⟩
            intro it r' h'
            simp only [PC.prep.injEq, reduceCtorEq, or_false] at h'
            obtain ⟨h1, h2⟩ := h'
            subst h1; subst h2
            exact ⟨hu.1, hpre⟩
          · exact tinv_advance hr hq
  | seq k =>
    have hq := ht.nontriv (by simp) (by simp)
    have hr := ht.req_eq (by simp) hq
    simp only [step, stepG]
    split
    · exact tinv_advance hr hq
    · next r hk =>
      split
      · next hpre =>
        refine ⟨fun _ _ => hr, by simp, by simp, ?_, by simp, by simp, by simp, by simp, fun h => by rw [hq] at h; cases h⟩
        intro it r' h'
        simp only [PC.prep.injEq, reduceCtorEq, or_false] at h'
        obtain ⟨h1, h2⟩ := h'
        subst h1; subst h2
        exact ⟨hk, hpre⟩
      · exact tinv_advance hr hq
  | prep it r =>
    have hq := ht.nontriv (by simp) (by simp)
    have hr := ht.req_eq (by simp) hq
    have hp := ht.prep_ok it r (Or.inl rfl)
    have hrx : TInv env { q := q, pc := PC.rx it r, req := req, todo := todo, acc := acc, stage := stage } := by
      refine ⟨fun _ _ => hr, by simp, by simp, ?_, by simp, by simp, by simp, by simp, fun h => by rw [hq] at h; cases h⟩
      intro it' r' h'
      simp only [reduceCtorEq, PC.rx.injEq, false_or] at h'
      obtain ⟨h1, h2⟩ := h'
      subst h1; subst h2
      exact hp
    simp only [step, stepG]
    split
    · exact hrx
    · exact tinv_advance hr hq
    · split
      · exact tinv_advance hr hq
      · exact hrx
      · exact tinv_advance hr hq
  | rx it r =>
    have hq := ht.nontriv (by simp) (by simp)
    have hr := ht.req_eq (by simp) hq
    simp only [step, stepG]
    split
    · split <;> exact tinv_advance hr hq
    · constructor <;> simp_all
  | mid =>
    have hq := ht.nontriv (by simp) (by simp)
    have hr := ht.req_eq (by simp) hq
    simp only [step, stepG]
    exact tinv_advance hr hq
  | fin =>
    have hq := ht.nontriv (by simp) (by simp)
    have hr := ht.req_eq (by simp) hq
    have hd := ht.end_todo (Or.inr (Or.inl rfl))
    have hst := ht.fin_stage rfl
    cases q <;> simp only [step, stepG] <;>
      exact ⟨fun _ _ => hr, by simp, by simp, by simp, fun _ => hd,
        by simp, by simp, fun _ _ => hst, fun h => by rw [hq] at h; cases h⟩
  | done => exact ht
  | crash => exact ht

/-! ### `regex` read outside the lock -/

/-- What a thread about to call `f.regex.MatchString` relies on: the `regex` of that object is set. -/
def RxOK (s : State R Re) (t : Thread R) : Prop :=
  ∀ it r, t.pc = .rx it r → ∃ x, s.cells it.obj = .compiled x

/-- … and no action of any other thread can invalidate it. -/
theorem rxOK_mono {s s' : State R Re} {t : Thread R} (hle : CellsLe s s') (h : RxOK s t) : RxOK s' t := by
  intro it r hpc
  obtain ⟨x, hx⟩ := h it r hpc
  exact ⟨x, by rw [hle _ (by rw [hx]; simp), hx]⟩

theorem rxOK_advance (s : State R Re) (t : Thread R) : RxOK s t.advance := by
  intro it r; unfold Thread.advance; split <;> (try split) <;> simp

/-- The thread's own action establishes it: `rx` is entered only from `prep`, with the cell compiled. -/
theorem step_rxOK (env : Env R Re) (s : State R Re) (t : Thread R) : RxOK (step env s t).1 (step env s t).2 := by
  rcases t with ⟨q, pc, req, todo, acc, stage⟩
  cases pc with
  | prep it r =>
    simp only [step, stepG]
    split
    · next x hx =>
      intro it' r' h'
      simp only [PC.rx.injEq] at h'
      obtain ⟨h1, _⟩ := h'
      subst h1
      exact ⟨x, hx⟩
    · exact rxOK_advance _ _
    · split
      · exact rxOK_advance _ _
      · next x hx =>
        intro it' r' h'
        simp only [PC.rx.injEq] at h'
        obtain ⟨h1, _⟩ := h'
        subst h1
        exact ⟨x, by simp [cellSet]⟩
      · exact rxOK_advance _ _
  | _ =>
    simp only [step, stepG] <;> repeat' split
    all_goals first | exact rxOK_advance _ _ | (intro it r h; simp at h)

/-! ### the bookkeeping quantity is invariant -/

theorem cell_compiled {env : Env R Re} {s : State R Re} {ob : Obj} {r : R} {x : Re} (hci : CellInv env s)
    (hob : env.objRule ob = some r) (hx : s.cells ob = .compiled x) : env.compile r = .re x := by
  rcases hci ob with h | ⟨r', hr', hc⟩
  · rw [hx] at h; cases h
  · rw [hob] at hr'; cases hr'
    rw [hx] at hc
    cases hcr : env.compile r <;> simp [hcr, Comp.cell] at hc
    subst hc; rfl

theorem cell_invalid {env : Env R Re} {s : State R Re} {ob : Obj} {r : R} (hci : CellInv env s)
    (hob : env.objRule ob = some r) (hx : s.cells ob = .invalid) : env.compile r = .bad := by
  rcases hci ob with h | ⟨r', hr', hc⟩
  · rw [hx] at h; cases h
  · rw [hob] at hr'; cases hr'
    rw [hx] at hc
    cases hcr : env.compile r <;> simp [hcr, Comp.cell] at hc
    rfl

theorem verdict_not_host (env : Env R Re) {src : Src} (h : (src == Src.host) = false) (r : R) (req : Request) :
    env.verdict src r req = env.mtch r req := by
  simp [Env.verdict, h]

/-- The first action: the refilled request is the one a fresh engine would build, and the thread's
    bookkeeping starts at the stateless first-stage answer. -/
theorem step_tot_start (env : Env R Re) (s : State R Re) (t : Thread R) (h : t.pc = .start)
    (hq : t.q.trivial = false) :
    Tot env (step env s t).2 = target env (step env s t).2 ∧ (step env s t).2.req = env.reqOf t.q := by
  rcases t with ⟨q, pc, req, todo, acc, stage⟩
  simp at h; subst h
  cases q with
  | dns d =>
    have hd : d.hostname.isEmpty = false := by simpa [Query.trivial] using hq
    simp only [step, stepG, hd, Bool.false_eq_true, if_false, Tot_advance, target_advance, advance_req]
    simp [target, pure1, Env.reqOf, fill_overwrites' env.etld1 _ d]
  | web r =>
    simp only [step, stepG, Tot_advance, target_advance, advance_req]
    simp [target, pure1, Env.reqOf]

/-- Every later action except `mid` leaves `Tot` unchanged when no list is closed. -/
theorem step_tot {env : Env R Re} {s : State R Re} {t : Thread R} (hs : SInv env s) (h0 : s.closed = [])
    (ht : TInv env t) (hrx : RxOK s t) (hst : t.pc ≠ .start) (hm : t.pc ≠ .mid) :
    Tot env (step env s t).2 = Tot env t := by
  rcases t with ⟨q, pc, req, todo, acc, stage⟩
  cases pc with
  | start => exact absurd rfl hst
  | mid => exact absurd rfl hm
  | get src idx =>
    simp only [step, stepG]; split
    · next r h =>
      have := hs.1 _ _ (cacheLookup_mem h)
      simp [Tot, pendAcc, pureStep, this]
    · simp [Tot, pendAcc]
  | read src idx =>
    simp only [step, stepG, h0]
    simp only [List.contains_nil, Bool.false_eq_true, if_false]
    split
    · next r h => simp [Tot, pendAcc, pureStep, h]
    · next h => simp [Tot, pendAcc, pureStep, h, useStep]
  | put src idx r =>
    have hp := ht.put_ok _ _ _ rfl
    simp only [step, stepG]; split
    · next r' h =>
      have h1 := hs.1 _ _ (cacheLookup_mem h)
      have : r' = r := Option.some.inj (h1.symm.trans hp)
      subst this; simp [Tot, pendAcc]
    · simp [Tot, pendAcc]
  | use src idx o =>
    simp only [step, stepG]
    cases o with
    | none => simp only [if_true, Tot_advance]; simp [Tot, pendAcc, useStep]
    | some r =>
      simp only
      split
      · next hdup => rw [Tot_advance]; simp [Tot, pendAcc, useStep, hdup]
      · next hdup =>
        split
        · next hh =>
          have hv : env.verdict src r req = env.pre r req := by simp [Env.verdict, hh]
          rw [Tot_advance]
          by_cases hp : env.pre r req <;> simp [Tot, pendAcc, useStep, hdup, hv, hp]
        · next hh =>
          have hh' : (src == Src.host) = false := by simpa using hh
          have hv := verdict_not_host env hh' r req
          split
          · next hp => simp [Tot, pendAcc, useStep, hdup, hv]
          · next hp =>
            have hmf : env.mtch r req = false := by simp [Env.mtch, hp]
            rw [Tot_advance]; simp [Tot, pendAcc, useStep, hdup, hv, hmf]
  | seq k =>
    simp only [step, stepG]
    split
    · next hk => rw [Tot_advance]; simp [Tot, pendAcc, seqStep, hk]
    · next r hk =>
      split
      · simp [Tot, pendAcc, seqStep, hk]
      · next hp =>
        have hmf : env.mtch r req = false := by simp [Env.mtch, hp]
        rw [Tot_advance]; simp [Tot, pendAcc, seqStep, hk, hmf]
  | prep it r =>
    obtain ⟨hob, hpre⟩ := ht.prep_ok it r (Or.inl rfl)
    simp only at hpre
    simp only [step, stepG]
    split
    · simp [Tot, pendAcc]
    · next hx =>
      have hb := cell_invalid hs.2 hob hx
      have hmf : env.mtch r req = false := by simp [Env.mtch, Env.patOK, hb]
      rw [Tot_advance]; simp [Tot, pendAcc, hmf]
    · split
      · next hx =>
        have hmt : env.mtch r req = true := by simp [Env.mtch, Env.patOK, hx, hpre]
        rw [Tot_advance]; simp [Tot, pendAcc, hmt]
      · simp [Tot, pendAcc]
      · next hx =>
        have hmf : env.mtch r req = false := by simp [Env.mtch, Env.patOK, hx]
        rw [Tot_advance]; simp [Tot, pendAcc, hmf]
  | rx it r =>
    obtain ⟨hob, hpre⟩ := ht.prep_ok it r (Or.inr rfl)
    simp only at hpre
    obtain ⟨x, hx⟩ := hrx it r rfl
    have hcr := cell_compiled hs.2 hob hx
    have hmt : env.mtch r req = env.accepts x r req := by simp [Env.mtch, Env.patOK, hcr, hpre]
    simp only [step, stepG, hx]
    rw [Tot_advance]
    by_cases ha : env.accepts x r req <;> simp [Tot, pendAcc, hmt, ha]
  | fin => cases q <;> simp [step, stepG, Tot, pendAcc]
  | done => rfl
  | crash => rfl

/-- `mid`: the first stage is finished; if it produced the stateless first-stage answer, the work list of
    the second stage is the stateless one. -/
theorem step_tot_mid {env : Env R Re} {s : State R Re} {t : Thread R} (ht : TInv env t) (hm : t.pc = .mid)
    (h : Tot env t = target env t) : Tot env (step env s t).2 = target env (step env s t).2 := by
  rcases t with ⟨q, pc, req, todo, acc, stage⟩
  simp at hm; subst hm
  have h1 := ht.end_todo (Or.inl rfl)
  have h2 := ht.mid_stage rfl
  simp only at h1 h2
  subst h1; subst h2
  simp only [Tot, pendAcc, target, pureFold_nil, Bool.false_eq_true, if_false] at h
  simp only [step, stepG, Tot_advance, target_advance]
  simp [target, pure2, h]

end UF.Prog

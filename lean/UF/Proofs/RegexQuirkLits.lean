import UF.Proofs.RegexQuirk
import UF.Proofs.Shortcut
/-
  Group P3: Go's tree of a case-sensitive expression (`goTree`) requires every literal the textbook
  tree requires — rewriting the fold flags of leaves does not change `requiredLits` of a literal, and a
  class that became a literal only adds one.
-/
namespace UF.Re
open UF Bytes

theorem requiredLits_applyFlags (m : FlagMap) (t : Re) :
    ∀ off l, l ∈ requiredLits t → l ∈ requiredLits (applyFlags m t off) := by
  induction t with
  | lit bs f =>
    intro off l hl
    simp only [applyFlags, fixLeaf]
    split <;> simpa [requiredLits] using hl
  | cat a b iha ihb =>
    intro off l hl
    simp only [applyFlags, requiredLits, List.mem_append] at hl ⊢
    rcases hl with h | h
    · exact .inl (iha _ _ h)
    · exact .inr (ihb _ _ h)
  | grp a iha => intro off l hl; simpa [applyFlags, requiredLits] using iha off l (by simpa [requiredLits] using hl)
  | plus a iha => intro off l hl; simpa [applyFlags, requiredLits] using iha off l (by simpa [requiredLits] using hl)
  | rep a mn mx iha =>
    intro off l hl
    simp only [applyFlags, requiredLits] at hl ⊢
    split at hl
    · rename_i h; rw [if_pos h]; exact iha off l hl
    · simp at hl
  | _ => intro off l hl; simp [requiredLits] at hl

theorem litsCovered_applyFlags (m : FlagMap) (t : Re) (off : Nat) :
    litsCovered t (applyFlags m t off) = true := by
  simp only [litsCovered, List.all_eq_true, List.any_eq_true]
  intro l hl
  exact ⟨l, requiredLits_applyFlags m t off l hl, hasSub_refl _⟩

/-- Whatever `goTree` answers covers the literals of the textbook tree. -/
theorem litsCovered_goTree {p : Bytes} {t c : Re} (h : goTree p t = some c) : litsCovered t c = true := by
  unfold goTree at h
  split at h
  · cases h; exact litsCovered_refl t
  · split at h
    · cases h
    · unfold quirkTree at h
      cases hs : Q.simFrame (Q.size t + 1) t 0 with
      | none => rw [hs] at h; cases h
      | some m =>
        rw [hs] at h
        cases h
        exact litsCovered_applyFlags m.1 t 0

end UF.Re

import UF.Proofs.MaskParse
import UF.Proofs.MaskSem
/-
  C03: (A) + (B) combined -- what the compiled matcher of a rule accepts is the documented mask language.
-/
namespace UF.Mask
open UF UF.Re UF.MaskSpec

theorem preparePatternText_any (p : Bytes) (mc : Bool) (h : isAnyPattern p = true) :
    preparePatternText p mc = .any := by
  simp [preparePatternText, patternToRegexpText, h]

/-- For the pattern as stored in the rule. -/
theorem compiledAccepts_eq (p : Bytes) (mc : Bool) (u : Bytes) (hp : ∀ b ∈ p, b < 128)
    (h2 : isRegexPattern p = false) (hn : NoNL u) :
    compiledAccepts p mc u = maskAccepts (tokenize p) mc u := by
  cases h1 : isAnyPattern p with
  | true =>
    have : (tokenize p).isAny = true := by rw [tokenize_isAny, h1]
    simp [compiledAccepts, preparePatternText_any p mc h1, maskAccepts, this]
  | false =>
    obtain ⟨t, ht, hparse⟩ := prepare_parse p hp h1 h2 mc
    have hany : (tokenize p).isAny = false := by rw [tokenize_isAny, h1]
    simp only [compiledAccepts, ht, hparse]
    exact maskAst_sem _ mc u hany hn

theorem normalize_ascii (p : Bytes) (hp : ∀ b ∈ p, b < 128) : ∀ b ∈ normalize p, b < 128 := by
  unfold normalize
  split
  · intro b hb
    rcases List.mem_append.mp hb with h | h
    · exact hp b (List.mem_of_mem_take h)
    · have : b = 94 := by simpa using h
      subst this; decide
  · exact hp

end UF.Mask

import UF.Model.NewRule
import UF.Proofs.MatchDomain
namespace UF.E
open Bytes

/-! ### combinators -/

theorem pure_noPanic {α} (a : α) : (pure a : PE α) ≠ .error .panic := by
  intro h; cases h

theorem ok_noPanic {α} (a : α) : (Except.ok a : PE α) ≠ .error .panic := by
  intro h; cases h

theorem throw_err_noPanic {α} : (throw PErr.err : PE α) ≠ .error .panic := by
  intro h; cases h

theorem error_err_noPanic {α} : (Except.error PErr.err : PE α) ≠ .error .panic := by
  intro h; cases h

theorem bind_noPanic {α β} {x : PE α} {f : α → PE β} (hx : x ≠ .error .panic)
    (hf : ∀ a, x = .ok a → f a ≠ .error .panic) : (x >>= f) ≠ .error .panic := by
  cases x with
  | error e =>
    cases e with
    | panic => exact absurd rfl hx
    | err => intro h; cases h
  | ok a => exact hf a rfl

theorem ite_noPanic {α} {c : Prop} [Decidable c] {a b : PE α} (ha : c → a ≠ .error .panic)
    (hb : ¬ c → b ≠ .error .panic) : (if c then a else b) ≠ .error .panic := by
  by_cases h : c
  · rw [if_pos h]; exact ha h
  · rw [if_neg h]; exact hb h

theorem foldlM_noPanic {α β} (f : β → α → PE β) (hf : ∀ b a, f b a ≠ .error .panic)
    (l : List α) (b : β) : l.foldlM f b ≠ .error .panic := by
  induction l generalizing b with
  | nil => exact pure_noPanic b
  | cons a l ih =>
    rw [List.foldlM_cons]
    exact bind_noPanic (hf b a) (fun b' _ => ih b')

/-! ### checked operations -/

theorem sliceC_ok {s : Bytes} {i j : Nat} (h : i ≤ j ∧ j ≤ s.length) :
    sliceC s i j = .ok ((s.take j).drop i) := by
  simp [sliceC, Bytes.slice?, h, pure, Except.pure]

theorem idxC_ok' {s : Bytes} {i : Nat} (h : i < s.length) : idxC s i = .ok s[i] := by
  simp [idxC, h, pure, Except.pure]

theorem idxC_ok {s : Bytes} {i : Nat} (h : i < s.length) : ∃ c, idxC s i = .ok c :=
  ⟨_, idxC_ok' h⟩

theorem sliceC_noPanic {s : Bytes} {i j : Nat} (h : i ≤ j ∧ j ≤ s.length) :
    sliceC s i j ≠ .error .panic := by
  rw [sliceC_ok h]; exact ok_noPanic _

theorem idxC_noPanic {s : Bytes} {i : Nat} (h : i < s.length) : idxC s i ≠ .error .panic := by
  rw [idxC_ok' h]; exact ok_noPanic _

/-- one step of the no-panic decomposition: leaves, binds, `if`/`match`, `have`-join points -/
macro "np_step" : tactic => `(tactic| first
  | exact pure_noPanic _ | exact ok_noPanic _ | exact throw_err_noPanic | exact error_err_noPanic
  | exact sliceC_noPanic (by omega) | exact idxC_noPanic (by omega)
  | with_reducible refine bind_noPanic ?_ (fun _ _ => ?_)
  | with_reducible refine ite_noPanic (fun _ => ?_) (fun _ => ?_)
  | split
  | dsimp only)

macro "np_auto" : tactic => `(tactic| repeat' np_step)

/-! ### splitWithEscapeCharacter -/

theorem splitEscLoop_noPanic (str : Bytes) (sep esc : UInt8) (p : Bool) (fuel i : Nat) (sb : Bytes)
    (escaped : Bool) (parts : List Bytes) :
    splitEscLoop str sep esc p fuel i sb escaped parts ≠ .error .panic := by
  induction fuel generalizing i sb escaped parts with
  | zero => exact pure_noPanic _
  | succ fuel ih =>
    unfold splitEscLoop
    split
    · exact pure_noPanic _
    · apply bind_noPanic (idxC_noPanic (by omega))
      intro c _
      dsimp only
      repeat' split
      all_goals exact ih _ _ _ _

/-- The fuel of `splitEscLoop` is not a semantic parameter: once it covers the bytes still to be read
    (`str.length ≤ i + fuel`), any extra fuel gives the same result -- the loop ends through its own
    test `i ≥ len(str)`, never by running out of fuel.  (Review: "fuel sufficiency unstated".) -/
theorem splitEscLoop_fuel (str : Bytes) (sep esc : UInt8) (p : Bool) (fuel k i : Nat) (sb : Bytes)
    (escaped : Bool) (parts : List Bytes) (h : str.length ≤ i + fuel) :
    splitEscLoop str sep esc p (fuel + k) i sb escaped parts =
      splitEscLoop str sep esc p fuel i sb escaped parts := by
  induction fuel generalizing i sb escaped parts with
  | zero =>
    have hi : i ≥ str.length := by omega
    cases k with
    | zero => rfl
    | succ k =>
      rw [Nat.zero_add]
      unfold splitEscLoop
      rw [if_pos hi]
  | succ fuel ih =>
    have e : fuel + 1 + k = (fuel + k) + 1 := by omega
    rw [e]
    unfold splitEscLoop
    split
    · rfl
    · cases idxC str i with
      | error e => rfl
      | ok c =>
        simp only [bind, Except.bind]
        repeat' split
        all_goals exact ih _ _ _ _ (by omega)

/-- `fuel = len(str)` (the value `splitWithEscapeCharacter` passes) always suffices: with ANY larger
    fuel the loop started at index 0 returns the same builder and parts. -/
theorem splitEscLoop_len_suffices (str : Bytes) (sep esc : UInt8) (p : Bool) (fuel : Nat)
    (hf : str.length ≤ fuel) (sb : Bytes) (escaped : Bool) (parts : List Bytes) :
    splitEscLoop str sep esc p fuel 0 sb escaped parts =
      splitEscLoop str sep esc p str.length 0 sb escaped parts := by
  obtain ⟨k, rfl⟩ : ∃ k, fuel = str.length + k := ⟨fuel - str.length, by omega⟩
  exact splitEscLoop_fuel str sep esc p str.length k 0 sb escaped parts (by omega)

/-- With sufficient fuel the loop consumes the whole string: started anywhere with enough fuel it
    agrees with the run that has exactly the remaining length as fuel. -/
theorem splitEscLoop_exact (str : Bytes) (sep esc : UInt8) (p : Bool) (fuel i : Nat) (sb : Bytes)
    (escaped : Bool) (parts : List Bytes) (h : str.length ≤ i + fuel) :
    splitEscLoop str sep esc p fuel i sb escaped parts =
      splitEscLoop str sep esc p (str.length - i) i sb escaped parts := by
  obtain ⟨k, rfl⟩ : ∃ k, fuel = (str.length - i) + k := ⟨fuel - (str.length - i), by omega⟩
  exact splitEscLoop_fuel str sep esc p (str.length - i) k i sb escaped parts (by omega)

theorem splitWithEscapeCharacter_noPanic (str : Bytes) (sep esc : UInt8) (p : Bool) :
    splitWithEscapeCharacter str sep esc p ≠ .error .panic := by
  unfold splitWithEscapeCharacter
  split
  · exact pure_noPanic _
  · apply bind_noPanic (splitEscLoop_noPanic _ _ _ _ _ _ _ _ _)
    intro a _
    repeat' split
    all_goals exact pure_noPanic _

/-! ### index helpers -/

theorem hasPrefix_length {s p : Bytes} (h : hasPrefix s p = true) : p.length ≤ s.length := by
  obtain ⟨t, rfl⟩ := (hasPrefix_iff s p).mp h
  simp

theorem hasSuffix_length {s p : Bytes} (h : hasSuffix s p = true) : p.length ≤ s.length := by
  obtain ⟨t, rfl⟩ := (hasSuffix_iff s p).mp h
  simp

theorem indexAny_go_lt (cs s : Bytes) (k i : Nat) (h : indexAny.go cs s k = some i) :
    k ≤ i ∧ i < k + s.length := by
  induction s generalizing k with
  | nil => simp [indexAny.go] at h
  | cons a t ih =>
    simp only [indexAny.go] at h
    split at h
    · cases h; simp
    · have := ih _ h
      simp only [List.length_cons]; omega

theorem indexAny_lt {s cs : Bytes} {i : Nat} (h : indexAny s cs = some i) : i < s.length := by
  have := indexAny_go_lt cs s 0 i h
  omega

theorem indexByte_go_lt (c : UInt8) (s : Bytes) (k i : Nat) (h : indexByte.go c s k = some i) :
    k ≤ i ∧ i < k + s.length := by
  induction s generalizing k with
  | nil => simp [indexByte.go] at h
  | cons a t ih =>
    simp only [indexByte.go] at h
    split at h
    · cases h; simp
    · have := ih _ h
      simp only [List.length_cons]; omega

theorem indexByte_lt {s : Bytes} {c : UInt8} {i : Nat} (h : indexByte s c = some i) :
    i < s.length := by
  have := indexByte_go_lt c s 0 i h
  omega

/-! ### parseRuleText -/

theorem parseSplitLoop_noPanic (t : Bytes) (idx1 : Nat) (he : Bool) (h : idx1 ≤ t.length) :
    parseSplitLoop t idx1 he ≠ .error .panic := by
  induction idx1 generalizing he with
  | zero => exact pure_noPanic _
  | succ idx ih =>
    unfold parseSplitLoop
    np_auto
    all_goals exact ih _ (by omega)

theorem lit_atat_length : (lit "@@").length = 2 := by decide

theorem parseRuleText_noPanic (t : Bytes) : parseRuleText t ≠ .error .panic := by
  unfold parseRuleText
  np_auto
  · rename_i hp
    have := hasPrefix_length hp
    rw [lit_atat_length] at this
    exact sliceC_noPanic (by omega)
  all_goals exact parseSplitLoop_noPanic _ _ _ (by omega)

/-! ### findShortcut -/

theorem findShortcutLoop_noPanic (fuel : Nat) (p sc : Bytes) :
    findShortcutLoop fuel p sc ≠ .error .panic := by
  induction fuel generalizing p sc with
  | zero => exact pure_noPanic _
  | succ fuel ih =>
    unfold findShortcutLoop
    split
    · exact pure_noPanic _
    · split
      · split <;> exact pure_noPanic _
      · rename_i i hi
        have := indexAny_lt hi
        np_auto
        all_goals exact ih _ _

theorem findShortcut_noPanic (p : Bytes) : findShortcut p ≠ .error .panic :=
  findShortcutLoop_noPanic _ _ _

/-! ### IsDomainName -/

theorem lit_xn_length : (lit "xn--").length = 4 := by decide

theorem dnStep_ne_panic (s : DNState) (c : UInt8) : dnStep s c ≠ .panic := by
  unfold dnStep
  repeat' (first | split | dsimp only)
  all_goals first
    | (intro h; cases h; done)
    | (rename_i hlt _ hnone _
       have := List.getElem?_eq_none_iff.mp hnone
       rw [lit_xn_length] at this
       omega)

theorem dnRun_noPanic (s : DNState) (n : Bytes) : dnRun s n ≠ .error .panic := by
  induction n generalizing s with
  | nil => exact pure_noPanic _
  | cons c t ih =>
    unfold dnRun
    split
    · exact ih _
    · exact pure_noPanic _
    · rename_i h
      exact absurd h (dnStep_ne_panic s c)

theorem isDomainNameC_noPanic (n : Bytes) : isDomainNameC n ≠ .error .panic := by
  unfold isDomainNameC
  split
  · exact pure_noPanic _
  · apply bind_noPanic (dnRun_noPanic _ _)
    intro a _
    split <;> exact pure_noPanic _

/-! ### modifier parsers -/

theorem hasPrefix_tilde_length {d : Bytes} (h : hasPrefix d (lit "~") = true) : 1 ≤ d.length := by
  have := hasPrefix_length h
  have e : (lit "~").length = 1 := by decide
  omega

theorem loadDomainsStep_noPanic (acc : List Bytes × List Bytes) (d : Bytes) :
    loadDomainsStep acc d ≠ .error .panic := by
  unfold loadDomainsStep
  np_auto
  all_goals first
    | exact isDomainNameC_noPanic _
    | (have := hasPrefix_tilde_length ‹hasPrefix _ _ = true›; exact sliceC_noPanic (by omega))

theorem loadDomains_noPanic (d : Bytes) (sep : UInt8) : loadDomains d sep ≠ .error .panic := by
  unfold loadDomains
  split
  · exact throw_err_noPanic
  · exact foldlM_noPanic _ loadDomainsStep_noPanic _ _

theorem strToRRType_noPanic (s : Bytes) : strToRRType s ≠ .error .panic := by
  unfold strToRRType
  np_auto

theorem loadDNSTypesStep_noPanic (acc : List Nat × List Nat) (s : Bytes) :
    loadDNSTypesStep acc s ≠ .error .panic := by
  unfold loadDNSTypesStep
  split
  · exact throw_err_noPanic
  · rename_i h
    have hl : 0 < s.length := by
      apply Nat.pos_of_ne_zero
      intro e; apply h; simp [e]
    np_auto
    all_goals exact strToRRType_noPanic _

theorem loadDNSTypes_noPanic (t : Bytes) : loadDNSTypes t ≠ .error .panic := by
  unfold loadDNSTypes
  split
  · exact throw_err_noPanic
  · exact foldlM_noPanic _ loadDNSTypesStep_noPanic _ _

theorem loadCTagsStep_noPanic (acc : List Bytes × List Bytes) (d : Bytes) :
    loadCTagsStep acc d ≠ .error .panic := by
  unfold loadCTagsStep
  np_auto
  all_goals
    (have := hasPrefix_tilde_length ‹hasPrefix _ _ = true›; exact sliceC_noPanic (by omega))

theorem loadCTags_noPanic (v : Bytes) : loadCTags v ≠ .error .panic := by
  unfold loadCTags
  split
  · exact throw_err_noPanic
  · refine bind_noPanic (foldlM_noPanic _ loadCTagsStep_noPanic _ _) (fun _ _ => ?_)
    np_auto

theorem loadClientsStep_noPanic (ext : Ext) (acc : Option Clients × Option Clients) (s : Bytes) :
    loadClientsStep ext acc s ≠ .error .panic := by
  unfold loadClientsStep
  np_auto
  all_goals first
    | (have := hasPrefix_tilde_length ‹hasPrefix _ _ = true›; exact sliceC_noPanic (by omega))
    | (rename_i hq hpos; cases hq; exact absurd hpos (by decide))

theorem loadClients_noPanic (ext : Ext) (v : Bytes) : loadClients ext v ≠ .error .panic := by
  unfold loadClients
  split
  · exact throw_err_noPanic
  · refine bind_noPanic (splitWithEscapeCharacter_noPanic _ _ _ _) (fun _ _ => ?_)
    refine bind_noPanic (foldlM_noPanic _ (loadClientsStep_noPanic ext) _ _) (fun _ _ => ?_)
    np_auto

/-! ### options -/

theorem setOptionEnabled_noPanic (r : NetRule) (o : Nat) (e : Bool) :
    setOptionEnabled r o e ≠ .error .panic := by
  unfold setOptionEnabled
  np_auto

theorem loadOption_noPanic (px : ParseExt) (r : NetRule) (name value : Bytes) :
    loadOption px r name value ≠ .error .panic := by
  unfold loadOption
  np_auto
  all_goals first
    | exact setOptionEnabled_noPanic _ _ _
    | exact loadDNSTypes_noPanic _
    | exact loadDomains_noPanic _ _
    | exact loadCTags_noPanic _
    | exact loadClients_noPanic _ _

theorem loadOptionsStep_noPanic (px : ParseExt) (r : NetRule) (o : Bytes) :
    loadOptionsStep px r o ≠ .error .panic := by
  unfold loadOptionsStep
  split
  · rename_i i hi
    have := indexByte_lt hi
    np_auto
    all_goals exact loadOption_noPanic _ _ _ _
  · exact loadOption_noPanic _ _ _ _

theorem loadOptions_noPanic (px : ParseExt) (r : NetRule) (o : Bytes) :
    loadOptions px r o ≠ .error .panic := by
  unfold loadOptions
  split
  · exact pure_noPanic _
  · refine bind_noPanic (splitWithEscapeCharacter_noPanic _ _ _ _) (fun _ _ => ?_)
    refine bind_noPanic (foldlM_noPanic _ (loadOptionsStep_noPanic px) _ _) (fun _ _ => ?_)
    np_auto

theorem shortcutCandidate_noPanic (px : ParseExt) (p : Bytes) :
    shortcutCandidate px p ≠ .error .panic := by
  unfold shortcutCandidate
  split
  · exact pure_noPanic _
  · exact findShortcut_noPanic _

theorem parseNetRule_noPanic (px : ParseExt) (t : Bytes) (id : Int) :
    parseNetRule px t id ≠ .error .panic := by
  unfold parseNetRule
  refine bind_noPanic (parseRuleText_noPanic _) (fun _ _ => ?_)
  split
  refine bind_noPanic (loadOptions_noPanic _ _ _) (fun _ _ => ?_)
  np_auto
  all_goals exact shortcutCandidate_noPanic _ _

/-! ### cosmetic markers -/

theorem startsAtLoop_noPanic (str : Bytes) (start : Nat) (sub : Bytes) (fuel i : Nat)
    (h : start + sub.length ≤ str.length) : startsAtLoop str start sub fuel i ≠ .error .panic := by
  induction fuel generalizing i with
  | zero => exact pure_noPanic _
  | succ fuel ih =>
    unfold startsAtLoop
    np_auto
    all_goals exact ih _

theorem startsAtIndexWith_noPanic (str : Bytes) (start : Nat) (sub : Bytes) :
    startsAtIndexWith str start sub ≠ .error .panic := by
  unfold startsAtIndexWith
  split
  · exact pure_noPanic _
  · exact startsAtLoop_noPanic _ _ _ _ _ (by omega)

theorem startsAtIndexWith_bound {str : Bytes} {start : Nat} {sub : Bytes}
    (h : startsAtIndexWith str start sub = .ok true) : start + sub.length ≤ str.length := by
  unfold startsAtIndexWith at h
  split at h
  · cases h
  · omega

theorem firstMarkerAt_noPanic (text : Bytes) (start : Nat) (ms : List Bytes) :
    firstMarkerAt text start ms ≠ .error .panic := by
  induction ms with
  | nil => exact pure_noPanic _
  | cons m ms ih =>
    unfold firstMarkerAt
    refine bind_noPanic (startsAtIndexWith_noPanic _ _ _) (fun _ _ => ?_)
    np_auto
    exact ih

theorem firstMarkerAt_bound {text : Bytes} {start : Nat} {ms : List Bytes} {m : Bytes}
    (h : firstMarkerAt text start ms = .ok (some m)) : start + m.length ≤ text.length := by
  induction ms with
  | nil => simp [firstMarkerAt, pure, Except.pure] at h
  | cons m' ms ih =>
    unfold firstMarkerAt at h
    cases hs : startsAtIndexWith text start m' with
    | error e => rw [hs] at h; cases h
    | ok b =>
      rw [hs] at h
      cases b with
      | true =>
        simp only [bind, Except.bind, if_true, pure, Except.pure] at h
        cases h
        exact startsAtIndexWith_bound hs
      | false =>
        simp only [bind, Except.bind, Bool.false_eq_true, if_false] at h
        exact ih h

theorem findMarkerLoop_noPanic (markers : List Bytes) (text fcs : Bytes) :
    findMarkerLoop markers text fcs ≠ .error .panic := by
  induction fcs with
  | nil => exact pure_noPanic _
  | cons fc rest ih =>
    unfold findMarkerLoop
    split
    · exact ih
    · rename_i i hi
      have := indexByte_lt hi
      np_auto
      all_goals first
        | exact ih
        | exact firstMarkerAt_noPanic _ _ _

theorem findCosmeticRuleMarker_noPanic (t : Bytes) : findCosmeticRuleMarker t ≠ .error .panic :=
  findMarkerLoop_noPanic _ _ _

/-- every `.ok` result satisfies `P` -/
def OkSat {β} (P : β → Prop) (y : PE β) : Prop := ∀ b, y = .ok b → P b

theorem bind_okSat {α β} {P : β → Prop} {x : PE α} {f : α → PE β}
    (hf : ∀ a, x = .ok a → OkSat P (f a)) : OkSat P (x >>= f) := by
  intro b hb
  cases x with
  | error e => cases hb
  | ok a => exact hf a rfl b hb

theorem pure_okSat {β} {P : β → Prop} {b : β} (h : P b) : OkSat P (pure b : PE β) := by
  intro b' hb; cases hb; exact h

theorem findMarkerLoop_okSat (markers : List Bytes) (text fcs : Bytes) :
    OkSat (fun r => ∀ i m, r = some (i, m) → i + m.length ≤ text.length)
      (findMarkerLoop markers text fcs) := by
  induction fcs with
  | nil => exact pure_okSat (by intro i m h; cases h)
  | cons fc rest ih =>
    unfold findMarkerLoop
    split
    · exact ih
    · repeat' (first
        | exact ih
        | with_reducible refine bind_okSat (fun _ _ => ?_)
        | split
        | dsimp only)
      all_goals
        (apply pure_okSat
         intro i m h
         cases h
         exact firstMarkerAt_bound ‹_›)

theorem findMarkerLoop_bound {markers : List Bytes} {text fcs : Bytes} {i : Nat} {m : Bytes}
    (h : findMarkerLoop markers text fcs = .ok (some (i, m))) : i + m.length ≤ text.length :=
  findMarkerLoop_okSat markers text fcs _ h i m rfl

/-- what a found marker guarantees (needed for the slice in NewCosmeticRule) -/
theorem findCosmeticRuleMarker_bound {t : Bytes} {i : Nat} {m : Bytes}
    (h : findCosmeticRuleMarker t = .ok (some (i, m))) : i + m.length ≤ t.length :=
  findMarkerLoop_bound h

theorem isComment_noPanic (l : Bytes) : isComment l ≠ .error .panic := by
  unfold isComment
  split
  · exact pure_noPanic _
  · rename_i h
    have hl : 0 < l.length := by
      apply Nat.pos_of_ne_zero
      intro e; apply h; simp [e]
    np_auto
    all_goals exact firstMarkerAt_noPanic _ _ _

theorem newCosmeticRule_noPanic (trim : Bytes → Bytes) (t : Bytes) (id : Int) :
    newCosmeticRule trim t id ≠ .error .panic := by
  unfold newCosmeticRule
  refine bind_noPanic (findCosmeticRuleMarker_noPanic _) (fun r hr => ?_)
  split
  · exact throw_err_noPanic
  · rename_i index m
    have hb := findCosmeticRuleMarker_bound hr
    np_auto
    all_goals exact absurd ‹loadDomains _ _ = _› (loadDomains_noPanic _ _)

theorem newRule_noPanic (rx : RuleExt) (line : Bytes) (id : Int) :
    newRule rx line id ≠ .error .panic := by
  unfold newRule
  np_auto
  all_goals first
    | exact isComment_noPanic _
    | exact findCosmeticRuleMarker_noPanic _
    | exact newCosmeticRule_noPanic _ _ _
    | exact parseNetRule_noPanic _ _ _

/-! ### the checked variants of the matching helpers -/

theorem lit_dotstar_length : (lit ".*").length = 2 := by decide

/-- the checked variants never fail and compute the functions of UF/Model/Match.lean -/
theorem domainEntryMatchesC_eq (ext : Ext) (domain d : Bytes) :
    domainEntryMatchesC ext domain d = .ok (domainEntryMatches ext domain d) := by
  unfold domainEntryMatchesC domainEntryMatches
  split
  · rename_i hs
    have hl := hasSuffix_length hs
    rw [lit_dotstar_length] at hl
    have h1 : ¬ ((d.length : Int) - 1 < 0) := by omega
    rw [sliceC_ok (by omega : 0 ≤ d.length - 1 ∧ d.length - 1 ≤ d.length)]
    simp only [h1, if_false, List.drop_zero, bind, Except.bind, pure, Except.pure]
    split <;> rfl
  · rfl

theorem isDomainOrSubdomainOfAnyC_eq (ext : Ext) (domain : Bytes) (ds : List Bytes) :
    isDomainOrSubdomainOfAnyC ext domain ds = .ok (isDomainOrSubdomainOfAny ext domain ds) := by
  induction ds with
  | nil => rfl
  | cons d ds ih =>
    unfold isDomainOrSubdomainOfAnyC
    rw [domainEntryMatchesC_eq, ih]
    simp only [isDomainOrSubdomainOfAny, List.any_cons, bind, Except.bind, pure, Except.pure]
    cases domainEntryMatches ext domain d <;> simp

theorem dropLast_of_length_le_one {α} (l : List α) (h : l.length ≤ 1) : l.dropLast = [] := by
  match l, h with
  | [], _ => rfl
  | [_], _ => rfl

theorem hostCharsLoop_eq (p : Bytes) (fuel i : Nat) (h : p.length ≤ i + 1 + fuel) :
    hostCharsLoop p fuel i =
      .ok (!((p.drop i).dropLast.all
        fun c => isLower c || isUpper c || isDigit c || c == ch '.' || c == ch '-')) := by
  induction fuel generalizing i with
  | zero =>
    have : (p.drop i).dropLast = [] := dropLast_of_length_le_one _ (by simp; omega)
    rw [this]; rfl
  | succ fuel ih =>
    unfold hostCharsLoop
    split
    · rename_i hi
      have hi' : i < p.length := by omega
      rw [idxC_ok' hi', List.drop_eq_getElem_cons hi']
      have hne : p.drop (i + 1) ≠ [] := by
        intro e
        have := congrArg List.length e
        simp at this; omega
      rw [List.dropLast_cons_of_ne_nil hne, List.all_cons, ih (i + 1) (by omega)]
      simp only [bind, Except.bind, pure, Except.pure]
      split
      · rename_i hc
        simp only [Bool.not_eq_true'] at hc
        simp only [hc, Bool.false_and, Bool.not_false] 
      · rename_i hc
        simp only [Bool.not_eq_true', Bool.not_eq_false] at hc
        simp only [hc, Bool.true_and]
    · rename_i hi
      have : (p.drop i).dropLast = [] := dropLast_of_length_le_one _ (by simp; omega)
      rw [this]; rfl

theorem shouldMatchHostnameC_eq (r : NetRule) (q : Request) :
    shouldMatchHostnameC r q = .ok (shouldMatchHostname r q) := by
  unfold shouldMatchHostnameC shouldMatchHostname
  split
  · rfl
  split
  · rfl
  have hallowed : (fun c => isAlpha c || isDigit c || c == ch '.' || c == ch '-') =
      (fun c => isLower c || isUpper c || isDigit c || c == ch '.' || c == ch '-') := by
    funext c
    simp only [isAlpha]
    rw [Bool.or_comm (isUpper c) (isLower c)]
  by_cases hlen : r.pattern.length > 3
  · have h0 : r.pattern.head? = some (r.pattern[0]'(by omega)) := by
      rw [List.head?_eq_getElem?]; exact List.getElem?_eq_getElem _
    have hL : r.pattern.getLast? = some (r.pattern[r.pattern.length - 1]'(by omega)) := by
      rw [List.getLast?_eq_getElem?]; exact List.getElem?_eq_getElem _
    rw [if_pos hlen, idxC_ok' (by omega : 0 < r.pattern.length),
      idxC_ok' (by omega : r.pattern.length - 1 < r.pattern.length), h0, hL,
      hostCharsLoop_eq _ _ _ (by omega), hallowed]
    simp only [bind, Except.bind, pure, Except.pure, decide_eq_true hlen, Bool.true_and,
      Option.some_beq_some]
    repeat' split
    all_goals simp_all
  · rw [if_neg hlen]
    simp [hlen, pure, Except.pure]

end UF.E

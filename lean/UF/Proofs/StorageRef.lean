import UF.Proofs.StorageLines
/-
  The scanner against the reference "split at newlines, parse each piece":
  `scanLines` with the newline cut off each line IS `specLines`, offsets included.
-/
namespace UF.Storage

theorem splitLines_of_mem {s : Bytes} (h : 10 ∈ s) : splitLines s = untilNL s :: splitLines (dropLine s) := by
  induction s with
  | nil => simp at h
  | cons c r ih =>
    by_cases hc : c = 10
    · simp [splitLines, untilNL, dropLine, hc]
    · have hr : 10 ∈ r := by
        simp at h
        rcases h with h | h
        · exact absurd h.symm hc
        · exact h
      simp only [splitLines, beq_iff_eq, hc, if_false, untilNL, dropLine]
      rw [ih hr]

theorem splitLines_of_not_mem {s : Bytes} (h : 10 ∉ s) : splitLines s = [s] := by
  induction s with
  | nil => rfl
  | cons c r ih =>
    have hc : ¬ c = 10 := by intro e; apply h; simp [e]
    have hr : 10 ∉ r := by intro e; apply h; simp [e]
    simp only [splitLines, beq_iff_eq, hc, if_false]
    rw [ih hr]

theorem splitLines_ne_nil (s : Bytes) : splitLines s ≠ [] := by
  by_cases h : 10 ∈ s
  · rw [splitLines_of_mem h]; simp
  · rw [splitLines_of_not_mem h]; simp

theorem scanLinesFrom_eq_spec (pos : Nat) (s : Bytes) :
    (scanLinesFrom pos s).map (fun p => (p.1, untilNL p.2)) = withOffsets pos (splitLines s) := by
  induction pos, s using scanLinesFrom.induct with
  | case1 pos => simp [scanLinesFrom, splitLines, withOffsets]
  | case2 pos c r line' ih =>
    rw [scanLinesFrom]
    simp only [List.map_cons]
    have hline : line' = takeLine (c :: r) := rfl
    rw [ih]
    rcases takeLine_cases (c :: r) with ⟨hm, ht⟩ | ⟨hm, ht, hu⟩
    · rw [splitLines_of_mem hm]
      cases hq : splitLines (dropLine (c :: r)) with
      | nil => exact absurd hq (splitLines_ne_nil _)
      | cons q ps =>
        simp only [withOffsets]
        have hl : line'.length = (untilNL (c :: r)).length + 1 := by rw [hline, ht]; simp
        rw [hline, untilNL_takeLine, ← hline, hl, Nat.add_assoc]
    · rw [splitLines_of_not_mem hm]
      have hd : dropLine (c :: r) = [] := by
        rw [dropLine_eq_drop, ht]; simp
      rw [hd, hline, ht, hu]
      simp [splitLines, withOffsets]

theorem scanLines_eq_spec (content : Bytes) :
    (scanLines content).map (fun p => (p.1, untilNL p.2)) = specLines content :=
  scanLinesFrom_eq_spec 0 content

/-- For a parser that trims first, the newline at the end of a scanned line is immaterial. -/
theorem parse_scanned_line {parse : Parser} (hp : TrimsFirst parse) {content : Bytes} {idx : Nat} {line : Bytes}
    (h : (idx, line) ∈ scanLines content) (id : Int) : parse line id = parse (untilNL line) id := by
  obtain ⟨_, hl⟩ := scanLines_mem h
  have : trimSpace (untilNL line) = trimSpace line := by
    rw [hl, untilNL_takeLine, trimSpace_takeLine]
  rw [hp.trim line id, hp.trim (untilNL line) id, this]

theorem filterMap_congr_mem {α β : Type} {f g : α → Option β} {l : List α} (h : ∀ x ∈ l, f x = g x) :
    l.filterMap f = l.filterMap g := by
  induction l with
  | nil => rfl
  | cons a t ih =>
    simp only [List.filterMap_cons]
    rw [h a (by simp), ih (fun x hx => h x (by simp [hx]))]

theorem scanList_eq_spec {parse : Parser} (hp : TrimsFirst parse) (id : Int) (ign : Bool) (content : Bytes) :
    scanList parse id ign content = specScanList parse id ign content := by
  unfold scanList specScanList
  rw [← scanLines_eq_spec, List.filterMap_map]
  apply filterMap_congr_mem
  intro ⟨idx, line⟩ hm
  simp only [Function.comp]
  rw [parse_scanned_line hp hm]
  cases parse (untilNL line) id <;> rfl

end UF.Storage

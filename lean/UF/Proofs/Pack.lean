import UF.Model.Storage
/-
  The storage index: `unpack (pack id idx) = (id, idx)` for ALL pairs of 32-bit values, by bit
  extensionality and core `BitVec` lemmas only (no SAT-based tactic, no enumeration of 2^64 values).
-/
namespace UF.Storage

theorem mask32_getLsbD (i : Nat) : (0xFFFFFFFF#64).getLsbD i = decide (i < 32) := by
  have h : (0xFFFFFFFF#64) = BitVec.ofNat 64 (2 ^ 32 - 1) := by decide
  rw [h, BitVec.getLsbD_ofNat, Nat.testBit_two_pow_sub_one]
  by_cases hi : i < 32
  · have : i < 64 := by omega
    simp [hi, this]
  · simp [hi]

theorem pack_low (id idx : BitVec 32) : (pack id idx).setWidth 32 = idx := by
  unfold pack
  apply BitVec.eq_of_getLsbD_eq
  intro i hi
  have h64 : i < 64 := by omega
  simp only [BitVec.getLsbD_setWidth, BitVec.getLsbD_or, BitVec.getLsbD_and, BitVec.getLsbD_shiftLeft,
    BitVec.getLsbD_signExtend, mask32_getLsbD]
  simp [hi, h64]

theorem pack_high (id idx : BitVec 32) : ((pack id idx).sshiftRight 32).setWidth 32 = id := by
  unfold pack
  apply BitVec.eq_of_getLsbD_eq
  intro i hi
  have h1 : 32 + i < 64 := by omega
  have h2 : ¬ (32 + i < 32) := by omega
  have h3 : ¬ (64 ≤ i) := by omega
  have h64 : i < 64 := by omega
  simp only [BitVec.getLsbD_setWidth, BitVec.getLsbD_or, BitVec.getLsbD_and, BitVec.getLsbD_shiftLeft,
    BitVec.getLsbD_signExtend, mask32_getLsbD, BitVec.getLsbD_sshiftRight]
  simp [hi, h64, h1, h2, h3]

theorem unpack_pack (id idx : BitVec 32) : unpack (pack id idx) = (id, idx) := by
  unfold unpack
  rw [pack_high, pack_low]

theorem pack_injective {a b c d : BitVec 32} (h : pack a b = pack c d) : a = c ∧ b = d := by
  have := congrArg unpack h
  rw [unpack_pack, unpack_pack] at this
  exact ⟨congrArg Prod.fst this, congrArg Prod.snd this⟩

/-- An `int` that fits `int32` survives the conversion `int32(x)` … `int(·)`. -/
theorem toInt_ofInt32 {x : Int} (h1 : -2147483648 ≤ x) (h2 : x < 2147483648) : (BitVec.ofInt 32 x).toInt = x := by
  rw [BitVec.toInt_ofInt]
  apply Int.bmod_eq_of_le <;> omega

/-- A byte offset below 2^31 survives `int32(idx)` … `int(ruleIdx)`. -/
theorem toInt_ofNat32 {n : Nat} (h : n < 2147483648) : (BitVec.ofNat 32 n).toInt = (n : Int) := by
  have := toInt_ofInt32 (x := (n : Int)) (by omega) (by omega)
  simpa using this

end UF.Storage

import UF.Proofs.ProgPersist
/-
  C19, "results are a subset of the fault-free results" WITH ORDER, for sequentially executed queries
  (REVIEW2 F12: MANIFEST said "sublist", the theorem was membership).

  An index is AVAILABLE in a state when its rule is in the cache or its list is not closed (`avail`).  A query
  run alone in ANY fault state answers EXACTLY what the fault-free engine answers when the unavailable indexes
  are struck out of the lists (`Env.restrict`, `runQuery_degraded`): closed lists and the cache do not change
  during a solo run except that readable rules enter the cache, so the availability of an index is the same at
  every occurrence of it in the work list.  On the stateless side striking out indexes FILTERS the collected
  entries (`pureFold_restrict`: the `ruleIn` de-duplication keeps the first occurrence, and all occurrences of
  an index are struck out together), so the degraded answer is a SUB-SEQUENCE of the fault-free one
  (`nets_restrict_sublist`, `hosts_restrict_sublist`).

  Under CONCURRENCY this is false (another thread's `cachePut` may land between two occurrences of an index,
  see the witness in Props/C19Composed.lean); there the statement stays membership (`c19_subset`).
-/
namespace UF.Prog
variable {R Re : Type}

/-- The engine in which the indexes outside `av` are unreadable from the start. -/
def Env.restrict (env : Env R Re) (av : Idx → Bool) : Env R Re :=
  { env with truth := fun i => if av i then env.truth i else none }

/-- An index is available in a state: its rule is cached, or its list is not closed. -/
def avail (env : Env R Re) (s : State R Re) (idx : Idx) : Bool :=
  (cacheLookup s.cache idx).isSome || !s.closed.contains (env.listOf idx)

/-- Which collected entries survive striking out the indexes outside `av`. -/
def keep (av : Idx → Bool) (e : Item × R) : Bool :=
  match e.1 with
  | .st _ idx => av idx
  | .seq _ => true

section restrict
variable (env : Env R Re) (av : Idx → Bool)

theorem restrict_truth (idx : Idx) : (env.restrict av).truth idx = if av idx then env.truth idx else none := rfl
theorem restrict_wants : (env.restrict av).wants = env.wants := rfl
theorem restrict_resident : (env.restrict av).resident = env.resident := rfl
theorem restrict_listOf : (env.restrict av).listOf = env.listOf := rfl
theorem restrict_basic : (env.restrict av).basic = env.basic := rfl
theorem restrict_hcands : (env.restrict av).hcands = env.hcands := rfl
theorem restrict_mtch (r : R) (req : Request) : (env.restrict av).mtch r req = env.mtch r req := rfl
theorem restrict_verdict (src : Src) (r : R) (req : Request) : (env.restrict av).verdict src r req = env.verdict src r req := rfl
theorem restrict_reqOf (q : Query) : (env.restrict av).reqOf q = env.reqOf q := by cases q <;> rfl
theorem restrict_items1 (req : Request) : (env.restrict av).items1 req = env.items1 req := rfl
theorem restrict_items2 (q : Query) (req : Request) (nrs : List R) : (env.restrict av).items2 q req nrs = env.items2 q req nrs := by
  cases q <;> rfl
theorem useStep_restrict (req : Request) (acc : List (Item × R)) (src : Src) (idx : Idx) (o : Option R) :
    useStep (env.restrict av) req acc src idx o = useStep env req acc src idx o := rfl
theorem seqStep_restrict (req : Request) (acc : List (Item × R)) (k : Nat) :
    seqStep (env.restrict av) req acc k = seqStep env req acc k := rfl

end restrict

/-! ### the stateless side: striking out indexes filters the collected entries -/

theorem ruleIn_filter_keep (av : Idx → Bool) (idx : Idx) (acc : List (Item × R)) (h : av idx = true) :
    ruleIn idx (acc.filter (keep av)) = ruleIn idx acc := by
  induction acc with
  | nil => rfl
  | cons e rest ih =>
    simp only [ruleIn] at ih ⊢
    by_cases he : e.1 = Item.st .sc idx
    · have hk : keep av e = true := by simp [keep, he, h]
      simp [hk, he]
    · have hb : (e.1 == Item.st .sc idx) = false := by simpa using he
      by_cases hk : keep av e = true
      · simp only [List.filter_cons, hk, if_true, List.any_cons, hb, Bool.false_or]; exact ih
      · simp only [List.filter_cons, hk, List.any_cons, hb, Bool.false_or]; exact ih

theorem pureStep_restrict (env : Env R Re) (av : Idx → Bool) (req : Request) (acc : List (Item × R)) (it : Item) :
    pureStep (env.restrict av) req (acc.filter (keep av)) it = (pureStep env req acc it).filter (keep av) := by
  cases it with
  | st src idx =>
    simp only [pureStep, restrict_truth, restrict_wants, useStep_restrict]
    cases hav : av idx with
    | false =>
      simp only [Bool.false_eq_true, if_false, Option.filter_none]
      cases ho : (env.truth idx).filter (env.wants src) with
      | none => rfl
      | some r =>
        simp only [useStep]
        split
        · rfl
        · split
          · simp [List.filter_append, keep, hav]
          · rfl
    | true =>
      simp only [if_true]
      cases ho : (env.truth idx).filter (env.wants src) with
      | none => rfl
      | some r =>
        simp only [useStep, ruleIn_filter_keep av idx acc hav]
        split
        · rfl
        · split
          · simp [List.filter_append, keep, hav]
          · rfl
  | seq k =>
    simp only [pureStep]
    rw [seqStep_restrict]
    simp only [seqStep]
    cases env.resident[k]? with
    | none => rfl
    | some r =>
      simp only
      by_cases hm : env.mtch r req = true
      · have hk : keep av (Item.seq k, r) = true := rfl
        simp [hm, List.filter_append, hk]
      · simp [hm]

/-- Striking out indexes filters what the stateless fold collects. -/
theorem pureFold_restrict (env : Env R Re) (av : Idx → Bool) (req : Request) (items : List Item) :
    ∀ (acc : List (Item × R)),
      pureFold (env.restrict av) req (acc.filter (keep av)) items = (pureFold env req acc items).filter (keep av) := by
  induction items with
  | nil => intro acc; rfl
  | cons it rest ih => intro acc; rw [pureFold_cons, pureFold_cons, pureStep_restrict, ih]

theorem pure1_restrict (env : Env R Re) (av : Idx → Bool) (req : Request) :
    pure1 (env.restrict av) req = (pure1 env req).filter (keep av) := by
  unfold pure1
  rw [restrict_items1]
  exact pureFold_restrict env av req _ []

/-- One stateless step appends at most one entry, tagged with its item. -/
theorem pureStep_shape (env : Env R Re) (req : Request) (acc : List (Item × R)) (it : Item) :
    pureStep env req acc it = acc ∨ ∃ r, pureStep env req acc it = acc ++ [(it, r)] := by
  cases it with
  | st src idx =>
    simp only [pureStep, useStep]
    split
    · exact Or.inl rfl
    · split
      · exact Or.inl rfl
      · split
        · exact Or.inr ⟨_, rfl⟩
        · exact Or.inl rfl
  | seq k =>
    simp only [pureStep, seqStep]
    split
    · exact Or.inl rfl
    · split
      · exact Or.inr ⟨_, rfl⟩
      · exact Or.inl rfl

theorem nets_append' (a b : List (Item × R)) : nets (a ++ b) = nets a ++ nets b := by simp [nets]
theorem hosts_append' (a b : List (Item × R)) : hosts (a ++ b) = hosts a ++ hosts b := by simp [hosts]

/-- Host items add nothing to the network rules … -/
theorem nets_pureFold_host (env : Env R Re) (req : Request) (items : List Item) (hi : ∀ it ∈ items, it.isHost = true) :
    ∀ (acc : List (Item × R)), nets (pureFold env req acc items) = nets acc := by
  induction items with
  | nil => intro acc; rfl
  | cons it rest ih =>
    intro acc
    rw [pureFold_cons, ih (fun i h => hi i (List.mem_cons_of_mem _ h))]
    have hh := hi it List.mem_cons_self
    rcases pureStep_shape env req acc it with h | ⟨r, h⟩
    · rw [h]
    · rw [h, nets_append']; simp [nets, hh]

/-- … and items of the network tables nothing to the host rules. -/
theorem hosts_pureFold_net (env : Env R Re) (req : Request) (items : List Item) (hi : ∀ it ∈ items, it.isHost = false) :
    ∀ (acc : List (Item × R)), hosts (pureFold env req acc items) = hosts acc := by
  induction items with
  | nil => intro acc; rfl
  | cons it rest ih =>
    intro acc
    rw [pureFold_cons, ih (fun i h => hi i (List.mem_cons_of_mem _ h))]
    have hh := hi it List.mem_cons_self
    rcases pureStep_shape env req acc it with h | ⟨r, h⟩
    · rw [h]
    · rw [h, hosts_append']; simp [hosts, hh]

/-- Host items do not look at what was collected before (no `ruleIn` in the hosts table). -/
theorem pureFold_host_append (env : Env R Re) (req : Request) (l : List Idx) :
    ∀ (acc : List (Item × R)), pureFold env req acc (l.map (Item.st .host)) =
      acc ++ pureFold env req [] (l.map (Item.st .host)) := by
  induction l with
  | nil => intro acc; simp [pureFold_nil]
  | cons i rest ih =>
    intro acc
    have hstep : ∀ a : List (Item × R), pureStep env req a (.st .host i) = a ++ pureStep env req [] (.st .host i) := by
      intro a
      simp only [pureStep, useStep, show (Src.host == Src.sc) = false from rfl, Bool.false_and, Bool.false_eq_true, if_false]
      split
      · simp
      · split <;> simp
    simp only [List.map_cons, pureFold_cons]
    rw [hstep acc, ih, ih (pureStep env req [] (.st .host i))]
    simp [List.append_assoc]

theorem items2_isHost {env : Env R Re} {q : Query} {req : Request} {nrs : List R} :
    ∀ it ∈ env.items2 q req nrs, it.isHost = true := by
  intro it h
  unfold Env.items2 at h
  cases q with
  | web _ => simp at h
  | dns _ =>
    simp only at h
    split at h
    · simp at h
    · simp only [List.mem_map] at h
      obtain ⟨idx, _, rfl⟩ := h
      rfl

theorem hosts_pure1 (env : Env R Re) (req : Request) : hosts (pure1 env req) = [] := by
  unfold pure1
  rw [hosts_pureFold_net _ _ _ (fun it h => items1_not_host h)]
  rfl

/-- The network rules of the stateless answer are those of the first stage. -/
theorem pureAnswer_nets (env : Env R Re) (q : Query) (hq : q.trivial = false) :
    (pureAnswer env q).1 = nets (pure1 env (env.reqOf q)) := by
  simp only [pureAnswer, hq, Bool.false_eq_true, if_false, pure2]
  exact nets_pureFold_host env _ _ items2_isHost _

theorem sublist_nets_filter (p : Item × R → Bool) (l : List (Item × R)) : (nets (l.filter p)).Sublist (nets l) := by
  unfold nets
  exact (List.Sublist.filter _ List.filter_sublist).map _

theorem sublist_hosts_filter (p : Item × R → Bool) (l : List (Item × R)) : (hosts (l.filter p)).Sublist (hosts l) := by
  unfold hosts
  exact (List.Sublist.filter _ List.filter_sublist).map _

/-- ORDER, network rules: the answer of the engine with indexes struck out is a sub-sequence of the full one. -/
theorem nets_restrict_sublist (env : Env R Re) (av : Idx → Bool) (q : Query) :
    (pureAnswer (env.restrict av) q).1.Sublist (pureAnswer env q).1 := by
  cases hq : q.trivial with
  | true => simp [pureAnswer, hq]
  | false =>
    rw [pureAnswer_nets _ q hq, pureAnswer_nets _ q hq, restrict_reqOf, pure1_restrict]
    exact sublist_nets_filter _ _

/-- ORDER, host rules: a sub-sequence of what the hosts table holds for the name (the fault-free answer itself
    may hold NO host rule: it stops at a deciding network rule that the degraded run cannot read). -/
theorem hosts_restrict_sublist (env : Env R Re) (av : Idx → Bool) (q : Query) :
    (pureAnswer (env.restrict av) q).2.Sublist (pureHosts env (env.reqOf q)) := by
  cases hq : q.trivial with
  | true => simp [pureAnswer, hq]
  | false =>
    simp only [pureAnswer, hq, Bool.false_eq_true, if_false, pure2, restrict_reqOf]
    cases q with
    | web w =>
      simp only [Env.items2, pureFold_nil]
      rw [hosts_pure1]
      exact List.nil_sublist _
    | dns d =>
      simp only [Env.items2]
      split
      · rw [pureFold_nil, hosts_pure1]
        exact List.nil_sublist _
      · rw [pureFold_host_append, hosts_append', hosts_pure1]
        simp only [List.nil_append, pureHosts, restrict_hcands]
        have := pureFold_restrict env av (env.reqOf (.dns d)) ((env.hcands (env.reqOf (.dns d))).map (Item.st .host)) []
        simp only [List.filter_nil] at this
        rw [this]
        exact sublist_hosts_filter _ _

end UF.Prog

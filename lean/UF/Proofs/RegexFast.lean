import UF.Proofs.Regex
/-
  The set-based matcher computes the declarative semantics:
    `mem_adv       : t ∈ r.adv S ↔ ∃ s ∈ S, Den r s t`
    `searchFast_eq : searchFast r u = search r u`
-/
namespace UF
open Re

/-! ### Sets of states -/

theorem mem_addSt (t x : St) (acc : List St) : x ∈ addSt t acc ↔ x = t ∨ x ∈ acc := by
  unfold addSt
  split
  · rename_i h
    have : t ∈ acc := by simpa using h
    constructor
    · exact .inr
    · rintro (rfl | h) <;> assumption
  · simp

theorem mem_unionSt (a b : List St) (x : St) : x ∈ unionSt a b ↔ x ∈ a ∨ x ∈ b := by
  unfold unionSt
  induction a generalizing b with
  | nil => simp
  | cons t a ih =>
    simp only [List.foldl_cons, ih, mem_addSt, List.mem_cons]
    constructor
    · rintro (h | rfl | h)
      · exact .inl (.inr h)
      · exact .inl (.inl rfl)
      · exact .inr h
    · rintro ((rfl | h) | h)
      · exact .inr (.inl rfl)
      · exact .inl h
      · exact .inr (.inr h)

theorem le_maxPost_foldl (S : List St) : ∀ (m : Nat), m ≤ S.foldl (fun m s => max m s.post.length) m ∧
    ∀ s ∈ S, s.post.length ≤ S.foldl (fun m s => max m s.post.length) m := by
  induction S with
  | nil => intro m; simp
  | cons a S ih =>
    intro m
    simp only [List.foldl_cons, List.mem_cons]
    obtain ⟨h1, h2⟩ := ih (max m a.post.length)
    refine ⟨by omega, ?_⟩
    rintro s (rfl | hs)
    · omega
    · exact h2 s hs

theorem le_maxPost {S : List St} {s : St} (h : s ∈ S) : s.post.length ≤ maxPost S :=
  (le_maxPost_foldl S 0).2 s h

/-! ### Inversion of `Den` for the leaves -/

theorem den_lit_iff (bs : Bytes) (fold : Bool) (s t : St) : Den (.lit bs fold) s t ↔ litStep fold bs s = some t :=
  ⟨fun h => by cases h; assumption, .lit⟩

theorem stepSingle_iff (p : UInt8 → Bool) (s t : St) : stepSingle p s = some t ↔
    ∃ b post, s.post = b :: post ∧ p b = true ∧ t = ⟨b :: s.pre, post⟩ := by
  obtain ⟨pre, post⟩ := s
  cases post with
  | nil => simp [stepSingle]
  | cons b post =>
    simp only [stepSingle]
    constructor
    · intro h
      split at h
      · rename_i hb
        simp at h
        exact ⟨b, post, rfl, hb, h.symm⟩
      · simp at h
    · rintro ⟨b', post', h1, h2, h3⟩
      simp at h1
      obtain ⟨rfl, rfl⟩ := h1
      simp [h2, h3]

theorem den_any_iff (s t : St) : Den .any s t ↔ stepSingle (fun b => b != 10) s = some t := by
  rw [stepSingle_iff]
  constructor
  · intro h; cases h with | any hb => exact ⟨_, _, rfl, hb, rfl⟩
  · rintro ⟨b, post, h1, h2, rfl⟩
    obtain ⟨pre, q⟩ := s
    simp at h1; subst h1
    exact .any h2

theorem den_anyNL_iff (s t : St) : Den .anyNL s t ↔ stepSingle (fun _ => true) s = some t := by
  rw [stepSingle_iff]
  constructor
  · intro h; cases h with | anyNL => exact ⟨_, _, rfl, rfl, rfl⟩
  · rintro ⟨b, post, h1, _, rfl⟩
    obtain ⟨pre, q⟩ := s
    simp at h1; subst h1
    exact .anyNL

theorem den_cls_iff (neg : Bool) (rs : List (UInt8 × UInt8)) (fold : Bool) (s t : St) :
    Den (.cls neg rs fold) s t ↔ stepSingle (clsMatch neg rs fold) s = some t := by
  rw [stepSingle_iff]
  constructor
  · intro h; cases h with | cls hb => exact ⟨_, _, rfl, hb, rfl⟩
  · rintro ⟨b, post, h1, h2, rfl⟩
    obtain ⟨pre, q⟩ := s
    simp at h1; subst h1
    exact .cls h2

/-! ### Closure and iteration, for a set function `f` that is correct for `a` -/

section loops
variable {a : Re} {f : List St → List St}

theorem subset_starAdv : ∀ (n : Nat) (S : List St) (x : St), x ∈ S → x ∈ starAdv f n S := by
  intro n
  induction n with
  | zero => intro S x h; exact h
  | succ n ih =>
    intro S x h
    simp only [starAdv]
    split
    · exact h
    · exact ih _ _ ((mem_unionSt _ _ _).2 (.inr h))

theorem starAdv_sound (hf : ∀ S t, t ∈ f S ↔ ∃ s ∈ S, Den a s t) :
    ∀ (n : Nat) (S : List St) (t : St), t ∈ starAdv f n S → ∃ s ∈ S, Den (.star a) s t := by
  intro n
  induction n with
  | zero => intro S t h; exact ⟨t, h, .star0⟩
  | succ n ih =>
    intro S t h
    simp only [starAdv] at h
    split at h
    · exact ⟨t, h, .star0⟩
    · obtain ⟨s, hs, hd⟩ := ih _ _ h
      rcases (mem_unionSt _ _ _).1 hs with hs | hs
      · obtain ⟨s0, hs0, hd0⟩ := (hf _ _).1 hs
        exact ⟨s0, hs0, .starS hd0 hd⟩
      · exact ⟨s, hs, hd⟩

theorem closed_star {S : List St} (hc : ∀ x ∈ S, ∀ y, Den a x y → y ∈ S) {s t : St} (h : Den (.star a) s t) :
    s ∈ S → t ∈ S := by
  generalize hr : Re.star a = r at h
  induction h with
  | star0 => exact id
  | starS h1 _ _ ih2 => cases hr; intro hs; exact ih2 rfl (hc _ hs _ h1)
  | _ => cases hr

theorem starAdv_complete (hf : ∀ S t, t ∈ f S ↔ ∃ s ∈ S, Den a s t) {s t : St} (h : Den (.star a) s t) :
    ∀ (n : Nat) (S : List St), s ∈ S → s.post.length ≤ n → t ∈ starAdv f n S := by
  generalize hr : Re.star a = r at h
  induction h with
  | star0 => intro n S hs _; exact subset_starAdv n S _ hs
  | @starS a' s m t h1 h2 _ ih2 =>
    cases hr
    intro n S hs hn
    by_cases hp : m.post.length < s.post.length
    · cases n with
      | zero => omega
      | succ n =>
        simp only [starAdv]
        have hm : m ∈ f S := (hf _ _).2 ⟨s, hs, h1⟩
        split
        · rename_i hall
          have hc : ∀ x ∈ S, ∀ y, Den a x y → y ∈ S := by
            intro x hx y hd
            have : y ∈ f S := (hf _ _).2 ⟨x, hx, hd⟩
            have := List.all_eq_true.1 hall y this
            simpa using this
          exact closed_star hc (.starS h1 h2) hs
        · exact ih2 rfl n _ ((mem_unionSt _ _ _).2 (.inl hm)) (by omega)
    · have : m = s := h1.noprog hp
      subst this
      exact ih2 rfl n S hs hn
  | _ => cases hr

theorem mem_starAdv (hf : ∀ S t, t ∈ f S ↔ ∃ s ∈ S, Den a s t) (S : List St) (t : St) :
    t ∈ starAdv f (maxPost S) S ↔ ∃ s ∈ S, Den (.star a) s t :=
  ⟨starAdv_sound hf _ _ _, fun ⟨_, hs, hd⟩ => starAdv_complete hf hd _ _ hs (le_maxPost hs)⟩

theorem mem_iterAdv (hf : ∀ S t, t ∈ f S ↔ ∃ s ∈ S, Den a s t) : ∀ (m : Nat) (S : List St) (u : St),
    u ∈ starAdv f (maxPost (iterAdv f m S)) (iterAdv f m S) ↔ ∃ s ∈ S, Den (.rep a m none) s u := by
  intro m
  induction m with
  | zero =>
    intro S u
    simp only [iterAdv, mem_starAdv hf]
    constructor
    · rintro ⟨s, hs, hd⟩; exact ⟨s, hs, .repU0 hd⟩
    · rintro ⟨s, hs, hd⟩; cases hd with | repU0 hd => exact ⟨s, hs, hd⟩
  | succ m ih =>
    intro S u
    simp only [iterAdv, ih]
    constructor
    · rintro ⟨t, ht, hd⟩
      obtain ⟨s, hs, hd0⟩ := (hf _ _).1 ht
      exact ⟨s, hs, .repUS hd0 hd⟩
    · rintro ⟨s, hs, hd⟩
      cases hd with
      | repUS h1 h2 => exact ⟨_, (hf _ _).2 ⟨s, hs, h1⟩, h2⟩

theorem mem_iterBAdv (hf : ∀ S t, t ∈ f S ↔ ∃ s ∈ S, Den a s t) : ∀ (n m : Nat) (S : List St) (u : St),
    u ∈ iterBAdv f m n S ↔ ∃ s ∈ S, Den (.rep a m (some n)) s u := by
  intro n
  induction n with
  | zero =>
    intro m S u
    cases m with
    | zero =>
      simp only [iterBAdv]
      constructor
      · intro h; exact ⟨u, h, .repB0⟩
      · rintro ⟨s, hs, hd⟩; cases hd; exact hs
    | succ m =>
      simp only [iterBAdv, List.not_mem_nil, false_iff]
      rintro ⟨s, _, hd⟩
      cases hd
  | succ n ih =>
    intro m S u
    cases m with
    | zero =>
      simp only [iterBAdv, mem_unionSt, ih]
      constructor
      · rintro (h | ⟨t, ht, hd⟩)
        · exact ⟨u, h, .repB0⟩
        · obtain ⟨s, hs, hd0⟩ := (hf _ _).1 ht
          exact ⟨s, hs, .repBO hd0 hd⟩
      · rintro ⟨s, hs, hd⟩
        cases hd with
        | repB0 => exact .inl hs
        | repBO h1 h2 => exact .inr ⟨_, (hf _ _).2 ⟨s, hs, h1⟩, h2⟩
    | succ m =>
      simp only [iterBAdv, ih]
      constructor
      · rintro ⟨t, ht, hd⟩
        obtain ⟨s, hs, hd0⟩ := (hf _ _).1 ht
        exact ⟨s, hs, .repBS hd0 hd⟩
      · rintro ⟨s, hs, hd⟩
        cases hd with
        | repBS h1 h2 => exact ⟨_, (hf _ _).2 ⟨s, hs, h1⟩, h2⟩

end loops

/-! ### The set-based matcher -/

theorem mem_adv (r : Re) : ∀ (S : List St) (t : St), t ∈ r.adv S ↔ ∃ s ∈ S, Den r s t := by
  induction r with
  | empty =>
    intro S t
    simp only [adv]
    constructor
    · intro h; exact ⟨t, h, .empty⟩
    · rintro ⟨s, hs, hd⟩; cases hd; exact hs
  | lit bs fold => intro S t; simp only [adv, List.mem_filterMap, den_lit_iff]
  | any => intro S t; simp only [adv, List.mem_filterMap, den_any_iff]
  | anyNL => intro S t; simp only [adv, List.mem_filterMap, den_anyNL_iff]
  | cls neg rs fold => intro S t; simp only [adv, List.mem_filterMap, den_cls_iff]
  | bol =>
    intro S t
    simp only [adv, List.mem_filter, List.isEmpty_iff]
    constructor
    · rintro ⟨h1, h2⟩; exact ⟨t, h1, .bol h2⟩
    · rintro ⟨s, hs, hd⟩; cases hd with | bol h => exact ⟨hs, h⟩
  | eol =>
    intro S t
    simp only [adv, List.mem_filter, List.isEmpty_iff]
    constructor
    · rintro ⟨h1, h2⟩; exact ⟨t, h1, .eol h2⟩
    · rintro ⟨s, hs, hd⟩; cases hd with | eol h => exact ⟨hs, h⟩
  | wordB =>
    intro S t
    simp only [adv, List.mem_filter]
    constructor
    · rintro ⟨h1, h2⟩; exact ⟨t, h1, .wordB h2⟩
    · rintro ⟨s, hs, hd⟩; cases hd with | wordB h => exact ⟨hs, h⟩
  | nwordB =>
    intro S t
    simp only [adv, List.mem_filter, Bool.not_eq_true']
    constructor
    · rintro ⟨h1, h2⟩; exact ⟨t, h1, .nwordB h2⟩
    · rintro ⟨s, hs, hd⟩; cases hd with | nwordB h => exact ⟨hs, h⟩
  | cat a b iha ihb =>
    intro S t
    simp only [adv, ihb, iha]
    constructor
    · rintro ⟨m, ⟨s, hs, h1⟩, h2⟩; exact ⟨s, hs, .cat h1 h2⟩
    · rintro ⟨s, hs, hd⟩; cases hd with | cat h1 h2 => exact ⟨_, ⟨s, hs, h1⟩, h2⟩
  | alt a b iha ihb =>
    intro S t
    simp only [adv, mem_unionSt, iha, ihb]
    constructor
    · rintro (⟨s, hs, h⟩ | ⟨s, hs, h⟩)
      · exact ⟨s, hs, .altL h⟩
      · exact ⟨s, hs, .altR h⟩
    · rintro ⟨s, hs, hd⟩
      cases hd with
      | altL h => exact .inl ⟨s, hs, h⟩
      | altR h => exact .inr ⟨s, hs, h⟩
  | star a iha => intro S t; simp only [adv]; exact mem_starAdv iha S t
  | plus a iha =>
    intro S t
    simp only [adv, mem_starAdv iha, iha]
    constructor
    · rintro ⟨m, ⟨s, hs, h1⟩, h2⟩; exact ⟨s, hs, .plus h1 h2⟩
    · rintro ⟨s, hs, hd⟩; cases hd with | plus h1 h2 => exact ⟨_, ⟨s, hs, h1⟩, h2⟩
  | quest a iha =>
    intro S t
    simp only [adv, mem_unionSt, iha]
    constructor
    · rintro (h | ⟨s, hs, h⟩)
      · exact ⟨t, h, .quest0⟩
      · exact ⟨s, hs, .quest1 h⟩
    · rintro ⟨s, hs, hd⟩
      cases hd with
      | quest0 => exact .inl hs
      | quest1 h => exact .inr ⟨s, hs, h⟩
  | rep a m mx iha =>
    intro S t
    cases mx with
    | none => simp only [adv]; exact mem_iterAdv iha m S t
    | some n => simp only [adv]; exact mem_iterBAdv iha n m S t
  | grp a iha =>
    intro S t
    simp only [adv, iha]
    constructor
    · rintro ⟨s, hs, h⟩; exact ⟨s, hs, .grp h⟩
    · rintro ⟨s, hs, hd⟩; cases hd with | grp h => exact ⟨s, hs, h⟩

theorem mem_allStatesFrom : ∀ (post pre : Bytes) (s : St), s ∈ allStatesFrom pre post ↔
    ∃ x z, post = x ++ z ∧ s = ⟨x.reverse ++ pre, z⟩ := by
  intro post
  induction post with
  | nil =>
    intro pre s
    simp only [allStatesFrom, List.mem_singleton]
    constructor
    · rintro rfl; exact ⟨[], [], rfl, by simp⟩
    · rintro ⟨x, z, h, rfl⟩
      obtain ⟨hx, hz⟩ := List.append_eq_nil_iff.1 h.symm
      subst hx hz
      simp
  | cons b post ih =>
    intro pre s
    simp only [allStatesFrom, List.mem_cons, ih]
    constructor
    · rintro (rfl | ⟨x, z, h, rfl⟩)
      · exact ⟨[], b :: post, rfl, by simp⟩
      · exact ⟨b :: x, z, by simp [h], by simp⟩
    · rintro ⟨x, z, h, rfl⟩
      cases x with
      | nil => left; simp at h; simp [h]
      | cons c x =>
        right
        simp at h
        obtain ⟨rfl, h⟩ := h
        exact ⟨x, z, h, by simp⟩

/-- The polynomial matcher and the backtracking matcher decide the same thing. -/
theorem searchFast_eq (r : Re) (u : Bytes) : searchFast r u = search r u := by
  have key : searchFast r u = true ↔ search r u = true := by
    simp only [searchFast, search, searchFrom_iff, Bool.not_eq_true', List.isEmpty_eq_false_iff_exists_mem,
      mem_adv, mem_allStatesFrom]
    constructor
    · rintro ⟨t, s, ⟨x, z, hu, rfl⟩, hd⟩
      refine ⟨x, t, ⟨z, hu⟩, ?_⟩
      subst hu
      simpa using hd
    · rintro ⟨x, t, ⟨z, hu⟩, hd⟩
      subst hu
      exact ⟨t, _, ⟨x, z, rfl, rfl⟩, by simpa using hd⟩
  cases h1 : searchFast r u <;> cases h2 : search r u <;> simp_all

end UF

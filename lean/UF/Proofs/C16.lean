import UF.Spec.CosmeticOption
namespace UF

/-- One induction step of `c16`: adding modifier `m` to the union. -/
theorem c16_step (m : CosMod) (a b c : Bool) :
    (((if (m.bits.testBit 4 || a) = true then cosCSS ||| cosGenericCSS else 0) |||
        if (m.bits.testBit 5 || b) = true then cosGenericCSS else 0) |||
      if (m.bits.testBit 7 || c) = true then cosJS else 0) =
    0 ||| m.disabled |||
      (((if a = true then cosCSS ||| cosGenericCSS else 0) |||
          if b = true then cosGenericCSS else 0) |||
        if c = true then cosJS else 0) := by
  cases m <;> cases a <;> cases b <;> cases c <;> decide

end UF

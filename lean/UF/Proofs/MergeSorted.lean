import UF.Spec.Match
namespace UF.E
open Bytes

theorem cmp_refl (a : Bytes) : Bytes.cmp a a = .eq := by
  induction a with
  | nil => rfl
  | cons x a ih => simp [Bytes.cmp, UInt8.lt_irrefl, ih]

theorem cmp_eq_iff (a b : Bytes) : Bytes.cmp a b = .eq ↔ a = b := by
  constructor
  · intro h
    induction a generalizing b with
    | nil => cases b <;> simp_all [Bytes.cmp]
    | cons x a ih =>
      cases b with
      | nil => simp [Bytes.cmp] at h
      | cons y b =>
        simp only [Bytes.cmp] at h
        split at h
        · cases h
        · split at h
          · cases h
          · rename_i h1 h2
            have : x = y := UInt8.le_antisymm (UInt8.not_lt.mp h2) (UInt8.not_lt.mp h1)
            rw [this, ih b h]
  · intro h; subst h; exact cmp_refl a

theorem cmp_gt_iff_lt (a b : Bytes) : Bytes.cmp a b = .gt ↔ Bytes.cmp b a = .lt := by
  induction a generalizing b with
  | nil => cases b <;> simp [Bytes.cmp]
  | cons x a ih =>
    cases b with
    | nil => simp [Bytes.cmp]
    | cons y b =>
      simp only [Bytes.cmp]
      by_cases h1 : x < y
      · have h2 : ¬ y < x := UInt8.lt_asymm h1
        simp [h1, h2]
      · by_cases h2 : y < x
        · simp [h1, h2]
        · simp [h1, h2, ih]

theorem cmp_lt_trans {a b c : Bytes} :
    Bytes.cmp a b = .lt → Bytes.cmp b c = .lt → Bytes.cmp a c = .lt := by
  induction a generalizing b c with
  | nil =>
    cases b <;> cases c <;> simp [Bytes.cmp]
  | cons x a ih =>
    cases b with
    | nil => simp [Bytes.cmp]
    | cons y b =>
      cases c with
      | nil => simp [Bytes.cmp]
      | cons z c =>
        simp only [Bytes.cmp]
        intro h1 h2
        by_cases hxy : x < y
        · by_cases hyz : y < z
          · simp [UInt8.lt_trans hxy hyz]
          · by_cases hzy : z < y
            · simp [hyz, hzy] at h2
            · have : y = z := UInt8.le_antisymm (UInt8.not_lt.mp hzy) (UInt8.not_lt.mp hyz)
              subst this
              simp [hxy]
        · by_cases hyx : y < x
          · simp [hxy, hyx] at h1
          · have : x = y := UInt8.le_antisymm (UInt8.not_lt.mp hyx) (UInt8.not_lt.mp hxy)
            subst this
            simp only [hxy, if_false] at h1
            by_cases hxz : x < z
            · simp [hxz]
            · by_cases hzx : z < x
              · simp [hxz, hzx] at h2
              · simp only [hxz, hzx, if_false] at h2 ⊢
                exact ih h1 h2

theorem cmp_ne_gt_iff {a b : Bytes} : Bytes.cmp a b ≠ .gt ↔ (Bytes.cmp a b = .lt ∨ a = b) := by
  rw [← cmp_eq_iff]
  cases Bytes.cmp a b <;> simp

theorem cmp_le_trans {a b c : Bytes} :
    Bytes.cmp a b ≠ .gt → Bytes.cmp b c ≠ .gt → Bytes.cmp a c ≠ .gt := by
  intro h1 h2
  rcases cmp_ne_gt_iff.mp h1 with h1 | h1
  · rcases cmp_ne_gt_iff.mp h2 with h2 | h2
    · exact cmp_ne_gt_iff.mpr (Or.inl (cmp_lt_trans h1 h2))
    · subst h2; exact cmp_ne_gt_iff.mpr (Or.inl h1)
  · subst h1; exact h2

theorem cmp_antisymm {a b : Bytes} : Bytes.cmp a b ≠ .gt → Bytes.cmp b a ≠ .gt → a = b := by
  intro h1 h2
  rcases cmp_ne_gt_iff.mp h1 with h1 | h1
  · exact absurd ((cmp_gt_iff_lt b a).mpr h1) h2
  · exact h1

theorem cmp_total (a b : Bytes) : Bytes.cmp a b ≠ .gt ∨ Bytes.cmp b a ≠ .gt := by
  cases h : Bytes.cmp a b
  · simp
  · simp
  · right
    rw [(cmp_gt_iff_lt a b).mp h]; simp

/-! ### insertion sort -/

theorem insertSorted_perm (x : Bytes) (l : List Bytes) :
    (Bytes.insertSorted x l).Perm (x :: l) := by
  induction l with
  | nil => exact List.Perm.refl _
  | cons y ys ih =>
    simp only [Bytes.insertSorted]
    split
    · exact List.Perm.refl _
    · exact (List.Perm.cons y ih).trans (List.Perm.swap x y ys)

theorem sortB_perm (l : List Bytes) : (Bytes.sortB l).Perm l := by
  induction l with
  | nil => exact List.Perm.refl _
  | cons x l ih =>
    show (Bytes.insertSorted x (Bytes.sortB l)).Perm (x :: l)
    exact (insertSorted_perm x _).trans (List.Perm.cons x ih)

theorem insertSorted_sorted (x : Bytes) (l : List Bytes) (h : SortedB l) :
    SortedB (Bytes.insertSorted x l) := by
  induction l with
  | nil => simp [Bytes.insertSorted, SortedB]
  | cons y ys ih =>
    simp only [Bytes.insertSorted]
    have hy := List.pairwise_cons.mp h
    split
    · rename_i hle
      have hxy : Bytes.cmp x y ≠ .gt := by simpa [Bytes.leB] using hle
      refine List.pairwise_cons.mpr ⟨?_, h⟩
      intro z hz
      rcases List.mem_cons.mp hz with rfl | hz
      · exact hxy
      · exact cmp_le_trans hxy (hy.1 z hz)
    · rename_i hle
      have hyx : Bytes.cmp y x ≠ .gt := by
        rcases cmp_total x y with h' | h'
        · exact absurd (by simpa [Bytes.leB] using h') hle
        · exact h'
      refine List.pairwise_cons.mpr ⟨?_, ih hy.2⟩
      intro z hz
      have := (insertSorted_perm x ys).mem_iff.mp hz
      rcases List.mem_cons.mp this with rfl | hz
      · exact hyx
      · exact hy.1 z hz

theorem sortB_sorted (l : List Bytes) : SortedB (Bytes.sortB l) := by
  induction l with
  | nil => simp [Bytes.sortB, SortedB]
  | cons x l ih =>
    show SortedB (Bytes.insertSorted x (Bytes.sortB l))
    exact insertSorted_sorted x _ ih

/-- two sorted permutations of each other are equal -/
theorem sorted_perm_eq {l l' : List Bytes} (h : l.Perm l') (hl : SortedB l) (hl' : SortedB l') :
    l = l' := by
  induction l generalizing l' with
  | nil => exact (List.nil_perm.mp h).symm ▸ rfl
  | cons x xs ih =>
    cases l' with
    | nil => exact absurd h.length_eq (by simp)
    | cons y ys =>
      have hx := List.pairwise_cons.mp hl
      have hy := List.pairwise_cons.mp hl'
      have hxy : x = y := by
        have h1 : x ∈ y :: ys := h.mem_iff.mp (List.mem_cons_self)
        have h2 : y ∈ x :: xs := h.mem_iff.mpr (List.mem_cons_self)
        rcases List.mem_cons.mp h1 with e | h1
        · exact e
        · rcases List.mem_cons.mp h2 with e | h2
          · exact e.symm
          · exact cmp_antisymm (hx.1 y h2) (hy.1 x h1)
      subst hxy
      rw [ih (List.Perm.cons_inv h) hx.2 hy.2]

theorem sortB_eq_of_perm {l l' : List Bytes} (h : l.Perm l') : Bytes.sortB l = Bytes.sortB l' :=
  sorted_perm_eq (((sortB_perm l).trans h).trans (sortB_perm l').symm) (sortB_sorted l) (sortB_sorted l')

theorem sortB_of_sorted {l : List Bytes} (h : SortedB l) : Bytes.sortB l = l :=
  sorted_perm_eq (sortB_perm l) (sortB_sorted l) h

/-! ### the two-index merge -/

theorem cmp_lt_of_lt_of_le {a b c : Bytes} :
    Bytes.cmp a b = .lt → Bytes.cmp b c ≠ .gt → Bytes.cmp a c = .lt := by
  intro h1 h2
  rcases cmp_ne_gt_iff.mp h2 with h2 | h2
  · exact cmp_lt_trans h1 h2
  · subst h2; exact h1

theorem cmp_lt_of_le_of_lt {a b c : Bytes} :
    Bytes.cmp a b ≠ .gt → Bytes.cmp b c = .lt → Bytes.cmp a c = .lt := by
  intro h1 h2
  rcases cmp_ne_gt_iff.mp h1 with h1 | h1
  · exact cmp_lt_trans h1 h2
  · subst h1; exact h2

theorem cmp_lt_ne {a b : Bytes} (h : Bytes.cmp a b = .lt) : a ≠ b := by
  intro e; subst e; rw [cmp_refl] at h; cases h

/-- the two-index merge finds a common element iff one exists, given both lists sorted -/
theorem mergeCommon_iff (a b : List Bytes) (ha : SortedB a) (hb : SortedB b) (fuel : Nat)
    (hf : a.length + b.length ≤ fuel) : mergeCommon a b fuel = a.any (fun t => b.contains t) := by
  induction fuel generalizing a b with
  | zero =>
    have : a = [] := List.eq_nil_of_length_eq_zero (by omega)
    subst this
    cases b <;> simp [mergeCommon]
  | succ fuel ih =>
    cases a with
    | nil => simp [mergeCommon]
    | cons x a =>
      cases b with
      | nil => simp [mergeCommon]
      | cons y b =>
        have hx := List.pairwise_cons.mp ha
        have hy := List.pairwise_cons.mp hb
        simp only [List.length_cons] at hf
        cases hc : Bytes.cmp x y with
        | eq =>
          have : x = y := (cmp_eq_iff x y).mp hc
          subst this
          simp [mergeCommon, hc]
        | lt =>
          simp only [mergeCommon, hc]
          rw [ih a (y :: b) hx.2 hb (by simp only [List.length_cons]; omega)]
          have hnot : (y :: b).contains x = false := by
            rw [List.contains_eq_mem]
            apply decide_eq_false
            intro hm
            rcases List.mem_cons.mp hm with e | hm
            · exact cmp_lt_ne hc e
            · exact cmp_lt_ne (cmp_lt_of_lt_of_le hc (hy.1 x hm)) rfl
          simp only [List.any_cons, hnot, Bool.false_or]
        | gt =>
          simp only [mergeCommon, hc]
          rw [ih (x :: a) b ha hy.2 (by simp only [List.length_cons]; omega)]
          have hyx : Bytes.cmp y x = .lt := (cmp_gt_iff_lt x y).mp hc
          have hne : ∀ t, t ∈ x :: a → (y :: b).contains t = b.contains t := by
            intro t ht
            have hyt : Bytes.cmp y t = .lt := by
              rcases List.mem_cons.mp ht with e | ht
              · rw [e]; exact hyx
              · exact cmp_lt_of_lt_of_le hyx (hx.1 t ht)
            have hty : t ≠ y := fun e => cmp_lt_ne hyt e.symm
            simp [hty]
          rw [Bool.eq_iff_iff, List.any_eq_true, List.any_eq_true]
          constructor
          · rintro ⟨t, ht, h⟩; exact ⟨t, ht, (hne t ht) ▸ h⟩
          · rintro ⟨t, ht, h⟩; exact ⟨t, ht, (hne t ht).symm ▸ h⟩

theorem matchClientTagsSpecific_iff (a b : List Bytes) (ha : SortedB a) (hb : SortedB b) :
    matchClientTagsSpecific a b = a.any (fun t => b.contains t) :=
  mergeCommon_iff a b ha hb _ (Nat.le_refl _)

/-! ### binary search -/

theorem toArray_getD_of_lt (xs : List Bytes) (i : Nat) (h : i < xs.length) :
    xs.toArray.getD i [] = xs[i] := by
  simp [Array.getD, h]

theorem sorted_getElem_le {xs : List Bytes} (h : SortedB xs) {i j : Nat} (hij : i ≤ j)
    (hj : j < xs.length) : Bytes.cmp (xs[i]'(by omega)) xs[j] ≠ .gt := by
  rcases Nat.lt_or_eq_of_le hij with hlt | heq
  · exact List.pairwise_iff_getElem.mp h i j (by omega) hj hlt
  · subst heq; rw [cmp_refl]; simp

theorem bsearch_go_eq (xs : List Bytes) (x : Bytes) (h : SortedB xs) (fuel lo hi : Nat)
    (hlo : ∀ i (hi' : i < xs.length), i < lo → Bytes.cmp xs[i] x = .lt)
    (hhi : ∀ i (hi' : i < xs.length), hi ≤ i → Bytes.cmp xs[i] x ≠ .lt)
    (hle : lo ≤ hi) (hn : hi ≤ xs.length) (hfuel : hi - lo < fuel) :
    bsearch.go xs.toArray x lo hi fuel = xs.contains x := by
  induction fuel generalizing lo hi with
  | zero => omega
  | succ fuel ih =>
    unfold bsearch.go
    by_cases hlt : lo < hi
    · simp only [hlt, if_true]
      have hmid : (lo + hi) / 2 < xs.length := by omega
      rw [toArray_getD_of_lt xs _ hmid]
      cases hc : Bytes.cmp xs[(lo + hi) / 2] x with
      | lt =>
        simp only []
        apply ih
        · intro i hi' hi2
          exact cmp_lt_of_le_of_lt (sorted_getElem_le h (by omega) hmid) hc
        · exact hhi
        · omega
        · exact hn
        · omega
      | eq =>
        simp only []
        apply ih
        · exact hlo
        · intro i hi' hi2 hcon
          have := cmp_lt_of_le_of_lt (sorted_getElem_le h hi2 hi') hcon
          rw [hc] at this; cases this
        · omega
        · omega
        · omega
      | gt =>
        simp only []
        apply ih
        · exact hlo
        · intro i hi' hi2 hcon
          have := cmp_lt_of_le_of_lt (sorted_getElem_le h hi2 hi') hcon
          rw [hc] at this; cases this
        · omega
        · omega
        · omega
    · have heq : lo = hi := by omega
      subst heq
      simp only [hlt, if_false, List.size_toArray]
      rw [Bool.eq_iff_iff, List.contains_iff_mem]
      constructor
      · intro hh
        simp only [Bool.and_eq_true, decide_eq_true_eq, beq_iff_eq] at hh
        rw [toArray_getD_of_lt xs _ hh.1] at hh
        rw [← hh.2]; exact List.getElem_mem _
      · intro hm
        obtain ⟨j, hj, hjx⟩ := List.mem_iff_getElem.mp hm
        have hjlo : lo ≤ j := by
          apply Nat.le_of_not_lt
          intro hjl
          have := hlo j hj hjl
          rw [hjx, cmp_refl] at this; cases this
        have hlon : lo < xs.length := by omega
        simp only [Bool.and_eq_true, decide_eq_true_eq, beq_iff_eq]
        refine ⟨hlon, ?_⟩
        rw [toArray_getD_of_lt xs _ hlon]
        have h1 : Bytes.cmp xs[lo] x ≠ .gt := by
          have := sorted_getElem_le h hjlo hj
          rwa [hjx] at this
        have h2 : Bytes.cmp x xs[lo] ≠ .gt := by
          intro hg
          exact hhi lo hlon (Nat.le_refl _) ((cmp_gt_iff_lt _ _).mp hg)
        exact cmp_antisymm h1 h2

/-- binary search on a sorted list finds x iff x is a member -/
theorem bsearch_iff (xs : List Bytes) (x : Bytes) (h : SortedB xs) :
    bsearch xs.toArray x = xs.contains x := by
  unfold bsearch
  simp only [List.size_toArray]
  apply bsearch_go_eq xs x h
  · intro i _ hi; omega
  · intro i hi' hi; omega
  · omega
  · omega
  · omega

end UF.E

import UF.Proofs.ProgDegraded
/-
  The machine side of `ProgDegraded`: a query run ALONE in any fault state answers exactly what the fault-free
  engine answers with the unavailable indexes struck out (`runQuery_degraded`).

  Invariant of the solo run (`Solo`): the availability of every index is what it was when the query started
  (the only cache insertion is `put idx r` of the thread itself, and it comes after ITS successful `read` of a
  list that is still open); a thread at `read idx` has just missed the cache; a thread at `put idx r` has just
  read an open list.  Under it the bookkeeping quantity `Tot` OF THE RESTRICTED ENGINE is constant
  (`step_totD`), exactly as `Tot` of the engine itself is constant when nothing is closed (`step_tot`).
-/
namespace UF.Prog
variable {R Re : Type}

/-- What a query running alone knows about the shared state. -/
structure Solo (env : Env R Re) (av : Idx → Bool) (s : State R Re) (t : Thread R) : Prop where
  av_eq : ∀ idx, avail env s idx = av idx
  read_miss : ∀ src idx, t.pc = .read src idx → cacheLookup s.cache idx = none
  put_open : ∀ src idx r, t.pc = .put src idx r → s.closed.contains (env.listOf idx) = false

theorem solo_init (env : Env R Re) (s : State R Re) (q : Query) : Solo env (avail env s) s (Thread.init q) :=
  ⟨fun _ => rfl, fun _ _ h => by simp [Thread.init] at h, fun _ _ _ h => by simp [Thread.init] at h⟩

theorem advance_pc_ne_read (t : Thread R) (src : Src) (idx : Idx) : t.advance.pc ≠ .read src idx := by
  unfold Thread.advance; split <;> (try split) <;> simp

theorem advance_pc_ne_put (t : Thread R) (src : Src) (idx : Idx) (r : R) : t.advance.pc ≠ .put src idx r := by
  unfold Thread.advance; split <;> (try split) <;> simp

/-- `read` is entered only from a cache miss, and the miss is still true (nobody else is running). -/
theorem step_read_miss (env : Env R Re) (s : State R Re) (t : Thread R) (src : Src) (idx : Idx)
    (h : (step env s t).2.pc = .read src idx) : cacheLookup (step env s t).1.cache idx = none := by
  rcases t with ⟨q, pc, req, todo, acc, stage⟩
  cases pc with
  | get src' idx' =>
    simp only [step, stepG] at h ⊢
    split
    · next r hr => rw [hr] at h; simp at h
    · next hr =>
      rw [hr] at h
      simp only [PC.read.injEq] at h
      rw [← h.2]; exact hr
  | _ =>
    exfalso
    revert h
    simp only [step, stepG] <;> repeat' split
    all_goals first | exact advance_pc_ne_read _ _ _ | simp

/-- `put` is entered only from a successful read of an open list. -/
theorem step_put_open (env : Env R Re) (s : State R Re) (t : Thread R) (src : Src) (idx : Idx) (r : R)
    (h : (step env s t).2.pc = .put src idx r) : (step env s t).1.closed.contains (env.listOf idx) = false := by
  rcases t with ⟨q, pc, req, todo, acc, stage⟩
  cases pc with
  | read src' idx' =>
    simp only [step, stepG] at h ⊢
    split
    · next hc => rw [if_pos hc] at h; simp at h
    · next hc =>
      rw [if_neg hc] at h
      split at h
      · simp only [PC.put.injEq] at h
        rw [← h.2.1]; simpa using hc
      · simp at h
  | _ =>
    exfalso
    revert h
    simp only [step, stepG] <;> repeat' split
    all_goals first | exact advance_pc_ne_put _ _ _ _ | simp

/-- The cache changes only by the `put` of the thread itself, at a key that was absent. -/
theorem step_cache_put (env : Env R Re) (s : State R Re) (t : Thread R) :
    (step env s t).1.cache = s.cache ∨
      ∃ src idx r, t.pc = .put src idx r ∧ (step env s t).1.cache = cacheInsert s.cache idx r := by
  rcases t with ⟨q, pc, req, todo, acc, stage⟩
  cases pc with
  | put src idx r =>
    simp only [step, stepG]; split
    · left; rfl
    · right; exact ⟨src, idx, r, rfl, rfl⟩
  | _ =>
    left
    simp only [step, stepG] <;> repeat' split
    all_goals rfl

/-- Availability does not change during a solo run. -/
theorem step_avail {env : Env R Re} {av : Idx → Bool} {s : State R Re} {t : Thread R} (h : Solo env av s t)
    (j : Idx) : avail env (step env s t).1 j = avail env s j := by
  unfold avail
  rw [step_closed]
  rcases step_cache_put env s t with h1 | ⟨src, idx, r, hpc, h1⟩
  · rw [h1]
  · have ho := h.put_open src idx r hpc
    rw [h1, cacheLookup_cacheInsert]
    split
    · next hj => subst hj; rw [ho]; simp
    · rfl

theorem step_solo {env : Env R Re} {av : Idx → Bool} {s : State R Re} {t : Thread R} (h : Solo env av s t) :
    Solo env av (step env s t).1 (step env s t).2 :=
  ⟨fun j => by rw [step_avail h j]; exact h.av_eq j, step_read_miss env s t, step_put_open env s t⟩

/-! ### the bookkeeping quantity of the restricted engine is invariant -/

theorem tot_restrict_get (env : Env R Re) (av : Idx → Bool) (q : Query) (req : Request) (todo : List Item)
    (acc : List (Item × R)) (stage : Bool) (src : Src) (idx : Idx) :
    Tot (env.restrict av) ⟨q, .get src idx, req, todo, acc, stage⟩ =
      pureFold (env.restrict av) req
        (useStep env req acc src idx ((if av idx then env.truth idx else none).filter (env.wants src))) todo := rfl

theorem tot_restrict_read (env : Env R Re) (av : Idx → Bool) (q : Query) (req : Request) (todo : List Item)
    (acc : List (Item × R)) (stage : Bool) (src : Src) (idx : Idx) :
    Tot (env.restrict av) ⟨q, .read src idx, req, todo, acc, stage⟩ =
      pureFold (env.restrict av) req
        (useStep env req acc src idx ((if av idx then env.truth idx else none).filter (env.wants src))) todo := rfl

theorem tot_restrict_put (env : Env R Re) (av : Idx → Bool) (q : Query) (req : Request) (todo : List Item)
    (acc : List (Item × R)) (stage : Bool) (src : Src) (idx : Idx) (r : R) :
    Tot (env.restrict av) ⟨q, .put src idx r, req, todo, acc, stage⟩ =
      pureFold (env.restrict av) req (useStep env req acc src idx ((some r).filter (env.wants src))) todo := rfl

theorem tot_restrict_use (env : Env R Re) (av : Idx → Bool) (q : Query) (req : Request) (todo : List Item)
    (acc : List (Item × R)) (stage : Bool) (src : Src) (idx : Idx) (o : Option R) :
    Tot (env.restrict av) ⟨q, .use src idx o, req, todo, acc, stage⟩ =
      pureFold (env.restrict av) req (useStep env req acc src idx o) todo := rfl

theorem tot_restrict_seq (env : Env R Re) (av : Idx → Bool) (q : Query) (req : Request) (todo : List Item)
    (acc : List (Item × R)) (stage : Bool) (k : Nat) :
    Tot (env.restrict av) ⟨q, .seq k, req, todo, acc, stage⟩ =
      pureFold (env.restrict av) req (seqStep env req acc k) todo := rfl

theorem tot_restrict_prep (env : Env R Re) (av : Idx → Bool) (q : Query) (req : Request) (todo : List Item)
    (acc : List (Item × R)) (stage : Bool) (it : Item) (r : R) :
    Tot (env.restrict av) ⟨q, .prep it r, req, todo, acc, stage⟩ =
      pureFold (env.restrict av) req (if env.mtch r req then acc ++ [(it, r)] else acc) todo := rfl

theorem tot_restrict_rx (env : Env R Re) (av : Idx → Bool) (q : Query) (req : Request) (todo : List Item)
    (acc : List (Item × R)) (stage : Bool) (it : Item) (r : R) :
    Tot (env.restrict av) ⟨q, .rx it r, req, todo, acc, stage⟩ =
      pureFold (env.restrict av) req (if env.mtch r req then acc ++ [(it, r)] else acc) todo := rfl

/-- Every action of a solo run except the first and `mid` leaves `Tot` of the restricted engine unchanged --
    in ANY fault state. -/
theorem step_totD {env : Env R Re} {av : Idx → Bool} {s : State R Re} {t : Thread R} (hs : SInv env s)
    (ht : TInv env t) (hrx : RxOK s t) (hso : Solo env av s t) (hst : t.pc ≠ .start) (hm : t.pc ≠ .mid) :
    Tot (env.restrict av) (step env s t).2 = Tot (env.restrict av) t := by
  rcases t with ⟨q, pc, req, todo, acc, stage⟩
  cases pc with
  | start => exact absurd rfl hst
  | mid => exact absurd rfl hm
  | get src idx =>
    rw [tot_restrict_get]
    simp only [step, stepG]; split
    · next r h =>
      have htr := hs.1 _ _ (cacheLookup_mem h)
      have hav : av idx = true := by rw [← hso.av_eq idx]; simp [avail, h]
      rw [tot_restrict_use, hav, if_pos rfl, htr]
    · rw [tot_restrict_read]
  | read src idx =>
    have hmiss := hso.read_miss src idx rfl
    rw [tot_restrict_read]
    simp only [step, stepG]
    split
    · next hc =>
      have hav : av idx = false := by rw [← hso.av_eq idx]; unfold avail; rw [hmiss, hc]; rfl
      rw [tot_restrict_use, hav]; rfl
    · next hc =>
      have hav : av idx = true := by rw [← hso.av_eq idx]; unfold avail; rw [Bool.eq_false_iff.2 hc]; simp
      rw [hav, if_pos rfl]
      split
      · next r h => rw [tot_restrict_put, h]
      · next h => rw [tot_restrict_use, h]; rfl
  | put src idx r =>
    have hp := ht.put_ok _ _ _ rfl
    rw [tot_restrict_put]
    simp only [step, stepG]; split
    · next r' h =>
      have h1 := hs.1 _ _ (cacheLookup_mem h)
      have : r' = r := Option.some.inj (h1.symm.trans hp)
      subst this; rw [tot_restrict_use]
    · rw [tot_restrict_use]
  | use src idx o =>
    rw [tot_restrict_use]
    simp only [step, stepG]
    cases o with
    | none => simp only [if_true, Tot_advance]; simp [useStep]
    | some r =>
      simp only
      split
      · next hdup => rw [Tot_advance]; simp [useStep, hdup]
      · next hdup =>
        split
        · next hh =>
          have hv : env.verdict src r req = env.pre r req := by simp [Env.verdict, hh]
          rw [Tot_advance]
          by_cases hp : env.pre r req <;> simp [useStep, hdup, hv, hp]
        · next hh =>
          have hh' : (src == Src.host) = false := by simpa using hh
          have hv := verdict_not_host env hh' r req
          split
          · next hp => rw [tot_restrict_prep]; simp [useStep, hdup, hv]
          · next hp =>
            have hmf : env.mtch r req = false := by simp [Env.mtch, hp]
            rw [Tot_advance]; simp [useStep, hdup, hv, hmf]
  | seq k =>
    rw [tot_restrict_seq]
    simp only [step, stepG]
    split
    · next hk => rw [Tot_advance]; simp [seqStep, hk]
    · next r hk =>
      split
      · rw [tot_restrict_prep]; simp [seqStep, hk]
      · next hp =>
        have hmf : env.mtch r req = false := by simp [Env.mtch, hp]
        rw [Tot_advance]; simp [seqStep, hk, hmf]
  | prep it r =>
    obtain ⟨hob, hpre⟩ := ht.prep_ok it r (Or.inl rfl)
    simp only at hpre
    rw [tot_restrict_prep]
    simp only [step, stepG]
    split
    · rw [tot_restrict_rx]
    · next hx =>
      have hb := cell_invalid hs.2 hob hx
      have hmf : env.mtch r req = false := by simp [Env.mtch, Env.patOK, hb]
      rw [Tot_advance]; simp [hmf]
    · split
      · next hx =>
        have hmt : env.mtch r req = true := by simp [Env.mtch, Env.patOK, hx, hpre]
        rw [Tot_advance]; simp [hmt]
      · rw [tot_restrict_rx]
      · next hx =>
        have hmf : env.mtch r req = false := by simp [Env.mtch, Env.patOK, hx]
        rw [Tot_advance]; simp [hmf]
  | rx it r =>
    obtain ⟨hob, hpre⟩ := ht.prep_ok it r (Or.inr rfl)
    simp only at hpre
    obtain ⟨x, hx⟩ := hrx it r rfl
    have hcr := cell_compiled hs.2 hob hx
    have hmt : env.mtch r req = env.accepts x r req := by simp [Env.mtch, Env.patOK, hcr, hpre]
    rw [tot_restrict_rx]
    simp only [step, stepG, hx]
    rw [Tot_advance]
    by_cases ha : env.accepts x r req <;> simp [hmt, ha]
  | fin => cases q <;> simp [step, stepG, Tot, pendAcc]
  | done => rfl
  | crash => rfl

/-! ### the first action, `mid`, and the end of the run -/

theorem step_restrict_start (env : Env R Re) (av : Idx → Bool) (s : State R Re) (t : Thread R) (h : t.pc = .start) :
    step (env.restrict av) s t = step env s t := by
  rcases t with ⟨q, pc, req, todo, acc, stage⟩
  simp only at h; subst h
  cases q <;> rfl

theorem step_restrict_mid (env : Env R Re) (av : Idx → Bool) (s : State R Re) (t : Thread R) (h : t.pc = .mid) :
    step (env.restrict av) s t = step env s t := by
  rcases t with ⟨q, pc, req, todo, acc, stage⟩
  simp only at h; subst h
  cases q <;> rfl

/-- At `mid` and `done` the thread-local invariant does not mention `truth`. -/
theorem tinv_restrict {env : Env R Re} (av : Idx → Bool) {t : Thread R} (ht : TInv env t)
    (h : t.pc = .mid ∨ t.pc = .done) : TInv (env.restrict av) t := by
  refine ⟨fun a b => by rw [restrict_reqOf]; exact ht.req_eq a b, ?_, ?_, ?_, ht.end_todo, ht.mid_stage, ht.fin_stage,
    ht.done_stage, ht.triv⟩
  · intro src idx r hp; rcases h with h | h <;> rw [h] at hp <;> cases hp
  · intro src idx r hp; rcases h with h | h <;> rw [h] at hp <;> cases hp
  · intro it r hp; rcases h with h | h <;> rw [h] at hp <;> rcases hp with hp | hp <;> cases hp

theorem target_stepD {env env' : Env R Re} {s : State R Re} {t : Thread R} (hst : t.pc ≠ .start) (hm : t.pc ≠ .mid) :
    target env' (step env s t).2 = target env' t := by
  simp only [target, step_stage hst hm, step_q, step_req hst]

/-- The bookkeeping of a solo run equals the stateless answer OF THE RESTRICTED ENGINE, in any fault state. -/
theorem step_goodEqD {env : Env R Re} {av : Idx → Bool} {s : State R Re} {t : Thread R} (hs : SInv env s)
    (hg : Good env s t) (hso : Solo env av s t) (he : GoodEq (env.restrict av) t) :
    GoodEq (env.restrict av) (step env s t).2 := by
  intro _ hq
  rw [step_q] at hq
  by_cases hst : t.pc = .start
  · have := (step_tot_start (env.restrict av) s t hst hq).1
    rwa [step_restrict_start env av s t hst] at this
  · by_cases hm : t.pc = .mid
    · have := step_tot_mid (s := s) (tinv_restrict av hg.1 (Or.inl hm)) hm (he hst hq)
      rwa [step_restrict_mid env av s t hm] at this
    · rw [step_totD hs hg.1 hg.2.1 hso hst hm, target_stepD hst hm]
      exact he hst hq

/-- THE DEGRADED ANSWER, EXACTLY: a query run alone from any state satisfying the shared invariant -- any lists
    closed, any cache, any lazy-compile cells -- answers what the fault-free engine answers when the indexes
    that are neither cached nor in an open list are struck out. -/
theorem runQuery_degraded {env : Env R Re} {s : State R Re} (q : Query) (hs : SInv env s) :
    (runQuery env s q).2.answer = pureAnswer (env.restrict (avail env s)) q := by
  have inv := runQuery_inv env
    (fun s' t => SInv env s' ∧ Good env s' t ∧ Solo env (avail env s) s' t ∧ GoodEq (env.restrict (avail env s)) t)
    (fun s' t h => ⟨step_sinv h.1 h.2.1.1, step_good h.1 h.2.1, step_solo h.2.2.1,
      step_goodEqD h.1 h.2.1 h.2.2.1 h.2.2.2⟩)
    s q ⟨hs, good_init env s q, solo_init env s q, goodEq_init _ q⟩
  have hd := (runQuery_good q hs).2.2
  rw [answer_of_goodEq (tinv_restrict _ inv.2.1.1 (Or.inr hd)) inv.2.2.2 hd, runQuery_q]

/-- ORDER: the network rules a sequentially run query returns in any fault state are a SUB-SEQUENCE of the
    fault-free answer; the host rules a sub-sequence of what the hosts table holds for the name. -/
theorem runQuery_sublist {env : Env R Re} {s : State R Re} (q : Query) (hs : SInv env s) :
    (runQuery env s q).2.answer.1.Sublist (pureAnswer env q).1 ∧
      (runQuery env s q).2.answer.2.Sublist (pureHosts env (env.reqOf q)) := by
  rw [runQuery_degraded q hs]
  exact ⟨nets_restrict_sublist env _ q, hosts_restrict_sublist env _ q⟩

/-- … spelled out for the network rules: exactly the entries of the fault-free first stage whose index is
    available (cached, or in an open list), in their order. -/
theorem runQuery_nets_exact {env : Env R Re} {s : State R Re} (q : Query) (hs : SInv env s) (hq : q.trivial = false) :
    (runQuery env s q).2.answer.1 = nets ((pure1 env (env.reqOf q)).filter (keep (avail env s))) := by
  rw [runQuery_degraded q hs, pureAnswer_nets _ q hq, restrict_reqOf, pure1_restrict]

/-- ORDER, lifted to histories with `close` events anywhere. -/
theorem history_sublist {env : Env R Re} (h : List HEv) : ∀ (s : State R Re), SInv env s →
    ∀ t ∈ (runHistoryT env s h).2, t.answer.1.Sublist (pureAnswer env t.q).1 ∧
      t.answer.2.Sublist (pureHosts env (env.reqOf t.q)) := by
  induction h with
  | nil => intro s _ t ht; cases ht
  | cons e rest ih =>
    intro s hs t ht
    cases e with
    | query q =>
      simp only [runHistoryT, List.mem_cons] at ht
      rcases ht with rfl | ht
      · rw [runQuery_q]; exact runQuery_sublist q hs
      · exact ih _ (runQuery_good q hs).1 t ht
    | close l => exact ih { s with closed := l :: s.closed } hs t ht

end UF.Prog

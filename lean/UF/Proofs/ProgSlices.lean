import UF.Model.Pool
/-
  `removeDNSRewriteRules` on explicit slices (C13, `rewrites_fresh`): with the capacity-limited
  reslice `rules[:i:i]` the first `append` finds `len = cap` and copies, so no existing backing array
  is ever written and the caller's slice shows the same elements afterwards.
-/
namespace UF
variable {α : Type}

theorem heap_getD_append_left (h ext : Heap α) {a : Nat} (ha : a < h.length) :
    heapAt (h ++ ext) a = heapAt h a := by
  simp [heapAt, List.getD_eq_getElem?_getD, List.getElem?_append_left ha]

theorem heap_getD_append_new (h : Heap α) (x : List α) : heapAt (h ++ [x]) h.length = x := by
  simp [heapAt, List.getD_eq_getElem?_getD]

/-- `append` to a full slice allocates; nothing existing is written. -/
theorem Slice.append_full (h : Heap α) (s : Slice) (x : α) (hf : s.len = s.cap) :
    Slice.append h s x = (h ++ [s.view h ++ [x]], { arr := h.length, len := s.len + 1, cap := s.len + 1 }) := by
  simp [Slice.append, hf]

/-- The loop of `removeDNSRewriteRules` once `filtered` is a full slice: the heap only grows and the
    result shows what `filtered` showed plus the non-rewrite elements from position `i` on. -/
theorem rewriteLoop_full (isRw : α → Bool) (h : Heap α) (rules : Slice) (ha : rules.arr < h.length)
    (hlen : rules.len ≤ (heapAt h rules.arr).length) :
    ∀ (fuel i : Nat) (ext : Heap α) (f : Slice), i + fuel = rules.len → f.len = f.cap →
      (f.view (h ++ ext)).length = f.len →
      ∃ ext' f', rewriteLoop isRw rules fuel i (h ++ ext) f = (h ++ ext', f') ∧
        f'.view (h ++ ext') =
          f.view (h ++ ext) ++ (((heapAt h rules.arr).take rules.len).drop i).filter (fun r => !isRw r) := by
  intro fuel
  induction fuel with
  | zero =>
    intro i ext f hi _ _
    refine ⟨ext, f, rfl, ?_⟩
    have : i = rules.len := by omega
    subst this
    simp [List.drop_take_self]
  | succ fuel ih =>
    intro i ext f hi hfull hvl
    have hil : i < rules.len := by omega
    have hia : i < (heapAt h rules.arr).length := by omega
    simp only [rewriteLoop, heap_getD_append_left h ext ha, List.getElem?_eq_getElem hia, hil, if_true]
    have hdrop : ((heapAt h rules.arr).take rules.len).drop i =
        (heapAt h rules.arr)[i] :: ((heapAt h rules.arr).take rules.len).drop (i + 1) := by
      have hlt : i < ((heapAt h rules.arr).take rules.len).length := by simp; omega
      rw [List.drop_eq_getElem_cons hlt]
      simp
    by_cases hr : isRw (heapAt h rules.arr)[i] = true
    · simp only [hr, if_true]
      obtain ⟨ext', f', h1, h2⟩ := ih (i + 1) ext f (by omega) hfull hvl
      refine ⟨ext', f', h1, ?_⟩
      rw [h2, hdrop]; simp [hr]
    · simp only [hr]
      rw [Slice.append_full _ _ _ hfull]
      simp only [Bool.false_eq_true, if_false]
      have hnew : (({ arr := (h ++ ext).length, len := f.len + 1, cap := f.len + 1 } : Slice).view
          ((h ++ ext) ++ [f.view (h ++ ext) ++ [(heapAt h rules.arr)[i]]])) =
          f.view (h ++ ext) ++ [(heapAt h rules.arr)[i]] := by
        simp only [Slice.view, heap_getD_append_new]
        apply List.take_of_length_le
        simp; omega
      have := ih (i + 1) (ext ++ [f.view (h ++ ext) ++ [(heapAt h rules.arr)[i]]])
        { arr := (h ++ ext).length, len := f.len + 1, cap := f.len + 1 } (by omega) rfl
        (by rw [← List.append_assoc, hnew]; simp; omega)
      obtain ⟨ext', f', h1, h2⟩ := this
      rw [← List.append_assoc] at h1 h2
      refine ⟨ext', f', h1, ?_⟩
      rw [h2, hnew, hdrop]
      simp [hr]

/-- C13 `rewrites_fresh` (helper form): the code's `rules[:i:i]` version never panics, leaves every
    existing array (hence the caller's slice) untouched and returns the non-rewrite rules in order. -/
theorem removeDNSRewriteRulesS_spec (isRw : α → Bool) (h : Heap α) (rules : Slice) (hwf : rules.WF h) :
    ∃ ext f, removeDNSRewriteRulesS isRw true h rules = some (h ++ ext, f) ∧
      f.view (h ++ ext) = (rules.view h).filter (fun r => !isRw r) := by
  obtain ⟨ha, hlc, hca⟩ := hwf
  unfold removeDNSRewriteRulesS
  cases hfi : (rules.view h).findIdx? isRw with
  | none =>
    refine ⟨[], rules, by simp, ?_⟩
    rw [List.findIdx?_eq_none_iff] at hfi
    simp only [List.append_nil]
    symm
    apply List.filter_eq_self.mpr
    intro x hx; simp [hfi x hx]
  | some i =>
    rw [List.findIdx?_eq_some_iff_getElem] at hfi
    obtain ⟨hi, _, hbefore⟩ := hfi
    have hvl : (rules.view h).length = rules.len := by simp [Slice.view]; omega
    have hil : i < rules.len := by omega
    have hres : rules.reslice3 i i = some { rules with len := i, cap := i } := by
      simp [Slice.reslice3]; omega
    simp only [if_true, hres]
    have h0 := rewriteLoop_full isRw h rules ha (by omega) (rules.len - i) i [] { rules with len := i, cap := i }
      (by omega) rfl (by simp [Slice.view]; omega)
    simp only [List.append_nil] at h0
    obtain ⟨ext', f', h1, h2⟩ := h0
    refine ⟨ext', f', by rw [h1], ?_⟩
    rw [h2]
    have hpre : ({ rules with len := i, cap := i } : Slice).view h = (rules.view h).take i := by
      simp [Slice.view, List.take_take]; omega
    have hpre2 : ((rules.view h).take i).filter (fun r => !isRw r) = (rules.view h).take i := by
      apply List.filter_eq_self.mpr
      intro x hx
      rw [List.mem_iff_getElem] at hx
      obtain ⟨j, hj, hxj⟩ := hx
      have hj' : j < i := by simp at hj; omega
      have := hbefore j hj'
      rw [List.getElem_take] at hxj
      rw [← hxj]; simpa using this
    rw [hpre, ← hpre2]
    change _ ++ List.filter _ (List.drop i (rules.view h)) = _
    rw [← List.filter_append, List.take_append_drop]

end UF

import UF.Spec.Priority
/- Example rules used by the non-vacuity / old-shape examples of UF/Props/C07.lean. -/
namespace UF.C07

/-- `||e^$script,image,media` (three content types) and `||e^$domain=e.org`. -/
def exA : NetRule := { permTypes := Facts.TypeScript ||| Facts.TypeImage ||| Facts.TypeMedia }
def exB : NetRule := { permDomains := [lit "e.org"] }

/-- `||e^$client=a` and `||e^$dnstype=A`. -/
def exC : NetRule := { permClients := some { hosts := [lit "a"], nets := [] } }
def exD : NetRule := { permDns := [1] }

end UF.C07

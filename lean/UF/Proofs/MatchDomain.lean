import UF.Spec.Match
import UF.Proofs.MergeSorted
namespace UF.E
open Bytes

/-! ### `hasPrefix` / `hasSuffix` -/

theorem hasPrefix_iff (s p : Bytes) : hasPrefix s p = true ↔ ∃ t, s = p ++ t := by
  induction s generalizing p with
  | nil =>
    cases p with
    | nil => simp [hasPrefix]
    | cons b p => simp [hasPrefix]
  | cons a s ih =>
    cases p with
    | nil => simp [hasPrefix]
    | cons b p =>
      simp only [hasPrefix, Bool.and_eq_true, beq_iff_eq, ih, List.cons_append, List.cons.injEq]
      constructor
      · rintro ⟨e, t, ht⟩; exact ⟨t, e, ht⟩
      · rintro ⟨t, e, ht⟩; exact ⟨e, t, ht⟩

theorem hasPrefix_append (p t : Bytes) : hasPrefix (p ++ t) p = true :=
  (hasPrefix_iff _ _).mpr ⟨t, rfl⟩

theorem hasSuffix_iff (s p : Bytes) : hasSuffix s p = true ↔ ∃ t, s = t ++ p := by
  unfold hasSuffix
  rw [hasPrefix_iff]
  constructor
  · rintro ⟨t, ht⟩
    refine ⟨t.reverse, ?_⟩
    have := congrArg List.reverse ht
    simpa using this
  · rintro ⟨t, ht⟩
    exact ⟨t.reverse, by simp [ht]⟩

theorem hasSuffix_append (t p : Bytes) : hasSuffix (t ++ p) p = true :=
  (hasSuffix_iff _ _).mpr ⟨t, rfl⟩

/-! ### `indexOf` -/

/-- `sub` occurs in `s` at byte offset `i`. -/
def OccAt (s sub : Bytes) (i : Nat) : Prop := ∃ a b, s = a ++ sub ++ b ∧ a.length = i

theorem occAt_zero_iff (s sub : Bytes) : OccAt s sub 0 ↔ hasPrefix s sub = true := by
  rw [hasPrefix_iff]
  constructor
  · rintro ⟨a, b, h, ha⟩
    have : a = [] := List.eq_nil_of_length_eq_zero ha
    subst this
    exact ⟨b, by simpa using h⟩
  · rintro ⟨t, h⟩
    exact ⟨[], t, by simpa using h, rfl⟩

theorem occAt_nil_iff (sub : Bytes) (i : Nat) : OccAt [] sub i ↔ sub = [] ∧ i = 0 := by
  constructor
  · rintro ⟨a, b, h, ha⟩
    have h' := h.symm
    simp only [List.append_eq_nil_iff] at h'
    obtain ⟨⟨ha', hs⟩, _⟩ := h'
    subst ha'
    exact ⟨hs, ha.symm⟩
  · rintro ⟨rfl, rfl⟩
    exact ⟨[], [], rfl, rfl⟩

theorem occAt_cons_succ_iff (c : UInt8) (s sub : Bytes) (i : Nat) :
    OccAt (c :: s) sub (i + 1) ↔ OccAt s sub i := by
  constructor
  · rintro ⟨a, b, h, ha⟩
    cases a with
    | nil => simp at ha
    | cons a0 a =>
      simp only [List.cons_append, List.cons.injEq] at h
      exact ⟨a, b, h.2, by simpa using ha⟩
  · rintro ⟨a, b, h, ha⟩
    exact ⟨c :: a, b, by simp [h], by simp [ha]⟩

theorem occAt_le_length {s sub : Bytes} {i : Nat} (h : OccAt s sub i) : i + sub.length ≤ s.length := by
  obtain ⟨a, b, h, ha⟩ := h
  subst h; simp; omega

theorem indexOf_go_shift (sub s : Bytes) (k : Nat) :
    indexOf.go sub s k = (indexOf.go sub s 0).map (· + k) := by
  induction s generalizing k with
  | nil => simp only [indexOf.go]; split <;> simp
  | cons a t ih =>
    simp only [indexOf.go]
    split
    · simp
    · rw [ih (k + 1), ih (0 + 1)]
      simp only [Option.map_map]
      congr 1
      funext x
      simp only [Function.comp]
      omega

theorem indexOf_nil (sub : Bytes) : indexOf [] sub = if sub.isEmpty then some 0 else none := by
  simp [indexOf, indexOf.go]

theorem indexOf_cons (a : UInt8) (t sub : Bytes) :
    indexOf (a :: t) sub =
      if hasPrefix (a :: t) sub then some 0 else (indexOf t sub).map (· + 1) := by
  simp only [indexOf, indexOf.go]
  split
  · rfl
  · rw [indexOf_go_shift]

/-- `strings.Index s sub = i`: `sub` occurs at offset `i` and at no earlier offset. -/
theorem indexOf_some_iff (s sub : Bytes) (i : Nat) :
    indexOf s sub = some i ↔ OccAt s sub i ∧ ∀ j, j < i → ¬ OccAt s sub j := by
  induction s generalizing i with
  | nil =>
    rw [indexOf_nil]
    simp only [occAt_nil_iff]
    cases sub with
    | nil =>
      simp only [List.isEmpty_nil, if_true, Option.some.injEq, true_and]
      constructor
      · intro h; subst h; exact ⟨rfl, fun j hj => by omega⟩
      · intro h; exact h.1.symm
    | cons b sub => simp
  | cons a t ih =>
    rw [indexOf_cons]
    by_cases hp : hasPrefix (a :: t) sub = true
    · simp only [hp, if_true, Option.some.injEq]
      constructor
      · intro h; subst h
        exact ⟨(occAt_zero_iff _ _).mpr hp, fun j hj => by omega⟩
      · rintro ⟨_, h2⟩
        cases i with
        | zero => rfl
        | succ i => exact absurd ((occAt_zero_iff _ _).mpr hp) (h2 0 (by omega))
    · simp only [hp, Bool.false_eq_true, if_false, Option.map_eq_some_iff]
      have hp0 : ¬ OccAt (a :: t) sub 0 := fun h => hp ((occAt_zero_iff _ _).mp h)
      constructor
      · rintro ⟨i', hi', rfl⟩
        obtain ⟨h1, h2⟩ := (ih i').mp hi'
        refine ⟨(occAt_cons_succ_iff _ _ _ _).mpr h1, ?_⟩
        intro j hj
        cases j with
        | zero => exact hp0
        | succ j =>
          rw [occAt_cons_succ_iff]
          exact h2 j (by omega)
      · rintro ⟨h1, h2⟩
        cases i with
        | zero => exact absurd h1 hp0
        | succ i =>
          refine ⟨i, (ih i).mpr ⟨(occAt_cons_succ_iff _ _ _ _).mp h1, ?_⟩, rfl⟩
          intro j hj hocc
          exact h2 (j + 1) (by omega) ((occAt_cons_succ_iff _ _ _ _).mpr hocc)

/-- `strings.Index s sub = -1`: no occurrence. -/
theorem indexOf_none_iff (s sub : Bytes) : indexOf s sub = none ↔ ∀ i, ¬ OccAt s sub i := by
  induction s with
  | nil =>
    rw [indexOf_nil]
    simp only [occAt_nil_iff]
    cases sub with
    | nil => simp
    | cons b sub => simp
  | cons a t ih =>
    rw [indexOf_cons]
    by_cases hp : hasPrefix (a :: t) sub = true
    · simp only [hp, if_true]
      constructor
      · intro h; cases h
      · intro h; exact absurd ((occAt_zero_iff _ _).mpr hp) (h 0)
    · simp only [hp, Bool.false_eq_true, if_false, Option.map_eq_none_iff, ih]
      constructor
      · intro h i
        cases i with
        | zero => exact fun h0 => hp ((occAt_zero_iff _ _).mp h0)
        | succ i => rw [occAt_cons_succ_iff]; exact h i
      · intro h i hocc
        exact h (i + 1) ((occAt_cons_succ_iff _ _ _ _).mpr hocc)

theorem indexOf_isSome_iff (s sub : Bytes) : (indexOf s sub).isSome = true ↔ ∃ i, OccAt s sub i := by
  cases h : indexOf s sub with
  | none =>
    have := (indexOf_none_iff s sub).mp h
    simp only [Option.isSome_none, Bool.false_eq_true, false_iff, not_exists]
    exact this
  | some i =>
    simp only [Option.isSome_some, true_iff]
    exact ⟨i, ((indexOf_some_iff s sub i).mp h).1⟩

theorem indexOf_zero_iff (s sub : Bytes) : indexOf s sub = some 0 ↔ hasPrefix s sub = true := by
  rw [indexOf_some_iff, occAt_zero_iff]
  constructor
  · exact fun h => h.1
  · exact fun h => ⟨h, fun j hj => by omega⟩

/-- `strings.Contains s sub`. -/
theorem hasSub_iff (s sub : Bytes) : hasSub s sub = true ↔ ∃ a b, s = a ++ sub ++ b := by
  unfold hasSub
  rw [indexOf_isSome_iff]
  constructor
  · rintro ⟨i, a, b, h, _⟩; exact ⟨a, b, h⟩
  · rintro ⟨a, b, h⟩; exact ⟨a.length, a, b, h, rfl⟩

/-- `strings.Index s sub > 0` as the model writes it: an occurrence exists and none at offset 0. -/
theorem indexOf_pos_iff (s sub : Bytes) :
    ((indexOf s sub).getD 0 > 0 ∧ (indexOf s sub).isSome = true) ↔
      (∃ i, OccAt s sub i) ∧ hasPrefix s sub = false := by
  cases h : indexOf s sub with
  | none =>
    have := (indexOf_none_iff s sub).mp h
    simp only [Option.getD_none, Option.isSome_none, Bool.false_eq_true, and_false, false_iff]
    rintro ⟨⟨i, hi⟩, _⟩
    exact this i hi
  | some i =>
    have hi := (indexOf_some_iff s sub i).mp h
    simp only [Option.getD_some, Option.isSome_some, and_true]
    constructor
    · intro hpos
      refine ⟨⟨i, hi.1⟩, ?_⟩
      cases hp : hasPrefix s sub with
      | false => rfl
      | true => exact absurd ((occAt_zero_iff _ _).mpr hp) (hi.2 0 hpos)
    · rintro ⟨_, hp⟩
      cases i with
      | zero =>
        have := (occAt_zero_iff _ _).mp hi.1
        rw [hp] at this; cases this
      | succ i => omega

/-! ### plain domains -/

/-- the double-HasSuffix test of the Go code is the plain "is d or a subdomain of d" statement -/
theorem plain_domain_test_iff (host d : Bytes) :
    (host == d || (hasSuffix host d && hasSuffix host (ch '.' :: d))) = specPlainDomain host d := by
  unfold specPlainDomain
  cases h2 : hasSuffix host (ch '.' :: d) with
  | false => simp
  | true =>
    obtain ⟨t, ht⟩ := (hasSuffix_iff _ _).mp h2
    have : hasSuffix host d = true :=
      (hasSuffix_iff _ _).mpr ⟨t ++ [ch '.'], by simp [ht]⟩
    simp [this]

/-! ### wildcard domains -/

theorem head?_ne_of_hasPrefix_false_cons {host w : Bytes} {c : UInt8}
    (h : host.head? ≠ some c) : hasPrefix host (c :: w) = false := by
  cases hp : hasPrefix host (c :: w) with
  | false => rfl
  | true =>
    obtain ⟨t, ht⟩ := (hasPrefix_iff _ _).mp hp
    subst ht
    simp at h

/-- the final test of the wildcard branch implies its pre-check, for hosts not starting with `.` -/
theorem wildcard_precheck_of_final (host w tld : Bytes) (h : host.head? ≠ some (ch '.'))
    (hfin : (host == w ++ tld || hasSuffix host (ch '.' :: (w ++ tld))) = true) :
    (hasPrefix host w ||
        (decide ((indexOf host w).getD 0 > 0 ∧ (indexOf host w).isSome) &&
         decide ((indexOf host (ch '.' :: w)).getD 0 > 0 ∧
            (indexOf host (ch '.' :: w)).isSome))) = true := by
  rw [Bool.or_eq_true] at hfin
  rcases hfin with heq | hsuf
  · have : host = w ++ tld := by simpa using heq
    subst this
    simp [hasPrefix_append]
  · obtain ⟨x, hx⟩ := (hasSuffix_iff _ _).mp hsuf
    cases hp : hasPrefix host w with
    | true => simp
    | false =>
      have hdot : hasPrefix host (ch '.' :: w) = false := head?_ne_of_hasPrefix_false_cons h
      have h1 : (indexOf host w).getD 0 > 0 ∧ (indexOf host w).isSome = true :=
        (indexOf_pos_iff _ _).mpr
          ⟨⟨(x ++ [ch '.']).length, x ++ [ch '.'], tld, by simp [hx], rfl⟩, hp⟩
      have h2 : (indexOf host (ch '.' :: w)).getD 0 > 0 ∧
          (indexOf host (ch '.' :: w)).isSome = true :=
        (indexOf_pos_iff _ _).mpr ⟨⟨x.length, x, tld, by simp [hx], rfl⟩, hdot⟩
      simp [h1, h2]

theorem lit_dotstar : lit ".*" = [ch '.', 42] := by decide

/-- the wildcard test with its HasPrefix / Index>0 pre-check is the spec's statement (label boundary
    included), for hosts that do not begin with a dot -/
theorem domainEntryMatches_eq_spec (ext : Ext) (host d : Bytes) (h : host.head? ≠ some (ch '.')) :
    domainEntryMatches ext host d = specDomainEntry ext host d := by
  unfold domainEntryMatches specDomainEntry
  by_cases hd : hasSuffix d (lit ".*") = true
  · obtain ⟨base, hb⟩ := (hasSuffix_iff _ _).mp hd
    rw [lit_dotstar] at hb
    have hw : d.take (d.length - 1) = base ++ [ch '.'] := by
      subst hb
      have : (base ++ [ch '.', 42]) = (base ++ [ch '.']) ++ [42] := by simp
      rw [this]
      apply List.take_left'
      simp
    have hbase : d.take (d.length - 2) = base := by
      subst hb
      apply List.take_left'
      simp
    unfold specWildcardDomain
    rcases hpsl : ext.psl host with ⟨tld, icann⟩
    simp only [hd, if_true, hw, hbase]
    have hname : base ++ [ch '.'] ++ tld = base ++ ch '.' :: tld := by simp
    split
    · rw [hname]
    · rename_i hpre
      rw [← hname]
      cases hfin : (host == base ++ [ch '.'] ++ tld ||
          hasSuffix host (ch '.' :: (base ++ [ch '.'] ++ tld)))
      · simp
      · exact absurd (wildcard_precheck_of_final host (base ++ [ch '.']) tld h hfin) hpre
  · simp only [hd, Bool.false_eq_true, if_false]
    exact plain_domain_test_iff host d

theorem isDomainOrSubdomainOfAny_eq_spec (ext : Ext) (host : Bytes) (ds : List Bytes)
    (h : host.head? ≠ some (ch '.')) :
    isDomainOrSubdomainOfAny ext host ds = specInDomains ext host ds := by
  unfold isDomainOrSubdomainOfAny specInDomains
  congr 1
  funext d
  exact domainEntryMatches_eq_spec ext host d h

/-! ### content-type masks -/

theorem and_two_pow_cases (n k : Nat) : n &&& 2 ^ k = 0 ∨ n &&& 2 ^ k = 2 ^ k := by
  cases hb : n.testBit k with
  | false =>
    left
    apply Nat.eq_of_testBit_eq
    intro i
    simp only [Nat.testBit_and, Nat.testBit_two_pow, Nat.zero_testBit]
    by_cases hki : k = i
    · subst hki; simp [hb]
    · simp [hki]
  | true =>
    right
    apply Nat.eq_of_testBit_eq
    intro i
    simp only [Nat.testBit_and, Nat.testBit_two_pow]
    by_cases hki : k = i
    · subst hki; simp [hb]
    · simp [hki]

/-- content-type masks: for a request type that is a single bit -/
theorem matchRequestType_eq_spec (r : NetRule) (k : Nat) :
    matchRequestType r (2 ^ k) = specReqType r (2 ^ k) := by
  unfold matchRequestType specReqType
  have hpos : 2 ^ k ≠ 0 := Nat.pos_iff_ne_zero.mp (Nat.two_pow_pos k)
  have e3 : ((0 : Nat) != 2 ^ k) = true := bne_iff_ne.mpr hpos.symm
  have e4 : ((2 ^ k : Nat) != 0) = true := bne_iff_ne.mpr hpos
  have e5 : ((2 ^ k : Nat) == 0) = false := beq_eq_false_iff_ne.mpr hpos
  have e6 : ((0 : Nat) == 2 ^ k) = false := beq_eq_false_iff_ne.mpr hpos.symm
  have hp : (r.permTypes == 0 || (r.permTypes &&& 2 ^ k) != 0) =
      !(r.permTypes != 0 && (r.permTypes &&& 2 ^ k) != 2 ^ k) := by
    by_cases h0 : r.permTypes = 0
    · simp [h0]
    · have e1 : (r.permTypes == 0) = false := beq_eq_false_iff_ne.mpr h0
      have e2 : (r.permTypes != 0) = true := bne_iff_ne.mpr h0
      rcases and_two_pow_cases r.permTypes k with e | e
      · rw [e, e1, e2, e3]; simp
      · rw [e, e1, e2, e4]; simp
  have hr : ((r.restrTypes &&& 2 ^ k) == 0) =
      !(r.restrTypes != 0 && (r.restrTypes &&& 2 ^ k) == 2 ^ k) := by
    by_cases h0 : r.restrTypes = 0
    · simp [h0]
    · have e2 : (r.restrTypes != 0) = true := bne_iff_ne.mpr h0
      rcases and_two_pow_cases r.restrTypes k with e | e
      · rw [e, e2, e6]; simp
      · rw [e, e2, e5]; simp
  rw [hp, hr]

end UF.E

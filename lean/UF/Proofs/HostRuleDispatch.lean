import UF.Proofs.HostRule
/-
  Helper lemmas for C18 (`c18_dispatch`): outside the carve-out of DESIGN.md §6 a line is
  neither a comment nor cosmetic syntax for `NewRule`.
-/
namespace UF.H
open Bytes

theorem indexByte_go_head (c : UInt8) (s : Bytes) (k i : Nat) (h : indexByte.go c s k = some i) :
    (s.drop (i - k)).head? = some c := by
  induction s generalizing k with
  | nil => simp [indexByte.go] at h
  | cons a t ih =>
    rw [indexByte.go] at h
    split at h
    · rename_i hac
      cases h
      simp at hac
      simp [hac]
    · have hb := indexByte_go_lt t c (k + 1) i h
      have := ih (k + 1) h
      have hik : i - k = (i - (k + 1)) + 1 := by omega
      rw [hik, List.drop_succ_cons]
      exact this

theorem indexByte_head {s : Bytes} {c : UInt8} {i : Nat} (h : indexByte s c = some i) :
    (s.drop i).head? = some c := by
  simpa using indexByte_go_head c s 0 i h

theorem indexByte_zero_head {s : Bytes} {c : UInt8} (h : indexByte s c = some 0) : s.head? = some c := by
  simpa using indexByte_head h

theorem hasPrefix_nil_iff (m : Bytes) : hasPrefix [] m = true → m = [] := by
  cases m <;> simp [hasPrefix]

theorem indexOf_go_isSome (m : Bytes) (s : Bytes) (i j : Nat)
    (h : hasPrefix (s.drop j) m = true) : (indexOf.go m s i).isSome = true := by
  induction s generalizing i j with
  | nil =>
    have := hasPrefix_nil_iff m (by simpa using h)
    subst this
    simp [indexOf.go]
  | cons a t ih =>
    rw [indexOf.go]
    split
    · rfl
    · rename_i hnp
      cases j with
      | zero => simp at h; exact absurd h hnp
      | succ j' => exact ih (i + 1) j' (by simpa using h)

theorem hasSub_of_hasPrefix_drop {s m : Bytes} {j : Nat} (h : hasPrefix (s.drop j) m = true) :
    hasSub s m = true := by
  unfold hasSub indexOf
  exact indexOf_go_isSome m s 0 j h

theorem startsAtIndexWith_hasPrefix {s m : Bytes} {i : Nat} (h : startsAtIndexWith s i m = true) :
    hasPrefix (s.drop i) m = true := by
  unfold startsAtIndexWith at h
  split at h
  · cases h
  · exact h

/-- One round of the outer loop of `findCosmeticRuleMarker` that finds nothing. -/
theorem findCosmeticRuleMarkerWith_skip (fc : UInt8) (more : List UInt8) (markers : List Bytes) (line : Bytes)
    (h : ∀ i, indexByte line fc = some i →
      (i > 0 ∧ (line[i - 1]? = some (ch ' ') ∨ line[i - 1]? = some (ch '\t'))) ∨
      inHostsComment line i = true ∨
      ∀ m ∈ markers, startsAtIndexWith line i m = false) :
    findCosmeticRuleMarkerWith (fc :: more) markers line = findCosmeticRuleMarkerWith more markers line := by
  rw [findCosmeticRuleMarkerWith]
  cases hi : indexByte line fc with
  | none => rfl
  | some i =>
    simp only
    rcases h i hi with ⟨hpos, hb⟩ | hcm | hnone
    · have : (decide (i > 0) && (line[i - 1]? == some (ch ' ') || line[i - 1]? == some (ch '\t'))) = true := by
        rcases hb with hb | hb <;> simp [hpos, hb]
      simp [this]
    · split
      · rfl
      · rfl
    · split
      · rfl
      · split
        · rfl
        · have : markers.find? (fun m => startsAtIndexWith line i m) = none := by
            rw [List.find?_eq_none]
            intro m hm
            simp [hnone m hm]
          simp [this]

theorem markers_shape :
    Facts.H.cosmeticMarkers.all (fun m => m.head? == some (ch '#') || m == lit "$$" || m == lit "$@$") = true := by
  decide

theorem markers_nonempty : Facts.H.cosmeticMarkers.all (fun m => !m.isEmpty) = true := by decide

theorem markerFirstChars_eq : Facts.H.cosmeticMarkerFirstChars = [ch '#', ch '$'] := by decide

theorem hasPrefix_head_ne {s m : Bytes} {a b : UInt8} (hs : s.head? = some a) (hm : m.head? = some b)
    (hab : a ≠ b) : hasPrefix s m = false := by
  cases s with
  | nil => simp at hs
  | cons x xs =>
    cases m with
    | nil => simp at hm
    | cons y ys =>
      simp at hs hm
      subst hs hm
      simp [hasPrefix, hab]

theorem indexByte_getElem? {s : Bytes} {c : UInt8} {i : Nat} (h : indexByte s c = some i) : s[i]? = some c := by
  have := indexByte_head h
  rwa [List.head?_drop] at this

/-- The '$' round finds nothing on a line that does not start with '#' and whose text before the
    comment sign contains no '$': the first '$' (if any) lies after the first '#', so
    `inHostsComment` holds (the repair of D16). -/
theorem dollarRound_skip (more : List UInt8) (markers : List Bytes) (line : Bytes)
    (hhash : (line.head? == some (ch '#')) = false)
    (hbody : (hostLineBody line).any (fun c => c == ch '$') = false) :
    findCosmeticRuleMarkerWith (ch '$' :: more) markers line = findCosmeticRuleMarkerWith more markers line := by
  apply findCosmeticRuleMarkerWith_skip
  intro j hj
  right; left
  have hjd : line[j]? = some (ch '$') := indexByte_getElem? hj
  unfold inHostsComment
  unfold hostLineBody at hbody
  cases hi : indexByte line (ch '#') with
  | none =>
    rw [hi] at hbody
    simp only at hbody
    have hmem : ch '$' ∈ line := List.mem_of_getElem? hjd
    rw [List.any_eq_false] at hbody
    exact absurd (by simp) (hbody _ hmem)
  | some i =>
    rw [hi] at hbody
    simp only at hbody
    have hih : line[i]? = some (ch '#') := indexByte_getElem? hi
    have hipos : i > 0 := by
      apply Nat.pos_of_ne_zero
      intro h0
      subst h0
      have := indexByte_zero_head hi
      rw [this] at hhash
      simp at hhash
    simp only [hipos, if_true] at hbody
    have hij : i < j := by
      rcases Nat.lt_trichotomy i j with h | h | h
      · exact h
      · subst h
        rw [hih] at hjd
        exact absurd hjd (by decide)
      · exfalso
        have : (line.take i)[j]? = some (ch '$') := by
          rw [List.getElem?_take_of_lt h]; exact hjd
        have hmem : ch '$' ∈ line.take i := List.mem_of_getElem? this
        rw [List.any_eq_false] at hbody
        exact hbody _ hmem (by simp)
    simp [hipos, hij]

/-- `isComment` only looks at the first byte (and, for '#', at the markers). -/
theorem isCommentLine_false_of_head (line : Bytes) (hbang : (line.head? == some (ch '!')) = false)
    (hhash : (line.head? == some (ch '#')) = false) : isCommentLine line = false := by
  cases line with
  | nil => rfl
  | cons c rest =>
    have h1 : (c == ch '!') = false := by simpa using hbang
    have h2 : (c == ch '#') = false := by simpa using hhash
    simp [isCommentLine, h1, h2]

/-- A syntactic sufficient condition, for EVERY line: if the line does not start like a comment,
    the text before the comment sign contains no '$', and the first '#' does not start a cosmetic
    marker directly after a non-blank, then `NewRule` takes the line neither for a comment nor for a
    cosmetic rule -- whatever follows the comment sign. -/
theorem not_comment_not_cosmetic (line : Bytes) (h : hostLineOutside line = false) :
    isCommentLine line = false ∧ isCosmeticLine line = false := by
  unfold hostLineOutside at h
  simp only [Bool.or_eq_false_iff] at h
  obtain ⟨⟨⟨hbang, hhash⟩, hbody⟩, hmark⟩ := h
  refine ⟨isCommentLine_false_of_head line hbang hhash, ?_⟩
  unfold isCosmeticLine findCosmeticRuleMarker
  rw [markerFirstChars_eq]
  rw [findCosmeticRuleMarkerWith_skip, dollarRound_skip _ _ _ hhash hbody]
  · simp [findCosmeticRuleMarkerWith]
  · -- '#'
    intro i hi
    rw [hi] at hmark
    simp only [Bool.and_eq_false_iff, decide_eq_false_iff_not, Bool.not_eq_false', Bool.not_eq_eq_eq_not,
      Bool.not_true] at hmark
    have hipos : i > 0 := by
      apply Nat.pos_of_ne_zero
      intro h0
      subst h0
      have := indexByte_zero_head hi
      rw [this] at hhash
      simp at hhash
    rcases hmark with (hpos | hb) | hany
    · exact absurd hipos hpos
    · left
      exact ⟨hipos, by simpa using hb⟩
    · right; right
      intro m hm
      cases hs : startsAtIndexWith line i m with
      | false => rfl
      | true =>
        have hp := startsAtIndexWith_hasPrefix hs
        have := List.any_eq_false.mp hany m hm
        rw [hp] at this
        simp at this

/-! ### The lines of the grammar: `pre ++ cmt` with a '#'-free, '$'-free `pre` -/

/-- The last byte of `s` is a blank. -/
def lastIsBlank (s : Bytes) : Bool :=
  match s.getLast? with
  | some b => isBlank b
  | none => false

theorem hasPrefix_length_le {s m : Bytes} (h : hasPrefix s m = true) : m.length ≤ s.length := by
  induction m generalizing s with
  | nil => simp
  | cons y ys ih =>
    cases s with
    | nil => simp [hasPrefix] at h
    | cons x xs =>
      simp only [hasPrefix, Bool.and_eq_true] at h
      have := ih h.2
      simp only [List.length_cons]
      omega

theorem startsAtIndexWith_eq_hasPrefix (s : Bytes) (i : Nat) (m : Bytes) (hi : i ≤ s.length) :
    startsAtIndexWith s i m = hasPrefix (s.drop i) m := by
  unfold startsAtIndexWith
  split
  · rename_i hlt
    cases hp : hasPrefix (s.drop i) m with
    | false => rfl
    | true =>
      have := hasPrefix_length_le hp
      simp only [List.length_drop] at this
      omega
  · rfl

theorem getLast?_isBlank_eq (pre : Bytes) (hne : pre ≠ []) :
    (pre[pre.length - 1]? == some (ch ' ') || pre[pre.length - 1]? == some (ch '\t')) = lastIsBlank pre := by
  unfold lastIsBlank
  rw [List.getLast?_eq_getElem?]
  have : pre.length - 1 < pre.length := by
    have := List.length_pos_iff.mpr hne
    omega
  rw [List.getElem?_eq_getElem this]
  simp [isBlank]

/-- The '#' round on `pre ++ '#' :: c`: the first '#' is the comment sign; it is looked at unless a
    blank precedes it (it is never "inside the comment" itself). -/
theorem hashRound_comment (more : List UInt8) (markers : List Bytes) (pre c : Bytes)
    (hne : pre ≠ []) (hf : hashFree pre = true) :
    findCosmeticRuleMarkerWith (ch '#' :: more) markers (pre ++ ch '#' :: c) =
      if lastIsBlank pre then findCosmeticRuleMarkerWith more markers (pre ++ ch '#' :: c)
      else match markers.find? (fun m => hasPrefix (ch '#' :: c) m) with
        | some m => some (pre.length, m)
        | none => findCosmeticRuleMarkerWith more markers (pre ++ ch '#' :: c) := by
  have hidx : indexByte (pre ++ ch '#' :: c) (ch '#') = some pre.length := by
    unfold indexByte
    rw [indexByte_go_append_hit _ _ _ _ hf]
    simp
  have hpos : 0 < pre.length := List.length_pos_iff.mpr hne
  rw [findCosmeticRuleMarkerWith, hidx]
  simp only
  have hprev : (pre ++ ch '#' :: c)[pre.length - 1]? = pre[pre.length - 1]? := by
    rw [List.getElem?_append_left (by omega)]
  have hin : inHostsComment (pre ++ ch '#' :: c) pre.length = false := by
    unfold inHostsComment
    rw [hidx]
    simp
  have hfind : markers.find? (fun m => startsAtIndexWith (pre ++ ch '#' :: c) pre.length m) =
      markers.find? (fun m => hasPrefix (ch '#' :: c) m) := by
    congr 1
    funext m
    rw [startsAtIndexWith_eq_hasPrefix _ _ _ (by simp)]
    simp
  rw [hprev, getLast?_isBlank_eq pre hne, hin, hfind]
  simp only [hpos, decide_true, Bool.true_and, Bool.false_eq_true, if_false]
  cases lastIsBlank pre with
  | true => rfl
  | false =>
    simp only [Bool.false_eq_true, if_false]
    cases List.find? (fun m => hasPrefix (ch '#' :: c) m) markers <;> rfl

/-- `isCosmetic` on a line `pre ++ comment?` whose text before the comment sign is non-empty and
    contains neither '#' nor '$': the line is cosmetic syntax exactly when the comment sign directly
    follows a non-blank and begins a cosmetic marker.  NOTHING else in the comment matters. -/
theorem isCosmeticLine_pre_cmt (pre cmt : Bytes) (hne : pre ≠ []) (hf : hashFree pre = true)
    (hd : dollarFree pre = true) (hc : isCommentTail cmt = true) :
    isCosmeticLine (pre ++ cmt) =
      (!lastIsBlank pre && Facts.H.cosmeticMarkers.any (fun m => hasPrefix cmt m)) := by
  have hhead : ((pre ++ cmt).head? == some (ch '#')) = false := by
    cases pre with
    | nil => exact absurd rfl hne
    | cons a t =>
      simp only [hashFree, List.all_cons, Bool.and_eq_true, bne_iff_ne, ne_eq] at hf
      simpa using hf.1
  have hbody : (hostLineBody (pre ++ cmt)).any (fun c => c == ch '$') = false := by
    rw [hostLineBody_tail pre cmt hne hf hc, List.any_eq_false]
    intro x hx
    have := List.all_eq_true.mp hd x hx
    simpa using this
  unfold isCosmeticLine findCosmeticRuleMarker
  rw [markerFirstChars_eq]
  cases cmt with
  | nil =>
    have hany : Facts.H.cosmeticMarkers.any (fun m => hasPrefix [] m) = false := by decide
    rw [hany, Bool.and_false]
    rw [findCosmeticRuleMarkerWith_skip, dollarRound_skip _ _ _ hhead hbody]
    · simp [findCosmeticRuleMarkerWith]
    · intro i hi
      exfalso
      have hnone : indexByte (pre ++ []) (ch '#') = none := by
        unfold indexByte
        rw [List.append_nil]
        exact indexByte_go_none _ _ _ hf
      rw [hnone] at hi
      cases hi
  | cons x c =>
    have hx : x = ch '#' := by simpa [isCommentTail] using hc
    subst hx
    rw [hashRound_comment _ _ pre c hne hf, dollarRound_skip _ _ _ hhead hbody]
    cases hb : lastIsBlank pre with
    | true => simp [findCosmeticRuleMarkerWith]
    | false =>
      simp only [Bool.false_eq_true, if_false, Bool.not_false, Bool.true_and]
      cases hfd : List.find? (fun m => hasPrefix (ch '#' :: c) m) Facts.H.cosmeticMarkers with
      | none =>
        have : Facts.H.cosmeticMarkers.any (fun m => hasPrefix (ch '#' :: c) m) = false := by
          rw [List.find?_eq_none] at hfd
          rw [List.any_eq_false]
          exact fun m hm => by simpa using hfd m hm
        simp [this, findCosmeticRuleMarkerWith]
      | some m =>
        have : Facts.H.cosmeticMarkers.any (fun m => hasPrefix (ch '#' :: c) m) = true := by
          rw [List.any_eq_true]
          exact ⟨m, List.mem_of_find?_eq_some hfd, List.find?_some hfd⟩
        simp [this]

theorem isCommentLine_pre_cmt (pre cmt : Bytes) (hne : pre ≠ []) (hf : hashFree pre = true)
    (hbang : (pre.head? == some (ch '!')) = false) : isCommentLine (pre ++ cmt) = false := by
  cases pre with
  | nil => exact absurd rfl hne
  | cons a t =>
    simp only [hashFree, List.all_cons, Bool.and_eq_true, bne_iff_ne, ne_eq] at hf
    apply isCommentLine_false_of_head
    · simpa using hbang
    · simpa using hf.1

theorem lastIsBlank_append_tok (a tok : Bytes) (hne : tok ≠ []) (hb : blankFree tok = true) :
    lastIsBlank (a ++ tok) = false := by
  unfold lastIsBlank
  rw [List.getLast?_append]
  cases hl : tok.getLast? with
  | none =>
    rw [List.getLast?_eq_none_iff] at hl
    exact absurd hl hne
  | some b =>
    show (match (some b).or a.getLast? with | some b => isBlank b | none => false) = _
    simp only [Option.some_or]
    have hmem : b ∈ tok := List.mem_of_getLast? hl
    have := List.all_eq_true.mp hb b hmem
    simpa using this

theorem lastIsBlank_append_blank (a w : Bytes) (hne : w ≠ []) (hw : allBlank w = true) :
    lastIsBlank (a ++ w) = true := by
  unfold lastIsBlank
  rw [List.getLast?_append]
  cases hl : w.getLast? with
  | none =>
    rw [List.getLast?_eq_none_iff] at hl
    exact absurd hl hne
  | some b =>
    show (match (some b).or a.getLast? with | some b => isBlank b | none => false) = _
    simp only [Option.some_or]
    have hmem : b ∈ w := List.mem_of_getLast? hl
    exact List.all_eq_true.mp hw b hmem

theorem lastIsBlank_namesText (a : Bytes) (wn : List (Bytes × Bytes)) (hwn : goodPairs wn = true)
    (hne : wn ≠ []) : lastIsBlank (a ++ namesText wn) = false := by
  induction wn generalizing a with
  | nil => exact absurd rfl hne
  | cons p rest ih =>
    obtain ⟨w, n⟩ := p
    simp only [goodPairs, List.all_cons, Bool.and_eq_true] at hwn
    obtain ⟨⟨_, hn⟩, hrest⟩ := hwn
    simp only [isHostToken, Bool.and_eq_true, Bool.not_eq_eq_eq_not, Bool.not_true] at hn
    have hnne : n ≠ [] := by intro h; subst h; simp at hn
    cases rest with
    | nil =>
      simp only [namesText, List.append_nil]
      rw [← List.append_assoc]
      exact lastIsBlank_append_tok _ n hnne hn.1.2
    | cons q rest' =>
      have := ih (a ++ w ++ n) (by simpa [goodPairs] using hrest) (by simp)
      simpa [namesText, List.append_assoc] using this

theorem dollarFree_append {a b : Bytes} : dollarFree (a ++ b) = (dollarFree a && dollarFree b) := by
  simp [dollarFree]

theorem dollarFree_of_allBlank {w : Bytes} (h : allBlank w = true) : dollarFree w = true := by
  unfold dollarFree
  rw [List.all_eq_true]
  intro x hx
  have := List.all_eq_true.mp h x hx
  simp only [isBlank, Bool.or_eq_true, beq_iff_eq] at this
  rcases this with h | h <;> subst h <;> decide

theorem dollarFree_namesText (wn : List (Bytes × Bytes)) (hwn : goodPairs wn = true)
    (hd : dollarFreePairs wn = true) : dollarFree (namesText wn) = true := by
  induction wn with
  | nil => rfl
  | cons p rest ih =>
    obtain ⟨w, n⟩ := p
    simp only [goodPairs, List.all_cons, Bool.and_eq_true] at hwn
    simp only [dollarFreePairs, List.all_cons, Bool.and_eq_true] at hd
    obtain ⟨⟨hw, _⟩, hrest⟩ := hwn
    simp only [isBlankRun, Bool.and_eq_true] at hw
    simp only [namesText, dollarFree_append, dollarFree_of_allBlank hw.2, hd.1, Bool.true_and]
    exact ih (by simpa [goodPairs] using hrest) (by simpa [dollarFreePairs] using hd.2)

/-- The last byte of `body ++ trail` (body ending in a non-blank, `trail` a run of blanks) is a blank
    iff `trail` is non-empty. -/
theorem lastIsBlank_trail (body trail : Bytes) (hbody : lastIsBlank body = false)
    (ht : allBlank trail = true) : lastIsBlank (body ++ trail) = !trail.isEmpty := by
  cases trail with
  | nil => simpa using hbody
  | cons c t => simpa using lastIsBlank_append_blank body (c :: t) (by simp) ht

/-- For the lines `IP names… trail cmt` of the property's grammar (names and address without '$', the
    address not starting with '!') the carve-out computed by the model is EXACTLY the one the property
    states: the comment sign directly follows a name and begins a cosmetic marker. -/
theorem carveOut_hostLineIP (ip : Bytes) (wn : List (Bytes × Bytes)) (trail cmt : Bytes)
    (hip : isHostToken ip = true) (hwn : goodPairs wn = true) (hne : wn ≠ [])
    (ht : allBlank trail = true) (hc : isCommentTail cmt = true)
    (hipd : isPlainToken ip = true) (hwnd : dollarFreePairs wn = true) :
    hostLineCarveOut (hostLineIP ip wn trail cmt) = commentIsMarker trail cmt := by
  simp only [isHostToken, Bool.and_eq_true, Bool.not_eq_eq_eq_not, Bool.not_true] at hip
  obtain ⟨⟨hipne, hipb⟩, hiph⟩ := hip
  simp only [isPlainToken, Bool.and_eq_true, Bool.not_eq_eq_eq_not, Bool.not_true] at hipd
  have hipne' : ip ≠ [] := by intro h; subst h; simp at hipne
  have hprene : ip ++ namesText wn ++ trail ≠ [] := by simp [hipne']
  have hf : hashFree (ip ++ namesText wn ++ trail) = true := by
    simp [hashFree_append, hiph, hashFree_namesText wn hwn, hashFree_of_allBlank ht]
  have hd : dollarFree (ip ++ namesText wn ++ trail) = true := by
    simp [dollarFree_append, hipd.1, dollarFree_namesText wn hwn hwnd, dollarFree_of_allBlank ht]
  have hbang : ((ip ++ namesText wn ++ trail).head? == some (ch '!')) = false := by
    cases ip with
    | nil => exact absurd rfl hipne'
    | cons a t => simpa using hipd.2
  unfold hostLineCarveOut hostLineIP commentIsMarker
  rw [isCommentLine_pre_cmt _ cmt hprene hf hbang, isCosmeticLine_pre_cmt _ cmt hprene hf hd hc,
    lastIsBlank_trail _ trail (lastIsBlank_namesText ip wn hwn hne) ht]
  simp

/-- The same for `name trail cmt`. -/
theorem carveOut_hostLineBare (name trail cmt : Bytes)
    (hn : isHostToken name = true) (ht : allBlank trail = true) (hc : isCommentTail cmt = true)
    (hnd : isPlainToken name = true) :
    hostLineCarveOut (hostLineBare name trail cmt) = commentIsMarker trail cmt := by
  simp only [isHostToken, Bool.and_eq_true, Bool.not_eq_eq_eq_not, Bool.not_true] at hn
  obtain ⟨⟨hnne, hnb⟩, hnh⟩ := hn
  simp only [isPlainToken, Bool.and_eq_true, Bool.not_eq_eq_eq_not, Bool.not_true] at hnd
  have hnne' : name ≠ [] := by intro h; subst h; simp at hnne
  have hprene : name ++ trail ≠ [] := by simp [hnne']
  have hf : hashFree (name ++ trail) = true := by
    simp [hashFree_append, hnh, hashFree_of_allBlank ht]
  have hd : dollarFree (name ++ trail) = true := by
    simp [dollarFree_append, hnd.1, dollarFree_of_allBlank ht]
  have hbang : ((name ++ trail).head? == some (ch '!')) = false := by
    cases name with
    | nil => exact absurd rfl hnne'
    | cons a t => simpa using hnd.2
  unfold hostLineCarveOut hostLineBare commentIsMarker
  rw [isCommentLine_pre_cmt _ cmt hprene hf hbang, isCosmeticLine_pre_cmt _ cmt hprene hf hd hc,
    lastIsBlank_trail _ trail (by simpa using lastIsBlank_append_tok [] name hnne' hnb) ht]
  simp

end UF.H

namespace UF.H
open Bytes

def c18Ext : Ext where
  psl := fun _ => ([], false)
  parseAddr := fun s =>
    if s == lit "0.0.0.0" then some { is4 := true, val := 0 }
    else if s == lit "::ffff:1.2.3.4" then some { is4 := false, val := 281470698652420 } else none
  parsePrefix := fun _ => none
  pat := fun _ _ _ => false

end UF.H

import UF.Proofs.HostRule
/-
  Helper lemmas for C18 (`c18_dispatch`): outside the carve-out of DESIGN.md §6 a line is
  neither a comment nor cosmetic syntax for `NewRule`.
-/
namespace UF.H
open Bytes

theorem indexByte_go_head (c : UInt8) (s : Bytes) (k i : Nat) (h : indexByte.go c s k = some i) :
    (s.drop (i - k)).head? = some c := by
  induction s generalizing k with
  | nil => simp [indexByte.go] at h
  | cons a t ih =>
    rw [indexByte.go] at h
    split at h
    · rename_i hac
      cases h
      simp at hac
      simp [hac]
    · have hb := indexByte_go_lt t c (k + 1) i h
      have := ih (k + 1) h
      have hik : i - k = (i - (k + 1)) + 1 := by omega
      rw [hik, List.drop_succ_cons]
      exact this

theorem indexByte_head {s : Bytes} {c : UInt8} {i : Nat} (h : indexByte s c = some i) :
    (s.drop i).head? = some c := by
  simpa using indexByte_go_head c s 0 i h

theorem indexByte_zero_head {s : Bytes} {c : UInt8} (h : indexByte s c = some 0) : s.head? = some c := by
  simpa using indexByte_head h

theorem hasPrefix_nil_iff (m : Bytes) : hasPrefix [] m = true → m = [] := by
  cases m <;> simp [hasPrefix]

theorem indexOf_go_isSome (m : Bytes) (s : Bytes) (i j : Nat)
    (h : hasPrefix (s.drop j) m = true) : (indexOf.go m s i).isSome = true := by
  induction s generalizing i j with
  | nil =>
    have := hasPrefix_nil_iff m (by simpa using h)
    subst this
    simp [indexOf.go]
  | cons a t ih =>
    rw [indexOf.go]
    split
    · rfl
    · rename_i hnp
      cases j with
      | zero => simp at h; exact absurd h hnp
      | succ j' => exact ih (i + 1) j' (by simpa using h)

theorem hasSub_of_hasPrefix_drop {s m : Bytes} {j : Nat} (h : hasPrefix (s.drop j) m = true) :
    hasSub s m = true := by
  unfold hasSub indexOf
  exact indexOf_go_isSome m s 0 j h

theorem startsAtIndexWith_hasPrefix {s m : Bytes} {i : Nat} (h : startsAtIndexWith s i m = true) :
    hasPrefix (s.drop i) m = true := by
  unfold startsAtIndexWith at h
  split at h
  · cases h
  · exact h

/-- One round of the outer loop of `findCosmeticRuleMarker` that finds nothing. -/
theorem findCosmeticRuleMarkerWith_skip (fc : UInt8) (more : List UInt8) (markers : List Bytes) (line : Bytes)
    (h : ∀ i, indexByte line fc = some i →
      (i > 0 ∧ (line[i - 1]? = some (ch ' ') ∨ line[i - 1]? = some (ch '\t'))) ∨
      ∀ m ∈ markers, startsAtIndexWith line i m = false) :
    findCosmeticRuleMarkerWith (fc :: more) markers line = findCosmeticRuleMarkerWith more markers line := by
  rw [findCosmeticRuleMarkerWith]
  cases hi : indexByte line fc with
  | none => rfl
  | some i =>
    simp only
    rcases h i hi with ⟨hpos, hb⟩ | hnone
    · have : (decide (i > 0) && (line[i - 1]? == some (ch ' ') || line[i - 1]? == some (ch '\t'))) = true := by
        rcases hb with hb | hb <;> simp [hpos, hb]
      simp [this]
    · split
      · rfl
      · have : markers.find? (fun m => startsAtIndexWith line i m) = none := by
          rw [List.find?_eq_none]
          intro m hm
          simp [hnone m hm]
        simp [this]

theorem markers_shape :
    Facts.H.cosmeticMarkers.all (fun m => m.head? == some (ch '#') || m == lit "$$" || m == lit "$@$") = true := by
  decide

theorem markerFirstChars_eq : Facts.H.cosmeticMarkerFirstChars = [ch '#', ch '$'] := by decide

theorem hasPrefix_head_ne {s m : Bytes} {a b : UInt8} (hs : s.head? = some a) (hm : m.head? = some b)
    (hab : a ≠ b) : hasPrefix s m = false := by
  cases s with
  | nil => simp at hs
  | cons x xs =>
    cases m with
    | nil => simp at hm
    | cons y ys =>
      simp at hs hm
      subst hs hm
      simp [hasPrefix, hab]

/-- Outside the carve-out, `NewRule` takes the line neither for a comment nor for a cosmetic rule. -/
theorem not_comment_not_cosmetic (line : Bytes) (h : hostLineCarveOut line = false) :
    isCommentLine line = false ∧ isCosmeticLine line = false := by
  unfold hostLineCarveOut at h
  simp only [Bool.or_eq_false_iff] at h
  obtain ⟨⟨⟨⟨hbang, hhash⟩, hdd⟩, hdad⟩, hmark⟩ := h
  constructor
  · -- isComment
    cases line with
    | nil => rfl
    | cons c rest =>
      have h1 : (c == ch '!') = false := by simpa using hbang
      have h2 : (c == ch '#') = false := by simpa using hhash
      simp [isCommentLine, h1, h2]
  · -- isCosmetic
    unfold isCosmeticLine findCosmeticRuleMarker
    rw [markerFirstChars_eq]
    rw [findCosmeticRuleMarkerWith_skip, findCosmeticRuleMarkerWith_skip]
    · simp [findCosmeticRuleMarkerWith]
    · -- '$': no `$$` / `$@$` anywhere, and no '#'-marker can start at a '$'
      intro j hj
      right
      intro m hm
      have hshape := List.all_eq_true.mp markers_shape m hm
      simp only [Bool.or_eq_true, beq_iff_eq] at hshape
      cases hs : startsAtIndexWith line j m with
      | false => rfl
      | true =>
        have hp := startsAtIndexWith_hasPrefix hs
        rcases hshape with (hh | hh) | hh
        · have := hasPrefix_head_ne (indexByte_head hj) hh (by decide)
          rw [this] at hp; cases hp
        · subst hh
          rw [hasSub_of_hasPrefix_drop hp] at hdd; cases hdd
        · subst hh
          rw [hasSub_of_hasPrefix_drop hp] at hdad; cases hdad
    · -- '#'
      intro i hi
      rw [hi] at hmark
      simp only [Bool.and_eq_false_iff, decide_eq_false_iff_not, Bool.not_eq_false', Bool.not_eq_eq_eq_not,
        Bool.not_true] at hmark
      rcases hmark with (hpos | hb) | hany
      · -- i = 0 contradicts "does not start with '#'"
        have : i = 0 := by omega
        subst this
        have := indexByte_zero_head hi
        rw [this] at hhash
        simp at hhash
      · left
        constructor
        · -- i > 0: otherwise the line starts with '#'
          apply Nat.pos_of_ne_zero
          intro h0
          subst h0
          have := indexByte_zero_head hi
          rw [this] at hhash
          simp at hhash
        · simpa using hb
      · right
        intro m hm
        cases hs : startsAtIndexWith line i m with
        | false => rfl
        | true =>
          have hp := startsAtIndexWith_hasPrefix hs
          have := List.any_eq_false.mp hany m hm
          rw [hp] at this
          simp at this

end UF.H

namespace UF.H
open Bytes

def c18Ext : Ext where
  psl := fun _ => ([], false)
  parseAddr := fun s =>
    if s == lit "0.0.0.0" then some { is4 := true, val := 0 }
    else if s == lit "::ffff:1.2.3.4" then some { is4 := false, val := 281470698652420 } else none
  parsePrefix := fun _ => none
  pat := fun _ _ _ => false

end UF.H

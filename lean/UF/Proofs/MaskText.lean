import UF.Model.Mask
/-
  C03, text level: the step-by-step model of `patternToRegexp` equals the closed form
  `maskText` (start text ++ one piece per body byte ++ end text) for every pattern that is neither an
  any-URL pattern nor a `/regex/`, and it never panics.
-/
namespace UF.Mask
open UF UF.MaskSpec

/-! ### Quantifying over all 256 bytes by evaluation -/

theorem forall_u8 (P : UInt8 → Prop) (h : ∀ n, n < 256 → P (UInt8.ofNat n)) : ∀ b, P b := by
  intro b
  have := h b.toNat b.toNat_lt
  simpa using this

set_option maxRecDepth 100000 in
theorem escByte_cases : ∀ b : UInt8, escByte b = [b] ∨ escByte b = [92, b] := by
  apply forall_u8; decide

set_option maxRecDepth 100000 in
theorem escByte_pipe : escByte 124 = [124] := by decide

/-! ### `strings.ReplaceAll` with a one-byte `old` is a byte-wise map -/

def subst1 (c : UInt8) (new : Bytes) (b : UInt8) : Bytes := if b == c then new else [b]

theorem replaceAll_single (s : Bytes) (c : UInt8) (new : Bytes) :
    Bytes.replaceAll s [c] new = s.flatMap (subst1 c new) := by
  unfold Bytes.replaceAll
  simp only [List.isEmpty_cons, Bool.false_eq_true, ↓reduceIte]
  induction s with
  | nil => simp [Bytes.replaceAll.go]
  | cons a t ih =>
    simp only [Bytes.replaceAll.go, Bytes.hasPrefix, List.flatMap_cons, subst1]
    cases h : a == c <;> simp [ih]

/-! ### Checked slices on strings of a known shape -/

theorem sliceZ_nat (s : Bytes) (i j : Nat) (h1 : i ≤ j) (h2 : j ≤ s.length) :
    sliceZ? s (i : Int) (j : Int) = some ((s.take j).drop i) := by
  simp [sliceZ?, Bytes.slice?, h1, h2]

theorem escapeInnerPipes_eq (a m : Bytes) (l : UInt8) :
    escapeInnerPipes (a ++ m ++ [l]) a.length
      = some (a ++ m.flatMap (subst1 124 [92, 124]) ++ [l]) := by
  have hlen : lenZ (a ++ m ++ [l]) - 1 = ((a.length + m.length : Nat) : Int) := by
    simp [lenZ]; omega
  have hlen2 : lenZ (a ++ m ++ [l]) = ((a.length + m.length + 1 : Nat) : Int) := by
    simp [lenZ]; omega
  have t1 : (a ++ m ++ [l]).take a.length = a := by
    rw [List.append_assoc]; exact List.take_left' rfl
  have t2 : (a ++ m ++ [l]).take (a.length + m.length) = a ++ m :=
    List.take_left' (by simp)
  have t3 : (a ++ m ++ [l]).take (a.length + m.length + 1) = a ++ m ++ [l] :=
    List.take_of_length_le (by simp; omega)
  have d2 : (a ++ m).drop a.length = m := List.drop_left' rfl
  have d3 : (a ++ m ++ [l]).drop (a.length + m.length) = [l] := List.drop_left' (by simp)
  unfold escapeInnerPipes
  rw [hlen, hlen2]
  rw [show ((0 : Int)) = ((0 : Nat) : Int) from rfl]
  rw [sliceZ_nat _ 0 a.length (by omega) (by simp)]
  rw [sliceZ_nat _ a.length (a.length + m.length) (by omega) (by simp)]
  rw [sliceZ_nat _ (a.length + m.length) (a.length + m.length + 1) (by omega) (by simp; omega)]
  rw [t1, t2, t3, d2, d3]
  simp [Facts.MaskPipe, escapedPipe, replaceAll_single]

theorem sliceZ_from (s : Bytes) (k : Nat) (h : k ≤ s.length) :
    sliceZ? s (k : Int) (lenZ s) = some (s.drop k) := by
  unfold lenZ
  rw [sliceZ_nat _ k s.length h (Nat.le_refl _)]
  simp

theorem sliceZ_dropLast (s : Bytes) (x : UInt8) :
    sliceZ? (s ++ [x]) 0 (lenZ (s ++ [x]) - 1) = some s := by
  have : lenZ (s ++ [x]) - 1 = ((s.length : Nat) : Int) := by simp [lenZ]
  rw [this, show ((0 : Int)) = ((0 : Nat) : Int) from rfl, sliceZ_nat _ 0 s.length (by omega) (by simp)]
  simp

theorem hasPrefix_single (s : Bytes) (c : UInt8) : Bytes.hasPrefix s [c] = (s.head? == some c) := by
  cases s with
  | nil => simp [Bytes.hasPrefix]
  | cons a t => simp [Bytes.hasPrefix]

theorem hasSuffix_single (s : Bytes) (c : UInt8) : Bytes.hasSuffix s [c] = (s.getLast? == some c) := by
  unfold Bytes.hasSuffix
  rw [List.reverse_singleton, hasPrefix_single, List.head?_reverse]

theorem hasPrefix_cons_cons (a b c d : UInt8) (t : Bytes) :
    Bytes.hasPrefix (a :: b :: t) [c, d] = (a == c && b == d) := by
  simp [Bytes.hasPrefix]

theorem hasPrefix_short (a : UInt8) (p : Bytes) (c d : UInt8) : Bytes.hasPrefix [a] (c :: d :: p) = false := by
  simp [Bytes.hasPrefix]

/-! ### The steps after the pipe escaping -/

def startBytes : Start → Bytes
  | .none => []
  | .pipe => [124]
  | .dbl => [124, 124]

def endBytes (e : Bool) : Bytes := if e then [124] else []

/-- `*` and `^` expanded, byte by byte. -/
def expand2 (m : Bytes) : Bytes :=
  (m.flatMap (subst1 42 Facts.RegexAnyCharacter)).flatMap (subst1 94 Facts.RegexSeparator)

theorem expand2_append (a b : Bytes) : expand2 (a ++ b) = expand2 a ++ expand2 b := by
  simp [expand2]

theorem expand2_startBytes (s : Start) : expand2 (startBytes s) = startBytes s := by
  cases s <;> simp [expand2, startBytes, subst1]

theorem expand2_endBytes (e : Bool) : expand2 (endBytes e) = endBytes e := by
  cases e <;> simp [expand2, endBytes, subst1]

theorem replaceStart_eq (s : Start) (Y : Bytes) (hhead : s ≠ .dbl → Y.head? ≠ some 124) :
    replaceStart (startBytes s ++ Y) = some (startText s ++ Y) := by
  unfold replaceStart
  cases s with
  | dbl =>
    have : Bytes.hasPrefix (startBytes .dbl ++ Y) Facts.MaskStartURL = true := by
      simp [startBytes, Facts.MaskStartURL, Bytes.hasPrefix]
    rw [if_pos this]
    have hl : Facts.MaskStartURL.length = 2 := rfl
    rw [hl, sliceZ_from _ 2 (by simp [startBytes])]
    simp [startBytes, startText]
  | pipe =>
    have h1 : Bytes.hasPrefix (startBytes .pipe ++ Y) Facts.MaskStartURL = false := by
      cases Y with
      | nil => simp [startBytes, Facts.MaskStartURL, Bytes.hasPrefix]
      | cons y t =>
        have : y ≠ 124 := by simpa using hhead (by simp)
        simp [startBytes, Facts.MaskStartURL, Bytes.hasPrefix, this]
    have h2 : Bytes.hasPrefix (startBytes .pipe ++ Y) Facts.MaskPipe = true := by
      simp [startBytes, Facts.MaskPipe, Bytes.hasPrefix]
    rw [if_neg (by simp [h1]), if_pos h2]
    have hl : Facts.MaskPipe.length = 1 := rfl
    rw [hl, sliceZ_from _ 1 (by simp [startBytes])]
    simp [startBytes, startText]
  | none =>
    have hh : Y.head? ≠ some 124 := hhead (by simp)
    have h2 : Bytes.hasPrefix (startBytes .none ++ Y) Facts.MaskPipe = false := by
      simp only [startBytes, List.nil_append, Facts.MaskPipe, hasPrefix_single]
      simpa using hh
    have h1 : Bytes.hasPrefix (startBytes .none ++ Y) Facts.MaskStartURL = false := by
      cases Y with
      | nil => simp [startBytes, Facts.MaskStartURL, Bytes.hasPrefix]
      | cons y t =>
        have : y ≠ 124 := by simpa using hh
        cases t <;> simp [startBytes, Facts.MaskStartURL, Bytes.hasPrefix, this]
    rw [if_neg (by simp [h1]), if_neg (by simp [h2])]
    simp [startBytes, startText]

theorem replaceEnd_eq (Z : Bytes) (e : Bool) (hlast : e = false → Z.getLast? ≠ some 124) :
    replaceEnd (Z ++ endBytes e) = some (Z ++ endText e) := by
  unfold replaceEnd
  cases e with
  | true =>
    have : Bytes.hasSuffix (Z ++ endBytes true) Facts.MaskPipe = true := by
      simp [Facts.MaskPipe, hasSuffix_single, endBytes]
    rw [if_pos this]
    simp only [endBytes, ↓reduceIte]
    rw [sliceZ_dropLast]
    simp [endText]
  | false =>
    have : Bytes.hasSuffix (Z ++ endBytes false) Facts.MaskPipe = false := by
      simp only [Facts.MaskPipe, hasSuffix_single, endBytes]
      simpa using hlast rfl
    rw [if_neg (by simp [this])]
    simp [endText, endBytes]

theorem expandMasks_eq (s : Start) (m : Bytes) (e : Bool)
    (hhead : s ≠ .dbl → (expand2 m ++ endBytes e).head? ≠ some 124)
    (hlast : e = false → (startText s ++ expand2 m).getLast? ≠ some 124) :
    expandMasks (startBytes s ++ m ++ endBytes e) = some (startText s ++ expand2 m ++ endText e) := by
  unfold expandMasks
  simp only [Facts.MaskAnyCharacter, Facts.MaskSeparator, replaceAll_single]
  have h6 : ((startBytes s ++ m ++ endBytes e).flatMap (subst1 42 Facts.RegexAnyCharacter)).flatMap
      (subst1 94 Facts.RegexSeparator) = startBytes s ++ (expand2 m ++ endBytes e) := by
    have : expand2 (startBytes s ++ m ++ endBytes e) = startBytes s ++ (expand2 m ++ endBytes e) := by
      rw [expand2_append, expand2_append, expand2_startBytes, expand2_endBytes, List.append_assoc]
    exact this
  rw [h6, replaceStart_eq s _ hhead, Option.bind_some, ← List.append_assoc, replaceEnd_eq _ e hlast]

/-! ### The pipe escaping -/

/-- `|` → `\|`, byte by byte. -/
def pipeE (m : Bytes) : Bytes := m.flatMap (subst1 124 [92, 124])

theorem pipeE_append (a b : Bytes) : pipeE (a ++ b) = pipeE a ++ pipeE b := by simp [pipeE]

theorem pipeE_single {x : UInt8} (h : x ≠ 124) : pipeE [x] = [x] := by simp [pipeE, subst1, h]

theorem escapeSpecial_append (a b : Bytes) : escapeSpecial (a ++ b) = escapeSpecial a ++ escapeSpecial b := by
  simp [escapeSpecial]

theorem escapeSpecial_startBytes (s : Start) : escapeSpecial (startBytes s) = startBytes s := by
  cases s <;> simp [escapeSpecial, startBytes, escByte_pipe]

theorem esc_snoc (r : Bytes) (x : UInt8) :
    ∃ M, escapeSpecial (r ++ [x]) = M ++ [x] ∧ (x = 124 → M = escapeSpecial r) := by
  rcases escByte_cases x with h | h
  · exact ⟨escapeSpecial r, by simp [escapeSpecial, h], fun _ => rfl⟩
  · refine ⟨escapeSpecial r ++ [92], by simp [escapeSpecial, h], ?_⟩
    intro hx; subst hx; rw [escByte_pipe] at h; simp at h

theorem esc_head (l : Bytes) (h : l.head? ≠ some 124) : (escapeSpecial l).head? ≠ some 124 := by
  cases l with
  | nil => simp [escapeSpecial]
  | cons b t =>
    have hb : b ≠ 124 := by simpa using h
    rcases escByte_cases b with h' | h' <;> simp [escapeSpecial, h', hb]

theorem escapePipes_eq (s : Start) (r : Bytes) (x : UInt8)
    (hhead : s ≠ .dbl → (r ++ [x]).head? ≠ some 124) :
    escapePipes (escapeSpecial (startBytes s ++ r ++ [x]))
      = some (startBytes s ++ pipeE (escapeSpecial (if x = 124 then r else r ++ [x]))
              ++ endBytes (decide (x = 124))) := by
  obtain ⟨M, hM, hM2⟩ := esc_snoc r x
  have he : escapeSpecial (startBytes s ++ r ++ [x]) = startBytes s ++ M ++ [x] := by
    rw [List.append_assoc, escapeSpecial_append, escapeSpecial_startBytes, hM, List.append_assoc]
  have hMx : s ≠ .dbl → (M ++ [x]).head? ≠ some 124 := fun h => hM ▸ esc_head _ (hhead h)
  -- every branch yields `startBytes s ++ pipeE M ++ [x]`
  have key : escapePipes (startBytes s ++ M ++ [x]) = some (startBytes s ++ pipeE M ++ [x]) := by
    unfold escapePipes
    cases s with
    | dbl =>
      have : Bytes.hasPrefix (startBytes .dbl ++ M ++ [x]) Facts.MaskStartURL = true := by
        simp [startBytes, Facts.MaskStartURL, Bytes.hasPrefix]
      rw [if_pos this]
      exact escapeInnerPipes_eq [124, 124] M x
    | pipe =>
      have h1 : Bytes.hasPrefix (startBytes .pipe ++ M ++ [x]) Facts.MaskStartURL = false := by
        have := hMx (by simp)
        cases M with
        | nil =>
          have : x ≠ 124 := by simpa using this
          simp [startBytes, Facts.MaskStartURL, Bytes.hasPrefix, this]
        | cons y t =>
          have : y ≠ 124 := by simpa using this
          simp [startBytes, Facts.MaskStartURL, Bytes.hasPrefix, this]
      have h2 : (startBytes .pipe ++ M ++ [x]).length > Facts.MaskPipe.length := by
        simp [startBytes, Facts.MaskPipe]
      rw [if_neg (by rw [h1]; exact Bool.false_ne_true), if_pos h2]
      exact escapeInnerPipes_eq [124] M x
    | none =>
      have hh := hMx (by simp)
      have h1 : Bytes.hasPrefix (startBytes .none ++ M ++ [x]) Facts.MaskStartURL = false := by
        cases M with
        | nil => simp [startBytes, Facts.MaskStartURL, Bytes.hasPrefix]
        | cons y t =>
          have : y ≠ 124 := by simpa using hh
          cases t <;> simp [startBytes, Facts.MaskStartURL, Bytes.hasPrefix, this]
      rw [if_neg (by rw [h1]; exact Bool.false_ne_true)]
      cases M with
      | nil => simp [startBytes, Facts.MaskPipe, pipeE]
      | cons y t =>
        have hy : y ≠ 124 := by simpa using hh
        have h2 : (startBytes .none ++ (y :: t) ++ [x]).length > Facts.MaskPipe.length := by
          simp [startBytes, Facts.MaskPipe]
        rw [if_pos h2]
        have := escapeInnerPipes_eq [y] t x
        simp only [startBytes, List.nil_append]
        rw [show (y :: t) ++ [x] = [y] ++ t ++ [x] by simp, show Facts.MaskPipe.length = [y].length from rfl, this]
        simp [pipeE, subst1, hy]
  rw [he, key]
  by_cases hx : x = 124
  · simp [hx, hM2 hx, endBytes]
  · simp [hx, hM, pipeE_append, pipeE_single hx, endBytes]

/-! ### The closed form -/

set_option maxRecDepth 100000 in
theorem emitByte_eq : ∀ b : UInt8, expand2 (pipeE (escByte b)) = emitByte b := by
  apply forall_u8; decide

set_option maxRecDepth 100000 in
theorem emitByte_head : ∀ b : UInt8, (emitByte b).head? ≠ some 124 ∧ emitByte b ≠ [] := by
  apply forall_u8; decide

set_option maxRecDepth 100000 in
theorem emitByte_last : ∀ b : UInt8, b ≠ 124 → (emitByte b).getLast? ≠ some 124 := by
  apply forall_u8; decide

theorem expand2_pipeE_esc (body : Bytes) : expand2 (pipeE (escapeSpecial body)) = body.flatMap emitByte := by
  induction body with
  | nil => rfl
  | cons b t ih =>
    have : escapeSpecial (b :: t) = escByte b ++ escapeSpecial t := by simp [escapeSpecial]
    rw [this, pipeE_append, expand2_append, ih, emitByte_eq]
    simp

theorem splitEnd_snoc (r : Bytes) (x : UInt8) :
    splitEnd (r ++ [x]) = (if x = 124 then r else r ++ [x], decide (x = 124)) := by
  unfold splitEnd
  by_cases hx : x = 124 <;> simp [hx]

theorem splitMask_shape (p : Bytes) :
    ∃ s r, p = startBytes s ++ r ∧ (s ≠ .dbl → r.head? ≠ some 124) ∧ splitMask p = (s, splitEnd r) := by
  match p with
  | [] => exact ⟨.none, [], rfl, by simp, by simp [splitMask]⟩
  | [a] =>
    by_cases ha : a = 124
    · subst ha; exact ⟨.pipe, [], rfl, by simp, by simp [splitMask]⟩
    · refine ⟨.none, [a], rfl, by simp [ha], ?_⟩
      unfold splitMask; split <;> simp_all
  | a :: b :: t =>
    by_cases ha : a = 124
    · subst ha
      by_cases hb : b = 124
      · subst hb; exact ⟨.dbl, t, rfl, by simp, by simp [splitMask]⟩
      · refine ⟨.pipe, b :: t, rfl, by simp [hb], ?_⟩
        unfold splitMask; split <;> simp_all
    · refine ⟨.none, a :: b :: t, rfl, by simp [ha], ?_⟩
      unfold splitMask; split <;> simp_all

/-- The step-by-step model equals the closed form on every mask pattern that is not an any-URL
    pattern (and not a `/regex/`); all bytes, not only printable ASCII. -/
theorem patternToRegexpText_eq (p : Bytes) (h1 : isAnyPattern p = false) (h2 : isRegexPattern p = false) :
    patternToRegexpText p = some (maskText p) := by
  obtain ⟨s, r, hp, hhd, hsplit⟩ := splitMask_shape p
  have hr : r ≠ [] := by
    intro h; subst h; subst hp
    cases s <;> simp [isAnyPattern, startBytes, Facts.MaskStartURL, Facts.MaskPipe] at h1
  obtain ⟨r', x, rfl⟩ : ∃ r' x, r = r' ++ [x] := by
    rcases List.eq_nil_or_concat r with h | ⟨r', x, h⟩
    · exact absurd h hr
    · exact ⟨r', x, by simpa using h⟩
  unfold patternToRegexpText maskText
  rw [if_neg (by rw [h1]; exact Bool.false_ne_true), if_neg (by rw [h2]; exact Bool.false_ne_true)]
  rw [hsplit, splitEnd_snoc]
  subst hp
  rw [← List.append_assoc, escapePipes_eq s r' x hhd, Option.bind_some]
  generalize hbody : (if x = 124 then r' else r' ++ [x]) = body
  rw [expandMasks_eq, expand2_pipeE_esc]
  · -- head condition
    intro hs
    rw [expand2_pipeE_esc]
    cases body with
    | nil =>
      by_cases hx : x = 124
      · simp [hx] at hbody; subst hbody; subst hx
        exact absurd rfl (hhd hs)
      · simp [hx] at hbody
    | cons b t =>
      have := (emitByte_head b).1
      have hne := (emitByte_head b).2
      cases hb : emitByte b with
      | nil => exact absurd hb hne
      | cons y ys =>
        rw [hb] at this
        rw [List.flatMap_cons, hb]
        simpa using this
  · -- last condition
    intro he
    have hx : x ≠ 124 := by simpa using he
    simp only [hx, ↓reduceIte] at hbody
    subst hbody
    rw [expand2_pipeE_esc, List.flatMap_append, ← List.append_assoc]
    have hne := (emitByte_head x).2
    simp only [List.flatMap_cons, List.flatMap_nil, List.append_nil]
    have hl := emitByte_last x hx
    rw [List.getLast?_append]
    cases hz : (emitByte x).getLast? with
    | none => exact absurd (List.getLast?_eq_none_iff.mp hz) hne
    | some z => rw [hz] at hl; simpa using hl

/-! ### No panic -/

theorem isRegexPattern_len {p : Bytes} (h : isRegexPattern p = true) : p.length > 1 := by
  simp [isRegexPattern] at h; exact h.1.1

theorem sliceZ_regex (p : Bytes) (h : p.length > 1) : sliceZ? p 1 (lenZ p - 1) = some ((p.take (p.length - 1)).drop 1) := by
  have : lenZ p - 1 = ((p.length - 1 : Nat) : Int) := by simp [lenZ]; omega
  rw [this, show (1 : Int) = ((1 : Nat) : Int) from rfl, sliceZ_nat _ 1 (p.length - 1) (by omega) (by omega)]

theorem patternToRegexpText_isSome (p : Bytes) : patternToRegexpText p ≠ none := by
  by_cases h1 : isAnyPattern p = true
  · simp [patternToRegexpText, h1]
  · by_cases h2 : isRegexPattern p = true
    · simp [patternToRegexpText, h1, h2, sliceZ_regex p (isRegexPattern_len h2)]
    · rw [patternToRegexpText_eq p (by simpa using h1) (by simpa using h2)]; simp

theorem hasPrefix_length : ∀ (s p : Bytes), Bytes.hasPrefix s p = true → p.length ≤ s.length
  | _, [], _ => by simp
  | [], _ :: _, h => by simp [Bytes.hasPrefix] at h
  | a :: s, b :: p, h => by
    simp only [Bytes.hasPrefix, Bool.and_eq_true] at h
    have := hasPrefix_length s p h.2
    simp; omega

theorem hasSuffix_length (s p : Bytes) (h : Bytes.hasSuffix s p = true) : p.length ≤ s.length := by
  have := hasPrefix_length _ _ h
  simpa using this

/-- The `/*` → `^` rewrite of `NewNetworkRule` never panics and is the spec's `normalize`. -/
theorem rewriteSlashStar_eq (p : Bytes) : rewriteSlashStar p = some (normalize p) := by
  unfold rewriteSlashStar normalize
  have hl : lit "/*" = [47, 42] := by decide
  have hc : lit "^" = [94] := by decide
  rw [hl, hc]
  by_cases h : Bytes.hasSuffix p [47, 42] = true
  · have hlen := hasSuffix_length _ _ h
    simp only [List.length_cons, List.length_nil] at hlen
    have : lenZ p - 2 = ((p.length - 2 : Nat) : Int) := by simp [lenZ]; omega
    rw [if_pos h, if_pos h, this, show (0 : Int) = ((0 : Nat) : Int) from rfl,
      sliceZ_nat _ 0 (p.length - 2) (by omega) (by omega)]
    simp
  · rw [if_neg h, if_neg h]

theorem preparePatternText_ne_panic (p : Bytes) (mc : Bool) : preparePatternText p mc ≠ .panic := by
  unfold preparePatternText
  cases h : patternToRegexpText p with
  | none => exact absurd h (patternToRegexpText_isSome p)
  | some t => simp only; split <;> (try split) <;> simp

end UF.Mask

import UF.Spec.Result
/- Example rules and tables used by UF/Props/C08.lean. -/
namespace UF.C08

/-- Fields of `rules.NetworkRule` that are not matching-relevant. -/
def nonMatchingFields : List String := ["RuleText", "Shortcut", "FilterListID", "regex", "Mutex", "invalid"]

def exR : NetRule := { text := lit "||e.org^", pattern := lit "||e.org^" }
def exRBad : NetRule := { text := lit "||e.org^$badfilter", pattern := lit "||e.org^", enabled := Facts.OptionBadfilter }
def exRImg : NetRule := { text := lit "||e.org^$image", pattern := lit "||e.org^", permTypes := Facts.TypeImage }
def exRImgBad : NetRule :=
  { text := lit "||e.org^$image,badfilter", pattern := lit "||e.org^", permTypes := Facts.TypeImage,
    enabled := Facts.OptionBadfilter }
def exDenyA : NetRule := { pattern := lit "||e.org^", denyallow := [lit "a.com"] }
def exDenyBBad : NetRule := { pattern := lit "||e.org^", denyallow := [lit "b.com"], enabled := Facts.OptionBadfilter }

end UF.C08

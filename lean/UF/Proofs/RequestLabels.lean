import UF.Proofs.Request
/-
  Helper lemmas for C17 (`etld1_spec`): `strings.Split` / join / `LastIndex` on labels, and the
  hand-rolled `effectiveTLDPlusOne` = "public suffix plus one label".
-/
namespace UF.H
open Bytes

def dotFree (c : UInt8) (l : Bytes) : Bool := l.all fun x => x != c

/-! ### splitByte / joinSep -/

theorem splitByte_go_ne_nil (c : UInt8) (s cur : Bytes) : splitByte.go c s cur ≠ [] := by
  induction s generalizing cur with
  | nil => simp [splitByte.go]
  | cons a t ih =>
    rw [splitByte.go]
    split
    · simp
    · exact ih _

theorem splitByte_go_append_sep (c : UInt8) (a b cur : Bytes) :
    splitByte.go c (a ++ c :: b) cur = splitByte.go c a cur ++ splitByte.go c b [] := by
  induction a generalizing cur with
  | nil => simp [splitByte.go]
  | cons x t ih =>
    simp only [List.cons_append, splitByte.go]
    split
    · rw [ih]; simp
    · rw [ih]

theorem splitByte_go_free (c : UInt8) (l cur : Bytes) (h : dotFree c l = true) :
    splitByte.go c l cur = [cur.reverse ++ l] := by
  induction l generalizing cur with
  | nil => simp [splitByte.go]
  | cons x t ih =>
    simp only [dotFree, List.all_cons, Bool.and_eq_true, bne_iff_ne, ne_eq] at h
    have hx : (x == c) = false := by simpa using h.1
    simp only [splitByte.go, hx, Bool.false_eq_true, if_false]
    rw [ih (x :: cur) (by simpa [dotFree] using h.2)]
    simp

theorem joinSep_cons_cons (x y : Bytes) (ys : List Bytes) (sep : Bytes) :
    joinSep (x :: y :: ys) sep = x ++ sep ++ joinSep (y :: ys) sep := by
  simp [joinSep]

theorem joinSep_cons_of_ne_nil (x : Bytes) (ys : List Bytes) (sep : Bytes) (h : ys ≠ []) :
    joinSep (x :: ys) sep = x ++ sep ++ joinSep ys sep := by
  cases ys with
  | nil => exact absurd rfl h
  | cons y r => exact joinSep_cons_cons x y r sep

theorem joinSep_splitByte_go (c : UInt8) (s cur : Bytes) :
    joinSep (splitByte.go c s cur) [c] = cur.reverse ++ s := by
  induction s generalizing cur with
  | nil => simp [splitByte.go, joinSep]
  | cons a t ih =>
    rw [splitByte.go]
    split
    · rename_i hac
      have : a = c := by simpa using hac
      subst this
      rw [joinSep_cons_of_ne_nil _ _ _ (splitByte_go_ne_nil _ _ _), ih]
      simp
    · rw [ih]; simp

theorem joinSep_splitByte (c : UInt8) (s : Bytes) : joinSep (splitByte s c) [c] = s := by
  simpa [splitByte] using joinSep_splitByte_go c s []

theorem splitByte_append_sep (c : UInt8) (a b : Bytes) :
    splitByte (a ++ c :: b) c = splitByte a c ++ splitByte b c := by
  simp [splitByte, splitByte_go_append_sep]

theorem splitByte_free (c : UInt8) (l : Bytes) (h : dotFree c l = true) : splitByte l c = [l] := by
  simp [splitByte, splitByte_go_free c l [] h]

/-! ### lastIndexByte -/

theorem lastIndexByte_go_append (c : UInt8) (a b : Bytes) (i : Nat) (acc : Option Nat) :
    lastIndexByte.go c (a ++ b) i acc = lastIndexByte.go c b (i + a.length) (lastIndexByte.go c a i acc) := by
  induction a generalizing i acc with
  | nil => simp [lastIndexByte.go]
  | cons x t ih =>
    simp only [List.cons_append, lastIndexByte.go, List.length_cons]
    rw [ih]
    congr 1
    omega

theorem lastIndexByte_go_free (c : UInt8) (l : Bytes) (i : Nat) (acc : Option Nat) (h : dotFree c l = true) :
    lastIndexByte.go c l i acc = acc := by
  induction l generalizing i acc with
  | nil => simp [lastIndexByte.go]
  | cons x t ih =>
    simp only [dotFree, List.all_cons, Bool.and_eq_true, bne_iff_ne, ne_eq] at h
    have hx : (x == c) = false := by simpa using h.1
    simp only [lastIndexByte.go, hx, Bool.false_eq_true, if_false]
    exact ih _ _ (by simpa [dotFree] using h.2)

theorem lastIndexByte_free (c : UInt8) (l : Bytes) (h : dotFree c l = true) : lastIndexByte l c = none := by
  simpa [lastIndexByte] using lastIndexByte_go_free c l 0 none h

theorem lastIndexByte_last (c : UInt8) (p l : Bytes) (h : dotFree c l = true) :
    lastIndexByte (p ++ c :: l) c = some p.length := by
  unfold lastIndexByte
  rw [lastIndexByte_go_append]
  simp only [lastIndexByte.go, beq_self_eq_true, if_true, Nat.zero_add]
  exact lastIndexByte_go_free c l _ _ h

/-- Every string is `c`-free or ends with a `c`-free label after its last `c`. -/
theorem exists_last_label (c : UInt8) (s : Bytes) :
    dotFree c s = true ∨ ∃ p l, s = p ++ c :: l ∧ dotFree c l = true := by
  induction s with
  | nil => left; rfl
  | cons x t ih =>
    rcases ih with h | ⟨p, l, hs, hl⟩
    · by_cases hx : x = c
      · right
        exact ⟨[], t, by simp [hx], h⟩
      · left
        simp only [dotFree, List.all_cons, Bool.and_eq_true, bne_iff_ne, ne_eq]
        exact ⟨hx, by simpa [dotFree] using h⟩
    · right
      exact ⟨x :: p, l, by simp [hs], hl⟩

end UF.H

namespace UF.H
open Bytes

/-! ### Hostnames without empty labels -/

theorem noEmptyLabel_append_dot (a b : Bytes) :
    noEmptyLabel (a ++ ch '.' :: b) = (noEmptyLabel a && noEmptyLabel b) := by
  simp [noEmptyLabel, splitByte_append_sep]

theorem noEmptyLabel_ne_nil {h : Bytes} (hn : noEmptyLabel h = true) : h ≠ [] := by
  intro he
  subst he
  simp [noEmptyLabel, splitByte, splitByte.go] at hn

theorem noEmptyLabel_head {h : Bytes} (hn : noEmptyLabel h = true) : h.head? ≠ some (ch '.') := by
  intro hh
  cases h with
  | nil => simp at hh
  | cons a t =>
    simp at hh
    subst hh
    have := noEmptyLabel_append_dot [] t
    simp only [List.nil_append] at this
    rw [this] at hn
    simp [noEmptyLabel, splitByte, splitByte.go] at hn

theorem noEmptyLabel_last {h : Bytes} (hn : noEmptyLabel h = true) : h.getLast? ≠ some (ch '.') := by
  intro hh
  obtain ⟨p, hp⟩ := List.getLast?_eq_some_iff.mp hh
  subst hp
  rw [noEmptyLabel_append_dot] at hn
  simp [noEmptyLabel, splitByte, splitByte.go] at hn

/-- The hand-rolled `effectiveTLDPlusOne` is "public suffix plus one label" for every hostname
    without empty labels and every oracle answer that is a dot-suffix of the hostname. -/
theorem effectiveTLDPlusOne_eq_ref (ext : Ext) (h : Bytes) (hn : noEmptyLabel h = true)
    (hsuf : h = (ext.psl h).1 ∨ ∃ pre, h = pre ++ ch '.' :: (ext.psl h).1) :
    effectiveTLDPlusOne ext h = .ok ((refETLD1 ext h).getD []) := by
  rw [effectiveTLDPlusOne_unfold]
  unfold refETLD1
  have hne := noEmptyLabel_ne_nil hn
  have hhead := noEmptyLabel_head hn
  have hlast := noEmptyLabel_last hn
  have hlen1 : ¬ h.length < 1 := by
    cases h with
    | nil => exact absurd rfl hne
    | cons a t => simp
  have hdots : (h.head? == some (ch '.') || h.getLast? == some (ch '.')) = false := by
    simp [hhead, hlast]
  simp only [hlen1, if_false, hdots, Bool.false_eq_true]
  generalize (ext.psl h).1 = suf at hsuf ⊢
  rcases hsuf with hs | ⟨pre, hs⟩
  · -- the host IS the suffix
    subst hs
    simp
  · subst hs
    have hpre : noEmptyLabel pre = true := by
      rw [noEmptyLabel_append_dot] at hn
      exact (Bool.and_eq_true _ _ ▸ hn).1
    have hlt : ¬ (pre ++ ch '.' :: suf).length < suf.length + 1 := by simp <;> omega
    have hi : (pre ++ ch '.' :: suf).length - suf.length - 1 = pre.length := by simp <;> omega
    simp only [hlt, if_false, hi]
    have hget : (pre ++ ch '.' :: suf)[pre.length]? = some (ch '.') := by simp
    have htake : (pre ++ ch '.' :: suf).take pre.length = pre := by simp
    simp only [hget, bne_self_eq_false, Bool.false_eq_true, if_false, htake]
    -- labels
    have hlabels : splitByte (pre ++ ch '.' :: suf) (ch '.') = splitByte pre (ch '.') ++ splitByte suf (ch '.') :=
      splitByte_append_sep _ _ _
    have hk : (splitByte suf (ch '.')) ≠ [] := splitByte_go_ne_nil _ _ _
    rcases exists_last_label (ch '.') pre with hfree | ⟨p, l, hpl, hl⟩
    · -- a single label before the suffix: the whole host
      rw [lastIndexByte_free _ _ hfree, hlabels, splitByte_free _ _ hfree]
      have hnle : ¬ ([pre] ++ splitByte suf (ch '.')).length ≤ (splitByte suf (ch '.')).length := by
        simp
      simp only [hnle, if_false, Option.getD_some, List.drop_zero]
      have : ([pre] ++ splitByte suf (ch '.')).length - ((splitByte suf (ch '.')).length + 1) = 0 := by
        simp
      rw [this, List.drop_zero, List.singleton_append, joinSep_cons_of_ne_nil _ _ _ hk, joinSep_splitByte]
      simp
    · subst hpl
      rw [lastIndexByte_last _ _ _ hl, hlabels, splitByte_append_sep, splitByte_free _ _ hl]
      have hnle : ¬ (splitByte p (ch '.') ++ [l] ++ splitByte suf (ch '.')).length ≤ (splitByte suf (ch '.')).length := by
        simp <;> omega
      simp only [hnle, if_false, Option.getD_some]
      have hd : (splitByte p (ch '.') ++ [l] ++ splitByte suf (ch '.')).length - ((splitByte suf (ch '.')).length + 1)
          = (splitByte p (ch '.')).length := by
        simp <;> omega
      have hdrop : List.drop (splitByte p (ch '.')).length (splitByte p (ch '.') ++ [l] ++ splitByte suf (ch '.'))
          = l :: splitByte suf (ch '.') := by
        rw [List.append_assoc, List.drop_left]; rfl
      rw [hd, hdrop, joinSep_cons_of_ne_nil _ _ _ hk, joinSep_splitByte]
      simp

end UF.H

namespace UF.H
open Bytes

/-! ### The functions always return a value -/

theorem extractTail_ok (url : Bytes) (f n : Nat) (hn : n ≤ url.length) :
    ∃ h, (if n ≤ f then (.ok [] : Except HErr Bytes) else sliceE url f n) = .ok h := by
  by_cases hnf : n ≤ f
  · exact ⟨[], by simp [hnf]⟩
  · exact ⟨_, by simp only [hnf, if_false]; exact sliceE_of_le (by omega) hn⟩

theorem extractHostname_ok (url : Bytes) : ∃ h, extractHostname url = .ok h := by
  rw [extractHostname_unfold]
  cases hf : extractFirst url with
  | none => exact ⟨_, rfl⟩
  | some f =>
    have hle := extractFirst_le hf
    simp only
    cases hk : indexAny (url.drop f) (lit "/:?") with
    | none => exact extractTail_ok url f url.length (Nat.le_refl _)
    | some k =>
      have := indexAny_bound hk
      simp only [List.length_drop] at this
      exact extractTail_ok url f (k + f) (by omega)

theorem effectiveTLDPlusOne_ok (ext : Ext) (h : Bytes) : ∃ d, effectiveTLDPlusOne ext h = .ok d := by
  rw [effectiveTLDPlusOne_unfold]
  simp only
  repeat' split
  all_goals exact ⟨_, rfl⟩

theorem domainOrHost_ok (ext : Ext) (h : Bytes) :
    ∃ e, effectiveTLDPlusOne ext h = .ok e ∧ domainOrHost ext h = .ok (if !e.isEmpty then e else h) := by
  obtain ⟨e, he⟩ := effectiveTLDPlusOne_ok ext h
  exact ⟨e, he, by simp [domainOrHost, he]⟩

/-- `NewRequest`, with every intermediate result named. -/
theorem newRequest_eq (ext : Ext) (url src : Bytes) (t : Nat) :
    ∃ h sh e se,
      extractHostname (url.take Facts.maxURLLength) = .ok h ∧
      extractHostname (src.take Facts.maxURLLength) = .ok sh ∧
      effectiveTLDPlusOne ext h = .ok e ∧ effectiveTLDPlusOne ext sh = .ok se ∧
      newRequest ext url src t = .ok
        { reqType := t,
          url := url.take Facts.maxURLLength, urlLower := toLower (url.take Facts.maxURLLength),
          hostname := h,
          sourceURL := src.take Facts.maxURLLength, sourceHostname := sh,
          domain := (if !e.isEmpty then e else h),
          sourceDomain := (if !se.isEmpty then se else sh),
          thirdParty := !(if !se.isEmpty then se else sh).isEmpty &&
            (if !se.isEmpty then se else sh) != (if !e.isEmpty then e else h) } := by
  obtain ⟨h, hh⟩ := extractHostname_ok (url.take Facts.maxURLLength)
  obtain ⟨sh, hsh⟩ := extractHostname_ok (src.take Facts.maxURLLength)
  obtain ⟨e, he, hd⟩ := domainOrHost_ok ext h
  obtain ⟨se, hse, hsd⟩ := domainOrHost_ok ext sh
  refine ⟨h, sh, e, se, hh, hsh, he, hse, ?_⟩
  simp [newRequest, capURL_eq, hh, hsh, hd, hsd]

end UF.H

namespace UF.H
open Bytes

theorem joinSep_ne_nil (x : Bytes) (ys : List Bytes) (sep : Bytes) (hx : x ≠ []) :
    joinSep (x :: ys) sep ≠ [] := by
  cases ys with
  | nil => simpa [joinSep] using hx
  | cons y r =>
    rw [joinSep_cons_cons]
    simp [hx]

/-- The reference registrable domain of a host without empty labels is never empty. -/
theorem refETLD1_ne_nil (ext : Ext) (h d : Bytes) (hn : noEmptyLabel h = true)
    (hr : refETLD1 ext h = some d) : d ≠ [] := by
  unfold refETLD1 at hr
  simp only at hr
  split at hr
  · cases hr
  · rename_i hlen
    simp only [Option.some.injEq] at hr
    subst hr
    generalize hL : splitByte h (ch '.') = labels at hlen hn
    generalize (splitByte (ext.psl h).1 (ch '.')).length = k at hlen
    have hall : ∀ l ∈ labels, l ≠ [] := by
      simpa [noEmptyLabel, hL] using hn
    have hdl : (labels.drop (labels.length - (k + 1))).length = k + 1 := by
      simp; omega
    cases hdrop : labels.drop (labels.length - (k + 1)) with
    | nil => rw [hdrop] at hdl; simp at hdl
    | cons x ys =>
      have hx : x ∈ labels := List.mem_of_mem_drop (by rw [hdrop]; simp)
      exact joinSep_ne_nil x ys _ (hall x hx)

end UF.H

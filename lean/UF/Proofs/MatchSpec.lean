import UF.Spec.Match
import UF.Model.ParseOptions
import UF.Proofs.MergeSorted
import UF.Proofs.MatchDomain
namespace UF.E
open Bytes

/-! ### small list facts -/

theorem contains_of_isEmpty {α} [BEq α] {l : List α} (h : l.isEmpty = true) (a : α) :
    l.contains a = false := by
  rw [List.isEmpty_iff] at h; subst h; rfl

theorem any_of_isEmpty {α} {l : List α} (h : l.isEmpty = true) (f : α → Bool) :
    l.any f = false := by
  rw [List.isEmpty_iff] at h; subst h; rfl

/-! ### `$dnstype` -/

theorem matchDNSType_eq_spec (r : NetRule) (q : Request) :
    matchDNSType r q.dnsType = specDnsType r q := by
  unfold matchDNSType specDnsType
  cases hp : r.permDns.isEmpty <;> cases hr : r.restrDns.isEmpty
  · cases r.restrDns.contains q.dnsType <;> simp
  · rw [contains_of_isEmpty hr]; simp
  · cases r.restrDns.contains q.dnsType <;> simp
  · rw [contains_of_isEmpty hr]; simp

/-! ### `$ctag` -/

theorem matchClientTags_eq_spec (r : NetRule) (q : Request) (hp : SortedB r.permTags)
    (hr : SortedB r.restrTags) (hq : SortedB q.sortedTags) :
    matchClientTags r q.sortedTags = specCTag r q := by
  unfold matchClientTags specCTag
  rw [matchClientTagsSpecific_iff _ _ hr hq, matchClientTagsSpecific_iff _ _ hp hq]
  cases hpe : r.permTags.isEmpty <;> cases hre : r.restrTags.isEmpty
  · cases (r.restrTags.any fun t => q.sortedTags.contains t) <;> simp
  · simp [any_of_isEmpty hre]
  · cases (r.restrTags.any fun t => q.sortedTags.contains t) <;> simp
  · simp [any_of_isEmpty hre]

/-! ### `$client` -/

theorem containsAny_eq_spec (c : Option Clients) (h : ∀ c', c = some c' → SortedB c'.hosts)
    (name : Bytes) (ip : Option Addr) :
    Clients.containsAny c name ip = specClientIn c name ip := by
  cases c with
  | none => rfl
  | some c =>
    simp only [Clients.containsAny, specClientIn]
    rw [bsearch_iff _ _ (h c rfl)]
    cases (!name.isEmpty && c.hosts.contains name)
    · simp only [Bool.false_eq_true, if_false, Bool.false_or]
      cases ip <;> rfl
    · simp

theorem specClientIn_of_len_zero (c : Option Clients) (h : Clients.len c = 0) (name : Bytes)
    (ip : Option Addr) : specClientIn c name ip = false := by
  cases c with
  | none => rfl
  | some c =>
    simp only [Clients.len] at h
    have h1 : c.hosts = [] := List.eq_nil_of_length_eq_zero (by omega)
    have h2 : c.nets = [] := List.eq_nil_of_length_eq_zero (by omega)
    simp only [specClientIn, h1, h2]
    cases ip <;> simp

theorem matchClient_eq_spec (r : NetRule) (q : Request) (hwf : r.WellFormed) :
    matchClient r q.clientName q.clientIP = specClient r q := by
  unfold matchClient specClient
  rw [containsAny_eq_spec _ hwf.restrHosts, containsAny_eq_spec _ hwf.permHosts]
  simp only []
  rcases Nat.eq_zero_or_pos (Clients.len r.restrClients) with hr | hr
  · rw [specClientIn_of_len_zero _ hr, hr]
    rcases Nat.eq_zero_or_pos (Clients.len r.permClients) with hp | hp
    · rw [specClientIn_of_len_zero _ hp, hp]; simp
    · obtain ⟨n, hn⟩ : ∃ n, Clients.len r.permClients = n + 1 := ⟨_, (Nat.succ_pred_eq_of_pos hp).symm⟩
      rw [hn]; simp
  · obtain ⟨m, hm⟩ : ∃ m, Clients.len r.restrClients = m + 1 := ⟨_, (Nat.succ_pred_eq_of_pos hr).symm⟩
    rw [hm]
    rcases Nat.eq_zero_or_pos (Clients.len r.permClients) with hp | hp
    · rw [specClientIn_of_len_zero _ hp, hp]
      cases specClientIn r.restrClients q.clientName q.clientIP <;> simp
    · obtain ⟨n, hn⟩ : ∃ n, Clients.len r.permClients = n + 1 := ⟨_, (Nat.succ_pred_eq_of_pos hp).symm⟩
      rw [hn]
      cases specClientIn r.restrClients q.clientName q.clientIP <;> simp

/-! ### `$domain`, `$denyallow` -/

theorem matchSourceDomain_eq_spec (ext : Ext) (r : NetRule) (q : Request)
    (h : q.sourceHostname.head? ≠ some (ch '.')) :
    matchSourceDomain ext r q.sourceHostname = specSourceDomain ext r q := by
  unfold matchSourceDomain specSourceDomain
  rw [isDomainOrSubdomainOfAny_eq_spec _ _ _ h, isDomainOrSubdomainOfAny_eq_spec _ _ _ h]
  cases hp : r.permDomains.isEmpty <;> cases hr : r.restrDomains.isEmpty
  · cases specInDomains ext q.sourceHostname r.restrDomains <;>
      cases specInDomains ext q.sourceHostname r.permDomains <;> simp
  · have : specInDomains ext q.sourceHostname r.restrDomains = false := any_of_isEmpty hr _
    rw [this]
    cases specInDomains ext q.sourceHostname r.permDomains <;> simp
  · cases specInDomains ext q.sourceHostname r.restrDomains <;> simp
  · have : specInDomains ext q.sourceHostname r.restrDomains = false := any_of_isEmpty hr _
    rw [this]; simp

theorem matchRequestDomain_eq_spec (ext : Ext) (r : NetRule) (q : Request)
    (h : q.hostname.head? ≠ some (ch '.')) :
    matchRequestDomain ext r q.hostname q.isHostnameRequest = specDenyallow ext r q := by
  unfold matchRequestDomain specDenyallow
  rw [isDomainOrSubdomainOfAny_eq_spec _ _ _ h]
  cases r.denyallow.isEmpty
  · cases (q.isHostnameRequest && isProbablyIP q.hostname && (ext.parseAddr q.hostname).isSome) <;>
      simp
  · simp

/-! ### the pattern target -/

theorem shouldMatchHostname_eq (r : NetRule) (q : Request) :
    shouldMatchHostname r q =
      (q.isHostnameRequest &&
        !(hasPrefix r.pattern (lit "||") || hasPrefix r.pattern (lit "http://") ||
          hasPrefix r.pattern (lit "https://") || hasPrefix r.pattern (lit "://")) &&
        !(decide (r.pattern.length > 3) && r.pattern.head? == some (ch '/') &&
          r.pattern.getLast? == some (ch '.') &&
          (r.pattern.drop 1).dropLast.all
            (fun c => isAlpha c || isDigit c || c == ch '.' || c == ch '-'))) := by
  unfold shouldMatchHostname
  cases q.isHostnameRequest
  · simp
  · cases (hasPrefix r.pattern (lit "||") || hasPrefix r.pattern (lit "http://") ||
          hasPrefix r.pattern (lit "https://") || hasPrefix r.pattern (lit "://"))
    · cases (decide (r.pattern.length > 3) && r.pattern.head? == some (ch '/') &&
          r.pattern.getLast? == some (ch '.'))
      · simp
      · simp
    · simp

theorem target_eq_spec (r : NetRule) (q : Request) :
    (if shouldMatchHostname r q then q.hostname else q.url) = specTarget r q := by
  rw [shouldMatchHostname_eq]
  rfl

theorem matchPattern_eq_spec (ext : Ext) (r : NetRule) (q : Request) :
    matchPattern ext r q = specPattern ext r q := by
  unfold matchPattern specPattern
  rw [target_eq_spec]

/-- the core of C04 -/
theorem matches_eq_spec (ext : Ext) (r : NetRule) (q : Request) (hwf : r.WellFormed)
    (hq : q.InDomain) : r.matches ext q = specMatch ext r q := by
  unfold NetRule.matches specMatch
  have hty : matchRequestType r q.reqType = specReqType r q.reqType := by
    obtain ⟨k, hk⟩ := hq.oneType
    rw [hk]; exact matchRequestType_eq_spec r k
  rw [hty, matchRequestDomain_eq_spec ext r q hq.hostNoDot,
    matchSourceDomain_eq_spec ext r q hq.srcNoDot, matchDNSType_eq_spec,
    matchClientTags_eq_spec r q hwf.permTags hwf.restrTags hq.sorted,
    matchClient_eq_spec r q hwf, matchPattern_eq_spec]
  have h3 : (matchShortcut r q && !(r.isEnabled Facts.OptionThirdParty && !q.thirdParty) &&
      !(r.isDisabled Facts.OptionThirdParty && q.thirdParty)) =
      (hasSub q.urlLower r.shortcut && specThirdParty r q) := by
    unfold matchShortcut specThirdParty
    cases hasSub q.urlLower r.shortcut <;> cases r.isEnabled Facts.OptionThirdParty <;>
      cases r.isDisabled Facts.OptionThirdParty <;> cases q.thirdParty <;> rfl
  rw [h3]

/-! ### Match reads list-valued modifiers as sets -/

/-- Match only reads list-valued modifiers as sets -/
theorem containsAny_permEquiv {a b : Option Clients} (h : Clients.PermEquiv a b) (name : Bytes)
    (ip : Option Addr) : Clients.containsAny a name ip = Clients.containsAny b name ip := by
  cases a with
  | none =>
    cases b with
    | none => rfl
    | some b => exact absurd h (by simp [Clients.PermEquiv])
  | some a =>
    cases b with
    | none => exact absurd h (by simp [Clients.PermEquiv])
    | some b =>
      simp only [Clients.PermEquiv] at h
      simp only [Clients.containsAny, h.1]
      cases ip with
      | none => rfl
      | some ip => simp only [h.2.any_eq]

theorem clientsLen_permEquiv {a b : Option Clients} (h : Clients.PermEquiv a b) :
    Clients.len a = Clients.len b := by
  cases a with
  | none =>
    cases b with
    | none => rfl
    | some b => exact absurd h (by simp [Clients.PermEquiv])
  | some a =>
    cases b with
    | none => exact absurd h (by simp [Clients.PermEquiv])
    | some b =>
      simp only [Clients.PermEquiv] at h
      simp only [Clients.len, h.1, h.2.length_eq]

theorem matches_permEquiv (ext : Ext) {r r' : NetRule} (h : r.PermEquiv r') (q : Request) :
    r.matches ext q = r'.matches ext q := by
  have hen : ∀ o, r.isEnabled o = r'.isEnabled o := fun o => by
    simp only [NetRule.isEnabled, h.enabled]
  have hdis : ∀ o, r.isDisabled o = r'.isDisabled o := fun o => by
    simp only [NetRule.isDisabled, h.disabled]
  have h1 : matchShortcut r q = matchShortcut r' q := by
    simp only [matchShortcut, h.shortcut]
  have h2 : matchRequestType r q.reqType = matchRequestType r' q.reqType := by
    simp only [matchRequestType, h.permTypes, h.restrTypes]
  have h3 : matchRequestDomain ext r q.hostname q.isHostnameRequest =
      matchRequestDomain ext r' q.hostname q.isHostnameRequest := by
    simp only [matchRequestDomain, isDomainOrSubdomainOfAny, h.denyallow.isEmpty_eq,
      h.denyallow.any_eq]
  have h4 : matchSourceDomain ext r q.sourceHostname = matchSourceDomain ext r' q.sourceHostname := by
    unfold matchSourceDomain isDomainOrSubdomainOfAny
    rw [h.permDomains.isEmpty_eq, h.restrDomains.isEmpty_eq, h.permDomains.any_eq,
      h.restrDomains.any_eq]
  have h5 : matchDNSType r q.dnsType = matchDNSType r' q.dnsType := by
    simp only [matchDNSType, h.permDns.isEmpty_eq, h.restrDns.isEmpty_eq,
      h.permDns.contains_eq, h.restrDns.contains_eq]
  have h6 : matchClientTags r q.sortedTags = matchClientTags r' q.sortedTags := by
    simp only [matchClientTags, h.permTags, h.restrTags]
  have h7 : matchClient r q.clientName q.clientIP = matchClient r' q.clientName q.clientIP := by
    simp only [matchClient, clientsLen_permEquiv h.permClients, clientsLen_permEquiv h.restrClients,
      containsAny_permEquiv h.permClients, containsAny_permEquiv h.restrClients]
  have h8 : matchPattern ext r q = matchPattern ext r' q := by
    unfold matchPattern shouldMatchHostname
    rw [h.pattern, hen]
  unfold NetRule.matches
  rw [h1, h2, h3, h4, h5, h6, h7, h8, hen, hdis]

/-! ### the parser's `finalize` -/

theorem insertPrefix_perm (x : Prefix) (l : List Prefix) : (insertPrefix x l).Perm (x :: l) := by
  induction l with
  | nil => exact List.Perm.refl _
  | cons y ys ih =>
    simp only [insertPrefix]
    split
    · exact List.Perm.refl _
    · exact (List.Perm.cons y ih).trans (List.Perm.swap x y ys)

theorem sortPrefixes_perm (l : List Prefix) : (sortPrefixes l).Perm l := by
  induction l with
  | nil => exact List.Perm.refl _
  | cons x l ih =>
    show (insertPrefix x (sortPrefixes l)).Perm (x :: l)
    exact (insertPrefix_perm x _).trans (List.Perm.cons x ih)

theorem finalize_permEquiv (hosts hosts' : List Bytes) (nets nets' : List Prefix)
    (hh : hosts.Perm hosts') (hn : nets.Perm nets') :
    Clients.PermEquiv (Clients.finalize (some { hosts := hosts, nets := nets }))
      (Clients.finalize (some { hosts := hosts', nets := nets' })) := by
  simp only [Clients.finalize, Clients.PermEquiv]
  exact ⟨sortB_eq_of_perm hh,
    ((sortPrefixes_perm nets).trans hn).trans (sortPrefixes_perm nets').symm⟩

end UF.E

import UF.Model.TrimSpace
/-
  Lemmas about the model of `strings.TrimSpace`:
  * `trimSpace_eq_ref`  : the Go-shaped function (fast path + fall-backs) = trim left, then right;
  * `trimSpace_append_sp`: appending ASCII blanks does not change the result
    (instances: `trimSpace_nl'`, `trimSpace_crnl'`).
-/
namespace UF

theorem asciiSp_lt {c : UInt8} (h : asciiSp c = true) : c < 0x80 := by
  simp [asciiSp] at h; grind

theorem uni2_fst {c d : UInt8} (h : uni2 c d = true) : ¬ c < 0x80 := by
  simp [uni2] at h; grind
theorem uni2_snd {c d : UInt8} (h : uni2 c d = true) : ¬ d < 0x80 := by
  simp [uni2] at h; grind
theorem uni3_fst {c d e : UInt8} (h : uni3 c d e = true) : ¬ c < 0x80 := by
  simp [uni3] at h; grind
theorem uni3_snd {c d e : UInt8} (h : uni3 c d e = true) : ¬ d < 0x80 := by
  simp [uni3] at h; grind
theorem uni3_thd {c d e : UInt8} (h : uni3 c d e = true) : ¬ e < 0x80 := by
  simp [uni3] at h; grind

theorem uni2_false_of_fst {c d : UInt8} (h : c < 0x80) : uni2 c d = false := by
  cases hu : uni2 c d with
  | false => rfl
  | true => exact absurd h (uni2_fst hu)
theorem uni2_false_of_snd {c d : UInt8} (h : d < 0x80) : uni2 c d = false := by
  cases hu : uni2 c d with
  | false => rfl
  | true => exact absurd h (uni2_snd hu)
theorem uni3_false_of_fst {c d e : UInt8} (h : c < 0x80) : uni3 c d e = false := by
  cases hu : uni3 c d e with
  | false => rfl
  | true => exact absurd h (uni3_fst hu)
theorem uni3_false_of_snd {c d e : UInt8} (h : d < 0x80) : uni3 c d e = false := by
  cases hu : uni3 c d e with
  | false => rfl
  | true => exact absurd h (uni3_snd hu)
theorem uni3_false_of_thd {c d e : UInt8} (h : e < 0x80) : uni3 c d e = false := by
  cases hu : uni3 c d e with
  | false => rfl
  | true => exact absurd h (uni3_thd hu)

/-- A non-blank ASCII byte stops the left scan. -/
theorem trimLeftU_ascii {c : UInt8} {r : Bytes} (h1 : asciiSp c = false) (h2 : c < 0x80) :
    trimLeftU (c :: r) = c :: r := by
  unfold trimLeftU
  simp only [h1]
  cases r with
  | nil => simp
  | cons d r2 =>
    simp only [uni2_false_of_fst h2]
    cases r2 with
    | nil => simp
    | cons e r3 => simp [uni3_false_of_fst h2]

theorem trimRevU_ascii {c : UInt8} {r : Bytes} (h1 : asciiSp c = false) (h2 : c < 0x80) :
    trimRevU (c :: r) = c :: r := by
  unfold trimRevU
  simp only [h1]
  cases r with
  | nil => simp
  | cons d r2 =>
    simp only [uni2_false_of_snd h2]
    cases r2 with
    | nil => simp
    | cons e r3 => simp [uni3_false_of_thd h2]

theorem trimLeftU_sp {c : UInt8} {r : Bytes} (h : asciiSp c = true) : trimLeftU (c :: r) = trimLeftU r := by
  rw [trimLeftU.eq_def]; simp [h]

theorem trimRevU_sp {c : UInt8} {r : Bytes} (h : asciiSp c = true) : trimRevU (c :: r) = trimRevU r := by
  rw [trimRevU.eq_def]; simp [h]

theorem trimLeftU_dropAsciiSp (s : Bytes) : trimLeftU (dropAsciiSp s) = trimLeftU s := by
  induction s with
  | nil => rfl
  | cons c r ih =>
    cases h : asciiSp c with
    | true => simp [dropAsciiSp, h, ih, trimLeftU_sp h]
    | false => simp [dropAsciiSp, h]

theorem trimRevU_dropAsciiSp (s : Bytes) : trimRevU (dropAsciiSp s) = trimRevU s := by
  induction s with
  | nil => rfl
  | cons c r ih =>
    cases h : asciiSp c with
    | true => simp [dropAsciiSp, h, ih, trimRevU_sp h]
    | false => simp [dropAsciiSp, h]

theorem dropAsciiSp_head {s : Bytes} {c : UInt8} {r : Bytes} (h : dropAsciiSp s = c :: r) : asciiSp c = false := by
  induction s with
  | nil => simp [dropAsciiSp] at h
  | cons a t ih =>
    cases ha : asciiSp a with
    | true => simp [dropAsciiSp, ha] at h; exact ih h
    | false =>
      simp [dropAsciiSp, ha] at h
      rw [← h.1]; exact ha

/-- The Go-shaped `trimSpace` is "trim left, then trim right". -/
theorem trimSpace_eq_ref (s : Bytes) : trimSpace s = trimSpaceRef s := by
  unfold trimSpace trimSpaceRef
  cases h1 : dropAsciiSp s with
  | nil =>
    have := trimLeftU_dropAsciiSp s
    rw [h1] at this
    simp [← this, trimLeftU, trimRightU, trimRevU]
  | cons c r =>
    have hl := trimLeftU_dropAsciiSp s
    rw [h1] at hl
    have hc := dropAsciiSp_head h1
    by_cases hge : c ≥ 0x80
    · simp [hge, hl]
    · have hlt : c < 0x80 := UInt8.not_le.mp hge
      simp only [hge, if_false]
      rw [← hl, trimLeftU_ascii hc hlt]
      unfold trimRightU
      generalize (c :: r).reverse = x
      have e := trimRevU_dropAsciiSp x
      cases h2 : dropAsciiSp x with
      | nil =>
        rw [h2] at e
        simp only [← e, trimRevU, List.reverse_nil]
      | cons d r' =>
        rw [h2] at e
        have hd := dropAsciiSp_head h2
        by_cases hdge : d ≥ 0x80
        · simp only [hdge, if_true, List.reverse_reverse, e]
        · have hdlt : d < 0x80 := UInt8.not_le.mp hdge
          simp only [hdge, if_false, ← e, trimRevU_ascii hd hdlt]

/-! ### Appending ASCII blanks -/

def allSp (t : Bytes) : Prop := ∀ c ∈ t, asciiSp c = true

theorem trimLeftU_allSp {t : Bytes} (h : allSp t) : trimLeftU t = [] := by
  induction t with
  | nil => rfl
  | cons c r ih =>
    rw [trimLeftU_sp (h c (by simp))]
    exact ih (fun x hx => h x (by simp [hx]))

theorem trimRevU_allSp_append {t : Bytes} (h : allSp t) (x : Bytes) : trimRevU (t ++ x) = trimRevU x := by
  induction t with
  | nil => rfl
  | cons c r ih =>
    rw [List.cons_append, trimRevU_sp (h c (by simp))]
    exact ih (fun y hy => h y (by simp [hy]))

theorem trimRightU_append_sp {t : Bytes} (h : allSp t) (x : Bytes) : trimRightU (x ++ t) = trimRightU x := by
  unfold trimRightU
  rw [List.reverse_append, trimRevU_allSp_append]
  intro c hc
  exact h c (by simpa using hc)

/-- Left trim of `l ++ blanks`. -/
theorem trimLeftU_append_sp {t : Bytes} (h : allSp t) (l : Bytes) :
    trimLeftU (l ++ t) = if trimLeftU l = [] then [] else trimLeftU l ++ t := by
  induction l using trimLeftU.induct with
  | case1 => simp [trimLeftU_allSp h, trimLeftU]
  | case2 c r hc ih => simp [trimLeftU_sp hc, ih]
  | case3 c hc =>
    -- l = [c], c not a blank
    have hc' : asciiSp c = false := by simpa using hc
    have e1 : trimLeftU [c] = [c] := by simp [trimLeftU, hc']
    rw [e1]
    simp only [List.cons_append, List.nil_append]
    cases t with
    | nil => simp [e1]
    | cons d t2 =>
      have hd := asciiSp_lt (h d (by simp))
      rw [trimLeftU.eq_def]
      simp only [hc', uni2_false_of_snd hd]
      cases t2 with
      | nil => simp
      | cons e t3 => simp [uni3_false_of_snd hd]
  | case4 c hc d r2 hu ih =>
    have hc' : asciiSp c = false := by simpa using hc
    have e1 : ∀ x, trimLeftU (c :: d :: x) = trimLeftU x := by
      intro x; rw [trimLeftU.eq_def]; simp [hc', hu]
    simp only [List.cons_append, e1, ih]
  | case5 c hc d hu =>
    have hc' : asciiSp c = false := by simpa using hc
    have hu' : uni2 c d = false := by simpa using hu
    have e1 : trimLeftU [c, d] = [c, d] := by simp [trimLeftU, hc', hu']
    rw [e1]
    simp only [List.cons_append, List.nil_append]
    cases t with
    | nil => simp [e1]
    | cons e t3 =>
      have he := asciiSp_lt (h e (by simp))
      rw [trimLeftU.eq_def]
      simp [hc', hu', uni3_false_of_thd he]
  | case6 c hc d hu e r3 h3 ih =>
    have hc' : asciiSp c = false := by simpa using hc
    have hu' : uni2 c d = false := by simpa using hu
    have e1 : ∀ x, trimLeftU (c :: d :: e :: x) = trimLeftU x := by
      intro x; rw [trimLeftU.eq_def]; simp [hc', hu', h3]
    simp only [List.cons_append, e1, ih]
  | case7 c hc d hu e r3 h3 =>
    have hc' : asciiSp c = false := by simpa using hc
    have hu' : uni2 c d = false := by simpa using hu
    have h3' : uni3 c d e = false := by simpa using h3
    have e1 : ∀ x, trimLeftU (c :: d :: e :: x) = c :: d :: e :: x := by
      intro x; rw [trimLeftU.eq_def]; simp [hc', hu', h3']
    simp [e1]

theorem trimSpaceRef_append_sp {t : Bytes} (h : allSp t) (l : Bytes) :
    trimSpaceRef (l ++ t) = trimSpaceRef l := by
  unfold trimSpaceRef
  rw [trimLeftU_append_sp h]
  by_cases he : trimLeftU l = []
  · simp [he]
  · simp only [he, if_false]
    exact trimRightU_append_sp h _

/-- Appending ASCII blanks does not change `strings.TrimSpace`. -/
theorem trimSpace_append_sp {t : Bytes} (h : allSp t) (l : Bytes) : trimSpace (l ++ t) = trimSpace l := by
  rw [trimSpace_eq_ref, trimSpace_eq_ref, trimSpaceRef_append_sp h]

theorem trimSpace_nl' (l : Bytes) : trimSpace (l ++ [10]) = trimSpace l :=
  trimSpace_append_sp (by intro c hc; simp at hc; subst hc; decide) l

theorem trimSpace_crnl' (l : Bytes) : trimSpace (l ++ [13, 10]) = trimSpace l :=
  trimSpace_append_sp (by intro c hc; simp at hc; rcases hc with hc | hc <;> subst hc <;> decide) l

end UF

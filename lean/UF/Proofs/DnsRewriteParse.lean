import UF.Model.DnsRewriteParse
import UF.Spec.DnsRewriteShape
/-
  Helper lemmas for C10: checked operations succeed under their guards; what each handler
  returns; no handler panics.
-/
namespace UF.H
open Bytes

theorem idxE_of_lt {α} {l : List α} {i : Nat} (h : i < l.length) : idxE l i = .ok l[i] := by
  simp [idxE, List.getElem?_eq_getElem h]

theorem idxE_ne_panic_of_lt {α} {l : List α} {i : Nat} (h : i < l.length) :
    ∃ x, idxE l i = .ok x := ⟨_, idxE_of_lt h⟩

theorem sliceE_of_le {s : Bytes} {i j : Nat} (h1 : i ≤ j) (h2 : j ≤ s.length) :
    sliceE s i j = .ok ((s.take j).drop i) := by
  simp [sliceE, Bytes.slice?, h1, h2]

theorem lookupTbl_mem {tbl : List (Bytes × Nat)} {k : Bytes} {v : Nat}
    (h : lookupTbl tbl k = some v) : ∃ e ∈ tbl, e.2 = v := by
  unfold lookupTbl at h
  split at h
  · rename_i e he
    exact ⟨e, List.mem_of_find?_eq_some he, by simpa using h⟩
  · cases h

/-! ### validateHost -/

theorem validatePart_noPanic (p : Bytes) : validatePart p ≠ .error .panic := by
  unfold validatePart
  by_cases h0 : p.length = 0
  · simp [h0]
  · have hpos : 0 < p.length := Nat.pos_of_ne_zero h0
    simp only [beq_iff_eq, h0, if_false, idxE_of_lt hpos]
    split
    · simp
    · rw [sliceE_of_le (by omega) (Nat.le_refl _)]
      simp only
      split <;> simp

theorem validateParts_noPanic (ps : List Bytes) : validateParts ps ≠ .error .panic := by
  induction ps with
  | nil => simp [validateParts]
  | cons p ps ih =>
    unfold validateParts
    have := validatePart_noPanic p
    split
    · rename_i e he
      intro h
      simp at h
      subst h
      exact this he
    · exact ih

theorem validateHost_noPanic (h : Bytes) : validateHost h ≠ .error .panic := by
  unfold validateHost
  split
  · simp
  · exact validateParts_noPanic _

theorem validateHost_ok_nonempty {h : Bytes} (hv : validateHost h = .ok ()) : h ≠ [] := by
  intro he
  subst he
  simp [validateHost] at hv

theorem validateTarget_noPanic (t : Bytes) : validateTarget t ≠ .error .panic := by
  unfold validateTarget
  split
  · simp
  · exact validateHost_noPanic _

/-! ### parseUint16 -/

theorem parseUint16_le {x : Bytes} {n : Nat} (h : parseUint16 x = some n) : n ≤ 65535 := by
  unfold parseUint16 at h
  split at h
  · cases h
  · split at h
    · rename_i hle
      cases h
      exact hle
    · cases h

end UF.H

namespace UF.H
open Bytes

/-! ### What the handlers return (for `rcode = 0`, the only way they are called) -/

theorem ipHandler_shape {w : Bool} {ext : Ext} {rr : Nat} {v : Bytes} {rw : DnsRewrite}
    (hrr : rr = if w then Facts.H.DnsTypeA else Facts.H.DnsTypeAAAA)
    (h : ipHandler w ext 0 rr v = .ok rw) : shapeOK rw = true := by
  unfold ipHandler at h
  split at h
  · cases h
  · split at h
    · cases h
    · rename_i a _
      split at h
      · cases h
      · rename_i hw
        cases h
        cases w <;> simp_all [shapeOK, valueShapeOK, isU16, Facts.H.DnsTypeA, Facts.H.DnsTypeAAAA]

theorem cnameHandler_shape {ext : Ext} {rc rr : Nat} {v : Bytes} {rw : DnsRewrite}
    (h : cnameHandler ext rc rr v = .ok rw) : shapeOK rw = true := by
  unfold cnameHandler at h
  split at h
  · cases h
  · rename_i hv
    cases h
    have := validateHost_ok_nonempty hv
    cases v with
    | nil => exact absurd rfl this
    | cons c t => simp [shapeOK]

theorem strHandler_shape {ext : Ext} {rr : Nat} {v : Bytes} {rw : DnsRewrite}
    (hrr : rr = Facts.H.DnsTypeTXT)
    (h : strHandler ext 0 rr v = .ok rw) : shapeOK rw = true := by
  unfold strHandler at h
  cases h
  subst hrr
  simp [shapeOK, valueShapeOK, isU16, Facts.H.DnsTypeA, Facts.H.DnsTypeAAAA, Facts.H.DnsTypeMX, Facts.H.DnsTypeSRV,
    Facts.H.DnsTypeHTTPS, Facts.H.DnsTypeSVCB, Facts.H.DnsTypePTR, Facts.H.DnsTypeTXT]

end UF.H

namespace UF.H
open Bytes

theorem idxE_ok_getElem? {α} {l : List α} {i : Nat} {x : α} (h : idxE l i = .ok x) : l[i]? = some x := by
  unfold idxE at h
  split at h
  · rename_i y hy
    cases h
    exact hy
  · cases h

theorem mxHandler_shape {ext : Ext} {rr : Nat} {v : Bytes} {rw : DnsRewrite}
    (hrr : rr = Facts.H.DnsTypeMX)
    (h : mxHandler ext 0 rr v = .ok rw) : shapeOK rw = true := by
  unfold mxHandler at h
  simp only at h
  split at h
  · cases h
  · split at h
    · split at h
      · cases h
      · rename_i pref hp
        split at h
        · cases h
        · cases h
          subst hrr
          have := parseUint16_le hp
          simp [shapeOK, valueShapeOK, isU16, this, Facts.H.DnsTypeA, Facts.H.DnsTypeAAAA, Facts.H.DnsTypeMX]
    · cases h

theorem srvHandler_shape {ext : Ext} {rr : Nat} {v : Bytes} {rw : DnsRewrite}
    (hrr : rr = Facts.H.DnsTypeSRV)
    (h : srvHandler ext 0 rr v = .ok rw) : shapeOK rw = true := by
  unfold srvHandler at h
  simp only at h
  split at h
  · cases h
  · split at h
    · split at h
      · cases h
      · rename_i p hp
        split at h
        · cases h
        · rename_i w hw
          split at h
          · cases h
          · rename_i po hpo
            split at h
            · cases h
            · cases h
              subst hrr
              have := parseUint16_le hp
              have := parseUint16_le hw
              have := parseUint16_le hpo
              simp [shapeOK, valueShapeOK, isU16, *, Facts.H.DnsTypeA, Facts.H.DnsTypeAAAA, Facts.H.DnsTypeMX,
                Facts.H.DnsTypeSRV]
    · cases h

theorem svcbHandler_shape {ext : Ext} {rr : Nat} {v : Bytes} {rw : DnsRewrite}
    (hrr : rr = Facts.H.DnsTypeHTTPS ∨ rr = Facts.H.DnsTypeSVCB)
    (h : svcbHandler ext 0 rr v = .ok rw) : shapeOK rw = true := by
  unfold svcbHandler at h
  simp only at h
  split at h
  · cases h
  · split at h
    · cases h
    · split at h
      · split at h
        · cases h
        · rename_i p hp
          have := parseUint16_le hp
          split at h
          · cases h
          · split at h
            · cases h
              rcases hrr with hrr | hrr <;> subst hrr <;>
                simp [shapeOK, valueShapeOK, isU16, this, Facts.H.DnsTypeA, Facts.H.DnsTypeAAAA, Facts.H.DnsTypeMX,
                  Facts.H.DnsTypeSRV, Facts.H.DnsTypeHTTPS, Facts.H.DnsTypeSVCB]
            · split at h
              · cases h
              · cases h
                rcases hrr with hrr | hrr <;> subst hrr <;>
                  simp [shapeOK, valueShapeOK, isU16, this, Facts.H.DnsTypeA, Facts.H.DnsTypeAAAA, Facts.H.DnsTypeMX,
                    Facts.H.DnsTypeSRV, Facts.H.DnsTypeHTTPS, Facts.H.DnsTypeSVCB]
      · cases h

theorem ptrHandler_shape {ext : Ext} {rr : Nat} {v : Bytes} {rw : DnsRewrite}
    (hrr : rr = Facts.H.DnsTypePTR)
    (h : ptrHandler ext 0 rr v = .ok rw) : shapeOK rw = true := by
  unfold ptrHandler at h
  simp only at h
  split at h
  · cases h
  · rename_i fqdn v' hsplit
    have hlast : fqdn.getLast? = some (ch '.') := by
      split at hsplit
      · split at hsplit
        · cases hsplit
        · rename_i c hc
          split at hsplit
          · rename_i hdot
            split at hsplit
            · cases hsplit
            · cases hsplit
              have := idxE_ok_getElem? hc
              rw [List.getLast?_eq_getElem?, this]
              simp at hdot
              simp [hdot]
          · cases hsplit
            simp [dnsFqdnNoDot]
      · cases hsplit
        simp [dnsFqdnNoDot]
    split at h
    · cases h
    · cases h
      subst hrr
      simp [shapeOK, valueShapeOK, isU16, hlast, Facts.H.DnsTypeA, Facts.H.DnsTypeAAAA, Facts.H.DnsTypeMX,
        Facts.H.DnsTypeSRV, Facts.H.DnsTypeHTTPS, Facts.H.DnsTypeSVCB, Facts.H.DnsTypePTR]

end UF.H

namespace UF.H
open Bytes

/-! ### No handler panics -/

theorem ipHandler_noPanic (w : Bool) (ext : Ext) (rc rr : Nat) (v : Bytes) :
    ipHandler w ext rc rr v ≠ .error .panic := by
  unfold ipHandler
  split
  · simp
  · split
    · simp
    · split <;> simp

theorem cnameHandler_noPanic (ext : Ext) (rc rr : Nat) (v : Bytes) :
    cnameHandler ext rc rr v ≠ .error .panic := by
  unfold cnameHandler
  have := validateHost_noPanic v
  split
  · rename_i e he
    intro h
    simp at h
    subst h
    exact this he
  · simp

theorem strHandler_noPanic (ext : Ext) (rc rr : Nat) (v : Bytes) :
    strHandler ext rc rr v ≠ .error .panic := by
  simp [strHandler]

theorem ptrHandler_noPanic (ext : Ext) (rc rr : Nat) (v : Bytes) :
    ptrHandler ext rc rr v ≠ .error .panic := by
  unfold ptrHandler
  simp only
  split
  · rename_i e hsplit
    -- the split itself never fails
    exfalso
    split at hsplit
    · rename_i hl
      rw [idxE_of_lt (by omega)] at hsplit
      simp only at hsplit
      split at hsplit
      · rw [sliceE_of_le (Nat.zero_le _) (by omega)] at hsplit
        cases hsplit
      · cases hsplit
    · cases hsplit
  · rename_i fqdn v' _
    have := validateHost_noPanic v'
    split
    · rename_i e he
      intro h
      simp at h
      subst h
      exact this he
    · simp

theorem mxHandler_noPanic (ext : Ext) (rc rr : Nat) (v : Bytes) :
    mxHandler ext rc rr v ≠ .error .panic := by
  unfold mxHandler
  simp only
  split
  · simp
  · rename_i hlen
    simp at hlen
    rw [idxE_of_lt (by omega : 0 < (splitNByte v (ch ' ') 2).length),
        idxE_of_lt (by omega : 1 < (splitNByte v (ch ' ') 2).length)]
    simp only
    split
    · simp
    · have := validateHost_noPanic ((splitNByte v (ch ' ') 2)[1]'(by omega))
      split
      · rename_i e he
        intro h
        simp at h
        subst h
        exact this he
      · simp

theorem srvHandler_noPanic (ext : Ext) (rc rr : Nat) (v : Bytes) :
    srvHandler ext rc rr v ≠ .error .panic := by
  unfold srvHandler
  simp only
  split
  · simp
  · rename_i hlen
    simp at hlen
    rw [idxE_of_lt (by omega : 0 < (splitByte v (ch ' ')).length),
        idxE_of_lt (by omega : 1 < (splitByte v (ch ' ')).length),
        idxE_of_lt (by omega : 2 < (splitByte v (ch ' ')).length),
        idxE_of_lt (by omega : 3 < (splitByte v (ch ' ')).length)]
    simp only
    split
    · simp
    · split
      · simp
      · split
        · simp
        · have := validateTarget_noPanic ((splitByte v (ch ' '))[3]'(by omega))
          split
          · rename_i e he
            intro h
            simp at h
            subst h
            exact this he
          · simp

theorem svcbParams_noPanic (ps : List Bytes) (acc : List (Bytes × Bytes)) :
    svcbParams ps acc ≠ .error .panic := by
  induction ps generalizing acc with
  | nil => simp [svcbParams]
  | cons p ps ih =>
    unfold svcbParams
    simp only
    split
    · simp
    · rename_i hlen
      simp at hlen
      rw [idxE_of_lt (by omega : 0 < (splitByte p (ch '=')).length),
          idxE_of_lt (by omega : 1 < (splitByte p (ch '=')).length)]
      simp only
      exact ih _

theorem svcbHandler_noPanic (ext : Ext) (rc rr : Nat) (v : Bytes) :
    svcbHandler ext rc rr v ≠ .error .panic := by
  unfold svcbHandler
  simp only
  split
  · simp
  · split
    · simp
    · rename_i hlen
      simp at hlen
      rw [idxE_of_lt (by omega : 0 < (splitByte v (ch ' ')).length),
          idxE_of_lt (by omega : 1 < (splitByte v (ch ' ')).length)]
      simp only
      split
      · simp
      · have := validateTarget_noPanic ((splitByte v (ch ' '))[1]'(by omega))
        split
        · rename_i e he
          intro h
          simp at h
          subst h
          exact this he
        · split
          · simp
          · have := svcbParams_noPanic ((splitByte v (ch ' ')).drop 2) []
            split
            · rename_i e he
              intro h
              simp at h
              subst h
              exact this he
            · simp

theorem handlerOf_noPanic {rr : Nat} {h : RRHandler} (hh : handlerOf rr = some h)
    (ext : Ext) (rc : Nat) (v : Bytes) : h ext rc rr v ≠ .error .panic := by
  unfold handlerOf at hh
  repeat' split at hh
  all_goals cases hh
  all_goals first
    | exact ipHandler_noPanic _ _ _ _ _
    | exact cnameHandler_noPanic _ _ _ _
    | exact mxHandler_noPanic _ _ _ _
    | exact ptrHandler_noPanic _ _ _ _
    | exact strHandler_noPanic _ _ _ _
    | exact svcbHandler_noPanic _ _ _ _
    | exact srvHandler_noPanic _ _ _ _

theorem handlerOf_shape {rr : Nat} {h : RRHandler} (hh : handlerOf rr = some h)
    {ext : Ext} {v : Bytes} {rw : DnsRewrite} (hr : h ext 0 rr v = .ok rw) : shapeOK rw = true := by
  unfold handlerOf at hh
  repeat' split at hh
  all_goals cases hh
  all_goals (rename_i hrr; simp only [beq_iff_eq] at hrr)
  all_goals first
    | exact ipHandler_shape (w := true) (by simp [hrr]) hr
    | exact ipHandler_shape (w := false) (by simp [hrr]) hr
    | exact cnameHandler_shape hr
    | exact mxHandler_shape hrr hr
    | exact ptrHandler_shape hrr hr
    | exact strHandler_shape hrr hr
    | exact svcbHandler_shape (Or.inl hrr) hr
    | exact svcbHandler_shape (Or.inr hrr) hr
    | exact srvHandler_shape hrr hr

end UF.H

namespace UF.H
open Bytes

/-! ### Short and normal form -/

theorem typeTable_u16 : Facts.H.dnsTypeTable.all (fun e => decide (e.2 ≤ 65535)) = true := by decide

theorem strToRRType_u16 {s : Bytes} {rr : Nat} (h : strToRRType s = some rr) : rr ≤ 65535 := by
  unfold strToRRType at h
  split at h
  · cases h
  · obtain ⟨e, he, hv⟩ := lookupTbl_mem h
    have := List.all_eq_true.mp typeTable_u16 e he
    simp at this
    omega

theorem handlerOf_none_shape {rr : Nat} (h : handlerOf rr = none) : valueShapeOK rr .none = true := by
  unfold handlerOf at h
  repeat' split at h
  all_goals cases h
  simp_all [valueShapeOK]

theorem shapeOK_rcodeOnly (rc : Nat) : shapeOK { rcode := rc } = true := by
  by_cases h : rc = 0
  · subst h
    simp [shapeOK, valueShapeOK, isU16, Facts.H.DnsTypeA, Facts.H.DnsTypeAAAA, Facts.H.DnsTypeMX, Facts.H.DnsTypeSRV,
      Facts.H.DnsTypeHTTPS, Facts.H.DnsTypeSVCB, Facts.H.DnsTypePTR, Facts.H.DnsTypeTXT]
  · simp [shapeOK, h]

theorem loadDNSRewriteShort_shape {ext : Ext} {s : Bytes} {rw : DnsRewrite}
    (h : loadDNSRewriteShort ext s = .ok rw) : shapeOK rw = true := by
  unfold loadDNSRewriteShort at h
  split at h
  · cases h
    exact shapeOK_rcodeOnly 0
  · split at h
    · split at h
      · cases h
        exact shapeOK_rcodeOnly _
      · cases h
    · split at h
      · rename_i a _
        cases h
        cases h4 : a.is4 <;>
          simp [shapeOK, valueShapeOK, isU16, h4, Facts.H.RcodeSuccess, Facts.H.DnsTypeA, Facts.H.DnsTypeAAAA]
      · split at h
        · cases h
        · rename_i hv
          cases h
          have := validateHost_ok_nonempty hv
          cases s with
          | nil => exact absurd rfl this
          | cons c t => simp [shapeOK]

theorem loadDNSRewriteShort_noPanic (ext : Ext) (s : Bytes) :
    loadDNSRewriteShort ext s ≠ .error .panic := by
  unfold loadDNSRewriteShort
  split
  · simp
  · split
    · split <;> simp
    · split
      · simp
      · have := validateHost_noPanic s
        split
        · rename_i e he
          intro h
          simp at h
          subst h
          exact this he
        · simp

theorem loadDNSRewriteNormal_shape {ext : Ext} {a b c : Bytes} {rw : DnsRewrite}
    (h : loadDNSRewriteNormal ext a b c = .ok rw) : shapeOK rw = true := by
  unfold loadDNSRewriteNormal at h
  split at h
  · cases h
  · rename_i rcode _
    split at h
    · cases h
      exact shapeOK_rcodeOnly _
    · rename_i hcond
      have hrc : rcode = 0 := by
        simp [Facts.H.RcodeSuccess] at hcond
        exact hcond.1
      subst hrc
      split at h
      · cases h
      · rename_i rr hrr
        have hu := strToRRType_u16 hrr
        split at h
        · rename_i hnone
          cases h
          have := handlerOf_none_shape hnone
          simp [shapeOK, isU16, hu, this]
        · rename_i hd hsome
          exact handlerOf_shape hsome h

theorem loadDNSRewriteNormal_noPanic (ext : Ext) (a b c : Bytes) :
    loadDNSRewriteNormal ext a b c ≠ .error .panic := by
  unfold loadDNSRewriteNormal
  split
  · simp
  · split
    · simp
    · split
      · simp
      · split
        · simp
        · rename_i hd hsome
          exact handlerOf_noPanic hsome _ _ _

end UF.H

namespace UF.H
open Bytes

/-- An oracle that knows two addresses. -/
def exampleExt : Ext where
  psl := fun _ => ([], false)
  parseAddr := fun s =>
    if s == lit "1.2.3.4" then some { is4 := true, val := 16909060 }
    else if s == lit "::1" then some { is4 := false, val := 1 } else none
  parsePrefix := fun _ => none
  pat := fun _ _ _ => false

end UF.H

import UF.Spec.Priority
import UF.Proofs.Bits
/- Helper lemmas for C07: the bit counter, the lexicographic key order, the selection fold. -/
namespace UF

/-! ### popCount -/

theorem popCount_zero : popCount 0 = 0 := by decide

/-- The defining equation (independent of the fuel). -/
theorem popCount_eq (n : Nat) (h : n ≠ 0) : popCount n = n % 2 + popCount (n / 2) := by
  unfold popCount
  by_cases h2 : 2 ≤ n
  · have : n.log2 = (n / 2).log2 + 1 := by rw [Nat.log2_def n]; simp [h2]
    rw [this]; rfl
  · have h1 : n = 1 := by omega
    subst h1; decide

theorem popCount_step (n : Nat) : popCount n = n % 2 + popCount (n / 2) := by
  by_cases h : n = 0
  · subst h; decide
  · exact popCount_eq n h

/-- Setting a bit that is not set adds one to the count. -/
theorem popCount_or_two_pow (k : Nat) : ∀ m : Nat, m.testBit k = false →
    popCount (m ||| 2 ^ k) = popCount m + 1 := by
  induction k with
  | zero =>
    intro m hm
    rw [Nat.testBit_zero] at hm
    have hm0 : m % 2 = 0 := by
      have : ¬ (m % 2 = 1) := by simpa using hm
      omega
    rw [popCount_step (m ||| 2 ^ 0), popCount_step m]
    have h1 : (m ||| 2 ^ 0) % 2 = 1 := Nat.or_mod_two_eq_one.mpr (Or.inr (by decide))
    have h2 : (m ||| 2 ^ 0) / 2 = m / 2 := by rw [Nat.or_div_two]; simp
    rw [h1, h2, hm0]; omega
  | succ k ih =>
    intro m hm
    rw [Nat.testBit_add_one] at hm
    rw [popCount_step (m ||| 2 ^ (k + 1)), popCount_step m]
    have h2 : (m ||| 2 ^ (k + 1)) / 2 = m / 2 ||| 2 ^ k := by
      rw [Nat.or_div_two]; congr 1; rw [Nat.pow_succ]; omega
    have h1 : (m ||| 2 ^ (k + 1)) % 2 = m % 2 := by
      have hp : (2 ^ (k + 1)) % 2 = 0 := by rw [Nat.pow_succ]; omega
      rcases Nat.mod_two_eq_zero_or_one (m ||| 2 ^ (k + 1)) with h | h
      · rcases Nat.mod_two_eq_zero_or_one m with h' | h'
        · omega
        · have := Nat.or_mod_two_eq_one.mpr (Or.inl h' : m % 2 = 1 ∨ (2 ^ (k + 1)) % 2 = 1); omega
      · rcases Nat.or_mod_two_eq_one.mp h with h' | h'
        · omega
        · omega
    rw [h1, h2, ih (m / 2) hm]; omega

/-! ### the key order is a strict weak order (for ALL keys) -/

theorem PKey.gt_irrefl (a : PKey) : ¬ a.gt a := by unfold PKey.gt; omega

theorem PKey.gt_asymm (a b : PKey) : a.gt b → ¬ b.gt a := by unfold PKey.gt; omega

theorem PKey.gt_trans (a b c : PKey) : a.gt b → b.gt c → a.gt c := by unfold PKey.gt; omega

/-- Incomparable keys are equal (the key order is total), … -/
theorem PKey.incomp_eq (a b : PKey) (h1 : ¬ a.gt b) (h2 : ¬ b.gt a) : a = b := by
  cases a; cases b
  simp only [PKey.gt] at h1 h2
  simp only [PKey.mk.injEq]
  omega

/-- … hence incomparability is transitive. -/
theorem PKey.incomp_trans (a b c : PKey) (h1 : ¬ a.gt b) (h2 : ¬ b.gt a) (h3 : ¬ b.gt c) (h4 : ¬ c.gt b) :
    ¬ a.gt c ∧ ¬ c.gt a := by
  have e1 := PKey.incomp_eq a b h1 h2
  have e2 := PKey.incomp_eq b c h3 h4
  subst e1; subst e2
  exact ⟨PKey.gt_irrefl _, PKey.gt_irrefl _⟩

theorem PKey.not_gt_trans (a b c : PKey) : ¬ a.gt b → ¬ b.gt c → ¬ a.gt c := by unfold PKey.gt; omega

/-! ### model = key order -/

private theorem higher_core (wa ia ra ga wb ib rb gb : Bool) (ca cb : Nat) :
    (if ((wa && ia) && !(wb && ib)) = true then true
      else if ((wb && ib) && !(wa && ia)) = true then false
      else if (ia && !ib) = true then true
      else if (ib && !ia) = true then false
      else if (wa && !wb) = true then true
      else if (wb && !wa) = true then false
      else if (ra && !rb) = true then true
      else if (rb && !ra) = true then false
      else if (!ga && gb) = true then true
      else if (ga && !gb) = true then false
      else decide (ca > cb)) = true ↔
    PKey.gt ⟨if (wa && ia) = true then 3 else if ia = true then 2 else if wa = true then 1 else 0,
              if ra = true then 1 else 0, if ga = true then 0 else 1, ca⟩
            ⟨if (wb && ib) = true then 3 else if ib = true then 2 else if wb = true then 1 else 0,
              if rb = true then 1 else 0, if gb = true then 0 else 1, cb⟩ := by
  cases wa <;> cases ia <;> cases wb <;> cases ib <;> cases ra <;> cases rb <;> cases ga <;> cases gb <;>
    simp [PKey.gt]

/-- `IsHigherPriority` is exactly "greater key". -/
theorem higher_iff_key (a b : NetRule) : isHigherPriority a b = true ↔ (pkey a).gt (pkey b) := by
  unfold isHigherPriority pkey classRank
  exact higher_core a.whitelist a.important a.redirect a.isGeneric b.whitelist b.important b.redirect
    b.isGeneric (modifierCount a) (modifierCount b)

theorem higher_eq_spec (a b : NetRule) : isHigherPriority a b = specHigher a b := by
  apply Bool.eq_iff_iff.mpr
  rw [higher_iff_key]; simp [specHigher]

theorem higher_false_iff (a b : NetRule) : isHigherPriority a b = false ↔ ¬ (pkey a).gt (pkey b) := by
  rw [← higher_iff_key]; simp

/-! ### the selection fold -/

theorem selectStep_isSome (best : Option NetRule) (r : NetRule) : (selectStep best r).isSome = true := by
  unfold selectStep; cases best with
  | none => rfl
  | some b => dsimp only; split <;> rfl

/-- Invariant of the scan: the incumbent is an element seen so far and no element seen so far
    outranks it. -/
theorem selectBest_foldl (rs : List NetRule) : ∀ (init : Option NetRule) (seen : List NetRule),
    (∀ b, init = some b → b ∈ seen ∧ ∀ r ∈ seen, ¬ (pkey r).gt (pkey b)) →
    (init = none → seen = []) →
    (∀ w, rs.foldl selectStep init = some w →
      w ∈ seen ++ rs ∧ ∀ r ∈ seen ++ rs, ¬ (pkey r).gt (pkey w)) ∧
    (rs.foldl selectStep init = none → seen ++ rs = []) := by
  induction rs with
  | nil =>
    intro init seen h1 h2
    simp only [List.foldl_nil, List.append_nil]
    exact ⟨fun w hw => h1 w hw, h2⟩
  | cons x xs ih =>
    intro init seen h1 h2
    simp only [List.foldl_cons]
    have hs : seen ++ x :: xs = (seen ++ [x]) ++ xs := by simp
    rw [hs]
    apply ih (selectStep init x) (seen ++ [x])
    · intro b hb
      cases init with
      | none =>
        have := h2 rfl; subst this
        simp only [selectStep, Option.some.injEq] at hb; subst hb
        simp [PKey.gt_irrefl]
      | some c =>
        obtain ⟨hc, hmax⟩ := h1 c rfl
        simp only [selectStep] at hb
        by_cases hh : isHigherPriority x c = true
        · simp only [hh, if_true, Option.some.injEq] at hb; subst hb
          refine ⟨by simp, ?_⟩
          intro r hr
          rcases List.mem_append.mp hr with hr | hr
          · have hxc := (higher_iff_key x c).mp hh
            intro hrx
            exact hmax r hr (PKey.gt_trans _ _ _ hrx hxc)
          · simp only [List.mem_singleton] at hr; subst hr; exact PKey.gt_irrefl _
        · have hh' : isHigherPriority x c = false := by simpa using hh
          simp only [hh', Bool.false_eq_true, if_false, Option.some.injEq] at hb; subst hb
          refine ⟨by simp [hc], ?_⟩
          intro r hr
          rcases List.mem_append.mp hr with hr | hr
          · exact hmax r hr
          · simp only [List.mem_singleton] at hr; subst hr; exact (higher_false_iff _ _).mp hh'
    · intro hnone
      have := selectStep_isSome init x
      rw [hnone] at this; simp at this

/-- `fold_max`: the replace-if-higher scan returns an element of the list that no element outranks. -/
theorem fold_max (rs : List NetRule) (w : NetRule) (h : selectBest rs = some w) :
    w ∈ rs ∧ ∀ r ∈ rs, ¬ (pkey r).gt (pkey w) := by
  have := (selectBest_foldl rs none [] (by simp) (by simp)).1 w h
  simpa using this

theorem selectBest_none (rs : List NetRule) : selectBest rs = none ↔ rs = [] := by
  constructor
  · intro h
    have := (selectBest_foldl rs none [] (by simp) (by simp)).2 h
    simpa using this
  · intro h; subst h; rfl

theorem selectBest_isSome (rs : List NetRule) (h : rs ≠ []) : ∃ w, selectBest rs = some w := by
  cases hs : selectBest rs with
  | none => exact absurd ((selectBest_none rs).mp hs) h
  | some w => exact ⟨w, rfl⟩

/-- Two maximal elements of lists with the same members have the same key. -/
theorem max_key_unique (l l' : List NetRule) (hmem : ∀ r, r ∈ l ↔ r ∈ l') (w w' : NetRule)
    (hw : w ∈ l ∧ ∀ r ∈ l, ¬ (pkey r).gt (pkey w))
    (hw' : w' ∈ l' ∧ ∀ r ∈ l', ¬ (pkey r).gt (pkey w')) : pkey w = pkey w' :=
  PKey.incomp_eq _ _ (hw'.2 w ((hmem w).mp hw.1)) (hw.2 w' ((hmem w').mpr hw'.1))

/-- The key of the selected rule depends only on the SET of candidates. -/
theorem selectBest_key_congr (l l' : List NetRule) (hmem : ∀ r, r ∈ l ↔ r ∈ l') :
    (selectBest l).map pkey = (selectBest l').map pkey := by
  cases h : selectBest l with
  | none =>
    have hl := (selectBest_none l).mp h
    have hl' : l' = [] := by
      cases l' with
      | nil => rfl
      | cons x xs => have := (hmem x).mpr (by simp); rw [hl] at this; simp at this
    subst hl'; rfl
  | some w =>
    cases h' : selectBest l' with
    | none =>
      have hl' := (selectBest_none l').mp h'
      have := fold_max l w h
      have := (hmem w).mp this.1
      rw [hl'] at this; simp at this
    | some w' =>
      simp only [Option.map_some, Option.some.injEq]
      exact max_key_unique l l' hmem w w' (fold_max l w h) (fold_max l' w' h')

end UF

namespace UF

/-! ### adding a modifier -/

/-- Testing option bit `j` after setting bit `k`. -/
theorem isEnabled_or_two_pow (m k j : Nat) :
    (((m ||| 2 ^ k) &&& 2 ^ j) == 2 ^ j) = (m.testBit j || decide (k = j)) := by
  rw [and_two_pow_beq, Nat.testBit_or, Nat.testBit_two_pow]

/-- With class, `$redirect` and generic/specific unchanged, a larger modifier count wins. -/
theorem higher_of_count (r' r : NetRule) (hc : classRank r' = classRank r)
    (hr : r'.redirect = r.redirect) (hg : r'.isGeneric = r.isGeneric)
    (hm : modifierCount r' > modifierCount r) : isHigherPriority r' r = true := by
  rw [higher_iff_key]
  unfold PKey.gt pkey
  exact Or.inr ⟨hc, Or.inr ⟨by simp only [hr], Or.inr ⟨by simp only [hg], hm⟩⟩⟩

end UF

import UF.Model.ParseOptions
import UF.Spec.Match
import UF.Proofs.MergeSorted
import UF.Proofs.MatchSpec
import UF.Proofs.ParseTotal
namespace UF.E
open Bytes

/-- two parser results agree up to R on success and exactly on failure -/
def PE.Rel {α} (R : α → α → Prop) : PE α → PE α → Prop
  | .ok a, .ok b => R a b
  | .error e, .error e' => e = e'
  | _, _ => False
def sepFree (sep : UInt8) (l : List Bytes) : Prop := ∀ x ∈ l, sep ∉ x

/-! ### Split after Join -/

theorem splitByte_go_nosep (sep : UInt8) (x cur : Bytes) (hx : sep ∉ x) :
    splitByte.go sep x cur = [cur.reverse ++ x] := by
  induction x generalizing cur with
  | nil => simp [splitByte.go]
  | cons a t ih =>
    have ha : (a == sep) = false := by
      cases h : a == sep with
      | false => rfl
      | true => exact absurd (by rw [eq_of_beq h]; exact List.mem_cons_self) hx
    have ht : sep ∉ t := fun h => hx (List.mem_cons_of_mem _ h)
    simp only [splitByte.go, ha, Bool.false_eq_true, ↓reduceIte]
    rw [ih _ ht]
    simp

theorem splitByte_go_sep (sep : UInt8) (x t cur : Bytes) (hx : sep ∉ x) :
    splitByte.go sep (x ++ sep :: t) cur = (cur.reverse ++ x) :: splitByte.go sep t [] := by
  induction x generalizing cur with
  | nil => simp [splitByte.go]
  | cons a x ih =>
    have ha : (a == sep) = false := by
      cases h : a == sep with
      | false => rfl
      | true => exact absurd (by rw [eq_of_beq h]; exact List.mem_cons_self) hx
    have ht : sep ∉ x := fun h => hx (List.mem_cons_of_mem _ h)
    simp only [List.cons_append, splitByte.go, ha, Bool.false_eq_true, ↓reduceIte]
    rw [ih _ ht]
    simp

/-- Split is a left inverse of Join on separator-free, non-empty lists of values -/
theorem splitByte_joinSep (l : List Bytes) (sep : UInt8) (hne : l ≠ []) (hs : sepFree sep l) :
    splitByte (joinSep l [sep]) sep = l := by
  induction l with
  | nil => exact absurd rfl hne
  | cons p ps ih =>
    cases ps with
    | nil =>
      simp only [joinSep, splitByte]
      rw [splitByte_go_nosep sep p [] (hs p List.mem_cons_self)]
      simp
    | cons q qs =>
      have ih' := ih (by simp) (fun x hx => hs x (List.mem_cons_of_mem _ hx))
      simp only [joinSep, splitByte, List.append_assoc, List.singleton_append] at ih' ⊢
      rw [splitByte_go_sep sep p _ [] (hs p List.mem_cons_self), ih']
      simp

/-! ### `PE.Rel` -/

theorem PE.Rel.bind {α β} {R : α → α → Prop} {S : β → β → Prop} {x x' : PE α} {f f' : α → PE β}
    (hx : PE.Rel R x x') (hf : ∀ a a', R a a' → PE.Rel S (f a) (f' a')) :
    PE.Rel S (x >>= f) (x' >>= f') := by
  cases x with
  | error e =>
    cases x' with
    | error e' => exact hx
    | ok b => exact hx.elim
  | ok a =>
    cases x' with
    | error e' => exact hx.elim
    | ok b => exact hf a b hx

theorem PE.Rel.trans {α} {R : α → α → Prop} (ht : ∀ a b c, R a b → R b c → R a c) {x y z : PE α}
    (h1 : PE.Rel R x y) (h2 : PE.Rel R y z) : PE.Rel R x z := by
  cases x <;> cases y <;> cases z <;> simp only [PE.Rel] at h1 h2 ⊢
  · exact h1.trans h2
  · exact ht _ _ _ h1 h2

theorem PE.Rel.mono {α} {R S : α → α → Prop} (h : ∀ a b, R a b → S a b) {x y : PE α}
    (h1 : PE.Rel R x y) : PE.Rel S x y := by
  cases x <;> cases y <;> simp only [PE.Rel] at h1 ⊢
  · exact h1
  · exact h _ _ h1

theorem PE.Rel.eq_of_eq {α} {x y : PE α} (h : PE.Rel (· = ·) x y) : x = y := by
  cases x <;> cases y <;> simp only [PE.Rel] at h
  · rw [h]
  · rw [h]

/-! ### folding a step over a permuted list -/

theorem foldlM_rel_same {α σ} (R : σ → σ → Prop) (step : σ → α → PE σ)
    (hstep : ∀ a a' x, R a a' → PE.Rel R (step a x) (step a' x)) :
    ∀ (l : List α) a a', R a a' → PE.Rel R (l.foldlM step a) (l.foldlM step a') := by
  intro l
  induction l with
  | nil => intro a a' r; simpa [List.foldlM, pure, Except.pure, PE.Rel] using r
  | cons x l ih =>
    intro a a' r
    simp only [List.foldlM_cons]
    exact PE.Rel.bind (hstep a a' x r) ih

theorem foldlM_perm_rel {α σ} (R : σ → σ → Prop) (step : σ → α → PE σ)
    (hrefl : ∀ a, R a a) (htrans : ∀ a b c, R a b → R b c → R a c)
    (hstep : ∀ a a' x, R a a' → PE.Rel R (step a x) (step a' x))
    (hswap : ∀ a a' x y, R a a' →
      PE.Rel R (step a y >>= fun b => step b x) (step a' x >>= fun b => step b y))
    {l l' : List α} (h : l.Perm l') :
    ∀ a a', R a a' → PE.Rel R (l.foldlM step a) (l'.foldlM step a') := by
  induction h with
  | nil => intro a a' r; simpa [List.foldlM, pure, Except.pure, PE.Rel] using r
  | cons x _ ih =>
    intro a a' r
    simp only [List.foldlM_cons]
    exact PE.Rel.bind (hstep a a' x r) ih
  | swap x y l =>
    intro a a' r
    simp only [List.foldlM_cons]
    rw [← bind_assoc, ← bind_assoc]
    exact PE.Rel.bind (hswap a a' x y r) (foldlM_rel_same R step hstep l)
  | trans _ _ ih1 ih2 =>
    intro a a' r
    exact PE.Rel.trans htrans (ih1 a a' r) (ih2 a' a' (hrefl a'))

/-- Steps of the shape "classify the item (may fail, never panics), then update the accumulator". -/
theorem foldlM_perm_classify {α γ σ} (R : σ → σ → Prop) (step : σ → α → PE σ) (upd : σ → γ → σ)
    (hcls : ∀ x, ∃ cx : PE γ, ∀ a, step a x = cx >>= fun g => pure (upd a g))
    (hnp : ∀ a x, step a x ≠ .error .panic)
    (hrefl : ∀ a, R a a) (htrans : ∀ a b c, R a b → R b c → R a c)
    (hupd : ∀ a a' g, R a a' → R (upd a g) (upd a' g))
    (hcomm : ∀ a g g', R (upd (upd a g) g') (upd (upd a g') g))
    {l l' : List α} (h : l.Perm l') :
    ∀ a a', R a a' → PE.Rel R (l.foldlM step a) (l'.foldlM step a') := by
  have herr : ∀ (a : σ) x (cx : PE γ) e, (∀ a, step a x = cx >>= fun g => pure (upd a g)) →
      cx = .error e → e = .err := by
    intro a x cx e hc he
    have := hnp a x
    rw [hc a, he] at this
    cases e with
    | panic => exact absurd rfl this
    | err => rfl
  refine foldlM_perm_rel R step hrefl htrans ?_ ?_ h
  · intro a a' x r
    obtain ⟨cx, hc⟩ := hcls x
    rw [hc a, hc a']
    cases cx with
    | error e => exact rfl
    | ok g => exact hupd a a' g r
  · intro a a' x y r
    obtain ⟨cx, hcx⟩ := hcls x
    obtain ⟨cy, hcy⟩ := hcls y
    have ex := herr a x cx
    have ey := herr a y cy
    simp only [hcx, hcy]
    cases cx with
    | error e1 =>
      cases cy with
      | error e2 =>
        have := ex e1 hcx rfl
        have := ey e2 hcy rfl
        subst_vars
        exact rfl
      | ok g2 => exact rfl
    | ok g1 =>
      cases cy with
      | error e2 => exact rfl
      | ok g2 =>
        show R (upd (upd a g2) g1) (upd (upd a' g1) g2)
        exact htrans _ _ _ (hcomm a g2 g1) (hupd _ _ g2 (hupd _ _ g1 r))

/-! ### two accumulators: permitted / restricted -/

/-- append the classified value to the restricted (`true`) or to the permitted (`false`) list -/
def upd2 {β} (acc : List β × List β) (g : Bool × β) : List β × List β :=
  if g.1 then (acc.1, acc.2 ++ [g.2]) else (acc.1 ++ [g.2], acc.2)

theorem foldlM_perm_pair {α β} (step : List β × List β → α → PE (List β × List β))
    (hcls : ∀ x, ∃ cx : PE (Bool × β), ∀ a, step a x = cx >>= fun g => pure (upd2 a g))
    (hnp : ∀ a x, step a x ≠ .error .panic) {l l' : List α} (h : l.Perm l') :
    PE.Rel (fun a b => a.1.Perm b.1 ∧ a.2.Perm b.2) (l.foldlM step ([], [])) (l'.foldlM step ([], [])) := by
  refine foldlM_perm_classify (fun a b => a.1.Perm b.1 ∧ a.2.Perm b.2) step upd2 hcls hnp
    (fun a => ⟨List.Perm.refl _, List.Perm.refl _⟩)
    (fun a b c h1 h2 => ⟨h1.1.trans h2.1, h1.2.trans h2.2⟩) ?_ ?_ h _ _
    ⟨List.Perm.refl _, List.Perm.refl _⟩
  · intro a a' g r
    obtain ⟨b, v⟩ := g
    cases b
    · exact ⟨r.1.append_right _, r.2⟩
    · exact ⟨r.1, r.2.append_right _⟩
  · intro a g g'
    obtain ⟨b, v⟩ := g
    obtain ⟨b', v'⟩ := g'
    cases b <;> cases b' <;> simp only [upd2, Bool.false_eq_true, ↓reduceIte]
    · refine ⟨?_, List.Perm.refl _⟩
      rw [List.append_assoc, List.append_assoc]
      exact List.Perm.append_left _ (List.Perm.swap _ _ _)
    · exact ⟨List.Perm.refl _, List.Perm.refl _⟩
    · exact ⟨List.Perm.refl _, List.Perm.refl _⟩
    · refine ⟨List.Perm.refl _, ?_⟩
      rw [List.append_assoc, List.append_assoc]
      exact List.Perm.append_left _ (List.Perm.swap _ _ _)

/-! ### ctag -/

theorem loadCTagsStep_cls (x : Bytes) :
    ∃ cx : PE (Bool × Bytes), ∀ a, loadCTagsStep a x = cx >>= fun g => pure (upd2 a g) := by
  by_cases hp : hasPrefix x (lit "~") = true
  · cases hs : sliceC x 1 x.length with
    | error e =>
      exact ⟨.error e, fun a => by simp [loadCTagsStep, hp, hs, bind, Except.bind]⟩
    | ok d =>
      by_cases hv : isValidCTag d = true
      · exact ⟨.ok (true, d), fun a => by
          simp [loadCTagsStep, hp, hs, hv, bind, Except.bind, pure, Except.pure, upd2]⟩
      · exact ⟨.error .err, fun a => by
          simp [loadCTagsStep, hp, hs, hv, bind, Except.bind, pure, Except.pure, throw, throwThe, MonadExceptOf.throw]⟩
  · by_cases hv : isValidCTag x = true
    · exact ⟨.ok (false, x), fun a => by
        simp [loadCTagsStep, hp, hv, bind, Except.bind, pure, Except.pure, upd2]⟩
    · exact ⟨.error .err, fun a => by
        simp [loadCTagsStep, hp, hv, bind, Except.bind, pure, Except.pure, throw, throwThe, MonadExceptOf.throw]⟩

theorem loadCTags_items_perm {l l' : List Bytes} (h : l.Perm l') :
    PE.Rel (fun a b => a.1.Perm b.1 ∧ a.2.Perm b.2) (l.foldlM loadCTagsStep ([], [])) (l'.foldlM loadCTagsStep ([], [])) :=
  foldlM_perm_pair loadCTagsStep loadCTagsStep_cls loadCTagsStep_noPanic h

/-! ### text level -/

theorem sepFree_perm {sep : UInt8} {l l' : List Bytes} (h : l.Perm l') (hs : sepFree sep l) :
    sepFree sep l' := fun x hx => hs x (h.mem_iff.mpr hx)

theorem ne_nil_perm {α} {l l' : List α} (h : l.Perm l') (hne : l ≠ []) : l' ≠ [] := by
  intro e; subst e; exact hne h.eq_nil

theorem joinSep_nil_imp {sep : UInt8} {l l' : List Bytes} (h : l.Perm l') (hne : l ≠ [])
    (hs : sepFree sep l) (he : joinSep l [sep] = []) : joinSep l' [sep] = [] := by
  have h1 := splitByte_joinSep l sep hne hs
  rw [he] at h1
  have h2 : l = [[]] := h1.symm
  subst h2
  have h3 : l' = [[]] := List.perm_singleton.mp h.symm
  subst h3
  rfl

theorem joinSep_isEmpty_perm {sep : UInt8} {l l' : List Bytes} (h : l.Perm l') (hne : l ≠ [])
    (hs : sepFree sep l) : (joinSep l [sep]).isEmpty = (joinSep l' [sep]).isEmpty := by
  have a := joinSep_nil_imp (sep := sep) h hne hs
  have b := joinSep_nil_imp (sep := sep) h.symm (ne_nil_perm h hne) (sepFree_perm h hs)
  cases e1 : joinSep l [sep] with
  | nil => rw [a e1]
  | cons c t =>
    cases e2 : joinSep l' [sep] with
    | nil => rw [b e2] at e1; cases e1
    | cons c' t' => rfl

/-- for tags the parser sorts: the results are EQUAL -/
theorem loadCTags_perm {l l' : List Bytes} (h : l.Perm l') (hne : l ≠ []) (hs : sepFree (ch '|') l) :
    loadCTags (joinSep l [ch '|']) = loadCTags (joinSep l' [ch '|']) := by
  unfold loadCTags
  rw [joinSep_isEmpty_perm h hne hs]
  split
  · rfl
  · rw [splitByte_joinSep l _ hne hs, splitByte_joinSep l' _ (ne_nil_perm h hne) (sepFree_perm h hs)]
    have := loadCTags_items_perm h
    cases e1 : l.foldlM loadCTagsStep ([], []) with
    | error e =>
      cases e2 : l'.foldlM loadCTagsStep ([], []) with
      | error e' => rw [e1, e2] at this; simp only [PE.Rel] at this; rw [this]
      | ok b => rw [e1, e2] at this; exact this.elim
    | ok a =>
      cases e2 : l'.foldlM loadCTagsStep ([], []) with
      | error e' => rw [e1, e2] at this; exact this.elim
      | ok b =>
        rw [e1, e2] at this
        obtain ⟨a1, a2⟩ := a
        obtain ⟨b1, b2⟩ := b
        simp only [PE.Rel] at this
        simp only [bind, Except.bind, pure, Except.pure]
        rw [sortB_eq_of_perm this.1, sortB_eq_of_perm this.2]

/-! ### domain -/

theorem loadDomainsStep_cls (x : Bytes) :
    ∃ cx : PE (Bool × Bytes), ∀ a, loadDomainsStep a x = cx >>= fun g => pure (upd2 a g) := by
  have key : ∀ (b : Bool) (d : Bytes),
      ∃ cx : PE (Bool × Bytes), ∀ a : List Bytes × List Bytes,
        (do
          let isName ← isDomainNameC d
          if !isName && !hasSuffix d (lit ".*") then throw PErr.err
          else if b then pure (a.1, a.2 ++ [d])
          else pure (a.1 ++ [d], a.2)) = cx >>= fun g => pure (upd2 a g) := by
    intro b d
    cases hn : isDomainNameC d with
    | error e => exact ⟨.error e, fun a => by simp [bind, Except.bind]⟩
    | ok n =>
      by_cases hc : (!n && !hasSuffix d (lit ".*")) = true
      · exact ⟨.error .err, fun a => by
          simp only [bind, Except.bind, hc, ↓reduceIte]; rfl⟩
      · exact ⟨.ok (b, d), fun a => by
          simp only [bind, Except.bind, hc, upd2]
          cases b <;> rfl⟩
  by_cases hp : hasPrefix x (lit "~") = true
  · cases hs : sliceC x 1 x.length with
    | error e =>
      exact ⟨.error e, fun a => by simp [loadDomainsStep, hp, hs, bind, Except.bind]⟩
    | ok d =>
      obtain ⟨cx, hcx⟩ := key true d
      exact ⟨cx, fun a => by
        rw [← hcx a]
        simp [loadDomainsStep, hp, hs, bind, Except.bind, pure, Except.pure]⟩
  · obtain ⟨cx, hcx⟩ := key false x
    exact ⟨cx, fun a => by
      rw [← hcx a]
      simp [loadDomainsStep, hp, bind, Except.bind, pure, Except.pure]⟩

theorem loadDomains_items_perm {l l' : List Bytes} (h : l.Perm l') :
    PE.Rel (fun a b => a.1.Perm b.1 ∧ a.2.Perm b.2) (l.foldlM loadDomainsStep ([], [])) (l'.foldlM loadDomainsStep ([], [])) :=
  foldlM_perm_pair loadDomainsStep loadDomainsStep_cls loadDomainsStep_noPanic h

/-- text level: writing the `|`-separated values in another order -/
theorem loadDomains_perm {l l' : List Bytes} (h : l.Perm l') (hne : l ≠ []) (hs : sepFree (ch '|') l) :
    PE.Rel (fun a b => a.1.Perm b.1 ∧ a.2.Perm b.2) (loadDomains (joinSep l [ch '|']) (ch '|')) (loadDomains (joinSep l' [ch '|']) (ch '|')) := by
  unfold loadDomains
  rw [joinSep_isEmpty_perm h hne hs]
  split
  · exact rfl
  · rw [splitByte_joinSep l _ hne hs, splitByte_joinSep l' _ (ne_nil_perm h hne) (sepFree_perm h hs)]
    exact loadDomains_items_perm h

/-! ### dnstype -/

theorem loadDNSTypesStep_cls (x : Bytes) :
    ∃ cx : PE (Bool × Nat), ∀ a, loadDNSTypesStep a x = cx >>= fun g => pure (upd2 a g) := by
  by_cases h0 : (x.length == 0) = true
  · exact ⟨.error .err, fun a => by simp only [loadDNSTypesStep, h0, ↓reduceIte]; rfl⟩
  · cases hc : idxC x 0 with
    | error e =>
      exact ⟨.error e, fun a => by simp [loadDNSTypesStep, h0, hc, bind, Except.bind]⟩
    | ok c0 =>
      by_cases hr : (c0 == ch '~') = true
      · cases hs : sliceC x 1 x.length with
        | error e =>
          exact ⟨.error e, fun a => by simp [loadDNSTypesStep, h0, hc, hr, hs, bind, Except.bind]⟩
        | ok d =>
          cases ht : strToRRType d with
          | error e =>
            exact ⟨.error e, fun a => by simp [loadDNSTypesStep, h0, hc, hr, hs, ht, bind, Except.bind]⟩
          | ok rr =>
            exact ⟨.ok (true, rr), fun a => by
              simp [loadDNSTypesStep, h0, hc, hr, hs, ht, bind, Except.bind, pure, Except.pure, upd2]⟩
      · cases ht : strToRRType x with
        | error e =>
          exact ⟨.error e, fun a => by
            simp [loadDNSTypesStep, h0, hc, hr, ht, bind, Except.bind, pure, Except.pure]⟩
        | ok rr =>
          exact ⟨.ok (false, rr), fun a => by
            simp [loadDNSTypesStep, h0, hc, hr, ht, bind, Except.bind, pure, Except.pure, upd2]⟩

theorem loadDNSTypes_items_perm {l l' : List Bytes} (h : l.Perm l') :
    PE.Rel (fun a b => a.1.Perm b.1 ∧ a.2.Perm b.2) (l.foldlM loadDNSTypesStep ([], [])) (l'.foldlM loadDNSTypesStep ([], [])) :=
  foldlM_perm_pair loadDNSTypesStep loadDNSTypesStep_cls loadDNSTypesStep_noPanic h

theorem loadDNSTypes_perm {l l' : List Bytes} (h : l.Perm l') (hne : l ≠ []) (hs : sepFree (ch '|') l) :
    PE.Rel (fun a b => a.1.Perm b.1 ∧ a.2.Perm b.2) (loadDNSTypes (joinSep l [ch '|'])) (loadDNSTypes (joinSep l' [ch '|'])) := by
  unfold loadDNSTypes
  rw [joinSep_isEmpty_perm h hne hs]
  split
  · exact rfl
  · rw [splitByte_joinSep l _ hne hs, splitByte_joinSep l' _ (ne_nil_perm h hne) (sepFree_perm h hs)]
    exact loadDNSTypes_items_perm h

/-! ### client -/

/-- "classify, then update": the step reads the accumulator only in a final pure update -/
def Cls {γ σ} (upd : σ → γ → σ) (F : σ → PE σ) : Prop :=
  ∃ cx : PE γ, ∀ a, F a = cx >>= fun g => pure (upd a g)

theorem Cls.bind {β γ σ} {upd : σ → γ → σ} (m : PE β) (F : β → σ → PE σ)
    (h : ∀ v, Cls upd (F v)) : Cls upd (fun a => m >>= fun v => F v a) := by
  cases m with
  | error e => exact ⟨.error e, fun a => rfl⟩
  | ok v => obtain ⟨cx, hcx⟩ := h v; exact ⟨cx, fun a => hcx a⟩

theorem Cls.ite {γ σ} {upd : σ → γ → σ} (c : Prop) [Decidable c] {X Y : σ → PE σ}
    (hX : Cls upd X) (hY : Cls upd Y) : Cls upd (fun a => if c then X a else Y a) := by
  by_cases h : c
  · obtain ⟨cx, hcx⟩ := hX; exact ⟨cx, fun a => (if_pos h).trans (hcx a)⟩
  · obtain ⟨cx, hcx⟩ := hY; exact ⟨cx, fun a => (if_neg h).trans (hcx a)⟩

theorem Cls.throw {γ σ} {upd : σ → γ → σ} (e : PErr) : Cls upd (fun _ : σ => (throw e : PE σ)) :=
  ⟨.error e, fun _ => rfl⟩

def updC (ext : Ext) (acc : Option Clients × Option Clients) (g : Bool × Bytes) :
    Option Clients × Option Clients :=
  if g.1 then (acc.1, addClient ext acc.2 g.2) else (addClient ext acc.1 g.2, acc.2)

theorem Cls.leafC (ext : Ext) (b : Bool) (c : Bytes) :
    Cls (updC ext) (fun a => if b = true then (pure (a.1, addClient ext a.2 c) : PE _)
      else pure (addClient ext a.1 c, a.2)) :=
  ⟨.ok (b, c), fun a => by cases b <;> rfl⟩

theorem loadClientsStep_cls (ext : Ext) (x : Bytes) :
    Cls (updC ext) (fun a => loadClientsStep ext a x) := by
  unfold loadClientsStep
  dsimp only
  repeat' first
    | exact Cls.leafC ext _ _
    | exact Cls.throw _
    | apply Cls.ite
    | (apply Cls.bind; intro _)

/-- what `clients.add` appends: (host names, subnets); it depends on the item only -/
def clientDelta (ext : Ext) (client : Bytes) : List Bytes × List Prefix :=
  if isProbablyIP client then
    match ext.parseAddr client with
    | some ip => ([], [{ addr := ip, bits := ip.bitLen }])
    | none => ([client], [])
  else if hasSub client (lit "/") then
    match ext.parsePrefix client with
    | some p => ([], [p])
    | none => ([client], [])
  else ([client], [])

theorem Clients.add_eq (ext : Ext) (c : Clients) (x : Bytes) :
    Clients.add ext c x =
      { hosts := c.hosts ++ (clientDelta ext x).1, nets := c.nets ++ (clientDelta ext x).2 } := by
  unfold Clients.add clientDelta
  split
  · cases ext.parseAddr x <;> simp
  · split
    · cases ext.parsePrefix x <;> simp
    · simp

/-- the accumulators before `finalize`: same host names and subnets up to order -/
def ClientsPerm : Option Clients → Option Clients → Prop
  | none, none => True
  | some a, some b => a.hosts.Perm b.hosts ∧ a.nets.Perm b.nets
  | _, _ => False

theorem ClientsPerm.refl (a : Option Clients) : ClientsPerm a a := by
  cases a with
  | none => trivial
  | some a => exact ⟨List.Perm.refl _, List.Perm.refl _⟩

theorem ClientsPerm.trans {a b c : Option Clients} (h1 : ClientsPerm a b) (h2 : ClientsPerm b c) :
    ClientsPerm a c := by
  cases a <;> cases b <;> cases c <;> simp only [ClientsPerm] at h1 h2 ⊢
  exact ⟨h1.1.trans h2.1, h1.2.trans h2.2⟩

theorem addClient_perm (ext : Ext) {c c' : Option Clients} (h : ClientsPerm c c') (x : Bytes) :
    ClientsPerm (addClient ext c x) (addClient ext c' x) := by
  cases c <;> cases c' <;> simp only [ClientsPerm] at h
  · exact ClientsPerm.refl _
  · simp only [addClient, Option.getD_some, Clients.add_eq, ClientsPerm]
    exact ⟨h.1.append_right _, h.2.append_right _⟩

theorem addClient_comm (ext : Ext) (c : Option Clients) (x y : Bytes) :
    ClientsPerm (addClient ext (addClient ext c x) y) (addClient ext (addClient ext c y) x) := by
  simp only [addClient, Option.getD_some, Clients.add_eq, ClientsPerm, List.append_assoc]
  exact ⟨List.Perm.append_left _ List.perm_append_comm, List.Perm.append_left _ List.perm_append_comm⟩

theorem ClientsPerm.finalize {a b : Option Clients} (h : ClientsPerm a b) :
    Clients.PermEquiv (Clients.finalize a) (Clients.finalize b) := by
  cases a <;> cases b <;> simp only [ClientsPerm] at h
  · simp [Clients.finalize, Clients.PermEquiv]
  · rename_i a b
    cases a; cases b
    exact finalize_permEquiv _ _ _ _ h.1 h.2

theorem loadClients_items_perm (ext : Ext) {l l' : List Bytes} (h : l.Perm l') :
    PE.Rel (fun a b => Clients.PermEquiv (Clients.finalize a.1) (Clients.finalize b.1) ∧
                       Clients.PermEquiv (Clients.finalize a.2) (Clients.finalize b.2))
      (l.foldlM (loadClientsStep ext) (none, none)) (l'.foldlM (loadClientsStep ext) (none, none)) := by
  refine PE.Rel.mono (R := fun a b => ClientsPerm a.1 b.1 ∧ ClientsPerm a.2 b.2)
    (fun a b r => ⟨r.1.finalize, r.2.finalize⟩) ?_
  refine foldlM_perm_classify _ (loadClientsStep ext) (updC ext) (loadClientsStep_cls ext)
    (loadClientsStep_noPanic ext)
    (fun a => ⟨ClientsPerm.refl _, ClientsPerm.refl _⟩)
    (fun a b c h1 h2 => ⟨h1.1.trans h2.1, h1.2.trans h2.2⟩) ?_ ?_ h _ _
    ⟨ClientsPerm.refl _, ClientsPerm.refl _⟩
  · intro a a' g r
    obtain ⟨b, v⟩ := g
    cases b
    · exact ⟨addClient_perm ext r.1 v, r.2⟩
    · exact ⟨r.1, addClient_perm ext r.2 v⟩
  · intro a g g'
    obtain ⟨b, v⟩ := g
    obtain ⟨b', v'⟩ := g'
    cases b <;> cases b' <;> simp only [updC, Bool.false_eq_true, ↓reduceIte]
    · exact ⟨addClient_comm ext _ _ _, ClientsPerm.refl _⟩
    · exact ⟨ClientsPerm.refl _, ClientsPerm.refl _⟩
    · exact ⟨ClientsPerm.refl _, ClientsPerm.refl _⟩
    · exact ⟨ClientsPerm.refl _, addClient_comm ext _ _ _⟩

end UF.E

import UF.Proofs.Html
/-
  The search: `findBodyInjectionIndex` on the transcoded text (rune counting, byte index into the
  UTF-8 text) against the reference on the bytes of the body; then the splice and the encoding.
-/
namespace UF.Html

/-- `for i := range body` steps over both bytes of a transcoded high byte. -/
theorem runeWidth_hi : ∀ c : UInt8, ¬ c < 0x80 → ∀ rest : Bytes,
    runeWidth (((0xC0 : UInt8) ||| (c >>> 6)) :: ((0x80 : UInt8) ||| (c &&& 0x3F)) :: rest) = 2 := by
  intro c hc rest
  have key : ∀ c : UInt8, ¬ c < 0x80 →
      (¬ ((0xC0 : UInt8) ||| (c >>> 6)) < 0x80) ∧
      (((0xC2 : UInt8) ≤ ((0xC0 : UInt8) ||| (c >>> 6)) && ((0xC0 : UInt8) ||| (c >>> 6)) ≤ 0xDF) = true) ∧
      isCont ((0x80 : UInt8) ||| (c &&& 0x3F)) = true := by
    apply forall_uint8
    set_option maxRecDepth 100000 in decide
  obtain ⟨h1, h2, h3⟩ := key c hc
  unfold runeWidth
  simp only [h1, if_false]
  rw [if_pos (by simpa using h2)]
  simp [h3]

theorem encByte_length_pos (c : UInt8) : 0 < (encByte c).length := by
  unfold encByte; split <;> simp

/-- Length of the transcoded text of the first `k` bytes = the byte index into the UTF-8 text. -/
def u8len (b : Bytes) (k : Nat) : Nat := (latin1Decode (b.take k)).length

theorem findGo_decode (w : Nat) (body : Bytes) (i cnt : Nat) (hc : cnt ≤ w) :
    findGo w (latin1Decode body) i cnt 0 = (specFind (w - cnt) body).map (fun k => i + u8len body k) := by
  induction body generalizing i cnt with
  | nil => simp [latin1Decode, findGo]; cases (w - cnt) <;> simp [specFind]
  | cons c r ih =>
    by_cases hw : cnt = w
    · subst hw
      have : latin1Decode (c :: r) ≠ [] := by
        intro e
        have hl := congrArg List.length e
        rw [latin1Decode_cons, List.length_append] at hl
        have := encByte_length_pos c
        simp only [List.length_nil] at hl
        omega
      cases hd : latin1Decode (c :: r) with
      | nil => exact absurd hd this
      | cons a t => simp [findGo, specFind]
    · have hlt : cnt < w := by omega
      obtain ⟨n, hn⟩ : ∃ n, w - cnt = n + 1 := ⟨w - cnt - 1, by omega⟩
      have hn' : w - (cnt + 1) = n := by omega
      rw [hn]
      simp only [specFind]
      have hm := anyMarker_decode (c :: r)
      by_cases ha : c < 0x80
      · have he' : ∀ x, latin1Decode (c :: x) = c :: latin1Decode x := by
          intro x; rw [latin1Decode_cons]; simp [encByte, ha]
        have he := he' r
        rw [he] at hm ⊢
        rw [findGo]
        have hne : (cnt == w) = false := by simpa using hw
        simp only [hne, Bool.false_eq_true, if_false, hm]
        by_cases hmk : markerAt (c :: r) = true
        · simp [hmk, u8len, latin1Decode]
        · have hw1 : runeWidth (c :: latin1Decode r) = 1 := by simp [runeWidth, ha]
          simp only [hmk, Bool.false_eq_true, if_false, hw1, Nat.sub_self]
          rw [ih (i + 1) (cnt + 1) (by omega), hn']
          cases specFind n r with
          | none => rfl
          | some k =>
            simp only [Option.map_some, Option.some.injEq, u8len, List.take_succ_cons]
            rw [he']
            simp only [List.length_cons]
            omega
      · have he' : ∀ x, latin1Decode (c :: x) =
            ((0xC0 : UInt8) ||| (c >>> 6)) :: ((0x80 : UInt8) ||| (c &&& 0x3F)) :: latin1Decode x := by
          intro x; rw [latin1Decode_cons]; simp [encByte, ha]
        have he := he' r
        rw [he] at hm ⊢
        rw [findGo]
        have hne : (cnt == w) = false := by simpa using hw
        simp only [hne, Bool.false_eq_true, if_false, hm]
        by_cases hmk : markerAt (c :: r) = true
        · simp [hmk, u8len, latin1Decode]
        · simp only [hmk, Bool.false_eq_true, if_false, runeWidth_hi c ha]
          rw [findGo, ih (i + 1 + 1) (cnt + 1) (by omega), hn']
          cases specFind n r with
          | none => rfl
          | some k =>
            simp only [Option.map_some, Option.some.injEq, u8len, List.take_succ_cons]
            rw [he']
            simp only [List.length_cons]
            omega

theorem findBodyInjectionIndex_decode (w : Nat) (body : Bytes) :
    findBodyInjectionIndex w (latin1Decode body) = (specFind w body).map (u8len body) := by
  unfold findBodyInjectionIndex
  rw [findGo_decode w body 0 0 (by omega)]
  simp

theorem specFind_le {w : Nat} {body : Bytes} {k : Nat} (h : specFind w body = some k) : k < body.length ∧ k < w := by
  induction body generalizing w k with
  | nil => cases w <;> simp [specFind] at h
  | cons c r ih =>
    cases w with
    | zero => simp [specFind] at h
    | succ n =>
      simp only [specFind] at h
      by_cases hm : markerAt (c :: r) = true
      · simp [hm] at h; subst h; simp
      · simp only [hm, Bool.false_eq_true, if_false] at h
        cases hs : specFind n r with
        | none => rw [hs] at h; simp at h
        | some j =>
          rw [hs] at h
          simp at h
          subst h
          have := ih hs
          simp; omega

/-- The text splits at the injection index exactly between the transcoded halves. -/
theorem decode_split (body : Bytes) (k : Nat) :
    (latin1Decode body).take (u8len body k) = latin1Decode (body.take k) ∧
    (latin1Decode body).drop (u8len body k) = latin1Decode (body.drop k) := by
  have h : latin1Decode body = latin1Decode (body.take k) ++ latin1Decode (body.drop k) := by
    rw [← latin1Decode_append, List.take_append_drop]
  unfold u8len
  constructor
  · conv => lhs; rw [h]
    simp
  · conv => lhs; rw [h]
    simp

/-- `filterHTML` = the reference, for every window, body and ASCII tag. -/
theorem filterHTML_eq (w : Nat) (b tag : Bytes) (ht : Bytes.isAscii tag = true) :
    filterHTML w b tag =
      some ⟨specFilter w b tag, (specFilter w b tag).length, false, !(specFind w b).isSome⟩ := by
  unfold filterHTML specFilter
  simp only [findBodyInjectionIndex_decode]
  cases hs : specFind w b with
  | none =>
    simp only [Option.map_none]
    have := latin1Encode_decode_append b []
    simp only [List.append_nil, latin1Encode] at this
    simp [this]
  | some k =>
    simp only [Option.map_some]
    obtain ⟨h1, h2⟩ := decode_split b k
    have hk : u8len b k ≤ (latin1Decode b).length := by
      have h : latin1Decode b = latin1Decode (b.take k) ++ latin1Decode (b.drop k) := by
        rw [← latin1Decode_append, List.take_append_drop]
      have := congrArg List.length h
      rw [List.length_append] at this
      unfold u8len
      omega
    have s1 : Bytes.slice? (latin1Decode b) 0 (u8len b k) = some (latin1Decode (b.take k)) := by
      unfold Bytes.slice?
      simp [hk, h1]
    have s2 : Bytes.slice? (latin1Decode b) (u8len b k) (latin1Decode b).length = some (latin1Decode (b.drop k)) := by
      unfold Bytes.slice?
      simp [hk, h2]
    have e : latin1Encode (latin1Decode (b.take k) ++ tag ++ latin1Decode (b.drop k)) =
        some (b.take k ++ tag ++ b.drop k) := by
      rw [List.append_assoc, latin1Encode_decode_append, latin1Encode_ascii_append _ _ ht]
      have := latin1Encode_decode_append (b.drop k) []
      simp only [List.append_nil, latin1Encode] at this
      simp [this]
    simp only [s1, s2, e]
    simp

/-! ### The reference really is "the first marker start inside the window" -/

theorem specFind_some_iff (w : Nat) (body : Bytes) (i : Nat) :
    specFind w body = some i ↔
      (i < w ∧ i < body.length ∧ markerAt (body.drop i) = true ∧ ∀ j, j < i → markerAt (body.drop j) = false) := by
  induction body generalizing w i with
  | nil => cases w <;> simp [specFind]
  | cons c r ih =>
    cases w with
    | zero => simp [specFind]
    | succ n =>
      simp only [specFind]
      by_cases hm : markerAt (c :: r) = true
      · simp only [hm, if_true, Option.some.injEq]
        constructor
        · intro h; subst h; simp [hm]
        · intro ⟨_, _, _, h4⟩
          cases i with
          | zero => rfl
          | succ k => have := h4 0 (by omega); simp [hm] at this
      · simp only [hm, Bool.false_eq_true, if_false]
        cases i with
        | zero =>
          simp only [List.drop_zero]
          constructor
          · intro h; cases hs : specFind n r <;> rw [hs] at h <;> simp at h
          · intro ⟨_, _, h3, _⟩; exact absurd h3 hm
        | succ k =>
          have := ih n k
          constructor
          · intro h
            cases hs : specFind n r with
            | none => rw [hs] at h; simp at h
            | some j =>
              rw [hs] at h
              simp at h
              subst h
              obtain ⟨a1, a2, a3, a4⟩ := this.mp hs
              refine ⟨by omega, by simp; omega, by simpa using a3, ?_⟩
              intro j' hj'
              cases j' with
              | zero => simpa using hm
              | succ q => simpa using a4 q (by omega)
          · intro ⟨b1, b2, b3, b4⟩
            have hk : specFind n r = some k := by
              apply this.mpr
              refine ⟨by omega, by simp at b2; omega, by simpa using b3, ?_⟩
              intro q hq
              have := b4 (q + 1) (by omega)
              simpa using this
            simp [hk]

theorem specFind_none_iff (w : Nat) (body : Bytes) :
    specFind w body = none ↔ ∀ j, j < w → j < body.length → markerAt (body.drop j) = false := by
  constructor
  · intro h j h1 h2
    -- otherwise there is a first marker position below j+1
    induction body generalizing w j with
    | nil => simp at h2
    | cons c r ih =>
      cases w with
      | zero => omega
      | succ n =>
        simp only [specFind] at h
        by_cases hm : markerAt (c :: r) = true
        · simp [hm] at h
        · simp only [hm, Bool.false_eq_true, if_false] at h
          have hn : specFind n r = none := by
            cases hs : specFind n r with
            | none => rfl
            | some k => rw [hs] at h; simp at h
          cases j with
          | zero => simpa using hm
          | succ q =>
            have := ih n hn q (by omega) (by simp at h2; omega)
            simpa using this
  · intro h
    cases hs : specFind w body with
    | none => rfl
    | some i =>
      obtain ⟨a1, a2, a3, _⟩ := (specFind_some_iff w body i).mp hs
      have := h i a1 a2
      rw [this] at a3
      cases a3

/-- The search of the tree before commit 9cb6043 (D12):
    `for i := 0; i < min(headBufferSize, len(body)); i++` over the BYTES OF THE TRANSCODED TEXT.
    Kept only as a witness that the model tells the two apart (see the `example` in Props/C20). -/
def findOld (window : Nat) : (body : Bytes) → (i : Nat) → Option Nat
  | [], _ => none
  | c :: r, i =>
    if i ≥ window then none else
    if anyMarker (c :: r) then some i else findOld window r (i + 1)

end UF.Html

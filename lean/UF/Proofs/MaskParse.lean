import UF.Proofs.MaskText
/-
  C03, parser level: the text `maskText p` of a mask pattern parses -- with the fold-based model of
  `regexp/syntax.Parse` -- to exactly the expression `maskAst (tokenize p)`: every body byte's piece of
  text moves the parser from a between-atoms state to the same state with exactly its atom pushed.
  This is the formal content of "no character of a pattern is ever read as a regex operator".
-/
namespace UF.Mask
open UF UF.MaskSpec UF.Re

/-- State `s` with the atoms `as` (newest first) pushed on the current branch. -/
def pushed (s : PState) (as : List Re) (r : Nat) : PState :=
  { stack := s.stack, top := ⟨s.top.cap, s.top.alts, as ++ s.top.cur⟩, mode := .norm, rep := r }

/-- Bytes that `stepNorm` reads as a one-character literal. -/
def litOK (b : UInt8) : Bool :=
  b < 128 && !(b == 92 || b == 40 || b == 41 || b == 124 || b == 91 || b == 42 || b == 43 || b == 63 ||
    b == 123 || b == 94 || b == 36 || b == 46)

/-- Bytes `b` for which `\b` is the literal `b`. -/
def escOK (b : UInt8) : Bool :=
  (perlClass b).isNone && !(b == 98 || b == 66 || b == 65 || b == 122 || b == 120) && charEscape b == some b

theorem run_lit (s : PState) (hs : s.mode = .norm) (b : UInt8) (hb : litOK b = true) :
    run s [b] = some (pushed s [litAtom b] 0) := by
  simp only [litOK, Bool.and_eq_true, Bool.not_eq_true', Bool.or_eq_false_iff, decide_eq_true_eq,
    beq_eq_false_iff_ne] at hb
  obtain ⟨h128, ⟨⟨⟨⟨⟨⟨⟨⟨⟨⟨⟨h1, h2⟩, h3⟩, h4⟩, h5⟩, h6⟩, h7⟩, h8⟩, h9⟩, h10⟩, h11⟩, h12⟩⟩ := hb
  have hge : ¬ (b ≥ 128) := by
    intro h; exact absurd h128 (UInt8.not_lt.mpr h)
  simp [run, step, hs, stepNorm, h1, h2, h3, h4, h5, h6, h7, h8, h9, h10, h11, h12, hge, pushAtom, pushed, litAtom]

theorem run_esc (s : PState) (hs : s.mode = .norm) (b : UInt8) (hb : escOK b = true) :
    run s [92, b] = some (pushed s [litAtom b] 0) := by
  simp only [escOK, Bool.and_eq_true, Bool.not_eq_true', Bool.or_eq_false_iff,
    beq_eq_false_iff_ne, Option.isNone_iff_eq_none, beq_iff_eq] at hb
  obtain ⟨⟨hp, ⟨⟨⟨⟨h1, h2⟩, h3⟩, h4⟩, h5⟩⟩, hc⟩ := hb
  simp [run, step, hs, stepNorm, stepEsc, hp, h1, h2, h3, h4, h5, hc, pushAtom, pushed, litAtom]

theorem run_star (s : PState) (hs : s.mode = .norm) :
    run s [46, 42] = some (pushed s [.star .any] 1) := by
  simp [run, step, hs, stepNorm, pushAtom, applyRep, pushed]

theorem run_eol (s : PState) (hs : s.mode = .norm) :
    run s [36] = some (pushed s [.eol] 0) := by
  simp [run, step, hs, stepNorm, pushAtom, pushed]

theorem run_sep (s : PState) (hs : s.mode = .norm) :
    run s Facts.RegexSeparator = some (pushed s [sepAst] 0) := by
  obtain ⟨stack, ⟨cap, alts, cur⟩, mode, rep⟩ := s
  simp only at hs
  subst hs
  rfl

/-- The atom of one body byte. -/
def atomOfByte (b : UInt8) : Re := tokAtom (tokOfByte b)

def classOK (b : UInt8) : Bool :=
  !(b < 128) || b == 42 || b == 94 || (emitByte b == [b] && litOK b) || (emitByte b == [92, b] && escOK b)

set_option maxRecDepth 100000 in
theorem classOK_all : ∀ b : UInt8, classOK b = true := by
  apply forall_u8; decide

/-- Classification of the text of every ASCII body byte other than `*` and `^`. -/
theorem emitByte_class (b : UInt8) (h : b < 128) (h1 : b ≠ 42) (h2 : b ≠ 94) :
    (emitByte b = [b] ∧ litOK b = true) ∨ (emitByte b = [92, b] ∧ escOK b = true) := by
  have := classOK_all b
  simp only [classOK, Bool.or_eq_true, Bool.not_eq_true', decide_eq_false_iff_not, beq_iff_eq,
    Bool.and_eq_true] at this
  rcases this with (((h' | h') | h') | h') | h'
  · exact absurd h h'
  · exact absurd h' h1
  · exact absurd h' h2
  · exact Or.inl h'
  · exact Or.inr h'

theorem atomOfByte_lit {b : UInt8} (h1 : b ≠ 42) (h2 : b ≠ 94) : atomOfByte b = litAtom b := by
  simp [atomOfByte, tokOfByte, h1, h2, tokAtom]

/-- From any between-atoms state, the text of one body byte pushes exactly its atom. -/
theorem run_emitByte (s : PState) (hs : s.mode = .norm) (b : UInt8) (hb : b < 128) :
    ∃ r, run s (emitByte b) = some (pushed s [atomOfByte b] r) := by
  by_cases h1 : b = 42
  · subst h1; exact ⟨1, run_star s hs⟩
  · by_cases h2 : b = 94
    · subst h2; exact ⟨0, run_sep s hs⟩
    · rcases emitByte_class b hb h1 h2 with ⟨he, hok⟩ | ⟨he, hok⟩
      · exact ⟨0, by rw [he, atomOfByte_lit h1 h2]; exact run_lit s hs b hok⟩
      · exact ⟨0, by rw [he, atomOfByte_lit h1 h2]; exact run_esc s hs b hok⟩

theorem pushed_mode (s : PState) (as : List Re) (r : Nat) : (pushed s as r).mode = .norm := rfl

theorem pushed_pushed (s : PState) (as bs : List Re) (r r' : Nat) :
    pushed (pushed s as r) bs r' = pushed s (bs ++ as) r' := by
  simp [pushed]

theorem pushed_nil (s : PState) (hs : s.mode = .norm) : pushed s [] s.rep = s := by
  obtain ⟨stack, ⟨cap, alts, cur⟩, mode, rep⟩ := s
  simp only at hs; subst hs; rfl

/-- Induction over the body: the texts of the body bytes push exactly their atoms, in order. -/
theorem run_body (body : Bytes) (hb : ∀ b ∈ body, b < 128) (s : PState) (hs : s.mode = .norm) :
    ∃ r, run s (body.flatMap emitByte) = some (pushed s (body.map atomOfByte).reverse r) := by
  induction body generalizing s with
  | nil => exact ⟨s.rep, by simp [run_nil, pushed_nil s hs]⟩
  | cons b t ih =>
    obtain ⟨r1, h1⟩ := run_emitByte s hs b (hb b (by simp))
    obtain ⟨r2, h2⟩ := ih (fun x hx => hb x (by simp [hx])) (pushed s [atomOfByte b] r1) (pushed_mode _ _ _)
    refine ⟨r2, ?_⟩
    rw [List.flatMap_cons, run_append, h1, Option.bind_some, h2, pushed_pushed]
    simp

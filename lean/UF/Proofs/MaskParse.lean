import UF.Proofs.MaskText
import UF.Proofs.RegexQuirk
/-
  C03, parser level: the text `maskText p` of a mask pattern parses -- with the fold-based model of
  `regexp/syntax.Parse` -- to exactly the expression `maskAst (tokenize p)`: every body byte's piece of
  text moves the parser from a between-atoms state to the same state with exactly its atom pushed.
  This is the formal content of "no character of a pattern is ever read as a regex operator".
-/
namespace UF.Mask
open UF UF.MaskSpec UF.Re

/-- State `s` with the atoms `as` (newest first) pushed on the current branch. -/
def pushed (s : PState) (as : List Re) (r : Nat) : PState :=
  { stack := s.stack, top := ⟨s.top.cap, s.top.alts, as ++ s.top.cur⟩, mode := .norm, rep := r }

/-- Bytes that `stepNorm` reads as a one-character literal. -/
def litOK (b : UInt8) : Bool :=
  b < 128 && !(b == 92 || b == 40 || b == 41 || b == 124 || b == 91 || b == 42 || b == 43 || b == 63 ||
    b == 123 || b == 94 || b == 36 || b == 46)

/-- Bytes `b` for which `\b` is the literal `b`. -/
def escOK (b : UInt8) : Bool :=
  (perlClass b).isNone && !(b == 98 || b == 66 || b == 65 || b == 122 || b == 120) && charEscape b == some b

theorem run_lit (s : PState) (hs : s.mode = .norm) (b : UInt8) (hb : litOK b = true) :
    run s [b] = some (pushed s [litAtom b] 0) := by
  simp only [litOK, Bool.and_eq_true, Bool.not_eq_true', Bool.or_eq_false_iff, decide_eq_true_eq,
    beq_eq_false_iff_ne] at hb
  obtain ⟨h128, ⟨⟨⟨⟨⟨⟨⟨⟨⟨⟨⟨h1, h2⟩, h3⟩, h4⟩, h5⟩, h6⟩, h7⟩, h8⟩, h9⟩, h10⟩, h11⟩, h12⟩⟩ := hb
  have hge : ¬ (b ≥ 128) := by
    intro h; exact absurd h128 (UInt8.not_lt.mpr h)
  simp [run, step, hs, stepNorm, h1, h2, h3, h4, h5, h6, h7, h8, h9, h10, h11, h12, hge, pushAtom, pushed, litAtom]

theorem run_esc (s : PState) (hs : s.mode = .norm) (b : UInt8) (hb : escOK b = true) :
    run s [92, b] = some (pushed s [litAtom b] 0) := by
  simp only [escOK, Bool.and_eq_true, Bool.not_eq_true', Bool.or_eq_false_iff,
    beq_eq_false_iff_ne, Option.isNone_iff_eq_none, beq_iff_eq] at hb
  obtain ⟨⟨hp, ⟨⟨⟨⟨h1, h2⟩, h3⟩, h4⟩, h5⟩⟩, hc⟩ := hb
  simp [run, step, hs, stepNorm, stepEsc, hp, h1, h2, h3, h4, h5, hc, pushAtom, pushed, litAtom]

theorem run_star (s : PState) (hs : s.mode = .norm) :
    run s [46, 42] = some (pushed s [.star .any] 1) := by
  simp [run, step, hs, stepNorm, pushAtom, applyRep, pushed]

theorem run_eol (s : PState) (hs : s.mode = .norm) :
    run s [36] = some (pushed s [.eol] 0) := by
  simp [run, step, hs, stepNorm, pushAtom, pushed]

theorem run_sep (s : PState) (hs : s.mode = .norm) :
    run s Facts.RegexSeparator = some (pushed s [sepAst] 0) := by
  obtain ⟨stack, ⟨cap, alts, cur⟩, mode, rep⟩ := s
  simp only at hs
  subst hs
  rfl

/-- The atom of one body byte. -/
def atomOfByte (b : UInt8) : Re := tokAtom (tokOfByte b)

def classOK (b : UInt8) : Bool :=
  !(b < 128) || b == 42 || b == 94 || (emitByte b == [b] && litOK b) || (emitByte b == [92, b] && escOK b)

set_option maxRecDepth 100000 in
theorem classOK_all : ∀ b : UInt8, classOK b = true := by
  apply forall_u8; decide

/-- Classification of the text of every ASCII body byte other than `*` and `^`. -/
theorem emitByte_class (b : UInt8) (h : b < 128) (h1 : b ≠ 42) (h2 : b ≠ 94) :
    (emitByte b = [b] ∧ litOK b = true) ∨ (emitByte b = [92, b] ∧ escOK b = true) := by
  have := classOK_all b
  simp only [classOK, Bool.or_eq_true, Bool.not_eq_true', decide_eq_false_iff_not, beq_iff_eq,
    Bool.and_eq_true] at this
  rcases this with (((h' | h') | h') | h') | h'
  · exact absurd h h'
  · exact absurd h' h1
  · exact absurd h' h2
  · exact Or.inl h'
  · exact Or.inr h'

theorem atomOfByte_lit {b : UInt8} (h1 : b ≠ 42) (h2 : b ≠ 94) : atomOfByte b = litAtom b := by
  simp [atomOfByte, tokOfByte, h1, h2, tokAtom]

/-- From any between-atoms state, the text of one body byte pushes exactly its atom. -/
theorem run_emitByte (s : PState) (hs : s.mode = .norm) (b : UInt8) (hb : b < 128) :
    ∃ r, run s (emitByte b) = some (pushed s [atomOfByte b] r) := by
  by_cases h1 : b = 42
  · subst h1; exact ⟨1, run_star s hs⟩
  · by_cases h2 : b = 94
    · subst h2; exact ⟨0, run_sep s hs⟩
    · rcases emitByte_class b hb h1 h2 with ⟨he, hok⟩ | ⟨he, hok⟩
      · exact ⟨0, by rw [he, atomOfByte_lit h1 h2]; exact run_lit s hs b hok⟩
      · exact ⟨0, by rw [he, atomOfByte_lit h1 h2]; exact run_esc s hs b hok⟩

theorem pushed_mode (s : PState) (as : List Re) (r : Nat) : (pushed s as r).mode = .norm := rfl

theorem pushed_pushed (s : PState) (as bs : List Re) (r r' : Nat) :
    pushed (pushed s as r) bs r' = pushed s (bs ++ as) r' := by
  simp [pushed]

theorem pushed_nil (s : PState) (hs : s.mode = .norm) : pushed s [] s.rep = s := by
  obtain ⟨stack, ⟨cap, alts, cur⟩, mode, rep⟩ := s
  simp only at hs; subst hs; rfl

/-- Induction over the body: the texts of the body bytes push exactly their atoms, in order. -/
theorem run_body (body : Bytes) (hb : ∀ b ∈ body, b < 128) (s : PState) (hs : s.mode = .norm) :
    ∃ r, run s (body.flatMap emitByte) = some (pushed s (body.map atomOfByte).reverse r) := by
  induction body generalizing s with
  | nil => exact ⟨s.rep, by simp [run_nil, pushed_nil s hs]⟩
  | cons b t ih =>
    obtain ⟨r1, h1⟩ := run_emitByte s hs b (hb b (by simp))
    obtain ⟨r2, h2⟩ := ih (fun x hx => hb x (by simp [hx])) (pushed s [atomOfByte b] r1) (pushed_mode _ _ _)
    refine ⟨r2, ?_⟩
    rw [List.flatMap_cons, run_append, h1, Option.bind_some, h2, pushed_pushed]
    simp

/-! ### Start and end markers, the whole pattern -/

/-- The start text is only ever parsed from the initial state (value-dependent fact obligations:
    they break if `RegexStartString` / `RegexStartURL` are mutated). -/
theorem run_startText (st : Start) :
    ∃ r, run initState (startText st) = some (pushed initState (startAtoms st).reverse r) := by
  cases st with
  | none => exact ⟨0, rfl⟩
  | pipe => exact ⟨0, rfl⟩
  | dbl => exact ⟨1, rfl⟩

theorem run_endText (s : PState) (hs : s.mode = .norm) (e : Bool) :
    ∃ r, run s (endText e) = some (pushed s (endAtoms e).reverse r) := by
  cases e with
  | true => exact ⟨0, run_eol s hs⟩
  | false => exact ⟨s.rep, by simp [endText, endAtoms, run_nil, pushed_nil s hs]⟩

theorem repOK_mkCat (l : List Re) (h : ∀ a ∈ l, a.repOK = true) : (mkCat l).repOK = true := by
  induction l with
  | nil => rfl
  | cons a t ih =>
    cases t with
    | nil => simpa [mkCat] using h
    | cons b t' =>
      simp only [mkCat, repOK, Bool.and_eq_true]
      exact ⟨h a (by simp), ih (fun x hx => h x (by simp [hx]))⟩

theorem repOK_maskAtoms (p : MaskPat) : ∀ a ∈ maskAtoms p, a.repOK = true := by
  intro a ha
  simp only [maskAtoms, List.mem_append, List.mem_map] at ha
  rcases ha with (ha | ⟨t, _, rfl⟩) | ha
  · cases hst : p.start <;> rw [hst] at ha
    · simp [startAtoms] at ha
    · simp [startAtoms] at ha; subst ha; rfl
    · revert a; decide
  · cases t <;> first | rfl | (simp [tokAtom, litAtom, repOK])
  · cases he : p.endPipe <;> rw [he] at ha
    · simp [endAtoms] at ha
    · simp [endAtoms] at ha; subst ha; rfl

theorem finish_pushed (as : List Re) (r : Nat) (h : (mkCat as.reverse).repOK = true) :
    finish (pushed initState as r) = some (mkCat as.reverse) := by
  simp [finish, pushed, initState, closeFrame, mkAlt, h]

/-- The text of a mask pattern parses to exactly the concatenation of its atoms. -/
theorem parseCore_maskText (p : Bytes) (hp : ∀ b ∈ p, b < 128) :
    parseCore (maskText p) = some (mkCat (maskAtoms (tokenize p))) := by
  unfold maskText tokenize maskAtoms
  obtain ⟨s, r, hpr, -, hsplit⟩ := splitMask_shape p
  rw [hsplit]
  have hbody : ∀ b ∈ (splitEnd r).1, b < 128 := by
    intro b hb
    apply hp b
    rw [hpr]
    apply List.mem_append_right
    unfold splitEnd at hb
    split at hb
    · exact (List.dropLast_sublist _).subset hb
    · exact hb
  rcases hse : splitEnd r with ⟨body, e⟩
  rw [hse] at hbody
  simp only at hbody ⊢
  obtain ⟨r1, h1⟩ := run_startText s
  obtain ⟨r2, h2⟩ := run_body body hbody _ (pushed_mode initState (startAtoms s).reverse r1)
  obtain ⟨r3, h3⟩ := run_endText _ (pushed_mode (pushed initState (startAtoms s).reverse r1) (body.map atomOfByte).reverse r2) e
  unfold parseCore
  rw [run_append, run_append, h1, Option.bind_some, h2, Option.bind_some, h3, Option.bind_some,
    pushed_pushed, pushed_pushed]
  have hrev : ((endAtoms e).reverse ++ (body.map atomOfByte).reverse ++ (startAtoms s).reverse).reverse
      = startAtoms s ++ (body.map tokOfByte).map tokAtom ++ endAtoms e := by
    simp [atomOfByte, List.map_map, Function.comp_def]
  rw [finish_pushed, hrev]
  rw [hrev]
  exact repOK_mkCat _ (repOK_maskAtoms ⟨s, body.map tokOfByte, e⟩)

/-! ### `preparePattern`: flags, the `.*` short-cut -/

def noCi (b : UInt8) : Bool :=
  match emitByte b with
  | x :: y :: _ => !(x == 40 && y == 63)
  | [x] => x != 40
  | [] => false

set_option maxRecDepth 100000 in
theorem noCi_all : ∀ b : UInt8, noCi b = true := by
  apply forall_u8; decide

def dotOnlyStar (b : UInt8) : Bool := (emitByte b).head? != some 46 || b == 42

set_option maxRecDepth 100000 in
theorem dotOnlyStar_all : ∀ b : UInt8, dotOnlyStar b = true := by
  apply forall_u8; decide

theorem splitEnd_snd_false {r : Bytes} (h : (splitEnd r).2 = false) : (splitEnd r).1 = r := by
  unfold splitEnd at h ⊢
  split <;> simp_all

/-- The text of a mask pattern never starts with the flag group `(?i)`. -/
theorem maskText_noCi (p : Bytes) : Bytes.hasPrefix (maskText p) ciPrefix = false := by
  unfold maskText
  obtain ⟨s, r, -, -, hsplit⟩ := splitMask_shape p
  rw [hsplit]
  rcases splitEnd r with ⟨body, e⟩
  simp only
  cases s with
  | pipe => simp [startText, Facts.RegexStartString, ciPrefix, Bytes.hasPrefix]
  | dbl => simp [startText, Facts.RegexStartURL, ciPrefix, Bytes.hasPrefix]
  | none =>
    simp only [startText, List.nil_append]
    cases body with
    | nil => cases e <;> simp [endText, Facts.RegexEndString, ciPrefix, Bytes.hasPrefix]
    | cons b t =>
      have hb := noCi_all b
      unfold noCi at hb
      rw [List.flatMap_cons]
      split at hb
      · next x y tl heq =>
        rw [heq]
        simp only [Bool.not_eq_true', Bool.and_eq_false_iff, beq_eq_false_iff_ne] at hb
        simp only [ciPrefix, List.cons_append, Bytes.hasPrefix, Bool.and_eq_false_iff, beq_eq_false_iff_ne]
        rcases hb with hb | hb
        · exact Or.inl hb
        · exact Or.inr (Or.inl hb)
      · next x heq =>
        rw [heq]
        have hx : x ≠ 40 := by simpa using hb
        simp [ciPrefix, Bytes.hasPrefix, hx]
      · simp at hb

theorem emitByte_ne_nil (b : UInt8) : emitByte b ≠ [] := (emitByte_head b).2

/-- Only the any-URL patterns produce the text `.*`. -/
theorem maskText_ne_any (p : Bytes) (h1 : isAnyPattern p = false) :
    (maskText p == Facts.RegexAnyCharacter) = false := by
  rw [beq_eq_false_iff_ne]
  intro heq
  unfold maskText at heq
  obtain ⟨s, r, hpr, -, hsplit⟩ := splitMask_shape p
  rw [hsplit] at heq
  rcases hse : splitEnd r with ⟨body, e⟩
  rw [hse] at heq
  simp only at heq
  cases s with
  | pipe => simp [startText, Facts.RegexStartString, Facts.RegexAnyCharacter] at heq
  | dbl => simp [startText, Facts.RegexStartURL, Facts.RegexAnyCharacter] at heq
  | none =>
    simp only [startText, List.nil_append, Facts.RegexAnyCharacter] at heq
    cases body with
    | nil => cases e <;> simp [endText, Facts.RegexEndString] at heq
    | cons b t =>
      have hb := dotOnlyStar_all b
      rw [List.flatMap_cons] at heq
      have hne := emitByte_ne_nil b
      cases hem : emitByte b with
      | nil => exact hne hem
      | cons x xs =>
        rw [hem] at heq
        simp only [List.cons_append, List.cons.injEq] at heq
        have hx : x = 46 := heq.1
        have hb42 : b = 42 := by
          simpa [dotOnlyStar, hem, hx] using hb
        subst hb42
        have hem' : emitByte 42 = [46, 42] := by decide
        rw [hem'] at hem
        have hxs : xs = [42] := by
          simp only [List.cons.injEq] at hem; exact hem.2.symm
        subst hxs
        have hrest : t.flatMap emitByte ++ endText e = [] := by simpa using heq.2
        have ht : t = [] := by
          cases t with
          | nil => rfl
          | cons c t' =>
            have := emitByte_ne_nil c
            simp [List.flatMap_cons] at hrest
            exact absurd hrest.1 this
        have he : e = false := by
          cases e with
          | false => rfl
          | true => simp [endText, Facts.RegexEndString] at hrest
        subst ht he
        have hr : r = [42] := by
          have := splitEnd_snd_false (r := r) (by rw [hse])
          rw [hse] at this; exact this.symm
        subst hr
        subst hpr
        simp [isAnyPattern, startBytes, Facts.MaskAnyCharacter] at h1

/-- (B) what `preparePattern` hands to `regexp.Compile` parses to exactly the mask's expression. -/
theorem prepare_parse (p : Bytes) (hp : ∀ b ∈ p, b < 128)
    (h1 : isAnyPattern p = false) (h2 : isRegexPattern p = false) (mc : Bool) :
    ∃ t, preparePatternText p mc = .text t ∧ parseRE t = some (maskAst (tokenize p) mc) := by
  unfold preparePatternText
  rw [patternToRegexpText_eq p h1 h2]
  simp only [maskText_ne_any p h1, Bool.false_eq_true, ↓reduceIte]
  cases mc with
  | true =>
    refine ⟨_, rfl, ?_⟩
    unfold parseRE
    rw [if_neg (by rw [maskText_noCi]; exact Bool.false_ne_true), parseCore_maskText p hp]
    -- a mask expression has no source of case-folded literals: Go's tree is the textbook tree
    simp [maskAst, goTree_of_not_hazard _ _ (hazard_maskAtoms (tokenize p))]
  | false =>
    refine ⟨_, rfl, ?_⟩
    have : lit "(?i)" = ciPrefix := by decide
    rw [this, parseRE_ci, parseCore_maskText p hp]
    simp [maskAst]

theorem tokOfByte_star {b : UInt8} (h : tokOfByte b = .star) : b = 42 := by
  unfold tokOfByte at h
  split at h
  · simpa using ‹(b == 42) = true›
  · split at h <;> simp at h

/-- The spec's any-URL test on tokens is `patternToRegexp`'s test on the text. -/
theorem tokenize_isAny (p : Bytes) : (tokenize p).isAny = isAnyPattern p := by
  cases h1 : isAnyPattern p with
  | true =>
    simp only [isAnyPattern, Facts.MaskStartURL, Facts.MaskPipe, Facts.MaskAnyCharacter, Bool.or_eq_true,
      beq_iff_eq] at h1
    rcases h1 with ((h | h) | h) | h <;> subst h <;> decide
  | false =>
    unfold tokenize
    obtain ⟨s, r, hpr, -, hsplit⟩ := splitMask_shape p
    rw [hsplit]
    rcases hse : splitEnd r with ⟨body, e⟩
    simp only [MaskPat.isAny]
    cases e with
    | true => simp
    | false =>
      have hr : body = r := by
        have := splitEnd_snd_false (r := r) (by rw [hse])
        rw [hse] at this; exact this
      subst hr hpr
      simp only [Bool.not_false, Bool.true_and, Bool.or_eq_false_iff, Bool.and_eq_false_iff]
      constructor
      · cases body with
        | nil => cases s <;> simp [isAnyPattern, startBytes, Facts.MaskStartURL, Facts.MaskPipe] at h1
        | cons b t => simp
      · cases s with
        | pipe => left; decide
        | dbl => left; decide
        | none =>
          right
          match body with
          | [] => simp
          | [b] =>
            simp only [List.map_cons, List.map_nil, beq_eq_false_iff_ne, ne_eq, List.cons.injEq, and_true]
            intro hb
            have := tokOfByte_star hb
            subst this
            simp [isAnyPattern, startBytes, Facts.MaskAnyCharacter] at h1
          | _ :: _ :: _ => simp

end UF.Mask

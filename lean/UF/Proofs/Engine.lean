import UF.Proofs.Lookup
import UF.Model.Engine
/-
  The build invariant of the network engine and the generic soundness / completeness of
  `Engine.matchAllG`, for an arbitrary pair of hash functions and window length.
-/
namespace UF.B
open UF UF.Bytes

/-- Where rule `r` with storage index `idx` can be found again in engine `e`. -/
def Placed (hf : HashFns) (k : Nat) (e : Engine) (r : NetRule) (idx : Idx) : Prop :=
  (∃ w ∈ windows k r.shortcut, idx ∈ hget [] e.sc.lookup (hf.h w)) ∨
  (r.permDomains ≠ [] ∧ (∀ d ∈ r.permDomains, Bytes.hasSuffix d (lit ".*") = false) ∧
    ∀ d ∈ r.permDomains, idx ∈ hget [] e.dom.lookup (hf.h d)) ∨
  (∃ r' ∈ e.seq, r'.text = r.text)

/-- Tables only grow. -/
structure Le (e e' : Engine) : Prop where
  sc : ∀ hs i, i ∈ hget [] e.sc.lookup hs → i ∈ hget [] e'.sc.lookup hs
  dom : ∀ hs i, i ∈ hget [] e.dom.lookup hs → i ∈ hget [] e'.dom.lookup hs
  seq : ∀ r, r ∈ e.seq → r ∈ e'.seq

theorem Placed.mono {hf : HashFns} {k : Nat} {e e' : Engine} {r : NetRule} {idx : Idx}
    (hle : Le e e') (h : Placed hf k e r idx) : Placed hf k e' r idx := by
  rcases h with ⟨w, hw, h⟩ | ⟨h1, h2, h3⟩ | ⟨r', hr', h⟩
  · exact Or.inl ⟨w, hw, hle.sc _ _ h⟩
  · exact Or.inr (Or.inl ⟨h1, h2, fun d hd => hle.dom _ _ (h3 d hd)⟩)
  · exact Or.inr (Or.inr ⟨r', hle.seq _ hr', h⟩)

/-- The invariant of `NewNetworkEngine` after the rules `P` have been offered. -/
structure Inv (hf : HashFns) (k : Nat) (e : Engine) (P : List (NetRule × Idx)) : Prop where
  scIdx : ∀ hs i, i ∈ hget [] e.sc.lookup hs → ∃ r, (r, i) ∈ P
  domIdx : ∀ hs i, i ∈ hget [] e.dom.lookup hs → ∃ r, (r, i) ∈ P
  seqMem : ∀ r, r ∈ e.seq → ∃ i, (r, i) ∈ P
  placed : ∀ p, p ∈ P → Placed hf k e p.1 p.2
  hist : ∀ hs, hget 0 e.sc.hist hs ≤ P.length

theorem Inv.empty (hf : HashFns) (k : Nat) : Inv hf k {} [] := by
  constructor <;> simp [hget]

theorem containsRule_iff (rs : List NetRule) (r : NetRule) :
    containsRule rs r = true ↔ ∃ r' ∈ rs, r'.text = r.text := by
  simp [containsRule]

theorem Inv.step {hf : HashFns} {k : Nat} {e : Engine} {P : List (NetRule × Idx)}
    (inv : Inv hf k e P) (hlen : P.length < maxInt32) (r : NetRule) (idx : Idx) :
    Inv hf k (e.addRule hf k r idx) (P ++ [(r, idx)]) := by
  have wk : ∀ {i : Idx}, (∃ r0, (r0, i) ∈ P) → ∃ r0, (r0, i) ∈ P ++ [(r, idx)] :=
    fun ⟨r0, h⟩ => ⟨r0, List.mem_append_left _ h⟩
  have wk' : ∀ {r0 : NetRule}, (∃ i, (r0, i) ∈ P) → ∃ i, (r0, i) ∈ P ++ [(r, idx)] :=
    fun ⟨i, h⟩ => ⟨i, List.mem_append_left _ h⟩
  unfold Engine.addRule
  cases hsc : e.sc.tryAdd hf k r idx with
  | some sc' =>
    simp only
    unfold ShortcutsTable.tryAdd at hsc
    simp only at hsc
    split at hsc
    · cases hsc
    · rename_i hne
      have hne' : ruleShortcuts k r ≠ [] := by
        intro h; rw [h] at hne; simp at hne
      obtain ⟨w, hw, hp⟩ := pickShortcut_mem hf.h e.sc.hist (ruleShortcuts k r) hne'
        (fun x => Nat.lt_of_le_of_lt (inv.hist x) hlen)
      cases hsc
      rw [hp]
      have hle : Le e { e with sc := { hist := hset e.sc.hist (hf.h w) (hget 0 e.sc.hist (hf.h w) + 1),
                                       lookup := pushIdx e.sc.lookup (hf.h w) idx } } :=
        ⟨fun hs i h => (mem_pushIdx _ _ _ _ _).2 (Or.inl h), fun _ _ h => h, fun _ h => h⟩
      constructor
      · intro hs i h
        rcases (mem_pushIdx _ _ _ _ _).1 h with h | ⟨_, rfl⟩
        · exact wk (inv.scIdx hs i h)
        · exact ⟨r, by simp⟩
      · intro hs i h; exact wk (inv.domIdx hs i h)
      · intro r0 h; exact wk' (inv.seqMem r0 h)
      · intro p hp
        rcases List.mem_append.1 hp with h | h
        · exact (inv.placed p h).mono hle
        · simp only [List.mem_singleton] at h
          subst h
          exact Or.inl ⟨w, ruleShortcuts_sub k r w hw, (mem_pushIdx _ _ _ _ _).2 (Or.inr ⟨rfl, rfl⟩)⟩
      · intro hs
        simp only [hget_hset, List.length_append, List.length_singleton]
        split
        · have := inv.hist (hf.h w); omega
        · have := inv.hist hs; omega
  | none =>
    simp only
    cases hdom : e.dom.tryAdd hf r idx with
    | some dom' =>
      simp only
      unfold DomainsTable.tryAdd at hdom
      split at hdom
      · cases hdom
      · rename_i hpd
        split at hdom
        · cases hdom
        · rename_i hwild
          cases hdom
          have hpd' : r.permDomains ≠ [] := by
            intro h; rw [h] at hpd; simp at hpd
          have hwild' : ∀ d ∈ r.permDomains, Bytes.hasSuffix d (lit ".*") = false := by
            intro d hd
            cases hc : Bytes.hasSuffix d (lit ".*") with
            | false => rfl
            | true => exact absurd (List.any_eq_true.2 ⟨d, hd, hc⟩) hwild
          have hle : Le e { e with dom := ⟨r.permDomains.foldl (fun lk d => pushIdx lk (hf.h d) idx) e.dom.lookup⟩ } :=
            ⟨fun _ _ h => h, fun hs i h => (mem_foldl_pushIdx _ _ _ _ _ _).2 (Or.inl h), fun _ h => h⟩
          constructor
          · intro hs i h; exact wk (inv.scIdx hs i h)
          · intro hs i h
            rcases (mem_foldl_pushIdx _ _ _ _ _ _).1 h with h | ⟨rfl, _⟩
            · exact wk (inv.domIdx hs i h)
            · exact ⟨r, by simp⟩
          · intro r0 h; exact wk' (inv.seqMem r0 h)
          · intro p hp
            rcases List.mem_append.1 hp with h | h
            · exact (inv.placed p h).mono hle
            · simp only [List.mem_singleton] at h
              subst h
              exact Or.inr (Or.inl ⟨hpd', hwild', fun d hd =>
                (mem_foldl_pushIdx _ _ _ _ _ _).2 (Or.inr ⟨rfl, d, hd, rfl⟩)⟩)
          · intro hs
            have := inv.hist hs
            simp only [List.length_append, List.length_singleton]; omega
    | none =>
      simp only
      split
      · rename_i hc
        constructor
        · intro hs i h; exact wk (inv.scIdx hs i h)
        · intro hs i h; exact wk (inv.domIdx hs i h)
        · intro r0 h; exact wk' (inv.seqMem r0 h)
        · intro p hp
          rcases List.mem_append.1 hp with h | h
          · exact inv.placed p h
          · simp only [List.mem_singleton] at h
            subst h
            exact Or.inr (Or.inr ((containsRule_iff _ _).1 hc))
        · intro hs
          have := inv.hist hs
          simp only [List.length_append, List.length_singleton]; omega
      · have hle : Le e { e with seq := e.seq ++ [r] } :=
          ⟨fun _ _ h => h, fun _ _ h => h, fun _ h => List.mem_append_left _ h⟩
        constructor
        · intro hs i h; exact wk (inv.scIdx hs i h)
        · intro hs i h; exact wk (inv.domIdx hs i h)
        · intro r0 h
          rcases List.mem_append.1 h with h | h
          · exact wk' (inv.seqMem r0 h)
          · simp only [List.mem_singleton] at h
            subst h
            exact ⟨idx, by simp⟩
        · intro p hp
          rcases List.mem_append.1 hp with h | h
          · exact (inv.placed p h).mono hle
          · simp only [List.mem_singleton] at h
            subst h
            exact Or.inr (Or.inr ⟨r, by simp, rfl⟩)
        · intro hs
          have := inv.hist hs
          simp only [List.length_append, List.length_singleton]; omega

theorem Inv.foldl {hf : HashFns} {k : Nat} (L : List (NetRule × Idx)) (e : Engine) (P : List (NetRule × Idx))
    (inv : Inv hf k e P) (hlen : (P ++ L).length < maxInt32) :
    Inv hf k (L.foldl (fun e p => e.addRule hf k p.1 p.2) e) (P ++ L) := by
  induction L generalizing e P with
  | nil => simpa using inv
  | cons p L ih =>
    simp only [List.foldl_cons]
    have h1 : P.length < maxInt32 := by simp at hlen; omega
    have := ih _ (P ++ [p]) (inv.step h1 p.1 p.2) (by simpa using hlen)
    simpa using this

/-- The invariant holds for the engine built from any list of fewer than `MaxInt32` rules. -/
theorem build_inv (hf : HashFns) (k : Nat) (L : List (NetRule × Idx)) (hlen : L.length < maxInt32) :
    Inv hf k (Engine.build hf k L) L := by
  have := Inv.foldl (hf := hf) (k := k) L {} [] (Inv.empty hf k) (by simpa using hlen)
  simpa [Engine.build] using this

/-- Generic soundness: every reported rule is a rule of the list and satisfies the predicate. -/
theorem matchAllG_sound (hf : HashFns) (k : Nat) (retrieve : Idx → Option NetRule) (m : NetRule → Bool)
    (url src : Bytes) (L : List (NetRule × Idx)) (hlen : L.length < maxInt32)
    (hret : ∀ p ∈ L, retrieve p.2 = some p.1) :
    ∀ r ∈ (Engine.build hf k L).matchAllG hf k retrieve m url src, (∃ i, (r, i) ∈ L) ∧ m r = true := by
  have inv := build_inv hf k L hlen
  intro r hr
  unfold Engine.matchAllG at hr
  rcases List.mem_append.1 hr with hr | hr
  · rcases List.mem_append.1 hr with hr | hr
    · obtain ⟨⟨i, r'⟩, hx, rfl⟩ := List.mem_map.1 hr
      obtain ⟨h1, h2, hs, h3⟩ := sc_matchAllG_sound hf k retrieve m url _ _ hx
      obtain ⟨r0, h0⟩ := inv.scIdx hs i h3
      have := hret _ h0
      simp only at this h1
      rw [h1] at this; cases this
      exact ⟨⟨i, h0⟩, h2⟩
    · obtain ⟨_, d, _, i, hi, h1, h2⟩ := (mem_dom_matchAllG _ _ _ _ _ _).1 hr
      obtain ⟨r0, h0⟩ := inv.domIdx _ i hi
      have := hret _ h0
      simp only at this
      rw [h1] at this; cases this
      exact ⟨⟨i, h0⟩, h2⟩
  · obtain ⟨h1, h2⟩ := List.mem_filter.1 hr
    exact ⟨inv.seqMem r h1, h2⟩

/-- Generic completeness: a rule of the list satisfying the predicate is reported (up to its text),
    given (H1) the predicate implies the shortcut is a factor of the URL, (H2) for a rule filed by
    its domains the predicate implies that one of them is among `getSubdomains src`, and that rules
    of the list with equal text agree on the predicate. -/
theorem matchAllG_complete (hf : HashFns) (k : Nat) (hcoh : hf.Coherent k)
    (retrieve : Idx → Option NetRule) (m : NetRule → Bool)
    (url src : Bytes) (L : List (NetRule × Idx)) (hlen : L.length < maxInt32)
    (hret : ∀ p ∈ L, retrieve p.2 = some p.1)
    (H1 : ∀ p ∈ L, m p.1 = true → Bytes.hasSub url p.1.shortcut = true)
    (H2 : ∀ p ∈ L, m p.1 = true → p.1.permDomains ≠ [] →
      (∀ d ∈ p.1.permDomains, Bytes.hasSuffix d (lit ".*") = false) →
      src ≠ [] ∧ ∃ d ∈ p.1.permDomains, d ∈ getSubdomains src)
    (Hsame : ∀ p ∈ L, ∀ p' ∈ L, p.1.text = p'.1.text → m p.1 = m p'.1) :
    ∀ p ∈ L, m p.1 = true →
      p.1.text ∈ ((Engine.build hf k L).matchAllG hf k retrieve m url src).map (·.text) := by
  have inv := build_inv hf k L hlen
  intro p hp hm
  unfold Engine.matchAllG
  simp only [List.map_append, List.mem_append]
  rcases inv.placed p hp with ⟨w, hw, hidx⟩ | ⟨hpd, hwild, hidx⟩ | ⟨r', hr', htext⟩
  · left; left
    obtain ⟨pre, post, hurl⟩ := hasSub_factor _ _ (H1 p hp hm)
    obtain ⟨i, hi, rfl⟩ := (mem_windows _ _ _).1 hw
    have hj : pre.length + i + k ≤ url.length := by rw [hurl]; simp; omega
    have hwin : (url.drop (pre.length + i)).take k = (p.1.shortcut.drop i).take k := by
      rw [hurl]; exact window_of_factor pre _ post i k hi
    have hh : hf.hb url (pre.length + i) (pre.length + i + k) = hf.h ((p.1.shortcut.drop i).take k) := by
      rw [hcoh url _ hj, hwin]
    obtain ⟨r', hx⟩ := sc_matchAllG_complete hf k retrieve m url _ (pre.length + i) hj p.2
      (by rw [hh]; exact hidx) p.1 (hret p hp) hm
    obtain ⟨h1, _, _⟩ := sc_matchAllG_sound hf k retrieve m url _ _ hx
    simp only at h1
    rw [hret p hp] at h1; cases h1
    exact List.mem_map.2 ⟨p.1, List.mem_map.2 ⟨(p.2, p.1), hx, rfl⟩, rfl⟩
  · left; right
    obtain ⟨hsrc, d, hd, hsub⟩ := H2 p hp hm hpd hwild
    exact List.mem_map.2 ⟨p.1, (mem_dom_matchAllG _ _ _ _ _ _).2
      ⟨hsrc, d, hsub, p.2, hidx d hd, hret p hp, hm⟩, rfl⟩
  · right
    obtain ⟨i', hi'⟩ := inv.seqMem r' hr'
    have : m r' = true := by rw [← Hsame p hp _ hi' htext.symm]; exact hm
    exact List.mem_map.2 ⟨r', List.mem_filter.2 ⟨hr', this⟩, htext⟩

end UF.B

import UF.Spec.DnsRewrite
/- Example rules used by UF/Props/C09.lean. -/
namespace UF.C09

def rw1 : DnsRewrite := { rrType := 1, value := .addr { is4 := true, val := 0x01010101 } }
def rw2 : DnsRewrite := { rrType := 1, value := .addr { is4 := true, val := 0x02020202 } }
def rwMX : DnsRewrite := { rrType := 15, value := .mx 10 (lit "mail.e.org") }
def r1 : NetRule := { text := lit "r1", rewrite := some rw1 }
def e1 : NetRule := { text := lit "@@r1", whitelist := true, rewrite := some rw1 }
def r2 : NetRule := { text := lit "r2", rewrite := some rw2 }
def e2 : NetRule := { text := lit "@@r2", whitelist := true, rewrite := some rw2 }
def rMX : NetRule := { text := lit "mx", rewrite := some rwMX }
def eMX : NetRule := { text := lit "@@mx", whitelist := true, rewrite := some rwMX }

end UF.C09

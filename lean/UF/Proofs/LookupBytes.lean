import UF.Model.Lookup
/-
  Byte-string lemmas used by the lookup proofs (C01/C02/C15): prefixes, suffixes, factors,
  windows, the hash on windows, `getSubdomains`.
-/
namespace UF.B
open UF UF.Bytes

theorem hasPrefix_iff (s p : Bytes) : Bytes.hasPrefix s p = true ↔ ∃ t, s = p ++ t := by
  induction p generalizing s with
  | nil => cases s <;> simp [Bytes.hasPrefix]
  | cons b p ih =>
    cases s with
    | nil => simp [Bytes.hasPrefix]
    | cons a s =>
      simp only [Bytes.hasPrefix, Bool.and_eq_true, beq_iff_eq, ih, List.cons_append, List.cons.injEq]
      constructor
      · rintro ⟨rfl, t, rfl⟩; exact ⟨t, rfl, rfl⟩
      · rintro ⟨t, rfl, rfl⟩; exact ⟨rfl, t, rfl⟩

theorem hasSuffix_iff (s p : Bytes) : Bytes.hasSuffix s p = true ↔ ∃ t, s = t ++ p := by
  unfold Bytes.hasSuffix
  rw [hasPrefix_iff]
  constructor
  · rintro ⟨t, ht⟩
    refine ⟨t.reverse, ?_⟩
    have := congrArg List.reverse ht
    simpa using this
  · rintro ⟨t, rfl⟩
    exact ⟨t.reverse, by simp⟩

theorem indexOf_go_factor (sub s : Bytes) (i : Nat) (h : (Bytes.indexOf.go sub s i).isSome = true) :
    ∃ pre post, s = pre ++ sub ++ post := by
  induction s generalizing i with
  | nil =>
    simp only [Bytes.indexOf.go] at h
    cases sub with
    | nil => exact ⟨[], [], rfl⟩
    | cons => simp at h
  | cons a t ih =>
    simp only [Bytes.indexOf.go] at h
    split at h
    · rename_i hp
      obtain ⟨post, hpost⟩ := (hasPrefix_iff _ _).1 hp
      exact ⟨[], post, by simpa using hpost⟩
    · obtain ⟨pre, post, hpp⟩ := ih _ h
      exact ⟨a :: pre, post, by simp [hpp]⟩

theorem hasSub_factor (s sub : Bytes) (h : Bytes.hasSub s sub = true) :
    ∃ pre post, s = pre ++ sub ++ post :=
  indexOf_go_factor sub s 0 h

theorem mem_windows (k : Nat) (s w : Bytes) :
    w ∈ windows k s ↔ ∃ i, i + k ≤ s.length ∧ w = (s.drop i).take k := by
  simp only [windows, List.mem_map, List.mem_range]
  constructor
  · rintro ⟨i, hi, rfl⟩; exact ⟨i, by omega, rfl⟩
  · rintro ⟨i, hi, rfl⟩; exact ⟨i, by omega, rfl⟩

/-- The Go slice expression `s[i:i+k]` of the window loops never panics. -/
theorem window_slice (k : Nat) (s : Bytes) (i : Nat) (hi : i < s.length + 1 - k) :
    Bytes.slice? s i (i + k) = some ((s.drop i).take k) := by
  have h : i ≤ i + k ∧ i + k ≤ s.length := by omega
  simp only [Bytes.slice?, h, and_self, if_true, Option.some.injEq]
  rw [List.drop_take]; simp

/-- A window of a factor is a window of the whole string. -/
theorem window_of_factor (pre sub post : Bytes) (i k : Nat) (h : i + k ≤ sub.length) :
    ((pre ++ sub ++ post).drop (pre.length + i)).take k = (sub.drop i).take k := by
  rw [List.append_assoc, List.drop_append, List.drop_append]
  have h1 : pre.length + i - pre.length = i := by omega
  have h2 : List.drop (pre.length + i) pre = [] := List.drop_eq_nil_of_le (by omega)
  rw [h2, h1, List.nil_append, List.take_append_of_le_length]
  simp; omega

/-! ### The hash -/

theorem fastHashLoop?_eq (s : Bytes) (n i : Nat) (acc : UInt32) (h : i + n ≤ s.length) :
    fastHashLoop? s i n acc = some (fastHashFrom acc ((s.drop i).take n)) := by
  induction n generalizing i acc with
  | zero => simp [fastHashLoop?, fastHashFrom]
  | succ n ih =>
    have hi : i < s.length := by omega
    have hd : s.drop i = s[i] :: s.drop (i + 1) := by simp
    simp only [fastHashLoop?, List.getElem?_eq_getElem hi]
    rw [ih (i + 1) _ (by omega), hd, List.take_succ_cons, fastHashFrom]

/-- `FastHashBetween` does not index out of range when `end ≤ len(str)`, and its value is the fold
    over the bytes of the slice. -/
theorem fastHashBetween?_eq (s : Bytes) (b e : Nat) (h : e ≤ s.length) :
    fastHashBetween? s b e = some (fastHashBetween s b e) := by
  unfold fastHashBetween? fastHashBetween
  by_cases hb : b ≤ e
  · exact fastHashLoop?_eq s (e - b) b 5381 (by omega)
  · have : e - b = 0 := by omega
    simp [this, fastHashLoop?, fastHashFrom]

/-- `FastHashBetween(s, i, j) = FastHash(s[i:j])` for a non-empty window. -/
theorem fastHashBetween_eq_fastHash (s : Bytes) (i j : Nat) (hij : i < j) (hj : j ≤ s.length) :
    fastHashBetween s i j = fastHash ((s.drop i).take (j - i)) := by
  have hlen : ((s.drop i).take (j - i)).length = j - i := by simp; omega
  have hne : ((s.drop i).take (j - i)).isEmpty = false := by
    cases hc : (s.drop i).take (j - i) with
    | nil => rw [hc] at hlen; simp at hlen; omega
    | cons => rfl
  unfold fastHash
  rw [hne]
  simp only [Bool.false_eq_true, if_false]
  unfold fastHashBetween
  rw [hlen]; simp [List.take_take]

/-- The concrete pair is coherent for every window length `k ≥ 1`. -/
theorem djb2_coherent (k : Nat) (hk : 1 ≤ k) : djb2.Coherent k := by
  intro s i h
  have := fastHashBetween_eq_fastHash s i (i + k) (by omega) h
  simpa [djb2] using this

/-! ### `splitByte` and `getSubdomains` -/

theorem splitByte_go_append (sep : UInt8) (x d cur : Bytes) :
    Bytes.splitByte.go sep (x ++ sep :: d) cur = Bytes.splitByte.go sep x cur ++ Bytes.splitByte.go sep d [] := by
  induction x generalizing cur with
  | nil => simp [Bytes.splitByte.go]
  | cons a x ih =>
    simp only [List.cons_append, Bytes.splitByte.go]
    split
    · simp [ih]
    · exact ih _

/-- Walking the parts of a name that is not empty and does not end in a dot rebuilds the name. -/
theorem subdomain_fold_go (s cur : Bytes) (hne : cur.reverse ++ s ≠ [])
    (hlast : s ≠ [] → s.getLast? ≠ some (ch '.')) :
    ((Bytes.splitByte.go (ch '.') s cur).foldr subdomainStep ([], [])).1 = cur.reverse ++ s := by
  induction s generalizing cur with
  | nil =>
    simp only [Bytes.splitByte.go, List.foldr_cons, List.foldr_nil, subdomainStep, List.isEmpty_nil,
      if_true, List.append_nil]
  | cons a t ih =>
    simp only [Bytes.splitByte.go]
    split
    · rename_i ha
      have ha' : a = ch '.' := by simpa using ha
      have htne : t ≠ [] := by
        intro ht; subst ht; apply hlast (by simp); simp [ha']
      have hl : t ≠ [] → t.getLast? ≠ some (ch '.') := by
        intro _; have := hlast (by simp)
        rwa [List.getLast?_cons_of_ne_nil htne] at this
      have := ih [] (by simpa using htne) hl
      simp only [List.foldr_cons, subdomainStep]
      simp only [List.reverse_nil, List.nil_append] at this
      rw [this]
      have : t.isEmpty = false := by cases t <;> simp_all
      simp [this, ha']
    · have hl : t ≠ [] → t.getLast? ≠ some (ch '.') := by
        intro htne; have := hlast (by simp)
        rwa [List.getLast?_cons_of_ne_nil htne] at this
      have := ih (a :: cur) (by simp) hl
      simpa using this

theorem subdomainStep_snd_mono (p : Bytes) (acc : Bytes × List Bytes) (x : Bytes) (h : x ∈ acc.2) :
    x ∈ (subdomainStep p acc).2 := by
  simp [subdomainStep, h]

theorem subdomain_foldr_mono (ps : List Bytes) (acc : Bytes × List Bytes) (x : Bytes) (h : x ∈ acc.2) :
    x ∈ (ps.foldr subdomainStep acc).2 := by
  induction ps with
  | nil => exact h
  | cons p ps ih => exact subdomainStep_snd_mono _ _ _ ih

theorem subdomain_foldr_fst_mem (ps : List Bytes) (hps : ps ≠ []) (acc : Bytes × List Bytes) :
    (ps.foldr subdomainStep acc).1 ∈ (ps.foldr subdomainStep acc).2 := by
  cases ps with
  | nil => exact absurd rfl hps
  | cons p ps => simp [subdomainStep]

theorem splitByte_go_ne_nil (sep : UInt8) (s cur : Bytes) : Bytes.splitByte.go sep s cur ≠ [] := by
  induction s generalizing cur with
  | nil => simp [Bytes.splitByte.go]
  | cons a t ih =>
    simp only [Bytes.splitByte.go]
    split
    · simp
    · exact ih _

/-- A domain name `d` (non-empty, not ending in a dot) is among `getSubdomains host` whenever `host`
    is `d` or ends in `"." ++ d`. -/
theorem mem_getSubdomains (host d : Bytes) (hd : d ≠ []) (hdot : d.getLast? ≠ some (ch '.'))
    (h : host = d ∨ ∃ x, host = x ++ ch '.' :: d) : d ∈ getSubdomains host := by
  have hfold : ((Bytes.splitByte.go (ch '.') d []).foldr subdomainStep ([], [])).1 = d := by
    have := subdomain_fold_go d [] (by simpa using hd) (fun _ => hdot)
    simpa using this
  have hmem : d ∈ ((Bytes.splitByte.go (ch '.') d []).foldr subdomainStep ([], [])).2 := by
    have := subdomain_foldr_fst_mem (Bytes.splitByte.go (ch '.') d []) (splitByte_go_ne_nil _ _ _) ([], [])
    rwa [hfold] at this
  rcases h with rfl | ⟨x, rfl⟩
  · exact hmem
  · unfold getSubdomains Bytes.splitByte
    rw [splitByte_go_append, List.foldr_append]
    exact subdomain_foldr_mono _ _ _ hmem

end UF.B

import UF.Basic.Bytes
/- `hasPrefix` / `hasSub` as statements about factors. -/
namespace UF.Bytes

theorem hasPrefix_iff : ∀ (s p : Bytes), hasPrefix s p = true ↔ ∃ z, s = p ++ z := by
  intro s p
  induction p generalizing s with
  | nil => simp [hasPrefix]
  | cons b p ih =>
    cases s with
    | nil => simp [hasPrefix]
    | cons a s =>
      simp only [hasPrefix, Bool.and_eq_true, beq_iff_eq, ih, List.cons_append, List.cons.injEq]
      constructor
      · rintro ⟨rfl, z, hz⟩; exact ⟨z, rfl, hz⟩
      · rintro ⟨z, rfl, hz⟩; exact ⟨rfl, z, hz⟩

theorem indexOf_go_isSome (sub : Bytes) : ∀ (s : Bytes) (i : Nat),
    (indexOf.go sub s i).isSome = true ↔ ∃ x z, s = x ++ sub ++ z := by
  intro s
  induction s with
  | nil =>
    intro i
    simp only [indexOf.go]
    constructor
    · intro h
      split at h
      · rename_i he
        have : sub = [] := by simpa using he
        exact ⟨[], [], by simp [this]⟩
      · simp at h
    · rintro ⟨x, z, h⟩
      have : sub = [] := by
        have := congrArg List.length h
        simp at this
        exact List.eq_nil_of_length_eq_zero (by omega)
      simp [this]
  | cons a t ih =>
    intro i
    simp only [indexOf.go]
    constructor
    · intro h
      split at h
      · rename_i hp
        obtain ⟨z, hz⟩ := (hasPrefix_iff _ _).1 hp
        exact ⟨[], z, by simpa using hz⟩
      · obtain ⟨x, z, hz⟩ := (ih _).1 h
        exact ⟨a :: x, z, by simp [hz]⟩
    · rintro ⟨x, z, h⟩
      cases x with
      | nil =>
        have : hasPrefix (a :: t) sub = true := (hasPrefix_iff _ _).2 ⟨z, by simpa using h⟩
        simp [this]
      | cons b x =>
        simp at h
        split
        · rfl
        · exact (ih _).2 ⟨x, z, by simpa using h.2⟩

/-- `strings.Contains s sub` ⇔ `sub` is a factor of `s`. -/
theorem hasSub_iff (s sub : Bytes) : hasSub s sub = true ↔ ∃ x z, s = x ++ sub ++ z := by
  simp [hasSub, indexOf, indexOf_go_isSome]

theorem hasSub_nil (s : Bytes) : hasSub s [] = true := (hasSub_iff _ _).2 ⟨[], s, by simp⟩

theorem hasSub_refl (s : Bytes) : hasSub s s = true := (hasSub_iff _ _).2 ⟨[], [], by simp⟩

theorem hasSub_trans {a b c : Bytes} (h1 : hasSub a b = true) (h2 : hasSub b c = true) : hasSub a c = true := by
  obtain ⟨x, z, rfl⟩ := (hasSub_iff _ _).1 h1
  obtain ⟨x', z', rfl⟩ := (hasSub_iff _ _).1 h2
  exact (hasSub_iff _ _).2 ⟨x ++ x', z' ++ z, by simp⟩

theorem hasSub_append_left {a c : Bytes} (b : Bytes) (h : hasSub a c = true) : hasSub (a ++ b) c = true := by
  obtain ⟨x, z, rfl⟩ := (hasSub_iff _ _).1 h
  exact (hasSub_iff _ _).2 ⟨x, z ++ b, by simp⟩

theorem hasSub_append_right {b c : Bytes} (a : Bytes) (h : hasSub b c = true) : hasSub (a ++ b) c = true := by
  obtain ⟨x, z, rfl⟩ := (hasSub_iff _ _).1 h
  exact (hasSub_iff _ _).2 ⟨a ++ x, z, by simp⟩

theorem toLower_append (a b : Bytes) : toLower (a ++ b) = toLower a ++ toLower b := by
  simp [toLower]

theorem toLower_length (a : Bytes) : (toLower a).length = a.length := by simp [toLower]

theorem hasSub_toLower {a b : Bytes} (h : hasSub a b = true) : hasSub (toLower a) (toLower b) = true := by
  obtain ⟨x, z, rfl⟩ := (hasSub_iff _ _).1 h
  exact (hasSub_iff _ _).2 ⟨toLower x, toLower z, by simp [toLower_append]⟩

end UF.Bytes

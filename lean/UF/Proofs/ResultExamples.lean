import UF.Spec.Result
/- Example rules used by UF/Props/C06.lean. -/
namespace UF.C06

/-- `||ads.com^$domain=site.com`, `@@||site.com^$genericblock`, `@@||site.com^$urlblock`. -/
def exBlock : NetRule := { text := lit "||ads.com^$domain=site.com", pattern := lit "||ads.com^", permDomains := [lit "site.com"] }
def exG : NetRule :=
  { text := lit "@@||site.com^$genericblock", pattern := lit "||site.com^", whitelist := true,
    enabled := Facts.OptionGenericblock, permTypes := Facts.TypeDocument }
def exU : NetRule :=
  { text := lit "@@||site.com^$urlblock", pattern := lit "||site.com^", whitelist := true,
    enabled := Facts.OptionUrlblock, permTypes := Facts.TypeDocument }

end UF.C06

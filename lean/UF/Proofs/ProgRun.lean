import UF.Proofs.ProgStep
/-
  Runs of the Prog model: one thread alone (`runThread`, `runQuery`, termination within the fuel
  bound), histories, and schedules of many threads.  The invariant carried through is

      SInv state  ∧  every thread: TInv ∧ RxOK (relative to the CURRENT shared state) ∧ not crashed ∧ P

  with `P = GoodEq` (`Tot` = the stateless answer) when no list is ever closed, and `P = Sound`
  (UF/Proofs/ProgSound.lean) in general.
-/
namespace UF.Prog
variable {R Re : Type}

/-- What a thread needs from itself and from the shared state. -/
def Good (env : Env R Re) (s : State R Re) (t : Thread R) : Prop := TInv env t ∧ RxOK s t ∧ t.pc ≠ .crash

/-- The thread's bookkeeping equals the stateless answer of its stage. -/
def GoodEq (env : Env R Re) (t : Thread R) : Prop :=
  t.pc ≠ .start → t.q.trivial = false → Tot env t = target env t

theorem good_init (env : Env R Re) (s : State R Re) (q : Query) : Good env s (Thread.init q) :=
  ⟨tinv_init env q, fun _ _ h => by simp [Thread.init] at h, by simp [Thread.init]⟩

theorem goodEq_init (env : Env R Re) (q : Query) : GoodEq env (Thread.init q : Thread R) :=
  fun h => absurd rfl h

/-- No crash: with the nil checks in place the only dereference left is `f.regex`, which `RxOK` covers. -/
theorem step_no_crash {env : Env R Re} {s : State R Re} {t : Thread R} (hrx : RxOK s t) (hc : t.pc ≠ .crash) :
    (step env s t).2.pc ≠ .crash := by
  rcases t with ⟨q, pc, req, todo, acc, stage⟩
  cases pc with
  | rx it r =>
    obtain ⟨x, hx⟩ := hrx it r rfl
    simp only [step, stepG, hx]
    exact advance_pc_ne_crash _
  | crash => exact absurd rfl hc
  | use src idx o =>
    simp only [step, stepG]
    cases o with
    | none => simp only [if_true]; exact advance_pc_ne_crash _
    | some r =>
      simp only
      repeat' split
      all_goals first | exact advance_pc_ne_crash _ | simp
  | _ =>
    simp only [step, stepG] <;> repeat' split
    all_goals first | exact advance_pc_ne_crash _ | simp

theorem step_good {env : Env R Re} {s : State R Re} {t : Thread R} (hs : SInv env s) (hg : Good env s t) :
    Good env (step env s t).1 (step env s t).2 :=
  ⟨step_tinv hs.1 hg.1, step_rxOK env s t, step_no_crash hg.2.1 hg.2.2⟩

/-- Rely: actions of OTHER threads keep a thread `Good`. -/
theorem good_mono {env : Env R Re} {s s' : State R Re} {t : Thread R} (hle : CellsLe s s') (hg : Good env s t) :
    Good env s' t :=
  ⟨hg.1, rxOK_mono hle hg.2.1, hg.2.2⟩

theorem target_step {env : Env R Re} {s : State R Re} {t : Thread R} (hst : t.pc ≠ .start) (hm : t.pc ≠ .mid) :
    target env (step env s t).2 = target env t := by
  simp only [target, step_stage hst hm, step_q, step_req hst]

/-- No faults: `Tot` stays EQUAL to the stateless answer. -/
theorem step_goodEq {env : Env R Re} {s : State R Re} {t : Thread R} (hs : SInv env s) (h0 : s.closed = [])
    (hg : Good env s t) (he : GoodEq env t) : GoodEq env (step env s t).2 := by
  intro _ hq
  rw [step_q] at hq
  by_cases hst : t.pc = .start
  · exact (step_tot_start env s t hst hq).1
  · by_cases hm : t.pc = .mid
    · exact step_tot_mid hg.1 hm (he hst hq)
    · rw [step_tot hs h0 hg.1 hg.2.1 hst hm, target_step hst hm]
      exact he hst hq

theorem nets_nil : nets ([] : List (Item × R)) = [] := rfl
theorem hosts_nil : hosts ([] : List (Item × R)) = [] := rfl

/-- A finished thread has collected exactly its `Tot`, and is in the second stage. -/
theorem answer_of_goodEq {env : Env R Re} {t : Thread R} (ht : TInv env t) (he : GoodEq env t) (hd : t.pc = .done) :
    t.answer = pureAnswer env t.q := by
  have hs : t.pc ≠ .start := by rw [hd]; simp
  cases hq : t.q.trivial with
  | true =>
    have := (ht.triv hq hs).2
    simp [Thread.answer, pureAnswer, hq, this, nets_nil, hosts_nil]
  | false =>
    have h1 := he hs hq
    have h2 := ht.end_todo (Or.inr (Or.inr hd))
    have h3 := ht.done_stage hd hq
    have h4 := ht.req_eq hs hq
    simp only [Tot, pendAcc, hd, h2, pureFold_nil, target, h3, if_true] at h1
    simp [Thread.answer, pureAnswer, hq, h1, h4]

/-! ### one thread alone -/

theorem items2_length (env : Env R Re) (q : Query) (req : Request) (nrs : List R) :
    (env.items2 q req nrs).length ≤ (env.hcands req).length := by
  unfold Env.items2
  cases q with
  | web _ => simp
  | dns _ => simp only; split <;> simp

/-- the part of the fuel bound that does not depend on the pending item -/
def Thread.tail (env : Env R Re) (t : Thread R) : Nat :=
  if t.stage then 1 else 6 * (env.hcands t.req).length + 3

theorem advance_fuel (env : Env R Re) (t : Thread R) : t.advance.fuel env ≤ 6 * t.todo.length + t.tail env := by
  unfold Thread.advance
  cases h : t.todo with
  | nil =>
    cases hs : t.stage <;> simp [Thread.fuel, Thread.tail, hs]
  | cons i rest =>
    cases i <;> simp [Thread.fuel, Thread.tail] <;> omega

/-- Every action of an unfinished, started thread consumes fuel. -/
theorem step_fuel (env : Env R Re) (s : State R Re) (t : Thread R) (hs : t.pc ≠ .start) (hd : t.pc ≠ .done)
    (hc : t.pc ≠ .crash) : (step env s t).2.fuel env + 1 ≤ t.fuel env ∨ (step env s t).2.pc = .crash := by
  rcases t with ⟨q, pc, req, todo, acc, stage⟩
  cases pc with
  | start => exact absurd rfl hs
  | done => exact absurd rfl hd
  | crash => exact absurd rfl hc
  | mid =>
    left
    simp only [step, stepG]
    have h1 := advance_fuel env ({ q := q, pc := PC.mid, req := req, todo := env.items2 q req (nets acc), acc := acc, stage := true } : Thread R)
    have h2 := items2_length env q req (nets acc)
    simp only [Thread.tail, if_true] at h1
    have h3 : Thread.fuel env ({ q := q, pc := PC.mid, req := req, todo := todo, acc := acc, stage := stage } : Thread R) =
        6 * (env.hcands req).length + 2 := rfl
    rw [h3]
    omega
  | fin => left; cases q <;> simp [step, stepG, Thread.fuel]
  | get src idx => left; simp only [step, stepG]; split <;> (simp only [Thread.fuel]; omega)
  | read src idx => left; simp only [step, stepG]; split <;> (try split) <;> (simp only [Thread.fuel]; omega)
  | put src idx r => left; simp only [step, stepG]; split <;> (simp only [Thread.fuel]; omega)
  | use src idx o =>
    left
    have key : ∀ (t' : Thread R), t'.todo = todo → t'.stage = stage → t'.req = req →
        t'.advance.fuel env + 1 ≤ 3 + 6 * todo.length + (if stage then 1 else 6 * (env.hcands req).length + 3) := by
      intro t' h1 h2 h3
      have := advance_fuel env t'
      simp only [Thread.tail, h1, h2, h3] at this
      omega
    simp only [step, stepG]
    cases o with
    | none => simp only [if_true]; simp only [Thread.fuel]; exact key _ rfl rfl rfl
    | some r =>
      simp only
      split
      · simp only [Thread.fuel]; exact key _ rfl rfl rfl
      · split
        · split <;> (simp only [Thread.fuel]; exact key _ rfl rfl rfl)
        · split
          · simp only [Thread.fuel]; omega
          · simp only [Thread.fuel]; exact key _ rfl rfl rfl
  | seq k =>
    left
    have key : ∀ (t' : Thread R), t'.todo = todo → t'.stage = stage → t'.req = req →
        t'.advance.fuel env + 1 ≤ 3 + 6 * todo.length + (if stage then 1 else 6 * (env.hcands req).length + 3) := by
      intro t' h1 h2 h3
      have := advance_fuel env t'
      simp only [Thread.tail, h1, h2, h3] at this
      omega
    simp only [step, stepG]
    split
    · simp only [Thread.fuel]; exact key _ rfl rfl rfl
    · split
      · simp only [Thread.fuel]; omega
      · simp only [Thread.fuel]; exact key _ rfl rfl rfl
  | prep it r =>
    left
    have key : ∀ (t' : Thread R), t'.todo = todo → t'.stage = stage → t'.req = req →
        t'.advance.fuel env + 1 ≤ 2 + 6 * todo.length + (if stage then 1 else 6 * (env.hcands req).length + 3) := by
      intro t' h1 h2 h3
      have := advance_fuel env t'
      simp only [Thread.tail, h1, h2, h3] at this
      omega
    simp only [step, stepG]
    split
    · simp only [Thread.fuel]; omega
    · simp only [Thread.fuel]; exact key _ rfl rfl rfl
    · split
      · simp only [Thread.fuel]; exact key _ rfl rfl rfl
      · simp only [Thread.fuel]; omega
      · simp only [Thread.fuel]; exact key _ rfl rfl rfl
  | rx it r =>
    have key : ∀ (t' : Thread R), t'.todo = todo → t'.stage = stage → t'.req = req →
        t'.advance.fuel env + 1 ≤ 1 + 6 * todo.length + (if stage then 1 else 6 * (env.hcands req).length + 3) := by
      intro t' h1 h2 h3
      have := advance_fuel env t'
      simp only [Thread.tail, h1, h2, h3] at this
      omega
    simp only [step, stepG]
    split
    · left; split <;> (simp only [Thread.fuel]; exact key _ rfl rfl rfl)
    · right; rfl

theorem step_done (env : Env R Re) (s : State R Re) (t : Thread R) (hd : t.pc = .done) : step env s t = (s, t) := by
  rcases t with ⟨q, pc, req, todo, acc, stage⟩
  simp at hd; subst hd; rfl

theorem step_crash (env : Env R Re) (s : State R Re) (t : Thread R) (hd : t.pc = .crash) : step env s t = (s, t) := by
  rcases t with ⟨q, pc, req, todo, acc, stage⟩
  simp at hd; subst hd; rfl

/-- Totality: a started thread run alone for at least `fuel` actions has finished or crashed. -/
theorem runThread_done (env : Env R Re) : ∀ (n : Nat) (s : State R Re) (t : Thread R), t.pc ≠ .start →
    t.fuel env ≤ n → (runThread env n s t).2.pc = .done ∨ (runThread env n s t).2.pc = .crash := by
  intro n
  induction n with
  | zero =>
    intro s t hs hf
    rcases t with ⟨q, pc, req, todo, acc, stage⟩
    cases pc <;> simp_all [Thread.fuel, runThread]
  | succ n ih =>
    intro s t hs hf
    simp only [runThread]
    by_cases hd : t.pc = .done
    · rw [step_done env s t hd]
      exact ih s t hs (by rcases t with ⟨q, pc, req, todo, acc, stage⟩; simp at hd; subst hd; simp [Thread.fuel])
    · by_cases hc : t.pc = .crash
      · rw [step_crash env s t hc]
        exact ih s t hs (by rcases t with ⟨q, pc, req, todo, acc, stage⟩; simp at hc; subst hc; simp [Thread.fuel])
      · rcases step_fuel env s t hs hd hc with h | h
        · exact ih _ _ (step_pc_ne_start env s t) (by omega)
        · exact ih _ _ (step_pc_ne_start env s t) (by
            generalize step env s t = p at h
            rcases p with ⟨s', ⟨q, pc, req, todo, acc, stage⟩⟩
            simp at h; subst h; simp [Thread.fuel])

/-- Invariants along a solo run (any predicate preserved by `step`). -/
theorem runThread_inv (env : Env R Re) (P : State R Re → Thread R → Prop)
    (hstep : ∀ s t, P s t → P (step env s t).1 (step env s t).2) :
    ∀ (n : Nat) (s : State R Re) (t : Thread R), P s t → P (runThread env n s t).1 (runThread env n s t).2 := by
  intro n
  induction n with
  | zero => intro s t h; exact h
  | succ n ih => intro s t h; simp only [runThread]; exact ih _ _ (hstep s t h)

theorem runQuery_eq (env : Env R Re) (s : State R Re) (q : Query) :
    runQuery env s q = runThread env ((step env s (Thread.init q)).2.fuel env) (step env s (Thread.init q)).1
      (step env s (Thread.init q)).2 := rfl

/-- `runQuery` is a solo run of `fuel + 1` actions. -/
theorem runQuery_inv (env : Env R Re) (P : State R Re → Thread R → Prop)
    (hstep : ∀ s t, P s t → P (step env s t).1 (step env s t).2) (s : State R Re) (q : Query)
    (h : P s (Thread.init q)) : P (runQuery env s q).1 (runQuery env s q).2 := by
  rw [runQuery_eq]
  exact runThread_inv env P hstep _ _ _ (hstep _ _ h)

theorem runQuery_done_or_crash (env : Env R Re) (s : State R Re) (q : Query) :
    (runQuery env s q).2.pc = .done ∨ (runQuery env s q).2.pc = .crash := by
  rw [runQuery_eq]
  exact runThread_done env _ _ _ (step_pc_ne_start env s _) (Nat.le_refl _)

theorem runQuery_q (env : Env R Re) (s : State R Re) (q : Query) : (runQuery env s q).2.q = q :=
  runQuery_inv env (fun _ t => t.q = q) (fun s t h => by rw [step_q]; exact h) s q rfl

theorem runQuery_closed (env : Env R Re) (s : State R Re) (q : Query) : (runQuery env s q).1.closed = s.closed :=
  runQuery_inv env (fun s' _ => s'.closed = s.closed) (fun s' t h => by rw [step_closed]; exact h) s q rfl

/-- Sequential, any fault state: the shared invariant and `Good` after a query; the query is finished. -/
theorem runQuery_good {env : Env R Re} {s : State R Re} (q : Query) (hs : SInv env s) :
    SInv env (runQuery env s q).1 ∧ Good env (runQuery env s q).1 (runQuery env s q).2 ∧
      (runQuery env s q).2.pc = .done := by
  have h := runQuery_inv env (fun s t => SInv env s ∧ Good env s t)
    (fun s t h => ⟨step_sinv h.1 h.2.1, step_good h.1 h.2⟩) s q ⟨hs, good_init env s q⟩
  refine ⟨h.1, h.2, ?_⟩
  rcases runQuery_done_or_crash env s q with hd | hc
  · exact hd
  · exact absurd hc h.2.2.2

/-- Sequential, no faults: invariants after a query. -/
theorem runQuery_goodEq {env : Env R Re} {s : State R Re} (q : Query) (hs : SInv env s) (h0 : s.closed = []) :
    GoodEq env (runQuery env s q).2 := by
  have := runQuery_inv env (fun s t => (SInv env s ∧ s.closed = []) ∧ Good env s t ∧ GoodEq env t)
    (fun s t h => ⟨⟨step_sinv h.1.1 h.2.1.1, by rw [step_closed]; exact h.1.2⟩, step_good h.1.1 h.2.1,
      step_goodEq h.1.1 h.1.2 h.2.1 h.2.2⟩)
    s q ⟨⟨hs, h0⟩, good_init env s q, goodEq_init env q⟩
  exact this.2.2

/-! ### schedules -/

/-- Global invariant of a configuration, with a per-thread predicate `P`. -/
def CInv (P : Thread R → Prop) (env : Env R Re) (c : Config R Re) : Prop :=
  SInv env c.state ∧ ∀ t ∈ c.threads, Good env c.state t ∧ P t

theorem cinv_init (P : Thread R → Prop) (env : Env R Re) (s : State R Re) (qs : List Query) (hs : SInv env s)
    (hP : ∀ q, P (Thread.init q)) : CInv P env ⟨s, qs.map Thread.init⟩ := by
  refine ⟨hs, ?_⟩
  intro t ht
  simp only [List.mem_map] at ht
  obtain ⟨q, _, rfl⟩ := ht
  exact ⟨good_init env s q, hP q⟩

/-- One action of one thread preserves the invariant of the configuration, provided that thread's own
    action preserves `P` (the other threads are untouched; their `Good` survives by `good_mono`). -/
theorem exec_run_cinv {P : Thread R → Prop} {env : Env R Re} {c : Config R Re} (tid : Nat)
    (hP : ∀ t, Good env c.state t → P t → P (step env c.state t).2) (h : CInv P env c) :
    CInv P env (c.exec env (.run tid)) := by
  simp only [Config.exec, Config.execG]
  cases ht : c.threads[tid]? with
  | none => exact h
  | some t =>
    have hm : t ∈ c.threads := List.mem_of_getElem? ht
    have hg := h.2 t hm
    refine ⟨step_sinv h.1 hg.1.1, ?_⟩
    intro t' ht'
    rcases List.mem_or_eq_of_mem_set ht' with h1 | h1
    · exact ⟨good_mono (step_cellsLe env c.state t) (h.2 t' h1).1, (h.2 t' h1).2⟩
    · rw [h1]; exact ⟨step_good h.1 hg.1, hP t hg.1 hg.2⟩

/-- Closing a list touches neither the cache nor the cells. -/
theorem exec_close_cinv {P : Thread R → Prop} {env : Env R Re} {c : Config R Re} (l : ListId) (h : CInv P env c) :
    CInv P env (c.exec env (.close l)) := h

theorem run_cinv_eq {env : Env R Re} (sched : List Nat) : ∀ (c : Config R Re),
    CInv (GoodEq env) env c ∧ c.state.closed = [] →
    CInv (GoodEq env) env (c.run env (sched.map Ev.run)) ∧ (c.run env (sched.map Ev.run)).state.closed = [] := by
  induction sched with
  | nil => intro c h; exact h
  | cons e rest ih =>
    intro c h
    refine ih _ ⟨exec_run_cinv e (fun t hg he => step_goodEq h.1.1 h.2 hg he) h.1, ?_⟩
    simp only [Config.exec, Config.execG]
    cases c.threads[e]? with
    | none => exact h.2
    | some t => simp only [step_closed]; exact h.2

end UF.Prog

import UF.Proofs.ProgStep
/-
  Runs of the Prog model: one thread alone (`runThread`, `runQuery`, termination within the fuel
  bound), histories, and schedules of many threads.  The invariant carried through is

      CacheInv state  ∧  every thread: TInv ∧ (started → rel (total t) (stateless storage answer))

  with `rel = Eq` when no list is ever closed and `rel = Sublist` in general.
-/
namespace UF.Prog
variable {R : Type}

/-- Thread invariant with the relation between `total` and the stateless answer as a parameter. -/
def Good (rel : List R → List R → Prop) (env : Env R) (t : Thread R) : Prop :=
  TInv env t ∧ (t.pc ≠ .start → rel (total env t) (pureStorage env (env.reqOf t.q) (env.cands (env.reqOf t.q))))

theorem good_init (rel : List R → List R → Prop) (env : Env R) (q : Query) : Good rel env (Thread.init q) :=
  ⟨tinv_init env q, fun h => absurd rfl h⟩

/-- No faults: `total` stays EQUAL to the stateless answer. -/
theorem step_good_eq {env : Env R} {s : State R} {t : Thread R} (hc : CacheInv env s) (h0 : s.closed = [])
    (hg : Good Eq env t) : Good Eq env (step env s t).2 := by
  refine ⟨step_tinv hg.1, fun _ => ?_⟩
  rw [step_q]
  by_cases hs : t.pc = .start
  · exact step_total_start env s t hs
  · rcases step_total hc hg.1 hs with h | ⟨h, _⟩
    · rw [h]; exact hg.2 hs
    · exact absurd h0 h

/-- With faults: `total` stays a SUBLIST of the stateless answer. -/
theorem step_good_sub {env : Env R} {s : State R} {t : Thread R} (hc : CacheInv env s)
    (hg : Good List.Sublist env t) : Good List.Sublist env (step env s t).2 := by
  refine ⟨step_tinv hg.1, fun _ => ?_⟩
  rw [step_q]
  by_cases hs : t.pc = .start
  · rw [step_total_start env s t hs]; exact List.Sublist.refl _
  · rcases step_total hc hg.1 hs with h | ⟨_, h⟩
    · rw [h]; exact hg.2 hs
    · exact h.trans (hg.2 hs)

/-- A finished thread has collected exactly its `total`. -/
theorem total_done {env : Env R} {t : Thread R} (ht : TInv env t) (hd : t.pc = .done) : total env t = t.acc := by
  have := ht.fin_todo (Or.inr hd)
  simp [total, pend, hd, this, pureStorage_nil]

theorem answer_of_good_eq {env : Env R} {t : Thread R} (hg : Good Eq env t) (hd : t.pc = .done) :
    t.answer env = pureAnswer env t.q := by
  have hs : t.pc ≠ .start := by rw [hd]; simp
  have h1 := hg.2 hs
  rw [total_done hg.1 hd] at h1
  simp [Thread.answer, pureAnswer, h1, hg.1.req_eq hs]

theorem answer_of_good_sub {env : Env R} {t : Thread R} (hg : Good List.Sublist env t) (hd : t.pc = .done) :
    (t.answer env).Sublist (pureAnswer env t.q) := by
  have hs : t.pc ≠ .start := by rw [hd]; simp
  have h1 := hg.2 hs
  rw [total_done hg.1 hd] at h1
  simp only [Thread.answer, pureAnswer, hg.1.req_eq hs]
  exact List.Sublist.append h1 (List.Sublist.refl _)

/-! ### one thread alone -/

theorem advance_fuel (t : Thread R) : t.advance.fuel = 4 * t.todo.length + 1 := by
  unfold Thread.advance
  cases h : t.todo with
  | nil => simp [Thread.fuel]
  | cons i rest => simp [Thread.fuel]; omega

/-- Every action of an unfinished, started thread consumes fuel. -/
theorem step_fuel (env : Env R) (s : State R) (t : Thread R) (hs : t.pc ≠ .start) (hd : t.pc ≠ .done) :
    (step env s t).2.fuel + 1 ≤ t.fuel := by
  rcases t with ⟨q, pc, req, todo, acc⟩
  cases pc with
  | start => exact absurd rfl hs
  | get idx => simp only [step]; split <;> simp [Thread.fuel]
  | read idx =>
    simp only [step]; split
    · rw [advance_fuel]; simp [Thread.fuel]
    · split
      · simp [Thread.fuel]
      · rw [advance_fuel]; simp [Thread.fuel]
  | put idx r => simp only [step]; split <;> simp [Thread.fuel]
  | comp r =>
    simp only [step, advance_fuel]
    split <;> simp [Thread.fuel]
  | fin => cases q <;> simp [step, Thread.fuel]
  | done => exact absurd rfl hd

theorem step_done (env : Env R) (s : State R) (t : Thread R) (hd : t.pc = .done) : step env s t = (s, t) := by
  rcases t with ⟨q, pc, req, todo, acc⟩
  simp at hd; subst hd; rfl

/-- Totality: a started thread run alone for at least `fuel` actions is finished. -/
theorem runThread_done (env : Env R) : ∀ (n : Nat) (s : State R) (t : Thread R), t.pc ≠ .start → t.fuel ≤ n →
    (runThread env n s t).2.pc = .done := by
  intro n
  induction n with
  | zero =>
    intro s t hs hf
    rcases t with ⟨q, pc, req, todo, acc⟩
    cases pc <;> simp_all [Thread.fuel, runThread]
  | succ n ih =>
    intro s t hs hf
    simp only [runThread]
    by_cases hd : t.pc = .done
    · rw [step_done env s t hd]
      exact ih s t hs (by rcases t with ⟨q, pc, req, todo, acc⟩; simp at hd; subst hd; simp [Thread.fuel])
    · have := step_fuel env s t hs hd
      exact ih _ _ (step_pc_ne_start env s t) (by omega)

/-- Invariants along a solo run (any predicate preserved by `step`). -/
theorem runThread_inv (env : Env R) (P : State R → Thread R → Prop)
    (hstep : ∀ s t, P s t → P (step env s t).1 (step env s t).2) :
    ∀ (n : Nat) (s : State R) (t : Thread R), P s t → P (runThread env n s t).1 (runThread env n s t).2 := by
  intro n
  induction n with
  | zero => intro s t h; exact h
  | succ n ih => intro s t h; simp only [runThread]; exact ih _ _ (hstep s t h)

theorem runQuery_eq (env : Env R) (s : State R) (q : Query) :
    runQuery env s q = runThread env (step env s (Thread.init q)).2.fuel (step env s (Thread.init q)).1
      (step env s (Thread.init q)).2 := rfl

/-- `runQuery` is a solo run of `fuel + 1` actions. -/
theorem runQuery_inv (env : Env R) (P : State R → Thread R → Prop)
    (hstep : ∀ s t, P s t → P (step env s t).1 (step env s t).2) (s : State R) (q : Query)
    (h : P s (Thread.init q)) : P (runQuery env s q).1 (runQuery env s q).2 := by
  rw [runQuery_eq]
  exact runThread_inv env P hstep _ _ _ (hstep _ _ h)

theorem runQuery_done (env : Env R) (s : State R) (q : Query) : (runQuery env s q).2.pc = .done := by
  rw [runQuery_eq]
  exact runThread_done env _ _ _ (step_pc_ne_start env s _) (Nat.le_refl _)

theorem runQuery_q (env : Env R) (s : State R) (q : Query) : (runQuery env s q).2.q = q :=
  runQuery_inv env (fun _ t => t.q = q) (fun s t h => by rw [step_q]; exact h) s q rfl

theorem runQuery_closed (env : Env R) (s : State R) (q : Query) : (runQuery env s q).1.closed = s.closed :=
  runQuery_inv env (fun s' _ => s'.closed = s.closed) (fun s' t h => by rw [step_closed]; exact h) s q rfl

/-- Sequential, no faults: invariants after a query. -/
theorem runQuery_good_eq {env : Env R} {s : State R} (q : Query) (hc : CacheInv env s) (h0 : s.closed = []) :
    CacheInv env (runQuery env s q).1 ∧ Good Eq env (runQuery env s q).2 := by
  have := runQuery_inv env (fun s t => (CacheInv env s ∧ s.closed = []) ∧ Good Eq env t)
    (fun s t h => ⟨⟨step_cacheInv h.1.1 h.2.1, by rw [step_closed]; exact h.1.2⟩, step_good_eq h.1.1 h.1.2 h.2⟩)
    s q ⟨⟨hc, h0⟩, good_init _ env q⟩
  exact ⟨this.1.1, this.2⟩

/-- Sequential, any fault state. -/
theorem runQuery_good_sub {env : Env R} {s : State R} (q : Query) (hc : CacheInv env s) :
    CacheInv env (runQuery env s q).1 ∧ Good List.Sublist env (runQuery env s q).2 := by
  exact runQuery_inv env (fun s t => CacheInv env s ∧ Good List.Sublist env t)
    (fun s t h => ⟨step_cacheInv h.1 h.2.1, step_good_sub h.1 h.2⟩) s q ⟨hc, good_init _ env q⟩

/-! ### schedules -/

/-- Global invariant of a configuration. -/
def CInv (rel : List R → List R → Prop) (env : Env R) (c : Config R) : Prop :=
  CacheInv env c.state ∧ ∀ t ∈ c.threads, Good rel env t

theorem exec_cinv_sub {env : Env R} {c : Config R} (e : Ev) (h : CInv List.Sublist env c) :
    CInv List.Sublist env (c.exec env e) := by
  cases e with
  | close l => exact ⟨h.1, h.2⟩
  | run tid =>
    simp only [Config.exec]
    cases ht : c.threads[tid]? with
    | none => exact h
    | some t =>
      have hm : t ∈ c.threads := List.mem_of_getElem? ht
      have hg := h.2 t hm
      refine ⟨step_cacheInv h.1 hg.1, ?_⟩
      intro t' ht'
      rcases List.mem_or_eq_of_mem_set ht' with h1 | h1
      · exact h.2 t' h1
      · rw [h1]; exact step_good_sub h.1 hg

theorem run_cinv_sub {env : Env R} (sched : List Ev) : ∀ (c : Config R), CInv List.Sublist env c →
    CInv List.Sublist env (c.run env sched) := by
  induction sched with
  | nil => intro c h; exact h
  | cons e rest ih => intro c h; exact ih _ (exec_cinv_sub e h)

theorem exec_cinv_eq {env : Env R} {c : Config R} (tid : Nat) (h : CInv Eq env c ∧ c.state.closed = []) :
    CInv Eq env (c.exec env (.run tid)) ∧ (c.exec env (.run tid)).state.closed = [] := by
  simp only [Config.exec]
  cases ht : c.threads[tid]? with
  | none => exact h
  | some t =>
    have hm : t ∈ c.threads := List.mem_of_getElem? ht
    have hg := h.1.2 t hm
    refine ⟨⟨step_cacheInv h.1.1 hg.1, ?_⟩, by simp only [step_closed]; exact h.2⟩
    intro t' ht'
    rcases List.mem_or_eq_of_mem_set ht' with h1 | h1
    · exact h.1.2 t' h1
    · rw [h1]; exact step_good_eq h.1.1 h.2 hg

theorem run_cinv_eq {env : Env R} (sched : List Nat) : ∀ (c : Config R), CInv Eq env c ∧ c.state.closed = [] →
    CInv Eq env (c.run env (sched.map Ev.run)) ∧ (c.run env (sched.map Ev.run)).state.closed = [] := by
  induction sched with
  | nil => intro c h; exact h
  | cons e rest ih => intro c h; exact ih _ (exec_cinv_eq e h)

end UF.Prog

import UF.Model.Rule
/- Helper lemmas about option masks (`Nat` bit operations). -/
namespace UF

theorem and_two_pow_beq (n k : Nat) : ((n &&& 2 ^ k) == 2 ^ k) = n.testBit k := by
  apply Bool.eq_iff_iff.mpr
  simp only [beq_iff_eq]
  constructor
  · intro h
    have := congrArg (fun x => x.testBit k) h
    simpa [Nat.testBit_and, Nat.testBit_two_pow_self] using this
  · intro h
    apply Nat.eq_of_testBit_eq
    intro i
    simp only [Nat.testBit_and, Nat.testBit_two_pow]
    by_cases hik : k = i
    · subst hik; simp [h]
    · simp [hik]

theorem testBit_foldl_or {α} (f : α → Nat) (l : List α) (acc k : Nat) :
    (l.foldl (fun a m => a ||| f m) acc).testBit k = (acc.testBit k || l.any (fun m => (f m).testBit k)) := by
  induction l generalizing acc with
  | nil => simp
  | cons x xs ih => simp [ih, Nat.testBit_or, Bool.or_assoc]

theorem bv_foldl_or {α n} (f : α → BitVec n) (l : List α) (acc : BitVec n) :
    l.foldl (fun a m => a ||| f m) acc = acc ||| l.foldl (fun a m => a ||| f m) 0 := by
  induction l generalizing acc with
  | nil => simp
  | cons x xs ih => simp only [List.foldl_cons]; rw [ih, ih (0 ||| f x)]; simp [BitVec.or_assoc]

end UF

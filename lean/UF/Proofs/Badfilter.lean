import UF.Spec.Result
import UF.Proofs.Bits
/- Helper lemmas for C08. -/
namespace UF

/-- An appending loop with a test is a filter. -/
theorem foldl_append_if {α} (p : α → Bool) (l : List α) (init : List α) :
    l.foldl (fun acc r => if p r then acc ++ [r] else acc) init = init ++ l.filter p := by
  induction l generalizing init with
  | nil => simp
  | cons x xs ih =>
    simp only [List.foldl_cons, ih, List.filter_cons]
    by_cases h : p x = true <;> simp [h]

theorem collectBadfilter_eq (rs : List NetRule) : collectBadfilter rs = rs.filter (·.badfilter) := by
  unfold collectBadfilter NetRule.badfilter
  rw [foldl_append_if]; simp

/-- The repaired `removeBadfilterRules` is the reference filter. -/
theorem removeBadfilterRules_eq_spec (rs : List NetRule) : removeBadfilterRules rs = specRemoveBad rs := by
  unfold removeBadfilterRules specRemoveBad
  simp only [collectBadfilter_eq]
  by_cases h : (rs.filter (·.badfilter)).length > 0
  · simp only [h, if_true]
    have : ∀ (filtered : List NetRule) (rule : NetRule),
        (if rule.isEnabled Facts.OptionBadfilter = true then filtered
          else
            let negated := (rs.filter (·.badfilter)).any (fun b => negatesBadfilter b rule)
            if (!negated) = true then filtered ++ [rule] else filtered) =
        (if (!rule.badfilter && !rs.any (fun b => b.badfilter && negatesBadfilter b rule)) = true
          then filtered ++ [rule] else filtered) := by
      intro filtered rule
      simp only [List.any_filter]
      show (if rule.badfilter = true then _ else _) = _
      cases rule.badfilter <;> simp
    simp only [this]
    rw [foldl_append_if]; simp
  · simp only [h, if_false]
    have hnil : rs.filter (·.badfilter) = [] := by
      cases hf : rs.filter (·.badfilter) with
      | nil => rfl
      | cons a as => rw [hf] at h; simp at h
    have hall : ∀ r ∈ rs, r.badfilter = false := by
      intro r hr
      have := List.filter_eq_nil_iff.mp hnil r hr
      simpa using this
    symm
    apply List.filter_eq_self.mpr
    intro r hr
    have h1 := hall r hr
    have h2 : rs.any (fun b => b.badfilter && negatesBadfilter b r) = false := by
      apply List.any_eq_false.mpr
      intro b hb
      simp [hall b hb]
    simp [h1, h2]

/-- Equality of the matching-relevant fields, field by field. -/
theorem matchFields_eq_iff (a b : NetRule) : a.matchFields = b.matchFields ↔
    (a.whitelist = b.whitelist ∧ a.pattern = b.pattern ∧ a.permDomains = b.permDomains ∧
     a.restrDomains = b.restrDomains ∧ a.denyallow = b.denyallow ∧ a.permDns = b.permDns ∧
     a.restrDns = b.restrDns ∧ a.permTags = b.permTags ∧ a.restrTags = b.restrTags ∧
     a.permClients = b.permClients ∧ a.restrClients = b.restrClients ∧ a.enabled = b.enabled ∧
     a.disabled = b.disabled ∧ a.permTypes = b.permTypes ∧ a.restrTypes = b.restrTypes ∧
     a.rewrite = b.rewrite) := by
  cases a; cases b; simp [NetRule.matchFields]

/-- `negatesBadfilter` is exactly the twin relation: `b` carries `$badfilter` and `b` with the bit
    flipped agrees with `r` on every matching-relevant field. -/
theorem negatesBadfilter_eq_isTwin (b r : NetRule) : negatesBadfilter b r = isTwin b r := by
  unfold negatesBadfilter isTwin
  apply Bool.eq_iff_iff.mpr
  rw [Bool.and_eq_true, decide_eq_true_eq, matchFields_eq_iff]
  show _ ↔ b.badfilter = true ∧ (b.whitelist = r.whitelist ∧ b.pattern = r.pattern ∧ b.permDomains = r.permDomains ∧
     b.restrDomains = r.restrDomains ∧ b.denyallow = r.denyallow ∧ b.permDns = r.permDns ∧
     b.restrDns = r.restrDns ∧ b.permTags = r.permTags ∧ b.restrTags = r.restrTags ∧
     b.permClients = r.permClients ∧ b.restrClients = r.restrClients ∧ (b.enabled ^^^ Facts.OptionBadfilter) = r.enabled ∧
     b.disabled = r.disabled ∧ b.permTypes = r.permTypes ∧ b.restrTypes = r.restrTypes ∧
     b.rewrite = r.rewrite)
  have hb : b.isEnabled Facts.OptionBadfilter = b.badfilter := rfl
  rw [hb]
  cases b.badfilter
  · simp
  · simp only [Bool.not_true, Bool.false_or, true_and]
    simp only [Bool.if_false_left, Bool.and_true, Bool.not_eq_true']
    constructor
    · intro h; simp_all
    · intro h; simp_all

theorem negatesBadfilter_badfilter (b r : NetRule) (h : negatesBadfilter b r = true) : b.badfilter = true := by
  rw [negatesBadfilter_eq_isTwin] at h
  unfold isTwin at h
  simp only [Bool.and_eq_true] at h
  exact h.1

theorem any_congr_mem {α} (l : List α) (f g : α → Bool) (h : ∀ a ∈ l, f a = g a) : l.any f = l.any g := by
  induction l with
  | nil => rfl
  | cons x xs ih =>
    simp only [List.any_cons]
    rw [h x (by simp), ih (fun a ha => h a (by simp [ha]))]

/-- General form of "adding rules together with their badfilter twins changes nothing": `E` marks
    the extra rules; every extra rule is a badfilter rule or is negated by a badfilter rule of the list,
    and the extra badfilter rules negate no base rule. -/
theorem specRemoveBad_extras (L' : List NetRule) (E : NetRule → Bool)
    (H1 : ∀ e ∈ L', E e = true → e.badfilter = true ∨ ∃ b ∈ L', b.badfilter = true ∧ negatesBadfilter b e = true)
    (H2 : ∀ e ∈ L', E e = true → e.badfilter = true → ∀ r ∈ L', E r = false → negatesBadfilter e r = false) :
    specRemoveBad L' = specRemoveBad (L'.filter (fun r => !E r)) := by
  unfold specRemoveBad
  rw [List.filter_filter]
  apply List.filter_congr
  intro r hr
  cases hE : E r with
  | true =>
    simp only [Bool.not_true, Bool.and_false]
    rcases H1 r hr hE with h | ⟨b, hb, hbb, hn⟩
    · simp [h]
    · have : L'.any (fun b => b.badfilter && negatesBadfilter b r) = true :=
        List.any_eq_true.mpr ⟨b, hb, by simp [hbb, hn]⟩
      simp [this]
  | false =>
    simp only [Bool.not_false, Bool.and_true, List.any_filter]
    congr 2
    apply any_congr_mem
    intro a ha
    cases hEa : E a with
    | false => simp
    | true =>
      cases hba : a.badfilter with
      | false => simp
      | true => simp [H2 a ha hEa hba r hr hE]

/-- One twin pair at arbitrary positions, rule first. -/
theorem specRemoveBad_twin_xb (l1 l2 l3 : List NetRule) (x xb : NetRule)
    (hx : x.badfilter = false) (htw : negatesBadfilter xb x = true)
    (hdist : ∀ r ∈ l1 ++ l2 ++ l3, negatesBadfilter xb r = false) :
    specRemoveBad (l1 ++ x :: l2 ++ xb :: l3) = specRemoveBad (l1 ++ l2 ++ l3) := by
  have hxb := negatesBadfilter_badfilter xb x htw
  have key : ∀ r, (l1 ++ x :: l2 ++ xb :: l3).any (fun b => b.badfilter && negatesBadfilter b r) =
      ((l1 ++ l2 ++ l3).any (fun b => b.badfilter && negatesBadfilter b r) || negatesBadfilter xb r) := by
    intro r
    simp only [List.any_append, List.any_cons, hx, hxb, Bool.false_and, Bool.false_or, Bool.true_and, List.append_assoc]
    cases List.any l1 _ <;> cases List.any l2 _ <;> cases List.any l3 _ <;> cases negatesBadfilter xb r <;> rfl
  unfold specRemoveBad
  simp only [key]
  simp only [List.filter_append, List.filter_cons, hx, hxb, htw, Bool.not_true, Bool.and_false, Bool.false_and,
    Bool.or_true, Bool.false_eq_true, if_false, Bool.not_false, List.append_assoc]
  have hc : ∀ l : List NetRule, (∀ r ∈ l, r ∈ l1 ++ l2 ++ l3) →
      l.filter (fun r => !r.badfilter && !((l1 ++ (l2 ++ l3)).any (fun b => b.badfilter && negatesBadfilter b r) || negatesBadfilter xb r)) =
      l.filter (fun r => !r.badfilter && !(l1 ++ (l2 ++ l3)).any (fun b => b.badfilter && negatesBadfilter b r)) := by
    intro l hl
    apply List.filter_congr
    intro r hr
    rw [hdist r (hl r hr)]; simp
  rw [hc l1 (by intro r hr; simp [hr]), hc l2 (by intro r hr; simp [hr]), hc l3 (by intro r hr; simp [hr])]

/-- One twin pair at arbitrary positions, badfilter rule first. -/
theorem specRemoveBad_twin_bx (l1 l2 l3 : List NetRule) (x xb : NetRule)
    (hx : x.badfilter = false) (htw : negatesBadfilter xb x = true)
    (hdist : ∀ r ∈ l1 ++ l2 ++ l3, negatesBadfilter xb r = false) :
    specRemoveBad (l1 ++ xb :: l2 ++ x :: l3) = specRemoveBad (l1 ++ l2 ++ l3) := by
  have hxb := negatesBadfilter_badfilter xb x htw
  have key : ∀ r, (l1 ++ xb :: l2 ++ x :: l3).any (fun b => b.badfilter && negatesBadfilter b r) =
      ((l1 ++ l2 ++ l3).any (fun b => b.badfilter && negatesBadfilter b r) || negatesBadfilter xb r) := by
    intro r
    simp only [List.any_append, List.any_cons, hx, hxb, Bool.false_and, Bool.false_or, Bool.true_and, List.append_assoc]
    cases List.any l1 _ <;> cases List.any l2 _ <;> cases List.any l3 _ <;> cases negatesBadfilter xb r <;> rfl
  unfold specRemoveBad
  simp only [key]
  simp only [List.filter_append, List.filter_cons, hx, hxb, htw, Bool.not_true, Bool.and_false, Bool.false_and,
    Bool.or_true, Bool.false_eq_true, if_false, Bool.not_false, List.append_assoc]
  have hc : ∀ l : List NetRule, (∀ r ∈ l, r ∈ l1 ++ l2 ++ l3) →
      l.filter (fun r => !r.badfilter && !((l1 ++ (l2 ++ l3)).any (fun b => b.badfilter && negatesBadfilter b r) || negatesBadfilter xb r)) =
      l.filter (fun r => !r.badfilter && !(l1 ++ (l2 ++ l3)).any (fun b => b.badfilter && negatesBadfilter b r)) := by
    intro l hl
    apply List.filter_congr
    intro r hr
    rw [hdist r (hl r hr)]; simp
  rw [hc l1 (by intro r hr; simp [hr]), hc l2 (by intro r hr; simp [hr]), hc l3 (by intro r hr; simp [hr])]

/-- Setting and then flipping the badfilter bit of a rule that does not carry it gives the rule back. -/
theorem or_xor_two_pow (m k : Nat) (h : m.testBit k = false) : (m ||| 2 ^ k) ^^^ 2 ^ k = m := by
  apply Nat.eq_of_testBit_eq
  intro i
  simp only [Nat.testBit_xor, Nat.testBit_or, Nat.testBit_two_pow]
  by_cases hki : k = i
  · subst hki; simp [h]
  · simp [hki]

theorem flip_withBadfilter (x : NetRule) (hx : x.badfilter = false) : x.withBadfilter.flipBadfilter = x := by
  have h3 : x.enabled.testBit 3 = false := by
    have : ((x.enabled &&& 2 ^ 3) == 2 ^ 3) = false := hx
    rwa [and_two_pow_beq] at this
  have : (x.enabled ||| 2 ^ 3) ^^^ 2 ^ 3 = x.enabled := or_xor_two_pow _ _ h3
  cases x
  simp only [NetRule.withBadfilter, NetRule.flipBadfilter, NetRule.mk.injEq, true_and, and_true]
  exact this

theorem withBadfilter_badfilter (x : NetRule) : x.withBadfilter.badfilter = true := by
  show ((x.enabled ||| 2 ^ 3) &&& 2 ^ 3 == 2 ^ 3) = true
  rw [and_two_pow_beq, Nat.testBit_or, Nat.testBit_two_pow]; simp

/-- The matching-relevant fields determine `$badfilter` and the flipped rule's matching fields. -/
theorem badfilter_congr (a b : NetRule) (h : a.matchFields = b.matchFields) : a.badfilter = b.badfilter := by
  have := (matchFields_eq_iff a b).mp h
  unfold NetRule.badfilter NetRule.isEnabled
  rw [this.2.2.2.2.2.2.2.2.2.2.2.1]

theorem flip_matchFields_congr (a b : NetRule) (h : a.matchFields = b.matchFields) :
    a.flipBadfilter.matchFields = b.flipBadfilter.matchFields := by
  have := (matchFields_eq_iff a b).mp h
  rw [matchFields_eq_iff]
  simp only [NetRule.flipBadfilter]
  obtain ⟨h1, h2, h3, h4, h5, h6, h7, h8, h9, h10, h11, h12, h13, h14, h15, h16⟩ := this
  simp [*]

end UF

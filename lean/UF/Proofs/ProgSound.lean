import UF.Proofs.ProgRun
/-
  C19, "never lie": with lists closed at arbitrary points `Tot` is no longer constant, but every entry a
  thread has collected is GENUINE (`EntryOK`: the rule the unmodified lists hold at that index, of the
  kind the table wants, and it matches the request) and comes from an item of the stateless work list
  (`Known`).  Hence every returned rule is in the stateless answer (`sound_answer`).

  Note on order: with the `ruleIn` de-duplication a degraded concurrent answer need not be a
  SUB-SEQUENCE of the fault-free one (the first occurrence of an index may fail while a later one is
  served from the cache another thread filled in between), so the statement is about membership.
-/
namespace UF.Prog
variable {R Re : Type}

/-- A collected entry is genuine. -/
def EntryOK (env : Env R Re) (req : Request) (e : Item × R) : Prop :=
  match e.1 with
  | .st src idx => env.truth idx = some e.2 ∧ env.wants src e.2 = true ∧ env.verdict src e.2 req = true
  | .seq k => env.resident[k]? = some e.2 ∧ env.mtch e.2 req = true

/-- The item belongs to the stateless work list of the stage. -/
def Known (env : Env R Re) (req : Request) (stage : Bool) (it : Item) : Prop :=
  if stage then ∃ idx ∈ env.hcands req, it = .st .host idx else it ∈ env.items1 req

/-- The item a thread is working on. -/
def pendItem (t : Thread R) : Option Item :=
  match t.pc with
  | .get src idx => some (.st src idx)
  | .read src idx => some (.st src idx)
  | .put src idx _ => some (.st src idx)
  | .use src idx _ => some (.st src idx)
  | .seq k => some (.seq k)
  | .prep it _ => some it
  | .rx it _ => some it
  | _ => none

structure Sound (env : Env R Re) (t : Thread R) : Prop where
  acc_ok : ∀ e ∈ t.acc, EntryOK env t.req e ∧ (Known env t.req false e.1 ∨ Known env t.req true e.1)
  todo_ok : ∀ it ∈ t.todo, Known env t.req t.stage it
  pend_ok : ∀ it, pendItem t = some it → Known env t.req t.stage it
  prep_src : ∀ src idx r, (t.pc = .prep (.st src idx) r ∨ t.pc = .rx (.st src idx) r) →
    env.wants src r = true ∧ (src == Src.host) = false

theorem sound_init (env : Env R Re) (q : Query) : Sound env (Thread.init q : Thread R) := by
  constructor <;> simp [Thread.init, pendItem]

theorem sound_advance {env : Env R Re} {t : Thread R}
    (hacc : ∀ e ∈ t.acc, EntryOK env t.req e ∧ (Known env t.req false e.1 ∨ Known env t.req true e.1))
    (htodo : ∀ it ∈ t.todo, Known env t.req t.stage it) : Sound env t.advance := by
  unfold Thread.advance
  split
  · next h => split <;> exact ⟨hacc, by simp [h], by simp [pendItem], by simp⟩
  · next src idx rest h =>
    rw [h] at htodo
    refine ⟨hacc, fun it hi => htodo it (List.mem_cons_of_mem _ hi), ?_, by simp⟩
    intro it hi
    simp only [pendItem, Option.some.injEq] at hi
    subst hi
    exact htodo _ (List.mem_cons_self)
  · next k rest h =>
    rw [h] at htodo
    refine ⟨hacc, fun it hi => htodo it (List.mem_cons_of_mem _ hi), ?_, by simp⟩
    intro it hi
    simp only [pendItem, Option.some.injEq] at hi
    subst hi
    exact htodo _ (List.mem_cons_self)

theorem known_items2 {env : Env R Re} {q : Query} {req : Request} {nrs : List R} {it : Item}
    (h : it ∈ env.items2 q req nrs) : Known env req true it := by
  unfold Env.items2 at h
  cases q with
  | web _ => simp at h
  | dns _ =>
    simp only at h
    split at h
    · simp at h
    · simp only [List.mem_map] at h
      obtain ⟨idx, hi, rfl⟩ := h
      simp only [Known, if_true]
      exact ⟨idx, hi, rfl⟩

/-- Every action preserves soundness -- in ANY fault state. -/
theorem step_sound {env : Env R Re} {s : State R Re} {t : Thread R} (hs : SInv env s) (hg : Good env s t)
    (h : Sound env t) : Sound env (step env s t).2 := by
  have ht := hg.1
  have hrx := hg.2.1
  rcases t with ⟨q, pc, req, todo, acc, stage⟩
  have same : ∀ (pc' : PC R), pendItem ({ q := q, pc := pc', req := req, todo := todo, acc := acc, stage := stage } : Thread R) =
      pendItem ({ q := q, pc := pc, req := req, todo := todo, acc := acc, stage := stage } : Thread R) →
      (∀ src idx r, (pc' = .prep (.st src idx) r ∨ pc' = .rx (.st src idx) r) →
        env.wants src r = true ∧ (src == Src.host) = false) →
      Sound env ({ q := q, pc := pc', req := req, todo := todo, acc := acc, stage := stage } : Thread R) := by
    intro pc' hp hprep
    exact ⟨h.acc_ok, h.todo_ok, fun it hi => h.pend_ok it (by rw [← hp]; exact hi), hprep⟩
  cases pc with
  | start =>
    cases q with
    | dns d =>
      simp only [step, stepG]
      split
      · constructor <;> simp [pendItem]
      · exact sound_advance (by simp) (by intro it hi; simpa [Known] using hi)
    | web r =>
      simp only [step, stepG]
      exact sound_advance (by simp) (by intro it hi; simpa [Known] using hi)
  | get src idx =>
    simp only [step, stepG]; split
    · exact same _ rfl (by simp)
    · exact same _ rfl (by simp)
  | read src idx =>
    simp only [step, stepG]; split
    · exact same _ rfl (by simp)
    · split
      · exact same _ rfl (by simp)
      · exact same _ rfl (by simp)
  | put src idx r =>
    simp only [step, stepG]; split
    · exact same _ rfl (by simp)
    · exact same _ rfl (by simp)
  | use src idx o =>
    have hk := h.pend_ok (.st src idx) rfl
    simp only [step, stepG]
    cases o with
    | none => simp only [if_true]; exact sound_advance h.acc_ok h.todo_ok
    | some r =>
      have hu := ht.use_ok _ _ _ rfl
      simp only
      split
      · exact sound_advance h.acc_ok h.todo_ok
      · split
        · next hh =>
          split
          · next hp =>
            refine sound_advance ?_ h.todo_ok
            intro e he
            simp only [List.mem_append, List.mem_singleton] at he
            rcases he with he | he
            · exact h.acc_ok e he
            · subst he
              refine ⟨⟨hu.1, hu.2, by simp [Env.verdict, hh, hp]⟩, ?_⟩
              simp only at hk
              cases hst : stage
              · left; rw [hst] at hk; exact hk
              · right; rw [hst] at hk; exact hk
          · exact sound_advance h.acc_ok h.todo_ok
        · next hh =>
          split
          · refine same _ rfl ?_
            intro src' idx' r' h'
            simp only [PC.prep.injEq, Item.st.injEq, reduceCtorEq, or_false] at h'
            obtain ⟨⟨h1, h2⟩, h3⟩ := h'
            subst h1; subst h2; subst h3
            exact ⟨hu.2, by simpa using hh⟩
          · exact sound_advance h.acc_ok h.todo_ok
  | seq k =>
    simp only [step, stepG]
    split
    · exact sound_advance h.acc_ok h.todo_ok
    · split
      · exact same _ rfl (by simp)
      · exact sound_advance h.acc_ok h.todo_ok
  | prep it r =>
    obtain ⟨hob, hpre⟩ := ht.prep_ok it r (Or.inl rfl)
    simp only at hpre
    have hk := h.pend_ok it rfl
    simp only [step, stepG]
    split
    · refine same _ rfl ?_
      intro src idx r' h'
      simp only [reduceCtorEq, PC.rx.injEq, false_or] at h'
      obtain ⟨h1, h2⟩ := h'
      subst h1; subst h2
      exact h.prep_src src idx r (Or.inl rfl)
    · exact sound_advance h.acc_ok h.todo_ok
    · split
      · next hx =>
        refine sound_advance ?_ h.todo_ok
        intro e he
        simp only [List.mem_append, List.mem_singleton] at he
        rcases he with he | he
        · exact h.acc_ok e he
        · subst he
          have hm : env.mtch r req = true := by simp [Env.mtch, Env.patOK, hx, hpre]
          refine ⟨?_, ?_⟩
          · cases it with
            | st src idx =>
              obtain ⟨hw, hh⟩ := h.prep_src src idx r (Or.inl rfl)
              exact ⟨hob, hw, by rw [verdict_not_host env hh]; exact hm⟩
            | seq k => exact ⟨hob, hm⟩
          · simp only at hk
            cases hst : stage
            · left; rw [hst] at hk; exact hk
            · right; rw [hst] at hk; exact hk
      · refine same _ rfl ?_
        intro src idx r' h'
        simp only [reduceCtorEq, PC.rx.injEq, false_or] at h'
        obtain ⟨h1, h2⟩ := h'
        subst h1; subst h2
        exact h.prep_src src idx r (Or.inl rfl)
      · exact sound_advance h.acc_ok h.todo_ok
  | rx it r =>
    obtain ⟨hob, hpre⟩ := ht.prep_ok it r (Or.inr rfl)
    simp only at hpre
    have hk := h.pend_ok it rfl
    obtain ⟨x, hx⟩ := hrx it r rfl
    have hcr := cell_compiled hs.2 hob hx
    simp only [step, stepG, hx]
    split
    · next ha =>
      refine sound_advance ?_ h.todo_ok
      intro e he
      simp only [List.mem_append, List.mem_singleton] at he
      rcases he with he | he
      · exact h.acc_ok e he
      · subst he
        have hm : env.mtch r req = true := by simp [Env.mtch, Env.patOK, hcr, hpre, ha]
        refine ⟨?_, ?_⟩
        · cases it with
          | st src idx =>
            obtain ⟨hw, hh⟩ := h.prep_src src idx r (Or.inr rfl)
            exact ⟨hob, hw, by rw [verdict_not_host env hh]; exact hm⟩
          | seq k => exact ⟨hob, hm⟩
        · simp only at hk
          cases hst : stage
          · left; rw [hst] at hk; exact hk
          · right; rw [hst] at hk; exact hk
    · exact sound_advance h.acc_ok h.todo_ok
  | mid =>
    simp only [step, stepG]
    exact sound_advance h.acc_ok (fun it hi => known_items2 hi)
  | fin =>
    cases q <;> simp only [step, stepG] <;> exact ⟨h.acc_ok, h.todo_ok, by simp [pendItem], by simp⟩
  | done => exact h
  | crash => exact h

/-! ### genuine entries are in the stateless answer -/

/-- Entries of storage items hold the rule of their index. -/
def AccTruth (env : Env R Re) (acc : List (Item × R)) : Prop :=
  ∀ e ∈ acc, ∀ src idx, e.1 = .st src idx → env.truth idx = some e.2

theorem pureStep_mono (env : Env R Re) (req : Request) (acc : List (Item × R)) (it : Item) (e : Item × R)
    (h : e ∈ acc) : e ∈ pureStep env req acc it := by
  cases it with
  | st src idx =>
    simp only [pureStep, useStep]
    split
    · exact h
    · split
      · exact h
      · split
        · exact List.mem_append_left _ h
        · exact h
  | seq k =>
    simp only [pureStep, seqStep]
    split
    · exact h
    · split
      · exact List.mem_append_left _ h
      · exact h

theorem pureFold_mono (env : Env R Re) (req : Request) (items : List Item) : ∀ (acc : List (Item × R)) (e : Item × R),
    e ∈ acc → e ∈ pureFold env req acc items := by
  induction items with
  | nil => intro acc e h; exact h
  | cons it rest ih => intro acc e h; exact ih _ e (pureStep_mono env req acc it e h)

theorem pureStep_accTruth (env : Env R Re) (req : Request) (acc : List (Item × R)) (it : Item)
    (h : AccTruth env acc) : AccTruth env (pureStep env req acc it) := by
  cases it with
  | st src idx =>
    simp only [pureStep, useStep]
    split
    · exact h
    · next r hr =>
      have htr : env.truth idx = some r := by
        cases ht : env.truth idx with
        | none => rw [ht] at hr; simp at hr
        | some r' => rw [ht] at hr; rw [(filter_some_eq hr).1]
      split
      · exact h
      · split
        · intro e he src' idx' hs
          simp only [List.mem_append, List.mem_singleton] at he
          rcases he with he | he
          · exact h e he src' idx' hs
          · subst he
            simp only [Item.st.injEq] at hs
            rw [← hs.2]; exact htr
        · exact h
  | seq k =>
    simp only [pureStep, seqStep]
    split
    · exact h
    · split
      · intro e he src' idx' hs
        simp only [List.mem_append, List.mem_singleton] at he
        rcases he with he | he
        · exact h e he src' idx' hs
        · subst he; simp at hs
      · exact h

/-- A genuine entry of an item is produced when the stateless fold reaches that item. -/
theorem mem_pureStep_self (env : Env R Re) (req : Request) (acc : List (Item × R)) (it : Item) (r : R)
    (hacc : AccTruth env acc) (hok : EntryOK env req (it, r)) : (it, r) ∈ pureStep env req acc it := by
  cases it with
  | st src idx =>
    obtain ⟨h1, h2, h3⟩ := hok
    simp only at h1 h2 h3
    have hf : (env.truth idx).filter (env.wants src) = some r := by simp [h1, Option.filter, h2]
    simp only [pureStep, useStep, hf]
    split
    · next hd =>
      simp only [Bool.and_eq_true, beq_iff_eq] at hd
      obtain ⟨hsrc, hin⟩ := hd
      subst hsrc
      simp only [ruleIn, List.any_eq_true, beq_iff_eq] at hin
      obtain ⟨e, he, hee⟩ := hin
      have := hacc e he _ _ hee
      rw [h1] at this
      have h4 : e = (Item.st .sc idx, r) := by
        rcases e with ⟨e1, e2⟩
        simp only at hee this
        rw [hee, ← Option.some.inj this]
      rw [← h4]; exact he
    · simp
  | seq k =>
    obtain ⟨h1, h2⟩ := hok
    simp only at h1 h2
    simp [pureStep, seqStep, h1, h2]

theorem mem_pureFold (env : Env R Re) (req : Request) (it : Item) (r : R) (hok : EntryOK env req (it, r)) :
    ∀ (items : List Item) (acc : List (Item × R)), AccTruth env acc → it ∈ items →
      (it, r) ∈ pureFold env req acc items := by
  intro items
  induction items with
  | nil => intro acc _ h; cases h
  | cons it0 rest ih =>
    intro acc hacc hmem
    rw [pureFold_cons]
    by_cases h0 : it = it0
    · subst h0
      exact pureFold_mono env req rest _ _ (mem_pureStep_self env req acc it r hacc hok)
    · rcases List.mem_cons.1 hmem with h | h
      · exact absurd h h0
      · exact ih _ (pureStep_accTruth env req acc it0 hacc) h

theorem accTruth_nil (env : Env R Re) : AccTruth env [] := fun _ h => by cases h

theorem accTruth_pureFold (env : Env R Re) (req : Request) (items : List Item) : ∀ (acc : List (Item × R)),
    AccTruth env acc → AccTruth env (pureFold env req acc items) := by
  induction items with
  | nil => intro acc h; exact h
  | cons it rest ih => intro acc h; exact ih _ (pureStep_accTruth env req acc it h)

theorem mem_nets {acc : List (Item × R)} {r : R} : r ∈ nets acc ↔ ∃ it, it.isHost = false ∧ (it, r) ∈ acc := by
  simp only [nets, List.mem_map, List.mem_filter]
  constructor
  · rintro ⟨⟨it, r'⟩, ⟨hm, hh⟩, rfl⟩; exact ⟨it, by simpa using hh, hm⟩
  · rintro ⟨it, hh, hm⟩; exact ⟨(it, r), ⟨hm, by simp [hh]⟩, rfl⟩

theorem mem_hosts {acc : List (Item × R)} {r : R} : r ∈ hosts acc ↔ ∃ it, it.isHost = true ∧ (it, r) ∈ acc := by
  simp only [hosts, List.mem_map, List.mem_filter]
  constructor
  · rintro ⟨⟨it, r'⟩, ⟨hm, hh⟩, rfl⟩; exact ⟨it, hh, hm⟩
  · rintro ⟨it, hh, hm⟩; exact ⟨(it, r), ⟨hm, hh⟩, rfl⟩

theorem items1_not_host {env : Env R Re} {req : Request} {it : Item} (h : it ∈ env.items1 req) : it.isHost = false := by
  simp only [Env.items1, List.mem_append, List.mem_map] at h
  rcases h with ⟨c, _, rfl⟩ | ⟨k, _, rfl⟩
  · cases c.1 <;> rfl
  · rfl

/-- NEVER LIE: every rule a finished thread returns is in the stateless answer -- the network rules in the
    fault-free network answer, the host rules in what the hosts table holds for the name -- and satisfies
    `EntryOK` (genuine, wanted kind, matches). -/
theorem sound_answer {env : Env R Re} {t : Thread R} (ht : TInv env t) (h : Sound env t) (hd : t.pc = .done) :
    (∀ r ∈ t.answer.1, r ∈ (pureAnswer env t.q).1) ∧ (∀ r ∈ t.answer.2, r ∈ pureHosts env (env.reqOf t.q)) ∧
      (∀ e ∈ t.acc, EntryOK env (env.reqOf t.q) e) := by
  have hs : t.pc ≠ .start := by rw [hd]; simp
  cases hq : t.q.trivial with
  | true =>
    have := (ht.triv hq hs).2
    simp [Thread.answer, this, nets_nil, hosts_nil]
  | false =>
    have hreq := ht.req_eq hs hq
    refine ⟨?_, ?_, ?_⟩
    · intro r hr
      obtain ⟨it, hh, hm⟩ := mem_nets.1 hr
      obtain ⟨hok, hk⟩ := h.acc_ok _ hm
      have hit : it ∈ env.items1 t.req := by
        rcases hk with hk | hk
        · simpa [Known] using hk
        · simp only [Known, if_true] at hk
          obtain ⟨idx, _, rfl⟩ := hk
          simp [Item.isHost] at hh
      have h1 : (it, r) ∈ pure1 env t.req := mem_pureFold env t.req it r hok _ _ (accTruth_nil env) hit
      have h2 : (it, r) ∈ pure2 env t.q t.req := pureFold_mono env t.req _ _ _ h1
      simp only [pureAnswer, hq, Bool.false_eq_true, if_false, ← hreq]
      exact mem_nets.2 ⟨it, hh, h2⟩
    · intro r hr
      obtain ⟨it, hh, hm⟩ := mem_hosts.1 hr
      obtain ⟨hok, hk⟩ := h.acc_ok _ hm
      rw [← hreq]
      rcases hk with hk | hk
      · have := items1_not_host (by simpa [Known] using hk : it ∈ env.items1 t.req)
        rw [this] at hh; cases hh
      · simp only [Known, if_true] at hk
        obtain ⟨idx, hi, rfl⟩ := hk
        exact mem_hosts.2 ⟨_, rfl, mem_pureFold env t.req _ r hok _ _ (accTruth_nil env)
          (List.mem_map.2 ⟨idx, hi, rfl⟩)⟩
    · intro e he; rw [← hreq]; exact (h.acc_ok e he).1

/-- Sequential, any fault state: soundness after a query. -/
theorem runQuery_sound {env : Env R Re} {s : State R Re} (q : Query) (hs : SInv env s) :
    Sound env (runQuery env s q).2 := by
  have := runQuery_inv env (fun s t => SInv env s ∧ Good env s t ∧ Sound env t)
    (fun s t h => ⟨step_sinv h.1 h.2.1.1, step_good h.1 h.2.1, step_sound h.1 h.2.1 h.2.2⟩)
    s q ⟨hs, good_init env s q, sound_init env q⟩
  exact this.2.2

theorem run_cinv_sound {env : Env R Re} (sched : List Ev) : ∀ (c : Config R Re), CInv (Sound env) env c →
    CInv (Sound env) env (c.run env sched) := by
  induction sched with
  | nil => intro c h; exact h
  | cons e rest ih =>
    intro c h
    cases e with
    | run tid => exact ih _ (exec_run_cinv tid (fun t hg hsd => step_sound h.1 hg hsd) h)
    | close l => exact ih _ (exec_close_cinv l h)

end UF.Prog

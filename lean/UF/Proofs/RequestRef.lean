import UF.Proofs.RequestLabels
/-
  Helper lemmas for C17 (`c17_request_eq_ref`): on the URL grammar the reference reading of a URL
  and the model agree.
-/
namespace UF.H
open Bytes

theorem indexOf_go_scheme (pre rest : Bytes) (k : Nat) (h : pre.all (fun c => c != ch ':') = true) :
    indexOf.go (lit "://") (pre ++ ch ':' :: ch '/' :: ch '/' :: rest) k = some (k + pre.length) := by
  have hl : lit "://" = [ch ':', ch '/', ch '/'] := by decide
  induction pre generalizing k with
  | nil =>
    simp only [List.nil_append, indexOf.go, List.length_nil, Nat.add_zero]
    have : hasPrefix (ch ':' :: ch '/' :: ch '/' :: rest) (lit "://") = true := by
      rw [hl]; simp [hasPrefix]
    simp [this]
  | cons a t ih =>
    simp only [List.all_cons, Bool.and_eq_true, bne_iff_ne, ne_eq] at h
    have hnp : hasPrefix (a :: (t ++ ch ':' :: ch '/' :: ch '/' :: rest)) (lit "://") = false := by
      have : (a == ch ':') = false := by simpa using h.1
      rw [hl]
      simp [hasPrefix, this]
    simp only [List.cons_append, indexOf.go, hnp, Bool.false_eq_true, if_false]
    rw [ih (k + 1) h.2]
    simp only [List.length_cons]
    congr 1
    omega

theorem takeWhile_append_stop (p : UInt8 → Bool) (host tail : Bytes)
    (hh : host.all p = true) (ht : match tail with | [] => True | c :: _ => p c = false) :
    (host ++ tail).takeWhile p = host := by
  induction host with
  | nil =>
    cases tail with
    | nil => rfl
    | cons c r => simp [ht]
  | cons a t ih =>
    simp only [List.all_cons, Bool.and_eq_true] at hh
    simp [hh.1, ih hh.2]

/-- What `goodURLParts` says, unpacked. -/
theorem goodURLParts_unpack {scheme host tail : Bytes} (h : goodURLParts scheme host tail = true) :
    scheme ≠ [] ∧ scheme.all (fun c => c != ch '/') = true ∧ scheme.all (fun c => c != ch ':') = true ∧
    host ≠ [] ∧ host.all (fun c => !isStop c) = true ∧
    host.any (fun c => c == ch '#' || c == ch '@') = false ∧
    (tail = [] ∨ ∃ c r, tail = c :: r ∧ isStop c = true) := by
  simp only [goodURLParts, Bool.and_eq_true, Bool.not_eq_eq_eq_not, Bool.not_true] at h
  obtain ⟨⟨⟨⟨hs0, hs⟩, hh0⟩, hh⟩, ht⟩ := h
  refine ⟨?_, ?_, ?_, ?_, ?_, ?_, ?_⟩
  · intro he; subst he; simp at hs0
  · simp only [List.all_eq_true] at hs ⊢
    intro x hx; have := hs x hx; simp only [Bool.and_eq_true] at this; exact this.1
  · simp only [List.all_eq_true] at hs ⊢
    intro x hx; have := hs x hx; simp only [Bool.and_eq_true] at this; exact this.2
  · intro he; subst he; simp at hh0
  · simp only [List.all_eq_true] at hh ⊢
    intro x hx
    have := hh x hx
    simp only [isStop]
    cases h1 : x == ch '/' <;> cases h2 : x == ch ':' <;> cases h3 : x == ch '?' <;> simp_all
  · simp only [List.all_eq_true] at hh
    rw [List.any_eq_false]
    intro x hx
    have := hh x hx
    cases h1 : x == ch '#' <;> cases h2 : x == ch '@' <;> simp_all
  · cases tail with
    | nil => left; rfl
    | cons c r => right; exact ⟨c, r, rfl, by simpa [isStop, Bool.or_assoc] using ht⟩

theorem refURLHost_good (scheme host tail : Bytes) (h : goodURLParts scheme host tail = true) :
    refURLHost (scheme ++ lit "://" ++ host ++ tail) = some host := by
  obtain ⟨hs0, hsl, hsc, hh0, hhs, hhx, ht⟩ := goodURLParts_unpack h
  have hl : lit "://" = [ch ':', ch '/', ch '/'] := by decide
  have hurl : scheme ++ lit "://" ++ host ++ tail = scheme ++ ch ':' :: ch '/' :: ch '/' :: (host ++ tail) := by
    rw [hl]; simp
  unfold refURLHost indexOf
  rw [hurl, indexOf_go_scheme _ _ _ hsc]
  simp only [Nat.zero_add, List.take_left']
  have hsch : (scheme.isEmpty || scheme.any fun c => c == ch '/' || c == ch ':') = false := by
    have h1 : scheme.isEmpty = false := by
      cases scheme with
      | nil => exact absurd rfl hs0
      | cons a t => rfl
    have h2 : (scheme.any fun c => c == ch '/' || c == ch ':') = false := by
      rw [List.any_eq_false]
      intro x hx
      have a1 := List.all_eq_true.mp hsl x hx
      have a2 := List.all_eq_true.mp hsc x hx
      simp only [bne_iff_ne, ne_eq] at a1 a2
      simp [a1, a2]
    simp [h1, h2]
  simp only [hsch, Bool.false_eq_true, if_false]
  have hdrop : (scheme ++ ch ':' :: ch '/' :: ch '/' :: (host ++ tail)).drop (scheme.length + 3) = host ++ tail := by
    have : scheme ++ ch ':' :: ch '/' :: ch '/' :: (host ++ tail) = (scheme ++ [ch ':', ch '/', ch '/']) ++ (host ++ tail) := by simp
    rw [this]
    have hlen : scheme.length + 3 = (scheme ++ [ch ':', ch '/', ch '/']).length := by simp
    rw [hlen, List.drop_left]
  rw [hdrop]
  have htw : (host ++ tail).takeWhile (fun c => !(c == ch '/' || c == ch ':' || c == ch '?')) = host := by
    apply takeWhile_append_stop
    · simpa [isStop] using hhs
    · rcases ht with ht | ⟨c, r, ht, hc⟩
      · subst ht; trivial
      · subst ht
        simp only [isStop] at hc
        simp only [hc, Bool.not_true]
  rw [htw]
  have hne : host.isEmpty = false := by
    cases host with
    | nil => exact absurd rfl hh0
    | cons a t => rfl
  simp [hne, hhx]

/-- One side (request URL or source URL) of `NewRequest` on the grammar. -/
theorem url_side (ext : Ext) (scheme host tail : Bytes) (h : goodURLParts scheme host tail = true)
    (hn : noEmptyLabel host = true) (hp : pslIsDotSuffix ext host) :
    extractHostname (scheme ++ lit "://" ++ host ++ tail) = .ok host ∧
    refURLHost (scheme ++ lit "://" ++ host ++ tail) = some host ∧
    ∃ e, effectiveTLDPlusOne ext host = .ok e ∧ (if !e.isEmpty then e else host) = refDomain ext host := by
  obtain ⟨_, hsl, _, _, hhs, _, ht⟩ := goodURLParts_unpack h
  refine ⟨extract_host_url scheme host tail hsl hhs ht, refURLHost_good scheme host tail h, ?_⟩
  refine ⟨_, effectiveTLDPlusOne_eq_ref ext host hn hp, ?_⟩
  unfold refDomain
  cases hr : refETLD1 ext host with
  | none => simp
  | some d =>
    have := refETLD1_ne_nil ext host d hn hr
    cases d with
    | nil => exact absurd rfl this
    | cons c r => simp

/-- The empty source URL. -/
theorem empty_side (ext : Ext) :
    extractHostname [] = .ok [] ∧
    ∃ e, effectiveTLDPlusOne ext [] = .ok e ∧ (if !e.isEmpty then e else ([] : Bytes)) = refDomain ext [] := by
  refine ⟨by rfl, [], by simp [effectiveTLDPlusOne], ?_⟩
  unfold refDomain refETLD1
  have hk : (splitByte (ext.psl []).1 (ch '.')) ≠ [] := splitByte_go_ne_nil _ _ _
  have : (splitByte [] (ch '.')).length ≤ (splitByte (ext.psl []).1 (ch '.')).length := by
    have h1 : (splitByte [] (ch '.')).length = 1 := by decide
    have h2 : 0 < (splitByte (ext.psl []).1 (ch '.')).length := List.length_pos_iff.mpr hk
    omega
  simp [this]

end UF.H

namespace UF.H
open Bytes

def c17Ext : Ext where
  psl := fun h =>
    if hasSuffix h (lit "co.uk") then (lit "co.uk", true)
    else if hasSuffix h (lit "com") then (lit "com", true) else ([], false)
  parseAddr := fun _ => none
  parsePrefix := fun _ => none
  pat := fun _ _ _ => false

end UF.H

import UF.Proofs.ProgRun
/-
  C19, "rules already materialised continue to be served": an index that is in the cache when a query
  starts is found by `cacheGet` (the cache never forgets a key), so the rule goes to `compile`+`Match`
  without touching the list, whatever lists are closed.
-/
namespace UF.Prog
variable {R : Type}

theorem step_cache (env : Env R) (s : State R) (t : Thread R) :
    (step env s t).1.cache = s.cache ∨ ∃ idx r, (step env s t).1.cache = cacheInsert s.cache idx r := by
  rcases t with ⟨q, pc, req, todo, acc⟩
  cases pc with
  | start => left; cases q <;> rfl
  | get idx => left; simp only [step]; split <;> rfl
  | read idx => left; simp only [step]; split <;> (try split) <;> rfl
  | put idx r =>
    simp only [step]; split
    · left; rfl
    · right; exact ⟨idx, r, rfl⟩
  | comp r => left; simp only [step]; split <;> rfl
  | fin => left; cases q <;> rfl
  | done => left; rfl

/-- The cache never forgets a key. -/
theorem step_lookup_isSome (env : Env R) (s : State R) (t : Thread R) (idx : Idx)
    (h : (cacheLookup s.cache idx).isSome) : (cacheLookup (step env s t).1.cache idx).isSome := by
  rcases step_cache env s t with h1 | ⟨i, r, h1⟩
  · rw [h1]; exact h
  · rw [h1]; exact cacheLookup_insert_isSome h

/-- Where the cached rule `r` of index `idx` is, from the point of view of a thread. -/
def Track (idx : Idx) (r : R) (t : Thread R) : Prop :=
  r ∈ t.acc ∨ idx ∈ t.todo ∨ t.pc = .get idx ∨ t.pc = .comp r

theorem track_advance {idx : Idx} {r : R} {t : Thread R} (h : r ∈ t.acc ∨ idx ∈ t.todo) : Track idx r t.advance := by
  unfold Thread.advance
  cases hd : t.todo with
  | nil => rcases h with h | h
           · exact Or.inl h
           · rw [hd] at h; simp at h
  | cons j rest =>
    rcases h with h | h
    · exact Or.inl h
    · rw [hd] at h
      rcases List.mem_cons.mp h with h | h
      · right; right; left; simp [h]
      · right; left; exact h

theorem step_track {env : Env R} {s : State R} {t : Thread R} {idx : Idx} {r : R}
    (hc : CacheInv env s) (hl : (cacheLookup s.cache idx).isSome) (htr : env.truth idx = some r)
    (hm : env.mtch r t.req = true) (hs : t.pc ≠ .start) (hk : Track idx r t) : Track idx r (step env s t).2 := by
  rcases t with ⟨q, pc, req, todo, acc⟩
  cases pc with
  | start => exact absurd rfl hs
  | get i =>
    simp only [step]
    rcases hk with hk | hk | hk | hk
    · split <;> exact Or.inl hk
    · split <;> exact Or.inr (Or.inl hk)
    · simp at hk; subst hk
      split
      · next r' h' =>
        have := hc _ _ (cacheLookup_mem h')
        rw [htr] at this; simp at this; subst this
        right; right; right; rfl
      · next h' => rw [h'] at hl; simp at hl
    · simp at hk
  | read i =>
    have hk' : r ∈ acc ∨ idx ∈ todo := by
      rcases hk with hk | hk | hk | hk
      · exact Or.inl hk
      · exact Or.inr hk
      · simp at hk
      · simp at hk
    simp only [step]; split
    · exact track_advance hk'
    · split
      · rcases hk' with h | h
        · exact Or.inl h
        · exact Or.inr (Or.inl h)
      · exact track_advance hk'
  | put i x =>
    simp only [step]
    rcases hk with hk | hk | hk | hk
    · split <;> exact Or.inl hk
    · split <;> exact Or.inr (Or.inl hk)
    · simp at hk
    · simp at hk
  | comp x =>
    simp only [step]
    apply track_advance
    rcases hk with hk | hk | hk | hk
    · left; split <;> simp [hk]
    · right; split <;> exact hk
    · simp at hk
    · simp at hk; subst hk
      simp at hm
      left; simp [hm]
  | fin =>
    rcases hk with hk | hk | hk | hk
    · cases q <;> exact Or.inl hk
    · cases q <;> exact Or.inr (Or.inl hk)
    · simp at hk
    · simp at hk
  | done => exact hk

/-- A cached, matching candidate is in the answer of a sequentially run query -- in ANY fault state. -/
theorem runQuery_cached {env : Env R} {s : State R} (q : Query) {idx : Idx} {r : R}
    (hc : CacheInv env s) (hin : (idx, r) ∈ s.cache) (hcand : idx ∈ env.cands (env.reqOf q))
    (hm : env.mtch r (env.reqOf q) = true) : r ∈ (runQuery env s q).2.answer env := by
  have htr := hc _ _ hin
  have hl : (cacheLookup s.cache idx).isSome := by
    unfold cacheLookup
    cases hf : s.cache.find? (fun e => e.1 == idx) with
    | some e => simp
    | none =>
      have := List.find?_eq_none.mp hf _ hin
      simp at this
  -- invariant of the solo run
  have inv := runQuery_inv env
    (fun s t => (CacheInv env s ∧ (cacheLookup s.cache idx).isSome) ∧ TInv env t ∧ t.q = q ∧ (t.pc ≠ .start → Track idx r t))
    (fun s t h => by
      refine ⟨⟨step_cacheInv h.1.1 h.2.1, step_lookup_isSome env s t idx h.1.2⟩, step_tinv h.2.1, by rw [step_q]; exact h.2.2.1, fun _ => ?_⟩
      by_cases hs : t.pc = .start
      · -- the first action: the candidates are computed
        rcases t with ⟨q', pc, req, todo, acc⟩
        simp at hs; subst hs
        have hq : q' = q := h.2.2.1
        subst hq
        cases q' with
        | dns d =>
          simp only [step]
          apply track_advance; right
          simp only [Env.reqOf] at hcand
          rw [fill_overwrites' env.etld1 _ d]; exact hcand
        | web w => simp only [step]; apply track_advance; right; exact hcand
      · have hreq := h.2.1.req_eq hs
        exact step_track h.1.1 h.1.2 htr (by rw [hreq, h.2.2.1]; exact hm) hs (h.2.2.2 hs))
    s q ⟨⟨hc, hl⟩, tinv_init env q, rfl, fun h => absurd rfl h⟩
  have hd := runQuery_done env s q
  have hk := inv.2.2.2 (by rw [hd]; simp)
  have htodo := inv.2.1.fin_todo (Or.inr hd)
  rcases hk with hk | hk | hk | hk
  · simp [Thread.answer, hk]
  · rw [htodo] at hk; simp at hk
  · rw [hd] at hk; simp at hk
  · rw [hd] at hk; simp at hk

end UF.Prog

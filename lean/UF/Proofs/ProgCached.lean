import UF.Proofs.ProgSound
/-
  C19, "rules already materialised continue to be served": an index that is in the cache when a query
  starts is found by `cacheGet` (the cache never forgets a key), so the rule goes to the nil check,
  `ruleIn`, `preparePattern` and `Match` without touching the list, whatever lists are closed; and the
  lazy-compile cell it meets is what compiling that rule gives (`CellInv`), so the verdict is the
  stateless one.
-/
namespace UF.Prog
variable {R Re : Type}

/-- The cache never forgets a key. -/
theorem step_lookup_isSome (env : Env R Re) (s : State R Re) (t : Thread R) (idx : Idx)
    (h : (cacheLookup s.cache idx).isSome) : (cacheLookup (step env s t).1.cache idx).isSome := by
  rcases step_cache env s t with h1 | ⟨i, r, _, h1⟩
  · rw [h1]; exact h
  · rw [h1]; exact cacheLookup_insert_isSome h

/-- Where the cached rule `r` of the work item `.st src idx` is, from the point of view of a thread. -/
def Track (src : Src) (idx : Idx) (r : R) (t : Thread R) : Prop :=
  (Item.st src idx, r) ∈ t.acc ∨ Item.st src idx ∈ t.todo ∨ t.pc = .get src idx ∨ t.pc = .use src idx (some r) ∨
    t.pc = .prep (.st src idx) r ∨ t.pc = .rx (.st src idx) r

theorem track_advance {src : Src} {idx : Idx} {r : R} {t : Thread R}
    (h : (Item.st src idx, r) ∈ t.acc ∨ Item.st src idx ∈ t.todo) : Track src idx r t.advance := by
  unfold Thread.advance
  split
  · next hd =>
    rcases h with h | h
    · split <;> exact Or.inl h
    · rw [hd] at h; cases h
  · next src' idx' rest hd =>
    rcases h with h | h
    · exact Or.inl h
    · rw [hd] at h
      rcases List.mem_cons.mp h with h | h
      · simp only [Item.st.injEq] at h
        right; right; left; simp [h.1, h.2]
      · right; left; exact h
  · next k rest hd =>
    rcases h with h | h
    · exact Or.inl h
    · rw [hd] at h
      rcases List.mem_cons.mp h with h | h
      · cases h
      · right; left; exact h

theorem step_track {env : Env R Re} {s : State R Re} {t : Thread R} {src : Src} {idx : Idx} {r : R}
    (hs : SInv env s) (hg : Good env s t) (hsd : Sound env t) (hl : (cacheLookup s.cache idx).isSome)
    (htr : env.truth idx = some r) (hw : env.wants src r = true) (hv : env.verdict src r t.req = true)
    (hst : t.pc ≠ .start) (hk : Track src idx r t) : Track src idx r (step env s t).2 := by
  have ht := hg.1
  have hrx := hg.2.1
  rcases t with ⟨q, pc, req, todo, acc, stage⟩
  simp only at hv
  -- a thread whose program counter moves within an item that is not ours keeps `acc` and `todo`
  have other : ∀ (pc' : PC R), ((Item.st src idx, r) ∈ acc ∨ Item.st src idx ∈ todo) →
      Track src idx r ({ q := q, pc := pc', req := req, todo := todo, acc := acc, stage := stage } : Thread R) := by
    intro pc' h
    rcases h with h | h
    · exact Or.inl h
    · exact Or.inr (Or.inl h)
  cases pc with
  | start => exact absurd rfl hst
  | get src' idx' =>
    simp only [step, stepG]
    rcases hk with hk | hk | hk | hk | hk | hk
    · split <;> exact other _ (Or.inl hk)
    · split <;> exact other _ (Or.inr hk)
    · simp only [PC.get.injEq] at hk
      obtain ⟨h1, h2⟩ := hk
      subst h1; subst h2
      split
      · next r' h' =>
        have := hs.1 _ _ (cacheLookup_mem h')
        rw [htr] at this; cases this
        right; right; right; left
        simp [Option.filter, hw]
      · next h' => rw [h'] at hl; simp at hl
    · simp at hk
    · simp at hk
    · simp at hk
  | read src' idx' =>
    have hk' : (Item.st src idx, r) ∈ acc ∨ Item.st src idx ∈ todo := by
      rcases hk with hk | hk | hk | hk | hk | hk
      · exact Or.inl hk
      · exact Or.inr hk
      all_goals simp at hk
    simp only [step, stepG]; split
    · exact other _ hk'
    · split <;> exact other _ hk'
  | put src' idx' x =>
    have hk' : (Item.st src idx, r) ∈ acc ∨ Item.st src idx ∈ todo := by
      rcases hk with hk | hk | hk | hk | hk | hk
      · exact Or.inl hk
      · exact Or.inr hk
      all_goals simp at hk
    simp only [step, stepG]; split <;> exact other _ hk'
  | use src' idx' o =>
    simp only [step, stepG]
    rcases hk with hk | hk | hk | hk | hk | hk
    · -- already collected: stays collected
      cases o with
      | none => simp only [if_true]; exact track_advance (Or.inl hk)
      | some x =>
        simp only
        split
        · exact track_advance (Or.inl hk)
        · split
          · split
            · exact track_advance (Or.inl (List.mem_append_left _ hk))
            · exact track_advance (Or.inl hk)
          · split
            · exact other _ (Or.inl hk)
            · exact track_advance (Or.inl hk)
    · cases o with
      | none => simp only [if_true]; exact track_advance (Or.inr hk)
      | some x =>
        simp only
        split
        · exact track_advance (Or.inr hk)
        · split
          · split <;> exact track_advance (Or.inr hk)
          · split
            · exact other _ (Or.inr hk)
            · exact track_advance (Or.inr hk)
    · simp at hk
    · -- our item: the pointer is not nil
      simp only [PC.use.injEq] at hk
      obtain ⟨h1, h2, h3⟩ := hk
      subst src' idx' o
      simp only
      split
      · next hdup =>
        -- `ruleIn`: the rule of this index is already in the result
        simp only [Bool.and_eq_true, beq_iff_eq] at hdup
        obtain ⟨hsrc, hin⟩ := hdup
        subst hsrc
        simp only [ruleIn, List.any_eq_true, beq_iff_eq] at hin
        obtain ⟨e, he, hee⟩ := hin
        have hok := (hsd.acc_ok e he).1
        rcases e with ⟨e1, e2⟩
        simp only at hee
        subst hee
        have : env.truth idx = some e2 := hok.1
        rw [htr] at this; cases this
        exact track_advance (Or.inl he)
      · split
        · next hh =>
          have hp : env.pre r req = true := by simpa [Env.verdict, hh] using hv
          simp only [hp, if_true]
          exact track_advance (Or.inl (by simp))
        · next hh =>
          have hh' : (src == Src.host) = false := by simpa using hh
          rw [verdict_not_host env hh'] at hv
          have hp : env.pre r req = true := by
            simp only [Env.mtch, Bool.and_eq_true] at hv; exact hv.1
          simp only [hp, if_true]
          right; right; right; right; left; rfl
    · simp at hk
    · simp at hk
  | seq k =>
    have hk' : (Item.st src idx, r) ∈ acc ∨ Item.st src idx ∈ todo := by
      rcases hk with hk | hk | hk | hk | hk | hk
      · exact Or.inl hk
      · exact Or.inr hk
      all_goals simp at hk
    simp only [step, stepG]
    split
    · exact track_advance hk'
    · split
      · exact other _ hk'
      · exact track_advance hk'
  | prep it x =>
    obtain ⟨hob, hpre⟩ := ht.prep_ok it x (Or.inl rfl)
    simp only [step, stepG]
    rcases hk with hk | hk | hk | hk | hk | hk
    · split
      · exact other _ (Or.inl hk)
      · exact track_advance (Or.inl hk)
      · split
        · exact track_advance (Or.inl (List.mem_append_left _ hk))
        · exact other _ (Or.inl hk)
        · exact track_advance (Or.inl hk)
    · split
      · exact other _ (Or.inr hk)
      · exact track_advance (Or.inr hk)
      · split
        · exact track_advance (Or.inr hk)
        · exact other _ (Or.inr hk)
        · exact track_advance (Or.inr hk)
    · simp at hk
    · simp at hk
    · -- our item at `preparePattern`
      simp only [PC.prep.injEq] at hk
      obtain ⟨h1, h2⟩ := hk
      subst it x
      have hh := (hsd.prep_src src idx r (Or.inl rfl)).2
      rw [verdict_not_host env hh] at hv
      have hpat : env.patOK r req = true := by
        simp only [Env.mtch, Bool.and_eq_true] at hv; exact hv.2
      split
      · right; right; right; right; right; rfl
      · next hx =>
        have hb := cell_invalid hs.2 hob hx
        simp [Env.patOK, hb] at hpat
      · split
        · exact track_advance (Or.inl (by simp))
        · right; right; right; right; right; rfl
        · next hx => simp [Env.patOK, hx] at hpat
    · simp at hk
  | rx it x =>
    obtain ⟨hob, hpre⟩ := ht.prep_ok it x (Or.inr rfl)
    obtain ⟨y, hy⟩ := hrx it x rfl
    simp only [step, stepG, hy]
    rcases hk with hk | hk | hk | hk | hk | hk
    · split
      · exact track_advance (Or.inl (List.mem_append_left _ hk))
      · exact track_advance (Or.inl hk)
    · split <;> exact track_advance (Or.inr hk)
    · simp at hk
    · simp at hk
    · simp at hk
    · simp only [PC.rx.injEq] at hk
      obtain ⟨h1, h2⟩ := hk
      subst it x
      have hh := (hsd.prep_src src idx r (Or.inr rfl)).2
      rw [verdict_not_host env hh] at hv
      have hpat : env.patOK r req = true := by
        simp only [Env.mtch, Bool.and_eq_true] at hv; exact hv.2
      have hcr := cell_compiled hs.2 hob hy
      have ha : env.accepts y r req = true := by simpa [Env.patOK, hcr] using hpat
      simp only [ha, if_true]
      exact track_advance (Or.inl (by simp))
  | mid =>
    have hk' : (Item.st src idx, r) ∈ acc := by
      have htodo := ht.end_todo (Or.inl rfl)
      simp only at htodo
      rcases hk with hk | hk | hk | hk | hk | hk
      · exact hk
      · rw [htodo] at hk; cases hk
      all_goals simp at hk
    simp only [step, stepG]
    exact track_advance (Or.inl hk')
  | fin =>
    have hk' : (Item.st src idx, r) ∈ acc ∨ Item.st src idx ∈ todo := by
      rcases hk with hk | hk | hk | hk | hk | hk
      · exact Or.inl hk
      · exact Or.inr hk
      all_goals simp at hk
    cases q <;> simp only [step, stepG] <;> exact other _ hk'
  | done => exact hk
  | crash => exact hk

/-- A cached, matching candidate of the network tables is in the answer of a sequentially run query -- in
    ANY fault state, whatever the lazy-compile cells hold. -/
theorem runQuery_cached {env : Env R Re} {s : State R Re} (q : Query) {b : Bool} {idx : Idx} {r : R}
    (hs : SInv env s) (hq : q.trivial = false) (hin : (idx, r) ∈ s.cache)
    (hcand : (b, idx) ∈ env.cands (env.reqOf q)) (hw : env.wants (if b then .sc else .dom) r = true)
    (hm : env.mtch r (env.reqOf q) = true) : r ∈ (runQuery env s q).2.answer.1 := by
  have htr := hs.1 _ _ hin
  have hl := cacheLookup_isSome_of_mem hin
  generalize hsrc : (if b then Src.sc else Src.dom) = src at hw
  have hnh : (src == Src.host) = false := by subst hsrc; cases b <;> rfl
  have hitem : Item.st src idx ∈ env.items1 (env.reqOf q) := by
    subst hsrc
    simp only [Env.items1, List.mem_append, List.mem_map]
    left; exact ⟨(b, idx), hcand, rfl⟩
  -- invariant of the solo run
  have inv := runQuery_inv env
    (fun s t => (SInv env s ∧ (cacheLookup s.cache idx).isSome) ∧ Good env s t ∧ Sound env t ∧ t.q = q ∧
      (t.pc ≠ .start → Track src idx r t))
    (fun s t h => by
      refine ⟨⟨step_sinv h.1.1 h.2.1.1, step_lookup_isSome env s t idx h.1.2⟩, step_good h.1.1 h.2.1,
        step_sound h.1.1 h.2.1 h.2.2.1, by rw [step_q]; exact h.2.2.2.1, fun _ => ?_⟩
      by_cases hst : t.pc = .start
      · -- the first action: the work list is computed
        have hreq := (step_tot_start env s t hst (by rw [h.2.2.2.1]; exact hq)).2
        rcases t with ⟨q', pc, req, todo, acc, stage⟩
        simp only at hst; subst hst
        have hqq : q' = q := h.2.2.2.1
        subst hqq
        cases q' with
        | dns d =>
          have hd : d.hostname.isEmpty = false := by simpa [Query.trivial] using hq
          simp only [step, stepG, hd, Bool.false_eq_true, if_false] at hreq ⊢
          simp only [advance_req] at hreq
          apply track_advance; right
          simp only
          rw [hreq]; exact hitem
        | web w => simp only [step, stepG]; apply track_advance; right; exact hitem
      · have hreq := h.2.1.1.req_eq hst (by rw [h.2.2.2.1]; exact hq)
        exact step_track h.1.1 h.2.1 h.2.2.1 h.1.2 htr hw
          (by rw [hreq, h.2.2.2.1, verdict_not_host env hnh]; exact hm) hst (h.2.2.2.2 hst))
    s q ⟨⟨hs, hl⟩, good_init env s q, sound_init env q, rfl, fun h => absurd rfl h⟩
  have hd := (runQuery_good q hs).2.2
  have hk := inv.2.2.2.2 (by rw [hd]; simp)
  have htodo := inv.2.1.1.end_todo (Or.inr (Or.inr hd))
  rcases hk with hk | hk | hk | hk | hk | hk
  · exact mem_nets.2 ⟨_, by subst hsrc; cases b <;> rfl, hk⟩
  · rw [htodo] at hk; cases hk
  all_goals (rw [hd] at hk; cases hk)

/-! ### the hosts table (second stage of `MatchRequest`) -/

theorem nets_append_host {acc : List (Item × R)} {idx : Idx} {r : R} :
    nets (acc ++ [(Item.st .host idx, r)]) = nets acc := by
  simp [nets, Item.isHost]

/-- In the second stage only host entries are appended: the network rules found stay what they were at `mid`. -/
theorem step_nets_stage2 {env : Env R Re} {s : State R Re} {t : Thread R} (hsd : Sound env t) (hst : t.stage = true)
    (hstart : t.pc ≠ .start) : nets (step env s t).2.acc = nets t.acc := by
  rcases t with ⟨q, pc, req, todo, acc, stage⟩
  simp only at hst; subst hst
  have hostPend : ∀ it, pendItem ({ q := q, pc := pc, req := req, todo := todo, acc := acc, stage := true } : Thread R) = some it →
      ∃ idx, it = .st .host idx := by
    intro it hit
    have := hsd.pend_ok it hit
    simp only [Known, if_true] at this
    obtain ⟨idx, _, h⟩ := this
    exact ⟨idx, h⟩
  cases pc with
  | start => exact absurd rfl hstart
  | use src idx o =>
    obtain ⟨idx', h'⟩ := hostPend (.st src idx) rfl
    simp only [Item.st.injEq] at h'
    obtain ⟨h1, _⟩ := h'
    subst h1
    simp only [step, stepG]
    cases o with
    | none => simp
    | some r =>
      simp only
      split
      · simp
      · simp only [show (Src.host == Src.host) = true from rfl, if_true]
        split
        · simp [nets_append_host]
        · simp
  | prep it r =>
    obtain ⟨idx', h'⟩ := hostPend it rfl
    subst h'
    have := (hsd.prep_src .host idx' r (Or.inl rfl)).2
    simp at this
  | rx it r =>
    obtain ⟨idx', h'⟩ := hostPend it rfl
    subst h'
    have := (hsd.prep_src .host idx' r (Or.inr rfl)).2
    simp at this
  | seq k =>
    obtain ⟨idx', h'⟩ := hostPend (.seq k) rfl
    cases h'
  | _ =>
    simp only [step, stepG] <;> repeat' split
    all_goals simp

/-- A cached, matching host rule of the bucket is in the answer of a sequentially run DNS query whenever the
    (possibly degraded) network rules found leave the decision to the hosts table -- in ANY fault state. -/
theorem runQuery_cached_host {env : Env R Re} {s : State R Re} (d : DReq) {idx : Idx} {r : R}
    (hs : SInv env s) (hq : d.hostname.isEmpty = false) (hin : (idx, r) ∈ s.cache)
    (hcand : idx ∈ env.hcands (env.reqOf (.dns d))) (hw : env.wants .host r = true)
    (hm : env.pre r (env.reqOf (.dns d)) = true)
    (hb : env.basic (runQuery env s (.dns d)).2.answer.1 = false) :
    r ∈ (runQuery env s (.dns d)).2.answer.2 := by
  have htr := hs.1 _ _ hin
  have hl := cacheLookup_isSome_of_mem hin
  have hqt : (Query.dns d).trivial = false := by simpa [Query.trivial] using hq
  have inv := runQuery_inv env
    (fun s t => (SInv env s ∧ (cacheLookup s.cache idx).isSome) ∧ Good env s t ∧ Sound env t ∧ t.q = .dns d ∧
      (t.stage = true → t.pc ≠ .start → env.basic (nets t.acc) = false → Track .host idx r t))
    (fun s t h => by
      refine ⟨⟨step_sinv h.1.1 h.2.1.1, step_lookup_isSome env s t idx h.1.2⟩, step_good h.1.1 h.2.1,
        step_sound h.1.1 h.2.1 h.2.2.1, by rw [step_q]; exact h.2.2.2.1, fun hstage _ hbasic => ?_⟩
      by_cases hst : t.pc = .start
      · -- the first action leaves the thread in the first stage
        exfalso
        rcases t with ⟨q', pc, req, todo, acc, stage⟩
        simp only at hst; subst hst
        have hqq : q' = .dns d := h.2.2.2.1
        subst hqq
        simp only [step, stepG, hq, Bool.false_eq_true, if_false, advance_stage] at hstage
      · have hqt' : t.q.trivial = false := by rw [h.2.2.2.1]; exact hqt
        have hreq := h.2.1.1.req_eq hst hqt'
        by_cases hmid : t.pc = .mid
        · -- `mid`: the hosts table is consulted because no basic rule was found
          rcases t with ⟨q', pc, req, todo, acc, stage⟩
          simp only at hmid; subst hmid
          have hqq : q' = .dns d := h.2.2.2.1
          subst hqq
          simp only at hreq
          simp only [step, stepG, advance_acc] at hbasic ⊢
          apply track_advance; right
          simp only [Env.items2, hbasic, Bool.false_eq_true, if_false, List.mem_map]
          exact ⟨idx, by rw [hreq]; exact hcand, rfl⟩
        · have hstage' : t.stage = true := by rw [step_stage hst hmid] at hstage; exact hstage
          have hn := step_nets_stage2 (s := s) h.2.2.1 hstage' hst
          rw [hn] at hbasic
          exact step_track h.1.1 h.2.1 h.2.2.1 h.1.2 htr hw
            (by rw [hreq, h.2.2.2.1]; simpa [Env.verdict] using hm) hst (h.2.2.2.2 hstage' hst hbasic))
    s (.dns d) ⟨⟨hs, hl⟩, good_init env s _, sound_init env _, rfl, fun h => by simp [Thread.init] at h⟩
  have hd := (runQuery_good (.dns d) hs).2.2
  have hstage := inv.2.1.1.done_stage hd (by rw [inv.2.2.2.1]; exact hqt)
  have hk := inv.2.2.2.2 hstage (by rw [hd]; simp) hb
  have htodo := inv.2.1.1.end_todo (Or.inr (Or.inr hd))
  rcases hk with hk | hk | hk | hk | hk | hk
  · exact mem_hosts.2 ⟨_, rfl, hk⟩
  · rw [htodo] at hk; cases hk
  all_goals (rw [hd] at hk; cases hk)

end UF.Prog

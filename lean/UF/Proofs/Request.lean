import UF.Model.RequestNew
import UF.Spec.Request
import UF.Proofs.HostRuleDispatch
/-
  Helper lemmas for C17: bounds of the index functions, totality of `extractHostname` and
  `effectiveTLDPlusOne`, the URL grammar, label arithmetic for eTLD+1.
-/
namespace UF.H
open Bytes

/-! ### Bounds of the search functions -/

theorem hasPrefix_length {s m : Bytes} (h : hasPrefix s m = true) : m.length ≤ s.length := by
  induction m generalizing s with
  | nil => simp
  | cons b p ih =>
    cases s with
    | nil => simp [hasPrefix] at h
    | cons a t =>
      simp only [hasPrefix, Bool.and_eq_true] at h
      have := ih h.2
      simp only [List.length_cons]
      omega

theorem indexOf_go_bound (m s : Bytes) (k i : Nat) (h : indexOf.go m s k = some i) :
    k ≤ i ∧ i - k + m.length ≤ s.length := by
  induction s generalizing k with
  | nil =>
    simp only [indexOf.go] at h
    split at h
    · rename_i hm
      cases h
      have : m = [] := by simpa using hm
      simp [this]
    · cases h
  | cons a t ih =>
    rw [indexOf.go] at h
    split at h
    · rename_i hp
      cases h
      have := hasPrefix_length hp
      simp only [Nat.sub_self, Nat.zero_add]
      exact ⟨Nat.le_refl _, this⟩
    · have := ih (k + 1) h
      simp only [List.length_cons]
      omega

theorem indexOf_bound {s m : Bytes} {i : Nat} (h : indexOf s m = some i) : i + m.length ≤ s.length := by
  have := indexOf_go_bound m s 0 i h
  omega

theorem indexAny_go_bound (chars s : Bytes) (k i : Nat) (h : indexAny.go chars s k = some i) :
    k ≤ i ∧ i < k + s.length := by
  induction s generalizing k with
  | nil => simp [indexAny.go] at h
  | cons a t ih =>
    rw [indexAny.go] at h
    split at h
    · cases h; simp
    · have := ih (k + 1) h
      simp only [List.length_cons]
      omega

theorem indexAny_bound {s chars : Bytes} {i : Nat} (h : indexAny s chars = some i) : i < s.length := by
  have := indexAny_go_bound chars s 0 i h
  omega

theorem lastIndexByte_go_bound (c : UInt8) (s : Bytes) (k : Nat) (acc : Option Nat) (i : Nat)
    (h : lastIndexByte.go c s k acc = some i) : acc = some i ∨ (k ≤ i ∧ i < k + s.length) := by
  induction s generalizing k acc with
  | nil => simp [lastIndexByte.go] at h; exact Or.inl h
  | cons a t ih =>
    rw [lastIndexByte.go] at h
    rcases ih (k + 1) _ h with h1 | h1
    · split at h1
      · cases h1
        right
        simp
      · exact Or.inl h1
    · right
      simp only [List.length_cons]
      omega

theorem lastIndexByte_bound {s : Bytes} {c : UInt8} {i : Nat} (h : lastIndexByte s c = some i) :
    i < s.length := by
  rcases lastIndexByte_go_bound c s 0 none i h with h1 | h1
  · cases h1
  · omega

/-! ### Totality -/

theorem sliceE_noPanic {s : Bytes} {i j : Nat} (h1 : i ≤ j) (h2 : j ≤ s.length) :
    sliceE s i j ≠ .error .panic := by
  rw [sliceE_of_le h1 h2]; simp

theorem extractTail_noPanic (url : Bytes) (f n : Nat) (hn : n ≤ url.length) :
    (if n ≤ f then (.ok [] : Except HErr Bytes) else sliceE url f n) ≠ .error .panic := by
  split
  · simp
  · exact sliceE_noPanic (by omega) hn

/-- The start index computed by `ExtractHostname` (`none` = the early `return ""`). -/
def extractFirst (url : Bytes) : Option Nat :=
  match indexOf url (lit "//") with
  | some i => some (i + 2)
  | none =>
    match indexByte url (ch ':') with
    | none => none
    | some j => if j == 0 then none else some (j - 1)

theorem extractFirst_le {url : Bytes} {f : Nat} (hf : extractFirst url = some f) : f ≤ url.length := by
  unfold extractFirst at hf
  split at hf
  · rename_i i hi
    cases hf
    have := indexOf_bound hi
    simpa [lit] using this
  · split at hf
    · cases hf
    · rename_i j hj
      have := indexByte_lt hj
      split at hf
      · cases hf
      · cases hf
        omega

/-- `ExtractHostname` with the start index named. -/
theorem extractHostname_unfold (url : Bytes) :
    extractHostname url =
      match extractFirst url with
      | none => .ok []
      | some f =>
        let n := match indexAny (url.drop f) (lit "/:?") with
          | none => url.length
          | some k => k + f
        if n ≤ f then .ok [] else sliceE url f n := by
  unfold extractHostname
  show (match extractFirst url with | none => _ | some firstIdx => _) = _
  cases hf : extractFirst url with
  | none => rfl
  | some f =>
    have hle := extractFirst_le hf
    simp only
    rw [sliceE_of_le hle (Nat.le_refl _)]
    simp only [List.take_length]
    rfl

theorem extractHostname_noPanic (url : Bytes) : extractHostname url ≠ .error .panic := by
  rw [extractHostname_unfold]
  cases hf : extractFirst url with
  | none => simp
  | some f =>
    have hle := extractFirst_le hf
    simp only
    apply extractTail_noPanic
    cases hk : indexAny (url.drop f) (lit "/:?") with
    | none => exact Nat.le_refl _
    | some k =>
      have := indexAny_bound hk
      simp only [List.length_drop] at this
      simp only
      omega

/-- `effectiveTLDPlusOne` after its guards, with the checked operations resolved. -/
theorem effectiveTLDPlusOne_unfold (ext : Ext) (h : Bytes) :
    effectiveTLDPlusOne ext h =
      if h.length < 1 then .ok [] else
      if h.head? == some (ch '.') || h.getLast? == some (ch '.') then .ok [] else
      if h.length < (ext.psl h).1.length + 1 then .ok [] else
      let i := h.length - (ext.psl h).1.length - 1
      if h[i]? != some (ch '.') then .ok [] else
      let start := match lastIndexByte (h.take i) (ch '.') with
        | none => 0
        | some k => k + 1
      .ok (h.drop start) := by
  unfold effectiveTLDPlusOne
  simp only
  by_cases hn : h.length < 1
  · simp [hn]
  · have hpos : 0 < h.length := by omega
    simp only [hn, if_false]
    rw [idxE_of_lt hpos, idxE_of_lt (by omega : h.length - 1 < h.length)]
    simp only
    have h0 : h.head? = some h[0] := by
      cases h with
      | nil => simp at hpos
      | cons a t => simp
    have hl : h.getLast? = some h[h.length - 1] := by
      rw [List.getLast?_eq_getElem?, List.getElem?_eq_getElem (by omega)]
    rw [h0, hl]
    have hbeq : ∀ a b : UInt8, (some a == some b) = (a == b) := by intro a b; rfl
    simp only [hbeq]
    by_cases hdot : (h[0] == ch '.' || h[h.length - 1] == ch '.') = true
    · have : (h[0] = ch '.' ∨ h[h.length - 1] = ch '.') := by simpa using hdot
      simp [this]
    · have hdot' : ¬(h[0] = ch '.' ∨ h[h.length - 1] = ch '.') := by simpa using hdot
      simp only [hdot, hdot', Bool.false_eq_true, if_false]
      by_cases hlen : h.length < (ext.psl h).1.length + 1
      · simp [hlen]
      · simp only [hlen, if_false]
        have hi : h.length - (ext.psl h).1.length - 1 < h.length := by omega
        rw [idxE_of_lt hi]
        simp only [List.getElem?_eq_getElem hi]
        by_cases hc : (h[h.length - (ext.psl h).1.length - 1] != ch '.') = true
        · have : (some h[h.length - (ext.psl h).1.length - 1] != some (ch '.')) = true := by
            simpa using hc
          simp [hc, this]
        · have : (some h[h.length - (ext.psl h).1.length - 1] != some (ch '.')) = false := by
            simpa using hc
          simp only [hc, this, Bool.false_eq_true, if_false]
          rw [sliceE_of_le (Nat.zero_le _) (by omega)]
          simp only [List.drop_zero]
          cases hk : lastIndexByte (List.take (h.length - (ext.psl h).1.length - 1) h) (ch '.') with
          | none =>
            simp only
            rw [sliceE_of_le (Nat.zero_le _) (Nat.le_refl _)]
            simp
          | some k =>
            have := lastIndexByte_bound hk
            simp only [List.length_take] at this
            simp only
            rw [sliceE_of_le (by omega) (Nat.le_refl _)]
            simp

theorem effectiveTLDPlusOne_noPanic (ext : Ext) (h : Bytes) : effectiveTLDPlusOne ext h ≠ .error .panic := by
  rw [effectiveTLDPlusOne_unfold]
  simp only
  repeat' split
  all_goals simp

theorem capURL_eq (url : Bytes) : capURL url = .ok (url.take Facts.maxURLLength) := by
  unfold capURL
  split
  · rename_i h
    rw [sliceE_of_le (Nat.zero_le _) (by omega)]
    simp
  · rename_i h
    rw [List.take_of_length_le (by omega)]

theorem domainOrHost_noPanic (ext : Ext) (h : Bytes) : domainOrHost ext h ≠ .error .panic := by
  unfold domainOrHost
  have := effectiveTLDPlusOne_noPanic ext h
  split
  · rename_i e he
    intro hh
    simp at hh
    subst hh
    exact this he
  · simp

end UF.H

namespace UF.H
open Bytes

/-! ### The URL grammar -/

def isStop (c : UInt8) : Bool := c == ch '/' || c == ch ':' || c == ch '?'

theorem elem_stop (c : UInt8) : List.elem c (lit "/:?") = isStop c := by
  have : lit "/:?" = [ch '/', ch ':', ch '?'] := by decide
  rw [this]
  simp only [List.elem, isStop]
  cases h1 : c == ch '/' <;> cases h2 : c == ch ':' <;> cases h3 : c == ch '?' <;> rfl

theorem indexOf_go_slashes (pre rest : Bytes) (k : Nat) (h : pre.all (fun c => c != ch '/') = true) :
    indexOf.go (lit "//") (pre ++ ch '/' :: ch '/' :: rest) k = some (k + pre.length) := by
  induction pre generalizing k with
  | nil =>
    simp only [List.nil_append, indexOf.go, List.length_nil, Nat.add_zero]
    have : hasPrefix (ch '/' :: ch '/' :: rest) (lit "//") = true := by
      simp [lit, ch, hasPrefix]
    simp [this]
  | cons a t ih =>
    simp only [List.all_cons, Bool.and_eq_true, bne_iff_ne, ne_eq] at h
    have hnp : hasPrefix (a :: (t ++ ch '/' :: ch '/' :: rest)) (lit "//") = false := by
      have : (a == ch '/') = false := by simpa using h.1
      have hl : lit "//" = [ch '/', ch '/'] := by decide
      rw [hl]
      simp [hasPrefix, this]
    simp only [List.cons_append, indexOf.go, hnp, Bool.false_eq_true, if_false]
    rw [ih (k + 1) h.2]
    simp only [List.length_cons]
    congr 1
    omega

theorem indexAny_go_stop (host tail : Bytes) (k : Nat)
    (hh : host.all (fun c => !isStop c) = true) :
    indexAny.go (lit "/:?") (host ++ tail) k =
      match tail with
      | [] => none
      | c :: _ => if isStop c then some (k + host.length) else indexAny.go (lit "/:?") tail (k + host.length) := by
  induction host generalizing k with
  | nil =>
    cases tail with
    | nil => simp [indexAny.go]
    | cons c r =>
      simp only [List.nil_append, List.length_nil, Nat.add_zero]
      rw [indexAny.go, elem_stop]
      split <;> simp_all
  | cons a t ih =>
    simp only [List.all_cons, Bool.and_eq_true, Bool.not_eq_eq_eq_not, Bool.not_true] at hh
    simp only [List.cons_append, indexAny.go, elem_stop, hh.1, Bool.false_eq_true, if_false]
    rw [ih (k + 1) hh.2]
    simp only [List.length_cons]
    have : k + 1 + t.length = k + (t.length + 1) := by omega
    rw [this]

theorem extract_host_url (scheme host tail : Bytes)
    (hs : scheme.all (fun c => c != ch '/') = true)
    (hh : host.all (fun c => !isStop c) = true)
    (ht : tail = [] ∨ ∃ c r, tail = c :: r ∧ isStop c = true) :
    extractHostname (scheme ++ lit "://" ++ host ++ tail) = .ok host := by
  have hurl : scheme ++ lit "://" ++ host ++ tail =
      (scheme ++ [ch ':']) ++ ch '/' :: ch '/' :: (host ++ tail) := by
    have : lit "://" = [ch ':', ch '/', ch '/'] := by decide
    rw [this]; simp
  have hpre : (scheme ++ [ch ':']).all (fun c => c != ch '/') = true := by
    simp only [List.all_append, hs, Bool.true_and]
    decide
  have hfirst : extractFirst (scheme ++ lit "://" ++ host ++ tail) = some (scheme.length + 3) := by
    unfold extractFirst indexOf
    rw [hurl, indexOf_go_slashes _ _ _ hpre]
    simp
  have hdrop : (scheme ++ lit "://" ++ host ++ tail).drop (scheme.length + 3) = host ++ tail := by
    rw [hurl]
    have : scheme.length + 3 = (scheme ++ [ch ':']).length + 2 := by simp
    rw [this, ← List.drop_drop, List.drop_left]
    rfl
  have hlen : (scheme ++ lit "://" ++ host ++ tail).length = scheme.length + 3 + (host.length + tail.length) := by
    rw [hurl]; simp; omega
  rw [extractHostname_unfold, hfirst]
  simp only [hdrop]
  unfold indexAny
  rw [indexAny_go_stop host tail 0 hh]
  rcases ht with ht | ⟨c, r, ht, hc⟩
  · subst ht
    simp only [hlen, List.length_nil, Nat.add_zero, Nat.zero_add]
    by_cases hz : host.length = 0
    · have : host = [] := List.eq_nil_of_length_eq_zero hz
      subst this
      simp
    · have hn : ¬(scheme.length + 3 + host.length ≤ scheme.length + 3) := by omega
      simp only [hn, if_false]
      have h1 : scheme.length + 3 ≤ scheme.length + 3 + host.length := by omega
      have h2 : scheme.length + 3 + host.length ≤ (scheme ++ lit "://" ++ host ++ []).length := by
        rw [hlen]; simp
      rw [sliceE_of_le h1 h2]
      rw [List.drop_take, hdrop]
      simp
  · subst ht
    simp only [hc, if_true, Nat.zero_add]
    by_cases hz : host.length = 0
    · have : host = [] := List.eq_nil_of_length_eq_zero hz
      subst this
      simp
    · have hn : ¬(host.length + (scheme.length + 3) ≤ scheme.length + 3) := by omega
      simp only [hn, if_false]
      have h1 : scheme.length + 3 ≤ host.length + (scheme.length + 3) := by omega
      have h2 : host.length + (scheme.length + 3) ≤ (scheme ++ lit "://" ++ host ++ c :: r).length := by
        rw [hlen]; simp only [List.length_cons]; omega
      rw [sliceE_of_le h1 h2]
      rw [List.drop_take, hdrop]
      simp

end UF.H
